-- Root of the `YashModel` library: one import per area (theorem files pull in model/spec/lemmas).
import YashModel.Common.Proto
import YashModel.Job.Model
