/-
  C15 helper lemmas, part 15 (wave 3): the connection between the two models.  On the fragment they share —
  root tasks whose scripts use only `Y` (self-wake, `Pending`) and `C` / end of script (`Ready`) — the nested-step
  model (`NestedModel.lean`) and the main model (`Model.lean`) are the same executor: step for step the same
  queue, the same slots, the same trace (`Sim`, `sim_stepN`).
-/
import YashModel.Executor.NestedLive
import YashModel.Executor.Ops
namespace YashModel.Executor.Nested

/-- the actions the two models share -/
def ycOnly (sc : NScript) : Prop := ∀ a, a ∈ sc → a = .yield ∨ a = .complete

def toAct : NAct → Action
  | .yield => .yield
  | _ => .complete

def toScript (sc : NScript) : Script := sc.map toAct

def toEv : NEv → Ev
  | .enter t => .poll t
  | .exit t b => .ret t b
  | .noop t => .noop t
  | .guard t => .noop t
  | .idle => .noop 0

/-- the nested-step model and the main model are in the same executor state -/
structure Sim (ns : NState) (s : State) : Prop where
  q : ns.queue = s.queue
  n : ns.ntasks = s.ntasks
  fut : ∀ t, s.fut t = (ns.fut t).map toScript
  idle : ns.stack = [] ∧ ns.panicked = false
  yc : ∀ t sc, ns.fut t = some sc → ycOnly sc
  log : s.log = ns.log.map toEv
  nopoll : ∀ t w, s.relay t ≠ .polled w

theorem enq_idem (q : List Nat) (t : Nat) : enq (enq q t) t = enq q t := by
  have h : t ∈ enq q t := mem_enq_self q t
  generalize enq q t = q' at h ⊢
  simp [enq, h]

theorem ycOnly_tail {a : NAct} {sc : NScript} (h : ycOnly (a :: sc)) : ycOnly sc :=
  fun b hb => h b (List.mem_cons_of_mem _ hb)

/-- a script of the shared fragment either completes now or yields -/
theorem yc_cases (sc : NScript) (h : ycOnly sc) :
    (sc = [] ∨ ∃ rest, sc = .complete :: rest) ∨ ∃ rest, sc = .yield :: rest := by
  cases sc with
  | nil => exact Or.inl (Or.inl rfl)
  | cons a rest =>
    rcases h a (by simp) with rfl | rfl
    · exact Or.inr ⟨rest, rfl⟩
    · exact Or.inl (Or.inr ⟨rest, rfl⟩)

theorem nPoll_noop (d : Nat) (ns : NState) (t : Nat) (hst : ns.stack = []) (hf : ns.fut t = none) :
    nPoll (d + 1) ns t = nlog ns (.noop t) := by
  simp [nPoll, hst, hf]

theorem nPoll_ready (d : Nat) (ns : NState) (t : Nat) (sc : NScript) (hst : ns.stack = [])
    (hp : ns.panicked = false) (hf : ns.fut t = some sc) (hsc : sc = [] ∨ ∃ rest, sc = .complete :: rest) :
    nPoll (d + 1) ns t =
      { ns with known := upd ns.known t true, fut := upd ns.fut t none,
                log := ns.log ++ [.enter t] ++ [.exit t true] } := by
  rcases hsc with rfl | ⟨rest, rfl⟩ <;> simp [nPoll, nRun, hst, hf, hp, nlog]

theorem nPoll_yield (d : Nat) (ns : NState) (t : Nat) (rest : NScript) (hst : ns.stack = [])
    (hp : ns.panicked = false) (hf : ns.fut t = some (.yield :: rest)) :
    nPoll (d + 1) ns t =
      { ns with queue := enq ns.queue t, known := upd ns.known t true, fut := upd ns.fut t (some rest),
                log := ns.log ++ [.enter t] ++ [.exit t false] } := by
  simp [nPoll, nRun, hst, hf, hp, nlog, nwake]

theorem poll_ready (s : State) (t : Nat) (acts : Script) (hf : s.fut t = some acts)
    (ha : acts = [] ∨ ∃ rest, acts = .complete :: rest) (hr : ∀ w, s.relay t ≠ .polled w) :
    (poll s t).1.queue = s.queue ∧ (poll s t).1.ntasks = s.ntasks ∧
    (poll s t).1.fut = upd s.fut t none ∧ (poll s t).1.log = s.log ++ [.poll t] ++ [.ret t true] ∧
    (∀ x w, (∀ w', s.relay x ≠ .polled w') → (poll s t).1.relay x ≠ .polled w) := by
  rw [poll_some hf]
  have hrun : runActs t acts (logEv s (.poll t)) = (logEv s (.poll t), none) := by
    rcases ha with rfl | ⟨rest, rfl⟩ <;> rfl
  rw [hrun]
  simp only [pollDone, complete, send, logEv]
  cases hrel : s.relay t with
  | polled w => exact absurd hrel (hr w)
  | pending =>
    refine ⟨rfl, rfl, rfl, by simp, ?_⟩
    intro x w hx
    show upd s.relay t (.computed _) x ≠ _
    by_cases e : x = t
    · simp [upd_apply, e]
    · simp only [upd_apply, e, if_false]; exact hx w
  | computed v => exact ⟨rfl, rfl, rfl, by simp, fun x w hx => hx w⟩
  | done => exact ⟨rfl, rfl, rfl, by simp, fun x w hx => hx w⟩

theorem poll_yield (s : State) (t : Nat) (rest : Script) (hf : s.fut t = some (.yield :: rest)) :
    (poll s t).1.queue = enq s.queue t ∧ (poll s t).1.ntasks = s.ntasks ∧
    (poll s t).1.fut = upd s.fut t (some rest) ∧ (poll s t).1.log = s.log ++ [.poll t] ++ [.ret t false] ∧
    (poll s t).1.relay = s.relay := by
  rw [poll_some hf]
  simp only [runActs, pollDone, wake, logEv]
  exact ⟨enq_idem _ _, by first | rfl | trivial, by first | rfl | trivial, by simp, by first | rfl | trivial⟩

/-- one `Executor::step` of both models -/
theorem sim_step (ns : NState) (s : State) (h : Sim ns s) :
    (nStep ns = none ∧ step s = none) ∨
    (∃ ns' r, nStep ns = some ns' ∧ step s = some r ∧ Sim ns' r.1) := by
  cases hq : ns.queue with
  | nil =>
    left
    have hq' : s.queue = [] := by rw [← h.q, hq]
    exact ⟨by simp [nStep, h.idle.2, hq], by simp [step, hq']⟩
  | cons t q =>
    right
    have hq' : s.queue = t :: q := by rw [← h.q, hq]
    refine ⟨nPoll (ns.ntasks + 1) { ns with queue := q } t, poll { s with queue := q } t,
      by simp [nStep, h.idle.2, hq], by simp [step, hq'], ?_⟩
    have hst : ({ ns with queue := q } : NState).stack = [] := h.idle.1
    have hp : ({ ns with queue := q } : NState).panicked = false := h.idle.2
    cases hnf : ns.fut t with
    | none =>
      have hf' : ({ s with queue := q } : State).fut t = none := by
        show s.fut t = none; rw [h.fut t, hnf]; rfl
      rw [nPoll_noop _ _ t hst hnf, poll_none hf']
      exact ⟨rfl, h.n, h.fut, h.idle, h.yc, by simp [logEv, nlog, h.log, toEv], h.nopoll⟩
    | some sc =>
      have hyc := h.yc t sc hnf
      have hf' : ({ s with queue := q } : State).fut t = some (toScript sc) := by
        show s.fut t = _; rw [h.fut t, hnf]; rfl
      rcases yc_cases sc hyc with hready | ⟨rest, rfl⟩
      · rw [nPoll_ready _ _ t sc hst hp hnf hready]
        have ha : toScript sc = [] ∨ ∃ rest, toScript sc = .complete :: rest := by
          rcases hready with rfl | ⟨rest, rfl⟩
          · exact Or.inl rfl
          · exact Or.inr ⟨toScript rest, rfl⟩
        obtain ⟨p1, p2, p3, p4, p5⟩ := poll_ready { s with queue := q } t _ hf' ha (h.nopoll t)
        refine ⟨p1.symm, h.n.trans p2.symm, ?_, h.idle, ?_, ?_, fun x w => p5 x w (h.nopoll x)⟩
        · intro x
          rw [p3]
          show upd s.fut t none x = (upd ns.fut t none x).map toScript
          by_cases e : x = t
          · simp [upd_apply, e]
          · simp only [upd_apply, e, if_false]; exact h.fut x
        · intro x sc' hx
          have hx' : upd ns.fut t none x = some sc' := hx
          by_cases e : x = t
          · simp [upd_apply, e] at hx'
          · simp only [upd_apply, e, if_false] at hx'; exact h.yc x sc' hx'
        · rw [p4]
          show s.log ++ [.poll t] ++ [.ret t true] = (ns.log ++ [NEv.enter t] ++ [NEv.exit t true]).map toEv
          simp [h.log, toEv]
      · rw [nPoll_yield _ _ t rest hst hp hnf]
        obtain ⟨p1, p2, p3, p4, p5⟩ := poll_yield { s with queue := q } t (toScript rest) hf'
        refine ⟨p1.symm, h.n.trans p2.symm, ?_, h.idle, ?_, ?_, fun x w => by rw [p5]; exact h.nopoll x w⟩
        · intro x
          rw [p3]
          show upd s.fut t (some (toScript rest)) x = (upd ns.fut t (some rest) x).map toScript
          by_cases e : x = t
          · simp [upd_apply, e]
          · simp only [upd_apply, e, if_false]; exact h.fut x
        · intro x sc' hx
          have hx' : upd ns.fut t (some rest) x = some sc' := hx
          by_cases e : x = t
          · simp only [upd_apply, e, if_true, Option.some.injEq] at hx'
            subst hx'
            exact ycOnly_tail hyc
          · simp only [upd_apply, e, if_false] at hx'; exact h.yc x sc' hx'
        · rw [p4]
          show s.log ++ [.poll t] ++ [.ret t false] = (ns.log ++ [NEv.enter t] ++ [NEv.exit t false]).map toEv
          simp [h.log, toEv]

theorem sim_stepN (n : Nat) (ns : NState) (s : State) (h : Sim ns s) : Sim (nStepN n ns) (stepN n s) := by
  induction n generalizing ns s with
  | zero => exact h
  | succ n ih =>
    simp only [nStepN, stepN]
    rcases sim_step ns s h with ⟨h1, h2⟩ | ⟨ns', r, h1, h2, h3⟩
    · rw [h1, h2]; exact h
    · rw [h1, h2]; exact ih ns' r.1 h3

theorem spawnRoots_fut (scs : List Script) (s : State) (hfresh : ∀ t, s.ntasks ≤ t → s.fut t = none) (t : Nat) :
    (spawnRoots scs s).fut t = if t < s.ntasks then s.fut t else scs[t - s.ntasks]? := by
  induction scs generalizing s with
  | nil =>
    simp only [spawnRoots, List.getElem?_nil]
    split
    · rfl
    · exact hfresh t (by omega)
  | cons sc rest ih =>
    simp only [spawnRoots]
    have hf1 : ∀ x, (spawnNew s s.ntasks sc).ntasks ≤ x → (spawnNew s s.ntasks sc).fut x = none := by
      intro x hx
      have hx' : s.ntasks + 1 ≤ x := hx
      show upd s.fut s.ntasks (some sc) x = none
      have : x ≠ s.ntasks := by omega
      simp only [upd_apply, this, if_false]; exact hfresh x (by omega)
    rw [ih (spawnNew s s.ntasks sc) hf1]
    show (if t < s.ntasks + 1 then upd s.fut s.ntasks (some sc) t else rest[t - (s.ntasks + 1)]?) = _
    by_cases h1 : t < s.ntasks
    · have : t ≠ s.ntasks := by omega
      simp [h1, upd_apply, this, show t < s.ntasks + 1 by omega]
    · by_cases h2 : t = s.ntasks
      · subst h2; simp [upd_apply]
      · have h3 : ¬ t < s.ntasks + 1 := by omega
        have e : t - s.ntasks = (t - (s.ntasks + 1)) + 1 := by omega
        simp only [h1, h3, if_false]
        rw [e, List.getElem?_cons_succ]

theorem spawnRoots_nopoll (scs : List Script) (s : State) (h : ∀ t w, s.relay t ≠ .polled w) :
    ∀ t w, (spawnRoots scs s).relay t ≠ .polled w := by
  induction scs generalizing s with
  | nil => exact h
  | cons sc rest ih =>
    simp only [spawnRoots]
    apply ih
    intro t w
    show upd s.relay s.ntasks .pending t ≠ _
    by_cases e : t = s.ntasks
    · simp [upd_apply, e]
    · simp only [upd_apply, e, if_false]; exact h t w

theorem sim_init (sticky : Bool) (scripts : List NScript) (hyc : ∀ sc, sc ∈ scripts → ycOnly sc) :
    Sim (nInit scripts) (init sticky (scripts.map toScript) scripts.length) := by
  have hlen : (scripts.map toScript).length = scripts.length := List.length_map _
  have htake : (scripts.map toScript).take scripts.length = scripts.map toScript := by
    rw [← hlen]; exact List.take_length
  have hq := spawnRoots_queue (scripts.map toScript)
    { pool := (scripts.map toScript).drop scripts.length, sticky := sticky }
  refine ⟨?_, ?_, ?_, ⟨rfl, rfl⟩, ?_, ?_, ?_⟩
  · show List.range scripts.length = (init sticky _ _).queue
    unfold init
    rw [htake, hq.1, hlen]
    simp [List.range_eq_range']
  · show scripts.length = (init sticky _ _).ntasks
    unfold init
    rw [htake, hq.2, hlen]
    simp
  · intro t
    unfold init
    rw [htake, spawnRoots_fut _ _ (fun _ _ => rfl)]
    show (if t < 0 then none else (scripts.map toScript)[t - 0]?) = (scripts[t]?).map toScript
    simp
  · intro t sc hf
    have : scripts[t]? = some sc := hf
    exact hyc sc (List.mem_of_getElem? this)
  · unfold init
    rw [spawnRoots_log]
    rfl
  · unfold init
    exact spawnRoots_nopoll _ _ (fun _ _ => by simp)

end YashModel.Executor.Nested
