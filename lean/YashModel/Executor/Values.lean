/-
  C15 helper lemmas, part 8: WHAT is delivered.  The ghost field `ret t` records the value the future of
  task `t` returned (set by the wrapper future of `enqueue_forwarding` when it calls `Sender::send`), the
  ghost field `recv t` the values the relay of `t` handed to a receiver.  `ValInv` ties them: the relay
  holds exactly the returned value, and what has been handed out is that value, once, exactly when the
  relay is `Done`.  Preserved by every transformer of the model and every operation of the `v` cases.
-/
import YashModel.Executor.Ops
namespace YashModel.Executor

variable {ab : Bool}

structure ValInv (s : State) : Prop where
  /-- a value has been returned exactly by the finished tasks -/
  retfin : ∀ t, t < s.ntasks → ((s.ret t).isSome = true ↔ s.fut t = none)
  /-- … and it is the value computed from what the task received from its children -/
  retval : ∀ t v, s.ret t = some v → v = value s t
  /-- a relay holds nothing but the value its task returned -/
  comp : ∀ c v, s.relay c = .computed v → s.ret c = some v
  /-- a receiver has been handed the returned value, once, iff the relay is `Done`; nothing otherwise -/
  recvd : ∀ c, s.recv c = if s.relay c = .done then (s.ret c).toList else []
  fresh : ∀ t, s.ntasks ≤ t → s.ret t = none ∧ s.recv t = []

/-- transformers that leave the six fields alone -/
theorem val_congr {s s' : State} (h : ValInv s) (e1 : s'.ntasks = s.ntasks) (e2 : s'.fut = s.fut)
    (e3 : s'.relay = s.relay) (e4 : s'.ret = s.ret) (e5 : s'.recv = s.recv) (e6 : s'.acc = s.acc) :
    ValInv s' := by
  have hv : ∀ t, value s' t = value s t := fun t => by unfold value; rw [e6]
  refine ⟨?_, ?_, ?_, ?_, ?_⟩
  · intro t ht; rw [e4, e2]; exact h.retfin t (e1 ▸ ht)
  · intro t v hr; rw [hv]; rw [e4] at hr; exact h.retval t v hr
  · intro c v hr; rw [e3] at hr; rw [e4]; exact h.comp c v hr
  · intro c; rw [e5, e3, e4]; exact h.recvd c
  · intro t ht; rw [e4, e5]; exact h.fresh t (e1 ▸ ht)

theorem val_wake {s : State} (h : ValInv s) (w : Nat) : ValInv (wake s w) := val_congr h rfl rfl rfl rfl rfl rfl

theorem val_logEv {s : State} (h : ValInv s) (e : Ev) : ValInv (logEv s e) := val_congr h rfl rfl rfl rfl rfl rfl

theorem val_signal {s : State} (h : ValInv s) (k : Nat) : ValInv (signal s k) := by
  unfold signal
  split <;> exact val_congr h rfl rfl rfl rfl rfl rfl

/-- `enqueue_forwarding`: a new task with a fresh relay -/
theorem val_spawnNew {s : State} (h : ValInv s) (own : Nat) (sc : Script) : ValInv (spawnNew s own sc) := by
  have hf := h.fresh s.ntasks (Nat.le_refl _)
  refine ⟨?_, ?_, ?_, ?_, ?_⟩
  · intro t ht
    show (s.ret t).isSome = true ↔ upd s.fut s.ntasks (some sc) t = none
    by_cases e : t = s.ntasks
    · subst e; simp [upd_apply, hf.1]
    · have ht' : t < s.ntasks := by
        have : t < s.ntasks + 1 := ht
        omega
      simp only [upd_apply, e, if_false]; exact h.retfin t ht'
  · intro t v hr; exact h.retval t v hr
  · intro c v hr
    have hr' : upd s.relay s.ntasks .pending c = .computed v := hr
    by_cases e : c = s.ntasks
    · simp [upd_apply, e] at hr'
    · simp only [upd_apply, e, if_false] at hr'; exact h.comp c v hr'
  · intro c
    show s.recv c = if upd s.relay s.ntasks .pending c = .done then (s.ret c).toList else []
    by_cases e : c = s.ntasks
    · subst e; simp [upd_apply, hf.2]
    · simp only [upd_apply, e, if_false]; exact h.recvd c
  · intro t ht
    have : s.ntasks + 1 ≤ t := ht
    exact h.fresh t (by omega)

theorem val_spawnChild {s : State} (h : ValInv s) (t : Nat) : ValInv (spawnChild s t) := by
  unfold spawnChild
  cases s.pool with
  | nil => exact h
  | cons sc rest =>
    have h1 : ValInv { s with pool := rest } := val_congr h rfl rfl rfl rfl rfl rfl
    exact val_congr (val_spawnNew h1 t sc) rfl rfl rfl rfl rfl rfl

/-- a receiver takes the value out of the relay of `c` (the `join` of the parent `t`, which adds it to its
    sum; or `try_receive` from outside, `t = none`) -/
theorem val_take {s : State} (h : ValInv s) (c v : Nat) (hc : c < s.ntasks) (hr : s.relay c = .computed v)
    (acc' : Nat → Nat) (hacc : ∀ u, s.ret u ≠ none → acc' u = s.acc u) (kids' : Nat → List Nat) :
    ValInv { s with
      relay := upd s.relay c .done
      kids := kids'
      acc := acc'
      delivered := upd s.delivered c (s.delivered c + 1)
      recv := upd s.recv c (s.recv c ++ [v]) } := by
  have hrc := h.comp c v hr
  refine ⟨h.retfin, ?_, ?_, ?_, ?_⟩
  rotate_right
  · intro t' ht'
    have h0 := h.fresh t' ht'
    have hle : s.ntasks ≤ t' := ht'
    have e : t' ≠ c := by omega
    show s.ret t' = none ∧ upd s.recv c (s.recv c ++ [v]) t' = []
    simp only [upd_apply, e, if_false]; exact h0
  · intro t' v' hr'
    have hr'' : s.ret t' = some v' := hr'
    have := h.retval t' v' hr''
    show v' = (t' + 1 + 7 * acc' t') % 1000
    rw [hacc t' (by rw [hr'']; simp)]
    exact this
  · intro c' v' hr'
    have hr'' : upd s.relay c .done c' = .computed v' := hr'
    by_cases e : c' = c
    · simp [upd_apply, e] at hr''
    · simp only [upd_apply, e, if_false] at hr''; exact h.comp c' v' hr''
  · intro c'
    show upd s.recv c (s.recv c ++ [v]) c' = if upd s.relay c .done c' = .done then (s.ret c').toList else []
    by_cases e : c' = c
    · subst e
      have h0 := h.recvd c'
      rw [hr] at h0
      simp only [upd_apply, if_true, hrc, Option.toList]
      rw [h0]; simp
    · simp only [upd_apply, e, if_false]; exact h.recvd c'

/-- the receiver's `poll` stores a waker in a relay that holds no value -/
theorem val_polled {s : State} (h : ValInv s) (c w : Nat) (hs : (s.relay c).sent = false) :
    ValInv { s with relay := upd s.relay c (.polled w) } := by
  have hnd : s.relay c ≠ .done := by intro e; rw [e] at hs; simp [Relay.sent] at hs
  refine ⟨h.retfin, h.retval, ?_, ?_, h.fresh⟩
  · intro c' v' hr'
    have hr'' : upd s.relay c (.polled w) c' = .computed v' := hr'
    by_cases e : c' = c
    · simp [upd_apply, e] at hr''
    · simp only [upd_apply, e, if_false] at hr''; exact h.comp c' v' hr''
  · intro c'
    show s.recv c' = if upd s.relay c (.polled w) c' = .done then (s.ret c').toList else []
    by_cases e : c' = c
    · subst e
      have h0 := h.recvd c'
      simp only [hnd, if_false] at h0
      simp [upd_apply, h0]
    · simp only [upd_apply, e, if_false]; exact h.recvd c'

/-- `sender.send(value)` by the wrapper future, then the slot is emptied -/
theorem val_complete {s : State} (h : ValInv s) (t : Nat) (ht : t < s.ntasks)
    (hs : (s.relay t).sent = false) : ValInv (complete s t) := by
  have hnd : s.relay t ≠ .done := by intro e; rw [e] at hs; simp [Relay.sent] at hs
  have key : ∀ q : List Nat,
      ValInv { s with queue := q, relay := upd s.relay t (.computed (value s t)),
                      fut := upd s.fut t none, ret := upd s.ret t (some (value s t)) } := by
    intro q
    refine ⟨?_, ?_, ?_, ?_, ?_⟩
    · intro t' ht'
      show (upd s.ret t (some (value s t)) t').isSome = true ↔ upd s.fut t none t' = none
      by_cases e : t' = t
      · simp [upd_apply, e]
      · simp only [upd_apply, e, if_false]; exact h.retfin t' ht'
    · intro t' v' hr'
      have hr'' : upd s.ret t (some (value s t)) t' = some v' := hr'
      show v' = value s t'
      by_cases e : t' = t
      · subst e; simp only [upd_apply, if_true, Option.some.injEq] at hr''; exact hr''.symm
      · simp only [upd_apply, e, if_false] at hr''; exact h.retval t' v' hr''
    · intro c v hr'
      have hr'' : upd s.relay t (.computed (value s t)) c = .computed v := hr'
      show upd s.ret t (some (value s t)) c = some v
      by_cases e : c = t
      · subst e
        simp only [upd_apply, if_true, Relay.computed.injEq] at hr'' ⊢
        rw [hr'']
      · simp only [upd_apply, e, if_false] at hr'' ⊢; exact h.comp c v hr''
    · intro c
      show s.recv c = if upd s.relay t (.computed (value s t)) c = .done
        then (upd s.ret t (some (value s t)) c).toList else []
      by_cases e : c = t
      · subst e
        have h0 := h.recvd c
        simp only [hnd, if_false] at h0
        simp [upd_apply, h0]
      · simp only [upd_apply, e, if_false]; exact h.recvd c
    · intro t' ht'
      have h0 := h.fresh t' ht'
      show upd s.ret t (some (value s t)) t' = none ∧ s.recv t' = []
      by_cases e : t' = t
      · subst e
        have : s.ntasks ≤ t' := ht'
        omega
      · simp only [upd_apply, e, if_false]; exact h0
  unfold complete send
  cases hrl : s.relay t with
  | pending => exact key s.queue
  | polled w => exact key (enq s.queue w)
  | computed v => rw [hrl] at hs; simp [Relay.sent] at hs
  | done => rw [hrl] at hs; simp [Relay.sent] at hs

/-- the end of a poll that returned `Pending`: the slot stays occupied -/
theorem val_pending {s : State} (h : ValInv s) (t : Nat) (acts rest : Script) (hf : s.fut t = some acts) :
    ValInv { s with fut := upd s.fut t (some rest) } := by
  refine ⟨?_, h.retval, h.comp, h.recvd, h.fresh⟩
  intro t' ht'
  show (s.ret t').isSome = true ↔ upd s.fut t (some rest) t' = none
  by_cases e : t' = t
  · subst e
    have := h.retfin t' ht'
    rw [hf] at this
    simp only [upd_apply, if_true]
    constructor
    · intro hh; exact absurd (this.mp hh) (by simp)
    · intro hh; cases hh
  · simp only [upd_apply, e, if_false]; exact h.retfin t' ht'

/-- the running task has not returned a value yet -/
theorem ret_running {s : State} (h : ValInv s) (hi : InvX ab (some t) s) : s.ret t = none := by
  obtain ⟨htl, acts, hf⟩ := hi.run t rfl
  have := h.retfin t htl
  rw [hf] at this
  cases hr : s.ret t with
  | none => rfl
  | some v => rw [hr] at this; exact absurd (this.mp rfl) (by simp)

/-- one poll of the future of task `t` -/
theorem val_runActs (t : Nat) (acts : Script) (s : State) (hi : InvX ab (some t) s) (h : ValInv s) :
    ValInv (runActs t acts s).1 := by
  induction acts generalizing s with
  | nil => exact h
  | cons a rest ih =>
    have htl : t < s.ntasks := (hi.run t rfl).1
    cases a with
    | complete => exact h
    | yield => exact val_wake (val_wake h t) t
    | wait k =>
      simp only [runActs]
      split
      · rename_i hk
        exact ih _ (inv_consume hi k hk) (val_congr h rfl rfl rfl rfl rfl rfl)
      · exact val_congr h rfl rfl rfl rfl rfl rfl
    | signal k =>
      simp only [runActs]
      exact ih _ (inv_signal hi k) (val_signal h k)
    | spawn =>
      simp only [runActs]
      exact ih _ (inv_spawnChild hi) (val_spawnChild h t)
    | join =>
      cases hk : s.kids t with
      | nil =>
        simp only [runActs, hk]
        exact ih _ hi h
      | cons c cs =>
        have hck : c ∈ s.kids t := by rw [hk]; simp
        have hcl : c < s.ntasks := (hi.kid t c hck).1
        cases hr : s.relay c with
        | computed v =>
          simp only [runActs, hk, hr]
          refine ih _ (inv_joinRecv hi c cs v hk hr) ?_
          refine val_take h c v hcl hr _ ?_ _
          intro u hu
          have hrt := ret_running h hi
          have : u ≠ t := by intro e; subst e; exact hu hrt
          simp [upd_apply, this]
        | done => exact absurd hr (hi.kdone t c hck)
        | pending =>
          simp only [runActs, hk, hr]
          exact val_polled h c t (by rw [hr]; rfl)
        | polled w =>
          simp only [runActs, hk, hr]
          exact val_polled h c t (by rw [hr]; rfl)

/-- `Task::poll` after the front of the queue has been popped -/
theorem val_poll {s : State} (hi : InvX ab none s) (h : ValInv s) (t : Nat) (q : List Nat) (hq : s.queue = t :: q) :
    ValInv (poll { s with queue := q } t).1 := by
  have h0 : ValInv { s with queue := q } := val_congr h rfl rfl rfl rfl rfl rfl
  cases hf : s.fut t with
  | none =>
    rw [poll_none (s := { s with queue := q }) hf]
    exact val_logEv h0 _
  | some acts =>
    rw [poll_some (s := { s with queue := q }) hf]
    have h1 : InvX ab (some t) (logEv { s with queue := q } (.poll t)) := inv_logEv (inv_pop hi t q hq acts hf) _
    have h2 := (inv_runActs t acts _ h1).1
    have v2 := val_runActs t acts _ h1 (val_logEv h0 (.poll t))
    obtain ⟨htl, acts', hf'⟩ := h2.run t rfl
    cases hr : (runActs t acts (logEv { s with queue := q } (.poll t))).2 with
    | some rest =>
      rw [pollDone_pending hr]
      exact val_logEv (val_pending v2 t acts' rest hf') _
    | none =>
      rw [pollDone_ready hr]
      have hns : ((runActs t acts (logEv { s with queue := q } (.poll t))).1.relay t).sent = false := by
        have := h2.sync t htl
        rw [hf'] at this
        cases hs : ((runActs t acts (logEv { s with queue := q } (.poll t))).1.relay t).sent with
        | false => rfl
        | true => exact absurd (this.mpr hs) (by simp)
      exact val_logEv (val_complete v2 t htl hns) _

theorem val_step {s : State} (hi : InvX ab none s) (h : ValInv s) (r : State × Bool) (hs : step s = some r) :
    ValInv r.1 := by
  unfold step at hs
  cases hq : s.queue with
  | nil => simp [hq] at hs
  | cons t q =>
    simp only [hq, Option.some.injEq] at hs
    subst hs
    exact val_poll hi h t q hq

theorem val_stepN (n : Nat) {s : State} (hi : InvX ab none s) (h : ValInv s) : ValInv (stepN n s) := by
  induction n generalizing s with
  | zero => exact h
  | succ n ih =>
    simp only [stepN]
    cases hs : step s with
    | none => exact h
    | some r => exact ih (inv_step hi r hs) (val_step hi h r hs)

theorem val_init (sticky : Bool) (scripts : List Script) (roots : Nat) : ValInv (init sticky scripts roots) := by
  have h0 : ValInv { pool := scripts.drop roots, sticky := sticky } := by
    refine ⟨?_, ?_, ?_, ?_, ?_⟩
    · intro t ht; exact absurd ht (Nat.not_lt_zero _)
    · intro t v hr; cases hr
    · intro c v hr; cases hr
    · intro c; rfl
    · intro t _; exact ⟨rfl, rfl⟩
  have key : ∀ (scs : List Script) (s : State), ValInv s → ValInv (spawnRoots scs s) := by
    intro scs
    induction scs with
    | nil => intro s h; exact h
    | cons sc rest ih => intro s h; exact ih _ (val_spawnNew h _ sc)
  exact key _ _ h0

/-- `try_receive` from outside -/
theorem val_takeValue {s : State} (h : ValInv s) (c : Nat) (hc : c < s.ntasks) : ValInv (takeValue s c) := by
  unfold takeValue
  cases hr : s.relay c with
  | computed v => exact val_take h c v hc hr s.acc (fun _ _ => rfl) s.kids
  | pending => exact h
  | polled w => exact h
  | done => exact h

/-- every operation of a `v` case -/
theorem val_xRun (x : XState) (op : XOp) (hx : XInv x) (h : ValInv x.s) : ValInv (xRun x op).s := by
  have settle : ∀ y : XState, ValInv y.s → ValInv y.settle.s := by
    intro y hy
    unfold XState.settle
    split
    · exact val_congr hy rfl rfl rfl rfl rfl rfl
    · exact hy
  cases op with
  | step =>
    simp only [xRun]
    split
    · exact h
    · exact val_stepN 1 hx.inv h
  | rus =>
    simp only [xRun]
    split
    · exact h
    · show ValInv (runUntilStalled maxSteps x.s 0).1
      rw [runUntilStalled_state]; exact val_stepN _ hx.inv h
  | wake k i =>
    simp only [xRun, xApply]
    cases (x.s.waiters k)[i]? with
    | none => exact h
    | some t => exact settle _ (val_congr h rfl rfl rfl rfl rfl rfl)
  | byRef k i =>
    simp only [xRun, xApply]
    cases (x.s.waiters k)[i]? with
    | none => exact h
    | some t => exact settle _ (val_congr h rfl rfl rfl rfl rfl rfl)
  | clone k i =>
    simp only [xRun, xApply]
    cases (x.s.waiters k)[i]? with
    | none => exact h
    | some t => exact val_congr h rfl rfl rfl rfl rfl rfl
  | drop k i =>
    simp only [xRun, xApply]
    cases (x.s.waiters k)[i]? with
    | none => exact h
    | some t => exact val_congr h rfl rfl rfl rfl rfl rfl
  | signal k =>
    simp only [xRun, xApply]
    exact settle _ (val_signal h k)
  | dropExec =>
    simp only [xRun, xApply]
    exact settle { x with dead := true, abandoned := true } h
  | try_ c =>
    simp only [xRun, xApply]
    split
    · rename_i hc
      simp only [Bool.and_eq_true, decide_eq_true_eq, Bool.not_eq_true'] at hc
      exact val_takeValue h c hc.1
    · exact h
  | spawn =>
    simp only [xRun, xApply]
    cases x.s.pool with
    | nil => exact h
    | cons sc rest =>
      by_cases hdead : x.dead = true
      · simp only [hdead, if_true, spawnWeak, Option.map_none]
        exact h
      · have hdead' : x.dead = false := by cases hh : x.dead <;> simp_all
        simp only [hdead', Bool.false_eq_true, if_false, spawnWeak, Option.map_some]
        exact val_spawnNew (s := { x.s with pool := rest }) (val_congr h rfl rfl rfl rfl rfl rfl) _ sc

theorem val_runAll (x : XState) (ops : List XOp) (hx : XInv x) (h : ValInv x.s) : ValInv (xRunAll x ops).s := by
  unfold xRunAll
  induction ops generalizing x with
  | nil => exact h
  | cons op ops ih => exact ih _ (xinv_xRun x op hx) (val_xRun x op hx h)

end YashModel.Executor
