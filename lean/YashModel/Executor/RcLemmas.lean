/-
  C15 helper lemmas, part 11 (wave 3): the reference counting of `Rc<Task>` (`RcModel.lean`, a transcription of
  waker.rs and of the handle moves in task.rs / executor.rs).  `BalU`: every unit of the strong count is a queue
  entry, a live `Waker` or a local handle; nothing was decremented at zero; ids not yet allocated have nothing.
  `Pres r r'`: the step from `r` to `r'` keeps that (as long as the ghost flag `gunder` stays clear).  Every
  vtable entry, `Task::wake`, `Task::poll`, `Executor::step`, every action of the test futures and every outside
  operation of the `v` leg is shown to be `Pres`.
-/
import YashModel.Executor.RcModel
import YashModel.Executor.Lemmas
namespace YashModel.Executor.Rc

/-- the accounting identity -/
structure BalU (r : RState) : Prop where
  bal : ∀ t, r.strong t = r.s.queue.count t + r.wk t + r.loc t
  nounder : r.under = false
  fresh : ∀ t, r.s.ntasks ≤ t → r.wk t = 0 ∧ r.loc t = 0 ∧ t ∉ r.s.queue

/-- `r'` comes from `r` by operations that keep the accounting: if the ghost flag is still clear afterwards it
    was clear before, and the identity carries over -/
def Pres (r r' : RState) : Prop :=
  r'.gunder = false → r.gunder = false ∧ r.s.ntasks ≤ r'.s.ntasks ∧ (BalU r → BalU r')

theorem Pres.refl (r : RState) : Pres r r := fun h => ⟨h, Nat.le_refl _, id⟩

theorem Pres.trans {a b c : RState} (h1 : Pres a b) (h2 : Pres b c) : Pres a c := by
  intro hc
  obtain ⟨hb, n2, f2⟩ := h2 hc
  obtain ⟨ha, n1, f1⟩ := h1 hb
  exact ⟨ha, Nat.le_trans n1 n2, fun h => f2 (f1 h)⟩

theorem pres_vtClone (r : RState) (t : Nat) : Pres r (vtClone r t) := by
  intro hg
  unfold vtClone wkUp incStrong at hg ⊢
  by_cases ht : t < r.s.ntasks
  · simp only [ht, if_true] at hg ⊢
    refine ⟨hg, (by first | exact Nat.le_refl _ | trivial), fun h => ⟨?_, h.nounder, ?_⟩⟩
    · intro u
      have := h.bal u
      by_cases e : u = t
      · subst e; simp only [upd_apply, if_true]; omega
      · simp only [upd_apply, e, if_false]; exact this
    · intro u hu
      have hu' : r.s.ntasks ≤ u := hu
      have := h.fresh u hu'
      have e : u ≠ t := by omega
      simp only [upd_apply, e, if_false]; exact this
  · simp [ht] at hg

theorem pres_rcClone (r : RState) (t : Nat) : Pres r (rcClone r t) := by
  intro hg
  unfold rcClone locUp incStrong at hg ⊢
  by_cases ht : t < r.s.ntasks
  · simp only [ht, if_true] at hg ⊢
    refine ⟨hg, (by first | exact Nat.le_refl _ | trivial), fun h => ⟨?_, h.nounder, ?_⟩⟩
    · intro u
      have := h.bal u
      by_cases e : u = t
      · subst e; simp only [upd_apply, if_true]; omega
      · simp only [upd_apply, e, if_false]; exact this
    · intro u hu
      have hu' : r.s.ntasks ≤ u := hu
      have := h.fresh u hu'
      have e : u ≠ t := by omega
      simp only [upd_apply, e, if_false]; exact this
  · simp [ht] at hg

theorem pres_vtDrop (r : RState) (t : Nat) : Pres r (vtDrop r t) := by
  intro hg
  unfold vtDrop wkDown decStrong at hg ⊢
  by_cases hs : r.strong t = 0
  · simp only [hs, if_true] at hg ⊢
    by_cases hw : r.wk t = 0
    · simp [hw] at hg
    · simp only [hw, if_false] at hg ⊢
      refine ⟨hg, (by first | exact Nat.le_refl _ | trivial), fun h => ?_⟩
      have := h.bal t; omega
  · simp only [hs, if_false] at hg ⊢
    by_cases hw : r.wk t = 0
    · simp [hw] at hg
    · simp only [hw, if_false] at hg ⊢
      refine ⟨hg, (by first | exact Nat.le_refl _ | trivial), fun h => ⟨?_, h.nounder, ?_⟩⟩
      · intro u
        have := h.bal u
        by_cases e : u = t
        · subst e; simp only [upd_apply, if_true]; omega
        · simp only [upd_apply, e, if_false]; exact this
      · intro u hu
        have hu' : r.s.ntasks ≤ u := hu
        have := h.fresh u hu'
        by_cases e : u = t
        · subst e; exact absurd this.1 hw
        · simp only [upd_apply, e, if_false]; exact this

/-- a change of the task system that touches neither the queue nor the number of tasks, nor any count -/
theorem pres_frame {r r' : RState} (hq : r'.s.queue = r.s.queue) (hn : r'.s.ntasks = r.s.ntasks)
    (h1 : r'.strong = r.strong) (h2 : r'.wk = r.wk) (h3 : r'.loc = r.loc) (h4 : r'.under = r.under)
    (h5 : r'.gunder = r.gunder) : Pres r r' := by
  intro hg
  refine ⟨by rw [← h5]; exact hg, Nat.le_of_eq hn.symm, fun h => ⟨?_, by rw [h4]; exact h.nounder, ?_⟩⟩
  · intro t; rw [h1, h2, h3, hq]; exact h.bal t
  · intro t ht; rw [h2, h3, hq]; exact h.fresh t (by rw [← hn]; exact ht)

theorem pres_lg (r : RState) (cs : List Nat) : Pres r (lg r cs) := pres_frame rfl rfl rfl rfl rfl rfl rfl

theorem pres_intoWaker (r : RState) (t : Nat) : Pres r (intoWaker r t) := by
  intro hg
  unfold intoWaker wkUp locDown at hg ⊢
  by_cases hl : r.loc t = 0
  · by_cases ht : t < r.s.ntasks <;> simp [hl, ht] at hg
  · by_cases ht : t < r.s.ntasks
    · simp only [hl, ht, if_true, if_false] at hg ⊢
      refine ⟨hg, (by first | exact Nat.le_refl _ | trivial), fun h => ⟨?_, h.nounder, ?_⟩⟩
      · intro u
        have := h.bal u
        by_cases e : u = t
        · subst e; simp only [upd_apply, if_true]; omega
        · simp only [upd_apply, e, if_false]; exact this
      · intro u hu
        have hu' : r.s.ntasks ≤ u := hu
        have := h.fresh u hu'
        have e : u ≠ t := by omega
        simp only [upd_apply, e, if_false]; exact this
    · simp [hl, ht] at hg

/-- `Rc::from_raw` of a waker's pointer: the waker's count becomes a local handle -/
theorem pres_fromRaw (r : RState) (t : Nat) : Pres r (locUp (wkDown r t) t) := by
  intro hg
  unfold locUp wkDown at hg ⊢
  by_cases hw : r.wk t = 0
  · by_cases ht : t < r.s.ntasks <;> simp [hw, ht] at hg
  · by_cases ht : t < r.s.ntasks
    · simp only [hw, ht, if_true, if_false] at hg ⊢
      refine ⟨hg, (by first | exact Nat.le_refl _ | trivial), fun h => ⟨?_, h.nounder, ?_⟩⟩
      · intro u
        have := h.bal u
        by_cases e : u = t
        · subst e; simp only [upd_apply, if_true]; omega
        · simp only [upd_apply, e, if_false]; exact this
      · intro u hu
        have hu' : r.s.ntasks ≤ u := hu
        have := h.fresh u hu'
        have e : u ≠ t := by omega
        simp only [upd_apply, e, if_false]; exact this
    · simp [hw, ht] at hg

/-- dropping a local handle -/
theorem pres_dropLocal (r : RState) (t : Nat) : Pres r (locDown (decStrong r t) t) := by
  intro hg
  unfold locDown decStrong at hg ⊢
  by_cases hs : r.strong t = 0
  · simp only [hs, if_true] at hg ⊢
    by_cases hw : r.loc t = 0
    · simp [hw] at hg
    · simp only [hw, if_false] at hg ⊢
      refine ⟨hg, (by first | exact Nat.le_refl _ | trivial), fun h => ?_⟩
      have := h.bal t; omega
  · simp only [hs, if_false] at hg ⊢
    by_cases hw : r.loc t = 0
    · simp [hw] at hg
    · simp only [hw, if_false] at hg ⊢
      refine ⟨hg, (by first | exact Nat.le_refl _ | trivial), fun h => ⟨?_, h.nounder, ?_⟩⟩
      · intro u
        have := h.bal u
        by_cases e : u = t
        · subst e; simp only [upd_apply, if_true]; omega
        · simp only [upd_apply, e, if_false]; exact this
      · intro u hu
        have hu' : r.s.ntasks ≤ u := hu
        have := h.fresh u hu'
        by_cases e : u = t
        · subst e; exact absurd this.2.1 hw
        · simp only [upd_apply, e, if_false]; exact this

/-- `push_back(self)`: the local handle moves into the queue -/
theorem pres_push (r : RState) (t : Nat) (hq : t ∉ r.s.queue) :
    Pres r (locDown { r with s := wake r.s t } t) := by
  intro hg
  unfold locDown at hg ⊢
  have hl : ({ r with s := wake r.s t } : RState).loc t = r.loc t := rfl
  by_cases hw : r.loc t = 0
  · simp [hw] at hg
  · simp only [hw, if_false] at hg ⊢
    have hqq : (wake r.s t).queue = r.s.queue ++ [t] := by simp [wake, enq, hq]
    refine ⟨hg, (by first | exact Nat.le_refl _ | trivial), fun h => ?_⟩
    have htn : t < r.s.ntasks := by
      rcases Nat.lt_or_ge t r.s.ntasks with h' | h'
      · exact h'
      · exact absurd (h.fresh t h').2.1 hw
    refine ⟨?_, h.nounder, ?_⟩
    · intro u
      have := h.bal u
      show r.strong u = (wake r.s t).queue.count u + r.wk u + upd r.loc t (r.loc t - 1) u
      rw [hqq, List.count_append]
      by_cases e : u = t
      · subst e; simp only [upd_apply, if_true, List.count_singleton_self]; omega
      · have : ([t] : List Nat).count u = 0 := by simp [List.count_singleton, Ne.symm e]
        simp only [upd_apply, e, if_false, this]; omega
    · intro u hu
      have hu' : r.s.ntasks ≤ u := hu
      have := h.fresh u hu'
      have e : u ≠ t := by omega
      refine ⟨this.1, by simp only [upd_apply, e, if_false]; exact this.2.1, ?_⟩
      show u ∉ (wake r.s t).queue
      rw [hqq]; simp [this.2.2, e]

theorem pres_taskWake (r : RState) (t : Nat) : Pres r (taskWake r t) := by
  unfold taskWake
  split
  · exact pres_dropLocal r t
  · split
    · exact pres_dropLocal r t
    · rename_i _ hq; exact pres_push r t hq

theorem pres_vtWake (r : RState) (t : Nat) : Pres r (vtWake r t) :=
  (pres_fromRaw r t).trans (pres_taskWake _ t)

theorem pres_vtWakeByRef (r : RState) (t : Nat) : Pres r (vtWakeByRef r t) :=
  (pres_rcClone r t).trans (pres_taskWake _ t)

theorem pres_wakeAllVal (ws : List Nat) (r : RState) : Pres r (wakeAllVal r ws) := by
  induction ws generalizing r with
  | nil => exact Pres.refl r
  | cons w ws ih => exact ((pres_vtWake r w).trans (pres_lg _ _)).trans (ih _)

theorem pres_wakeAllRef (ws : List Nat) (r : RState) : Pres r (wakeAllRef r ws) := by
  induction ws generalizing r with
  | nil => exact Pres.refl r
  | cons w ws ih =>
    exact ((((pres_vtClone r w).trans (pres_vtWakeByRef _ w)).trans (pres_vtDrop _ w)).trans (pres_lg _ _)).trans (ih _)

theorem pres_rSignal (r : RState) (k : Nat) : Pres r (rSignal r k) := by
  unfold rSignal
  have h1 : Pres r { r with s := { r.s with tokens := upd r.s.tokens k (r.s.tokens k + 1) } } :=
    pres_frame rfl rfl rfl rfl rfl rfl rfl
  split
  · exact h1.trans (pres_wakeAllRef _ _)
  · exact (h1.trans (pres_wakeAllVal _ _)).trans (pres_frame rfl rfl rfl rfl rfl rfl rfl)

/-- `push_back(Rc::new(task))` -/
theorem pres_rNew (r : RState) (own : Nat) (sc : Script) : Pres r (rNew r own sc) := by
  intro hg
  refine ⟨hg, Nat.le_succ _, fun h => ⟨?_, h.nounder, ?_⟩⟩
  · intro u
    show upd r.strong r.s.ntasks 1 u = (r.s.queue ++ [r.s.ntasks]).count u + r.wk u + r.loc u
    rw [List.count_append]
    by_cases e : u = r.s.ntasks
    · subst e
      have := h.fresh r.s.ntasks (Nat.le_refl _)
      have hc : r.s.queue.count r.s.ntasks = 0 := List.count_eq_zero.mpr this.2.2
      simp only [upd_apply, if_true, List.count_singleton_self]; omega
    · have : ([r.s.ntasks] : List Nat).count u = 0 := by simp [List.count_singleton, Ne.symm e]
      simp only [upd_apply, e, if_false, this]; have := h.bal u; omega
  · intro u hu
    have hu' : r.s.ntasks + 1 ≤ u := hu
    have := h.fresh u (by omega)
    refine ⟨this.1, this.2.1, ?_⟩
    show u ∉ r.s.queue ++ [r.s.ntasks]
    simp only [List.mem_append, List.mem_singleton, not_or]
    exact ⟨this.2.2, by omega⟩

theorem pres_rSpawnChild (r : RState) (t : Nat) : Pres r (rSpawnChild r t) := by
  unfold rSpawnChild
  split
  · exact Pres.refl r
  · rename_i sc rest _
    have h1 : Pres r { r with s := { r.s with pool := rest } } := pres_frame rfl rfl rfl rfl rfl rfl rfl
    exact (h1.trans (pres_rNew _ t sc)).trans (pres_frame rfl rfl rfl rfl rfl rfl rfl)

theorem pres_rSend (r : RState) (t v : Nat) : Pres r (rSend r t v) := by
  unfold rSend
  split
  · exact pres_frame rfl rfl rfl rfl rfl rfl rfl
  · rename_i w _
    have h1 : Pres r { r with s := { r.s with relay := upd r.s.relay t (.computed v) } } :=
      pres_frame rfl rfl rfl rfl rfl rfl rfl
    exact h1.trans (pres_vtWake _ w)
  · exact pres_frame rfl rfl rfl rfl rfl rfl rfl

theorem pres_rRunActs (t : Nat) (acts : Script) (r : RState) : Pres r (rRunActs t acts r).1 := by
  fun_induction rRunActs t acts r with
  | case1 r => exact Pres.refl r
  | case2 _ r => exact Pres.refl r
  | case3 rest r =>
    exact (((pres_vtWakeByRef r t).trans (pres_vtClone _ t)).trans (pres_vtWake _ t)).trans (pres_lg _ _)
  | case4 k rest r hk ih =>
    refine Pres.trans ?_ ih
    exact pres_frame rfl rfl rfl rfl rfl rfl rfl
  | case5 k rest r hk r1 =>
    exact (pres_vtClone r t).trans (pres_frame rfl rfl rfl rfl rfl rfl rfl)
  | case6 k rest r ih => exact (pres_rSignal r k).trans ih
  | case7 rest r ih => exact (pres_rSpawnChild r t).trans ih
  | case8 rest r hk ih => exact ih
  | case9 rest r c cs hk v hr ih =>
    refine Pres.trans ?_ ih
    exact pres_frame rfl rfl rfl rfl rfl rfl rfl
  | case10 rest r c cs hk hr => exact pres_frame rfl rfl rfl rfl rfl rfl rfl
  | case11 rest r c cs hk hr r1 =>
    exact (pres_vtClone r t).trans (pres_frame rfl rfl rfl rfl rfl rfl rfl)
  | case12 rest r c cs hk w hr r1 =>
    exact ((pres_vtClone r t).trans (pres_vtDrop _ w)).trans (pres_frame rfl rfl rfl rfl rfl rfl rfl)

theorem pres_rComplete (r : RState) (t : Nat) : Pres r (rComplete r t) :=
  (pres_rSend r t _).trans (pres_frame rfl rfl rfl rfl rfl rfl rfl)

theorem pres_rPollDone (x : RState × Option Script) (t : Nat) : Pres x.1 (rPollDone x t).1 := by
  unfold rPollDone
  split
  · exact pres_frame rfl rfl rfl rfl rfl rfl rfl
  · exact (pres_rComplete x.1 t).trans (pres_frame rfl rfl rfl rfl rfl rfl rfl)

theorem pres_rEnter (r : RState) (t : Nat) : Pres r (rEnter r t) :=
  ((pres_rcClone r t).trans (pres_intoWaker _ t)).trans (pres_frame rfl rfl rfl rfl rfl rfl rfl)

theorem pres_rPoll (r : RState) (t : Nat) : Pres r (rPoll r t).1 := by
  unfold rPoll
  split
  · exact pres_frame rfl rfl rfl rfl rfl rfl rfl
  · rename_i acts _
    exact (((pres_rEnter r t).trans (pres_rRunActs t acts _)).trans (pres_rPollDone _ t)).trans (pres_vtDrop _ t)

/-- `pop_front` into the local `task` -/
theorem pres_pop (r : RState) (t : Nat) (q : List Nat) (hq : r.s.queue = t :: q) :
    Pres r (locUp { r with s := { r.s with queue := q } } t) := by
  intro hg
  unfold locUp at hg ⊢
  by_cases ht : t < r.s.ntasks
  · simp only [ht, if_true] at hg ⊢
    refine ⟨hg, Nat.le_refl _, fun h => ⟨?_, h.nounder, ?_⟩⟩
    · intro u
      have := h.bal u
      rw [hq] at this
      show r.strong u = q.count u + r.wk u + upd r.loc t (r.loc t + 1) u
      by_cases e : u = t
      · subst e; simp only [upd_apply, if_true]; simp only [List.count_cons_self] at this; omega
      · have hc : (t :: q).count u = q.count u := by simp [List.count_cons, Ne.symm e]
        simp only [upd_apply, e, if_false]; omega
    · intro u hu
      have hu' : r.s.ntasks ≤ u := hu
      have := h.fresh u hu'
      have e : u ≠ t := by omega
      refine ⟨this.1, by simp only [upd_apply, e, if_false]; exact this.2.1, ?_⟩
      show u ∉ q
      intro hm; exact this.2.2 (by rw [hq]; exact List.mem_cons_of_mem _ hm)
  · simp [ht] at hg

theorem pres_rStep (r : RState) (x : RState × Bool) (h : rStep r = some x) : Pres r x.1 := by
  unfold rStep at h
  split at h
  · cases h
  · rename_i t q hq
    simp only [Option.some.injEq] at h
    subst h
    exact ((pres_pop r t q hq).trans (pres_rPoll _ t)).trans (pres_dropLocal _ t)

theorem pres_rStepN (n : Nat) (r : RState) : Pres r (rStepN n r) := by
  induction n generalizing r with
  | zero => exact Pres.refl r
  | succ n ih =>
    simp only [rStepN]
    cases hs : rStep r with
    | none => exact Pres.refl r
    | some x => exact (pres_rStep r x hs).trans (ih _)

theorem pres_rSpawnRoots (scs : List Script) (r : RState) : Pres r (rSpawnRoots scs r) := by
  induction scs generalizing r with
  | nil => exact Pres.refl r
  | cons sc rest ih => exact (pres_rNew r _ sc).trans (ih _)

theorem balU_start (sticky : Bool) (pool : List Script) :
    BalU ({ s := { pool := pool, sticky := sticky } } : RState) :=
  ⟨fun _ => rfl, rfl, fun _ _ => ⟨rfl, rfl, by simp⟩⟩

theorem takeValue_queue (s : State) (c : Nat) : (takeValue s c).queue = s.queue := by
  unfold takeValue; split <;> rfl

theorem takeValue_ntasks (s : State) (c : Nat) : (takeValue s c).ntasks = s.ntasks := by
  unfold takeValue; split <;> rfl

theorem decStrong_fields (r : RState) (t : Nat) :
    (decStrong r t).wk = r.wk ∧ (decStrong r t).loc = r.loc ∧ (decStrong r t).gunder = r.gunder ∧
    (decStrong r t).s = r.s ∧ (decStrong r t).dead = r.dead := by
  unfold decStrong; split <;> exact ⟨rfl, rfl, rfl, rfl, rfl⟩

/-- dropping a list of `Rc` handles the count accounts for -/
theorem dropAll (l : List Nat) (r : RState) (c : Nat → Nat) (hb : ∀ t, r.strong t = l.count t + c t)
    (hu : r.under = false) :
    (∀ t, (l.foldl decStrong r).strong t = c t) ∧ (l.foldl decStrong r).under = false ∧
    (l.foldl decStrong r).wk = r.wk ∧ (l.foldl decStrong r).loc = r.loc ∧
    (l.foldl decStrong r).gunder = r.gunder ∧ (l.foldl decStrong r).s = r.s := by
  induction l generalizing r with
  | nil => exact ⟨fun t => by simpa using hb t, hu, rfl, rfl, rfl, rfl⟩
  | cons a l ih =>
    simp only [List.foldl_cons]
    have ha := hb a
    simp only [List.count_cons_self] at ha
    have hne : r.strong a ≠ 0 := by omega
    have hd : decStrong r a = { r with strong := upd r.strong a (r.strong a - 1) } := by
      unfold decStrong; simp [hne]
    obtain ⟨i1, i2, i3, i4, i5, i6⟩ := ih (decStrong r a) (by
      intro t
      rw [hd]
      show upd r.strong a (r.strong a - 1) t = _
      have := hb t
      by_cases e : t = a
      · subst e; simp only [upd_apply, if_true]; omega
      · have hc : (a :: l).count t = l.count t := by simp [List.count_cons, Ne.symm e]
        simp only [upd_apply, e, if_false]; omega) (by rw [hd]; exact hu)
    obtain ⟨f1, f2, f3, f4, _⟩ := decStrong_fields r a
    exact ⟨i1, i2, i3.trans f1, i4.trans f2, i5.trans f3, i6.trans f4⟩

theorem pres_rDropExec (r : RState) : Pres r (rDropExec r) := by
  intro hg
  refine ⟨?_, ?_, fun h => ?_⟩
  · have : (rDropExec r).gunder = (r.s.queue.foldl decStrong r).gunder := rfl
    rw [this] at hg
    by_cases hb : BalU r
    · rw [(dropAll r.s.queue r (fun t => r.wk t + r.loc t) (fun t => by rw [hb.bal t]; omega) hb.nounder).2.2.2.2.1] at hg
      exact hg
    · -- without the identity nothing is claimed, but the flag is never cleared by `decStrong`
      clear hb
      have key : ∀ (l : List Nat) (r0 : RState), (l.foldl decStrong r0).gunder = r0.gunder := by
        intro l
        induction l with
        | nil => intro _; rfl
        | cons a l ih => intro r0; simp only [List.foldl_cons]; rw [ih, (decStrong_fields r0 a).2.2.1]
      rw [key] at hg; exact hg
  · have key : ∀ (l : List Nat) (r0 : RState), (l.foldl decStrong r0).s = r0.s := by
      intro l
      induction l with
      | nil => intro _; rfl
      | cons a l ih => intro r0; simp only [List.foldl_cons]; rw [ih, (decStrong_fields r0 a).2.2.2.1]
    show r.s.ntasks ≤ (r.s.queue.foldl decStrong r).s.ntasks
    rw [key]; exact Nat.le_refl _
  · obtain ⟨d1, d2, d3, d4, _, d6⟩ :=
      dropAll r.s.queue r (fun t => r.wk t + r.loc t) (fun t => by rw [h.bal t]; omega) h.nounder
    refine ⟨?_, d2, ?_⟩
    · intro t
      show (r.s.queue.foldl decStrong r).strong t =
        ([] : List Nat).count t + (r.s.queue.foldl decStrong r).wk t + (r.s.queue.foldl decStrong r).loc t
      rw [d1, d3, d4]; simp
    · intro t ht
      have ht' : r.s.ntasks ≤ t := by
        have : (rDropExec r).s.ntasks = (r.s.queue.foldl decStrong r).s.ntasks := rfl
        rw [this, d6] at ht; exact ht
      have := h.fresh t ht'
      refine ⟨?_, ?_, ?_⟩
      · show (r.s.queue.foldl decStrong r).wk t = 0
        rw [d3]; exact this.1
      · show (r.s.queue.foldl decStrong r).loc t = 0
        rw [d4]; exact this.2.1
      · show t ∉ ([] : List Nat)
        simp

theorem pres_rRun (r : RState) (op : XOp) : Pres r (rRun r op) := by
  cases op with
  | step => simp only [rRun]; split; exact Pres.refl r; exact pres_rStepN 1 r
  | rus => simp only [rRun]; split; exact Pres.refl r; exact pres_rStepN _ r
  | wake k i =>
    simp only [rRun]; split
    · exact Pres.refl r
    · rename_i t _
      refine Pres.trans (Pres.trans ?_ (pres_vtWake _ t)) (pres_lg _ _)
      exact pres_frame rfl rfl rfl rfl rfl rfl rfl
  | byRef k i =>
    simp only [rRun]; split
    · exact Pres.refl r
    · exact (pres_vtWakeByRef r _).trans (pres_lg _ _)
  | clone k i =>
    simp only [rRun]; split
    · exact Pres.refl r
    · exact (pres_vtClone r _).trans (pres_frame rfl rfl rfl rfl rfl rfl rfl)
  | drop k i =>
    simp only [rRun]; split
    · exact Pres.refl r
    · rename_i t _
      refine Pres.trans (Pres.trans ?_ (pres_vtDrop _ t)) (pres_lg _ _)
      exact pres_frame rfl rfl rfl rfl rfl rfl rfl
  | signal k => exact pres_rSignal r k
  | dropExec => simp only [rRun]; split; exact Pres.refl r; exact pres_rDropExec r
  | try_ c =>
    simp only [rRun]; split
    · exact pres_frame (takeValue_queue r.s c) (takeValue_ntasks r.s c) rfl rfl rfl rfl rfl
    · exact Pres.refl r
  | spawn =>
    simp only [rRun]; split
    · exact Pres.refl r
    · split
      · exact Pres.refl r
      · refine Pres.trans ?_ (pres_rNew _ _ _)
        exact pres_frame rfl rfl rfl rfl rfl rfl rfl

theorem pres_rRunAll (ops : List XOp) (r : RState) : Pres r (rRunAll r ops) := by
  induction ops generalizing r with
  | nil => exact Pres.refl r
  | cons op ops ih => exact (pres_rRun r op).trans (ih _)

end YashModel.Executor.Rc
