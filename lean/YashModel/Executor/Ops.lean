/-
  C15 helper lemmas, part 6: the operation language of the `v` cases (`xRun`: steps, `run_until_stalled`
  batches, and every outside operation including throwing wakers away and dropping the executor):
  the invariant over all operation sequences, `run_until_stalled` as iterated `step`, and the FIFO
  discipline of the queue under arbitrary interleavings.
-/
import YashModel.Executor.Outside
namespace YashModel.Executor

variable {ab : Bool}

/-! ### `run_until_stalled` is iterated `step` -/

theorem runUntilStalled_state (n : Nat) (s : State) (c : Nat) : (runUntilStalled n s c).1 = stepN n s := by
  induction n generalizing s c with
  | zero => rfl
  | succ n ih =>
    simp only [runUntilStalled, stepN]
    cases step s with
    | none => rfl
    | some r => exact ih _ _

theorem runUntilStalled_stalled (n : Nat) (s : State) (c : Nat) (h : (runUntilStalled n s c).2.2 = true) :
    (stepN n s).queue = [] := by
  induction n generalizing s c with
  | zero => simpa [runUntilStalled, stepN] using h
  | succ n ih =>
    simp only [runUntilStalled, stepN] at h ⊢
    cases hs : step s with
    | none =>
      unfold step at hs
      cases hq : s.queue with
      | nil => rfl
      | cons t q => simp [hq] at hs
    | some r => rw [hs] at h; exact ih _ _ h

/-- a stalled executor stays as it is -/
theorem stepN_stalled (n : Nat) (s : State) (h : s.queue = []) : stepN n s = s := by
  cases n with
  | zero => rfl
  | succ n => simp [stepN, step, h]

theorem stepN_add (a b : Nat) (s : State) : stepN (a + b) s = stepN b (stepN a s) := by
  induction a generalizing s with
  | zero => simp [stepN]
  | succ a ih =>
    rw [Nat.succ_add]
    simp only [stepN]
    cases hs : step s with
    | none =>
      have hq : s.queue = [] := by
        unfold step at hs
        cases hq : s.queue with
        | nil => rfl
        | cons t q => simp [hq] at hs
      exact (stepN_stalled b s hq).symm
    | some r => exact ih _

/-! ### weakening, and the operations that may abandon tasks -/

theorem inv_weaken {r : Option Nat} {s : State} (h : InvX ab r s) : InvX true r s :=
  ⟨h.nodup, h.qlt, h.wlt, h.plt, h.kid, h.knodup, h.kdone, h.sync, h.fresh, h.deliv,
   fun _ _ hab => (by cases hab), h.run, h.nobad⟩

/-- throwing a registered waker away -/
theorem inv_dropWaker {s : State} (h : InvX ab none s) (k i : Nat) :
    InvX true none { s with waiters := upd s.waiters k ((s.waiters k).eraseIdx i) } := by
  refine ⟨h.nodup, h.qlt, ?_, h.plt, h.kid, h.knodup, h.kdone, h.sync, h.fresh, h.deliv,
    fun _ _ hab => (by cases hab), h.run, h.nobad⟩
  intro k' x hx
  have hx' : x ∈ upd s.waiters k ((s.waiters k).eraseIdx i) k' := hx
  by_cases e : k' = k
  · subst e
    simp only [upd_apply, if_true] at hx'
    exact h.wlt _ x (List.mem_of_mem_eraseIdx hx')
  · simp only [upd_apply, e, if_false] at hx'
    exact h.wlt k' x hx'

/-- dropping the executor: the queue is gone -/
theorem inv_clearQueue {s : State} (h : InvX ab none s) : InvX true none { s with queue := [] } :=
  ⟨List.nodup_nil, fun _ hx => (by cases hx), h.wlt, h.plt, h.kid, h.knodup, h.kdone, h.sync, h.fresh,
   h.deliv, fun _ _ hab => (by cases hab), h.run, h.nobad⟩

theorem inv_pool {r : Option Nat} {s : State} (h : InvX ab r s) (p : List Script) : InvX ab r { s with pool := p } :=
  ⟨h.nodup, h.qlt, h.wlt, h.plt, h.kid, h.knodup, h.kdone, h.sync, h.fresh, h.deliv, h.live, h.run, h.nobad⟩

theorem not_heldByParent {s : State} (c : Nat) (hh : heldByParent s c = false) (h : InvX ab none s) :
    ∀ t, c ∉ s.kids t := by
  intro t hm
  have ho : s.owner c = t := (h.kid t c hm).2
  unfold heldByParent at hh
  rw [ho] at hh
  have := List.contains_iff_mem.mpr hm
  rw [hh] at this
  cases this

/-- `try_receive` from outside taking a computed value out of the relay of a task nobody will join -/
theorem inv_takeValue {s : State} (h : InvX ab none s) (c : Nat) (hc : c < s.ntasks)
    (hh : heldByParent s c = false) : InvX ab none (takeValue s c) := by
  have hnk := not_heldByParent c hh h
  unfold takeValue
  cases hr : s.relay c with
  | pending => exact h
  | polled w => exact h
  | done => exact h
  | computed v =>
    refine ⟨h.nodup, h.qlt, h.wlt, ?_, h.kid, h.knodup, ?_, ?_, ?_, ?_, ?_, h.run, h.nobad⟩
    · intro c' w hw
      have hw' : upd s.relay c .done c' = .polled w := hw
      by_cases e : c' = c
      · simp [upd_apply, e] at hw'
      · simp only [upd_apply, e, if_false] at hw'; exact h.plt c' w hw'
    · intro t' c' hc'
      show upd s.relay c .done c' ≠ .done
      have hne : c' ≠ c := fun e => hnk t' (e ▸ hc')
      simp only [upd_apply, hne, if_false]
      exact h.kdone t' c' hc'
    · intro c' hc'
      show s.fut c' = none ↔ (upd s.relay c .done c').sent = true
      by_cases e : c' = c
      · subst e
        have := h.sync c' hc'
        rw [hr] at this
        simp [upd_apply, Relay.sent] at this ⊢
        exact this
      · simp only [upd_apply, e, if_false]; exact h.sync c' hc'
    · intro c' hc'
      show upd s.relay c .done c' = .pending
      have hc'' : s.ntasks ≤ c' := hc'
      have e : c' ≠ c := by omega
      simp only [upd_apply, e, if_false]; exact h.fresh c' hc'
    · intro c'
      show upd s.delivered c (s.delivered c + 1) c' = if upd s.relay c .done c' = .done then 1 else 0
      by_cases e : c' = c
      · subst e
        have := h.deliv c'
        rw [hr] at this
        simp [upd_apply, this]
      · simp only [upd_apply, e, if_false]; exact h.deliv c'
    · intro t' acts hab ht hrn hf
      rcases h.live t' acts hab ht hrn hf with hq | hb
      · exact Or.inl hq
      · right
        rcases hb with hw | ⟨c', cs', rst, ea, hk', hrl⟩
        · exact Or.inl hw
        · right
          refine ⟨c', cs', rst, ea, hk', ?_⟩
          show upd s.relay c .done c' = .polled t'
          have hcn : c' ≠ c := by
            intro e'; subst e'; rw [hr] at hrl; cases hrl
          simp only [upd_apply, hcn, if_false]; exact hrl

theorem takeValue_frame (s : State) (c : Nat) :
    (takeValue s c).log = s.log ∧ (takeValue s c).ntasks = s.ntasks ∧ (takeValue s c).fut = s.fut ∧
    (takeValue s c).queue = s.queue := by
  unfold takeValue
  cases s.relay c <;> exact ⟨rfl, rfl, rfl, rfl⟩

/-! ### the invariant over all operation sequences -/

/-- what holds of a `v` case at every operation boundary -/
structure XInv (x : XState) : Prop where
  inv : InvX x.abandoned none x.s
  trace : TraceInv x.s
  dead : x.dead = true → x.s.queue = [] ∧ x.abandoned = true

theorem xinv_settle {x : XState} (hi : InvX x.abandoned none x.s) (ht : TraceInv x.s)
    (hd : x.dead = true → x.abandoned = true) : XInv x.settle := by
  unfold XState.settle
  by_cases h : x.dead = true
  · simp only [h, if_true]
    have ha := hd h
    refine ⟨?_, ⟨ht.brack, ht.npaf, ht.fin, ht.lt⟩, fun _ => ⟨rfl, ha⟩⟩
    show InvX x.abandoned none { x.s with queue := [] }
    rw [ha]
    exact inv_clearQueue hi
  · simp only [h]
    exact ⟨hi, ht, fun h' => absurd h' h⟩

theorem xinv_xRun (x : XState) (op : XOp) (h : XInv x) : XInv (xRun x op) := by
  obtain ⟨hi, ht, hd⟩ := h
  have hda : x.dead = true → x.abandoned = true := fun h => (hd h).2
  cases op with
  | step =>
    simp only [xRun]
    split
    · exact ⟨hi, ht, hd⟩
    · rename_i hdead
      exact ⟨inv_stepN 1 hi, trace_stepN 1 hi ht, fun h => absurd h hdead⟩
  | rus =>
    simp only [xRun]
    split
    · exact ⟨hi, ht, hd⟩
    · rename_i hdead
      refine ⟨?_, ?_, fun h => absurd h hdead⟩
      · show InvX x.abandoned none (runUntilStalled maxSteps x.s 0).1
        rw [runUntilStalled_state]; exact inv_stepN _ hi
      · show TraceInv (runUntilStalled maxSteps x.s 0).1
        rw [runUntilStalled_state]; exact trace_stepN _ hi ht
  | wake k i =>
    simp only [xRun, xApply]
    cases hg : (x.s.waiters k)[i]? with
    | none => exact ⟨hi, ht, hd⟩
    | some t =>
      have hm : t ∈ x.s.waiters k := List.mem_of_getElem? hg
      have htl : t < x.s.ntasks := hi.wlt k t hm
      by_cases hab : x.abandoned = true
      · -- "no lost wake-up" is not claimed any more: remove the entry, then wake
        have h1 : InvX true none { x.s with waiters := upd x.s.waiters k ((x.s.waiters k).eraseIdx i) } :=
          inv_dropWaker hi k i
        have h2 := inv_wake h1 t htl
        refine xinv_settle (x := { x with s := wake { x.s with waiters := upd x.s.waiters k ((x.s.waiters k).eraseIdx i) } t })
          (by show InvX x.abandoned none _; rw [hab]; exact h2)
          (trace_frame ht rfl (Nat.le_refl _) (fun _ _ => rfl)) hda
      · have hab' : x.abandoned = false := by cases h : x.abandoned <;> simp_all
        refine xinv_settle (x := { x with s := wake { x.s with waiters := upd x.s.waiters k ((x.s.waiters k).eraseIdx i) } t })
          (by show InvX x.abandoned none _; rw [hab']; rw [hab'] at hi; exact inv_takeWaker hi k i t hg)
          (trace_frame ht rfl (Nat.le_refl _) (fun _ _ => rfl)) hda
  | byRef k i =>
    simp only [xRun, xApply]
    cases hg : (x.s.waiters k)[i]? with
    | none => exact ⟨hi, ht, hd⟩
    | some t =>
      have htl : t < x.s.ntasks := hi.wlt k t (List.mem_of_getElem? hg)
      exact xinv_settle (x := { x with s := wake x.s t }) (inv_wake hi t htl)
        (trace_frame ht rfl (Nat.le_refl _) (fun _ _ => rfl)) hda
  | clone k i =>
    simp only [xRun, xApply]
    cases hg : (x.s.waiters k)[i]? with
    | none => exact ⟨hi, ht, hd⟩
    | some t =>
      exact ⟨inv_cloneWaker hi k t (List.mem_of_getElem? hg),
        trace_frame ht rfl (Nat.le_refl _) (fun _ _ => rfl), hd⟩
  | drop k i =>
    simp only [xRun, xApply]
    cases hg : (x.s.waiters k)[i]? with
    | none => exact ⟨hi, ht, hd⟩
    | some t =>
      exact ⟨inv_dropWaker hi k i, trace_frame ht rfl (Nat.le_refl _) (fun _ _ => rfl),
        fun h => ⟨(hd h).1, rfl⟩⟩
  | signal k =>
    simp only [xRun, xApply]
    have hf := frame_signal x.s k
    exact xinv_settle (x := { x with s := signal x.s k }) (inv_signal hi k)
      (trace_frame ht hf.1 hf.2.1 hf.2.2) hda
  | dropExec =>
    simp only [xRun, xApply]
    exact xinv_settle (x := { x with dead := true, abandoned := true }) (inv_weaken hi) ht (fun _ => rfl)
  | try_ c =>
    simp only [xRun, xApply]
    split
    · rename_i hc
      simp only [Bool.and_eq_true, decide_eq_true_eq, Bool.not_eq_true'] at hc
      have hf := takeValue_frame x.s c
      refine ⟨inv_takeValue hi c hc.1 hc.2, trace_frame ht hf.1 (Nat.le_of_eq hf.2.1.symm) (fun _ _ => by rw [hf.2.2.1]), ?_⟩
      intro h
      exact ⟨by show (takeValue x.s c).queue = []; rw [hf.2.2.2]; exact (hd h).1, (hd h).2⟩
    · exact ⟨hi, ht, hd⟩
  | spawn =>
    simp only [xRun, xApply]
    cases hp : x.s.pool with
    | nil => exact ⟨hi, ht, hd⟩
    | cons sc rest =>
      by_cases hdead : x.dead = true
      · simp only [hdead, if_true, spawnWeak, Option.map_none]
        exact ⟨hi, ht, hd⟩
      · have hdead' : x.dead = false := by cases h : x.dead <;> simp_all
        simp only [hdead', Bool.false_eq_true, if_false, spawnWeak, Option.map_some]
        have h1 : InvX x.abandoned none { x.s with pool := rest } := inv_pool hi rest
        refine ⟨inv_spawnRoot h1 sc, ?_, fun h => absurd h (by simp [hdead'])⟩
        refine trace_frame ht rfl (Nat.le_succ _) ?_
        intro y hy
        show upd x.s.fut x.s.ntasks (some sc) y = x.s.fut y
        have : y ≠ x.s.ntasks := by omega
        simp [upd_apply, this]

theorem xinv_init (sticky : Bool) (scripts : List Script) (roots : Nat) :
    XInv { s := init sticky scripts roots } :=
  ⟨inv_init _ _ _, trace_init _ _ _, fun h => by cases h⟩

theorem xinv_runAll (x : XState) (ops : List XOp) (h : XInv x) : XInv (xRunAll x ops) := by
  unfold xRunAll
  induction ops generalizing x with
  | nil => exact h
  | cons op ops ih => exact ih _ (xinv_xRun x op h)

/-- operations that do not throw anything away -/
def XOp.keeps : XOp → Bool
  | .drop _ _ => false
  | .dropExec => false
  | _ => true

theorem xRun_abandoned (x : XState) (op : XOp) (hk : op.keeps = true) (ha : x.abandoned = false)
    (hdd : x.dead = false) : (xRun x op).abandoned = false ∧ (xRun x op).dead = false := by
  cases op <;> simp only [XOp.keeps] at hk <;> simp only [xRun, xApply, XState.settle, hdd]
  all_goals (try (split <;> simp_all))
  all_goals (try (split <;> simp_all))
  all_goals (try simp_all)

theorem xRunAll_keeps (x : XState) (ops : List XOp) (hk : ∀ op, op ∈ ops → op.keeps = true)
    (ha : x.abandoned = false) (hdd : x.dead = false) :
    (xRunAll x ops).abandoned = false ∧ (xRunAll x ops).dead = false := by
  unfold xRunAll
  induction ops generalizing x with
  | nil => exact ⟨ha, hdd⟩
  | cons op ops ih =>
    have h1 := xRun_abandoned x op (hk op (by simp)) ha hdd
    exact ih _ (fun o ho => hk o (by simp [ho])) h1.1 h1.2

/-! ### FIFO discipline under arbitrary interleavings -/

/-- operations after which the executor is still there and which are not a whole batch of steps -/
def XOp.plain : XOp → Bool
  | .rus => false
  | .dropExec => false
  | _ => true

theorem stepN_one (s : State) : stepN 1 s = match step s with | none => s | some r => r.1 := by
  simp only [stepN]
  cases step s <;> rfl

/-- `Executor::step` pops the front; whatever the polled task does is pushed behind the rest -/
theorem xRun_queue_step (x : XState) (hd : x.dead = false) :
    (xRun x .step).dead = false ∧ ∃ l, (xRun x .step).s.queue = x.s.queue.tail ++ l := by
  simp only [xRun, hd]
  refine ⟨rfl, ?_⟩
  show ∃ l, (stepN 1 x.s).queue = x.s.queue.tail ++ l
  rw [stepN_one]
  cases hs : step x.s with
  | none =>
    have hq : x.s.queue = [] := by
      unfold step at hs
      cases hq : x.s.queue with
      | nil => rfl
      | cons t q => simp [hq] at hs
    exact ⟨[], by simp [hq]⟩
  | some r => exact step_queue x.s r hs

/-- every other operation that keeps the executor only pushes to the back of the queue -/
theorem xRun_queue_other (x : XState) (op : XOp) (hd : x.dead = false) (hp : op.plain = true)
    (hs : op ≠ .step) : (xRun x op).dead = false ∧ ∃ l, (xRun x op).s.queue = x.s.queue ++ l := by
  cases op with
  | step => exact absurd rfl hs
  | rus => simp [XOp.plain] at hp
  | dropExec => simp [XOp.plain] at hp
  | wake k i =>
    simp only [xRun, xApply]
    cases (x.s.waiters k)[i]? with
    | none => exact ⟨hd, [], by simp⟩
    | some t => simp only [XState.settle, hd]; exact ⟨rfl, enq_ext _ _⟩
  | byRef k i =>
    simp only [xRun, xApply]
    cases (x.s.waiters k)[i]? with
    | none => exact ⟨hd, [], by simp⟩
    | some t => simp only [XState.settle, hd]; exact ⟨rfl, enq_ext _ _⟩
  | clone k i =>
    simp only [xRun, xApply]
    cases (x.s.waiters k)[i]? with
    | none => exact ⟨hd, [], by simp⟩
    | some t => exact ⟨hd, [], by simp⟩
  | drop k i =>
    simp only [xRun, xApply]
    cases (x.s.waiters k)[i]? with
    | none => exact ⟨hd, [], by simp⟩
    | some t => exact ⟨hd, [], by simp⟩
  | signal k =>
    simp only [xRun, xApply, XState.settle, hd]
    exact ⟨rfl, qext_signal x.s k⟩
  | try_ c =>
    simp only [xRun, xApply]
    split
    · exact ⟨hd, [], by simp [(takeValue_frame x.s c).2.2.2]⟩
    · exact ⟨hd, [], by simp⟩
  | spawn =>
    simp only [xRun, xApply]
    cases x.s.pool with
    | nil => exact ⟨hd, [], by simp⟩
    | cons sc rest =>
      simp only [hd, Bool.false_eq_true, if_false, spawnWeak, Option.map_some]
      exact ⟨trivial, [x.s.ntasks], rfl⟩

/-- The task at position `k` of the queue keeps its place in the order: after any interleaving of
    operations containing `j ≤ k` steps it is at position `k - j`. -/
theorem fifo_position (ops : List XOp) (x : XState) (hd : x.dead = false)
    (hp : ∀ op, op ∈ ops → op.plain = true) (k t : Nat) (hk : x.s.queue[k]? = some t)
    (hc : ops.count .step ≤ k) :
    (xRunAll x ops).dead = false ∧ (xRunAll x ops).s.queue[k - ops.count .step]? = some t := by
  induction ops generalizing x k with
  | nil => exact ⟨hd, by simpa [xRunAll] using hk⟩
  | cons op ops ih =>
    have hp' : ∀ o, o ∈ ops → o.plain = true := fun o ho => hp o (by simp [ho])
    by_cases hs : op = .step
    · subst hs
      obtain ⟨hd', l, hl⟩ := xRun_queue_step x hd
      have hc' : ops.count .step + 1 ≤ k := by simpa [List.count_cons] using hc
      have hk' : (xRun x .step).s.queue[k - 1]? = some t := by
        rw [hl]
        cases hq : x.s.queue with
        | nil => rw [hq] at hk; simp at hk
        | cons a q =>
          rw [hq] at hk
          have hk1 : k = (k - 1) + 1 := by omega
          rw [hk1, List.getElem?_cons_succ] at hk
          have hlt : k - 1 < q.length := by
            rcases Nat.lt_or_ge (k - 1) q.length with h | h
            · exact h
            · rw [List.getElem?_eq_none h] at hk; cases hk
          simp only [List.tail_cons]
          rw [List.getElem?_append_left hlt]; exact hk
      have := ih (xRun x .step) hd' hp' (k - 1) hk' (by omega)
      have he : k - (List.count XOp.step (XOp.step :: ops)) = k - 1 - List.count XOp.step ops := by
        simp [List.count_cons]; omega
      rw [he]
      exact this
    · obtain ⟨hd', l, hl⟩ := xRun_queue_other x op hd (hp op (by simp)) hs
      have hk' : (xRun x op).s.queue[k]? = some t := by
        rw [hl]
        have hlt : k < x.s.queue.length := by
          rcases Nat.lt_or_ge k x.s.queue.length with h | h
          · exact h
          · rw [List.getElem?_eq_none h] at hk; cases hk
        rw [List.getElem?_append_left hlt]; exact hk
      have hcnt : List.count XOp.step (op :: ops) = List.count XOp.step ops := by
        rw [List.count_cons]
        have : (op == XOp.step) = false := by simpa using hs
        simp [this]
      rw [hcnt] at hc ⊢
      exact ih (xRun x op) hd' hp' k hk' hc

/-- a batch is nothing but steps -/
theorem xRunAll_steps (n : Nat) (x : XState) (hd : x.dead = false) :
    xRunAll x (List.replicate n .step) = { x with s := stepN n x.s } := by
  induction n generalizing x with
  | zero => rfl
  | succ n ih =>
    have h1 : xRun x .step = { x with s := stepN 1 x.s } := by simp [xRun, hd]
    show xRunAll (xRun x .step) (List.replicate n .step) = _
    rw [h1, ih { x with s := stepN 1 x.s } hd]
    show ({ x with s := stepN n (stepN 1 x.s) } : XState) = _
    rw [← stepN_add 1 n, Nat.add_comm]

theorem spawnRoots_queue (scs : List Script) (s : State) :
    (spawnRoots scs s).queue = s.queue ++ List.range' s.ntasks scs.length ∧
    (spawnRoots scs s).ntasks = s.ntasks + scs.length := by
  induction scs generalizing s with
  | nil => simp [spawnRoots]
  | cons sc rest ih =>
    simp only [spawnRoots]
    obtain ⟨h1, h2⟩ := ih (spawnNew s s.ntasks sc)
    rw [h1, h2]
    simp only [spawnNew, List.length_cons, List.range'_succ, List.append_assoc, List.singleton_append]
    exact ⟨trivial, by omega⟩

/-! ### the return value of `run_until_stalled` -/

/-- events that make `Task::poll` return `true` -/
def Ev.isDone : Ev → Bool
  | .ret _ true => true
  | .noop _ => true
  | _ => false

theorem step_log (s : State) (r : State × Bool) (h : step s = some r) :
    ∃ evs, r.1.log = s.log ++ evs ∧ evs.countP Ev.isDone = (if r.2 then 1 else 0) := by
  unfold step at h
  cases hq : s.queue with
  | nil => simp [hq] at h
  | cons t q =>
    simp only [hq, Option.some.injEq] at h
    subst h
    rcases poll_trace { s with queue := q } t with ⟨_, hl, hb, _, _⟩ | ⟨acts, _, hl, _, _, _⟩
    · exact ⟨[.noop t], hl, by rw [hb]; rfl⟩
    · refine ⟨[.poll t, .ret t (poll { s with queue := q } t).2], hl, ?_⟩
      cases (poll { s with queue := q } t).2 <;> rfl

theorem runUntilStalled_count (n : Nat) (s : State) (c : Nat) :
    ∃ evs, (stepN n s).log = s.log ++ evs ∧ (runUntilStalled n s c).2.1 = c + evs.countP Ev.isDone := by
  induction n generalizing s c with
  | zero => exact ⟨[], by simp [stepN], by simp [runUntilStalled]⟩
  | succ n ih =>
    simp only [runUntilStalled, stepN]
    cases hs : step s with
    | none => exact ⟨[], by simp, by simp⟩
    | some r =>
      obtain ⟨e1, hl1, hc1⟩ := step_log s r hs
      obtain ⟨e2, hl2, hc2⟩ := ih r.1 (if r.2 then c + 1 else c)
      refine ⟨e1 ++ e2, by rw [hl2, hl1, List.append_assoc], ?_⟩
      rw [hc2, List.countP_append, hc1]
      cases r.2 <;> simp <;> omega

end YashModel.Executor
