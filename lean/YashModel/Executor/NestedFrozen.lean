/-
  C15 helper lemmas, part 17 (wave 3, second half): the state the executor is left in when the recursion guard of
  `Task::poll` panics.  `LiveB` (every unfinished task is in the wake queue or is one of the polls that were in
  progress) is proved WITHOUT the hypothesis "the guard has not panicked": the panic freezes the state at the
  moment of the guard (`nRun` / `nPoll` return it unchanged, `nStep` refuses to go on), and in that state no task
  has been lost.
-/
import YashModel.Executor.NestedLive
namespace YashModel.Executor.Nested

/-- what a nested `Task::poll` of the just-popped task `t` guarantees -/
def PollLiveF (inner : NState → Nat → NState) (d : Nat) : Prop :=
  ∀ s t, NInv s → t < s.ntasks → s.stack.length + d = s.ntasks + 1 → s.panicked = false →
    (∀ x, x < s.ntasks → (s.fut x).isSome = true → x ∈ s.queue ∨ x ∈ s.stack ∨ x = t) →
    LiveB (inner s t)

theorem nRun_liveF (inner : NState → Nat → NState) (d : Nat) (hin : PollOK inner d) (hl : PollLiveF inner d)
    (t : Nat) (acts : NScript) :
    ∀ s, NInv s → t < s.ntasks → s.stack.length + d = s.ntasks + 1 → s.panicked = false → LiveB s →
      LiveB (nRun inner t acts s).1 ∧
      ((nRun inner t acts s).1.panicked = false →
        ∀ rest, (nRun inner t acts s).2 = some rest → t ∈ (nRun inner t acts s).1.queue) := by
  induction acts with
  | nil => intro s _ _ _ _ hb; exact ⟨hb, fun _ _ h => by cases h⟩
  | cons a rest ih =>
    intro s h ht hd hp hb
    cases a with
    | complete => exact ⟨hb, fun _ _ h => by cases h⟩
    | yield =>
      refine ⟨?_, fun _ _ _ => mem_enq_self _ _⟩
      intro x hx hf
      rcases hb x hx hf with h1 | h1
      · exact Or.inl (mem_enq_mono _ _ _ h1)
      · exact Or.inr h1
    | wake u =>
      simp only [nRun]
      split
      · rename_i hk
        refine ih (nwake s u) (ninv_wake h u (h.klt u hk)) ht hd hp ?_
        intro x hx hf
        rcases hb x hx hf with h1 | h1
        · exact Or.inl (mem_enq_mono _ _ _ h1)
        · exact Or.inr h1
      · rename_i hk
        exact ih s h ht hd hp hb
    | nest =>
      simp only [nRun]
      cases hq : s.queue with
      | nil =>
        simp only []
        exact ih (nlog s .idle) (ninv_event h .idle (fun _ => by simp) (fun _ _ => by simp)) ht hd hp hb
      | cons u q =>
        simp only []
        have hnd : (u :: q).Nodup := hq ▸ h.qn
        have h1 : NInv { s with queue := q } :=
          ⟨(List.nodup_cons.mp hnd).2, fun x hx => h.qlt x (by rw [hq]; exact List.mem_cons_of_mem _ hx),
           h.sn, h.slt, h.klt, h.rp, h.occ, h.fin, h.nef, h.ns⟩
        have hu : u < s.ntasks := h.qlt u (by rw [hq]; simp)
        obtain ⟨i1, i2, i3⟩ := hin { s with queue := q } u h1 hu hd
        have hb0 : ∀ x, x < s.ntasks → (s.fut x).isSome = true → x ∈ q ∨ x ∈ s.stack ∨ x = u := by
          intro x hx hf
          rcases hb x hx hf with h1 | h1
          · rw [hq] at h1
            rcases List.mem_cons.mp h1 with e | e
            · exact Or.inr (Or.inr e)
            · exact Or.inl e
          · exact Or.inr (Or.inl h1)
        have hlv := hl { s with queue := q } u h1 hu hd hp hb0
        by_cases hpp : (inner { s with queue := q } u).panicked = true
        · simp only [hpp, if_true]
          exact ⟨hlv, fun hnp => by first | cases hnp | (rw [hpp] at hnp; cases hnp)⟩
        · have hp' : (inner { s with queue := q } u).panicked = false := by
            cases hx : (inner { s with queue := q } u).panicked with
            | false => rfl
            | true => exact absurd hx hpp
          simp only [hp', Bool.false_eq_true, if_false]
          have hs := i3 hp'
          exact ih (inner { s with queue := q } u) i1 (by rw [i2]; exact ht) (by rw [hs, i2]; exact hd) hp' hlv

theorem nPoll_liveF : ∀ d, PollLiveF (nPoll d) d := by
  intro d
  induction d with
  | zero =>
    intro s t h _ hd
    have := nodup_length_le s.stack s.ntasks h.sn h.slt
    omega
  | succ d ih =>
    intro s t h ht hd hp hb
    simp only [nPoll]
    by_cases hm : t ∈ s.stack
    · simp only [hm, if_true]
      intro x hx hfx
      rcases hb x hx hfx with h1 | h1 | h1
      · exact Or.inl h1
      · exact Or.inr h1
      · exact Or.inr (by rw [h1]; exact hm)
    · simp only [hm, if_false]
      cases hf : s.fut t with
      | none =>
        simp only []
        intro x hx hfx
        rcases hb x hx hfx with h1 | h1 | h1
        · exact Or.inl h1
        · exact Or.inr h1
        · subst h1
          have hfx' : (s.fut x).isSome = true := hfx
          rw [hf] at hfx'; cases hfx'
      | some acts =>
        simp only []
        have h0 := ninv_enter h t acts ht hm hf
        have hd0 : (t :: s.stack).length + d = s.ntasks + 1 := by simp only [List.length_cons]; omega
        have hb0 : LiveB { nlog s (.enter t) with stack := t :: s.stack, known := upd s.known t true } := by
          intro x hx hfx
          rcases hb x hx hfx with h1 | h1 | h1
          · exact Or.inl h1
          · exact Or.inr (List.mem_cons_of_mem _ h1)
          · exact Or.inr (by rw [h1]; exact List.mem_cons_self)
        obtain ⟨r1, r2, r3⟩ := nRun_ok (nPoll d) d (nPoll_ok d) t acts
          { nlog s (.enter t) with stack := t :: s.stack, known := upd s.known t true } h0 ht hd0
        have hr := nRun_liveF (nPoll d) d (nPoll_ok d) ih t acts
          { nlog s (.enter t) with stack := t :: s.stack, known := upd s.known t true } h0 ht hd0 hp hb0
        generalize nRun (nPoll d) t acts
          { nlog s (.enter t) with stack := t :: s.stack, known := upd s.known t true } = r at r1 r2 r3 hr ⊢
        cases hpr : r.1.panicked with
        | true =>
          simp only [if_true]
          exact hr.1
        | false =>
          simp only [Bool.false_eq_true, if_false]
          obtain ⟨hlv, hq'⟩ := hr
          have hq := hq' hpr
          have hst : r.1.stack = t :: s.stack := r3 hpr
          have hn : r.1.ntasks = s.ntasks := r2
          cases hr2 : r.2 with
          | some rest =>
            simp only []
            intro x hx hfx
            have hx' : x < r.1.ntasks := hx
            by_cases e : x = t
            · left; rw [e]; exact hq rest hr2
            · have hfx' : (r.1.fut x).isSome = true := by
                have : (upd r.1.fut t (some rest) x).isSome = true := hfx
                simpa [upd_apply, e] using this
              rcases hlv x hx' hfx' with h1 | h1
              · exact Or.inl h1
              · right
                rw [hst] at h1
                rcases List.mem_cons.mp h1 with e' | e'
                · exact absurd e' e
                · show x ∈ r.1.stack.tail
                  rw [hst]; exact e'
          | none =>
            simp only []
            intro x hx hfx
            have hx' : x < r.1.ntasks := hx
            by_cases e : x = t
            · have : (upd r.1.fut t none x).isSome = true := hfx
              simp [upd_apply, e] at this
            · have hfx' : (r.1.fut x).isSome = true := by
                have : (upd r.1.fut t none x).isSome = true := hfx
                simpa [upd_apply, e] using this
              rcases hlv x hx' hfx' with h1 | h1
              · exact Or.inl h1
              · right
                rw [hst] at h1
                rcases List.mem_cons.mp h1 with e' | e'
                · exact absurd e' e
                · show x ∈ r.1.stack.tail
                  rw [hst]; exact e'

/-- at every top-level boundary, the guard panic included: the frozen state loses no task -/
theorem liveF_step {s s' : NState} (h : NTop s) (hl : LiveB s) (hs : nStep s = some s') : LiveB s' := by
  unfold nStep at hs
  split at hs
  · cases hs
  · rename_i hp
    have hp' : s.panicked = false := by
      cases hpp : s.panicked with
      | false => rfl
      | true => exact absurd hpp hp
    have hst := h.idle hp'
    cases hq : s.queue with
    | nil => simp [hq] at hs
    | cons t q =>
      simp only [hq, Option.some.injEq] at hs
      subst hs
      have hnd : (t :: q).Nodup := hq ▸ h.inv.qn
      have h1 : NInv { s with queue := q } :=
        ⟨(List.nodup_cons.mp hnd).2, fun x hx => h.inv.qlt x (by rw [hq]; exact List.mem_cons_of_mem _ hx),
         h.inv.sn, h.inv.slt, h.inv.klt, h.inv.rp, h.inv.occ, h.inv.fin, h.inv.nef, h.inv.ns⟩
      refine nPoll_liveF (s.ntasks + 1) { s with queue := q } t h1 (h.inv.qlt t (by rw [hq]; simp))
        (by show s.stack.length + (s.ntasks + 1) = s.ntasks + 1; rw [hst]; simp) hp' ?_
      intro x hx hfx
      rcases hl x hx hfx with h2 | h2
      · rw [hq] at h2
        rcases List.mem_cons.mp h2 with e | e
        · exact Or.inr (Or.inr e)
        · exact Or.inl e
      · exact Or.inr (Or.inl h2)

theorem liveF_stepN (n : Nat) {s : NState} (h : NTop s) (hl : LiveB s) : LiveB (nStepN n s) := by
  induction n generalizing s with
  | zero => exact hl
  | succ n ih =>
    simp only [nStepN]
    cases hs : nStep s with
    | none => exact hl
    | some s' => exact ih (ntop_step h hs) (liveF_step h hl hs)

end YashModel.Executor.Nested
