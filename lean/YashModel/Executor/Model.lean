/-
  Impl model of `yash-executor` (`executor.rs`, `task.rs`, `waker.rs`, `spawner.rs`, `forwarder.rs`)
  driven by a system of scripted tasks (the test futures of `harness/src/bin/c15.rs`).

  Import-free and executable.  Data layout follows the Rust code:
  * `ExecutorState::wake_queue : VecDeque<Rc<Task>>` is `queue : List Nat` (task ids stand for the
    `Rc<Task>` pointers; `Rc::ptr_eq` is equality of ids),
  * `Task::future : RefCell<Option<Pin<Box<dyn Future>>>>` is `fut t : Option Script` — the part of
    the script the future has not executed yet; `none` = the slot emptied by `Task::poll` on completion,
  * one forwarder `Relay` per task (`ExecutorState::enqueue_forwarding` creates it, the wrapper future
    `async { sender.send(future.await).unwrap_or_default() }` sends into it),
  * a `Waker` is the id of the task it wakes (`waker.rs`: the raw waker's data pointer *is* the
    `Rc<Task>`; `wake`/`wake_by_ref` both end in `Task::wake`).

  The channels (tokens + waiter lists), `kids`, `acc`, `pool` are the harness's side of the system;
  `owner`, `delivered`, `log`, `bad` are ghost fields used only by the theorems and the driver.
-/
namespace YashModel.Executor

/-- one action of a scripted test future -/
inductive Action where
  /-- wake the own waker (twice: `wake_by_ref` and `clone().wake()`), return `Pending` -/
  | yield
  /-- take a token of channel `k`, or register the own waker with it and return `Pending` -/
  | wait (k : Nat)
  /-- add a token to channel `k` and wake every registered waker -/
  | signal (k : Nat)
  /-- `Spawner::spawn` the next script of the pool; keep the `Receiver` -/
  | spawn
  /-- await the `Receiver` of the oldest child not yet joined (no-op without one) -/
  | join
  /-- return `Ready` now (the end of the script does the same) -/
  | complete
  deriving DecidableEq, Repr, Inhabited

abbrev Script := List Action

/-- `forwarder::Relay<T>`; `polled w` holds the waker of task `w` -/
inductive Relay where
  | pending
  | polled (w : Nat)
  | computed (v : Nat)
  | done
  deriving DecidableEq, Repr, Inhabited

/-- the sender has stored the value (`Computed` or `Done`) -/
def Relay.sent : Relay → Bool
  | .computed _ => true
  | .done => true
  | _ => false

/-- `forwarder::TryReceiveError` -/
inductive TryErr where
  | senderDropped | notSent | alreadyReceived
  deriving DecidableEq, Repr

/-- `Receiver::try_receive`; `senderAlive` stands for `Rc::weak_count(&relay) != 0` -/
def tryReceive (r : Relay) (senderAlive : Bool) : Relay × Except TryErr Nat :=
  match r with
  | .pending => (r, .error (if senderAlive then .notSent else .senderDropped))
  | .polled _ => (r, .error (if senderAlive then .notSent else .senderDropped))
  | .computed v => (.done, .ok v)
  | .done => (.done, .error .alreadyReceived)

/-- `<Receiver as Future>::poll` by task `w`; `none` = `Poll::Pending`; the `Done` arm panics in Rust
    ("Receiver polled after receiving the value"), reported by the third component -/
def recvPoll (r : Relay) (w : Nat) : Relay × Option Nat × Bool :=
  match r with
  | .pending => (.polled w, none, false)
  | .polled _ => (.polled w, none, false)
  | .computed v => (.done, some v, false)
  | .done => (.done, none, true)

/-- ghost trace of `Task::poll` calls -/
inductive Ev where
  /-- `Task::poll` found the slot occupied and polls the future -/
  | poll (t : Nat)
  /-- that poll returned (`ready` = `Poll::Ready`) -/
  | ret (t : Nat) (ready : Bool)
  /-- `Task::poll` on an emptied slot: returns `true` without polling -/
  | noop (t : Nat)
  deriving DecidableEq, Repr

/-- point update of a function -/
def upd {α : Type} (f : Nat → α) (k : Nat) (v : α) : Nat → α := fun j => if j = k then v else f j

structure State where
  /-- `ExecutorState::wake_queue` -/
  queue : List Nat := []
  /-- number of tasks created so far (ids `0 … ntasks-1`) -/
  ntasks : Nat := 0
  /-- `Task::future` -/
  fut : Nat → Option Script := fun _ => none
  /-- forwarder relay carrying the result of task `t` -/
  relay : Nat → Relay := fun _ => .pending
  /-- receivers held by task `t`: its children not yet joined, oldest first -/
  kids : Nat → List Nat := fun _ => []
  /-- ghost: the task that spawned `t` (`t` itself for a root) -/
  owner : Nat → Nat := fun t => t
  /-- sum of the values task `t` has received from joined children -/
  acc : Nat → Nat := fun _ => 0
  /-- ghost: how often the value of task `t` has been handed to a receiver -/
  delivered : Nat → Nat := fun _ => 0
  /-- ghost: the value the future of task `t` returned (`Poll::Ready(v)`), recorded by the wrapper future of
      `enqueue_forwarding` at the moment it passes it to `Sender::send` -/
  ret : Nat → Option Nat := fun _ => none
  /-- ghost: the values the relay of task `t` has handed to a receiver (`Receiver::poll` returning `Ready`,
      `try_receive` returning `Ok`), in order -/
  recv : Nat → List Nat := fun _ => []
  /-- channel `k`: tokens -/
  tokens : Nat → Nat := fun _ => 0
  /-- channel `k`: registered wakers, in registration order (duplicates possible) -/
  waiters : Nat → List Nat := fun _ => []
  /-- scripts not yet spawned -/
  pool : List Script := []
  /-- `true`: `signal` leaves the registered wakers in place (stale wakers: spurious wake-ups,
      wake-ups of queued and of finished tasks); `false`: `signal` drains them -/
  sticky : Bool := false
  /-- ghost trace -/
  log : List Ev := []
  /-- ghost: a branch that panics in Rust was taken (`unreachable!()` in `Sender::send`,
      "Receiver polled after receiving the value") -/
  bad : Bool := false

/-- `Task::wake` on the queue: no-op if the task is already enqueued, else `push_back` -/
def enq (q : List Nat) (t : Nat) : List Nat := if t ∈ q then q else q ++ [t]

/-- `Task::wake` (reached through `waker.rs` `wake` / `wake_by_ref`) -/
def wake (s : State) (t : Nat) : State := { s with queue := enq s.queue t }

/-- waking a list of wakers in order -/
def wakeAll (s : State) (ws : List Nat) : State := { s with queue := ws.foldl enq s.queue }

/-- `ExecutorState::enqueue_forwarding`: a new task (id = `ntasks`) with a fresh relay is pushed to the
    back of the queue (no duplicate check: the task is new) -/
def spawnNew (s : State) (own : Nat) (sc : Script) : State :=
  { s with
    ntasks := s.ntasks + 1
    queue := s.queue ++ [s.ntasks]
    fut := upd s.fut s.ntasks (some sc)
    relay := upd s.relay s.ntasks .pending
    owner := upd s.owner s.ntasks own }

/-- action `spawn` of task `t`: `Spawner::spawn` the next pool script, keep the receiver -/
def spawnChild (s : State) (t : Nat) : State :=
  match s.pool with
  | [] => s
  | sc :: rest =>
    let s1 := spawnNew { s with pool := rest } t sc
    { s1 with kids := upd s1.kids t (s1.kids t ++ [s.ntasks]) }

/-- action `signal k` -/
def signal (s : State) (k : Nat) : State :=
  let s1 := wakeAll { s with tokens := upd s.tokens k (s.tokens k + 1) } (s.waiters k)
  if s.sticky then s1 else { s1 with waiters := upd s1.waiters k [] }

/-- the value task `t` returns -/
def value (s : State) (t : Nat) : Nat := (t + 1 + 7 * s.acc t) % 1000

/-- `Sender::send` into the relay of task `t` -/
def send (s : State) (t v : Nat) : State :=
  match s.relay t with
  | .pending => { s with relay := upd s.relay t (.computed v) }
  | .polled w => wake { s with relay := upd s.relay t (.computed v) } w
  | _ => { s with bad := true }

/-- The future of task `t` executing the rest of its script inside one `poll`.
    Result: `none` = `Ready`, `some rest` = `Pending` with `rest` still to do. -/
def runActs (t : Nat) : Script → State → State × Option Script
  | [], s => (s, none)
  | .complete :: _, s => (s, none)
  | .yield :: rest, s => (wake (wake s t) t, some rest)
  | .wait k :: rest, s =>
    if 0 < s.tokens k then
      runActs t rest { s with tokens := upd s.tokens k (s.tokens k - 1) }
    else
      ({ s with waiters := upd s.waiters k (s.waiters k ++ [t]) }, some (.wait k :: rest))
  | .signal k :: rest, s => runActs t rest (signal s k)
  | .spawn :: rest, s => runActs t rest (spawnChild s t)
  | .join :: rest, s =>
    match s.kids t with
    | [] => runActs t rest s
    | c :: cs =>
      match s.relay c with
      | .computed v =>
        runActs t rest { s with
          relay := upd s.relay c .done
          kids := upd s.kids t cs
          acc := upd s.acc t (s.acc t + v)
          delivered := upd s.delivered c (s.delivered c + 1)
          recv := upd s.recv c (s.recv c ++ [v]) }
      | .done => ({ s with bad := true }, some (.join :: rest))
      | _ => ({ s with relay := upd s.relay c (.polled t) }, some (.join :: rest))

/-- the wrapper future of `enqueue_forwarding` after the inner future returned `Ready`:
    `sender.send(value)`; then `Task::poll` empties the slot -/
def complete (s : State) (t : Nat) : State :=
  let s1 := send s t (value s t)
  { s1 with fut := upd s1.fut t none, ret := upd s1.ret t (some (value s t)) }

/-- ghost: append an event to the trace -/
def logEv (s : State) (e : Ev) : State := { s with log := s.log ++ [e] }

/-- second half of `Task::poll`: the future returned `r.2` (`none` = `Ready`) in state `r.1` -/
def pollDone (r : State × Option Script) (t : Nat) : State × Bool :=
  match r.2 with
  | some rest => (logEv { r.1 with fut := upd r.1.fut t (some rest) } (.ret t false), false)
  | none => (logEv (complete r.1 t) (.ret t true), true)

/-- `Task::poll` -/
def poll (s : State) (t : Nat) : State × Bool :=
  match s.fut t with
  | none => (logEv s (.noop t), true)
  | some acts => pollDone (runActs t acts (logEv s (.poll t))) t

/-- `Executor::step` -/
def step (s : State) : Option (State × Bool) :=
  match s.queue with
  | [] => none
  | t :: q => some (poll { s with queue := q } t)

/-- `n` calls of `Executor::step` (a stalled executor stays as it is) -/
def stepN : Nat → State → State
  | 0, s => s
  | n + 1, s =>
    match step s with
    | none => s
    | some r => stepN n r.1

/-- `Executor::run_until_stalled` with a step budget: final state, number of `true` results,
    and whether the queue ran empty within the budget -/
def runUntilStalled : Nat → State → Nat → State × Nat × Bool
  | 0, s, c => (s, c, s.queue.isEmpty)
  | n + 1, s, c =>
    match step s with
    | none => (s, c, true)
    | some r => runUntilStalled n r.1 (if r.2 then c + 1 else c)

/-- `Executor::spawn` of the root scripts, in order -/
def spawnRoots : List Script → State → State
  | [], s => s
  | sc :: rest, s => spawnRoots rest (spawnNew s s.ntasks sc)

/-- a system: the first `roots` scripts are spawned by the harness through `Executor::spawn`,
    the others wait in the pool for `spawn` actions -/
def init (sticky : Bool) (scripts : List Script) (roots : Nat) : State :=
  spawnRoots (scripts.take roots) { pool := scripts.drop roots, sticky := sticky }

/-! ### the executor seen through `Weak` references (`Task::executor`, `Spawner::state`) -/

/-- `Task::wake` through `self.executor.upgrade()`: `none` = the executor has been dropped, the wake-up
    is discarded -/
def wakeWeak (e : Option State) (t : Nat) : Option State := e.map (fun s => wake s t)

/-- `Spawner::spawn` / `Spawner::spawn_pinned`: `none` = `Err(SpawnError(future))` (executor dropped, or
    `Spawner::dead()`); otherwise the task is pushed to the back of the queue -/
def spawnWeak (e : Option State) (sc : Script) : Option State := e.map (fun s => spawnNew s s.ntasks sc)

/-! ### reference counting of `Rc<Task>` (what `waker.rs` maintains), seen from outside -/

/-- How many `Rc<Task>` of task `t` exist at a step boundary: one per queue entry, one per waker
    registered with a channel `< nch`, one per relay holding its waker. -/
def refs (s : State) (nch : Nat) (t : Nat) : Nat :=
  s.queue.count t + ((List.range nch).map fun k => (s.waiters k).count t).sum +
  ((List.range s.ntasks).filter fun c => s.relay c == .polled t).length

/-- an unfinished task nothing refers to: its `Task` (future, sender) has been dropped -/
def lostB (s : State) (nch : Nat) (t : Nat) : Bool := (s.fut t).isSome && refs s nch t == 0

/-! ### operations from outside any poll (the `v` cases of the harness) -/

/-- operation on the executor or on the i-th waker registered with channel k -/
inductive XOp where
  | step | rus
  | wake (k i : Nat) | byRef (k i : Nat) | clone (k i : Nat) | drop (k i : Nat)
  | signal (k : Nat)
  | dropExec
  | try_ (c : Nat)
  | spawn
  deriving DecidableEq, Repr

/-- the task system plus "the executor has been dropped" -/
structure XState where
  s : State
  dead : Bool := false
  /-- ghost: a waker has been thrown away or the executor dropped, so tasks may have been abandoned on
      purpose ("no lost wake-up" is then not claimed) -/
  abandoned : Bool := false

/-- after the executor is gone nothing is queued any more: `Task::wake` finds no executor -/
def XState.settle (x : XState) : XState := if x.dead then { x with s := { x.s with queue := [] } } else x

/-- `Receiver::try_receive` on the receiver of task `c`: what it returns -/
def tryRecvTask (s : State) (nch : Nat) (c : Nat) : Except TryErr Nat :=
  (tryReceive (s.relay c) ((s.fut c).isSome && !lostB s nch c)).2

/-- … and what it does to the relay: a computed value is taken out -/
def takeValue (s : State) (c : Nat) : State :=
  match s.relay c with
  | .computed v =>
    { s with relay := upd s.relay c .done, delivered := upd s.delivered c (s.delivered c + 1),
             recv := upd s.recv c (s.recv c ++ [v]) }
  | _ => s

/-- is `c` a child some task still holds the receiver of (and will await)? Polling a receiver after
    `try_receive` took the value panics by contract, so the harness leaves those receivers alone. -/
def heldByParent (s : State) (c : Nat) : Bool := (s.kids (s.owner c)).contains c

/-- step budget of `run_until_stalled` shared with the harness (`MAX_STEPS` in c15.rs) -/
def maxSteps : Nat := 4000

/-- one outside operation that is not a step of the executor -/
def xApply (x : XState) : XOp → XState
  | .wake k i =>
    match (x.s.waiters k)[i]? with
    | none => x
    | some t => XState.settle { x with s := wake { x.s with waiters := upd x.s.waiters k ((x.s.waiters k).eraseIdx i) } t }
  | .byRef k i =>
    match (x.s.waiters k)[i]? with
    | none => x
    | some t => XState.settle { x with s := wake x.s t }
  | .clone k i =>
    match (x.s.waiters k)[i]? with
    | none => x
    | some t => { x with s := { x.s with waiters := upd x.s.waiters k (x.s.waiters k ++ [t]) } }
  | .drop k i =>
    match (x.s.waiters k)[i]? with
    | none => x
    | some _ => { x with s := { x.s with waiters := upd x.s.waiters k ((x.s.waiters k).eraseIdx i) }, abandoned := true }
  | .signal k => XState.settle { x with s := signal x.s k }
  | .dropExec => XState.settle { x with dead := true, abandoned := true }
  | .try_ c => if c < x.s.ntasks && !heldByParent x.s c then { x with s := takeValue x.s c } else x
  | .spawn =>
    match x.s.pool with
    | [] => x
    | sc :: rest =>
      match spawnWeak (if x.dead then none else some { x.s with pool := rest }) sc with
      | some s' => { x with s := s' }
      | none => x
  | .step => x
  | .rus => x

/-- one operation of a `v` case: `Executor::step`, `Executor::run_until_stalled`, or an outside operation -/
def xRun (x : XState) (op : XOp) : XState :=
  match op with
  | .step => if x.dead then x else { x with s := stepN 1 x.s }
  | .rus => if x.dead then x else { x with s := (runUntilStalled maxSteps x.s 0).1 }
  | op => xApply x op

/-- a whole `v` case -/
def xRunAll (x : XState) (ops : List XOp) : XState := ops.foldl xRun x

/-! ### the forwarder alone (the `f` cases of the harness) -/

inductive FOp where
  | send | dropSender | dropReceiver | try_ | poll (w : Nat)
  deriving DecidableEq, Repr

/-- a `Sender`/`Receiver` pair: the relay, which halves still exist, ghost counters -/
structure FState where
  relay : Relay := .pending
  tx : Bool := true
  rx : Bool := true
  /-- ghost: how often waker `w` has been woken -/
  woken : Nat → Nat := fun _ => 0
  /-- ghost: number of wake-ups issued by `Sender::send` -/
  nwakes : Nat := 0
  /-- ghost: values handed out by `try_receive` / the receiver's `poll` -/
  got : List Nat := []
  /-- ghost: `Sender::send` reached `unreachable!()` -/
  bad : Bool := false

/-- `Sender::send` on the relay alone: new relay, the waker to wake, `unreachable!()` reached -/
def relaySend (r : Relay) (v : Nat) : Relay × Option Nat × Bool :=
  match r with
  | .pending => (.computed v, none, false)
  | .polled w => (.computed v, some w, false)
  | _ => (r, none, true)

/-- one operation and its observation (`.` = the half needed is gone) -/
def fstep (f : FState) : FOp → FState × String
  | .send =>
    if !f.tx then (f, ".")
    else if !f.rx then ({ f with tx := false }, "back")
    else
      let r := relaySend f.relay 7
      ({ f with tx := false, relay := r.1, bad := f.bad || r.2.2,
                woken := match r.2.1 with | some w => upd f.woken w (f.woken w + 1) | none => f.woken,
                nwakes := match r.2.1 with | some _ => f.nwakes + 1 | none => f.nwakes }, "ok")
  | .dropSender => if f.tx then ({ f with tx := false }, "-") else (f, ".")
  | .dropReceiver => if f.rx then ({ f with rx := false }, "-") else (f, ".")
  | .try_ =>
    if !f.rx then (f, ".")
    else
      let r := tryReceive f.relay f.tx
      match r.2 with
      | .ok v => ({ f with relay := r.1, got := f.got ++ [v] }, s!"v{v}")
      | .error .notSent => (f, "NS")
      | .error .senderDropped => (f, "SD")
      | .error .alreadyReceived => (f, "AR")
  | .poll w =>
    if !f.rx then (f, ".")
    else
      let r := recvPoll f.relay w
      if r.2.2 then (f, "panic")
      else match r.2.1 with
        | some v => ({ f with relay := r.1, got := f.got ++ [v] }, s!"rdy{v}")
        | none => ({ f with relay := r.1 }, "pend")

def frun : FState → List FOp → FState
  | f, [] => f
  | f, op :: ops => frun (fstep f op).1 ops

/-- clones of waker `w` the relay holds (the relay lives as long as the receiver) -/
def FState.held (f : FState) (w : Nat) : Nat := if f.rx && f.relay == .polled w then 1 else 0

end YashModel.Executor
