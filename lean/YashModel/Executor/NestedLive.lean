/-
  C15 helper lemmas, part 13 (wave 3): "no lost wake-up" when `Executor::step` is also called from inside polls
  (`NestedModel.lean`).  `LiveB`: every unfinished task is in the wake queue or is being polled right now; holds
  through every nested poll (induction on the depth budget and the script, same skeleton as `nPoll_ok`), so
  between top-level steps every unfinished task is queued, and a stalled run loop means all tasks completed.
-/
import YashModel.Executor.NestedFifo
namespace YashModel.Executor.Nested

/-- every unfinished task is woken-and-queued or being polled right now -/
def LiveB (s : NState) : Prop := ∀ x, x < s.ntasks → (s.fut x).isSome = true → x ∈ s.queue ∨ x ∈ s.stack

/-- what a nested `Task::poll` of the just-popped task `t` guarantees -/
def PollLive (inner : NState → Nat → NState) (d : Nat) : Prop :=
  ∀ s t, NInv s → t < s.ntasks → s.stack.length + d = s.ntasks + 1 → s.panicked = false →
    (∀ x, x < s.ntasks → (s.fut x).isSome = true → x ∈ s.queue ∨ x ∈ s.stack ∨ x = t) →
    (inner s t).panicked = false → LiveB (inner s t)

theorem mem_enq_mono (q : List Nat) (u x : Nat) (h : x ∈ q) : x ∈ enq q u := mem_enq_of_mem q u x h

theorem nRun_live (inner : NState → Nat → NState) (d : Nat) (hin : PollOK inner d) (hl : PollLive inner d)
    (t : Nat) (acts : NScript) :
    ∀ s, NInv s → t < s.ntasks → s.stack.length + d = s.ntasks + 1 → s.panicked = false → LiveB s →
      (nRun inner t acts s).1.panicked = false →
      LiveB (nRun inner t acts s).1 ∧ (∀ rest, (nRun inner t acts s).2 = some rest → t ∈ (nRun inner t acts s).1.queue) := by
  induction acts with
  | nil => intro s _ _ _ _ hb _; exact ⟨hb, fun _ h => by cases h⟩
  | cons a rest ih =>
    intro s h ht hd hp hb hnp
    cases a with
    | complete => exact ⟨hb, fun _ h => by cases h⟩
    | yield =>
      refine ⟨?_, fun _ _ => mem_enq_self _ _⟩
      intro x hx hf
      rcases hb x hx hf with h1 | h1
      · exact Or.inl (mem_enq_mono _ _ _ h1)
      · exact Or.inr h1
    | wake u =>
      simp only [nRun] at hnp ⊢
      split
      · rename_i hk
        simp only [hk, if_true] at hnp
        refine ih (nwake s u) (ninv_wake h u (h.klt u hk)) ht hd hp ?_ hnp
        intro x hx hf
        rcases hb x hx hf with h1 | h1
        · exact Or.inl (mem_enq_mono _ _ _ h1)
        · exact Or.inr h1
      · rename_i hk
        simp only [hk, if_false] at hnp
        exact ih s h ht hd hp hb hnp
    | nest =>
      simp only [nRun] at hnp ⊢
      cases hq : s.queue with
      | nil =>
        simp only [hq] at hnp ⊢
        exact ih (nlog s .idle) (ninv_event h .idle (fun _ => by simp) (fun _ _ => by simp)) ht hd hp hb hnp
      | cons u q =>
        simp only [hq] at hnp ⊢
        have hnd : (u :: q).Nodup := hq ▸ h.qn
        have h1 : NInv { s with queue := q } :=
          ⟨(List.nodup_cons.mp hnd).2, fun x hx => h.qlt x (by rw [hq]; exact List.mem_cons_of_mem _ hx),
           h.sn, h.slt, h.klt, h.rp, h.occ, h.fin, h.nef, h.ns⟩
        have hu : u < s.ntasks := h.qlt u (by rw [hq]; simp)
        obtain ⟨i1, i2, i3⟩ := hin { s with queue := q } u h1 hu hd
        have hb0 : ∀ x, x < s.ntasks → (s.fut x).isSome = true → x ∈ q ∨ x ∈ s.stack ∨ x = u := by
          intro x hx hf
          rcases hb x hx hf with h1 | h1
          · rw [hq] at h1
            rcases List.mem_cons.mp h1 with e | e
            · exact Or.inr (Or.inr e)
            · exact Or.inl e
          · exact Or.inr (Or.inl h1)
        by_cases hpp : (inner { s with queue := q } u).panicked = true
        · simp only [hpp, if_true] at hnp
          first | cases hnp | (rw [hpp] at hnp; cases hnp)
        · simp only [hpp, if_false] at hnp ⊢
          have hp' : (inner { s with queue := q } u).panicked = false := by
            cases hx : (inner { s with queue := q } u).panicked with
            | false => rfl
            | true => exact absurd hx hpp
          have hs := i3 hp'
          have hlv := hl { s with queue := q } u h1 hu hd hp hb0 hp'
          exact ih (inner { s with queue := q } u) i1 (by rw [i2]; exact ht) (by rw [hs, i2]; exact hd) hp' hlv hnp

theorem nPoll_live : ∀ d, PollLive (nPoll d) d := by
  intro d
  induction d with
  | zero =>
    intro s t h _ hd
    have := nodup_length_le s.stack s.ntasks h.sn h.slt
    omega
  | succ d ih =>
    intro s t h ht hd hp hb hnp
    simp only [nPoll] at hnp ⊢
    by_cases hm : t ∈ s.stack
    · simp only [hm, if_true] at hnp
      cases hnp
    · simp only [hm, if_false] at hnp ⊢
      cases hf : s.fut t with
      | none =>
        simp only [hf] at hnp ⊢
        intro x hx hfx
        rcases hb x hx hfx with h1 | h1 | h1
        · exact Or.inl h1
        · exact Or.inr h1
        · subst h1
          have hfx' : (s.fut x).isSome = true := hfx
          rw [hf] at hfx'; cases hfx'
      | some acts =>
        simp only [hf] at hnp ⊢
        have h0 := ninv_enter h t acts ht hm hf
        have hd0 : (t :: s.stack).length + d = s.ntasks + 1 := by simp only [List.length_cons]; omega
        have hb0 : LiveB { nlog s (.enter t) with stack := t :: s.stack, known := upd s.known t true } := by
          intro x hx hfx
          rcases hb x hx hfx with h1 | h1 | h1
          · exact Or.inl h1
          · exact Or.inr (List.mem_cons_of_mem _ h1)
          · exact Or.inr (by rw [h1]; exact List.mem_cons_self)
        obtain ⟨r1, r2, r3⟩ := nRun_ok (nPoll d) d (nPoll_ok d) t acts
          { nlog s (.enter t) with stack := t :: s.stack, known := upd s.known t true } h0 ht hd0
        have hr := nRun_live (nPoll d) d (nPoll_ok d) ih t acts
          { nlog s (.enter t) with stack := t :: s.stack, known := upd s.known t true } h0 ht hd0 hp hb0
        generalize nRun (nPoll d) t acts
          { nlog s (.enter t) with stack := t :: s.stack, known := upd s.known t true } = r at hnp r1 r2 r3 hr ⊢
        cases hpr : r.1.panicked with
        | true =>
          simp only [hpr, if_true] at hnp
          first | cases hnp | (rw [hpr] at hnp; cases hnp)
        | false =>
          simp only [hpr, Bool.false_eq_true, if_false] at hnp ⊢
          obtain ⟨hlv, hq⟩ := hr hpr
          have hst : r.1.stack = t :: s.stack := r3 hpr
          have hn : r.1.ntasks = s.ntasks := r2
          cases hr2 : r.2 with
          | some rest =>
            simp only []
            intro x hx hfx
            have hx' : x < r.1.ntasks := hx
            by_cases e : x = t
            · left; rw [e]; exact hq rest hr2
            · have hfx' : (r.1.fut x).isSome = true := by
                have : (upd r.1.fut t (some rest) x).isSome = true := hfx
                simpa [upd_apply, e] using this
              rcases hlv x hx' hfx' with h1 | h1
              · exact Or.inl h1
              · right
                rw [hst] at h1
                rcases List.mem_cons.mp h1 with e' | e'
                · exact absurd e' e
                · show x ∈ r.1.stack.tail
                  rw [hst]; exact e'
          | none =>
            simp only []
            intro x hx hfx
            have hx' : x < r.1.ntasks := hx
            by_cases e : x = t
            · have : (upd r.1.fut t none x).isSome = true := hfx
              simp [upd_apply, e] at this
            · have hfx' : (r.1.fut x).isSome = true := by
                have : (upd r.1.fut t none x).isSome = true := hfx
                simpa [upd_apply, e] using this
              rcases hlv x hx' hfx' with h1 | h1
              · exact Or.inl h1
              · right
                rw [hst] at h1
                rcases List.mem_cons.mp h1 with e' | e'
                · exact absurd e' e
                · show x ∈ r.1.stack.tail
                  rw [hst]; exact e'

/-- between top-level steps -/
structure NTopL (s : NState) : Prop where
  top : NTop s
  live : s.panicked = false → LiveB s

theorem ntopl_step {s s' : NState} (h : NTopL s) (hs : nStep s = some s') : NTopL s' := by
  refine ⟨ntop_step h.top hs, ?_⟩
  unfold nStep at hs
  split at hs
  · cases hs
  · rename_i hp
    have hp' : s.panicked = false := by
      cases hpp : s.panicked with
      | false => rfl
      | true => exact absurd hpp hp
    have hst := h.top.idle hp'
    cases hq : s.queue with
    | nil => simp [hq] at hs
    | cons t q =>
      simp only [hq, Option.some.injEq] at hs
      subst hs
      have hnd : (t :: q).Nodup := hq ▸ h.top.inv.qn
      have h1 : NInv { s with queue := q } :=
        ⟨(List.nodup_cons.mp hnd).2, fun x hx => h.top.inv.qlt x (by rw [hq]; exact List.mem_cons_of_mem _ hx),
         h.top.inv.sn, h.top.inv.slt, h.top.inv.klt, h.top.inv.rp, h.top.inv.occ, h.top.inv.fin, h.top.inv.nef,
         h.top.inv.ns⟩
      intro hnp
      refine nPoll_live (s.ntasks + 1) { s with queue := q } t h1 (h.top.inv.qlt t (by rw [hq]; simp))
        (by show s.stack.length + (s.ntasks + 1) = s.ntasks + 1; rw [hst]; simp) hp' ?_ hnp
      intro x hx hfx
      rcases h.live hp' x hx hfx with h2 | h2
      · rw [hq] at h2
        rcases List.mem_cons.mp h2 with e | e
        · exact Or.inr (Or.inr e)
        · exact Or.inl e
      · exact Or.inr (Or.inl h2)

theorem ntopl_stepN (n : Nat) {s : NState} (h : NTopL s) : NTopL (nStepN n s) := by
  induction n generalizing s with
  | zero => exact h
  | succ n ih =>
    simp only [nStepN]
    cases hs : nStep s with
    | none => exact h
    | some s' => exact ih (ntopl_step h hs)

theorem ntopl_init (scripts : List NScript) : NTopL (nInit scripts) :=
  ⟨ntop_init scripts, fun _ x hx _ => Or.inl (List.mem_range.mpr hx)⟩

end YashModel.Executor.Nested
