/-
  C15 helper lemmas, part 2: the invariant of the executor + task system and its preservation by every
  state transformer of the model.  `InvX ab none` is the invariant at a step boundary; `InvX ab (some t)` is
  what holds while task `t` is being polled (its slot is occupied and it is exempt from the
  "in the queue or blocked" clause until its poll returns).
-/
import YashModel.Executor.Lemmas
namespace YashModel.Executor

variable {ab : Bool}

/-- Task `t`, whose future still has `acts` to do, waits for a wake-up that has not happened: it is
    registered with a channel that has no token, or its waker is stored in the relay of the child it
    awaits. -/
def Blocked (s : State) (t : Nat) (acts : Script) : Prop :=
  (∃ k rest, acts = .wait k :: rest ∧ t ∈ s.waiters k ∧ s.tokens k = 0) ∨
  (∃ c cs rest, acts = .join :: rest ∧ s.kids t = c :: cs ∧ s.relay c = .polled t)

structure InvX (ab : Bool) (r : Option Nat) (s : State) : Prop where
  nodup : s.queue.Nodup
  qlt : ∀ x, x ∈ s.queue → x < s.ntasks
  wlt : ∀ k x, x ∈ s.waiters k → x < s.ntasks
  plt : ∀ c w, s.relay c = .polled w → w < s.ntasks
  kid : ∀ t c, c ∈ s.kids t → c < s.ntasks ∧ s.owner c = t
  knodup : ∀ t, (s.kids t).Nodup
  kdone : ∀ t c, c ∈ s.kids t → s.relay c ≠ .done
  sync : ∀ c, c < s.ntasks → (s.fut c = none ↔ (s.relay c).sent = true)
  fresh : ∀ c, s.ntasks ≤ c → s.relay c = .pending
  deliv : ∀ c, s.delivered c = if s.relay c = .done then 1 else 0
  /-- `ab` = some waker has been thrown away or the executor dropped: tasks may have been abandoned on
      purpose, the clause is then not claimed -/
  live : ∀ t acts, ab = false → t < s.ntasks → r ≠ some t → s.fut t = some acts → t ∈ s.queue ∨ Blocked s t acts
  run : ∀ t, r = some t → t < s.ntasks ∧ ∃ acts, s.fut t = some acts
  nobad : s.bad = false

/-! ### transformers that touch only the queue or only ghost fields -/

theorem inv_queue {r : Option Nat} {s : State} (h : InvX ab r s) (q : List Nat) (hn : q.Nodup)
    (hlt : ∀ x, x ∈ q → x < s.ntasks) (hsub : ∀ x, x ∈ s.queue → x ∈ q) :
    InvX ab r { s with queue := q } :=
  ⟨hn, hlt, h.wlt, h.plt, h.kid, h.knodup, h.kdone, h.sync, h.fresh, h.deliv,
   fun t acts hab ht hr hf => (h.live t acts hab ht hr hf).elim (fun hq => Or.inl (hsub t hq)) Or.inr,
   h.run, h.nobad⟩

theorem inv_wake {r : Option Nat} {s : State} (h : InvX ab r s) (w : Nat) (hw : w < s.ntasks) :
    InvX ab r (wake s w) := by
  refine inv_queue h (enq s.queue w) (nodup_enq _ _ h.nodup) ?_ (fun x hx => mem_enq_of_mem _ _ _ hx)
  intro x hx
  rcases (mem_enq_iff _ _ _).mp hx with hx | rfl
  · exact h.qlt x hx
  · exact hw

theorem inv_wakeAll {r : Option Nat} {s : State} (h : InvX ab r s) (ws : List Nat)
    (hw : ∀ w, w ∈ ws → w < s.ntasks) : InvX ab r (wakeAll s ws) := by
  refine inv_queue h (ws.foldl enq s.queue) (nodup_foldl_enq _ _ h.nodup) ?_
    (fun x hx => (mem_foldl_enq _ _ _).mpr (Or.inl hx))
  intro x hx
  rcases (mem_foldl_enq _ _ _).mp hx with hx | hx
  · exact h.qlt x hx
  · exact hw x hx

theorem inv_logEv {r : Option Nat} {s : State} (h : InvX ab r s) (e : Ev) : InvX ab r (logEv s e) :=
  ⟨h.nodup, h.qlt, h.wlt, h.plt, h.kid, h.knodup, h.kdone, h.sync, h.fresh, h.deliv, h.live, h.run,
   h.nobad⟩

/-! ### channel actions -/

/-- `wait k` with a token -/
theorem inv_consume {r : Option Nat} {s : State} (h : InvX ab r s) (k : Nat) (hk : 0 < s.tokens k) :
    InvX ab r { s with tokens := upd s.tokens k (s.tokens k - 1) } := by
  refine ⟨h.nodup, h.qlt, h.wlt, h.plt, h.kid, h.knodup, h.kdone, h.sync, h.fresh, h.deliv, ?_, h.run,
    h.nobad⟩
  intro t acts hab ht hr hf
  rcases h.live t acts hab ht hr hf with hq | hb
  · exact Or.inl hq
  · right
    rcases hb with ⟨k', rest, e, hm, h0⟩ | hj
    · left
      refine ⟨k', rest, e, hm, ?_⟩
      have hne : k' ≠ k := by
        intro e'; subst e'; omega
      simp [upd_apply, hne, h0]
    · exact Or.inr hj

/-- `wait k` without a token: the running task registers its waker -/
theorem inv_register {t : Nat} {s : State} (h : InvX ab (some t) s) (k : Nat) :
    InvX ab (some t) { s with waiters := upd s.waiters k (s.waiters k ++ [t]) } := by
  have htl : t < s.ntasks := (h.run t rfl).1
  refine ⟨h.nodup, h.qlt, ?_, h.plt, h.kid, h.knodup, h.kdone, h.sync, h.fresh, h.deliv, ?_, h.run,
    h.nobad⟩
  · intro k' x hx
    by_cases e : k' = k
    · subst e
      simp [upd_apply] at hx
      rcases hx with hx | rfl
      · exact h.wlt _ x hx
      · exact htl
    · simp [upd_apply, e] at hx
      exact h.wlt k' x hx
  · intro t' acts hab ht hr hf
    rcases h.live t' acts hab ht hr hf with hq | hb
    · exact Or.inl hq
    · right
      rcases hb with ⟨k', rest, e, hm, h0⟩ | hj
      · left
        refine ⟨k', rest, e, ?_, h0⟩
        by_cases e' : k' = k
        · subst e'; simp [upd_apply, hm]
        · simp [upd_apply, e', hm]
      · exact Or.inr hj

/-- `signal k` -/
theorem inv_signal {r : Option Nat} {s : State} (h : InvX ab r s) (k : Nat) : InvX ab r (signal s k) := by
  -- the token is added
  have h1 : InvX ab r (wakeAll { s with tokens := upd s.tokens k (s.tokens k + 1) } (s.waiters k)) := by
    have h0 : InvX ab r { s with queue := (s.waiters k).foldl enq s.queue } := by
      refine inv_queue h _ (nodup_foldl_enq _ _ h.nodup) ?_
        (fun x hx => (mem_foldl_enq _ _ _).mpr (Or.inl hx))
      intro x hx
      rcases (mem_foldl_enq _ _ _).mp hx with hx | hx
      · exact h.qlt x hx
      · exact h.wlt k x hx
    refine ⟨h0.nodup, h0.qlt, h0.wlt, h0.plt, h0.kid, h0.knodup, h0.kdone, h0.sync, h0.fresh, h0.deliv,
      ?_, h0.run, h0.nobad⟩
    intro t acts hab ht hr hf
    rcases h.live t acts hab ht hr hf with hq | hb
    · exact Or.inl ((mem_foldl_enq _ _ _).mpr (Or.inl hq))
    · rcases hb with ⟨k', rest, e, hm, hz⟩ | hj
      · by_cases e' : k' = k
        · subst e'
          exact Or.inl ((mem_foldl_enq _ _ _).mpr (Or.inr hm))
        · right; left
          exact ⟨k', rest, e, hm, by simp [wakeAll, upd_apply, e', hz]⟩
      · exact Or.inr (Or.inr hj)
  unfold signal
  split
  · exact h1
  · refine ⟨h1.nodup, h1.qlt, ?_, h1.plt, h1.kid, h1.knodup, h1.kdone, h1.sync, h1.fresh, h1.deliv, ?_,
      h1.run, h1.nobad⟩
    · intro k' x hx
      by_cases e : k' = k
      · subst e; simp [upd_apply] at hx
      · simp [upd_apply, e] at hx
        exact h1.wlt k' x hx
    · intro t acts hab ht hr hf
      -- go back to the state before the signal: a task registered with `k` is now in the queue
      rcases h.live t acts hab ht hr hf with hq | hb
      · exact Or.inl ((mem_foldl_enq _ _ _).mpr (Or.inl hq))
      · rcases hb with ⟨k', rest, e, hm, hz⟩ | hj
        · by_cases e' : k' = k
          · subst e'
            exact Or.inl ((mem_foldl_enq _ _ _).mpr (Or.inr hm))
          · right; left
            exact ⟨k', rest, e, by simp [wakeAll, upd_apply, e', hm], by simp [wakeAll, upd_apply, e', hz]⟩
        · exact Or.inr (Or.inr hj)

/-! ### spawning -/

/-- action `spawn` of the running task -/
theorem inv_spawnChild {t : Nat} {s : State} (h : InvX ab (some t) s) : InvX ab (some t) (spawnChild s t) := by
  have htl : t < s.ntasks := (h.run t rfl).1
  unfold spawnChild
  cases hp : s.pool with
  | nil => exact h
  | cons sc rest =>
    simp only [spawnNew]
    have hfr : s.relay s.ntasks = .pending := h.fresh _ (Nat.le_refl _)
    refine ⟨?_, ?_, ?_, ?_, ?_, ?_, ?_, ?_, ?_, ?_, ?_, ?_, h.nobad⟩
    · -- nodup
      show (s.queue ++ [s.ntasks]).Nodup
      rw [List.nodup_append]
      refine ⟨h.nodup, by simp, ?_⟩
      intro a ha b hb
      simp at hb; subst hb
      have := h.qlt a ha
      omega
    · intro x hx
      show x < s.ntasks + 1
      have hx' : x ∈ s.queue ++ [s.ntasks] := hx
      simp at hx'
      rcases hx' with hx' | rfl
      · have := h.qlt x hx'; omega
      · omega
    · intro k x hx
      have := h.wlt k x hx
      show x < s.ntasks + 1
      omega
    · intro c w hw
      show w < s.ntasks + 1
      have hw' : upd s.relay s.ntasks .pending c = .polled w := hw
      by_cases e : c = s.ntasks
      · simp [upd_apply, e] at hw'
      · simp [upd_apply, e] at hw'
        have := h.plt c w hw'; omega
    · intro t' c hc
      show c < s.ntasks + 1 ∧ upd s.owner s.ntasks t c = t'
      have hc' : c ∈ upd s.kids t (s.kids t ++ [s.ntasks]) t' := hc
      by_cases e : t' = t
      · subst e
        simp [upd_apply] at hc'
        rcases hc' with hc' | rfl
        · have := h.kid _ c hc'
          have hne : c ≠ s.ntasks := by omega
          exact ⟨by omega, by simp [upd_apply, hne, this.2]⟩
        · exact ⟨by omega, by simp [upd_apply]⟩
      · simp [upd_apply, e] at hc'
        have := h.kid t' c hc'
        have hne : c ≠ s.ntasks := by omega
        exact ⟨by omega, by simp [upd_apply, hne, this.2]⟩
    · intro t'
      show (upd s.kids t (s.kids t ++ [s.ntasks]) t').Nodup
      by_cases e : t' = t
      · subst e
        simp only [upd_apply, if_true]
        rw [List.nodup_append]
        refine ⟨h.knodup _, by simp, ?_⟩
        intro a ha b hb
        simp at hb; subst hb
        have := (h.kid _ a ha).1
        omega
      · simp only [upd_apply, e, if_false]; exact h.knodup t'
    · intro t' c hc
      show upd s.relay s.ntasks .pending c ≠ .done
      have hc' : c ∈ upd s.kids t (s.kids t ++ [s.ntasks]) t' := hc
      by_cases ec : c = s.ntasks
      · simp [upd_apply, ec]
      · simp only [upd_apply, ec, if_false]
        by_cases e : t' = t
        · subst e
          simp [upd_apply] at hc'
          rcases hc' with hc' | hc'
          · exact h.kdone _ c hc'
          · exact absurd hc' ec
        · simp [upd_apply, e] at hc'
          exact h.kdone t' c hc'
    · intro c hc
      show upd s.fut s.ntasks (some sc) c = none ↔ (upd s.relay s.ntasks .pending c).sent = true
      by_cases e : c = s.ntasks
      · simp [upd_apply, e, Relay.sent]
      · simp only [upd_apply, e, if_false]
        have hc' : c < s.ntasks + 1 := hc
        exact h.sync c (by omega)
    · intro c hc
      show upd s.relay s.ntasks .pending c = .pending
      have hc' : s.ntasks + 1 ≤ c := hc
      have e : c ≠ s.ntasks := by omega
      simp only [upd_apply, e, if_false]
      exact h.fresh c (by omega)
    · intro c
      show s.delivered c = if upd s.relay s.ntasks .pending c = .done then 1 else 0
      by_cases e : c = s.ntasks
      · subst e
        have := h.deliv s.ntasks
        rw [hfr] at this
        simp [upd_apply, this]
      · simp only [upd_apply, e, if_false]; exact h.deliv c
    · intro t' acts hab ht hr hf
      have ht' : t' < s.ntasks + 1 := ht
      have hf' : upd s.fut s.ntasks (some sc) t' = some acts := hf
      show t' ∈ s.queue ++ [s.ntasks] ∨ _
      by_cases e : t' = s.ntasks
      · left; simp [e]
      · simp only [upd_apply, e, if_false] at hf'
        have hne : t' ≠ t := fun e' => hr (by rw [e'])
        rcases h.live t' acts hab (by omega) hr hf' with hq | hb
        · left; simp [hq]
        · right
          rcases hb with ⟨k, rst, ea, hm, hz⟩ | ⟨c, cs, rst, ea, hk, hrl⟩
          · exact Or.inl ⟨k, rst, ea, hm, hz⟩
          · right
            refine ⟨c, cs, rst, ea, ?_, ?_⟩
            · show upd s.kids t (s.kids t ++ [s.ntasks]) t' = c :: cs
              simp only [upd_apply, hne, if_false]; exact hk
            · show upd s.relay s.ntasks .pending c = .polled t'
              have hcl := (h.kid t' c (by rw [hk]; simp)).1
              have hcn : c ≠ s.ntasks := by omega
              simp only [upd_apply, hcn, if_false]; exact hrl
    · intro t' hr
      have e : t' = t := by injection hr with hr; exact hr.symm
      subst e
      obtain ⟨_, acts, hf⟩ := h.run t' rfl
      refine ⟨by show t' < s.ntasks + 1; omega, acts, ?_⟩
      show upd s.fut s.ntasks (some sc) t' = some acts
      have hne : t' ≠ s.ntasks := by omega
      simp only [upd_apply, hne, if_false]; exact hf

/-- `Executor::spawn` of a root by the harness (no task is running) -/
theorem inv_spawnRoot {s : State} (h : InvX ab none s) (sc : Script) : InvX ab none (spawnNew s s.ntasks sc) := by
  have hfr : s.relay s.ntasks = .pending := h.fresh _ (Nat.le_refl _)
  unfold spawnNew
  refine ⟨?_, ?_, ?_, ?_, ?_, h.knodup, ?_, ?_, ?_, ?_, ?_, ?_, h.nobad⟩
  · show (s.queue ++ [s.ntasks]).Nodup
    rw [List.nodup_append]
    refine ⟨h.nodup, by simp, ?_⟩
    intro a ha b hb
    simp at hb; subst hb
    have := h.qlt a ha
    omega
  · intro x hx
    show x < s.ntasks + 1
    have hx' : x ∈ s.queue ++ [s.ntasks] := hx
    simp at hx'
    rcases hx' with hx' | rfl
    · have := h.qlt x hx'; omega
    · omega
  · intro k x hx
    have := h.wlt k x hx
    show x < s.ntasks + 1
    omega
  · intro c w hw
    show w < s.ntasks + 1
    have hw' : upd s.relay s.ntasks .pending c = .polled w := hw
    by_cases e : c = s.ntasks
    · simp [upd_apply, e] at hw'
    · simp [upd_apply, e] at hw'
      have := h.plt c w hw'; omega
  · intro t' c hc
    show c < s.ntasks + 1 ∧ upd s.owner s.ntasks s.ntasks c = t'
    have := h.kid t' c hc
    have hne : c ≠ s.ntasks := by omega
    exact ⟨by omega, by simp [upd_apply, hne, this.2]⟩
  · intro t' c hc
    show upd s.relay s.ntasks .pending c ≠ .done
    by_cases ec : c = s.ntasks
    · simp [upd_apply, ec]
    · simp only [upd_apply, ec, if_false]; exact h.kdone t' c hc
  · intro c hc
    show upd s.fut s.ntasks (some sc) c = none ↔ (upd s.relay s.ntasks .pending c).sent = true
    by_cases e : c = s.ntasks
    · simp [upd_apply, e, Relay.sent]
    · simp only [upd_apply, e, if_false]
      have hc' : c < s.ntasks + 1 := hc
      exact h.sync c (by omega)
  · intro c hc
    show upd s.relay s.ntasks .pending c = .pending
    have hc' : s.ntasks + 1 ≤ c := hc
    have e : c ≠ s.ntasks := by omega
    simp only [upd_apply, e, if_false]
    exact h.fresh c (by omega)
  · intro c
    show s.delivered c = if upd s.relay s.ntasks .pending c = .done then 1 else 0
    by_cases e : c = s.ntasks
    · subst e
      have := h.deliv s.ntasks
      rw [hfr] at this
      simp [upd_apply, this]
    · simp only [upd_apply, e, if_false]; exact h.deliv c
  · intro t' acts hab ht hr hf
    have ht' : t' < s.ntasks + 1 := ht
    have hf' : upd s.fut s.ntasks (some sc) t' = some acts := hf
    show t' ∈ s.queue ++ [s.ntasks] ∨ _
    by_cases e : t' = s.ntasks
    · left; simp [e]
    · simp only [upd_apply, e, if_false] at hf'
      rcases h.live t' acts hab (by omega) hr hf' with hq | hb
      · left; simp [hq]
      · right
        rcases hb with ⟨k, rst, ea, hm, hz⟩ | ⟨c, cs, rst, ea, hk, hrl⟩
        · exact Or.inl ⟨k, rst, ea, hm, hz⟩
        · right
          refine ⟨c, cs, rst, ea, hk, ?_⟩
          show upd s.relay s.ntasks .pending c = .polled t'
          have hcl := (h.kid t' c (by rw [hk]; simp)).1
          have hcn : c ≠ s.ntasks := by omega
          simp only [upd_apply, hcn, if_false]; exact hrl
  · intro t' hr; cases hr

/-! ### the forwarder -/

/-- `join`: the relay of the oldest child holds the value -/
theorem inv_joinRecv {t : Nat} {s : State} (h : InvX ab (some t) s) (c : Nat) (cs : List Nat) (v : Nat)
    (hk : s.kids t = c :: cs) (hr : s.relay c = .computed v) :
    InvX ab (some t) { s with
      relay := upd s.relay c .done
      kids := upd s.kids t cs
      acc := upd s.acc t (s.acc t + v)
      delivered := upd s.delivered c (s.delivered c + 1)
      recv := upd s.recv c (s.recv c ++ [v]) } := by
  have hck := h.kid t c (by rw [hk]; simp)
  have hnd : (c :: cs).Nodup := hk ▸ h.knodup t
  refine ⟨h.nodup, h.qlt, h.wlt, ?_, ?_, ?_, ?_, ?_, ?_, ?_, ?_, h.run, h.nobad⟩
  · intro c' w hw
    have hw' : upd s.relay c .done c' = .polled w := hw
    by_cases e : c' = c
    · simp [upd_apply, e] at hw'
    · simp only [upd_apply, e, if_false] at hw'; exact h.plt c' w hw'
  · intro t' c' hc
    have hc' : c' ∈ upd s.kids t cs t' := hc
    by_cases e : t' = t
    · subst e
      simp only [upd_apply, if_true] at hc'
      exact h.kid _ c' (by rw [hk]; exact List.mem_cons_of_mem _ hc')
    · simp only [upd_apply, e, if_false] at hc'; exact h.kid t' c' hc'
  · intro t'
    show (upd s.kids t cs t').Nodup
    by_cases e : t' = t
    · subst e; simp only [upd_apply, if_true]; exact (List.nodup_cons.mp hnd).2
    · simp only [upd_apply, e, if_false]; exact h.knodup t'
  · intro t' c' hc
    have hc' : c' ∈ upd s.kids t cs t' := hc
    show upd s.relay c .done c' ≠ .done
    by_cases e : t' = t
    · subst e
      simp only [upd_apply, if_true] at hc'
      have hne : c' ≠ c := fun e' => (List.nodup_cons.mp hnd).1 (e' ▸ hc')
      simp only [upd_apply, hne, if_false]
      exact h.kdone _ c' (by rw [hk]; exact List.mem_cons_of_mem _ hc')
    · simp only [upd_apply, e, if_false] at hc'
      have hne : c' ≠ c := by
        intro e'
        subst e'
        exact e ((h.kid t' c' hc').2.symm.trans hck.2)
      simp only [upd_apply, hne, if_false]
      exact h.kdone t' c' hc'
  · intro c' hc'
    show s.fut c' = none ↔ (upd s.relay c .done c').sent = true
    by_cases e : c' = c
    · subst e
      have := h.sync c' hc'
      rw [hr] at this
      simp [upd_apply, Relay.sent] at this ⊢
      exact this
    · simp only [upd_apply, e, if_false]; exact h.sync c' hc'
  · intro c' hc'
    show upd s.relay c .done c' = .pending
    have hc'' : s.ntasks ≤ c' := hc'
    have e : c' ≠ c := by have := hck.1; omega
    simp only [upd_apply, e, if_false]; exact h.fresh c' hc'
  · intro c'
    show upd s.delivered c (s.delivered c + 1) c' = if upd s.relay c .done c' = .done then 1 else 0
    by_cases e : c' = c
    · subst e
      have := h.deliv c'
      rw [hr] at this
      simp [upd_apply, this]
    · simp only [upd_apply, e, if_false]; exact h.deliv c'
  · intro t' acts hab ht hrn hf
    have hne : t' ≠ t := fun e' => hrn (by rw [e'])
    rcases h.live t' acts hab ht hrn hf with hq | hb
    · exact Or.inl hq
    · right
      rcases hb with ⟨k, rst, ea, hm, hz⟩ | ⟨c', cs', rst, ea, hk', hrl⟩
      · exact Or.inl ⟨k, rst, ea, hm, hz⟩
      · right
        refine ⟨c', cs', rst, ea, ?_, ?_⟩
        · show upd s.kids t cs t' = c' :: cs'
          simp only [upd_apply, hne, if_false]; exact hk'
        · show upd s.relay c .done c' = .polled t'
          have hcn : c' ≠ c := by
            intro e'; subst e'; rw [hr] at hrl; cases hrl
          simp only [upd_apply, hcn, if_false]; exact hrl

/-- `join`: the value has not been sent; the receiver stores the waker of the running task -/
theorem inv_joinPend {t : Nat} {s : State} (h : InvX ab (some t) s) (c : Nat) (cs : List Nat)
    (hk : s.kids t = c :: cs) (hr : (s.relay c).sent = false) :
    InvX ab (some t) { s with relay := upd s.relay c (.polled t) } := by
  have htl : t < s.ntasks := (h.run t rfl).1
  have hck := h.kid t c (by rw [hk]; simp)
  refine ⟨h.nodup, h.qlt, h.wlt, ?_, h.kid, h.knodup, ?_, ?_, ?_, ?_, ?_, h.run, h.nobad⟩
  · intro c' w hw
    have hw' : upd s.relay c (.polled t) c' = .polled w := hw
    show w < s.ntasks
    by_cases e : c' = c
    · simp [upd_apply, e] at hw'; omega
    · simp only [upd_apply, e, if_false] at hw'; exact h.plt c' w hw'
  · intro t' c' hc
    show upd s.relay c (.polled t) c' ≠ .done
    by_cases e : c' = c
    · simp [upd_apply, e]
    · simp only [upd_apply, e, if_false]; exact h.kdone t' c' hc
  · intro c' hc'
    show s.fut c' = none ↔ (upd s.relay c (.polled t) c').sent = true
    by_cases e : c' = c
    · subst e
      have := h.sync c' hc'
      rw [hr] at this
      simp [upd_apply, Relay.sent] at this ⊢
      exact this
    · simp only [upd_apply, e, if_false]; exact h.sync c' hc'
  · intro c' hc'
    show upd s.relay c (.polled t) c' = .pending
    have hc'' : s.ntasks ≤ c' := hc'
    have e : c' ≠ c := by have := hck.1; omega
    simp only [upd_apply, e, if_false]; exact h.fresh c' hc'
  · intro c'
    show s.delivered c' = if upd s.relay c (.polled t) c' = .done then 1 else 0
    by_cases e : c' = c
    · subst e
      have := h.deliv c'
      have hnd : s.relay c' ≠ .done := by
        intro e'; rw [e'] at hr; simp [Relay.sent] at hr
      simp [upd_apply, this, hnd]
    · simp only [upd_apply, e, if_false]; exact h.deliv c'
  · intro t' acts hab ht hrn hf
    have hne : t' ≠ t := fun e' => hrn (by rw [e'])
    rcases h.live t' acts hab ht hrn hf with hq | hb
    · exact Or.inl hq
    · right
      rcases hb with ⟨k, rst, ea, hm, hz⟩ | ⟨c', cs', rst, ea, hk', hrl⟩
      · exact Or.inl ⟨k, rst, ea, hm, hz⟩
      · right
        refine ⟨c', cs', rst, ea, hk', ?_⟩
        show upd s.relay c (.polled t) c' = .polled t'
        have hcn : c' ≠ c := by
          intro e'; subst e'
          exact hne ((h.kid t' c' (by rw [hk']; simp)).2.symm.trans hck.2)
        simp only [upd_apply, hcn, if_false]; exact hrl

/-- `Sender::send` by the running task followed by the emptying of its slot: the end of a poll that
    returned `Ready`; afterwards no task is running -/
theorem inv_complete {t : Nat} {s : State} (h : InvX ab (some t) s) : InvX ab none (complete s t) := by
  obtain ⟨htl, acts, hf⟩ := h.run t rfl
  have hns : (s.relay t).sent = false := by
    have := h.sync t htl
    rw [hf] at this
    cases hs : (s.relay t).sent with
    | false => rfl
    | true => exact absurd (this.mpr hs) (by simp)
  -- the state after `send`, still with the slot occupied, seen as "t running"
  have key : ∀ (q : List Nat), q.Nodup → (∀ x, x ∈ q → x < s.ntasks) → (∀ x, x ∈ s.queue → x ∈ q) →
      (∀ w, s.relay t = .polled w → w ∈ q) →
      InvX ab none { s with queue := q, relay := upd s.relay t (.computed (value s t)),
                            fut := upd s.fut t none, ret := upd s.ret t (some (value s t)) } := by
    intro q hn hlt hsub hwk
    refine ⟨hn, hlt, h.wlt, ?_, h.kid, h.knodup, ?_, ?_, ?_, ?_, ?_, ?_, h.nobad⟩
    · intro c w hw
      have hw' : upd s.relay t (.computed (value s t)) c = .polled w := hw
      by_cases e : c = t
      · simp [upd_apply, e] at hw'
      · simp only [upd_apply, e, if_false] at hw'; exact h.plt c w hw'
    · intro t' c hc
      show upd s.relay t (.computed (value s t)) c ≠ .done
      by_cases e : c = t
      · simp [upd_apply, e]
      · simp only [upd_apply, e, if_false]; exact h.kdone t' c hc
    · intro c hc
      show upd s.fut t none c = none ↔ (upd s.relay t (.computed (value s t)) c).sent = true
      by_cases e : c = t
      · simp [upd_apply, e, Relay.sent]
      · simp only [upd_apply, e, if_false]; exact h.sync c hc
    · intro c hc
      show upd s.relay t (.computed (value s t)) c = .pending
      have hc'' : s.ntasks ≤ c := hc
      have e : c ≠ t := by omega
      simp only [upd_apply, e, if_false]; exact h.fresh c hc
    · intro c
      show s.delivered c = if upd s.relay t (.computed (value s t)) c = .done then 1 else 0
      by_cases e : c = t
      · subst e
        have := h.deliv c
        have hnd : s.relay c ≠ .done := by
          intro e'; rw [e'] at hns; simp [Relay.sent] at hns
        simp [upd_apply, this, hnd]
      · simp only [upd_apply, e, if_false]; exact h.deliv c
    · intro t' acts' hab ht _ hf'
      have hf'' : upd s.fut t none t' = some acts' := hf'
      by_cases e : t' = t
      · simp [upd_apply, e] at hf''
      · simp only [upd_apply, e, if_false] at hf''
        have hrn : some t ≠ some t' := by intro e'; injection e' with e'; exact e e'.symm
        rcases h.live t' acts' hab ht hrn hf'' with hq | hb
        · exact Or.inl (hsub t' hq)
        · rcases hb with ⟨k, rst, ea, hm, hz⟩ | ⟨c, cs, rst, ea, hk, hrl⟩
          · exact Or.inr (Or.inl ⟨k, rst, ea, hm, hz⟩)
          · by_cases ec : c = t
            · subst ec
              exact Or.inl (hwk t' hrl)
            · right; right
              refine ⟨c, cs, rst, ea, hk, ?_⟩
              show upd s.relay t (.computed (value s t)) c = .polled t'
              simp only [upd_apply, ec, if_false]; exact hrl
    · intro t' hr; cases hr
  unfold complete send
  cases hrl : s.relay t with
  | pending =>
    exact key s.queue h.nodup h.qlt (fun _ hx => hx) (fun w hw => by rw [hrl] at hw; cases hw)
  | polled w =>
    have hwl : w < s.ntasks := h.plt t w hrl
    refine key (enq s.queue w) (nodup_enq _ _ h.nodup) ?_ (fun x hx => mem_enq_of_mem _ _ _ hx) ?_
    · intro x hx
      rcases (mem_enq_iff _ _ _).mp hx with hx | rfl
      · exact h.qlt x hx
      · exact hwl
    · intro w' hw'
      rw [hrl] at hw'
      injection hw' with hw'
      subst hw'
      exact mem_enq_self _ _
  | computed v => rw [hrl] at hns; simp [Relay.sent] at hns
  | done => rw [hrl] at hns; simp [Relay.sent] at hns

/-- the end of a poll that returned `Pending` with `rest` left to do -/
theorem inv_pending {t : Nat} {s : State} (h : InvX ab (some t) s) (rest : Script)
    (hpost : t ∈ s.queue ∨ Blocked s t rest) :
    InvX ab none { s with fut := upd s.fut t (some rest) } := by
  obtain ⟨htl, acts, hf⟩ := h.run t rfl
  refine ⟨h.nodup, h.qlt, h.wlt, h.plt, h.kid, h.knodup, h.kdone, ?_, h.fresh, h.deliv, ?_, ?_, h.nobad⟩
  · intro c hc
    show upd s.fut t (some rest) c = none ↔ (s.relay c).sent = true
    by_cases e : c = t
    · subst e
      have := h.sync c hc
      rw [hf] at this
      simp only [upd_apply, if_true]
      constructor
      · intro h'; cases h'
      · intro h'; exact absurd (this.mpr h') (by simp)
    · simp only [upd_apply, e, if_false]; exact h.sync c hc
  · intro t' acts' hab ht _ hf'
    have hf'' : upd s.fut t (some rest) t' = some acts' := hf'
    by_cases e : t' = t
    · subst e
      simp only [upd_apply, if_true] at hf''
      injection hf'' with hf''
      subst hf''
      exact hpost
    · simp only [upd_apply, e, if_false] at hf''
      have hrn : some t ≠ some t' := by intro e'; injection e' with e'; exact e e'.symm
      exact h.live t' acts' hab ht hrn hf''
  · intro t' hr; cases hr

/-- `Executor::step` pops the front of the queue; its task becomes the running one -/
theorem inv_pop {s : State} (h : InvX ab none s) (t : Nat) (q : List Nat) (hq : s.queue = t :: q)
    (acts : Script) (hf : s.fut t = some acts) : InvX ab (some t) { s with queue := q } := by
  have hnd : (t :: q).Nodup := hq ▸ h.nodup
  have htl : t < s.ntasks := h.qlt t (by rw [hq]; simp)
  refine ⟨(List.nodup_cons.mp hnd).2, fun x hx => h.qlt x (by rw [hq]; exact List.mem_cons_of_mem _ hx),
    h.wlt, h.plt, h.kid, h.knodup, h.kdone, h.sync, h.fresh, h.deliv, ?_, ?_, h.nobad⟩
  · intro t' acts' hab ht hr hf'
    have hne : t' ≠ t := fun e' => hr (by rw [e'])
    rcases h.live t' acts' hab ht (by simp) hf' with hq' | hb
    · left
      rw [hq] at hq'
      rcases List.mem_cons.mp hq' with e | hq'
      · exact absurd e hne
      · exact hq'
    · exact Or.inr hb
  · intro t' hr
    injection hr with hr
    subst hr
    exact ⟨htl, acts, hf⟩

/-- popping a task whose slot is empty -/
theorem inv_pop_noop {s : State} (h : InvX ab none s) (t : Nat) (q : List Nat) (hq : s.queue = t :: q)
    (hf : s.fut t = none) : InvX ab none { s with queue := q } := by
  have hnd : (t :: q).Nodup := hq ▸ h.nodup
  refine ⟨(List.nodup_cons.mp hnd).2, fun x hx => h.qlt x (by rw [hq]; exact List.mem_cons_of_mem _ hx),
    h.wlt, h.plt, h.kid, h.knodup, h.kdone, h.sync, h.fresh, h.deliv, ?_, h.run, h.nobad⟩
  intro t' acts' hab ht hr hf'
  have hne : t' ≠ t := by intro e'; subst e'; rw [hf] at hf'; cases hf'
  rcases h.live t' acts' hab ht hr hf' with hq' | hb
  · left
    rw [hq] at hq'
    rcases List.mem_cons.mp hq' with e | hq'
    · exact absurd e hne
    · exact hq'
  · exact Or.inr hb

end YashModel.Executor
