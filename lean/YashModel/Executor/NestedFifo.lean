/-
  C15 helper lemmas, part 10 (wave 3): the FIFO discipline of the wake queue when `Executor::step` is also called
  from inside polls (`NestedModel.lean`).  `Fifo s s'`: the tasks popped between the two states (by top-level
  and nested steps alike) followed by the queue now = the queue then followed by what was pushed.  Holds through
  every nested poll by induction on the depth budget and the script (same skeleton as `nPoll_ok`).
-/
import YashModel.Executor.Nested
namespace YashModel.Executor.Nested

/-- FIFO discipline between two states: the trace grew by `evs`, and the tasks popped meanwhile followed by
    the queue now are the queue then followed by what was pushed (`L`) — nothing was taken from anywhere but
    the front, nothing was put anywhere but the back -/
def Fifo (s s' : NState) : Prop :=
  ∃ evs L, s'.log = s.log ++ evs ∧ s.queue ++ L = popsOf evs ++ s'.queue

theorem popsOf_append (a b : List NEv) : popsOf (a ++ b) = popsOf a ++ popsOf b := by
  simp [popsOf, List.filterMap_append]

theorem fifo_refl (s : NState) : Fifo s s := ⟨[], [], by simp, by simp [popsOf]⟩

theorem fifo_trans {a b c : NState} (h1 : Fifo a b) (h2 : Fifo b c) : Fifo a c := by
  obtain ⟨e1, l1, hl1, hq1⟩ := h1
  obtain ⟨e2, l2, hl2, hq2⟩ := h2
  refine ⟨e1 ++ e2, l1 ++ l2, by rw [hl2, hl1, List.append_assoc], ?_⟩
  rw [popsOf_append, ← List.append_assoc, hq1, List.append_assoc, hq2, List.append_assoc]

theorem fifo_wake (s : NState) (t : Nat) : Fifo s (nwake s t) := by
  unfold nwake enq
  by_cases h : t ∈ s.queue
  · exact ⟨[], [], by simp, by simp [popsOf, h]⟩
  · exact ⟨[], [t], by simp, by simp [popsOf, h]⟩

theorem fifo_idle (s : NState) : Fifo s (nlog s .idle) :=
  ⟨[.idle], [], rfl, by simp [popsOf, popOf, nlog]⟩

/-- a state that differs only in fields the relation does not read -/
theorem fifo_congr_right {s a b : NState} (h : Fifo s a) (e1 : b.queue = a.queue) (e2 : b.log = a.log) :
    Fifo s b := by
  obtain ⟨evs, L, hl, hq⟩ := h
  exact ⟨evs, L, by rw [e2, hl], by rw [e1, hq]⟩

/-- what a nested `Task::poll` of the popped task `t` guarantees: `t` is the first task of the new trace
    piece, and the rest obeys the discipline -/
def PollFifo (inner : NState → Nat → NState) (d : Nat) : Prop :=
  ∀ s t, NInv s → t < s.ntasks → s.stack.length + d = s.ntasks + 1 →
    ∃ evs L, (inner s t).log = s.log ++ evs ∧ t :: (s.queue ++ L) = popsOf evs ++ (inner s t).queue

/-- popping the front and polling it -/
theorem fifo_pop {inner : NState → Nat → NState} {d : Nat} (hf : PollFifo inner d) (s : NState) (u : Nat)
    (q : List Nat) (hq : s.queue = u :: q) (h1 : NInv { s with queue := q }) (hu : u < s.ntasks)
    (hd : s.stack.length + d = s.ntasks + 1) : Fifo s (inner { s with queue := q } u) := by
  obtain ⟨evs, L, hl, hqq⟩ := hf { s with queue := q } u h1 hu hd
  exact ⟨evs, L, hl, by rw [hq]; exact hqq⟩

theorem nRun_fifo (inner : NState → Nat → NState) (d : Nat) (hin : PollOK inner d) (hf : PollFifo inner d)
    (t : Nat) (acts : NScript) :
    ∀ s, NInv s → t < s.ntasks → s.stack.length + d = s.ntasks + 1 → Fifo s (nRun inner t acts s).1 := by
  induction acts with
  | nil => intro s _ _ _; exact fifo_refl s
  | cons a rest ih =>
    intro s h ht hd
    cases a with
    | complete => exact fifo_refl s
    | yield => exact fifo_wake s t
    | wake u =>
      simp only [nRun]
      split
      · rename_i hk
        exact fifo_trans (fifo_wake s u) (ih (nwake s u) (ninv_wake h u (h.klt u hk)) ht hd)
      · exact ih s h ht hd
    | nest =>
      simp only [nRun]
      cases hq : s.queue with
      | nil =>
        simp only []
        exact fifo_trans (fifo_idle s)
          (ih (nlog s .idle) (ninv_event h .idle (fun _ => by simp) (fun _ _ => by simp)) ht hd)
      | cons u q =>
        simp only []
        have hnd : (u :: q).Nodup := hq ▸ h.qn
        have h1 : NInv { s with queue := q } :=
          ⟨(List.nodup_cons.mp hnd).2, fun x hx => h.qlt x (by rw [hq]; exact List.mem_cons_of_mem _ hx),
           h.sn, h.slt, h.klt, h.rp, h.occ, h.fin, h.nef, h.ns⟩
        have hu : u < s.ntasks := h.qlt u (by rw [hq]; simp)
        obtain ⟨i1, i2, i3⟩ := hin { s with queue := q } u h1 hu hd
        have hp1 := fifo_pop hf s u q hq h1 hu hd
        split
        · exact hp1
        · rename_i hp
          have hp' : (inner { s with queue := q } u).panicked = false := by
            cases hpp : (inner { s with queue := q } u).panicked with
            | false => rfl
            | true => exact absurd hpp hp
          have hs := i3 hp'
          exact fifo_trans hp1 (ih (inner { s with queue := q } u) i1 (by rw [i2]; exact ht)
            (by rw [hs, i2]; exact hd))

theorem nPoll_fifo : ∀ d, PollFifo (nPoll d) d := by
  intro d
  induction d with
  | zero =>
    intro s t h _ hd
    have := nodup_length_le s.stack s.ntasks h.sn h.slt
    omega
  | succ d ih =>
    intro s t h ht hd
    simp only [nPoll]
    by_cases hm : t ∈ s.stack
    · simp only [hm, if_true]
      exact ⟨[.guard t], [], rfl, by simp [popsOf, popOf, nlog]⟩
    · simp only [hm, if_false]
      cases hf : s.fut t with
      | none =>
        simp only []
        exact ⟨[.noop t], [], rfl, by simp [popsOf, popOf, nlog]⟩
      | some acts =>
        simp only []
        have h0 := ninv_enter h t acts ht hm hf
        have hr := nRun_fifo (nPoll d) d (nPoll_ok d) ih t acts
          { nlog s (.enter t) with stack := t :: s.stack, known := upd s.known t true } h0 ht
          (by show (t :: s.stack).length + d = s.ntasks + 1; simp only [List.length_cons]; omega)
        generalize nRun (nPoll d) t acts
          { nlog s (.enter t) with stack := t :: s.stack, known := upd s.known t true } = r at hr
        obtain ⟨evs, L, hl, hq⟩ := hr
        have hl' : r.1.log = s.log ++ (NEv.enter t :: evs) := by
          rw [hl]; show (s.log ++ [NEv.enter t]) ++ evs = _; simp
        have hq' : s.queue ++ L = popsOf evs ++ r.1.queue := hq
        have key : ∀ evs2, popsOf evs2 = [] →
            t :: (s.queue ++ L) = popsOf (NEv.enter t :: (evs ++ evs2)) ++ r.1.queue := by
          intro evs2 h2
          have : popsOf (NEv.enter t :: (evs ++ evs2)) = t :: popsOf evs := by
            show popsOf ([NEv.enter t] ++ (evs ++ evs2)) = _
            rw [popsOf_append, popsOf_append, h2]; simp [popsOf, popOf]
          rw [this, hq']; rfl
        cases hp : r.1.panicked with
        | true =>
          simp only [if_true]
          exact ⟨NEv.enter t :: evs, L, hl', by simpa using key [] rfl⟩
        | false =>
          simp only [Bool.false_eq_true, if_false]
          cases hr2 : r.2 with
          | some rest =>
            simp only []
            refine ⟨NEv.enter t :: (evs ++ [.exit t false]), L, ?_, key _ rfl⟩
            show r.1.log ++ [NEv.exit t false] = _
            rw [hl']; simp
          | none =>
            simp only []
            refine ⟨NEv.enter t :: (evs ++ [.exit t true]), L, ?_, key _ rfl⟩
            show r.1.log ++ [NEv.exit t true] = _
            rw [hl']; simp

theorem fifo_step {s s' : NState} (h : NTop s) (hs : nStep s = some s') : Fifo s s' := by
  unfold nStep at hs
  split at hs
  · cases hs
  · rename_i hp
    have hp' : s.panicked = false := by
      cases hpp : s.panicked with
      | false => rfl
      | true => exact absurd hpp hp
    have hst := h.idle hp'
    cases hq : s.queue with
    | nil => simp [hq] at hs
    | cons t q =>
      simp only [hq, Option.some.injEq] at hs
      subst hs
      have hnd : (t :: q).Nodup := hq ▸ h.inv.qn
      have h1 : NInv { s with queue := q } :=
        ⟨(List.nodup_cons.mp hnd).2, fun x hx => h.inv.qlt x (by rw [hq]; exact List.mem_cons_of_mem _ hx),
         h.inv.sn, h.inv.slt, h.inv.klt, h.inv.rp, h.inv.occ, h.inv.fin, h.inv.nef, h.inv.ns⟩
      exact fifo_pop (nPoll_fifo (s.ntasks + 1)) s t q hq h1 (h.inv.qlt t (by rw [hq]; simp))
        (by show s.stack.length + (s.ntasks + 1) = s.ntasks + 1; rw [hst]; simp)

theorem fifo_stepN (n : Nat) {s : NState} (h : NTop s) : Fifo s (nStepN n s) := by
  induction n generalizing s with
  | zero => exact fifo_refl s
  | succ n ih =>
    simp only [nStepN]
    cases hs : nStep s with
    | none => exact fifo_refl s
    | some s' => exact fifo_trans (fifo_step h hs) (ih (ntop_step h hs))

/-- what the relation says about one queued task: it is the `k+1`-th task popped, or still `k - pops` from the front -/
theorem nfifo_position {s s' : NState} (h : Fifo s s') (k t : Nat) (hk : s.queue[k]? = some t) :
    ∃ evs, s'.log = s.log ++ evs ∧
      ((popsOf evs)[k]? = some t ∨
       ((popsOf evs).length ≤ k ∧ s'.queue[k - (popsOf evs).length]? = some t)) := by
  obtain ⟨evs, L, hl, hq⟩ := h
  refine ⟨evs, hl, ?_⟩
  have hkl : k < s.queue.length := by
    rcases Nat.lt_or_ge k s.queue.length with h | h
    · exact h
    · rw [List.getElem?_eq_none h] at hk; cases hk
  have h1 : (s.queue ++ L)[k]? = some t := by rw [List.getElem?_append_left hkl]; exact hk
  rw [hq] at h1
  rcases Nat.lt_or_ge k (popsOf evs).length with hlt | hge
  · left; rw [List.getElem?_append_left hlt] at h1; exact h1
  · right; rw [List.getElem?_append_right hge] at h1; exact ⟨hge, h1⟩

theorem nFifoB_of {s s' : NState} (h : Fifo s s') : nFifoB s s' = true := by
  obtain ⟨evs, L, hl, hq⟩ := h
  unfold nFifoB
  rw [hl, List.drop_left, ← hq]
  simp

end YashModel.Executor.Nested
