/-
  C15 helper lemmas, part 7: termination of the run loop.  `work` (actions left in all slots and in the
  pool, plus one per unfinished task) never grows under `Executor::step`; a step that leaves it unchanged
  (poll of an emptied slot, a `wait` without token, a `join` on an unfinished child) leaves the queue one
  entry shorter.  With the queue bounded by the number of tasks (no duplicates), `stallBound` steps empty
  the queue.
-/
import YashModel.Executor.Ops
import YashModel.Executor.SpecLemmas
namespace YashModel.Executor

variable {ab : Bool}

/-! ### sums over the slots -/

theorem sum_range_congr (g h : Nat → Nat) (n : Nat) (e : ∀ u, u < n → g u = h u) :
    ((List.range n).map g).sum = ((List.range n).map h).sum := by
  have : (List.range n).map g = (List.range n).map h :=
    List.map_congr_left fun u hu => e u (List.mem_range.mp hu)
  rw [this]

/-- a point update inside the range moves the sum by the difference of the two weights -/
theorem sum_range_upd (g : Option Script → Nat) (f : Nat → Option Script) (t : Nat) (v : Option Script)
    (n : Nat) (ht : t < n) :
    ((List.range n).map fun u => g (upd f t v u)).sum + g (f t) =
      ((List.range n).map fun u => g (f u)).sum + g v := by
  induction n with
  | zero => omega
  | succ n ih =>
    simp only [List.range_succ, List.map_append, List.sum_append, List.map_cons, List.map_nil,
      List.sum_cons, List.sum_nil]
    by_cases e : t = n
    · subst e
      have h1 := sum_range_congr (fun u => g (upd f t v u)) (fun u => g (f u)) t (by
        intro u hu
        have : u ≠ t := by omega
        simp [upd_apply, this])
      simp only [upd_apply, if_true] at h1 ⊢
      omega
    · have h1 := ih (by omega)
      have h2 : upd f t v n = f n := by
        have : n ≠ t := fun h => e h.symm
        simp [upd_apply, this]
      rw [h2]
      omega

theorem futW_congr (s s' : State) (hn : s'.ntasks = s.ntasks) (hf : ∀ u, u < s.ntasks → s'.fut u = s.fut u) :
    futW s' = futW s := by
  unfold futW
  rw [hn]
  exact sum_range_congr _ _ _ fun u hu => by rw [hf u hu]

/-- writing slot `t` -/
theorem futW_upd (s s' : State) (t : Nat) (v : Option Script) (hn : s'.ntasks = s.ntasks)
    (hf : s'.fut = upd s.fut t v) (ht : t < s.ntasks) :
    futW s' + wtOpt (s.fut t) = futW s + wtOpt v := by
  unfold futW
  rw [hn, hf]
  exact sum_range_upd wtOpt s.fut t v s.ntasks ht

/-- `enqueue_forwarding`: one more slot -/
theorem futW_spawnNew (s : State) (own : Nat) (sc : Script) :
    futW (spawnNew s own sc) = futW s + (sc.length + 1) := by
  unfold futW
  show ((List.range (s.ntasks + 1)).map fun u => wtOpt (upd s.fut s.ntasks (some sc) u)).sum = _
  simp only [List.range_succ, List.map_append, List.sum_append, List.map_cons, List.map_nil,
    List.sum_cons, List.sum_nil, upd_apply, if_true, Nat.add_zero]
  have h0 : wtOpt (some sc) = sc.length + 1 := rfl
  have h1 := sum_range_congr (fun u => wtOpt (if u = s.ntasks then some sc else s.fut u))
    (fun u => wtOpt (s.fut u)) s.ntasks (by
      intro u hu
      have : u ≠ s.ntasks := by omega
      simp [this])
  omega

/-! ### `work` and `cap` are constants of everything a future does during its poll -/

/-- same work left, same bound on the number of tasks -/
def WC (s s' : State) : Prop := work s' = work s ∧ cap s' = cap s

theorem WC.refl (s : State) : WC s s := ⟨rfl, rfl⟩

theorem WC.trans {a b c : State} (h1 : WC a b) (h2 : WC b c) : WC a c :=
  ⟨h2.1.trans h1.1, h2.2.trans h1.2⟩

theorem wc_signal (s : State) (k : Nat) : WC s (signal s k) := by
  unfold signal
  split <;> exact ⟨rfl, rfl⟩

/-- `Spawner::spawn` by a task: the script moves from the pool into a slot -/
theorem wc_spawnChild (s : State) (t : Nat) : WC s (spawnChild s t) := by
  unfold spawnChild
  cases hp : s.pool with
  | nil => exact WC.refl s
  | cons sc rest =>
    constructor
    · have h1 := futW_spawnNew { s with pool := rest } t sc
      have h2 : futW { s with pool := rest } = futW s := rfl
      have h3 : poolW s = (sc.length + 1) + poolW { s with pool := rest } := by
        simp [poolW, hp]
      show futW (spawnNew { s with pool := rest } t sc) + poolW { s with pool := rest } = futW s + poolW s
      omega
    · show s.ntasks + 1 + rest.length = s.ntasks + s.pool.length
      rw [hp]
      simp only [List.length_cons]
      omega

theorem wc_send (s : State) (t v : Nat) : WC s (send s t v) := by
  unfold send
  cases s.relay t <;> exact ⟨rfl, rfl⟩

theorem wc_runActs (t : Nat) (acts : Script) (s : State) : WC s (runActs t acts s).1 := by
  induction acts generalizing s with
  | nil => exact WC.refl s
  | cons a rest ih =>
    cases a with
    | complete => exact WC.refl s
    | yield => exact ⟨rfl, rfl⟩
    | wait k =>
      simp only [runActs]
      split
      · exact WC.trans ⟨rfl, rfl⟩ (ih _)
      · exact ⟨rfl, rfl⟩
    | signal k => exact (wc_signal s k).trans (ih _)
    | spawn => exact (wc_spawnChild s t).trans (ih _)
    | join =>
      simp only [runActs]
      split
      · exact ih _
      · split
        · exact WC.trans ⟨rfl, rfl⟩ (ih _)
        · exact ⟨rfl, rfl⟩
        · exact ⟨rfl, rfl⟩

/-- What a poll that returns `Pending` leaves to do: strictly less than before, or — when the very first
    action could not proceed (`wait` without token, `join` on an unfinished child) — the same script, and then
    nobody has been woken. -/
theorem runActs_rest (t : Nat) (acts : Script) (s : State) (rest : Script)
    (h : (runActs t acts s).2 = some rest) :
    rest.length < acts.length ∨ (rest = acts ∧ (runActs t acts s).1.queue = s.queue) := by
  induction acts generalizing s with
  | nil => simp [runActs] at h
  | cons a tl ih =>
    have sub : ∀ s', (runActs t tl s').2 = some rest → rest.length < (a :: tl).length := by
      intro s' h'
      rcases ih s' h' with hlt | ⟨e, _⟩
      · simp only [List.length_cons]; omega
      · subst e; simp
    cases a with
    | complete => simp [runActs] at h
    | yield =>
      simp only [runActs, Option.some.injEq] at h
      subst h
      left; simp
    | wait k =>
      simp only [runActs] at h ⊢
      split at h
      · exact Or.inl (sub _ h)
      · simp only [Option.some.injEq] at h
        subst h
        rename_i hk
        right
        simp [hk]
    | signal k => exact Or.inl (sub _ h)
    | spawn => exact Or.inl (sub _ h)
    | join =>
      cases hk : s.kids t with
      | nil =>
        simp only [runActs, hk] at h
        exact Or.inl (sub _ h)
      | cons c cs =>
        cases hr : s.relay c with
        | computed v =>
          simp only [runActs, hk, hr] at h
          exact Or.inl (sub _ h)
        | done =>
          simp only [runActs, hk, hr, Option.some.injEq] at h
          subst h
          exact Or.inr ⟨rfl, by simp only [runActs, hk, hr]⟩
        | pending =>
          simp only [runActs, hk, hr, Option.some.injEq] at h
          subst h
          exact Or.inr ⟨rfl, by simp only [runActs, hk, hr]⟩
        | polled w =>
          simp only [runActs, hk, hr, Option.some.injEq] at h
          subst h
          exact Or.inr ⟨rfl, by simp only [runActs, hk, hr]⟩

/-! ### one poll, one step -/

theorem complete_fields (s : State) (t : Nat) :
    (complete s t).fut = upd s.fut t none ∧ (complete s t).ntasks = s.ntasks ∧ (complete s t).pool = s.pool := by
  unfold complete send
  cases s.relay t <;> exact ⟨rfl, rfl, rfl⟩

/-- the slot of the polled task is rewritten; everything else that counts is as the future left it -/
theorem measure_write (s r1 s2 : State) (t : Nat) (acts : Script) (v : Option Script)
    (hwc : WC s r1) (hft : r1.fut t = some acts) (htn : t < r1.ntasks)
    (hn : s2.ntasks = r1.ntasks) (hf : s2.fut = upd r1.fut t v) (hp : s2.pool = r1.pool) :
    cap s2 = cap s ∧ work s2 + (acts.length + 1) = work s + wtOpt v := by
  have hu := futW_upd r1 s2 t v hn hf htn
  rw [hft] at hu
  have hw1 : wtOpt (some acts) = acts.length + 1 := rfl
  have hpw : poolW s2 = poolW r1 := by unfold poolW; rw [hp]
  have hw := hwc.1
  have hc := hwc.2
  unfold work at hw ⊢
  unfold cap at hc ⊢
  rw [hn, hp]
  exact ⟨hc, by omega⟩

theorem pollDone_fields (r : State × Option Script) (t : Nat) :
    (pollDone r t).1.ntasks = r.1.ntasks ∧ (pollDone r t).1.fut = upd r.1.fut t r.2 ∧
    (pollDone r t).1.pool = r.1.pool ∧ (∀ rest, r.2 = some rest → (pollDone r t).1.queue = r.1.queue) := by
  cases hr2 : r.2 with
  | some rest =>
    rw [pollDone_pending hr2]
    exact ⟨rfl, rfl, rfl, fun _ _ => rfl⟩
  | none =>
    rw [pollDone_ready hr2]
    obtain ⟨c1, c2, c3⟩ := complete_fields r.1 t
    exact ⟨c2, c1, c3, fun _ h => by cases h⟩

/-- `Task::poll` of a known task: the bound on the number of tasks stays, and either work has been done, or
    nothing at all happened to the queue (the popped task is gone from it, nobody has been pushed). -/
theorem poll_measure (s : State) (t : Nat) (ht : t < s.ntasks) :
    cap (poll s t).1 = cap s ∧
    (work (poll s t).1 < work s ∨ (work (poll s t).1 = work s ∧ (poll s t).1.queue = s.queue)) := by
  cases hf : s.fut t with
  | none =>
    rw [poll_none hf]
    exact ⟨rfl, Or.inr ⟨rfl, rfl⟩⟩
  | some acts =>
    rw [poll_some hf]
    have hwc : WC s (runActs t acts (logEv s (.poll t))).1 :=
      WC.trans ⟨rfl, rfl⟩ (wc_runActs t acts (logEv s (.poll t)))
    have hfr := frame_runActs t acts (logEv s (.poll t))
    have hft : (runActs t acts (logEv s (.poll t))).1.fut t = some acts := by
      rw [hfr.2.2 t ht]; exact hf
    have htn : t < (runActs t acts (logEv s (.poll t))).1.ntasks := Nat.lt_of_lt_of_le ht hfr.2.1
    have hrest := runActs_rest t acts (logEv s (.poll t))
    generalize runActs t acts (logEv s (.poll t)) = r at hwc hft htn hrest
    obtain ⟨p1, p2, p3, p4⟩ := pollDone_fields r t
    obtain ⟨hc, hw⟩ := measure_write s r.1 (pollDone r t).1 t acts r.2 hwc hft htn p1 p2 p3
    refine ⟨hc, ?_⟩
    cases hr2 : r.2 with
    | some rest =>
      rw [hr2] at hw
      have hw2 : wtOpt (some rest) = rest.length + 1 := rfl
      rcases hrest rest hr2 with hlt | ⟨e, hq⟩
      · left; omega
      · right
        subst e
        exact ⟨by omega, (p4 rest hr2).trans hq⟩
    | none =>
      rw [hr2] at hw
      have hw2 : wtOpt none = 0 := rfl
      left; omega

/-- `Executor::step`: work is done, or the queue is exactly one entry shorter -/
theorem step_measure {s : State} (hq : ∀ x, x ∈ s.queue → x < s.ntasks) (r : State × Bool) (h : step s = some r) :
    cap r.1 = cap s ∧
    (work r.1 < work s ∨ (work r.1 = work s ∧ r.1.queue.length + 1 = s.queue.length)) := by
  unfold step at h
  cases hs : s.queue with
  | nil => simp [hs] at h
  | cons t q =>
    simp only [hs, Option.some.injEq] at h
    subst h
    have ht : t < s.ntasks := hq t (by rw [hs]; simp)
    obtain ⟨hc, hm⟩ := poll_measure { s with queue := q } t ht
    refine ⟨hc, ?_⟩
    rcases hm with hlt | ⟨he, hqq⟩
    · exact Or.inl hlt
    · right
      refine ⟨he, ?_⟩
      rw [hqq]
      simp

/-- the `bool` of `Task::poll` (and so of `Executor::step`): `true` exactly when the slot is empty afterwards,
    i.e. the task is finished; a poll never touches the slot of another existing task -/
theorem poll_result (s : State) (t : Nat) (ht : t < s.ntasks) :
    ((poll s t).2 = true ↔ (poll s t).1.fut t = none) ∧
    (∀ u, u < s.ntasks → u ≠ t → (poll s t).1.fut u = s.fut u) := by
  cases hf : s.fut t with
  | none =>
    rw [poll_none hf]
    exact ⟨⟨fun _ => hf, fun _ => rfl⟩, fun _ _ _ => rfl⟩
  | some acts =>
    rw [poll_some hf]
    have hfr := frame_runActs t acts (logEv s (.poll t))
    generalize runActs t acts (logEv s (.poll t)) = r at hfr
    obtain ⟨_, p2, _, _⟩ := pollDone_fields r t
    have hb : (pollDone r t).2 = r.2.isNone := by
      unfold pollDone
      cases r.2 <;> rfl
    constructor
    · rw [p2, hb]
      simp only [upd_apply, if_true]
      cases r.2 <;> simp
    · intro u hu hne
      rw [p2]
      simp only [upd_apply, hne, if_false]
      exact hfr.2.2 u hu

/-! ### the bound -/

/-- a duplicate-free list of numbers below `n` has at most `n` entries -/
theorem nodup_length_le (l : List Nat) (n : Nat) (hn : l.Nodup) (hl : ∀ x, x ∈ l → x < n) : l.length ≤ n := by
  induction n generalizing l with
  | zero =>
    cases l with
    | nil => simp
    | cons a t => exact absurd (hl a (by simp)) (by omega)
  | succ n ih =>
    have h1 : (l.erase n).length ≤ n := by
      apply ih
      · exact hn.erase n
      · intro x hx
        have hx' := (hn.mem_erase_iff).mp hx
        have := hl x hx'.2
        have hne : x ≠ n := hx'.1
        omega
    have h2 := List.length_erase (a := n) (l := l)
    split at h2 <;> omega

theorem queue_le_cap {s : State} (h : InvX ab none s) : s.queue.length ≤ cap s := by
  have := nodup_length_le s.queue s.ntasks h.nodup h.qlt
  unfold cap
  omega

/-- every step brings the stall strictly nearer -/
theorem stallBound_step {s : State} (h : InvX ab none s) (r : State × Bool) (hs : step s = some r) :
    stallBound r.1 < stallBound s := by
  obtain ⟨hc, hm⟩ := step_measure h.qlt r hs
  have hq' := queue_le_cap (inv_step h r hs)
  unfold stallBound
  rw [hc] at hq' ⊢
  rcases hm with hlt | ⟨he, hq⟩
  · obtain ⟨d, hd⟩ := Nat.exists_eq_add_of_lt hlt
    rw [hd]
    have : (work r.1 + d + 1) * (cap s + 1) = work r.1 * (cap s + 1) + d * (cap s + 1) + (cap s + 1) := by
      rw [Nat.add_mul, Nat.add_mul, Nat.one_mul]
    rw [this]
    omega
  · rw [he]; omega

/-- after `stallBound s` (or more) steps the queue is empty -/
theorem stepN_stalls (n : Nat) {s : State} (h : InvX ab none s) (hn : stallBound s ≤ n) : (stepN n s).queue = [] := by
  induction n generalizing s with
  | zero =>
    have : s.queue.length = 0 := by unfold stallBound at hn; omega
    exact List.eq_nil_of_length_eq_zero this
  | succ n ih =>
    simp only [stepN]
    cases hs : step s with
    | none =>
      unfold step at hs
      cases hq : s.queue with
      | nil => rfl
      | cons t q => simp [hq] at hs
    | some r =>
      have := stallBound_step h r hs
      exact ih (inv_step h r hs) (by omega)

/-- the flag of the budgeted loop says exactly whether the queue ran empty -/
theorem runUntilStalled_flag (n : Nat) (s : State) (c : Nat) :
    (runUntilStalled n s c).2.2 = (stepN n s).queue.isEmpty := by
  induction n generalizing s c with
  | zero => rfl
  | succ n ih =>
    simp only [runUntilStalled, stepN]
    cases hs : step s with
    | none =>
      unfold step at hs
      cases hq : s.queue with
      | nil => rfl
      | cons t q => simp [hq] at hs
    | some r => exact ih _ _

/-- a budget above the bound changes nothing: state, count and flag are those of the bound -/
theorem runUntilStalled_budget (n : Nat) {s : State} (h : InvX ab none s) (hn : stallBound s ≤ n) (c : Nat) :
    runUntilStalled n s c = runUntilStalled (stallBound s) s c := by
  have hst : stepN n s = stepN (stallBound s) s := by
    obtain ⟨d, rfl⟩ := Nat.exists_eq_add_of_le hn
    rw [stepN_add, stepN_stalled d _ (stepN_stalls _ h (Nat.le_refl _))]
  obtain ⟨e1, hl1, hc1⟩ := runUntilStalled_count n s c
  obtain ⟨e2, hl2, hc2⟩ := runUntilStalled_count (stallBound s) s c
  have he : e1 = e2 := by
    rw [hst, hl2] at hl1
    exact (List.append_cancel_left hl1).symm
  have h1 := runUntilStalled_state n s c
  have h2 := runUntilStalled_state (stallBound s) s c
  have f1 := runUntilStalled_flag n s c
  have f2 := runUntilStalled_flag (stallBound s) s c
  rw [hst] at f1
  apply Prod.ext
  · rw [h1, h2, hst]
  · apply Prod.ext
    · rw [hc1, hc2, he]
    · rw [f1, f2]

/-- the bound of a task system, read off the case text: (number of actions + number of scripts) ×
    (number of scripts + 1) + number of roots -/
theorem stallBound_init (sticky : Bool) (scripts : List Script) (roots : Nat) :
    stallBound (init sticky scripts roots) =
      (scripts.map fun sc => sc.length + 1).sum * (scripts.length + 1) + min roots scripts.length := by
  have key : ∀ (scs : List Script) (s : State),
      futW (spawnRoots scs s) = futW s + (scs.map fun sc => sc.length + 1).sum ∧
      (spawnRoots scs s).ntasks = s.ntasks + scs.length ∧ (spawnRoots scs s).pool = s.pool ∧
      (spawnRoots scs s).queue.length = s.queue.length + scs.length := by
    intro scs
    induction scs with
    | nil => intro s; exact ⟨by simp [spawnRoots], by simp [spawnRoots], rfl, by simp [spawnRoots]⟩
    | cons sc rest ih =>
      intro s
      obtain ⟨i1, i2, i3, i4⟩ := ih (spawnNew s s.ntasks sc)
      have h1 := futW_spawnNew s s.ntasks sc
      simp only [spawnRoots, List.map_cons, List.sum_cons, List.length_cons]
      refine ⟨by omega, ?_, ?_, ?_⟩
      · rw [i2]; show s.ntasks + 1 + rest.length = _; omega
      · rw [i3]; rfl
      · rw [i4]; show (s.queue ++ [s.ntasks]).length + rest.length = _; simp; omega
  obtain ⟨k1, k2, k3, k4⟩ := key (scripts.take roots) { pool := scripts.drop roots, sticky := sticky }
  have hsum : (scripts.map fun sc => sc.length + 1).sum =
      ((scripts.take roots).map fun sc => sc.length + 1).sum + ((scripts.drop roots).map fun sc => sc.length + 1).sum := by
    rw [← List.sum_append, ← List.map_append, List.take_append_drop]
  have hlen : scripts.length = (scripts.take roots).length + (scripts.drop roots).length := by
    rw [← List.length_append, List.take_append_drop]
  have hmin : (scripts.take roots).length = min roots scripts.length := List.length_take
  unfold stallBound work cap poolW init
  rw [k1, k2, k3, k4]
  have z : futW { pool := scripts.drop roots, sticky := sticky } = 0 := rfl
  rw [z, hsum, ← hmin, hlen]
  simp

end YashModel.Executor
