/-
  C15 helper lemmas, part 16 (wave 3): termination of the run loop of the nested-step model (`NestedModel.lean`;
  "by budget only" until now).  `nWork` (actions left in all slots + one per unfinished task) never grows during a
  poll — nested polls included — and every entered poll strictly lowers it; a pop of an emptied slot shortens the
  queue; the queue never exceeds the number of tasks: `nStallBound` strictly decreases with every top-level step
  that does not end in the guard panic.
-/
import YashModel.Executor.NestedLive
import YashModel.Executor.RcRefs
namespace YashModel.Executor.Nested

theorem nWork_upd (s : NState) (t : Nat) (ht : t < s.ntasks) (v : Option NScript) :
    ((List.range s.ntasks).map (slotWork (upd s.fut t v))).sum + slotWork s.fut t =
      nWork s + slotWork (upd s.fut t v) t := by
  unfold nWork
  exact Rc.sum_map_upd s.ntasks t ht (slotWork s.fut) (slotWork (upd s.fut t v))
    (fun j hj => by simp [slotWork, upd_apply, hj])

/-- what a nested `Task::poll` guarantees about the work left -/
def PollMono (inner : NState → Nat → NState) (d : Nat) : Prop :=
  ∀ s t, NInv s → t < s.ntasks → s.stack.length + d = s.ntasks + 1 →
    (inner s t).panicked = false →
      nWork (inner s t) ≤ nWork s ∧ (∀ x, x ∈ s.stack → (inner s t).fut x = s.fut x) ∧
      (inner s t = nlog s (.noop t) ∨ nWork (inner s t) < nWork s)

theorem nRun_mono (inner : NState → Nat → NState) (d : Nat) (hin : PollOK inner d) (hm : PollMono inner d)
    (t : Nat) (acts : NScript) :
    ∀ s, NInv s → t < s.ntasks → s.stack.length + d = s.ntasks + 1 →
      (nRun inner t acts s).1.panicked = false →
      nWork (nRun inner t acts s).1 ≤ nWork s ∧
      (∀ x, x ∈ s.stack → (nRun inner t acts s).1.fut x = s.fut x) ∧
      (∀ rest, (nRun inner t acts s).2 = some rest → rest.length < acts.length) := by
  induction acts with
  | nil => intro s _ _ _ _; exact ⟨Nat.le_refl _, fun _ _ => rfl, fun _ h => by cases h⟩
  | cons a rest ih =>
    intro s h ht hd hnp
    cases a with
    | complete => exact ⟨Nat.le_refl _, fun _ _ => rfl, fun _ h => by cases h⟩
    | yield =>
      refine ⟨Nat.le_refl _, fun _ _ => rfl, ?_⟩
      intro r hr
      simp only [nRun, Option.some.injEq] at hr
      subst hr; simp
    | wake u =>
      simp only [nRun] at hnp ⊢
      split
      · rename_i hk
        simp only [hk, if_true] at hnp
        obtain ⟨a1, a2, a3⟩ := ih (nwake s u) (ninv_wake h u (h.klt u hk)) ht hd hnp
        exact ⟨a1, a2, fun r hr => Nat.lt_succ_of_lt (a3 r hr)⟩
      · rename_i hk
        simp only [hk, if_false] at hnp
        obtain ⟨a1, a2, a3⟩ := ih s h ht hd hnp
        exact ⟨a1, a2, fun r hr => Nat.lt_succ_of_lt (a3 r hr)⟩
    | nest =>
      simp only [nRun] at hnp ⊢
      cases hq : s.queue with
      | nil =>
        simp only [hq] at hnp ⊢
        obtain ⟨a1, a2, a3⟩ := ih (nlog s .idle)
          (ninv_event h .idle (fun _ => by simp) (fun _ _ => by simp)) ht hd hnp
        exact ⟨a1, a2, fun r hr => Nat.lt_succ_of_lt (a3 r hr)⟩
      | cons u q =>
        simp only [hq] at hnp ⊢
        have hnd : (u :: q).Nodup := hq ▸ h.qn
        have h1 : NInv { s with queue := q } :=
          ⟨(List.nodup_cons.mp hnd).2, fun x hx => h.qlt x (by rw [hq]; exact List.mem_cons_of_mem _ hx),
           h.sn, h.slt, h.klt, h.rp, h.occ, h.fin, h.nef, h.ns⟩
        have hu : u < s.ntasks := h.qlt u (by rw [hq]; simp)
        obtain ⟨i1, i2, i3⟩ := hin { s with queue := q } u h1 hu hd
        by_cases hpp : (inner { s with queue := q } u).panicked = true
        · simp only [hpp, if_true] at hnp
          first | cases hnp | (rw [hpp] at hnp; cases hnp)
        · have hp' : (inner { s with queue := q } u).panicked = false := by
            cases hx : (inner { s with queue := q } u).panicked with
            | false => rfl
            | true => exact absurd hx hpp
          simp only [hp', Bool.false_eq_true, if_false] at hnp ⊢
          have hs := i3 hp'
          obtain ⟨m1, m2, _⟩ := hm { s with queue := q } u h1 hu hd hp'
          obtain ⟨a1, a2, a3⟩ := ih (inner { s with queue := q } u) i1 (by rw [i2]; exact ht)
            (by rw [hs, i2]; exact hd) hnp
          refine ⟨Nat.le_trans a1 m1, ?_, fun r hr => Nat.lt_succ_of_lt (a3 r hr)⟩
          intro x hx
          rw [a2 x (by rw [hs]; exact hx)]
          exact m2 x hx

theorem nPoll_mono : ∀ d, PollMono (nPoll d) d := by
  intro d
  induction d with
  | zero =>
    intro s t h _ hd
    have := nodup_length_le s.stack s.ntasks h.sn h.slt
    omega
  | succ d ih =>
    intro s t h ht hd hnp
    simp only [nPoll] at hnp ⊢
    by_cases hm : t ∈ s.stack
    · simp only [hm, if_true] at hnp
      cases hnp
    · simp only [hm, if_false] at hnp ⊢
      cases hf : s.fut t with
      | none =>
        simp only [hf] at hnp ⊢
        exact ⟨Nat.le_refl _, fun _ _ => rfl, Or.inl (by first | rfl | trivial)⟩
      | some acts =>
        simp only [hf] at hnp ⊢
        have h0 := ninv_enter h t acts ht hm hf
        have hd0 : (t :: s.stack).length + d = s.ntasks + 1 := by simp only [List.length_cons]; omega
        obtain ⟨r1, r2, r3⟩ := nRun_ok (nPoll d) d (nPoll_ok d) t acts
          { nlog s (.enter t) with stack := t :: s.stack, known := upd s.known t true } h0 ht hd0
        have hr := nRun_mono (nPoll d) d (nPoll_ok d) ih t acts
          { nlog s (.enter t) with stack := t :: s.stack, known := upd s.known t true } h0 ht hd0
        generalize nRun (nPoll d) t acts
          { nlog s (.enter t) with stack := t :: s.stack, known := upd s.known t true } = r at hnp r1 r2 r3 hr ⊢
        cases hpr : r.1.panicked with
        | true =>
          simp only [hpr, if_true] at hnp
          first | cases hnp | (rw [hpr] at hnp; cases hnp)
        | false =>
          simp only [hpr, Bool.false_eq_true, if_false] at hnp ⊢
          obtain ⟨w1, w2, w3⟩ := hr hpr
          have hw1 : nWork r.1 ≤ nWork s := w1
          have hft : r.1.fut t = some acts := by
            rw [w2 t (by show t ∈ t :: s.stack; simp)]; exact hf
          have htr : t < r.1.ntasks := by rw [r2]; exact ht
          have hsl : slotWork r.1.fut t = acts.length + 1 := by simp [slotWork, hft]
          cases hr2 : r.2 with
          | some rest =>
            simp only []
            have hlt := w3 rest hr2
            have hu := nWork_upd r.1 t htr (some rest)
            have hsl' : slotWork (upd r.1.fut t (some rest)) t = rest.length + 1 := by simp [slotWork, upd_apply]
            have hlt2 : ((List.range r.1.ntasks).map (slotWork (upd r.1.fut t (some rest)))).sum < nWork s := by omega
            refine ⟨Nat.le_of_lt hlt2, ?_, Or.inr hlt2⟩
            intro x hx
            have hxt : x ≠ t := fun e => hm (e ▸ hx)
            show upd r.1.fut t (some rest) x = s.fut x
            simp only [upd_apply, hxt, if_false]
            exact w2 x (List.mem_cons_of_mem _ hx)
          | none =>
            simp only []
            have hu := nWork_upd r.1 t htr none
            have hsl' : slotWork (upd r.1.fut t none) t = 0 := by simp [slotWork, upd_apply]
            have hlt2 : ((List.range r.1.ntasks).map (slotWork (upd r.1.fut t none))).sum < nWork s := by omega
            refine ⟨Nat.le_of_lt hlt2, ?_, Or.inr hlt2⟩
            intro x hx
            have hxt : x ≠ t := fun e => hm (e ▸ hx)
            show upd r.1.fut t none x = s.fut x
            simp only [upd_apply, hxt, if_false]
            exact w2 x (List.mem_cons_of_mem _ hx)

/-- every top-level step that does not end in the guard panic brings the stall nearer -/
theorem nStallBound_step {s s' : NState} (h : NTop s) (hs : nStep s = some s') (hnp : s'.panicked = false) :
    nStallBound s' < nStallBound s := by
  have htop' := ntop_step h hs
  unfold nStep at hs
  split at hs
  · cases hs
  · rename_i hp
    have hp' : s.panicked = false := by
      cases hpp : s.panicked with
      | false => rfl
      | true => exact absurd hpp hp
    have hst := h.idle hp'
    cases hq : s.queue with
    | nil => simp [hq] at hs
    | cons t q =>
      simp only [hq, Option.some.injEq] at hs
      subst hs
      have hnd : (t :: q).Nodup := hq ▸ h.inv.qn
      have h1 : NInv { s with queue := q } :=
        ⟨(List.nodup_cons.mp hnd).2, fun x hx => h.inv.qlt x (by rw [hq]; exact List.mem_cons_of_mem _ hx),
         h.inv.sn, h.inv.slt, h.inv.klt, h.inv.rp, h.inv.occ, h.inv.fin, h.inv.nef, h.inv.ns⟩
      have ht : t < s.ntasks := h.inv.qlt t (by rw [hq]; simp)
      have hd : ({ s with queue := q } : NState).stack.length + (s.ntasks + 1) = s.ntasks + 1 := by
        show s.stack.length + (s.ntasks + 1) = s.ntasks + 1; rw [hst]; simp
      obtain ⟨m1, _, m3⟩ := nPoll_mono (s.ntasks + 1) { s with queue := q } t h1 ht hd hnp
      obtain ⟨_, n2, _⟩ := nPoll_ok (s.ntasks + 1) { s with queue := q } t h1 ht hd
      have hql : (nPoll (s.ntasks + 1) { s with queue := q } t).queue.length ≤ s.ntasks := by
        have := nodup_length_le _ _ htop'.inv.qn htop'.inv.qlt
        rw [n2] at this; exact this
      have hw0 : nWork ({ s with queue := q } : NState) = nWork s := rfl
      unfold nStallBound
      rw [n2]
      show nWork _ * (s.ntasks + 1) + _ < nWork s * (s.ntasks + 1) + s.queue.length
      rw [hq]
      simp only [List.length_cons]
      rcases m3 with hlog | hlt
      · -- the popped slot was empty: nothing else happened
        rw [hlog]
        show nWork (nlog { s with queue := q } (.noop t)) * (s.ntasks + 1) + q.length < _
        have : nWork (nlog { s with queue := q } (.noop t)) = nWork s := rfl
        rw [this]; omega
      · have hmul : nWork (nPoll (s.ntasks + 1) { s with queue := q } t) * (s.ntasks + 1) + (s.ntasks + 1)
            ≤ nWork s * (s.ntasks + 1) := by
          have : nWork (nPoll (s.ntasks + 1) { s with queue := q } t) + 1 ≤ nWork s := hlt
          calc nWork (nPoll (s.ntasks + 1) { s with queue := q } t) * (s.ntasks + 1) + (s.ntasks + 1)
              = (nWork (nPoll (s.ntasks + 1) { s with queue := q } t) + 1) * (s.ntasks + 1) := by
                rw [Nat.add_mul, Nat.one_mul]
            _ ≤ nWork s * (s.ntasks + 1) := Nat.mul_le_mul_right _ this
        omega

theorem nStepN_panicked (n : Nat) (s : NState) (h : s.panicked = true) : nStepN n s = s := by
  cases n with
  | zero => rfl
  | succ n => simp [nStepN, nStep, h]

/-- the run loop of the nested-step model ends within the bound: the queue runs empty or the guard panics -/
theorem nStepN_stalls (n : Nat) {s : NState} (h : NTop s) (hn : nStallBound s ≤ n) :
    (nStepN n s).queue = [] ∨ (nStepN n s).panicked = true := by
  induction n generalizing s with
  | zero =>
    left
    have : s.queue.length = 0 := by unfold nStallBound at hn; omega
    exact List.eq_nil_of_length_eq_zero this
  | succ n ih =>
    simp only [nStepN]
    cases hs : nStep s with
    | none =>
      simp only []
      unfold nStep at hs
      split at hs
      · rename_i hp; exact Or.inr hp
      · cases hq : s.queue with
        | nil => exact Or.inl (by first | exact hq | rfl)
        | cons t q => simp [hq] at hs
    | some s' =>
      simp only []
      cases hp : s'.panicked with
      | true => rw [nStepN_panicked n s' hp]; exact Or.inr hp
      | false =>
        have := nStallBound_step h hs hp
        exact ih (ntop_step h hs) (by omega)

end YashModel.Executor.Nested
