/-
  Driver for C15.  stdin: one task system per line
      `<d|s> <roots> : <script> / <script> / …`      (script = actions `Y W<k> S<k> P J C`, `-` = empty)
  stdout: `<model observation>\t<spec verdict>`.

  Observation: one token per `Executor::step` — `<tid>p<n>` (future polled, `Pending`), `<tid>r<n>`
  (`Ready`), `~<n>` (`Task::poll` on an emptied slot), `<n>` = `wake_count()` after the step — then
  completion order, number of `true` steps, how the run ended, the result of `run_until_stalled` on a
  fresh copy, what two `try_receive` calls on every receiver return, and where every unfinished task
  is blocked.
-/
import YashModel.Common.Proto
import YashModel.Executor.Model
import YashModel.Executor.Spec
open YashModel YashModel.Executor YashModel.Proto

/-- step budget shared with the harness (`MAX_STEPS` in c15.rs) -/
def maxSteps : Nat := 4000

def parseAction (t : String) : Option Action :=
  match t.toList with
  | ['Y'] => some .yield
  | ['P'] => some .spawn
  | ['J'] => some .join
  | ['C'] => some .complete
  | 'W' :: r => (String.ofList r).toNat?.map .wait
  | 'S' :: r => (String.ofList r).toNat?.map .signal
  | _ => none

def parseScript (t : String) : Option Script :=
  let ws := words t
  if ws = ["-"] then some [] else ws.mapM parseAction

def showAction : Action → String
  | .yield => "Y"
  | .wait k => s!"W{k}"
  | .signal k => s!"S{k}"
  | .spawn => "P"
  | .join => "J"
  | .complete => "C"

def showRecv (s : State) (c : Nat) : String :=
  let alive := (s.fut c).isSome
  let sh : Except TryErr Nat → String
    | .ok v => s!"v{v}"
    | .error .notSent => "NS"
    | .error .senderDropped => "SD"
    | .error .alreadyReceived => "AR"
  let r1 := tryReceive (s.relay c) alive
  let r2 := tryReceive r1.1 alive
  s!"{c}:{sh r1.2}/{sh r2.2}"

def showBlocked (s : State) : String :=
  let l := (List.range s.ntasks).filterMap fun t =>
    match s.fut t with
    | none => none
    | some [] => some s!"{t}?"
    | some (.join :: _) =>
      some (match s.kids t with | c :: _ => s!"{t}J{c}" | [] => s!"{t}J?")
    | some (a :: _) => some s!"{t}{showAction a}"
  if l.isEmpty then "-" else ",".intercalate l

/-- the token for one step and the spec checks at the boundary after it -/
def stepObs (s : State) : Option (State × String × Option String) :=
  match s.queue with
  | [] => none
  | t :: _ =>
    match step s with
    | none => none
    | some (s', b) =>
      let tok :=
        if (s.fut t).isNone then s!"~{s'.queue.length}"
        else s!"{t}{if b then "r" else "p"}{s'.queue.length}"
      let v := match checkB s' with
        | some e => some e
        | none => if fifoB s.queue s'.queue then none else some "overtaken"
      some (s', tok, v)

def runObs : Nat → State → List String → Nat → Option String → State × List String × Nat × Option String × Bool
  | 0, s, toks, c, v => (s, toks.reverse, c, v, s.queue.isEmpty)
  | n + 1, s, toks, c, v =>
    match stepObs s with
    | none => (s, toks.reverse, c, v, true)
    | some (s', tok, v') =>
      let done := tok.startsWith "~" || (tok.toList.any (· == 'r'))
      runObs n s' (tok :: toks) (if done then c + 1 else c)
        (match v with | some e => some e | none => v'.map (fun e => s!"{e}@{toks.length + 1}"))

def completionOrder (log : List Ev) : List Nat :=
  log.filterMap fun
    | .ret t true => some t
    | _ => none

/-- the `x …` cases: behaviour of the `Weak` references after the executor is gone, and `spawn_pinned` -/
def runExtra (name : String) : String :=
  let sh (e : Option State) : String := match e with | some s => s!"queued{s.queue.length}" | none => "refused"
  match name with
  | "wake-after-drop" =>
    -- one task blocked on a channel; the executor is dropped; its waker is woken twice
    let s := stepN 1 (init false [[.wait 0]] 1)
    let e := wakeWeak (wakeWeak none 0) 0
    s!"wc={s.queue.length} after-drop={if e.isNone then "discarded" else "enqueued"}\tok"
  | "dead-spawner" => s!"spawn={sh (spawnWeak none [])} pinned={sh (spawnWeak none [])}\tok"
  | "spawner-after-drop" =>
    let live := spawnWeak (some (init false [] 0)) []
    s!"before={sh live} spawn={sh (spawnWeak none [])} pinned={sh (spawnWeak none [])}\tok"
  | "spawn-pinned" =>
    -- Executor::spawn_pinned, Spawner::spawn_pinned, Executor::spawn: polled in FIFO order
    let s0 := (spawnWeak (spawnWeak (spawnWeak (some (init false [] 0)) [.yield]) []) []).getD {}
    let r := runUntilStalled 100 s0 0
    let polls := r.1.log.filterMap fun | .poll t => some (toString t) | _ => none
    s!"wc={s0.queue.length} polls={".".intercalate polls} compl={r.2.1}\tok"
  | _ => "bad-case\t-"

def runLine (line : String) : String :=
  if line.startsWith "x " then runExtra (line.drop 2).trimAscii.toString else
  match line.splitOn ":" with
  | [hd, body] =>
    match words hd with
    | [m, r] =>
      match r.toNat?, (splitTrim body "/").mapM parseScript with
      | some roots, some scripts =>
        if m ≠ "d" ∧ m ≠ "s" then "bad-case\t-" else
        let s0 := init (m == "s") scripts roots
        let v0 := (checkB s0).map (fun e => s!"{e}@0")
        let (s, toks, compl, v, stalled) := runObs maxSteps s0 [] 0 v0
        let rus := runUntilStalled maxSteps s0 0
        let dn := completionOrder s.log
        let recv := (List.range s.ntasks).map (showRecv s)
        let obs := s!"{" ".intercalate toks} | done={if dn.isEmpty then "-" else ".".intercalate (dn.map toString)} compl={compl} end={if stalled then "stall" else "cut"} rus={if rus.2.2 then toString rus.2.1 else "-"} recv={",".intercalate recv} blocked={showBlocked s}"
        obs ++ "\t" ++ (match v with | some e => s!"FAIL:{e}" | none => "ok")
      | _, _ => "bad-case\t-"
    | _ => "bad-case\t-"
  | _ => "bad-case\t-"

def main : IO Unit := mainLoop runLine
