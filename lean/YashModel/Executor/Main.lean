/-
  Driver for C15.  stdin: one task system per line
      `<d|s> <roots> : <script> / <script> / …`      (script = actions `Y W<k> S<k> P J C`, `-` = empty)
  stdout: `<model observation>\t<spec verdict>`.

  Observation: one token per `Executor::step` — `<tid>p<n>` (future polled, `Pending`), `<tid>r<n>`
  (`Ready`), `~<n>` (`Task::poll` on an emptied slot), `<n>` = `wake_count()` after the step — then
  completion order, number of `true` steps, how the run ended, the result of `run_until_stalled` on a
  fresh copy, what two `try_receive` calls on every receiver return, and where every unfinished task
  is blocked.
-/
import YashModel.Common.Proto
import YashModel.Executor.Model
import YashModel.Executor.Spec
import YashModel.Executor.NestedModel
import YashModel.Executor.RcModel
open YashModel YashModel.Executor YashModel.Proto

def parseAction (t : String) : Option Action :=
  match t.toList with
  | ['Y'] => some .yield
  | ['P'] => some .spawn
  | ['J'] => some .join
  | ['C'] => some .complete
  | 'W' :: r => (String.ofList r).toNat?.map .wait
  | 'S' :: r => (String.ofList r).toNat?.map .signal
  | _ => none

def parseScript (t : String) : Option Script :=
  let ws := words t
  if ws = ["-"] then some [] else ws.mapM parseAction

def showAction : Action → String
  | .yield => "Y"
  | .wait k => s!"W{k}"
  | .signal k => s!"S{k}"
  | .spawn => "P"
  | .join => "J"
  | .complete => "C"

def showRecv (s : State) (c : Nat) : String :=
  let alive := (s.fut c).isSome
  let sh : Except TryErr Nat → String
    | .ok v => s!"v{v}"
    | .error .notSent => "NS"
    | .error .senderDropped => "SD"
    | .error .alreadyReceived => "AR"
  let r1 := tryReceive (s.relay c) alive
  let r2 := tryReceive r1.1 alive
  s!"{c}:{sh r1.2}/{sh r2.2}"

def showBlocked (s : State) : String :=
  let l := (List.range s.ntasks).filterMap fun t =>
    match s.fut t with
    | none => none
    | some [] => some s!"{t}?"
    | some (.join :: _) =>
      some (match s.kids t with | c :: _ => s!"{t}J{c}" | [] => s!"{t}J?")
    | some (a :: _) => some s!"{t}{showAction a}"
  if l.isEmpty then "-" else ",".intercalate l

/-- the token for one step and the spec checks at the boundary after it -/
def stepObs (s : State) : Option (State × String × Option String) :=
  match s.queue with
  | [] => none
  | t :: _ =>
    match step s with
    | none => none
    | some (s', b) =>
      let tok :=
        if (s.fut t).isNone then s!"~{s'.queue.length}"
        else s!"{t}{if b then "r" else "p"}{s'.queue.length}"
      let v := match checkB s' with
        | some e => some e
        | none => if fifoB s.queue s'.queue then none else some "overtaken"
      some (s', tok, v)

def runObs : Nat → State → List String → Nat → Option String → State × List String × Nat × Option String × Bool
  | 0, s, toks, c, v => (s, toks.reverse, c, v, s.queue.isEmpty)
  | n + 1, s, toks, c, v =>
    match stepObs s with
    | none => (s, toks.reverse, c, v, true)
    | some (s', tok, v') =>
      let done := tok.startsWith "~" || (tok.toList.any (· == 'r'))
      runObs n s' (tok :: toks) (if done then c + 1 else c)
        (match v with | some e => some e | none => v'.map (fun e => s!"{e}@{toks.length + 1}"))

/-- the same run with the reference counting of waker.rs beside it (`RcModel.lean`): after every step the
    count the code maintains must be the derived count `refs`, balanced, never decremented at zero, and the
    task system must be the one the plain model computed -/
def rcRun (nch : Nat) : Nat → Rc.RState → Nat → Option String × Rc.RState
  | 0, r, _ => (none, r)
  | n + 1, r, i =>
    match Rc.rcCheck r nch with
    | some e => (some s!"{e}@{i}", r)
    | none =>
      match Rc.rStep r with
      | none => (none, r)
      | some x => rcRun nch n x.1 (i + 1)

def completionOrder (log : List Ev) : List Nat :=
  log.filterMap fun
    | .ret t true => some t
    | _ => none

/-- the `x …` cases: behaviour of the `Weak` references after the executor is gone, and `spawn_pinned` -/
def runExtra (name : String) : String :=
  let sh (e : Option State) : String := match e with | some s => s!"queued{s.queue.length}" | none => "refused"
  match name with
  | "wake-after-drop" =>
    -- one task blocked on a channel; the executor is dropped; its waker is woken twice
    let s := stepN 1 (init false [[.wait 0]] 1)
    let e := wakeWeak (wakeWeak none 0) 0
    s!"wc={s.queue.length} after-drop={if e.isNone then "discarded" else "enqueued"}\tok"
  | "dead-spawner" => s!"spawn={sh (spawnWeak none [])} pinned={sh (spawnWeak none [])}\tok"
  | "spawner-after-drop" =>
    let live := spawnWeak (some (init false [] 0)) []
    s!"before={sh live} spawn={sh (spawnWeak none [])} pinned={sh (spawnWeak none [])}\tok"
  | "spawn-pinned" =>
    -- Executor::spawn_pinned, Spawner::spawn_pinned, Executor::spawn: polled in FIFO order
    let s0 := (spawnWeak (spawnWeak (spawnWeak (some (init false [] 0)) [.yield]) []) []).getD {}
    let r := runUntilStalled 100 s0 0
    let polls := r.1.log.filterMap fun | .poll t => some (toString t) | _ => none
    s!"wc={s0.queue.length} polls={".".intercalate polls} compl={r.2.1}\tok"
  | _ => "bad-case\t-"

/-! ### `v` cases: operations from outside -/

def parsePair (r : String) : Option (Nat × Nat) :=
  match r.splitOn "." with
  | [a, b] => do pure (← a.toNat?, ← b.toNat?)
  | _ => none

def parseXOp (t : String) : Option XOp :=
  match t.toList with
  | ['s'] => some .step
  | ['u'] => some .rus
  | ['X'] => some .dropExec
  | ['p'] => some .spawn
  | 'w' :: r => (parsePair (String.ofList r)).map fun (k, i) => .wake k i
  | 'r' :: r => (parsePair (String.ofList r)).map fun (k, i) => .byRef k i
  | 'c' :: r => (parsePair (String.ofList r)).map fun (k, i) => .clone k i
  | 'd' :: r => (parsePair (String.ofList r)).map fun (k, i) => .drop k i
  | 'S' :: r => (String.ofList r).toNat?.map .signal
  | 't' :: r => (String.ofList r).toNat?.map .try_
  | _ => none

def chanOfAction : Action → Nat
  | .wait k => k + 1
  | .signal k => k + 1
  | _ => 0

def chanOfOp : XOp → Nat
  | .wake k _ => k + 1
  | .byRef k _ => k + 1
  | .clone k _ => k + 1
  | .drop k _ => k + 1
  | .signal k => k + 1
  | _ => 0

def showErr : Except TryErr Nat → String
  | .ok v => s!"v{v}"
  | .error .notSent => "NS"
  | .error .senderDropped => "SD"
  | .error .alreadyReceived => "AR"

structure VRun where
  x : XState
  rc : Rc.RState
  toks : List String := []
  lost : List Nat := []
  verdict : Option String := none

def wcStr (x : XState) : String := if x.dead then "x" else toString x.s.queue.length

/-- the checks of the Spec that still apply when wake-ups come from outside; "no lost wake-up" only
    while no waker has been thrown away -/
def checkV (r : VRun) : Option String :=
  let s := r.x.s
  if !nodupB s.queue then some "queue-dup"
  else if !r.x.abandoned && !noLostB s then some "lost-wakeup"
  else if !r.x.abandoned && !stallB s then some "stalled-not-waiting"
  else if !noPollAfterFinB s.log then some "poll-after-complete"
  else if !bracketedB s.log then some "reentrant-poll"
  else if !relayB s then some "relay-not-once"
  else if s.bad then some "panic-branch"
  else none

/-- one operation: the new state is `xRun` of the model; the token is read off the states -/
def vOp (nch : Nat) (r : VRun) (op : XOp) : VRun :=
  let x := r.x
  let x' := xRun x op
  let idx (k i : Nat) : Bool := ((x.s.waiters k)[i]?).isSome
  let tok : String :=
    match op with
    | .step =>
      if x.dead then "s:x" else
      match stepObs x.s with
      | none => "s:-"
      | some (_, tok, _) => tok
    | .rus =>
      if x.dead then "u:x" else
      if stallBound x.s > maxSteps then "u:budget-below-bound" else
      let res := runUntilStalled maxSteps x.s 0
      let polls := (x'.s.log.drop x.s.log.length).filterMap fun
        | .ret t b => some s!"{t}{if b then "r" else "p"}"
        | _ => none
      s!"u{res.2.1}[{",".intercalate polls}]"
    | .wake k i => if idx k i then wcStr x' else "."
    | .byRef k i => if idx k i then wcStr x' else "."
    | .clone k i => if idx k i then wcStr x' else "."
    | .drop k i => if idx k i then wcStr x' else "."
    | .signal _ => wcStr x'
    | .dropExec => "X"
    | .try_ c => if c < x.s.ntasks && !heldByParent x.s c then s!"t:{showErr (tryRecvTask x.s nch c)}" else "."
    | .spawn =>
      match x.s.pool with
      | [] => "."
      | _ => if x.dead then "p:refused" else s!"p:{x'.s.queue.length}"
  let newly := (List.range x'.s.ntasks).filter fun t => lostB x'.s nch t && !r.lost.contains t
  let tok := if newly.isEmpty then tok else s!"{tok}!{".".intercalate (newly.map toString)}"
  let rc' := Rc.rRun r.rc op
  let r' : VRun := { r with x := x', rc := rc', toks := tok :: r.toks, lost := r.lost ++ newly }
  let v := match r.verdict with
    | some e => some e
    | none =>
      match checkV r' with
      | some e => some s!"{e}@{r'.toks.length}"
      | none =>
        if !x'.abandoned && !newly.isEmpty then some s!"task-lost@{r'.toks.length}" else
        -- the counted run: same task system, count = `refs`, a task is freed exactly when `lostB` says
        match Rc.rcCheck rc' nch with
        | some e => some s!"{e}@{r'.toks.length}"
        | none =>
          if rc'.s.queue != x'.s.queue || rc'.s.log != x'.s.log || rc'.dead != x'.dead then
            some s!"rc-run-differs@{r'.toks.length}"
          else if (List.range x'.s.ntasks).any (fun t => (x'.s.fut t).isSome && ((rc'.strong t == 0) != lostB x'.s nch t)) then
            some s!"rc-freed-not-lost@{r'.toks.length}"
          else none
  { r' with verdict := v }

def showRecvV (s : State) (nch : Nat) (c : Nat) : String :=
  let r1 := tryRecvTask s nch c
  let r2 := tryRecvTask (takeValue s c) nch c
  s!"{c}:{showErr r1}/{showErr r2}"

def runV (line : String) : String :=
  match line.splitOn ";" with
  | [sys, opsT] =>
    match sys.splitOn ":" with
    | [hd, body] =>
      match words hd, (words opsT).mapM parseXOp with
      | [m, r], some ops =>
        match r.toNat?, (splitTrim body "/").mapM parseScript with
        | some roots, some scripts =>
          if m ≠ "d" ∧ m ≠ "s" then "bad-case\t-" else
          let nch := ((scripts.flatMap id).map chanOfAction ++ ops.map chanOfOp).foldl max 0
          let s0 := init (m == "s") scripts roots
          let r := ops.foldl (vOp nch) { x := { s := s0 }, rc := Rc.rInit (m == "s") scripts roots }
          let s := r.x.s
          let dn := completionOrder s.log
          let recv := (List.range s.ntasks).map (showRecvV s nch)
          let obs := s!"{" ".intercalate r.toks.reverse} | done={if dn.isEmpty then "-" else ".".intercalate (dn.map toString)} wc={wcStr r.x} recv={",".intercalate recv} vt={Rc.vlogDigest r.rc.vlog}"
          obs ++ "\t" ++ (match r.verdict with | some e => s!"FAIL:{e}" | none => "ok")
        | _, _ => "bad-case\t-"
      | _, _ => "bad-case\t-"
    | _ => "bad-case\t-"
  | _ => "bad-case\t-"

/-! ### `f` cases: the forwarder alone -/

def parseFOp : String → Option FOp
  | "send" => some .send
  | "ds" => some .dropSender
  | "dr" => some .dropReceiver
  | "try" => some .try_
  | "pa" => some (.poll 0)
  | "pb" => some (.poll 1)
  | _ => none

def runF (rest : String) : String :=
  match (words rest).mapM parseFOp with
  | none => "bad-case\t-"
  | some ops =>
    let (f, toks) := ops.foldl (fun (acc : FState × List String) op =>
      let r := fstep acc.1 op; (r.1, r.2 :: acc.2)) (({} : FState), [])
    -- the property on this run: at most one delivery (of the value sent), at most one wake-up
    let ok := f.got.length ≤ 1 && f.got.all (· == 7) && f.woken 0 + f.woken 1 ≤ 1 && !f.bad
    s!"{" ".intercalate toks.reverse} | woken={f.woken 0},{f.woken 1} held={f.held 0},{f.held 1}\t{if ok then "ok" else "FAIL:forwarder"}"

/-! ### `n` cases: `Executor::step` from inside a poll -/

open YashModel.Executor.Nested in
def parseNAct (t : String) : Option NAct :=
  match t.toList with
  | ['Y'] => some .yield
  | ['N'] => some .nest
  | ['C'] => some .complete
  | 'w' :: r => (String.ofList r).toNat?.map .wake
  | _ => none

open YashModel.Executor.Nested in
def parseNScript (t : String) : Option NScript :=
  let ws := words t
  if ws = ["-"] then some [] else ws.mapM parseNAct

open YashModel.Executor.Nested in
def showNEv : NEv → String
  | .enter t => s!"e{t}"
  | .exit t b => s!"x{t}{if b then "r" else "p"}"
  | .noop _ => "~"
  | .guard _ => "G"
  | .idle => "i"

open YashModel.Executor.Nested in
/-- top-level steps until the stall, the panic of the recursion guard, or the budget -/
def runNObs : Nat → NState → List String → Option String → NState × List String × Option String × String
  | 0, s, toks, v => (s, toks.reverse, v, if s.queue.isEmpty then "stall" else "cut")
  | n + 1, s, toks, v =>
    match nStep s with
    | none => (s, toks.reverse, v, if s.panicked then "panic" else "stall")
    | some s' =>
      let evs := (s'.log.drop s.log.length).map showNEv
      let toks' := (if s'.panicked then [] else [s!"|{s'.queue.length}"]) ++ evs.reverse ++ toks
      let v' := match v with
        | some e => some e
        | none =>
          match nCheck s' with
          | some e => some s!"{e}@{toks'.length}"
          | none =>
            if !nFrozenB s' then some s!"lost-or-duplicated@{toks'.length}"
            else if !nFifoB s s' then some s!"overtaken@{toks'.length}"
            else if !nLiveB s' then some s!"lost-wakeup@{toks'.length}" else none
      if s'.panicked then (s', toks'.reverse, v', "panic") else runNObs n s' toks' v'

open YashModel.Executor.Nested in
def runN (rest : String) : String :=
  match (splitTrim rest "/").mapM parseNScript with
  | none => "bad-case\t-"
  | some scripts =>
    let s0 := nInit scripts
    -- `nested_run_terminates`: within this bound the loop reaches the stall or the guard panic
    let v0 := if nStallBound s0 > maxSteps then some "budget-below-bound" else (nCheck s0).map fun e => s!"{e}@0"
    let (s, toks, v, how) := runNObs maxSteps s0 [] v0
    let dn := (List.range s.ntasks).filter fun t => s.log.contains (.exit t true)
    let act := (List.range s.ntasks).filter fun t => s.stack.contains t
    let obs := s!"{" ".intercalate toks} | wc={s.queue.length} end={how} done={if dn.isEmpty then "-" else ".".intercalate (dn.map toString)} act={if act.isEmpty then "-" else ".".intercalate (act.map toString)}"
    obs ++ "\t" ++ (match v with | some e => s!"FAIL:{e}" | none => "ok")

def runLine (line : String) : String :=
  if line.startsWith "n " then runN (line.drop 2).toString else
  if line.startsWith "x " then runExtra (line.drop 2).trimAscii.toString else
  if line.startsWith "v " then runV (line.drop 2).toString else
  if line == "f" || line.startsWith "f " then runF (line.drop 1).toString else
  match line.splitOn ":" with
  | [hd, body] =>
    match words hd with
    | [m, r] =>
      match r.toNat?, (splitTrim body "/").mapM parseScript with
      | some roots, some scripts =>
        if m ≠ "d" ∧ m ≠ "s" then "bad-case\t-" else
        let s0 := init (m == "s") scripts roots
        -- `run_until_stalled_terminates`: within this bound the loop always reaches the stall
        let v0 := if stallBound s0 > maxSteps then some "budget-below-bound" else (checkB s0).map (fun e => s!"{e}@0")
        let (s, toks, compl, v, stalled) := runObs maxSteps s0 [] 0 v0
        let nch := ((scripts.flatMap id).map chanOfAction).foldl max 0
        let rr := rcRun nch (maxSteps + 1) (Rc.rInit (m == "s") scripts roots) 0
        let v := match v with
          | some e => some e
          | none =>
            match rr.1 with
            | some e => some e
            | none => if rr.2.s.log != s.log || rr.2.s.queue != s.queue then some "rc-run-differs" else none
        let rus := runUntilStalled maxSteps s0 0
        let dn := completionOrder s.log
        let recv := (List.range s.ntasks).map (showRecv s)
        let obs := s!"{" ".intercalate toks} | done={if dn.isEmpty then "-" else ".".intercalate (dn.map toString)} compl={compl} end={if stalled then "stall" else "cut"} rus={if rus.2.2 then toString rus.2.1 else "-"} recv={",".intercalate recv} blocked={showBlocked s} vt={Rc.vlogDigest rr.2.vlog}"
        obs ++ "\t" ++ (match v with | some e => s!"FAIL:{e}" | none => "ok")
      | _, _ => "bad-case\t-"
    | _ => "bad-case\t-"
  | _ => "bad-case\t-"

def main : IO Unit := mainLoop runLine
