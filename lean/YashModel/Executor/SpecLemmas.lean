/-
  C15 helper lemmas, part 4: the decidable checks of `Spec.lean` (what the driver evaluates on the
  model's own run) follow from the proved invariants.
-/
import YashModel.Executor.Steps
import YashModel.Executor.Spec
namespace YashModel.Executor

theorem nodupB_of_nodup (q : List Nat) (h : q.Nodup) : nodupB q = true := by
  induction q with
  | nil => rfl
  | cons a t ih =>
    have h' := List.nodup_cons.mp h
    simp only [nodupB, Bool.and_eq_true, Bool.not_eq_true', ih h'.2, and_true]
    cases hc : t.contains a with
    | false => rfl
    | true => exact absurd (List.contains_iff_mem.mp hc) h'.1

theorem blockedB_of_blocked {s : State} (hi : InvX false none s) (t : Nat) (acts : Script)
    (hb : Blocked s t acts) : blockedB s t acts = true := by
  rcases hb with ⟨k, rest, rfl, hm, hz⟩ | ⟨c, cs, rest, rfl, hk, hr⟩
  · simp only [blockedB, Bool.and_eq_true, beq_iff_eq]
    exact ⟨List.contains_iff_mem.mpr hm, hz⟩
  · have hc : c < s.ntasks := (hi.kid t c (by rw [hk]; simp)).1
    have hs := hi.sync c hc
    rw [hr] at hs
    have hfc : (s.fut c).isSome = true := by
      cases hfc : s.fut c with
      | none => exact absurd (hs.mp hfc) (by simp [Relay.sent])
      | some _ => rfl
    simp only [blockedB, hk, hr, hfc, Bool.and_true, beq_self_eq_true]

theorem noLostB_of_inv {s : State} (hi : InvX false none s) : noLostB s = true := by
  unfold noLostB
  rw [List.all_eq_true]
  intro t ht
  have ht' : t < s.ntasks := List.mem_range.mp ht
  cases hf : s.fut t with
  | none => rfl
  | some acts =>
    simp only [Bool.or_eq_true]
    rcases hi.live t acts rfl ht' (by simp) hf with hq | hb
    · exact Or.inl (List.contains_iff_mem.mpr hq)
    · exact Or.inr (blockedB_of_blocked hi t acts hb)

theorem stallB_of_inv {s : State} (hi : InvX false none s) : stallB s = true := by
  unfold stallB
  cases hq : s.queue with
  | cons a q => simp
  | nil =>
    simp only [List.isEmpty_nil, Bool.not_true, Bool.false_or]
    rw [List.all_eq_true]
    intro t ht
    have ht' : t < s.ntasks := List.mem_range.mp ht
    cases hf : s.fut t with
    | none => rfl
    | some acts =>
      rcases hi.live t acts rfl ht' (by simp) hf with hm | hb
      · rw [hq] at hm; cases hm
      · exact blockedB_of_blocked hi t acts hb

theorem noPollAfterFinB_of (log : List Ev) (h : NoPollAfterFin log) : noPollAfterFinB log = true := by
  induction log with
  | nil => rfl
  | cons e rest ih =>
    have h' := List.pairwise_cons.mp h
    have ihr := ih h'.2
    cases e with
    | poll t => simp only [noPollAfterFinB, ihr]
    | noop t => simp only [noPollAfterFinB, ihr]
    | ret t b =>
      cases b with
      | false => simp only [noPollAfterFinB, ihr]
      | true =>
        simp only [noPollAfterFinB, ihr, Bool.and_true, Bool.not_eq_true']
        cases hc : rest.contains (Ev.poll t) with
        | false => rfl
        | true =>
          have hm := List.contains_iff_mem.mp hc
          exact absurd rfl ((h'.1 _ hm t rfl).1)

theorem bracketedB_of (log : List Ev) (h : Bracketed log) : bracketedB log = true := by
  obtain ⟨segs, rfl⟩ := h
  induction segs with
  | nil => rfl
  | cons sg rest ih =>
    cases sg with
    | noop t => simpa [List.flatMap_cons, Seg.events, bracketedB] using ih
    | polled t b => simpa [List.flatMap_cons, Seg.events, bracketedB] using ih

theorem relayB_of_inv {s : State} (hi : InvX false none s) : relayB s = true := by
  unfold relayB
  rw [List.all_eq_true]
  intro c hc
  have hc' : c < s.ntasks := List.mem_range.mp hc
  have hd := hi.deliv c
  have hs := hi.sync c hc'
  simp only [Bool.and_eq_true, beq_iff_eq]
  refine ⟨?_, ?_⟩
  · rw [hd]
  · cases hf : s.fut c with
    | none => simp [hs.mp hf]
    | some a =>
      cases hsent : (s.relay c).sent with
      | false => rfl
      | true => rw [hs.mpr hsent] at hf; cases hf

theorem checkB_of_inv {s : State} (hi : InvX false none s) (ht : TraceInv s) : checkB s = none := by
  have h2 : s.queue.all (· < s.ntasks) = true := by
    rw [List.all_eq_true]; intro x hx; simpa using hi.qlt x hx
  simp [checkB, nodupB_of_nodup _ hi.nodup, h2, noLostB_of_inv hi, stallB_of_inv hi,
    noPollAfterFinB_of _ ht.npaf, bracketedB_of _ ht.brack, relayB_of_inv hi, hi.nobad]

theorem fifoB_of_step (s : State) (r : State × Bool) (h : step s = some r) :
    fifoB s.queue r.1.queue = true := by
  obtain ⟨l, hl⟩ := step_queue s r h
  unfold fifoB
  rw [hl, List.isPrefixOf_iff_prefix]
  exact List.prefix_append _ _

/-! ### the checks of the Spec mean what they say (both directions) -/

theorem nodupB_iff (q : List Nat) : nodupB q = true ↔ q.Nodup := by
  constructor
  · intro h
    induction q with
    | nil => exact List.nodup_nil
    | cons a t ih =>
      simp only [nodupB, Bool.and_eq_true, Bool.not_eq_true'] at h
      refine List.nodup_cons.mpr ⟨?_, ih h.2⟩
      intro hm
      have := List.contains_iff_mem.mpr hm
      rw [h.1] at this; cases this
  · exact nodupB_of_nodup q

theorem fifoB_iff (a b : List Nat) : fifoB a b = true ↔ ∃ l, b = a.tail ++ l := by
  unfold fifoB
  rw [List.isPrefixOf_iff_prefix]
  constructor
  · rintro ⟨l, hl⟩; exact ⟨l, hl.symm⟩
  · rintro ⟨l, hl⟩; exact ⟨l, hl.symm⟩

theorem blockedB_iff (s : State) (t : Nat) (acts : Script) :
    blockedB s t acts = true ↔
      (∃ k rest, acts = .wait k :: rest ∧ t ∈ s.waiters k ∧ s.tokens k = 0) ∨
      (∃ c cs rest, acts = .join :: rest ∧ s.kids t = c :: cs ∧ s.relay c = .polled t ∧ (s.fut c).isSome = true) := by
  cases acts with
  | nil => simp [blockedB]
  | cons a rest =>
    cases a with
    | wait k => simp [blockedB, List.contains_iff_mem]
    | join =>
      cases hk : s.kids t with
      | nil => simp [blockedB, hk]
      | cons c cs => simp [blockedB, hk]
    | yield => simp [blockedB]
    | signal k => simp [blockedB]
    | spawn => simp [blockedB]
    | complete => simp [blockedB]

theorem noLostB_iff (s : State) :
    noLostB s = true ↔
      ∀ t acts, t < s.ntasks → s.fut t = some acts → t ∈ s.queue ∨ blockedB s t acts = true := by
  unfold noLostB
  rw [List.all_eq_true]
  constructor
  · intro h t acts ht hf
    have := h t (List.mem_range.mpr ht)
    rw [hf] at this
    simpa [List.contains_iff_mem] using this
  · intro h t ht
    cases hf : s.fut t with
    | none => rfl
    | some acts =>
      have := h t acts (List.mem_range.mp ht) hf
      simpa [List.contains_iff_mem] using this

theorem bracketedB_iff (log : List Ev) : bracketedB log = true ↔ Bracketed log := by
  constructor
  · intro h
    fun_induction bracketedB log with
    | case1 => exact ⟨[], rfl⟩
    | case2 t rest ih =>
      obtain ⟨segs, e⟩ := ih h
      exact ⟨.noop t :: segs, by simp [List.flatMap_cons, Seg.events, e]⟩
    | case3 t t' b rest ih =>
      simp only [Bool.and_eq_true, beq_iff_eq] at h
      obtain ⟨segs, e⟩ := ih h.2
      exact ⟨.polled t b :: segs, by simp [List.flatMap_cons, Seg.events, e, h.1]⟩
    | case4 => cases h
  · exact bracketedB_of log

/-- `noPollAfterFinB` is exactly: for positions `i < j`, `log[i] = ret t true` ⇒ `log[j] ≠ poll t` -/
theorem noPollAfterFinB_iff (log : List Ev) :
    noPollAfterFinB log = true ↔ log.Pairwise fun e e' => ∀ t, e = .ret t true → e' ≠ .poll t := by
  induction log with
  | nil => simp [noPollAfterFinB]
  | cons e rest ih =>
    rw [List.pairwise_cons, ← ih]
    cases e with
    | poll t => simp [noPollAfterFinB]
    | noop t => simp [noPollAfterFinB]
    | ret t b =>
      cases b with
      | false => simp [noPollAfterFinB]
      | true =>
        simp only [noPollAfterFinB, Bool.and_eq_true, Bool.not_eq_true']
        constructor
        · rintro ⟨h1, h2⟩
          refine ⟨?_, h2⟩
          intro e' he' t' ht'
          injection ht' with ht' _
          subst ht'
          intro e''
          subst e''
          have := List.contains_iff_mem.mpr he'
          rw [h1] at this; cases this
        · rintro ⟨h1, h2⟩
          refine ⟨?_, h2⟩
          cases hc : rest.contains (Ev.poll t) with
          | false => rfl
          | true => exact absurd rfl (h1 _ (List.contains_iff_mem.mp hc) t rfl)

theorem stallB_iff (s : State) :
    stallB s = true ↔
      (s.queue = [] → ∀ t acts, t < s.ntasks → s.fut t = some acts → blockedB s t acts = true) := by
  unfold stallB
  cases hq : s.queue with
  | cons a q => simp
  | nil =>
    simp only [List.isEmpty_nil, Bool.not_true, Bool.false_or, forall_const]
    rw [List.all_eq_true]
    constructor
    · intro h t acts ht hf
      have := h t (List.mem_range.mpr ht)
      rw [hf] at this
      exact this
    · intro h t ht
      cases hf : s.fut t with
      | none => rfl
      | some acts => exact h t acts (List.mem_range.mp ht) hf

theorem relayB_iff (s : State) :
    relayB s = true ↔
      ∀ c, c < s.ntasks → s.delivered c = (if s.relay c = .done then 1 else 0) ∧
        (s.fut c = none ↔ (s.relay c).sent = true) := by
  unfold relayB
  rw [List.all_eq_true]
  have key : ∀ c, (s.delivered c == (if s.relay c == .done then 1 else 0) &&
        ((s.fut c).isNone == (s.relay c).sent)) = true ↔
      (s.delivered c = (if s.relay c = .done then 1 else 0) ∧ (s.fut c = none ↔ (s.relay c).sent = true)) := by
    intro c
    simp only [Bool.and_eq_true, beq_iff_eq]
    constructor
    · rintro ⟨h1, h2⟩
      refine ⟨h1, ?_⟩
      cases hf : s.fut c with
      | none => rw [hf] at h2; simp at h2; simp [← h2]
      | some a => rw [hf] at h2; simp at h2; simp [← h2]
    · rintro ⟨h1, h2⟩
      refine ⟨h1, ?_⟩
      cases hf : s.fut c with
      | none => simp [h2.mp hf]
      | some a =>
        cases hs : (s.relay c).sent with
        | false => rfl
        | true => rw [h2.mpr hs] at hf; cases hf
  constructor
  · intro h c hc; exact (key c).mp (h c (List.mem_range.mpr hc))
  · intro h c hc; exact (key c).mpr (h c (List.mem_range.mp hc))

end YashModel.Executor
