/-
  C15 helper lemmas, part 4: the decidable checks of `Spec.lean` (what the driver evaluates on the
  model's own run) follow from the proved invariants.
-/
import YashModel.Executor.Steps
import YashModel.Executor.Spec
namespace YashModel.Executor

theorem nodupB_of_nodup (q : List Nat) (h : q.Nodup) : nodupB q = true := by
  induction q with
  | nil => rfl
  | cons a t ih =>
    have h' := List.nodup_cons.mp h
    simp only [nodupB, Bool.and_eq_true, Bool.not_eq_true', ih h'.2, and_true]
    cases hc : t.contains a with
    | false => rfl
    | true => exact absurd (List.contains_iff_mem.mp hc) h'.1

theorem blockedB_of_blocked {s : State} (hi : InvX none s) (t : Nat) (acts : Script)
    (hb : Blocked s t acts) : blockedB s t acts = true := by
  rcases hb with ⟨k, rest, rfl, hm, hz⟩ | ⟨c, cs, rest, rfl, hk, hr⟩
  · simp only [blockedB, Bool.and_eq_true, beq_iff_eq]
    exact ⟨List.contains_iff_mem.mpr hm, hz⟩
  · have hc : c < s.ntasks := (hi.kid t c (by rw [hk]; simp)).1
    have hs := hi.sync c hc
    rw [hr] at hs
    have hfc : (s.fut c).isSome = true := by
      cases hfc : s.fut c with
      | none => exact absurd (hs.mp hfc) (by simp [Relay.sent])
      | some _ => rfl
    simp only [blockedB, hk, hr, hfc, Bool.and_true, beq_self_eq_true]

theorem noLostB_of_inv {s : State} (hi : InvX none s) : noLostB s = true := by
  unfold noLostB
  rw [List.all_eq_true]
  intro t ht
  have ht' : t < s.ntasks := List.mem_range.mp ht
  cases hf : s.fut t with
  | none => rfl
  | some acts =>
    simp only [Bool.or_eq_true]
    rcases hi.live t acts ht' (by simp) hf with hq | hb
    · exact Or.inl (List.contains_iff_mem.mpr hq)
    · exact Or.inr (blockedB_of_blocked hi t acts hb)

theorem stallB_of_inv {s : State} (hi : InvX none s) : stallB s = true := by
  unfold stallB
  cases hq : s.queue with
  | cons a q => simp
  | nil =>
    simp only [List.isEmpty_nil, Bool.not_true, Bool.false_or]
    rw [List.all_eq_true]
    intro t ht
    have ht' : t < s.ntasks := List.mem_range.mp ht
    cases hf : s.fut t with
    | none => rfl
    | some acts =>
      rcases hi.live t acts ht' (by simp) hf with hm | hb
      · rw [hq] at hm; cases hm
      · exact blockedB_of_blocked hi t acts hb

theorem noPollAfterFinB_of (log : List Ev) (h : NoPollAfterFin log) : noPollAfterFinB log = true := by
  induction log with
  | nil => rfl
  | cons e rest ih =>
    have h' := List.pairwise_cons.mp h
    have ihr := ih h'.2
    cases e with
    | poll t => simp only [noPollAfterFinB, ihr]
    | noop t => simp only [noPollAfterFinB, ihr]
    | ret t b =>
      cases b with
      | false => simp only [noPollAfterFinB, ihr]
      | true =>
        simp only [noPollAfterFinB, ihr, Bool.and_true, Bool.not_eq_true']
        cases hc : rest.contains (Ev.poll t) with
        | false => rfl
        | true =>
          have hm := List.contains_iff_mem.mp hc
          exact absurd rfl ((h'.1 _ hm t rfl).1)

theorem bracketedB_of (log : List Ev) (h : Bracketed log) : bracketedB log = true := by
  obtain ⟨segs, rfl⟩ := h
  induction segs with
  | nil => rfl
  | cons sg rest ih =>
    cases sg with
    | noop t => simpa [List.flatMap_cons, Seg.events, bracketedB] using ih
    | polled t b => simpa [List.flatMap_cons, Seg.events, bracketedB] using ih

theorem relayB_of_inv {s : State} (hi : InvX none s) : relayB s = true := by
  unfold relayB
  rw [List.all_eq_true]
  intro c hc
  have hc' : c < s.ntasks := List.mem_range.mp hc
  have hd := hi.deliv c
  have hs := hi.sync c hc'
  simp only [Bool.and_eq_true, beq_iff_eq]
  refine ⟨?_, ?_⟩
  · rw [hd]
  · cases hf : s.fut c with
    | none => simp [hs.mp hf]
    | some a =>
      cases hsent : (s.relay c).sent with
      | false => rfl
      | true => rw [hs.mpr hsent] at hf; cases hf

theorem checkB_of_inv {s : State} (hi : InvX none s) (ht : TraceInv s) : checkB s = none := by
  have h2 : s.queue.all (· < s.ntasks) = true := by
    rw [List.all_eq_true]; intro x hx; simpa using hi.qlt x hx
  simp [checkB, nodupB_of_nodup _ hi.nodup, h2, noLostB_of_inv hi, stallB_of_inv hi,
    noPollAfterFinB_of _ ht.npaf, bracketedB_of _ ht.brack, relayB_of_inv hi, hi.nobad]

theorem fifoB_of_step (s : State) (r : State × Bool) (h : step s = some r) :
    fifoB s.queue r.1.queue = true := by
  obtain ⟨l, hl⟩ := step_queue s r h
  unfold fifoB
  rw [hl, List.isPrefixOf_iff_prefix]
  exact List.prefix_append _ _

end YashModel.Executor
