/-
  Impl model of the reference counting of `Rc<Task>` that `yash-executor/src/waker.rs` implements by hand (the
  raw waker vtable: `clone`, `wake`, `wake_by_ref`, `drop`, `into_waker`), together with the places of
  task.rs / executor.rs that create, move and drop `Rc<Task>` handles (`Task::wake(self: Rc<Self>)`,
  `Task::poll`'s `into_waker(Rc::clone(self))`, `Executor::step`'s local `task`, `ExecutorState::enqueue*`'s
  `Rc::new`).  Wave 3: until now the model only had the *derived* count `refs` (queue entries + registered
  wakers + relay-held wakers); here the count is the one the code maintains, operation by operation.

  Imports only `Model.lean`; executable.  `RState` = the task system of Model.lean plus
  * `strong t` — `Rc::strong_count` of the task, changed ONLY by `incStrong` (`Rc::increment_strong_count`,
    `Rc::clone`), `decStrong` (`Rc::decrement_strong_count`, dropping an `Rc`) and `Rc::new`,
  * ghost `wk t` — how many `Waker`s (raw pointers with this vtable) of task `t` exist,
  * ghost `loc t` — how many `Rc<Task>` handles of `t` are in local variables right now,
  * `under` — a count that was zero has been decremented (= a freed task was touched: use after free / double free),
  * ghost `gunder` — the instrumentation consumed a `Waker` / local handle that does not exist, or made one for a
    task id that does not exist (Rust's ownership rules exclude both statically; the driver checks the flag on
    every case).
  Every function below runs the corresponding function of Model.lean on the `s` component (`RcLemmas.lean`:
  projection theorems) and the counting beside it.
-/
import YashModel.Executor.Model
namespace YashModel.Executor.Rc

structure RState where
  s : State
  strong : Nat → Nat := fun _ => 0
  wk : Nat → Nat := fun _ => 0
  loc : Nat → Nat := fun _ => 0
  under : Bool := false
  gunder : Bool := false
  /-- `Weak::upgrade` of `Task::executor` fails: the executor has been dropped -/
  dead : Bool := false
  /-- ghost: the vtable calls the TEST FUTURES and the outside operations make (not those of yash-executor itself),
      in order, as `4·task + kind` (kind 0 `clone`, 1 `wake`, 2 `wake_by_ref`, 3 `drop`); the harness logs the same
      calls where it makes them and both sides print length and a hash, so which entry is called where is observed -/
  vlog : List Nat := []

/-- ghost: the caller (a test future, an outside operation) made these vtable calls -/
def lg (r : RState) (cs : List Nat) : RState := { r with vlog := r.vlog ++ cs }

/-- codes of the four vtable entries for task `t` -/
def cClone (t : Nat) : Nat := 4 * t
def cWake (t : Nat) : Nat := 4 * t + 1
def cRef (t : Nat) : Nat := 4 * t + 2
def cDrop (t : Nat) : Nat := 4 * t + 3

/-- `Rc::increment_strong_count` / `Rc::clone` -/
def incStrong (r : RState) (t : Nat) : RState := { r with strong := upd r.strong t (r.strong t + 1) }

/-- `Rc::decrement_strong_count` / dropping an `Rc<Task>` -/
def decStrong (r : RState) (t : Nat) : RState :=
  if r.strong t = 0 then { r with under := true } else { r with strong := upd r.strong t (r.strong t - 1) }

/-- ghost: a `Waker` of `t` comes into existence / is consumed -/
def wkUp (r : RState) (t : Nat) : RState :=
  if t < r.s.ntasks then { r with wk := upd r.wk t (r.wk t + 1) } else { r with gunder := true }
def wkDown (r : RState) (t : Nat) : RState :=
  if r.wk t = 0 then { r with gunder := true } else { r with wk := upd r.wk t (r.wk t - 1) }

/-- ghost: a local `Rc<Task>` handle of `t` comes into existence / is moved away or dropped -/
def locUp (r : RState) (t : Nat) : RState :=
  if t < r.s.ntasks then { r with loc := upd r.loc t (r.loc t + 1) } else { r with gunder := true }
def locDown (r : RState) (t : Nat) : RState :=
  if r.loc t = 0 then { r with gunder := true } else { r with loc := upd r.loc t (r.loc t - 1) }

/-- waker.rs `clone`: `Rc::increment_strong_count(data)`, a new `RawWaker` on the same pointer -/
def vtClone (r : RState) (t : Nat) : RState := wkUp (incStrong r t) t

/-- task.rs `Task::wake(self: Rc<Self>)`: executor gone → return (drops `self`); already queued → return
    (drops `self`); else `push_back(self)` (the handle moves into the queue) -/
def taskWake (r : RState) (t : Nat) : RState :=
  if r.dead then locDown (decStrong r t) t
  else if t ∈ r.s.queue then locDown (decStrong r t) t
  else locDown { r with s := wake r.s t } t

/-- waker.rs `wake`: `Rc::from_raw(data).wake()` — the waker's own count becomes the handle -/
def vtWake (r : RState) (t : Nat) : RState := taskWake (locUp (wkDown r t) t) t

/-- waker.rs `wake_by_ref`: `Rc::increment_strong_count(data); Rc::from_raw(data).wake()` -/
def vtWakeByRef (r : RState) (t : Nat) : RState := taskWake (locUp (incStrong r t) t) t

/-- waker.rs `drop`: `Rc::decrement_strong_count(data)` -/
def vtDrop (r : RState) (t : Nat) : RState := wkDown (decStrong r t) t

/-- waker.rs `into_waker(task: Rc<Task>)`: `Rc::into_raw` — the handle becomes the waker, no count changes -/
def intoWaker (r : RState) (t : Nat) : RState := wkUp (locDown r t) t

/-- `Rc::clone(self)` into a local -/
def rcClone (r : RState) (t : Nat) : RState := locUp (incStrong r t) t

/-- executor.rs `ExecutorState::enqueue_forwarding` / `enqueue`: `push_back(Rc::new(task))` -/
def rNew (r : RState) (own : Nat) (sc : Script) : RState :=
  { r with s := spawnNew r.s own sc, strong := upd r.strong r.s.ntasks 1 }

/-! ### the test futures' side (what `harness/src/bin/c15.rs` does with the wakers it is given) -/

/-- a `Waker` held by a channel is woken by value (`signal`, drain mode: `std::mem::take` + `wk.wake()`) -/
def wakeAllVal (r : RState) (ws : List Nat) : RState := ws.foldl (fun r w => lg (vtWake r w) [cWake w]) r

/-- sticky mode: `waiters.clone()` (every waker cloned), `wake_by_ref` on each clone, clones dropped -/
def wakeAllRef (r : RState) (ws : List Nat) : RState :=
  ws.foldl (fun r t => lg (vtDrop (vtWakeByRef (vtClone r t) t) t) [cClone t, cRef t, cDrop t]) r

/-- action `signal k` -/
def rSignal (r : RState) (k : Nat) : RState :=
  let r1 : RState := { r with s := { r.s with tokens := upd r.s.tokens k (r.s.tokens k + 1) } }
  if r.s.sticky then wakeAllRef r1 (r.s.waiters k)
  else
    let r2 := wakeAllVal r1 (r.s.waiters k)
    { r2 with s := { r2.s with waiters := upd r2.s.waiters k [] } }

/-- action `spawn` of task `t` -/
def rSpawnChild (r : RState) (t : Nat) : RState :=
  match r.s.pool with
  | [] => r
  | sc :: rest =>
    let r1 := rNew { r with s := { r.s with pool := rest } } t sc
    { r1 with s := { r1.s with kids := upd r1.s.kids t (r1.s.kids t ++ [r.s.ntasks]) } }

/-- forwarder.rs `Sender::send` into the relay of `t`: a stored waker is taken out and woken by value -/
def rSend (r : RState) (t v : Nat) : RState :=
  match r.s.relay t with
  | .pending => { r with s := { r.s with relay := upd r.s.relay t (.computed v) } }
  | .polled w => vtWake { r with s := { r.s with relay := upd r.s.relay t (.computed v) } } w
  | _ => { r with s := { r.s with bad := true } }

/-- The future of task `t` inside one poll, with the counting: `runActs` of Model.lean plus what happens to
    the wakers (`cx.waker()` is the waker `Task::poll` made). -/
def rRunActs (t : Nat) : Script → RState → RState × Option Script
  | [], r => (r, none)
  | .complete :: _, r => (r, none)
  | .yield :: rest, r =>
    -- `cx.waker().wake_by_ref(); cx.waker().clone().wake()`
    (lg (vtWake (vtClone (vtWakeByRef r t) t) t) [cRef t, cClone t, cWake t], some rest)
  | .wait k :: rest, r =>
    if 0 < r.s.tokens k then
      rRunActs t rest { r with s := { r.s with tokens := upd r.s.tokens k (r.s.tokens k - 1) } }
    else
      -- `waiters[k].push(cx.waker().clone())`
      let r1 := vtClone r t
      (lg { r1 with s := { r1.s with waiters := upd r1.s.waiters k (r1.s.waiters k ++ [t]) } } [cClone t],
       some (.wait k :: rest))
  | .signal k :: rest, r => rRunActs t rest (rSignal r k)
  | .spawn :: rest, r => rRunActs t rest (rSpawnChild r t)
  | .join :: rest, r =>
    match r.s.kids t with
    | [] => rRunActs t rest r
    | c :: cs =>
      match r.s.relay c with
      | .computed v =>
        rRunActs t rest { r with s := { r.s with
          relay := upd r.s.relay c .done
          kids := upd r.s.kids t cs
          acc := upd r.s.acc t (r.s.acc t + v)
          delivered := upd r.s.delivered c (r.s.delivered c + 1)
          recv := upd r.s.recv c (r.s.recv c ++ [v]) } }
      | .done => ({ r with s := { r.s with bad := true } }, some (.join :: rest))
      | .pending =>
        -- `*relay = Relay::Polled(context.waker().clone())`
        let r1 := vtClone r t
        ({ r1 with s := { r1.s with relay := upd r1.s.relay c (.polled t) } }, some (.join :: rest))
      | .polled w =>
        -- the same assignment drops the waker stored before
        let r1 := vtDrop (vtClone r t) w
        ({ r1 with s := { r1.s with relay := upd r1.s.relay c (.polled t) } }, some (.join :: rest))

/-- the wrapper future of `enqueue_forwarding` after `Ready` -/
def rComplete (r : RState) (t : Nat) : RState :=
  let r1 := rSend r t (value r.s t)
  { r1 with s := { r1.s with fut := upd r1.s.fut t none, ret := upd r1.s.ret t (some (value r.s t)) } }

def rPollDone (x : RState × Option Script) (t : Nat) : RState × Bool :=
  match x.2 with
  | some rest => ({ x.1 with s := logEv { x.1.s with fut := upd x.1.s.fut t (some rest) } (.ret t false) }, false)
  | none => let r1 := rComplete x.1 t; ({ r1 with s := logEv r1.s (.ret t true) }, true)

/-- `let waker = into_waker(Rc::clone(self));` (and the ghost trace event of Model.lean `poll`) -/
def rEnter (r : RState) (t : Nat) : RState :=
  let r0 := intoWaker (rcClone r t) t
  { r0 with s := logEv r0.s (.poll t) }

/-- task.rs `Task::poll(self: &Rc<Self>)`: `let waker = into_waker(Rc::clone(self));` … the waker is dropped
    when `poll` returns -/
def rPoll (r : RState) (t : Nat) : RState × Bool :=
  match r.s.fut t with
  | none => ({ r with s := logEv r.s (.noop t) }, true)
  | some acts =>
    let x := rPollDone (rRunActs t acts (rEnter r t)) t
    (vtDrop x.1 t, x.2)

/-- executor.rs `Executor::step`: `let task = …pop_front()?; Some(task.poll())` — the popped handle is a local
    of `step` and is dropped when `step` returns -/
def rStep (r : RState) : Option (RState × Bool) :=
  match r.s.queue with
  | [] => none
  | t :: q =>
    let x := rPoll (locUp { r with s := { r.s with queue := q } } t) t
    some (locDown (decStrong x.1 t) t, x.2)

def rStepN : Nat → RState → RState
  | 0, r => r
  | n + 1, r =>
    match rStep r with
    | none => r
    | some x => rStepN n x.1

def rSpawnRoots : List Script → RState → RState
  | [], r => r
  | sc :: rest, r => rSpawnRoots rest (rNew r r.s.ntasks sc)

def rInit (sticky : Bool) (scripts : List Script) (roots : Nat) : RState :=
  rSpawnRoots (scripts.take roots) { s := { pool := scripts.drop roots, sticky := sticky } }

/-- dropping the executor drops the queue: every entry is an `Rc<Task>` -/
def rDropExec (r : RState) : RState :=
  let r1 := r.s.queue.foldl decStrong r
  { r1 with s := { r1.s with queue := [] }, dead := true }

/-- one operation of a `v` case (Model.lean `xRun`), with the counting -/
def rRun (r : RState) : XOp → RState
  | .step => if r.dead then r else rStepN 1 r
  | .rus => if r.dead then r else rStepN maxSteps r
  | .wake k i =>
    match (r.s.waiters k)[i]? with
    | none => r
    | some t => lg (vtWake { r with s := { r.s with waiters := upd r.s.waiters k ((r.s.waiters k).eraseIdx i) } } t) [cWake t]
  | .byRef k i =>
    match (r.s.waiters k)[i]? with
    | none => r
    | some t => lg (vtWakeByRef r t) [cRef t]
  | .clone k i =>
    match (r.s.waiters k)[i]? with
    | none => r
    | some t =>
      let r1 := vtClone r t
      lg { r1 with s := { r1.s with waiters := upd r1.s.waiters k (r1.s.waiters k ++ [t]) } } [cClone t]
  | .drop k i =>
    match (r.s.waiters k)[i]? with
    | none => r
    | some t => lg (vtDrop { r with s := { r.s with waiters := upd r.s.waiters k ((r.s.waiters k).eraseIdx i) } } t) [cDrop t]
  | .signal k => rSignal r k
  | .dropExec => if r.dead then r else rDropExec r
  | .try_ c => if c < r.s.ntasks && !heldByParent r.s c then { r with s := takeValue r.s c } else r
  | .spawn =>
    match r.s.pool with
    | [] => r
    | sc :: rest => if r.dead then r else rNew { r with s := { r.s with pool := rest } } r.s.ntasks sc

def rRunAll (r : RState) (ops : List XOp) : RState := ops.foldl rRun r

/-- the accounting identity: every unit of the strong count is a queue entry, a live `Waker`, or a local handle -/
def balB (r : RState) : Bool :=
  (List.range r.s.ntasks).all fun t => r.strong t == r.s.queue.count t + r.wk t + r.loc t

/-- length and hash of the logged vtable calls, as the harness prints them -/
def vlogDigest (l : List Nat) : String :=
  s!"{l.length}#{l.foldl (fun h c => (h * 131 + c + 1) % 1000000007) 7}"

/-- at an operation boundary: the count the code maintains is the derived count `refs` of Model.lean (so the
    task is freed exactly when `lostB` says), no local handle is left, nothing was decremented at zero -/
def rcCheck (r : RState) (nch : Nat) : Option String :=
  if r.under then some "rc-decrement-at-zero"
  else if r.gunder then some "rc-ghost-underflow"
  else if !balB r then some "rc-unbalanced"
  else if !(List.range r.s.ntasks).all (fun t => r.loc t == 0) then some "rc-local-left"
  else if !(List.range r.s.ntasks).all (fun t => r.strong t == refs r.s nch t) then some "rc-not-refs"
  else none

end YashModel.Executor.Rc
