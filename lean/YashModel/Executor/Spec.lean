/-
  Spec for C15: the clauses of the property text as decidable checks on one state at a step boundary
  of the executor (evaluated by the driver on the model's own run after every step), and on the trace
  of polls.

  Property text: "… polls a task again whenever it has been woken since it last returned pending …,
  never polls a task after it completed or re-entrantly, queues a task at most once however often it is
  woken, lets no woken task be starved …, and delivers each spawned task's result to its receiver
  exactly once.  When the run loop stalls, every unfinished task is genuinely waiting for a wake-up
  that has not happened."
-/
import YashModel.Executor.Model
namespace YashModel.Executor

/-- "queues a task at most once" -/
def nodupB : List Nat → Bool
  | [] => true
  | a :: t => !t.contains a && nodupB t

/-- task `t`, whose future still has `acts` to do, waits for a wake-up that has not happened:
    it is registered with a channel that has no token, or its waker is stored in the relay of a child
    whose result has not been sent -/
def blockedB (s : State) (t : Nat) (acts : Script) : Bool :=
  match acts with
  | .wait k :: _ => (s.waiters k).contains t && s.tokens k == 0
  | .join :: _ =>
    match s.kids t with
    | c :: _ => s.relay c == .polled t && (s.fut c).isSome
    | [] => false
  | _ => false

/-- "no lost wake-up": every unfinished task is in the queue or blocked -/
def noLostB (s : State) : Bool :=
  (List.range s.ntasks).all fun t =>
    match s.fut t with
    | none => true
    | some acts => s.queue.contains t || blockedB s t acts

/-- "when the run loop stalls, every unfinished task is genuinely waiting" -/
def stallB (s : State) : Bool :=
  !s.queue.isEmpty ||
  (List.range s.ntasks).all fun t =>
    match s.fut t with
    | none => true
    | some acts => blockedB s t acts

/-- "never polls a task after it completed": no `poll t` after `ret t true` -/
def noPollAfterFinB : List Ev → Bool
  | [] => true
  | .ret t true :: rest => !rest.contains (.poll t) && noPollAfterFinB rest
  | _ :: rest => noPollAfterFinB rest

/-- "never … re-entrantly": the trace is a sequence of `noop _` and adjacent pairs `poll t, ret t _` -/
def bracketedB : List Ev → Bool
  | [] => true
  | .noop _ :: rest => bracketedB rest
  | .poll t :: .ret t' _ :: rest => t == t' && bracketedB rest
  | _ => false

/-- "delivers each spawned task's result to its receiver exactly once": the value of a task has been
    handed out once if its relay is `Done` and never otherwise; a sent relay belongs to a finished
    task and an unsent one to an unfinished task -/
def relayB (s : State) : Bool :=
  (List.range s.ntasks).all fun c =>
    s.delivered c == (if s.relay c == .done then 1 else 0) &&
    ((s.fut c).isNone == (s.relay c).sent)

/-- everything that must hold at a step boundary -/
def checkB (s : State) : Option String :=
  if !nodupB s.queue then some "queue-dup"
  else if !s.queue.all (· < s.ntasks) then some "queue-unknown-task"
  else if !noLostB s then some "lost-wakeup"
  else if !stallB s then some "stalled-not-waiting"
  else if !noPollAfterFinB s.log then some "poll-after-complete"
  else if !bracketedB s.log then some "reentrant-poll"
  else if !relayB s then some "relay-not-once"
  else if s.bad then some "panic-branch"
  else none

/-- FIFO bound, checked on a run: the ids in the queue before a step are, after the step, the same
    ids shifted by one position (nothing overtakes) -/
def fifoB (before after : List Nat) : Bool :=
  before.tail.isPrefixOf after

/-! ### termination of the run loop: a bound on the number of `Executor::step` calls until the stall -/

/-- what the future in a slot still has to do: one unit per action plus one for returning `Ready`;
    an emptied slot has nothing left -/
def wtOpt : Option Script → Nat
  | none => 0
  | some acts => acts.length + 1

/-- work left in the slots of the tasks created so far -/
def futW (s : State) : Nat := ((List.range s.ntasks).map fun u => wtOpt (s.fut u)).sum

/-- work left in the scripts that have not been spawned yet -/
def poolW (s : State) : Nat := (s.pool.map fun sc => sc.length + 1).sum

/-- all the work left: it never grows, and a poll that leaves it unchanged leaves the queue one shorter -/
def work (s : State) : Nat := futW s + poolW s

/-- the number of tasks that can ever exist (the queue never gets longer than this: no duplicates) -/
def cap (s : State) : Nat := s.ntasks + s.pool.length

/-- `while let Some(_) = self.step() {}` of `Executor::run_until_stalled` ends after at most this many
    iterations -/
def stallBound (s : State) : Nat := work s * (cap s + 1) + s.queue.length

end YashModel.Executor
