/-
  C15 helper lemmas, part 5: wake-ups, signals, spawns and waker clones issued from outside any poll
  keep the invariants (`ReachableX`), and the invariant of the forwarder alone under every sequence of
  send / receive / drop operations.
-/
import YashModel.Executor.Steps
namespace YashModel.Executor

variable {ab : Bool}

/-- States reachable when, between the steps of the executor, anybody holding a waker or the executor may
    wake a task, signal a channel, spawn a new root, clone a registered waker, or take a registered
    waker and wake it. -/
inductive ReachableX : State → Prop
  | init (sticky : Bool) (scripts : List Script) (roots : Nat) : ReachableX (init sticky scripts roots)
  | step {s : State} {r : State × Bool} : ReachableX s → step s = some r → ReachableX r.1
  | wake {s : State} (t : Nat) : ReachableX s → t < s.ntasks → ReachableX (wake s t)
  | signal {s : State} (k : Nat) : ReachableX s → ReachableX (signal s k)
  | spawn {s : State} (sc : Script) : ReachableX s → ReachableX (spawnNew s s.ntasks sc)
  | clone {s : State} (k t : Nat) : ReachableX s → t ∈ s.waiters k →
      ReachableX { s with waiters := upd s.waiters k (s.waiters k ++ [t]) }
  | take {s : State} (k i t : Nat) : ReachableX s → (s.waiters k)[i]? = some t →
      ReachableX (wake { s with waiters := upd s.waiters k ((s.waiters k).eraseIdx i) } t)

theorem inv_cloneWaker {r : Option Nat} {s : State} (h : InvX ab r s) (k t : Nat) (ht : t ∈ s.waiters k) :
    InvX ab r { s with waiters := upd s.waiters k (s.waiters k ++ [t]) } := by
  refine ⟨h.nodup, h.qlt, ?_, h.plt, h.kid, h.knodup, h.kdone, h.sync, h.fresh, h.deliv, ?_, h.run,
    h.nobad⟩
  · intro k' x hx
    by_cases e : k' = k
    · subst e
      simp [upd_apply] at hx
      rcases hx with hx | rfl
      · exact h.wlt _ x hx
      · exact h.wlt _ _ ht
    · simp [upd_apply, e] at hx
      exact h.wlt k' x hx
  · intro t' acts hab ht' hr hf
    rcases h.live t' acts hab ht' hr hf with hq | hb
    · exact Or.inl hq
    · right
      rcases hb with ⟨k', rest, e, hm, h0⟩ | hj
      · left
        refine ⟨k', rest, e, ?_, h0⟩
        by_cases e' : k' = k
        · subst e'; simp [upd_apply, hm]
        · simp [upd_apply, e', hm]
      · exact Or.inr hj

theorem inv_takeWaker {s : State} (h : InvX ab none s) (k i t : Nat) (ht : (s.waiters k)[i]? = some t) :
    InvX ab none (wake { s with waiters := upd s.waiters k ((s.waiters k).eraseIdx i) } t) := by
  have htm : t ∈ s.waiters k := List.mem_of_getElem? ht
  have htl : t < s.ntasks := h.wlt k t htm
  have h1 : InvX ab none (wake s t) := inv_wake h t htl
  refine ⟨h1.nodup, h1.qlt, ?_, h1.plt, h1.kid, h1.knodup, h1.kdone, h1.sync, h1.fresh, h1.deliv, ?_,
    h1.run, h1.nobad⟩
  · intro k' x hx
    have hx' : x ∈ upd s.waiters k ((s.waiters k).eraseIdx i) k' := hx
    by_cases e : k' = k
    · subst e
      simp only [upd_apply, if_true] at hx'
      exact h.wlt _ x (List.mem_of_mem_eraseIdx hx')
    · simp only [upd_apply, e, if_false] at hx'
      exact h.wlt k' x hx'
  · intro t' acts hab ht' hr hf
    show t' ∈ enq s.queue t ∨ _
    by_cases et : t' = t
    · subst et; exact Or.inl (mem_enq_self _ _)
    · rcases h.live t' acts hab ht' hr hf with hq | hb
      · exact Or.inl (mem_enq_of_mem _ _ _ hq)
      · right
        rcases hb with ⟨k', rest, e, hm, h0⟩ | hj
        · left
          refine ⟨k', rest, e, ?_, h0⟩
          show t' ∈ upd s.waiters k ((s.waiters k).eraseIdx i) k'
          by_cases e' : k' = k
          · subst e'
            simp only [upd_apply, if_true]
            obtain ⟨j, hj, hjt⟩ := List.getElem_of_mem hm
            rw [List.mem_eraseIdx_iff_getElem?]
            refine ⟨j, ?_, by rw [List.getElem?_eq_getElem hj, hjt]⟩
            intro eji
            subst eji
            rw [List.getElem?_eq_getElem hj, hjt] at ht
            injection ht with ht
            exact et ht
          · simp only [upd_apply, e', if_false]; exact hm
        · exact Or.inr hj

/-- the trace invariant only looks at `log`, `fut`, `ntasks` -/
theorem trace_frame {s s' : State} (h : TraceInv s) (hl : s'.log = s.log) (hn : s.ntasks ≤ s'.ntasks)
    (hf : ∀ x, x < s.ntasks → s'.fut x = s.fut x) : TraceInv s' := by
  refine ⟨hl ▸ h.brack, hl ▸ h.npaf, ?_, ?_⟩
  · intro t hm
    rw [hl] at hm
    rw [hf t (h.lt _ hm)]
    exact h.fin t hm
  · intro e he
    rw [hl] at he
    exact Nat.lt_of_lt_of_le (h.lt e he) hn

theorem reachableX_inv {s : State} (h : ReachableX s) : InvX false none s ∧ TraceInv s := by
  induction h with
  | init sticky scripts roots => exact ⟨inv_init _ _ _, trace_init _ _ _⟩
  | step _ hs ih => exact ⟨inv_step ih.1 _ hs, trace_step ih.1 ih.2 _ hs⟩
  | wake t _ ht ih => exact ⟨inv_wake ih.1 t ht, trace_frame ih.2 rfl (Nat.le_refl _) (fun _ _ => rfl)⟩
  | @signal s k _ ih =>
    have hf := frame_signal s k
    exact ⟨inv_signal ih.1 k, trace_frame ih.2 hf.1 hf.2.1 hf.2.2⟩
  | @spawn s sc _ ih =>
    refine ⟨inv_spawnRoot ih.1 sc, trace_frame ih.2 rfl (Nat.le_succ _) ?_⟩
    intro x hx
    show upd s.fut s.ntasks (some sc) x = s.fut x
    have : x ≠ s.ntasks := by omega
    simp [upd_apply, this]
  | clone k t _ ht ih =>
    exact ⟨inv_cloneWaker ih.1 k t ht, trace_frame ih.2 rfl (Nat.le_refl _) (fun _ _ => rfl)⟩
  | take k i t _ ht ih =>
    exact ⟨inv_takeWaker ih.1 k i t ht, trace_frame ih.2 rfl (Nat.le_refl _) (fun _ _ => rfl)⟩

theorem stepN_reachableX (n : Nat) {s : State} (h : ReachableX s) : ReachableX (stepN n s) := by
  induction n generalizing s with
  | zero => exact h
  | succ n ih =>
    simp only [stepN]
    cases hs : step s with
    | none => exact h
    | some r => exact ih (.step h hs)

/-! ### reference counts -/

theorem le_sum_of_mem (l : List Nat) (x : Nat) (h : x ∈ l) : x ≤ l.sum := by
  induction l with
  | nil => cases h
  | cons a t ih =>
    rcases List.mem_cons.mp h with rfl | h'
    · simp
    · have := ih h'; simp; omega

/-- under the invariant, an unfinished task is referenced: by the queue, by a waker registered with a
    channel, or by the waker stored in a relay -/
theorem refs_pos {s : State} (hi : InvX false none s) (nch t : Nat) (acts : Script) (ht : t < s.ntasks)
    (hf : s.fut t = some acts) (hch : ∀ k, t ∈ s.waiters k → k < nch) : 0 < refs s nch t := by
  unfold refs
  rcases hi.live t acts rfl ht (by simp) hf with hq | hb
  · have : 0 < s.queue.count t := List.count_pos_iff.mpr hq
    omega
  · rcases hb with ⟨k, rest, _, hm, _⟩ | ⟨c, cs, rest, _, hk, hr⟩
    · have h1 : 0 < (s.waiters k).count t := List.count_pos_iff.mpr hm
      have h2 : (s.waiters k).count t ∈ (List.range nch).map fun k => (s.waiters k).count t :=
        List.mem_map.mpr ⟨k, List.mem_range.mpr (hch k hm), rfl⟩
      have := le_sum_of_mem _ _ h2
      omega
    · have hc : c < s.ntasks := (hi.kid t c (by rw [hk]; simp)).1
      have hm : c ∈ (List.range s.ntasks).filter fun c => s.relay c == .polled t :=
        List.mem_filter.mpr ⟨List.mem_range.mpr hc, by simp [hr]⟩
      have := List.length_pos_of_mem hm
      omega

/-! ### the forwarder alone -/

/-- invariant of a sender/receiver pair under every order of operations -/
structure FInv (f : FState) : Prop where
  unsent : f.tx = true → f.relay.sent = false
  nobad : f.bad = false
  got : f.got = if f.relay = .done then [7] else []
  val : ∀ v, f.relay = .computed v → v = 7
  wakes : f.nwakes ≤ 1
  nowake : f.tx = true → f.nwakes = 0
  each : ∀ w, f.woken w ≤ f.nwakes

theorem finv_init : FInv {} :=
  ⟨fun _ => rfl, rfl, rfl, fun v h => (by cases h), (by decide), fun _ => rfl, fun _ => Nat.le_refl _⟩

theorem finv_step (f : FState) (op : FOp) (h : FInv f) : FInv (fstep f op).1 := by
  obtain ⟨h1, h2, h3, h4, h5, h6, h7⟩ := h
  cases op <;> cases htx : f.tx <;> cases hrx : f.rx <;> cases hrel : f.relay <;>
    simp only [htx, hrx, hrel, Relay.sent] at h1 h3 h4 h6 <;>
    refine ⟨?_, ?_, ?_, ?_, ?_, ?_, ?_⟩ <;>
    simp_all [fstep, relaySend, tryReceive, recvPoll, Relay.sent] <;>
    (try (intro w'; have := h7 w'; split <;> omega))

theorem finv_run (ops : List FOp) (f : FState) (h : FInv f) : FInv (frun f ops) := by
  induction ops generalizing f with
  | nil => exact h
  | cons op ops ih => exact ih _ (finv_step f op h)

end YashModel.Executor
