/-
  C15 helper lemmas, part 1: the queue operations (`enq`, folds of `enq`), point updates, and the
  "queue only grows at the back" relation used by the FIFO bound.
-/
import YashModel.Executor.Model
namespace YashModel.Executor

@[simp] theorem upd_apply {α : Type} (f : Nat → α) (k : Nat) (v : α) (j : Nat) :
    upd f k v j = if j = k then v else f j := rfl

theorem upd_same {α : Type} (f : Nat → α) (k : Nat) (v : α) : upd f k v k = v := by simp

theorem upd_other {α : Type} (f : Nat → α) (k : Nat) (v : α) (j : Nat) (h : j ≠ k) :
    upd f k v j = f j := by simp [h]

/-! ### `enq` = `Task::wake` on the queue -/

theorem mem_enq_iff (q : List Nat) (t x : Nat) : x ∈ enq q t ↔ x ∈ q ∨ x = t := by
  unfold enq
  by_cases h : t ∈ q
  · simp only [h, if_true]
    constructor
    · intro hx; exact Or.inl hx
    · rintro (hx | rfl)
      · exact hx
      · exact h
  · simp [h]

theorem mem_enq_self (q : List Nat) (t : Nat) : t ∈ enq q t := (mem_enq_iff q t t).mpr (Or.inr rfl)

theorem mem_enq_of_mem (q : List Nat) (t x : Nat) (h : x ∈ q) : x ∈ enq q t :=
  (mem_enq_iff q t x).mpr (Or.inl h)

theorem nodup_enq (q : List Nat) (t : Nat) (h : q.Nodup) : (enq q t).Nodup := by
  unfold enq
  by_cases ht : t ∈ q
  · simp [ht, h]
  · simp only [ht, if_false]
    rw [List.nodup_append]
    refine ⟨h, by simp, ?_⟩
    intro a ha b hb
    simp at hb
    subst hb
    intro e
    exact ht (e ▸ ha)

theorem enq_ext (q : List Nat) (t : Nat) : ∃ l, enq q t = q ++ l := by
  unfold enq
  by_cases ht : t ∈ q
  · exact ⟨[], by simp [ht]⟩
  · exact ⟨[t], by simp [ht]⟩

theorem mem_foldl_enq (ws q : List Nat) (x : Nat) : x ∈ ws.foldl enq q ↔ x ∈ q ∨ x ∈ ws := by
  induction ws generalizing q with
  | nil => simp
  | cons w ws ih =>
    simp only [List.foldl_cons, ih, mem_enq_iff, List.mem_cons]
    constructor
    · rintro ((h | h) | h)
      · exact Or.inl h
      · exact Or.inr (Or.inl h)
      · exact Or.inr (Or.inr h)
    · rintro (h | h | h)
      · exact Or.inl (Or.inl h)
      · exact Or.inl (Or.inr h)
      · exact Or.inr h

theorem nodup_foldl_enq (ws q : List Nat) (h : q.Nodup) : (ws.foldl enq q).Nodup := by
  induction ws generalizing q with
  | nil => exact h
  | cons w ws ih => exact ih _ (nodup_enq q w h)

theorem foldl_enq_ext (ws q : List Nat) : ∃ l, ws.foldl enq q = q ++ l := by
  induction ws generalizing q with
  | nil => exact ⟨[], by simp⟩
  | cons w ws ih =>
    obtain ⟨l1, h1⟩ := enq_ext q w
    obtain ⟨l2, h2⟩ := ih (enq q w)
    exact ⟨l1 ++ l2, by rw [List.foldl_cons, h2, h1, List.append_assoc]⟩

/-! ### equations of `Task::poll` -/

theorem poll_none {s : State} {t : Nat} (h : s.fut t = none) : poll s t = (logEv s (.noop t), true) := by
  simp only [poll, h]

theorem poll_some {s : State} {t : Nat} {acts : Script} (h : s.fut t = some acts) :
    poll s t = pollDone (runActs t acts (logEv s (.poll t))) t := by
  simp only [poll, h]

theorem pollDone_pending {r : State × Option Script} {t : Nat} {rest : Script} (h : r.2 = some rest) :
    pollDone r t = (logEv { r.1 with fut := upd r.1.fut t (some rest) } (.ret t false), false) := by
  simp only [pollDone, h]

theorem pollDone_ready {r : State × Option Script} {t : Nat} (h : r.2 = none) :
    pollDone r t = (logEv (complete r.1 t) (.ret t true), true) := by
  simp only [pollDone, h]

/-! ### the queue only grows at the back -/

/-- `s'` has the queue of `s` plus entries pushed to the back -/
def QExt (s s' : State) : Prop := ∃ l, s'.queue = s.queue ++ l

theorem QExt.refl (s : State) : QExt s s := ⟨[], by simp⟩

theorem QExt.trans {a b c : State} (h1 : QExt a b) (h2 : QExt b c) : QExt a c := by
  obtain ⟨l1, e1⟩ := h1
  obtain ⟨l2, e2⟩ := h2
  exact ⟨l1 ++ l2, by rw [e2, e1, List.append_assoc]⟩

theorem qext_wake (s : State) (t : Nat) : QExt s (wake s t) := enq_ext s.queue t

theorem qext_wakeAll (s : State) (ws : List Nat) : QExt s (wakeAll s ws) := foldl_enq_ext ws s.queue

theorem qext_signal (s : State) (k : Nat) : QExt s (signal s k) := by
  unfold signal
  by_cases h : s.sticky
  · simp only [h, if_true]; exact foldl_enq_ext _ _
  · simp only [h]; exact foldl_enq_ext _ _

theorem qext_spawnChild (s : State) (t : Nat) : QExt s (spawnChild s t) := by
  unfold spawnChild
  cases s.pool with
  | nil => exact QExt.refl s
  | cons sc rest => exact ⟨[s.ntasks], rfl⟩

theorem qext_send (s : State) (t v : Nat) : QExt s (send s t v) := by
  unfold send
  cases s.relay t with
  | pending => exact QExt.refl s
  | polled w => exact enq_ext _ _
  | computed _ => exact QExt.refl s
  | done => exact QExt.refl s

theorem qext_runActs (t : Nat) (acts : Script) (s : State) : QExt s (runActs t acts s).1 := by
  induction acts generalizing s with
  | nil => exact QExt.refl s
  | cons a rest ih =>
    cases a with
    | complete => exact QExt.refl s
    | yield => exact (qext_wake s t).trans (qext_wake _ t)
    | wait k =>
      simp only [runActs]
      split
      · exact QExt.trans ⟨[], by simp⟩ (ih _)
      · exact ⟨[], by simp⟩
    | signal k => exact (qext_signal s k).trans (ih _)
    | spawn => exact (qext_spawnChild s t).trans (ih _)
    | join =>
      simp only [runActs]
      split
      · exact ih _
      · split
        · exact QExt.trans ⟨[], by simp⟩ (ih _)
        · exact ⟨[], by simp⟩
        · exact ⟨[], by simp⟩

theorem qext_pollDone (r : State × Option Script) (t : Nat) : QExt r.1 (pollDone r t).1 := by
  unfold pollDone
  cases r.2 with
  | some rest => exact ⟨[], by simp [logEv]⟩
  | none => exact QExt.trans (qext_send r.1 t (value r.1 t)) ⟨[], by simp [complete, logEv]⟩

theorem qext_poll (s : State) (t : Nat) : QExt s (poll s t).1 := by
  unfold poll
  cases s.fut t with
  | none => exact ⟨[], by simp [logEv]⟩
  | some acts =>
    have h1 : QExt s (logEv s (.poll t)) := ⟨[], by simp [logEv]⟩
    exact (h1.trans (qext_runActs t acts _)).trans (qext_pollDone _ t)

/-- `Executor::step` pops the front and pushes only to the back -/
theorem step_queue (s : State) (r : State × Bool) (h : step s = some r) :
    ∃ l, r.1.queue = s.queue.tail ++ l := by
  unfold step at h
  cases hq : s.queue with
  | nil => simp [hq] at h
  | cons t q =>
    simp only [hq, Option.some.injEq] at h
    subst h
    obtain ⟨l, hl⟩ := qext_poll { s with queue := q } t
    exact ⟨l, by simpa using hl⟩

end YashModel.Executor
