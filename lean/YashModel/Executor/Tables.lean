/-
  C15: the tie between the hand-written model and the tables that `tools/tables/executor.py` re-extracts from
  /repo on every run (`Generated/ExecutorTables.lean`): the arms of the three `match`es of forwarder.rs over
  `enum Relay`, and the queue discipline of task.rs / executor.rs.

  This file gives the *interpretation* of the extracted rows (what an arm of each shape does to a relay,
  what pushing to / popping from an end of the `VecDeque` is); `forwarder_tables_agree` and
  `queue_tables_agree` (Theorems.lean) prove that `relaySend` / `tryReceive` / `recvPoll` / `enq` / `step` /
  `spawnNew` of Model.lean are exactly these interpretations at the extracted values.
-/
import YashModel.Generated.ExecutorTables
import YashModel.Executor.Model
import YashModel.Executor.RcModel
namespace YashModel.Executor
open YashModel.Generated.ExecutorTables

/-- the variant of `enum Relay` a model relay is -/
def Relay.tag : Relay → RelayV
  | .pending => .Pending
  | .polled _ => .Polled
  | .computed _ => .Computed
  | .done => .Done

/-- the model's name for a variant of `enum TryReceiveError` -/
def TryErr.ofV : TryErrV → TryErr
  | .SenderDropped => .senderDropped
  | .NotSent => .notSent
  | .AlreadyReceived => .alreadyReceived

/-- what `mem::replace(relay, Relay::<stores>(value))` leaves in the relay (only `Computed` carries a `T`) -/
def storeBy (stores : RelayV) (v : Nat) : Option Relay :=
  match stores with
  | .Computed => some (.computed v)
  | _ => none

/-- `Sender::send` on the relay alone, read off its arm: new relay, the waker to wake, `unreachable!()` reached.
    (On `unreachable!()` the model leaves the relay as it was: the call panics.) -/
def sendBy (stores : RelayV) (a : Arm) (r : Relay) (v : Nat) : Option (Relay × Option Nat × Bool) :=
  match a, r with
  | .ok, _ => (storeBy stores v).map fun r' => (r', none, false)
  | .okWake, .polled w => (storeBy stores v).map fun r' => (r', some w, false)
  | .unreachable, _ => some (r, none, true)
  | _, _ => none

/-- `Receiver::try_receive`, read off its arm; `alive` = `Rc::weak_count(&self.relay) != 0` -/
def tryBy (a : Arm) (r : Relay) (alive : Bool) : Option (Relay × Except TryErr Nat) :=
  match a, r with
  | .errByLiveness d l, _ => some (r, .error (if alive then TryErr.ofV l else TryErr.ofV d))
  | .take, .computed v => some (.done, .ok v)
  | .err e, _ => some (r, .error (TryErr.ofV e))
  | _, _ => none

/-- `<Receiver as Future>::poll` by task `w`, read off its arm (third component: the arm panics) -/
def pollBy (a : Arm) (r : Relay) (w : Nat) : Option (Relay × Option Nat × Bool) :=
  match a, r with
  | .storeWaker, _ => some (.polled w, none, false)
  | .take, .computed v => some (.done, some v, false)
  | .panic, _ => some (r, none, true)
  | _, _ => none

/-- `VecDeque::push_back` / `push_front` -/
def pushAt (e : End) (q : List Nat) (t : Nat) : List Nat :=
  match e with
  | .back => q ++ [t]
  | .front => t :: q

/-- `VecDeque::pop_front` / `pop_back` -/
def popAt (e : End) (q : List Nat) : Option (Nat × List Nat) :=
  match e with
  | .front => match q with
    | [] => none
    | t :: q' => some (t, q')
  | .back => match q.reverse with
    | [] => none
    | t :: q' => some (t, q'.reverse)

/-- `Task::wake` on the queue with the extracted parameters -/
def enqBy (dedup : Bool) (e : End) (q : List Nat) (t : Nat) : List Nat :=
  if dedup && q.contains t then q else pushAt e q t

/-! ### wave 3: the raw waker vtable of waker.rs, `Task::poll`, `run_until_stalled` -/

/-- one reference-count operation of a vtable function, on the counted state of `RcModel.lean` -/
def vtStep (r : Rc.RState) (t : Nat) : VtOp → Rc.RState
  | .inc => Rc.incStrong r t
  | .dec => Rc.decStrong r t
  | .fromRawWake => Rc.taskWake (Rc.locUp r t) t
  | .newRaw => Rc.wkUp r t

/-- a vtable function read off its extracted operations; `consumes` is the contract of the SLOT it sits in
    (`wake` and `drop` take the waker over, `clone` and `wake_by_ref` only borrow it) -/
def vtBy (consumes : Bool) (ops : List VtOp) (r : Rc.RState) (t : Nat) : Rc.RState :=
  ops.foldl (fun r o => vtStep r t o) (if consumes then Rc.wkDown r t else r)

/-- `Task::poll` with the extracted facts as parameters: what an emptied slot returns, and whether the slot
    is emptied when the future returned `Ready` -/
def pollWith (emptyReturns emptiesOnReady : Bool) (s : State) (t : Nat) : State × Bool :=
  match s.fut t with
  | none => (logEv s (.noop t), emptyReturns)
  | some acts =>
    let r := runActs t acts (logEv s (.poll t))
    match r.2 with
    | some rest => (logEv { r.1 with fut := upd r.1.fut t (some rest) } (.ret t false), false)
    | none =>
      let c := complete r.1 t
      (logEv (if emptiesOnReady then c else { c with fut := upd c.fut t (some []) }) (.ret t true), true)

/-- `Executor::run_until_stalled` with the extracted fact as parameter: does a `Some(true)` step count? -/
def rusWith (countsTrue : Bool) : Nat → State → Nat → State × Nat × Bool
  | 0, s, c => (s, c, s.queue.isEmpty)
  | n + 1, s, c =>
    match step s with
    | none => (s, c, true)
    | some r => rusWith countsTrue n r.1 (if r.2 && countsTrue then c + 1 else c)

end YashModel.Executor
