/-
  C15: the tie between the hand-written model and the tables that `tools/tables/executor.py` re-extracts from
  /repo on every run (`Generated/ExecutorTables.lean`): the arms of the three `match`es of forwarder.rs over
  `enum Relay`, and the queue discipline of task.rs / executor.rs.

  This file gives the *interpretation* of the extracted rows (what an arm of each shape does to a relay,
  what pushing to / popping from an end of the `VecDeque` is); `forwarder_tables_agree` and
  `queue_tables_agree` (Theorems.lean) prove that `relaySend` / `tryReceive` / `recvPoll` / `enq` / `step` /
  `spawnNew` of Model.lean are exactly these interpretations at the extracted values.
-/
import YashModel.Generated.ExecutorTables
import YashModel.Executor.Model
namespace YashModel.Executor
open YashModel.Generated.ExecutorTables

/-- the variant of `enum Relay` a model relay is -/
def Relay.tag : Relay → RelayV
  | .pending => .Pending
  | .polled _ => .Polled
  | .computed _ => .Computed
  | .done => .Done

/-- the model's name for a variant of `enum TryReceiveError` -/
def TryErr.ofV : TryErrV → TryErr
  | .SenderDropped => .senderDropped
  | .NotSent => .notSent
  | .AlreadyReceived => .alreadyReceived

/-- what `mem::replace(relay, Relay::<stores>(value))` leaves in the relay (only `Computed` carries a `T`) -/
def storeBy (stores : RelayV) (v : Nat) : Option Relay :=
  match stores with
  | .Computed => some (.computed v)
  | _ => none

/-- `Sender::send` on the relay alone, read off its arm: new relay, the waker to wake, `unreachable!()` reached.
    (On `unreachable!()` the model leaves the relay as it was: the call panics.) -/
def sendBy (stores : RelayV) (a : Arm) (r : Relay) (v : Nat) : Option (Relay × Option Nat × Bool) :=
  match a, r with
  | .ok, _ => (storeBy stores v).map fun r' => (r', none, false)
  | .okWake, .polled w => (storeBy stores v).map fun r' => (r', some w, false)
  | .unreachable, _ => some (r, none, true)
  | _, _ => none

/-- `Receiver::try_receive`, read off its arm; `alive` = `Rc::weak_count(&self.relay) != 0` -/
def tryBy (a : Arm) (r : Relay) (alive : Bool) : Option (Relay × Except TryErr Nat) :=
  match a, r with
  | .errByLiveness d l, _ => some (r, .error (if alive then TryErr.ofV l else TryErr.ofV d))
  | .take, .computed v => some (.done, .ok v)
  | .err e, _ => some (r, .error (TryErr.ofV e))
  | _, _ => none

/-- `<Receiver as Future>::poll` by task `w`, read off its arm (third component: the arm panics) -/
def pollBy (a : Arm) (r : Relay) (w : Nat) : Option (Relay × Option Nat × Bool) :=
  match a, r with
  | .storeWaker, _ => some (.polled w, none, false)
  | .take, .computed v => some (.done, some v, false)
  | .panic, _ => some (r, none, true)
  | _, _ => none

/-- `VecDeque::push_back` / `push_front` -/
def pushAt (e : End) (q : List Nat) (t : Nat) : List Nat :=
  match e with
  | .back => q ++ [t]
  | .front => t :: q

/-- `VecDeque::pop_front` / `pop_back` -/
def popAt (e : End) (q : List Nat) : Option (Nat × List Nat) :=
  match e with
  | .front => match q with
    | [] => none
    | t :: q' => some (t, q')
  | .back => match q.reverse with
    | [] => none
    | t :: q' => some (t, q'.reverse)

/-- `Task::wake` on the queue with the extracted parameters -/
def enqBy (dedup : Bool) (e : End) (q : List Nat) (t : Nat) : List Nat :=
  if dedup && q.contains t then q else pushAt e q t

end YashModel.Executor
