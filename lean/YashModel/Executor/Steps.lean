/-
  C15 helper lemmas, part 3: the invariant through one poll, one `Executor::step`, any number of steps,
  and from the initial state of any task system; the trace invariants.
-/
import YashModel.Executor.Inv
namespace YashModel.Executor

variable {ab : Bool}

/-- One poll of the future of task `t`: the invariant "while `t` runs" is kept, and if the future
    returns `Pending` the task has been woken already or is blocked on something that will wake it. -/
theorem inv_runActs (t : Nat) (acts : Script) (s : State) (h : InvX ab (some t) s) :
    InvX ab (some t) (runActs t acts s).1 ∧
    ∀ rest, (runActs t acts s).2 = some rest →
      t ∈ (runActs t acts s).1.queue ∨ Blocked (runActs t acts s).1 t rest := by
  induction acts generalizing s with
  | nil => exact ⟨h, fun rest hr => by simp [runActs] at hr⟩
  | cons a rest ih =>
    have htl : t < s.ntasks := (h.run t rfl).1
    cases a with
    | complete => exact ⟨h, fun rest hr => by simp [runActs] at hr⟩
    | yield =>
      simp only [runActs]
      exact ⟨inv_wake (inv_wake h t htl) t htl, fun _ _ => Or.inl (mem_enq_self _ _)⟩
    | wait k =>
      simp only [runActs]
      split
      · rename_i hk
        exact ih _ (inv_consume h k hk)
      · rename_i hk
        refine ⟨inv_register h k, ?_⟩
        intro rest' hr
        simp only [Option.some.injEq] at hr
        subst hr
        right; left
        exact ⟨k, rest, rfl, by simp [upd_apply], by show s.tokens k = 0; omega⟩
    | signal k =>
      simp only [runActs]
      exact ih _ (inv_signal h k)
    | spawn =>
      simp only [runActs]
      exact ih _ (inv_spawnChild h)
    | join =>
      cases hk : s.kids t with
      | nil =>
        simp only [runActs, hk]
        exact ih _ h
      | cons c cs =>
        have hck : c ∈ s.kids t := by rw [hk]; simp
        cases hr : s.relay c with
        | computed v =>
          simp only [runActs, hk, hr]
          exact ih _ (inv_joinRecv h c cs v hk hr)
        | done => exact absurd hr (h.kdone t c hck)
        | pending =>
          simp only [runActs, hk, hr]
          refine ⟨inv_joinPend h c cs hk (by rw [hr]; rfl), ?_⟩
          intro rest' hr'
          simp only [Option.some.injEq] at hr'
          subst hr'
          right; right
          exact ⟨c, cs, rest, rfl, hk, by simp [upd_apply]⟩
        | polled w =>
          simp only [runActs, hk, hr]
          refine ⟨inv_joinPend h c cs hk (by rw [hr]; rfl), ?_⟩
          intro rest' hr'
          simp only [Option.some.injEq] at hr'
          subst hr'
          right; right
          exact ⟨c, cs, rest, rfl, hk, by simp [upd_apply]⟩

/-- `Task::poll` after the front of the queue has been popped -/
theorem inv_poll {s : State} (h : InvX ab none s) (t : Nat) (q : List Nat) (hq : s.queue = t :: q) :
    InvX ab none (poll { s with queue := q } t).1 := by
  cases hf : s.fut t with
  | none =>
    rw [poll_none (s := { s with queue := q }) hf]
    exact inv_logEv (inv_pop_noop h t q hq hf) _
  | some acts =>
    rw [poll_some (s := { s with queue := q }) hf]
    have h1 : InvX ab (some t) (logEv { s with queue := q } (.poll t)) := inv_logEv (inv_pop h t q hq acts hf) _
    obtain ⟨h2, hpost⟩ := inv_runActs t acts _ h1
    cases hr : (runActs t acts (logEv { s with queue := q } (.poll t))).2 with
    | some rest =>
      rw [pollDone_pending hr]
      exact inv_logEv (inv_pending h2 rest (hpost rest hr)) _
    | none =>
      rw [pollDone_ready hr]
      exact inv_logEv (inv_complete h2) _

/-- ★ the invariant is inductive over `Executor::step` -/
theorem inv_step {s : State} (h : InvX ab none s) (r : State × Bool) (hs : step s = some r) : InvX ab none r.1 := by
  unfold step at hs
  cases hq : s.queue with
  | nil => simp [hq] at hs
  | cons t q =>
    simp only [hq, Option.some.injEq] at hs
    subst hs
    exact inv_poll h t q hq

theorem inv_stepN (n : Nat) {s : State} (h : InvX ab none s) : InvX ab none (stepN n s) := by
  induction n generalizing s with
  | zero => exact h
  | succ n ih =>
    simp only [stepN]
    cases hs : step s with
    | none => exact h
    | some r => exact ih (inv_step h r hs)

theorem inv_empty (pool : List Script) (sticky : Bool) : InvX ab none { pool := pool, sticky := sticky } := by
  refine ⟨by simp, by simp, by simp, ?_, by simp, by simp, by simp, by simp, by simp, ?_, ?_, ?_, rfl⟩
  · intro c w hw; simp at hw
  · intro c; simp
  · intro t acts hab ht; simp at ht
  · intro t hr; cases hr

theorem inv_spawnRoots (scs : List Script) {s : State} (h : InvX ab none s) : InvX ab none (spawnRoots scs s) := by
  induction scs generalizing s with
  | nil => exact h
  | cons sc rest ih => exact ih (inv_spawnRoot h sc)

/-- the invariant holds in the initial state of every task system -/
theorem inv_init (sticky : Bool) (scripts : List Script) (roots : Nat) :
    InvX ab none (init sticky scripts roots) :=
  inv_spawnRoots _ (inv_empty _ _)

/-! ### the trace of polls -/

/-- `s'` has the trace of `s`, at least its tasks, and the same slots for them -/
def Frame (s s' : State) : Prop :=
  s'.log = s.log ∧ s.ntasks ≤ s'.ntasks ∧ ∀ x, x < s.ntasks → s'.fut x = s.fut x

theorem Frame.refl (s : State) : Frame s s := ⟨rfl, Nat.le_refl _, fun _ _ => rfl⟩

theorem Frame.trans {a b c : State} (h1 : Frame a b) (h2 : Frame b c) : Frame a c :=
  ⟨h2.1.trans h1.1, Nat.le_trans h1.2.1 h2.2.1,
   fun x hx => (h2.2.2 x (Nat.lt_of_lt_of_le hx h1.2.1)).trans (h1.2.2 x hx)⟩

theorem frame_signal (s : State) (k : Nat) : Frame s (signal s k) := by
  unfold signal
  split <;> exact ⟨rfl, Nat.le_refl _, fun _ _ => rfl⟩

theorem frame_spawnChild (s : State) (t : Nat) : Frame s (spawnChild s t) := by
  unfold spawnChild
  cases s.pool with
  | nil => exact Frame.refl s
  | cons sc rest =>
    refine ⟨rfl, Nat.le_succ _, ?_⟩
    intro x hx
    show upd s.fut s.ntasks (some sc) x = s.fut x
    have : x ≠ s.ntasks := by omega
    simp [upd_apply, this]

theorem frame_runActs (t : Nat) (acts : Script) (s : State) : Frame s (runActs t acts s).1 := by
  induction acts generalizing s with
  | nil => exact Frame.refl s
  | cons a rest ih =>
    cases a with
    | complete => exact Frame.refl s
    | yield => exact ⟨rfl, Nat.le_refl _, fun _ _ => rfl⟩
    | wait k =>
      simp only [runActs]
      split
      · exact Frame.trans ⟨rfl, Nat.le_refl _, fun _ _ => rfl⟩ (ih _)
      · exact ⟨rfl, Nat.le_refl _, fun _ _ => rfl⟩
    | signal k => exact (frame_signal s k).trans (ih _)
    | spawn => exact (frame_spawnChild s t).trans (ih _)
    | join =>
      simp only [runActs]
      split
      · exact ih _
      · split
        · exact Frame.trans ⟨rfl, Nat.le_refl _, fun _ _ => rfl⟩ (ih _)
        · exact ⟨rfl, Nat.le_refl _, fun _ _ => rfl⟩
        · exact ⟨rfl, Nat.le_refl _, fun _ _ => rfl⟩

theorem send_frame (s : State) (t v : Nat) : Frame s (send s t v) := by
  unfold send
  cases s.relay t <;> exact ⟨rfl, Nat.le_refl _, fun _ _ => rfl⟩

/-- the task of an event -/
def Ev.task : Ev → Nat
  | .poll t => t
  | .ret t _ => t
  | .noop t => t

/-- one call of `Task::poll` as it appears in the trace -/
inductive Seg where
  | noop (t : Nat)
  | polled (t : Nat) (ready : Bool)

def Seg.events : Seg → List Ev
  | .noop t => [.noop t]
  | .polled t b => [.poll t, .ret t b]

/-- The trace is a sequence of complete `Task::poll` calls: every `poll t` is immediately followed by
    its `ret t _` — no poll starts while another one is in progress. -/
def Bracketed (log : List Ev) : Prop := ∃ segs : List Seg, log = segs.flatMap Seg.events

/-- `e'` may follow `e` in the trace: after `ret t true` there is no further `poll t` / `ret t _` -/
def After (e e' : Ev) : Prop := ∀ t, e = .ret t true → e' ≠ .poll t ∧ ∀ b, e' ≠ .ret t b

/-- for every two positions `i < j` of the trace: if `log[i]` is the completion of task `t`, then
    `log[j]` is not a poll (nor a second return) of `t` -/
def NoPollAfterFin (log : List Ev) : Prop := log.Pairwise After

structure TraceInv (s : State) : Prop where
  brack : Bracketed s.log
  npaf : NoPollAfterFin s.log
  fin : ∀ t, Ev.ret t true ∈ s.log → s.fut t = none
  lt : ∀ e, e ∈ s.log → e.task < s.ntasks

/-- what `Task::poll` appends to the trace -/
theorem poll_trace (s : State) (t : Nat) :
    (s.fut t = none ∧ (poll s t).1.log = s.log ++ [.noop t] ∧ (poll s t).2 = true ∧
      (poll s t).1.ntasks = s.ntasks ∧ ∀ x, (poll s t).1.fut x = s.fut x) ∨
    (∃ acts, s.fut t = some acts ∧ (poll s t).1.log = s.log ++ [.poll t, .ret t (poll s t).2] ∧
      s.ntasks ≤ (poll s t).1.ntasks ∧
      (∀ x, x < s.ntasks → x ≠ t → (poll s t).1.fut x = s.fut x) ∧
      ((poll s t).2 = true → (poll s t).1.fut t = none)) := by
  cases hf : s.fut t with
  | none =>
    left
    rw [poll_none hf]
    exact ⟨rfl, rfl, rfl, rfl, fun _ => rfl⟩
  | some acts =>
    right
    refine ⟨acts, rfl, ?_⟩
    rw [poll_some hf]
    have hfr : Frame (logEv s (.poll t)) (runActs t acts (logEv s (.poll t))).1 := frame_runActs t acts _
    obtain ⟨hl, hn, hfu⟩ := hfr
    cases hr : (runActs t acts (logEv s (.poll t))).2 with
    | some rest =>
      rw [pollDone_pending hr]
      refine ⟨?_, hn, ?_, ?_⟩
      · show (runActs t acts (logEv s (.poll t))).1.log ++ [.ret t false] = _
        rw [hl]; simp [logEv]
      · intro x hx hne
        show upd (runActs t acts (logEv s (.poll t))).1.fut t (some rest) x = s.fut x
        simp only [upd_apply, hne, if_false]
        exact hfu x hx
      · intro h; cases h
    | none =>
      rw [pollDone_ready hr]
      have hsf := send_frame (runActs t acts (logEv s (.poll t))).1 t (value (runActs t acts (logEv s (.poll t))).1 t)
      refine ⟨?_, Nat.le_trans hn hsf.2.1, ?_, ?_⟩
      · show (send _ t _).log ++ [.ret t true] = _
        rw [hsf.1, hl]; simp [logEv]
      · intro x hx hne
        show upd (send _ t _).fut t none x = s.fut x
        simp only [upd_apply, hne, if_false]
        rw [hsf.2.2 x (Nat.lt_of_lt_of_le hx hn)]
        exact hfu x hx
      · intro _
        show upd (send _ t _).fut t none t = none
        simp [upd_apply]

theorem bracketed_append (log : List Ev) (seg : Seg) (h : Bracketed log) : Bracketed (log ++ seg.events) := by
  obtain ⟨segs, e⟩ := h
  exact ⟨segs ++ [seg], by simp [e, List.flatMap_append]⟩

theorem trace_poll {s : State} (h : TraceInv s) (t : Nat) (ht : t < s.ntasks) : TraceInv (poll s t).1 := by
  rcases poll_trace s t with ⟨hf, hl, _, hn, hfu⟩ | ⟨acts, hf, hl, hn, hfu, hfin⟩
  · refine ⟨?_, ?_, ?_, ?_⟩
    · rw [hl]; exact bracketed_append _ (.noop t) h.brack
    · rw [hl]
      refine List.pairwise_append.mpr ⟨h.npaf, by simp, ?_⟩
      intro a _ b hb t' _
      simp at hb; subst hb
      exact ⟨by simp, by simp⟩
    · intro t' hm
      rw [hl] at hm
      simp at hm
      rw [hfu]; exact h.fin t' hm
    · intro e he
      rw [hl] at he
      rw [hn]
      rcases List.mem_append.mp he with he | he
      · exact h.lt e he
      · simp at he; subst he; exact ht
  · have hnot : ∀ t', Ev.ret t' true ∈ s.log → t' ≠ t := by
      intro t' hm e'
      subst e'
      have := h.fin t' hm
      rw [hf] at this; cases this
    refine ⟨?_, ?_, ?_, ?_⟩
    · rw [hl]; exact bracketed_append _ (.polled t _) h.brack
    · rw [hl]
      refine List.pairwise_append.mpr ⟨h.npaf, ?_, ?_⟩
      · refine List.pairwise_cons.mpr ⟨?_, by simp⟩
        intro b hb t' e'
        cases e'
      · intro a ha b hb t' e'
        subst e'
        have hne := hnot t' ha
        simp at hb
        rcases hb with rfl | rfl
        · exact ⟨by simp; exact fun e => hne e.symm, by simp⟩
        · exact ⟨by simp, by simp; exact fun e => hne e.symm⟩
    · intro t' hm
      rw [hl] at hm
      rcases List.mem_append.mp hm with hm | hm
      · have hne := hnot t' hm
        have hlt : t' < s.ntasks := h.lt _ hm
        rw [hfu t' hlt hne]; exact h.fin t' hm
      · simp at hm
        obtain ⟨e1, e2⟩ := hm
        subst e1
        exact hfin e2
    · intro e he
      rw [hl] at he
      rcases List.mem_append.mp he with he | he
      · exact Nat.lt_of_lt_of_le (h.lt e he) hn
      · simp at he
        rcases he with rfl | rfl
        · exact Nat.lt_of_lt_of_le ht hn
        · exact Nat.lt_of_lt_of_le ht hn

theorem trace_step {s : State} (hi : InvX ab none s) (h : TraceInv s) (r : State × Bool) (hs : step s = some r) :
    TraceInv r.1 := by
  unfold step at hs
  cases hq : s.queue with
  | nil => simp [hq] at hs
  | cons t q =>
    simp only [hq, Option.some.injEq] at hs
    subst hs
    have ht : t < s.ntasks := hi.qlt t (by rw [hq]; simp)
    exact trace_poll (s := { s with queue := q }) ⟨h.brack, h.npaf, h.fin, h.lt⟩ t ht

theorem trace_stepN (n : Nat) {s : State} (hi : InvX ab none s) (h : TraceInv s) : TraceInv (stepN n s) := by
  induction n generalizing s with
  | zero => exact h
  | succ n ih =>
    simp only [stepN]
    cases hs : step s with
    | none => exact h
    | some r => exact ih (inv_step hi r hs) (trace_step hi h r hs)

theorem spawnRoots_log (scs : List Script) (s : State) : (spawnRoots scs s).log = s.log := by
  induction scs generalizing s with
  | nil => rfl
  | cons sc rest ih => simp only [spawnRoots]; rw [ih]; rfl

theorem trace_init (sticky : Bool) (scripts : List Script) (roots : Nat) :
    TraceInv (init sticky scripts roots) := by
  have hl : (init sticky scripts roots).log = [] := by
    unfold init; rw [spawnRoots_log]
  refine ⟨?_, ?_, ?_, ?_⟩
  · rw [hl]; exact ⟨[], rfl⟩
  · rw [hl]; exact List.Pairwise.nil
  · intro t hm; rw [hl] at hm; cases hm
  · intro e he; rw [hl] at he; cases he

end YashModel.Executor
