/-
  C15 helper lemmas, part 12 (wave 3): the counted run of `RcModel.lean` IS the run of Model.lean — every
  instrumented function computes, on its `s` component, exactly what the function of Model.lean it is named
  after computes (`…_p` lemmas), up to whole operation sequences of the `v` leg (`same_rRun`).  So every theorem
  about `xRunAll` / `stepN` is a theorem about the counted run, and the counts are about the same executor.
-/
import YashModel.Executor.RcLemmas
import YashModel.Executor.Ops
namespace YashModel.Executor.Rc

/-- `r'` has the task system `s'` and the executor is as alive as in `r` -/
def Proj (r' : RState) (s' : State) (d : Bool) : Prop := r'.s = s' ∧ r'.dead = d

theorem incStrong_p (r : RState) (t : Nat) : (incStrong r t).s = r.s ∧ (incStrong r t).dead = r.dead := ⟨rfl, rfl⟩
theorem decStrong_p (r : RState) (t : Nat) : (decStrong r t).s = r.s ∧ (decStrong r t).dead = r.dead := by
  unfold decStrong; split <;> exact ⟨rfl, rfl⟩
theorem wkUp_p (r : RState) (t : Nat) : (wkUp r t).s = r.s ∧ (wkUp r t).dead = r.dead := by
  unfold wkUp; split <;> exact ⟨rfl, rfl⟩
theorem wkDown_p (r : RState) (t : Nat) : (wkDown r t).s = r.s ∧ (wkDown r t).dead = r.dead := by
  unfold wkDown; split <;> exact ⟨rfl, rfl⟩
theorem locUp_p (r : RState) (t : Nat) : (locUp r t).s = r.s ∧ (locUp r t).dead = r.dead := by
  unfold locUp; split <;> exact ⟨rfl, rfl⟩
theorem locDown_p (r : RState) (t : Nat) : (locDown r t).s = r.s ∧ (locDown r t).dead = r.dead := by
  unfold locDown; split <;> exact ⟨rfl, rfl⟩

theorem vtClone_p (r : RState) (t : Nat) : (vtClone r t).s = r.s ∧ (vtClone r t).dead = r.dead := by
  unfold vtClone
  exact ⟨(wkUp_p _ t).1.trans (incStrong_p r t).1, (wkUp_p _ t).2.trans (incStrong_p r t).2⟩
theorem vtDrop_p (r : RState) (t : Nat) : (vtDrop r t).s = r.s ∧ (vtDrop r t).dead = r.dead := by
  unfold vtDrop
  exact ⟨(wkDown_p _ t).1.trans (decStrong_p r t).1, (wkDown_p _ t).2.trans (decStrong_p r t).2⟩
theorem intoWaker_p (r : RState) (t : Nat) : (intoWaker r t).s = r.s ∧ (intoWaker r t).dead = r.dead := by
  unfold intoWaker
  exact ⟨(wkUp_p _ t).1.trans (locDown_p r t).1, (wkUp_p _ t).2.trans (locDown_p r t).2⟩
theorem rcClone_p (r : RState) (t : Nat) : (rcClone r t).s = r.s ∧ (rcClone r t).dead = r.dead := by
  unfold rcClone
  exact ⟨(locUp_p _ t).1.trans (incStrong_p r t).1, (locUp_p _ t).2.trans (incStrong_p r t).2⟩

theorem wake_of_mem (s : State) (t : Nat) (h : t ∈ s.queue) : wake s t = s := by
  simp [wake, enq, h]

/-- `Task::wake`: on the task system it is `wake` of Model.lean while the executor lives, nothing afterwards -/
theorem taskWake_p (r : RState) (t : Nat) :
    (taskWake r t).s = (if r.dead then r.s else wake r.s t) ∧ (taskWake r t).dead = r.dead := by
  unfold taskWake
  split
  · exact ⟨(locDown_p _ t).1.trans (decStrong_p r t).1, (locDown_p _ t).2.trans (decStrong_p r t).2⟩
  · split
    · rename_i hq
      exact ⟨((locDown_p _ t).1.trans (decStrong_p r t).1).trans (wake_of_mem r.s t hq).symm,
        (locDown_p _ t).2.trans (decStrong_p r t).2⟩
    · exact ⟨(locDown_p _ t).1, (locDown_p _ t).2⟩

theorem vtWake_gen (r : RState) (t : Nat) :
    (vtWake r t).s = (if r.dead then r.s else wake r.s t) ∧ (vtWake r t).dead = r.dead := by
  unfold vtWake
  have h1 : (locUp (wkDown r t) t).s = r.s := (locUp_p _ t).1.trans (wkDown_p r t).1
  have h2 : (locUp (wkDown r t) t).dead = r.dead := (locUp_p _ t).2.trans (wkDown_p r t).2
  have := taskWake_p (locUp (wkDown r t) t) t
  rw [h1, h2] at this
  exact this

theorem vtWakeByRef_gen (r : RState) (t : Nat) :
    (vtWakeByRef r t).s = (if r.dead then r.s else wake r.s t) ∧ (vtWakeByRef r t).dead = r.dead := by
  unfold vtWakeByRef
  have h1 : (locUp (incStrong r t) t).s = r.s := (locUp_p _ t).1
  have h2 : (locUp (incStrong r t) t).dead = r.dead := (locUp_p _ t).2
  have := taskWake_p (locUp (incStrong r t) t) t
  rw [h1, h2] at this
  exact this

theorem vtWake_p (r : RState) (t : Nat) (hd : r.dead = false) :
    (vtWake r t).s = wake r.s t ∧ (vtWake r t).dead = false := by
  have h := vtWake_gen r t
  exact ⟨h.1.trans (by rw [hd]; rfl), h.2.trans hd⟩

theorem vtWakeByRef_p (r : RState) (t : Nat) (hd : r.dead = false) :
    (vtWakeByRef r t).s = wake r.s t ∧ (vtWakeByRef r t).dead = false := by
  have h := vtWakeByRef_gen r t
  exact ⟨h.1.trans (by rw [hd]; rfl), h.2.trans hd⟩

theorem vtWake_d (r : RState) (t : Nat) (hd : r.dead = true) :
    (vtWake r t).s = r.s ∧ (vtWake r t).dead = true := by
  have h := vtWake_gen r t
  exact ⟨h.1.trans (by rw [hd]; rfl), h.2.trans hd⟩

theorem vtWakeByRef_d (r : RState) (t : Nat) (hd : r.dead = true) :
    (vtWakeByRef r t).s = r.s ∧ (vtWakeByRef r t).dead = true := by
  have h := vtWakeByRef_gen r t
  exact ⟨h.1.trans (by rw [hd]; rfl), h.2.trans hd⟩

theorem wakeAll_cons (s : State) (w : Nat) (ws : List Nat) : wakeAll s (w :: ws) = wakeAll (wake s w) ws := rfl

theorem wakeAllVal_p (ws : List Nat) (r : RState) (hd : r.dead = false) :
    (wakeAllVal r ws).s = wakeAll r.s ws ∧ (wakeAllVal r ws).dead = false := by
  induction ws generalizing r with
  | nil => exact ⟨rfl, hd⟩
  | cons w ws ih =>
    have h := vtWake_p r w hd
    have := ih (lg (vtWake r w) [cWake w]) h.2
    have e : (lg (vtWake r w) [cWake w]).s = (vtWake r w).s := rfl
    rw [e, h.1] at this
    exact this

theorem wakeAllRef_p (ws : List Nat) (r : RState) (hd : r.dead = false) :
    (wakeAllRef r ws).s = wakeAll r.s ws ∧ (wakeAllRef r ws).dead = false := by
  induction ws generalizing r with
  | nil => exact ⟨rfl, hd⟩
  | cons w ws ih =>
    have hc := vtClone_p r w
    have h := vtWakeByRef_p (vtClone r w) w (hc.2.trans hd)
    rw [hc.1] at h
    have hdp := vtDrop_p (vtWakeByRef (vtClone r w) w) w
    have := ih (lg (vtDrop (vtWakeByRef (vtClone r w) w) w) [cClone w, cRef w, cDrop w]) (hdp.2.trans h.2)
    have e : (lg (vtDrop (vtWakeByRef (vtClone r w) w) w) [cClone w, cRef w, cDrop w]).s =
      (vtDrop (vtWakeByRef (vtClone r w) w) w).s := rfl
    rw [e, hdp.1, h.1] at this
    exact this

theorem rSignal_sticky (r : RState) (k : Nat) (hs : r.s.sticky = true) :
    rSignal r k = wakeAllRef { r with s := { r.s with tokens := upd r.s.tokens k (r.s.tokens k + 1) } } (r.s.waiters k) := by
  unfold rSignal; show (if r.s.sticky = true then _ else _) = _; rw [if_pos hs]

theorem rSignal_drain (r : RState) (k : Nat) (hs : ¬ r.s.sticky = true) :
    rSignal r k =
      { wakeAllVal { r with s := { r.s with tokens := upd r.s.tokens k (r.s.tokens k + 1) } } (r.s.waiters k) with
        s := { (wakeAllVal { r with s := { r.s with tokens := upd r.s.tokens k (r.s.tokens k + 1) } } (r.s.waiters k)).s with
          waiters := upd (wakeAllVal { r with s := { r.s with tokens := upd r.s.tokens k (r.s.tokens k + 1) } } (r.s.waiters k)).s.waiters k [] } } := by
  unfold rSignal; show (if r.s.sticky = true then _ else _) = _; rw [if_neg hs]

theorem signal_sticky (s : State) (k : Nat) (hs : s.sticky = true) :
    signal s k = wakeAll { s with tokens := upd s.tokens k (s.tokens k + 1) } (s.waiters k) := by
  unfold signal; show (if s.sticky = true then _ else _) = _; rw [if_pos hs]

theorem signal_drain (s : State) (k : Nat) (hs : ¬ s.sticky = true) :
    signal s k = { wakeAll { s with tokens := upd s.tokens k (s.tokens k + 1) } (s.waiters k) with
      waiters := upd (wakeAll { s with tokens := upd s.tokens k (s.tokens k + 1) } (s.waiters k)).waiters k [] } := by
  unfold signal; show (if s.sticky = true then _ else _) = _; rw [if_neg hs]

theorem rSignal_p (r : RState) (k : Nat) (hd : r.dead = false) :
    (rSignal r k).s = signal r.s k ∧ (rSignal r k).dead = false := by
  by_cases hs : r.s.sticky = true
  · rw [rSignal_sticky r k hs, signal_sticky r.s k hs]
    exact wakeAllRef_p (r.s.waiters k) { r with s := { r.s with tokens := upd r.s.tokens k (r.s.tokens k + 1) } } hd
  · rw [rSignal_drain r k hs, signal_drain r.s k hs]
    have := wakeAllVal_p (r.s.waiters k) { r with s := { r.s with tokens := upd r.s.tokens k (r.s.tokens k + 1) } } hd
    refine ⟨?_, this.2⟩
    simp only [this.1]

theorem rSpawnChild_p (r : RState) (t : Nat) :
    (rSpawnChild r t).s = spawnChild r.s t ∧ (rSpawnChild r t).dead = r.dead := by
  unfold rSpawnChild spawnChild
  cases hp : r.s.pool with
  | nil => exact ⟨rfl, rfl⟩
  | cons sc rest => exact ⟨rfl, rfl⟩

theorem rSend_p (r : RState) (t v : Nat) (hd : r.dead = false) :
    (rSend r t v).s = send r.s t v ∧ (rSend r t v).dead = false := by
  unfold rSend send
  cases hr : r.s.relay t with
  | pending => exact ⟨rfl, hd⟩
  | polled w => exact vtWake_p { r with s := { r.s with relay := upd r.s.relay t (.computed v) } } w hd
  | computed _ => exact ⟨rfl, hd⟩
  | done => exact ⟨rfl, hd⟩

theorem rRunActs_p (t : Nat) (acts : Script) (r : RState) (hd : r.dead = false) :
    (rRunActs t acts r).1.s = (runActs t acts r.s).1 ∧ (rRunActs t acts r).2 = (runActs t acts r.s).2 ∧
    (rRunActs t acts r).1.dead = false := by
  fun_induction rRunActs t acts r with
  | case1 r => exact ⟨rfl, rfl, hd⟩
  | case2 _ r => exact ⟨rfl, rfl, hd⟩
  | case3 rest r =>
    have h1 := vtWakeByRef_p r t hd
    have h2 := vtClone_p (vtWakeByRef r t) t
    have h3 := vtWake_p (vtClone (vtWakeByRef r t) t) t (h2.2.trans h1.2)
    rw [h2.1, h1.1] at h3
    exact ⟨h3.1, rfl, h3.2⟩
  | case4 k rest r hk ih =>
    have := ih hd
    simp only [runActs, hk, if_true]
    exact this
  | case5 k rest r hk r1 =>
    have hc := vtClone_p r t
    simp only [runActs, hk, if_false]
    refine ⟨?_, (by first | rfl | trivial), hc.2.trans hd⟩
    show { r1.s with waiters := upd r1.s.waiters k (r1.s.waiters k ++ [t]) } = _
    rw [show r1.s = r.s from hc.1]
  | case6 k rest r ih =>
    have h := rSignal_p r k hd
    have := ih h.2
    rw [h.1] at this
    simp only [runActs]; exact this
  | case7 rest r ih =>
    have h := rSpawnChild_p r t
    have := ih (h.2.trans hd)
    rw [h.1] at this
    simp only [runActs]; exact this
  | case8 rest r hk ih =>
    have := ih hd
    simp only [runActs, hk]; exact this
  | case9 rest r c cs hk v hr ih =>
    have := ih hd
    simp only [runActs, hk, hr]; exact this
  | case10 rest r c cs hk hr =>
    simp only [runActs, hk, hr]; exact ⟨(by first | rfl | trivial), (by first | rfl | trivial), hd⟩
  | case11 rest r c cs hk hr r1 =>
    have hc := vtClone_p r t
    simp only [runActs, hk, hr]
    refine ⟨?_, (by first | rfl | trivial), hc.2.trans hd⟩
    show { r1.s with relay := upd r1.s.relay c (.polled t) } = _
    rw [show r1.s = r.s from hc.1]
  | case12 rest r c cs hk w hr r1 =>
    have hc := vtClone_p r t
    have hdp := vtDrop_p (vtClone r t) w
    simp only [runActs, hk, hr]
    refine ⟨?_, (by first | rfl | trivial), (hdp.2.trans hc.2).trans hd⟩
    show { r1.s with relay := upd r1.s.relay c (.polled t) } = _
    rw [show r1.s = r.s from hdp.1.trans hc.1]

theorem rComplete_p (r : RState) (t : Nat) (hd : r.dead = false) :
    (rComplete r t).s = complete r.s t ∧ (rComplete r t).dead = false := by
  have h := rSend_p r t (value r.s t) hd
  unfold rComplete complete
  refine ⟨?_, h.2⟩
  simp only [h.1]

theorem rPollDone_p (x : RState × Option Script) (t : Nat) (hd : x.1.dead = false) :
    (rPollDone x t).1.s = (pollDone (x.1.s, x.2) t).1 ∧ (rPollDone x t).2 = (pollDone (x.1.s, x.2) t).2 ∧
    (rPollDone x t).1.dead = false := by
  unfold rPollDone pollDone
  cases h2 : x.2 with
  | some rest => exact ⟨rfl, rfl, hd⟩
  | none =>
    have h := rComplete_p x.1 t hd
    refine ⟨?_, rfl, h.2⟩
    simp only [h.1]

theorem rEnter_p (r : RState) (t : Nat) :
    (rEnter r t).s = logEv r.s (.poll t) ∧ (rEnter r t).dead = r.dead := by
  have h0 : (intoWaker (rcClone r t) t).s = r.s := (intoWaker_p _ t).1.trans (rcClone_p r t).1
  have h0d : (intoWaker (rcClone r t) t).dead = r.dead := (intoWaker_p _ t).2.trans (rcClone_p r t).2
  refine ⟨?_, h0d⟩
  show logEv (intoWaker (rcClone r t) t).s (.poll t) = _
  rw [h0]

theorem rPoll_p (r : RState) (t : Nat) (hd : r.dead = false) :
    (rPoll r t).1.s = (poll r.s t).1 ∧ (rPoll r t).2 = (poll r.s t).2 ∧ (rPoll r t).1.dead = false := by
  unfold rPoll poll
  cases hf : r.s.fut t with
  | none => exact ⟨rfl, rfl, hd⟩
  | some acts =>
    have he := rEnter_p r t
    have h1 := rRunActs_p t acts (rEnter r t) (he.2.trans hd)
    rw [he.1] at h1
    have h2 := rPollDone_p (rRunActs t acts (rEnter r t)) t h1.2.2
    have h3 := vtDrop_p (rPollDone (rRunActs t acts (rEnter r t)) t).1 t
    have e : ((rRunActs t acts (rEnter r t)).1.s, (rRunActs t acts (rEnter r t)).2) =
        runActs t acts (logEv r.s (.poll t)) := Prod.ext h1.1 h1.2.1
    rw [e] at h2
    exact ⟨h3.1.trans h2.1, h2.2.1, h3.2.trans h2.2.2⟩

theorem rStep_p (r : RState) (hd : r.dead = false) :
    (rStep r).map (fun x => (x.1.s, x.2)) = step r.s ∧ ∀ x, rStep r = some x → x.1.dead = false := by
  unfold rStep step
  cases hq : r.s.queue with
  | nil => exact ⟨rfl, fun x h => by cases h⟩
  | cons t q =>
    have hl := locUp_p { r with s := { r.s with queue := q } } t
    have hp := rPoll_p (locUp { r with s := { r.s with queue := q } } t) t (hl.2.trans hd)
    rw [hl.1] at hp
    have hdrop : ∀ y : RState, (locDown (decStrong y t) t).s = y.s ∧ (locDown (decStrong y t) t).dead = y.dead :=
      fun y => ⟨(locDown_p _ t).1.trans (decStrong_p y t).1, (locDown_p _ t).2.trans (decStrong_p y t).2⟩
    refine ⟨?_, ?_⟩
    · simp only [Option.map_some]
      congr 1
      exact Prod.ext ((hdrop _).1.trans hp.1) hp.2.1
    · intro x hx
      simp only [Option.some.injEq] at hx
      subst hx
      exact (hdrop _).2.trans hp.2.2

theorem rStepN_p (n : Nat) (r : RState) (hd : r.dead = false) :
    (rStepN n r).s = stepN n r.s ∧ (rStepN n r).dead = false := by
  induction n generalizing r with
  | zero => exact ⟨rfl, hd⟩
  | succ n ih =>
    obtain ⟨h1, h2⟩ := rStep_p r hd
    simp only [rStepN, stepN]
    cases hs : rStep r with
    | none =>
      rw [hs] at h1
      simp only [Option.map_none] at h1
      rw [← h1]
      exact ⟨rfl, hd⟩
    | some x =>
      rw [hs] at h1
      simp only [Option.map_some] at h1
      rw [← h1]
      exact ih x.1 (h2 x hs)

theorem rSpawnRoots_p (scs : List Script) (r : RState) :
    (rSpawnRoots scs r).s = spawnRoots scs r.s ∧ (rSpawnRoots scs r).dead = r.dead := by
  induction scs generalizing r with
  | nil => exact ⟨rfl, rfl⟩
  | cons sc rest ih => exact ih (rNew r r.s.ntasks sc)

theorem rInit_p (sticky : Bool) (scripts : List Script) (roots : Nat) :
    (rInit sticky scripts roots).s = init sticky scripts roots ∧ (rInit sticky scripts roots).dead = false :=
  rSpawnRoots_p _ _

/-! ### the `v` operations: `rRun` runs `xRun` of Model.lean -/

theorem wakeAllVal_d (ws : List Nat) (r : RState) (hd : r.dead = true) :
    (wakeAllVal r ws).s = r.s ∧ (wakeAllVal r ws).dead = true := by
  induction ws generalizing r with
  | nil => exact ⟨rfl, hd⟩
  | cons w ws ih =>
    have h := vtWake_d r w hd
    have := ih (lg (vtWake r w) [cWake w]) h.2
    have e : (lg (vtWake r w) [cWake w]).s = (vtWake r w).s := rfl
    rw [e, h.1] at this
    exact this

theorem wakeAllRef_d (ws : List Nat) (r : RState) (hd : r.dead = true) :
    (wakeAllRef r ws).s = r.s ∧ (wakeAllRef r ws).dead = true := by
  induction ws generalizing r with
  | nil => exact ⟨rfl, hd⟩
  | cons w ws ih =>
    have hc := vtClone_p r w
    have h := vtWakeByRef_d (vtClone r w) w (hc.2.trans hd)
    rw [hc.1] at h
    have hdp := vtDrop_p (vtWakeByRef (vtClone r w) w) w
    have := ih (lg (vtDrop (vtWakeByRef (vtClone r w) w) w) [cClone w, cRef w, cDrop w]) (hdp.2.trans h.2)
    have e : (lg (vtDrop (vtWakeByRef (vtClone r w) w) w) [cClone w, cRef w, cDrop w]).s =
      (vtDrop (vtWakeByRef (vtClone r w) w) w).s := rfl
    rw [e, hdp.1, h.1] at this
    exact this

theorem foldl_decStrong_p (l : List Nat) (r : RState) :
    (l.foldl decStrong r).s = r.s ∧ (l.foldl decStrong r).dead = r.dead := by
  induction l generalizing r with
  | nil => exact ⟨rfl, rfl⟩
  | cons a l ih =>
    simp only [List.foldl_cons]
    exact ⟨(ih _).1.trans (decStrong_p r a).1, (ih _).2.trans (decStrong_p r a).2⟩

/-- with an empty queue, clearing the queue after any wake-ups gives the state back -/
theorem clear_wakeAll (s : State) (ws : List Nat) (h : s.queue = []) :
    { wakeAll s ws with queue := [] } = s := by
  cases s; simp only [wakeAll] at *; simp [h]

theorem clear_wakeAll_upd (s : State) (ws : List Nat) (k : Nat) (h : s.queue = []) :
    { { wakeAll s ws with waiters := upd (wakeAll s ws).waiters k [] } with queue := [] } =
      { s with waiters := upd s.waiters k [] } := by
  cases s; simp only [wakeAll] at *; simp [h]

theorem clear_wake (s : State) (t : Nat) (h : s.queue = []) : { wake s t with queue := [] } = s := by
  cases s; simp only [wake] at *; simp [h]

theorem clear_self (s : State) (h : s.queue = []) : { s with queue := [] } = s := by
  cases s; simp at *; simp [h]

theorem settle_alive (x : XState) (h : x.dead = false) : x.settle = x := by
  unfold XState.settle; simp [h]

theorem settle_dead (x : XState) (h : x.dead = true) : x.settle = { x with s := { x.s with queue := [] } } := by
  unfold XState.settle; simp [h]

/-- the counted run and the plain run of Model.lean are in the same state -/
def Same (r : RState) (x : XState) : Prop := r.s = x.s ∧ r.dead = x.dead

theorem same_settle_alive {r' : RState} {y : XState} (hy : y.dead = false) (h : Same r' y) : Same r' y.settle := by
  rw [settle_alive y hy]; exact h

theorem same_settle_dead {r' : RState} {y : XState} (hy : y.dead = true)
    (h1 : r'.s = { y.s with queue := [] }) (h2 : r'.dead = true) : Same r' y.settle := by
  rw [settle_dead y hy]; exact ⟨h1, h2.trans hy.symm⟩

theorem same_rRun (r : RState) (x : XState) (op : XOp) (h : Same r x) (hq : x.dead = true → x.s.queue = []) :
    Same (rRun r op) (xRun x op) := by
  obtain ⟨hs, hdd⟩ := h
  rcases Bool.eq_false_or_eq_true x.dead with hdead | hdead
  · -- the executor has been dropped
    have hd : r.dead = true := hdd.trans hdead
    have hq0 : x.s.queue = [] := hq hdead
    cases op with
    | step => simp only [rRun, xRun, hd, hdead, if_true]; exact ⟨hs, hdd⟩
    | rus => simp only [rRun, xRun, hd, hdead, if_true]; exact ⟨hs, hdd⟩
    | wake k i =>
      simp only [rRun, xRun, xApply]
      rw [hs]
      cases hw : (x.s.waiters k)[i]? with
      | none => exact ⟨hs, hdd⟩
      | some t =>
        simp only []
        have := vtWake_d { r with s := { x.s with waiters := upd x.s.waiters k ((x.s.waiters k).eraseIdx i) } } t hd
        refine same_settle_dead hdead (this.1.trans ?_) this.2
        exact (clear_wake { x.s with waiters := upd x.s.waiters k ((x.s.waiters k).eraseIdx i) } t hq0).symm
    | byRef k i =>
      simp only [rRun, xRun, xApply]
      rw [hs]
      cases hw : (x.s.waiters k)[i]? with
      | none => exact ⟨hs, hdd⟩
      | some t =>
        simp only []
        have := vtWakeByRef_d r t hd
        exact same_settle_dead hdead (this.1.trans (hs.trans (clear_wake x.s t hq0).symm)) this.2
    | clone k i =>
      simp only [rRun, xRun, xApply]
      rw [hs]
      cases hw : (x.s.waiters k)[i]? with
      | none => exact ⟨hs, hdd⟩
      | some t =>
        simp only []
        have := vtClone_p r t
        refine ⟨?_, this.2.trans hdd⟩
        show { (vtClone r t).s with waiters := upd (vtClone r t).s.waiters k ((vtClone r t).s.waiters k ++ [t]) } = _
        rw [this.1, hs]
    | drop k i =>
      simp only [rRun, xRun, xApply]
      rw [hs]
      cases hw : (x.s.waiters k)[i]? with
      | none => exact ⟨hs, hdd⟩
      | some t =>
        simp only []
        have := vtDrop_p { r with s := { x.s with waiters := upd x.s.waiters k ((x.s.waiters k).eraseIdx i) } } t
        exact ⟨this.1, this.2.trans hdd⟩
    | signal k =>
      simp only [rRun, xRun, xApply]
      refine same_settle_dead hdead ?_ ?_
      · by_cases hst : r.s.sticky = true
        · rw [rSignal_sticky r k hst, signal_sticky x.s k (hs ▸ hst)]
          have := wakeAllRef_d (r.s.waiters k)
            { r with s := { r.s with tokens := upd r.s.tokens k (r.s.tokens k + 1) } } hd
          rw [this.1, hs]
          exact (clear_wakeAll { x.s with tokens := upd x.s.tokens k (x.s.tokens k + 1) } _ hq0).symm
        · rw [rSignal_drain r k hst, signal_drain x.s k (hs ▸ hst)]
          have hW := wakeAllVal_d (r.s.waiters k)
            { r with s := { r.s with tokens := upd r.s.tokens k (r.s.tokens k + 1) } } hd
          generalize wakeAllVal { r with s := { r.s with tokens := upd r.s.tokens k (r.s.tokens k + 1) } }
            (r.s.waiters k) = W at hW ⊢
          show { W.s with waiters := upd W.s.waiters k [] } = _
          rw [hW.1]
          show { { r.s with tokens := upd r.s.tokens k (r.s.tokens k + 1) } with
            waiters := upd r.s.waiters k [] } = _
          rw [hs]
          exact (clear_wakeAll_upd { x.s with tokens := upd x.s.tokens k (x.s.tokens k + 1) } (x.s.waiters k) k hq0).symm
      · by_cases hst : r.s.sticky = true
        · rw [rSignal_sticky r k hst]
          exact (wakeAllRef_d _ { r with s := { r.s with tokens := upd r.s.tokens k (r.s.tokens k + 1) } } hd).2
        · rw [rSignal_drain r k hst]
          exact (wakeAllVal_d _ { r with s := { r.s with tokens := upd r.s.tokens k (r.s.tokens k + 1) } } hd).2
    | dropExec =>
      simp only [rRun, xRun, xApply, hd, if_true]
      exact same_settle_dead rfl (hs.trans (clear_self x.s hq0).symm) hd
    | try_ c =>
      simp only [rRun, xRun, xApply]
      rw [hs]
      split
      · exact ⟨rfl, hdd⟩
      · exact ⟨hs, hdd⟩
    | spawn =>
      simp only [rRun, xRun, xApply]
      rw [hs]
      cases hp : x.s.pool with
      | nil => exact ⟨hs, hdd⟩
      | cons sc rest =>
        simp only [hd, hdead, if_true, spawnWeak, Option.map_none]
        exact ⟨hs, hdd⟩
  · have hd : r.dead = false := hdd.trans hdead
    cases op with
    | step =>
      simp only [rRun, xRun, hd, hdead, Bool.false_eq_true, if_false]
      have := rStepN_p 1 r hd
      exact ⟨by rw [this.1, hs], this.2⟩
    | rus =>
      simp only [rRun, xRun, hd, hdead, Bool.false_eq_true, if_false]
      have := rStepN_p maxSteps r hd
      exact ⟨by rw [this.1, hs, runUntilStalled_state], this.2⟩
    | wake k i =>
      simp only [rRun, xRun, xApply]
      rw [hs]
      cases hw : (x.s.waiters k)[i]? with
      | none => exact ⟨hs, hdd⟩
      | some t =>
        simp only []
        have := vtWake_p { r with s := { x.s with waiters := upd x.s.waiters k ((x.s.waiters k).eraseIdx i) } } t hd
        exact same_settle_alive hdead ⟨this.1, by show _ = x.dead; rw [hdead]; exact this.2⟩
    | byRef k i =>
      simp only [rRun, xRun, xApply]
      rw [hs]
      cases hw : (x.s.waiters k)[i]? with
      | none => exact ⟨hs, hdd⟩
      | some t =>
        simp only []
        have := vtWakeByRef_p r t hd
        exact same_settle_alive hdead ⟨by show (vtWakeByRef r t).s = _; rw [this.1, hs], by show _ = x.dead; rw [hdead]; exact this.2⟩
    | clone k i =>
      simp only [rRun, xRun, xApply]
      rw [hs]
      cases hw : (x.s.waiters k)[i]? with
      | none => exact ⟨hs, hdd⟩
      | some t =>
        simp only []
        have := vtClone_p r t
        refine ⟨?_, this.2.trans hdd⟩
        show { (vtClone r t).s with waiters := upd (vtClone r t).s.waiters k ((vtClone r t).s.waiters k ++ [t]) } = _
        rw [this.1, hs]
    | drop k i =>
      simp only [rRun, xRun, xApply]
      rw [hs]
      cases hw : (x.s.waiters k)[i]? with
      | none => exact ⟨hs, hdd⟩
      | some t =>
        simp only []
        have := vtDrop_p { r with s := { x.s with waiters := upd x.s.waiters k ((x.s.waiters k).eraseIdx i) } } t
        exact ⟨this.1, this.2.trans hdd⟩
    | signal k =>
      simp only [rRun, xRun, xApply]
      have := rSignal_p r k hd
      exact same_settle_alive hdead ⟨by rw [this.1, hs], by show _ = x.dead; rw [hdead]; exact this.2⟩
    | dropExec =>
      simp only [rRun, xRun, xApply, hd, Bool.false_eq_true, if_false]
      have := foldl_decStrong_p r.s.queue r
      refine same_settle_dead rfl ?_ rfl
      show { (r.s.queue.foldl decStrong r).s with queue := [] } = _
      rw [this.1, hs]
    | try_ c =>
      simp only [rRun, xRun, xApply]
      rw [hs]
      split
      · exact ⟨rfl, hdd⟩
      · exact ⟨hs, hdd⟩
    | spawn =>
      simp only [rRun, xRun, xApply]
      rw [hs]
      cases hp : x.s.pool with
      | nil => exact ⟨hs, hdd⟩
      | cons sc rest =>
        simp only [hd, hdead, Bool.false_eq_true, if_false, spawnWeak, Option.map_some]
        exact ⟨rfl, rfl⟩

theorem same_rRunAll (ops : List XOp) (r : RState) (x : XState) (h : Same r x) (hx : XInv x) :
    Same (rRunAll r ops) (xRunAll x ops) := by
  induction ops generalizing r x with
  | nil => exact h
  | cons op ops ih =>
    exact ih (rRun r op) (xRun x op) (same_rRun r x op h (fun hd => (hx.dead hd).1)) (xinv_xRun x op hx)

/-! ### the vtable entries one by one -/

theorem lt_of_wk {r : RState} (hb : BalU r) {t : Nat} (hw : 0 < r.wk t) : t < r.s.ntasks := by
  rcases Nat.lt_or_ge t r.s.ntasks with h | h
  · exact h
  · have := (hb.fresh t h).1; omega

theorem vtClone_eq {r : RState} {t : Nat} (ht : t < r.s.ntasks) :
    vtClone r t = { r with strong := upd r.strong t (r.strong t + 1), wk := upd r.wk t (r.wk t + 1) } := by
  unfold vtClone wkUp incStrong
  simp [ht]

theorem vtDrop_eq {r : RState} {t : Nat} (hs : r.strong t ≠ 0) (hw : r.wk t ≠ 0) :
    vtDrop r t = { r with strong := upd r.strong t (r.strong t - 1), wk := upd r.wk t (r.wk t - 1) } := by
  unfold vtDrop wkDown decStrong
  simp [hs, hw]

theorem fromRaw_eq {r : RState} {t : Nat} (ht : t < r.s.ntasks) (hw : r.wk t ≠ 0) :
    locUp (wkDown r t) t = { r with wk := upd r.wk t (r.wk t - 1), loc := upd r.loc t (r.loc t + 1) } := by
  unfold locUp wkDown
  simp [ht, hw]

theorem taskWake_drop_eq {r : RState} {t : Nat} (hc : r.dead = true ∨ t ∈ r.s.queue) (hs : r.strong t ≠ 0)
    (hl : r.loc t ≠ 0) :
    taskWake r t = { r with strong := upd r.strong t (r.strong t - 1), loc := upd r.loc t (r.loc t - 1) } := by
  unfold taskWake locDown decStrong
  rcases hc with hc | hc
  · simp [hc, hs, hl]
  · by_cases hd : r.dead = true
    · simp [hd, hs, hl]
    · simp [hd, hc, hs, hl]

theorem taskWake_push_eq {r : RState} {t : Nat} (hd : r.dead = false) (hq : t ∉ r.s.queue) (hl : r.loc t ≠ 0) :
    taskWake r t = { r with loc := upd r.loc t (r.loc t - 1), s := wake r.s t } := by
  unfold taskWake locDown
  simp [hd, hq, hl]

theorem vtable_steps (r : RState) (t : Nat) (hb : BalU r) (hg : r.gunder = false) (hw : 0 < r.wk t) :
    (BalU (vtClone r t) ∧ (vtClone r t).strong t = r.strong t + 1 ∧ (vtClone r t).wk t = r.wk t + 1) ∧
    (BalU (vtDrop r t) ∧ (vtDrop r t).strong t + 1 = r.strong t ∧ (vtDrop r t).wk t + 1 = r.wk t) ∧
    (BalU (vtWake r t) ∧ (vtWake r t).wk t + 1 = r.wk t ∧
      (vtWake r t).strong t + (if r.dead = false ∧ t ∉ r.s.queue then 0 else 1) = r.strong t ∧
      (vtWake r t).s.queue = (if r.dead = false then enq r.s.queue t else r.s.queue)) ∧
    (BalU (vtWakeByRef r t) ∧ (vtWakeByRef r t).wk t = r.wk t ∧
      (vtWakeByRef r t).strong t = r.strong t + (if r.dead = false ∧ t ∉ r.s.queue then 1 else 0) ∧
      (vtWakeByRef r t).s.queue = (if r.dead = false then enq r.s.queue t else r.s.queue)) := by
  have ht := lt_of_wk hb hw
  have hbal := hb.bal t
  have hs : r.strong t ≠ 0 := by omega
  have hwn : r.wk t ≠ 0 := by omega
  refine ⟨?_, ?_, ?_, ?_⟩
  · have e := vtClone_eq (r := r) ht
    have hg' : (vtClone r t).gunder = false := by rw [e]; exact hg
    exact ⟨((pres_vtClone r t) hg').2.2 hb, by rw [e]; simp [upd_apply], by rw [e]; simp [upd_apply]⟩
  · have e := vtDrop_eq (r := r) hs hwn
    have hg' : (vtDrop r t).gunder = false := by rw [e]; exact hg
    refine ⟨((pres_vtDrop r t) hg').2.2 hb, ?_, ?_⟩
    · rw [e]; simp only [upd_apply, if_true]; omega
    · rw [e]; simp only [upd_apply, if_true]; omega
  · have e1 := fromRaw_eq (r := r) ht hwn
    have hl1 : ({ r with wk := upd r.wk t (r.wk t - 1), loc := upd r.loc t (r.loc t + 1) } : RState).loc t ≠ 0 := by
      simp [upd_apply]
    by_cases hc : r.dead = false ∧ t ∉ r.s.queue
    · have e2 : vtWake r t = taskWake (locUp (wkDown r t) t) t := rfl
      rw [e1, taskWake_push_eq (by exact hc.1) (by exact hc.2) hl1] at e2
      have hg' : (vtWake r t).gunder = false := by rw [e2]; exact hg
      refine ⟨((pres_vtWake r t) hg').2.2 hb, ?_, ?_, ?_⟩
      · rw [e2]; simp only [upd_apply, if_true]; omega
      · rw [e2]; simp [hc]
      · rw [e2]; simp [hc.1, wake]
    · have hc' : r.dead = true ∨ t ∈ r.s.queue := by
        by_cases hd : r.dead = true
        · exact Or.inl hd
        · right
          have hd' : r.dead = false := by cases h : r.dead <;> simp_all
          by_cases hq : t ∈ r.s.queue
          · exact hq
          · exact absurd ⟨hd', hq⟩ hc
      have e2 : vtWake r t = taskWake (locUp (wkDown r t) t) t := rfl
      rw [e1, taskWake_drop_eq (by exact hc') (by exact hs) hl1] at e2
      have hg' : (vtWake r t).gunder = false := by rw [e2]; exact hg
      refine ⟨((pres_vtWake r t) hg').2.2 hb, ?_, ?_, ?_⟩
      · rw [e2]; simp only [upd_apply, if_true]; omega
      · rw [e2]; simp only [hc, if_false, upd_apply, if_true]; omega
      · rw [e2]
        rcases hc' with hd | hq
        · simp [hd]
        · by_cases hd : r.dead = false
          · simp [hd, enq, hq]
          · simp [hd]
  · have e1 : locUp (incStrong r t) t =
        { r with strong := upd r.strong t (r.strong t + 1), loc := upd r.loc t (r.loc t + 1) } := by
      unfold locUp incStrong; simp [ht]
    have hl1 : ({ r with strong := upd r.strong t (r.strong t + 1), loc := upd r.loc t (r.loc t + 1) } : RState).loc t ≠ 0 := by
      simp [upd_apply]
    have hs1 : ({ r with strong := upd r.strong t (r.strong t + 1), loc := upd r.loc t (r.loc t + 1) } : RState).strong t ≠ 0 := by
      simp [upd_apply]
    by_cases hc : r.dead = false ∧ t ∉ r.s.queue
    · have e2 : vtWakeByRef r t = taskWake (locUp (incStrong r t) t) t := rfl
      rw [e1, taskWake_push_eq (by exact hc.1) (by exact hc.2) hl1] at e2
      have hg' : (vtWakeByRef r t).gunder = false := by rw [e2]; exact hg
      refine ⟨((pres_vtWakeByRef r t) hg').2.2 hb, ?_, ?_, ?_⟩
      · rw [e2]
      · rw [e2]; simp [hc, upd_apply]
      · rw [e2]; simp [hc.1, wake]
    · have hc' : r.dead = true ∨ t ∈ r.s.queue := by
        by_cases hd : r.dead = true
        · exact Or.inl hd
        · right
          have hd' : r.dead = false := by cases h : r.dead <;> simp_all
          by_cases hq : t ∈ r.s.queue
          · exact hq
          · exact absurd ⟨hd', hq⟩ hc
      have e2 : vtWakeByRef r t = taskWake (locUp (incStrong r t) t) t := rfl
      rw [e1, taskWake_drop_eq (by exact hc') hs1 hl1] at e2
      have hg' : (vtWakeByRef r t).gunder = false := by rw [e2]; exact hg
      refine ⟨((pres_vtWakeByRef r t) hg').2.2 hb, ?_, ?_, ?_⟩
      · rw [e2]
      · rw [e2]; simp [hc, upd_apply]
      · rw [e2]
        rcases hc' with hd | hq
        · simp [hd]
        · by_cases hd : r.dead = false
          · simp [hd, enq, hq]
          · simp [hd]

end YashModel.Executor.Rc
