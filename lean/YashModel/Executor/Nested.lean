/-
  C15 helper lemmas, part 9: `Executor::step` called from inside a poll (`NestedModel.lean`).  The invariant
  `NInv` — queue duplicate-free, the stack of polls in progress duplicate-free and equal to what a replay of
  the trace leaves open, borrowed slots occupied, finished tasks never entered again, depth budget never
  exhausted — holds through every nested poll, by induction on the depth budget and on the script.
-/
import YashModel.Executor.NestedModel
import YashModel.Executor.Termination
namespace YashModel.Executor.Nested

structure NInv (s : NState) : Prop where
  qn : s.queue.Nodup
  qlt : ∀ x, x ∈ s.queue → x < s.ntasks
  sn : s.stack.Nodup
  slt : ∀ x, x ∈ s.stack → x < s.ntasks
  klt : ∀ x, s.known x = true → x < s.ntasks
  /-- the trace is well nested and the polls it leaves open are exactly the stack -/
  rp : replay s.log [] = some s.stack
  /-- a borrowed slot is occupied -/
  occ : ∀ x, x ∈ s.stack → (s.fut x).isSome = true
  fin : ∀ t, NEv.exit t true ∈ s.log → s.fut t = none
  nef : s.log.Pairwise fun e e' => ∀ t, e = .exit t true → e' ≠ .enter t
  ns : s.starved = false

theorem replay_append (l l' : List NEv) (st : List Nat) :
    replay (l ++ l') st = (replay l st).bind fun st' => replay l' st' := by
  induction l generalizing st with
  | nil => simp [replay]
  | cons e l ih =>
    cases e with
    | enter t =>
      simp only [List.cons_append, replay]
      split
      · simp
      · exact ih _
    | exit t b =>
      cases st with
      | nil => simp [replay]
      | cons t' st' =>
        simp only [List.cons_append, replay]
        split
        · exact ih _
        · simp
    | noop t => simpa [replay] using ih st
    | guard t => simpa [replay] using ih st
    | idle => simpa [replay] using ih st

/-- the fields the invariant reads -/
theorem ninv_congr {s s' : NState} (h : NInv s) (e1 : s'.queue = s.queue) (e2 : s'.ntasks = s.ntasks)
    (e3 : s'.stack = s.stack) (e4 : s'.known = s.known) (e5 : s'.log = s.log) (e6 : s'.fut = s.fut)
    (e7 : s'.starved = s.starved) : NInv s' := by
  refine ⟨?_, ?_, ?_, ?_, ?_, ?_, ?_, ?_, ?_, ?_⟩
  · rw [e1]; exact h.qn
  · rw [e1, e2]; exact h.qlt
  · rw [e3]; exact h.sn
  · rw [e3, e2]; exact h.slt
  · rw [e4, e2]; exact h.klt
  · rw [e5, e3]; exact h.rp
  · rw [e3, e6]; exact h.occ
  · rw [e5, e6]; exact h.fin
  · rw [e5]; exact h.nef
  · rw [e7]; exact h.ns

/-- an event that neither opens nor closes a poll (`noop`, `guard`, `idle`) -/
theorem ninv_event {s : NState} (h : NInv s) (e : NEv) (h1 : ∀ t, e ≠ .enter t) (h2 : ∀ t b, e ≠ .exit t b) :
    NInv (nlog s e) := by
  have hr : ∀ st, replay [e] st = some st := by
    intro st
    cases e with
    | enter t => exact absurd rfl (h1 t)
    | exit t b => exact absurd rfl (h2 t b)
    | noop t => rfl
    | guard t => rfl
    | idle => rfl
  refine ⟨h.qn, h.qlt, h.sn, h.slt, h.klt, ?_, h.occ, ?_, ?_, h.ns⟩
  · show replay (s.log ++ [e]) [] = some s.stack
    rw [replay_append, h.rp]; exact hr _
  · intro t ht
    have ht' : NEv.exit t true ∈ s.log ++ [e] := ht
    rcases List.mem_append.mp ht' with hm | hm
    · exact h.fin t hm
    · simp only [List.mem_singleton] at hm
      exact absurd hm.symm (h2 t true)
  · show (s.log ++ [e]).Pairwise _
    rw [List.pairwise_append]
    refine ⟨h.nef, List.pairwise_singleton _ _, ?_⟩
    intro a _ b hb t _
    simp only [List.mem_singleton] at hb
    rw [hb]; exact h1 t

theorem ninv_wake {s : NState} (h : NInv s) (t : Nat) (ht : t < s.ntasks) : NInv (nwake s t) := by
  refine ⟨nodup_enq _ _ h.qn, ?_, h.sn, h.slt, h.klt, h.rp, h.occ, h.fin, h.nef, h.ns⟩
  intro x hx
  rcases (mem_enq_iff _ _ _).mp hx with hx | rfl
  · exact h.qlt x hx
  · exact ht

/-- `Task::poll` borrows the slot of a task that is not being polled and enters its future -/
theorem ninv_enter {s : NState} (h : NInv s) (t : Nat) (acts : NScript) (ht : t < s.ntasks)
    (hns : t ∉ s.stack) (hf : s.fut t = some acts) :
    NInv { nlog s (.enter t) with stack := t :: s.stack, known := upd s.known t true } := by
  refine ⟨h.qn, h.qlt, List.nodup_cons.mpr ⟨hns, h.sn⟩, ?_, ?_, ?_, ?_, ?_, ?_, h.ns⟩
  · intro x hx
    rcases List.mem_cons.mp hx with rfl | hx
    · exact ht
    · exact h.slt x hx
  · intro x hx
    have hx' : upd s.known t true x = true := hx
    by_cases e : x = t
    · rw [e]; exact ht
    · simp only [upd_apply, e, if_false] at hx'; exact h.klt x hx'
  · show replay (s.log ++ [.enter t]) [] = some (t :: s.stack)
    rw [replay_append, h.rp]
    simp [replay, hns]
  · intro x hx
    rcases List.mem_cons.mp hx with rfl | hx
    · show (s.fut x).isSome = true
      rw [hf]; rfl
    · exact h.occ x hx
  · intro x hx
    have hx' : NEv.exit x true ∈ s.log ++ [.enter t] := hx
    rcases List.mem_append.mp hx' with hm | hm
    · exact h.fin x hm
    · simp at hm
  · show (s.log ++ [NEv.enter t]).Pairwise _
    rw [List.pairwise_append]
    refine ⟨h.nef, List.pairwise_singleton _ _, ?_⟩
    intro a ha b hb x hax
    simp only [List.mem_singleton] at hb
    rw [hb]
    intro e
    injection e with e
    have hm : NEv.exit x true ∈ s.log := hax ▸ ha
    have := h.fin x hm
    rw [← e, hf] at this; cases this

/-- the poll of the innermost task returns: the borrow is released, the slot rewritten -/
theorem ninv_exit {s : NState} (h : NInv s) (t : Nat) (st : List Nat) (hst : s.stack = t :: st)
    (v : Option NScript) (b : Bool) (hb : b = true → v = none) :
    NInv (nlog { s with stack := s.stack.tail, fut := upd s.fut t v } (.exit t b)) := by
  have hnd : (t :: st).Nodup := hst ▸ h.sn
  have htn : t ∉ st := (List.nodup_cons.mp hnd).1
  refine ⟨h.qn, h.qlt, ?_, ?_, h.klt, ?_, ?_, ?_, ?_, h.ns⟩
  · show s.stack.tail.Nodup
    rw [hst]; exact (List.nodup_cons.mp hnd).2
  · intro x hx
    have hx' : x ∈ s.stack.tail := hx
    rw [hst] at hx'
    exact h.slt x (by rw [hst]; exact List.mem_cons_of_mem _ hx')
  · show replay (s.log ++ [.exit t b]) [] = some s.stack.tail
    rw [replay_append, h.rp, hst]
    simp [replay]
  · intro x hx
    have hx' : x ∈ s.stack.tail := hx
    rw [hst] at hx'
    have hxt : x ≠ t := fun e => htn (e ▸ hx')
    show (upd s.fut t v x).isSome = true
    simp only [upd_apply, hxt, if_false]
    exact h.occ x (by rw [hst]; exact List.mem_cons_of_mem _ hx')
  · intro x hx
    have hx' : NEv.exit x true ∈ s.log ++ [.exit t b] := hx
    show upd s.fut t v x = none
    rcases List.mem_append.mp hx' with hm | hm
    · have hfx := h.fin x hm
      by_cases e : x = t
      · subst e
        have := h.occ x (by rw [hst]; simp)
        rw [hfx] at this; cases this
      · simp only [upd_apply, e, if_false]; exact hfx
    · simp only [List.mem_singleton, NEv.exit.injEq] at hm
      obtain ⟨rfl, rfl⟩ := hm
      simp [upd_apply, hb rfl]
  · show (s.log ++ [NEv.exit t b]).Pairwise _
    rw [List.pairwise_append]
    refine ⟨h.nef, List.pairwise_singleton _ _, ?_⟩
    intro a _ c hc x _
    simp only [List.mem_singleton] at hc
    rw [hc]; intro e; cases e

/-- what a nested `Task::poll` must guarantee to the poll it runs inside of -/
def PollOK (inner : NState → Nat → NState) (d : Nat) : Prop :=
  ∀ s t, NInv s → t < s.ntasks → s.stack.length + d = s.ntasks + 1 →
    NInv (inner s t) ∧ (inner s t).ntasks = s.ntasks ∧
    ((inner s t).panicked = false → (inner s t).stack = s.stack)

/-- one poll of the future of `t`, with nested steps -/
theorem nRun_ok (inner : NState → Nat → NState) (d : Nat) (hin : PollOK inner d) (t : Nat) (acts : NScript) :
    ∀ s, NInv s → t < s.ntasks → s.stack.length + d = s.ntasks + 1 →
      NInv (nRun inner t acts s).1 ∧ (nRun inner t acts s).1.ntasks = s.ntasks ∧
      ((nRun inner t acts s).1.panicked = false → (nRun inner t acts s).1.stack = s.stack) := by
  induction acts with
  | nil => intro s h _ _; exact ⟨h, rfl, fun _ => rfl⟩
  | cons a rest ih =>
    intro s h ht hd
    cases a with
    | complete => exact ⟨h, rfl, fun _ => rfl⟩
    | yield => exact ⟨ninv_wake h t ht, rfl, fun _ => rfl⟩
    | wake u =>
      simp only [nRun]
      split
      · rename_i hk
        exact ih (nwake s u) (ninv_wake h u (h.klt u hk)) ht hd
      · exact ih s h ht hd
    | nest =>
      simp only [nRun]
      cases hq : s.queue with
      | nil =>
        simp only []
        exact ih (nlog s .idle) (ninv_event h .idle (fun _ => by simp) (fun _ _ => by simp)) ht hd
      | cons u q =>
        simp only []
        have hnd : (u :: q).Nodup := hq ▸ h.qn
        have h1 : NInv { s with queue := q } :=
          ⟨(List.nodup_cons.mp hnd).2, fun x hx => h.qlt x (by rw [hq]; exact List.mem_cons_of_mem _ hx),
           h.sn, h.slt, h.klt, h.rp, h.occ, h.fin, h.nef, h.ns⟩
        have hu : u < s.ntasks := h.qlt u (by rw [hq]; simp)
        obtain ⟨i1, i2, i3⟩ := hin { s with queue := q } u h1 hu hd
        split
        · rename_i hp
          exact ⟨i1, i2, fun hnp => by rw [hp] at hnp; cases hnp⟩
        · rename_i hp
          have hp' : (inner { s with queue := q } u).panicked = false := by
            cases hpp : (inner { s with queue := q } u).panicked with
            | false => rfl
            | true => exact absurd hpp hp
          have hs := i3 hp'
          obtain ⟨j1, j2, j3⟩ := ih (inner { s with queue := q } u) i1 (by rw [i2]; exact ht)
            (by rw [hs, i2]; exact hd)
          exact ⟨j1, j2.trans i2, fun hnp => (j3 hnp).trans hs⟩

/-- `Task::poll` at any depth: the recursion guard, a no-op poll, or a whole (possibly nesting) poll -/
theorem nPoll_ok : ∀ d, PollOK (nPoll d) d := by
  intro d
  induction d with
  | zero =>
    intro s t h _ hd
    have := nodup_length_le s.stack s.ntasks h.sn h.slt
    omega
  | succ d ih =>
    intro s t h ht hd
    simp only [nPoll]
    by_cases hm : t ∈ s.stack
    · simp only [hm, if_true]
      exact ⟨ninv_congr (ninv_event h (.guard t) (fun _ => by simp) (fun _ _ => by simp)) rfl rfl rfl rfl rfl rfl rfl,
        rfl, fun hp => by cases hp⟩
    · simp only [hm, if_false]
      cases hf : s.fut t with
      | none =>
        simp only []
        exact ⟨ninv_event h (.noop t) (fun _ => by simp) (fun _ _ => by simp), rfl, fun _ => rfl⟩
      | some acts =>
        simp only []
        have h0 := ninv_enter h t acts ht hm hf
        obtain ⟨r1, r2, r3⟩ := nRun_ok (nPoll d) d ih t acts
          { nlog s (.enter t) with stack := t :: s.stack, known := upd s.known t true } h0 ht
          (by show (t :: s.stack).length + d = s.ntasks + 1; simp only [List.length_cons]; omega)
        generalize nRun (nPoll d) t acts
          { nlog s (.enter t) with stack := t :: s.stack, known := upd s.known t true } = r at r1 r2 r3
        cases hp : r.1.panicked with
        | true =>
          simp only [if_true]
          exact ⟨r1, r2, fun hnp => by rw [hp] at hnp; cases hnp⟩
        | false =>
          simp only [Bool.false_eq_true, if_false]
          have hst : r.1.stack = t :: s.stack := r3 hp
          cases hr2 : r.2 with
          | some rest =>
            simp only []
            refine ⟨ninv_congr (ninv_exit r1 t s.stack hst (some rest) false (fun e => by cases e)) rfl rfl rfl rfl rfl rfl rfl,
              r2, fun _ => ?_⟩
            show r.1.stack.tail = s.stack
            rw [hst]; rfl
          | none =>
            simp only []
            refine ⟨ninv_congr (ninv_exit r1 t s.stack hst none true (fun _ => rfl)) rfl rfl rfl rfl rfl rfl rfl,
              r2, fun _ => ?_⟩
            show r.1.stack.tail = s.stack
            rw [hst]; rfl

/-! ### steps from outside -/

/-- what holds between two top-level steps: no poll is in progress unless the guard has panicked -/
structure NTop (s : NState) : Prop where
  inv : NInv s
  idle : s.panicked = false → s.stack = []

theorem ntop_step {s s' : NState} (h : NTop s) (hs : nStep s = some s') : NTop s' := by
  unfold nStep at hs
  split at hs
  · cases hs
  · rename_i hp
    have hp' : s.panicked = false := by
      cases hpp : s.panicked with
      | false => rfl
      | true => exact absurd hpp hp
    have hst := h.idle hp'
    cases hq : s.queue with
    | nil => simp [hq] at hs
    | cons t q =>
      simp only [hq, Option.some.injEq] at hs
      subst hs
      have hnd : (t :: q).Nodup := hq ▸ h.inv.qn
      have h1 : NInv { s with queue := q } :=
        ⟨(List.nodup_cons.mp hnd).2, fun x hx => h.inv.qlt x (by rw [hq]; exact List.mem_cons_of_mem _ hx),
         h.inv.sn, h.inv.slt, h.inv.klt, h.inv.rp, h.inv.occ, h.inv.fin, h.inv.nef, h.inv.ns⟩
      obtain ⟨i1, _, i3⟩ := nPoll_ok (s.ntasks + 1) { s with queue := q } t h1
        (h.inv.qlt t (by rw [hq]; simp)) (by show s.stack.length + (s.ntasks + 1) = s.ntasks + 1; rw [hst]; simp)
      exact ⟨i1, fun hnp => (i3 hnp).trans hst⟩

theorem ntop_stepN (n : Nat) {s : NState} (h : NTop s) : NTop (nStepN n s) := by
  induction n generalizing s with
  | zero => exact h
  | succ n ih =>
    simp only [nStepN]
    cases hs : nStep s with
    | none => exact h
    | some s' => exact ih (ntop_step h hs)

theorem ntop_init (scripts : List NScript) : NTop (nInit scripts) := by
  refine ⟨⟨List.nodup_range, fun x hx => List.mem_range.mp hx, List.nodup_nil, ?_, ?_, rfl, ?_, ?_,
    List.Pairwise.nil, rfl⟩, fun _ => rfl⟩
  · intro x hx; cases hx
  · intro x hx; cases hx
  · intro x hx; cases hx
  · intro t ht; cases ht

/-! ### the executable checks follow -/

theorem n_nodupB_of (q : List Nat) (h : q.Nodup) : nodupB q = true := by
  induction q with
  | nil => rfl
  | cons a t ih =>
    have := List.nodup_cons.mp h
    simp only [nodupB, Bool.and_eq_true, Bool.not_eq_true']
    refine ⟨?_, ih this.2⟩
    cases hc : t.contains a with
    | false => rfl
    | true => exact absurd (List.contains_iff_mem.mp hc) this.1

theorem noEnterAfterFinB_of (log : List NEv)
    (h : log.Pairwise fun e e' => ∀ t, e = .exit t true → e' ≠ .enter t) : noEnterAfterFinB log = true := by
  induction log with
  | nil => rfl
  | cons e rest ih =>
    have hp := List.pairwise_cons.mp h
    have ih' := ih hp.2
    cases e with
    | exit t b =>
      cases b with
      | false => simpa [noEnterAfterFinB] using ih'
      | true =>
        simp only [noEnterAfterFinB, Bool.and_eq_true, Bool.not_eq_true']
        refine ⟨?_, ih'⟩
        cases hc : rest.contains (.enter t) with
        | false => rfl
        | true => exact absurd rfl (hp.1 _ (List.contains_iff_mem.mp hc) t rfl)
    | enter t => simpa [noEnterAfterFinB] using ih'
    | noop t => simpa [noEnterAfterFinB] using ih'
    | guard t => simpa [noEnterAfterFinB] using ih'
    | idle => simpa [noEnterAfterFinB] using ih'

theorem nCheck_of {s : NState} (h : NTop s) : nCheck s = none := by
  have h1 := n_nodupB_of _ h.inv.qn
  have h2 : wellNestedB s.log = true := by unfold wellNestedB; rw [h.inv.rp]; rfl
  have h3 := noEnterAfterFinB_of _ h.inv.nef
  have h4 := h.inv.ns
  unfold nCheck
  simp only [h1, h2, h3, h4, Bool.not_true, Bool.false_eq_true, if_false]
  cases hp : s.panicked with
  | true => simp
  | false => simp [h.idle hp]

/-! ### what the replay check means -/

/-- a poll that is open stays open as long as the trace does not close it -/
theorem replay_keeps (l : List NEv) (st st' : List Nat) (t : Nat) (h : replay l st = some st') (ht : t ∈ st)
    (hn : ∀ b, NEv.exit t b ∉ l) : t ∈ st' := by
  induction l generalizing st with
  | nil => simp [replay] at h; exact h ▸ ht
  | cons e l ih =>
    have hn' : ∀ b, NEv.exit t b ∉ l := fun b hb => hn b (List.mem_cons_of_mem _ hb)
    cases e with
    | enter u =>
      simp only [replay] at h
      split at h
      · cases h
      · exact ih _ h (List.mem_cons_of_mem _ ht) hn'
    | exit u b =>
      cases st with
      | nil => cases ht
      | cons u' st0 =>
        simp only [replay] at h
        split at h
        · rename_i hu
          have hu' : u = u' := by simpa using hu
          have hne : t ≠ u' := by
            intro e; subst e; subst hu'
            exact hn b (by simp)
          rcases List.mem_cons.mp ht with e | hm
          · exact absurd e hne
          · exact ih _ h hm hn'
        · cases h
    | noop u => exact ih _ (by simpa [replay] using h) ht hn'
    | guard u => exact ih _ (by simpa [replay] using h) ht hn'
    | idle => exact ih _ (by simpa [replay] using h) ht hn'

theorem replay_prefix (l l' : List NEv) (st : List Nat) (h : (replay (l ++ l') st).isSome = true) :
    ∃ st', replay l st = some st' ∧ (replay l' st').isSome = true := by
  rw [replay_append] at h
  cases hr : replay l st with
  | none => rw [hr] at h; simp at h
  | some st' => rw [hr] at h; exact ⟨st', rfl, by simpa using h⟩

/-- What `wellNestedB` says: between two entries of the future of the same task its earlier poll has returned. -/
theorem wellNested_no_reentry (l1 l2 l3 : List NEv) (t : Nat)
    (h : wellNestedB (l1 ++ [.enter t] ++ l2 ++ [.enter t] ++ l3) = true) : ∃ b, NEv.exit t b ∈ l2 := by
  unfold wellNestedB at h
  have e : l1 ++ [NEv.enter t] ++ l2 ++ [NEv.enter t] ++ l3 = (l1 ++ [.enter t]) ++ (l2 ++ ([.enter t] ++ l3)) := by
    simp
  rw [e] at h
  obtain ⟨st1, h1, h1'⟩ := replay_prefix _ _ _ h
  obtain ⟨st2, h2, h2'⟩ := replay_prefix _ _ _ h1'
  have ht1 : t ∈ st1 := by
    rw [replay_append] at h1
    cases hr : replay l1 [] with
    | none => rw [hr] at h1; simp at h1
    | some st0 =>
      rw [hr] at h1
      simp only [Option.bind_some, replay] at h1
      split at h1
      · cases h1
      · simp only [Option.some.injEq] at h1
        rw [← h1]; simp
  by_cases ha : NEv.exit t true ∈ l2
  · exact ⟨true, ha⟩
  by_cases hb : NEv.exit t false ∈ l2
  · exact ⟨false, hb⟩
  exfalso
  have hn : ∀ b, NEv.exit t b ∉ l2 := fun b => by cases b <;> assumption
  have ht2 := replay_keeps l2 st1 st2 t h2 ht1 hn
  simp [replay, ht2] at h2'

end YashModel.Executor.Nested
