/-
  C15 — property theorems (and non-vacuity examples) ONLY.  Helper lemmas: `Lemmas.lean`, `Inv.lean`,
  `Steps.lean`, `SpecLemmas.lean`, `Outside.lean`, `Ops.lean`, `Termination.lean`, `Values.lean`; `Tables.lean` =
  the interpretation of the tables re-extracted from /repo.

  Property text: "For every set of cooperating tasks and every order of wake-ups, the single-threaded
  executor polls a task again whenever it has been woken since it last returned pending - including
  wakes issued while it is being polled, by itself or by another task - never polls a task after it
  completed or re-entrantly, queues a task at most once however often it is woken, lets no woken task be
  starved by others that keep re-waking themselves, and delivers each spawned task's result to its
  receiver exactly once.  When the run loop stalls, every unfinished task is genuinely waiting for a
  wake-up that has not happened."

  "Every task system" = every list of scripts, every number of roots, both channel modes
  (`init sticky scripts roots`); "every step count" = `stepN n` for every `n`.  Nothing bounds the number
  of tasks, the script lengths, the channels or the steps.
-/
import YashModel.Executor.Steps
import YashModel.Executor.SpecLemmas
import YashModel.Executor.Outside
import YashModel.Executor.Ops
import YashModel.Executor.Termination
import YashModel.Executor.Values
import YashModel.Executor.Tables
import YashModel.Executor.Nested
import YashModel.Executor.NestedFifo
import YashModel.Executor.NestedLive
import YashModel.Executor.NestedSim
import YashModel.Executor.NestedTerm
import YashModel.Executor.NestedFrozen
import YashModel.Executor.RcProj
import YashModel.Executor.RcRefs
namespace YashModel.Executor

/-- a state the executor can be in: `n` steps into the run of some task system -/
def Reachable (s : State) : Prop :=
  ∃ (sticky : Bool) (scripts : List Script) (roots n : Nat), s = stepN n (init sticky scripts roots)

theorem reachable_inv {s : State} (h : Reachable s) : InvX false none s := by
  obtain ⟨sticky, scripts, roots, n, rfl⟩ := h
  exact inv_stepN n (inv_init sticky scripts roots)

theorem reachable_trace {s : State} (h : Reachable s) : TraceInv s := by
  obtain ⟨sticky, scripts, roots, n, rfl⟩ := h
  exact trace_stepN n (inv_init (ab := false) sticky scripts roots) (trace_init sticky scripts roots)

example : Reachable (stepN 4 (init false [[.yield, .wait 0], [.signal 0, .spawn, .join], [.yield]] 2)) :=
  ⟨_, _, _, _, rfl⟩

/-- ★ The whole invariant is inductive over `Executor::step` from *any* state that satisfies it (not
    only from initial states), and holds initially for every task system. -/
theorem inv_inductive :
    (∀ sticky scripts roots, InvX false none (init sticky scripts roots)) ∧
    (∀ s r, InvX false none s → step s = some r → InvX false none r.1) :=
  ⟨inv_init, fun _ r h hs => inv_step h r hs⟩

/-- ★ "queues a task at most once however often it is woken": the wake queue never holds a task
    twice, at any step of any task system. -/
theorem queue_nodup (s : State) (h : Reachable s) : s.queue.Nodup := (reachable_inv h).nodup

/-- ★ `Task::wake`, in every state (reachable or not): afterwards the task is in the queue; it is a
    no-op if the task was queued already and a push to the back otherwise. -/
theorem wake_enqueues (s : State) (t : Nat) :
    t ∈ (wake s t).queue ∧
    (t ∈ s.queue → (wake s t).queue = s.queue) ∧
    (t ∉ s.queue → (wake s t).queue = s.queue ++ [t]) := by
  refine ⟨mem_enq_self _ _, ?_, ?_⟩
  · intro h; simp [wake, enq, h]
  · intro h; simp [wake, enq, h]

/-- ★ … "including wakes issued while it is being polled, by itself": a task whose future wakes its
    own waker and returns `Pending` is in the queue when `Task::poll` returns — although it was not in
    the queue during the poll. -/
theorem self_wake_during_poll (s : State) (t : Nat) (rest : Script) (h : s.fut t = some (.yield :: rest)) :
    t ∈ (poll s t).1.queue ∧ (poll s t).2 = false := by
  rw [poll_some h]
  have hr : (runActs t (.yield :: rest) (logEv s (.poll t))).2 = some rest := rfl
  rw [pollDone_pending hr]
  exact ⟨mem_enq_self _ _, rfl⟩

example : (0 : Nat) ∈ (poll { (init false [[.yield]] 1) with queue := [] } 0).1.queue := by decide

/-- … "or by another task": a task registered with a channel is in the queue after any `signal` on
    that channel, whatever else is queued (also in the middle of the signaller's poll). -/
theorem signal_wakes_waiters (s : State) (k t : Nat) (h : t ∈ s.waiters k) : t ∈ (signal s k).queue := by
  unfold signal
  split <;> exact (mem_foldl_enq _ _ _).mpr (Or.inr h)

/-- ★ No lost wake-up: at every step boundary of every run, every unfinished task is in the queue, or
    is registered with a channel that has no token, or has its waker stored in the relay of the child
    it awaits. -/
theorem no_lost_wakeup (s : State) (h : Reachable s) (t : Nat) (acts : Script)
    (ht : t < s.ntasks) (hf : s.fut t = some acts) :
    t ∈ s.queue ∨ Blocked s t acts :=
  (reachable_inv h).live t acts rfl ht (by simp) hf

/-- ★ "When the run loop stalls, every unfinished task is genuinely waiting for a wake-up that has not
    happened": with an empty queue, an unfinished task is at a `wait k` with its waker registered and
    no token in channel `k`, or at a `join` with its waker stored in the relay of an *unfinished* child. -/
theorem stall_genuine (s : State) (h : Reachable s) (hq : s.queue = []) (t : Nat) (acts : Script)
    (ht : t < s.ntasks) (hf : s.fut t = some acts) :
    (∃ k rest, acts = .wait k :: rest ∧ t ∈ s.waiters k ∧ s.tokens k = 0) ∨
    (∃ c cs rest, acts = .join :: rest ∧ s.kids t = c :: cs ∧ s.relay c = .polled t ∧
      c < s.ntasks ∧ (s.fut c).isSome = true) := by
  have hi := reachable_inv h
  rcases no_lost_wakeup s h t acts ht hf with hm | hb
  · rw [hq] at hm; cases hm
  · rcases hb with hw | ⟨c, cs, rest, ea, hk, hr⟩
    · exact Or.inl hw
    · right
      have hc : c < s.ntasks := (hi.kid t c (by rw [hk]; simp)).1
      refine ⟨c, cs, rest, ea, hk, hr, hc, ?_⟩
      have hs := hi.sync c hc
      rw [hr] at hs
      cases hfc : s.fut c with
      | none => exact absurd (hs.mp hfc) (by simp [Relay.sent])
      | some _ => rfl

example : ∃ s, Reachable s ∧ s.queue = [] ∧ s.fut 0 = some [.wait 0] :=
  ⟨stepN 1 (init false [[.wait 0]] 1), ⟨_, _, _, _, rfl⟩, by decide, by decide⟩

/-- ★ FIFO bound ("lets no woken task be starved by others that keep re-waking themselves"): in any
    state, the task at position `k` of the queue is at the front after exactly `k` steps — whatever the
    polled tasks do, they only push behind it — so step `k+1` pops and polls it. -/
theorem fifo_bound (s : State) (k t : Nat) (h : s.queue[k]? = some t) :
    ∃ q, (stepN k s).queue = t :: q ∧
      step (stepN k s) = some (poll { stepN k s with queue := q } t) := by
  have key : (stepN k s).queue.head? = some t := by
    induction k generalizing s with
    | zero => simpa [stepN, List.head?_eq_getElem?] using h
    | succ k ih =>
      cases hq : s.queue with
      | nil => rw [hq] at h; simp at h
      | cons x q =>
        rw [hq] at h
        simp only [List.getElem?_cons_succ] at h
        have hs : step s = some (poll { s with queue := q } x) := by simp [step, hq]
        simp only [stepN, hs]
        apply ih
        obtain ⟨l, hl⟩ := step_queue s _ hs
        rw [hl, hq, List.tail_cons]
        have hk : k < q.length := by
          rcases Nat.lt_or_ge k q.length with hk | hk
          · exact hk
          · rw [List.getElem?_eq_none hk] at h; cases h
        rw [List.getElem?_append_left hk]
        exact h
  cases hq : (stepN k s).queue with
  | nil => rw [hq] at key; cases key
  | cons x q =>
    rw [hq] at key
    simp only [List.head?_cons, Option.some.injEq] at key
    subst key
    exact ⟨q, rfl, by simp [step, hq]⟩

/-- "polls a task again whenever it has been woken since it last returned pending": after a wake-up of
    `t` in any state, one of the next `|queue|` steps pops `t`. -/
theorem woken_is_polled (s : State) (t : Nat) :
    ∃ k q, k < (wake s t).queue.length ∧ (stepN k (wake s t)).queue = t :: q ∧
      step (stepN k (wake s t)) = some (poll { stepN k (wake s t) with queue := q } t) := by
  have hm : t ∈ (wake s t).queue := mem_enq_self _ _
  obtain ⟨k, hk, hkt⟩ := List.getElem_of_mem hm
  obtain ⟨q, h1, h2⟩ := fifo_bound (wake s t) k t (by rw [List.getElem?_eq_getElem hk, hkt])
  exact ⟨k, q, hk, h1, h2⟩

example : (init true [[.yield], [.yield], [.yield]] 3).queue[2]? = some 2 := by decide

/-- ★ "never polls a task after it completed": in the trace of every run, for any two positions
    `i < j`, if `log[i]` is the return of `Ready` by task `t` then `log[j]` is neither a poll of `t`'s
    future nor another return of it (so a task also completes at most once). -/
theorem no_poll_after_complete (s : State) (h : Reachable s) (i j t : Nat) (hij : i < j)
    (hi : s.log[i]? = some (.ret t true)) :
    s.log[j]? ≠ some (.poll t) ∧ ∀ b, s.log[j]? ≠ some (.ret t b) := by
  have hp : s.log.Pairwise After := (reachable_trace h).npaf
  cases hj : s.log[j]? with
  | none => exact ⟨by simp, by simp⟩
  | some e =>
    have hjl : j < s.log.length := by
      rcases Nat.lt_or_ge j s.log.length with hk | hk
      · exact hk
      · rw [List.getElem?_eq_none hk] at hj; cases hj
    have hil : i < s.log.length := Nat.lt_trans hij hjl
    have ha := List.pairwise_iff_getElem.mp hp i j hil hjl hij
    rw [List.getElem?_eq_getElem hil] at hi
    rw [List.getElem?_eq_getElem hjl] at hj
    injection hi with hi
    injection hj with hj
    have := ha t hi
    rw [hj] at this
    exact ⟨by simpa using this.1, fun b => by simpa using this.2 b⟩

/-- … and a finished task's slot stays empty: `Task::poll` on it does nothing (`noop`). -/
theorem finished_stays_finished (s : State) (h : Reachable s) (t : Nat) (hm : Ev.ret t true ∈ s.log) :
    s.fut t = none := (reachable_trace h).fin t hm

example : (stepN 4 (init true [[.wait 0, .signal 0], [.signal 0]] 2)).log =
    [.poll 0, .ret 0 false, .poll 1, .ret 1 true, .poll 0, .ret 0 true, .noop 0] := by decide

/-- ★ "never polls … re-entrantly": the trace of every run is a sequence of complete `Task::poll`
    calls — each `poll t` is immediately followed by its own `ret t _`, so no poll starts while another
    is in progress — and the task `Executor::step` pops is not in the queue it leaves behind (the
    `RefCell` of the slot is never borrowed twice). -/
theorem no_reentrant_poll (s : State) (h : Reachable s) :
    Bracketed s.log ∧ ∀ t q, s.queue = t :: q → t ∉ q := by
  refine ⟨(reachable_trace h).brack, ?_⟩
  intro t q hq
  have := queue_nodup s h
  rw [hq] at this
  exact (List.nodup_cons.mp this).1

/-- ★ The relay is one-shot: once a receive (`try_receive` or the receiver's `poll`) has returned the
    value, the relay is `Done`, and every later `try_receive` answers `AlreadyReceived`. -/
theorem relay_once (r : Relay) (alive : Bool) (w v : Nat) :
    ((tryReceive r alive).2 = .ok v → (tryReceive r alive).1 = .done) ∧
    ((recvPoll r w).2.1 = some v → (recvPoll r w).1 = .done) ∧
    (∀ alive', tryReceive .done alive' = (.done, .error .alreadyReceived)) := by
  refine ⟨?_, ?_, fun _ => rfl⟩
  · cases r <;> simp [tryReceive]
  · cases r <;> simp [recvPoll]

example : (tryReceive (.computed 7) true).2 = .ok 7 := rfl

/-- ★ "delivers each spawned task's result to its receiver exactly once": in every reachable state the
    value of task `c` has been handed to a receiver at most once, exactly when its relay is `Done`;
    the relay of a finished task holds the value or is `Done`, that of an unfinished task has not been
    sent; and the branches that panic in Rust (`unreachable!()` in `Sender::send`, "Receiver polled
    after receiving the value") are never taken.  Hence for a finished task: deliveries so far plus
    successful results of any two further `try_receive` calls = 1. -/
theorem result_delivered_once (s : State) (h : Reachable s) (c : Nat) (hc : c < s.ntasks) :
    s.delivered c = (if s.relay c = .done then 1 else 0) ∧
    (s.fut c = none ↔ (s.relay c).sent = true) ∧
    s.bad = false ∧
    (s.fut c = none →
      let r1 := tryReceive (s.relay c) false
      let r2 := tryReceive r1.1 false
      s.delivered c + (if r1.2.isOk then 1 else 0) + (if r2.2.isOk then 1 else 0) = 1 ∧
      r2.2 = .error .alreadyReceived) := by
  have hi := reachable_inv h
  refine ⟨hi.deliv c, hi.sync c hc, hi.nobad, ?_⟩
  intro hf
  have hs := (hi.sync c hc).mp hf
  have hd := hi.deliv c
  cases hr : s.relay c with
  | pending => rw [hr] at hs; simp [Relay.sent] at hs
  | polled w => rw [hr] at hs; simp [Relay.sent] at hs
  | computed v => rw [hr] at hd; simp [tryReceive, hd, Except.isOk, Except.toBool]
  | done => rw [hr] at hd; simp [tryReceive, hd, Except.isOk, Except.toBool]

example : (stepN 6 (init false [[.yield, .wait 0], [.signal 0, .spawn, .join], [.yield]] 2)).relay 2 = .done := by
  decide

/-- The executable Spec (`Spec.lean`: the clauses of the property text as decidable checks, which the
    driver evaluates after every step of the model's run and prints as its verdict) holds in every
    reachable state, and its FIFO check holds across every step: the model never earns a `FAIL`. -/
theorem spec_holds (s : State) (h : Reachable s) :
    checkB s = none ∧ ∀ r, step s = some r → fifoB s.queue r.1.queue = true :=
  ⟨checkB_of_inv (reachable_inv h) (reachable_trace h), fun r hs => fifoB_of_step s r hs⟩

example : checkB (stepN 3 (init true [[.wait 0, .signal 0], [.signal 0]] 2)) = none := by decide

/-- ★ "every order of wake-ups", also from outside the tasks: if between any two steps of the executor
    anybody wakes any task (any number of times), signals a channel, spawns a root through
    `Executor::spawn`, clones a registered waker, or takes a registered waker and wakes it
    (`ReachableX`), every clause above still holds — the queue has no duplicate, no unfinished task is
    lost, no task is polled after completion or re-entrantly, results are delivered once, the panic
    branches are not taken, and the executable Spec holds. -/
theorem outside_wakes_safe (s : State) (h : ReachableX s) :
    s.queue.Nodup ∧
    (∀ t acts, t < s.ntasks → s.fut t = some acts → t ∈ s.queue ∨ Blocked s t acts) ∧
    NoPollAfterFin s.log ∧ Bracketed s.log ∧
    (∀ c, s.delivered c = if s.relay c = .done then 1 else 0) ∧
    s.bad = false ∧ checkB s = none := by
  obtain ⟨hi, ht⟩ := reachableX_inv h
  exact ⟨hi.nodup, fun t acts htl hf => hi.live t acts rfl htl (by simp) hf, ht.npaf, ht.brack, hi.deliv,
    hi.nobad, checkB_of_inv hi ht⟩

/-- a run with a wake-up of a queued task from outside, a wake-up of a finished task, a cloned waker -/
example : ReachableX
    (wake (stepN 2 (wake (wake (stepN 1 (init false [[.wait 0], [.signal 0]] 2)) 1) 1)) 1) :=
  .wake 1 (stepN_reachableX 2 (.wake 1 (.wake 1 (stepN_reachableX 1 (.init _ _ _)) (by decide)) (by decide)))
    (by decide)

/-- The reference count of an unfinished task (`Rc<Task>` held by the queue, by registered wakers, by
    relays — what `waker.rs` maintains) never drops to zero as long as nobody throws a waker away or
    drops the executor: its future and its `Sender` stay alive, so its receiver never reports
    `SenderDropped`. -/
theorem never_lost (s : State) (h : ReachableX s) (nch t : Nat) (acts : Script) (ht : t < s.ntasks)
    (hf : s.fut t = some acts) (hch : ∀ k, t ∈ s.waiters k → k < nch) :
    lostB s nch t = false ∧
    (tryReceive (s.relay t) ((s.fut t).isSome && !lostB s nch t)).2 = .error .notSent := by
  have hi := (reachableX_inv h).1
  have hp := refs_pos hi nch t acts ht hf hch
  have hl : lostB s nch t = false := by
    unfold lostB
    have : (refs s nch t == 0) = false := by
      cases hb : refs s nch t == 0 with
      | false => rfl
      | true => have := beq_iff_eq.mp hb; omega
    simp [this]
  refine ⟨hl, ?_⟩
  have hs := hi.sync t ht
  rw [hf] at hs
  have hns : (s.relay t).sent = false := by
    cases hsent : (s.relay t).sent with
    | false => rfl
    | true => exact absurd (hs.mpr hsent) (by simp)
  rw [hl, hf]
  cases hr : s.relay t with
  | pending => rfl
  | polled w => rfl
  | computed v => rw [hr] at hns; simp [Relay.sent] at hns
  | done => rw [hr] at hns; simp [Relay.sent] at hns

/-- ★ The forwarder under every sequence of `send` / drop sender / drop receiver / `try_receive` /
    `poll` with any wakers: at most one value is ever handed out and it is the value sent; the relay
    is `Done` exactly when it has been handed out, and `try_receive` then answers `AlreadyReceived`;
    `Sender::send` issues at most one wake-up in total; its `unreachable!()` is never reached. -/
theorem forwarder_protocol (ops : List FOp) :
    let f := frun {} ops
    f.got.length ≤ 1 ∧ (∀ v, v ∈ f.got → v = 7) ∧
    (f.got.length = 1 ↔ f.relay = .done) ∧
    (f.relay = .done → ∀ alive, (tryReceive f.relay alive).2 = .error .alreadyReceived) ∧
    f.nwakes ≤ 1 ∧ (∀ w, f.woken w ≤ 1) ∧ f.bad = false := by
  intro f
  have h : FInv f := finv_run ops {} finv_init
  have hg := h.got
  refine ⟨?_, ?_, ?_, ?_, h.wakes, fun w => Nat.le_trans (h.each w) h.wakes, h.nobad⟩
  · rw [hg]; split <;> simp
  · intro v hv; rw [hg] at hv; split at hv <;> simp at hv; exact hv
  · rw [hg]; split <;> simp [*]
  · intro hd alive; rw [hd]; rfl

/-- ★ "second poll overwriting the waker": `Sender::send` wakes exactly the waker stored by the *last*
    pending poll of the receiver, and nobody else. -/
theorem send_wakes_last_poller (f : FState) (w w' : Nat) (htx : f.tx = true) (hrx : f.rx = true)
    (hs : f.relay.sent = false) :
    let f1 := (fstep f (.poll w)).1
    let f2 := (fstep f1 (.poll w')).1
    let f3 := (fstep f2 .send).1
    f3.relay = .computed 7 ∧ f3.woken w' = f.woken w' + 1 ∧ (w ≠ w' → f3.woken w = f.woken w) := by
  cases hr : f.relay <;> simp [hr, Relay.sent] at hs <;>
    simp [fstep, recvPoll, relaySend, htx, hrx, hr, upd_apply] <;> intro h e <;> exact absurd e h

example : (frun {} [.poll 0, .poll 1, .send, .try_, .try_]).got = [7] := by decide

/-! ### one invariant over all operation sequences; fairness under arbitrary interleavings -/

/-- ★ At-most-once queuing, never-polled-after-completion, no re-entrant poll and exactly-once delivery as
    ONE invariant over ALL operation sequences of the `v` cases (`xRunAll` is the function the driver
    runs): `Executor::step`, whole `run_until_stalled` batches, wake-ups by value / by reference / through
    clones from outside, signals, `Spawner::spawn` from outside, `try_receive`, throwing wakers away,
    dropping the executor — in any order, from every task system.  As long as nothing has been thrown
    away (`abandoned = false`, guaranteed when no `drop`/`dropExec` occurs) also "no lost wake-up" and the
    whole executable Spec hold. -/
theorem ops_invariant (sticky : Bool) (scripts : List Script) (roots : Nat) (ops : List XOp) :
    let x := xRunAll { s := init sticky scripts roots } ops
    x.s.queue.Nodup ∧ NoPollAfterFin x.s.log ∧ Bracketed x.s.log ∧
    (∀ c, x.s.delivered c = if x.s.relay c = .done then 1 else 0) ∧ x.s.bad = false ∧
    (x.dead = true → x.s.queue = []) ∧
    ((∀ op, op ∈ ops → op.keeps = true) → x.abandoned = false ∧ x.dead = false) ∧
    (x.abandoned = false →
      (∀ t acts, t < x.s.ntasks → x.s.fut t = some acts → t ∈ x.s.queue ∨ Blocked x.s t acts) ∧
      checkB x.s = none) := by
  intro x
  have h : XInv x := xinv_runAll _ ops (xinv_init sticky scripts roots)
  refine ⟨h.inv.nodup, h.trace.npaf, h.trace.brack, h.inv.deliv, h.inv.nobad, fun hd => (h.dead hd).1,
    fun hk => xRunAll_keeps _ ops hk rfl rfl, ?_⟩
  intro ha
  have hi : InvX false none x.s := ha ▸ h.inv
  exact ⟨fun t acts ht hf => hi.live t acts rfl ht (by simp) hf, checkB_of_inv hi h.trace⟩

example : (xRunAll { s := init true [[.wait 0, .yield], [.wait 0]] 2 }
    [.step, .step, .byRef 0 0, .byRef 0 0, .clone 0 1, .wake 0 2, .rus, .drop 0 0, .dropExec, .wake 0 0]).s.log
    = [.poll 0, .ret 0 false, .poll 1, .ret 1 false, .poll 0, .ret 0 false, .poll 1, .ret 1 false] := by decide

/-- "When the run loop stalls …" after ANY operation sequence that threw nothing away: with an empty queue,
    every unfinished task is registered with a token-less channel or has its waker in the relay of an
    unfinished child. -/
theorem stall_genuine_ops (sticky : Bool) (scripts : List Script) (roots : Nat) (ops : List XOp)
    (hk : ∀ op, op ∈ ops → op.keeps = true) :
    let x := xRunAll { s := init sticky scripts roots } ops
    x.s.queue = [] → ∀ t acts, t < x.s.ntasks → x.s.fut t = some acts →
      (∃ k rest, acts = .wait k :: rest ∧ t ∈ x.s.waiters k ∧ x.s.tokens k = 0) ∨
      (∃ c cs rest, acts = .join :: rest ∧ x.s.kids t = c :: cs ∧ x.s.relay c = .polled t ∧
        c < x.s.ntasks ∧ (x.s.fut c).isSome = true) := by
  intro x hq t acts ht hf
  have h : XInv x := xinv_runAll _ ops (xinv_init sticky scripts roots)
  have ha := (xRunAll_keeps { s := init sticky scripts roots } ops hk rfl rfl).1
  have hi : InvX false none x.s := ha ▸ h.inv
  rcases hi.live t acts rfl ht (by simp) hf with hm | hb
  · rw [hq] at hm; cases hm
  · rcases hb with hw | ⟨c, cs, rest, ea, hk', hr⟩
    · exact Or.inl hw
    · right
      have hc : c < x.s.ntasks := (hi.kid t c (by rw [hk']; simp)).1
      refine ⟨c, cs, rest, ea, hk', hr, hc, ?_⟩
      have hs := hi.sync c hc
      rw [hr] at hs
      cases hfc : x.s.fut c with
      | none => exact absurd (hs.mp hfc) (by simp [Relay.sent])
      | some _ => rfl

/-- What popping a task does (`Task::poll`): an unfinished task's future IS polled (trace `poll t`,
    `ret t b`, result `b`), and if it returns `Ready` the slot is emptied; a finished task's slot is not
    touched and `true` is returned (trace `noop t`). -/
theorem poll_runs_future (s : State) (t : Nat) :
    (s.fut t = none → (poll s t).1.log = s.log ++ [.noop t] ∧ (poll s t).2 = true ∧
      ∀ y, (poll s t).1.fut y = s.fut y) ∧
    (∀ acts, s.fut t = some acts →
      (poll s t).1.log = s.log ++ [.poll t, .ret t (poll s t).2] ∧
      ((poll s t).2 = true → (poll s t).1.fut t = none)) := by
  rcases poll_trace s t with ⟨hf, hl, hb, _, hfu⟩ | ⟨acts, hf, hl, _, _, hfin⟩
  · exact ⟨fun _ => ⟨hl, hb, hfu⟩, fun a ha => (by rw [hf] at ha; cases ha)⟩
  · exact ⟨fun hn => (by rw [hf] at hn; cases hn), fun _ _ => ⟨hl, hfin⟩⟩

example : (poll { (init false [[.yield]] 1) with queue := [] } 0).1.log = [.poll 0, .ret 0 false] := by decide

/-- ★ `run_until_stalled` is iterated `step`: its final state is `stepN`, its result counts exactly the
    polls that returned `true` (`Ready`, and polls of emptied slots), and when it reports a stall the queue
    is empty — so by `stall_genuine` every unfinished task is then genuinely waiting.  A batch inside an
    operation sequence is the same as that many `step` operations. -/
theorem run_until_stalled_spec (n : Nat) (s : State) (c : Nat) :
    (runUntilStalled n s c).1 = stepN n s ∧
    (∃ evs, (stepN n s).log = s.log ++ evs ∧ (runUntilStalled n s c).2.1 = c + evs.countP Ev.isDone) ∧
    ((runUntilStalled n s c).2.2 = true → (stepN n s).queue = []) ∧
    (∀ x : XState, x.dead = false → xRun x .rus = xRunAll x (List.replicate maxSteps .step)) := by
  refine ⟨runUntilStalled_state n s c, runUntilStalled_count n s c, runUntilStalled_stalled n s c, ?_⟩
  intro x hd
  rw [xRunAll_steps maxSteps x hd]
  simp only [xRun, hd, Bool.false_eq_true, if_false]
  rw [runUntilStalled_state]

example : (runUntilStalled 100 (init true [[.wait 0, .signal 0], [.signal 0]] 2) 0).2 = (3, true) := by decide

/-- ★ FIFO order of the wake queue under ARBITRARY interleavings ("lets no woken task be starved by others
    that keep re-waking themselves"; also not by outside wake-ups, signals or spawns through `Executor::spawn`
    / `Spawner::spawn`, which all push behind): if `t` is at position `k` of the queue, then after any
    sequence of operations (steps, outside wakes in every form, signals, spawns, `try_receive`, waker
    clones/drops — everything but dropping the executor; batches are covered by `run_until_stalled_spec`)
    that contains `j ≤ k` steps, `t` is at position `k - j`; so after exactly `k` steps it is at the front
    and the next step polls it. -/
theorem fifo_interleaved (x : XState) (hd : x.dead = false) (ops : List XOp)
    (hp : ∀ op, op ∈ ops → op.plain = true) (k t : Nat) (hk : x.s.queue[k]? = some t) :
    (ops.count .step ≤ k → (xRunAll x ops).s.queue[k - ops.count .step]? = some t) ∧
    (ops.count .step = k → ∃ q, (xRunAll x ops).s.queue = t :: q ∧
      (xRun (xRunAll x ops) .step).s = (poll { (xRunAll x ops).s with queue := q } t).1) := by
  refine ⟨fun hc => (fifo_position ops x hd hp k t hk hc).2, ?_⟩
  intro hc
  obtain ⟨hd', hpos⟩ := fifo_position ops x hd hp k t hk (Nat.le_of_eq hc)
  rw [hc, Nat.sub_self] at hpos
  cases hq : (xRunAll x ops).s.queue with
  | nil => rw [hq] at hpos; cases hpos
  | cons a q =>
    rw [hq] at hpos
    simp only [List.getElem?_cons_zero, Option.some.injEq] at hpos
    subst hpos
    refine ⟨q, rfl, ?_⟩
    simp only [xRun, hd', Bool.false_eq_true, if_false]
    rw [stepN_one]
    simp [step, hq]

/-- ★ "a task woken before another is polled before it": if `a` is ahead of `b` in the queue (positions
    `i < j`), then under any interleaving, at the moment `a` reaches the front (after `i` steps) `b` is
    still queued behind it (position `j - i > 0`) — `b` is never polled before `a`. -/
theorem fifo_order (x : XState) (hd : x.dead = false) (ops : List XOp)
    (hp : ∀ op, op ∈ ops → op.plain = true) (i j a b : Nat) (hij : i < j)
    (ha : x.s.queue[i]? = some a) (hb : x.s.queue[j]? = some b) (hc : ops.count .step = i) :
    (xRunAll x ops).s.queue[0]? = some a ∧ (xRunAll x ops).s.queue[j - i]? = some b ∧ 0 < j - i := by
  have h1 := (fifo_position ops x hd hp i a ha (Nat.le_of_eq hc)).2
  have h2 := (fifo_position ops x hd hp j b hb (by omega)).2
  rw [hc] at h1 h2
  rw [Nat.sub_self] at h1
  exact ⟨h1, h2, by omega⟩

/-- ★ "a task queued at step t is polled within |queue at t| steps", under any interleaving: after a
    wake-up, the task sits at a position `k < |queue|`, and whatever else happens it is at the front after
    exactly `k` further steps. -/
theorem woken_polled_interleaved (x : XState) (hd : x.dead = false) (t : Nat) :
    ∃ k, k < (wake x.s t).queue.length ∧
      ∀ ops : List XOp, (∀ op, op ∈ ops → op.plain = true) → ops.count .step = k →
        ∃ q, (xRunAll { x with s := wake x.s t } ops).s.queue = t :: q := by
  have hm : t ∈ (wake x.s t).queue := mem_enq_self _ _
  obtain ⟨k, hk, hkt⟩ := List.getElem_of_mem hm
  refine ⟨k, hk, fun ops hp hc => ?_⟩
  obtain ⟨q, hq, _⟩ := (fifo_interleaved { x with s := wake x.s t } hd ops hp k t
    (by show (wake x.s t).queue[k]? = some t; rw [List.getElem?_eq_getElem hk, hkt])).2 hc
  exact ⟨q, hq⟩

example : (xRunAll { s := init false [[.yield, .yield, .yield], [.wait 0], [.signal 0]] 3 }
    [.step, .spawn, .step, .signal 0]).s.queue[2 - 2]? = some 2 := by decide

/-- ★ Every way of spawning pushes the new task to the BACK of the queue (never in front of a task that
    is already waiting to be polled): `Executor::spawn` of the roots (queued in order `0,1,…`),
    `Spawner::spawn` from outside any poll, and `Spawner::spawn` by a task during its poll. -/
theorem spawn_goes_to_back :
    (∀ sticky scripts roots, (init sticky scripts roots).queue = List.range' 0 (scripts.take roots).length) ∧
    (∀ (x : XState) sc rest, x.dead = false → x.s.pool = sc :: rest →
      (xRun x .spawn).s.queue = x.s.queue ++ [x.s.ntasks] ∧ (xRun x .spawn).s.fut x.s.ntasks = some sc) ∧
    (∀ (s : State) t sc rest, s.pool = sc :: rest →
      (spawnChild s t).queue = s.queue ++ [s.ntasks] ∧ (spawnChild s t).fut s.ntasks = some sc) := by
  refine ⟨?_, ?_, ?_⟩
  · intro sticky scripts roots
    unfold init
    rw [(spawnRoots_queue _ _).1]
    rfl
  · intro x sc rest hd hp
    simp only [xRun, xApply, hp, hd, Bool.false_eq_true, if_false, spawnWeak, Option.map_some]
    exact ⟨rfl, by simp [spawnNew, upd_apply]⟩
  · intro s t sc rest hp
    simp only [spawnChild, hp]
    exact ⟨rfl, by simp [spawnNew, upd_apply]⟩

example : (spawnChild (init false [[.spawn], [.yield]] 1) 0).queue = [0, 1] := by decide

/-- The decidable checks of the Spec (the driver's verdict column) mean exactly the clauses they are
    named after: both directions. -/
theorem spec_checks_meaning (s : State) (a b : List Nat) (log : List Ev) :
    (nodupB a = true ↔ a.Nodup) ∧
    (fifoB a b = true ↔ ∃ l, b = a.tail ++ l) ∧
    (noLostB s = true ↔
      ∀ t acts, t < s.ntasks → s.fut t = some acts → t ∈ s.queue ∨ blockedB s t acts = true) ∧
    (∀ t acts, blockedB s t acts = true ↔
      (∃ k rest, acts = .wait k :: rest ∧ t ∈ s.waiters k ∧ s.tokens k = 0) ∨
      (∃ c cs rest, acts = .join :: rest ∧ s.kids t = c :: cs ∧ s.relay c = .polled t ∧ (s.fut c).isSome = true)) ∧
    (bracketedB log = true ↔ Bracketed log) ∧
    (noPollAfterFinB log = true ↔ log.Pairwise fun e e' => ∀ t, e = .ret t true → e' ≠ .poll t) :=
  ⟨nodupB_iff a, fifoB_iff a b, noLostB_iff s, fun t acts => blockedB_iff s t acts, bracketedB_iff log,
   noPollAfterFinB_iff log⟩

example : nodupB [1, 2, 1] = false ∧ bracketedB [.poll 0, .poll 1] = false := by decide

/-! ### extension round: termination of the run loop, the delivered VALUE, the result of `step`, the
    remaining Spec checks, the tables re-extracted from the code -/

/-- ★ Every `Executor::step` makes progress towards the stall: the work left (`work`: actions not yet
    executed in all slots and in the pool, plus one per unfinished task) never grows, and a step that leaves
    it unchanged — the poll of an emptied slot, of a `wait` without token, of a `join` on an unfinished child
    — leaves the queue exactly one entry shorter; the queue never holds more than `cap` (the number of tasks
    that can ever exist) entries.  So `stallBound` strictly decreases. -/
theorem step_makes_progress (s : State) (h : Reachable s) (r : State × Bool) (hs : step s = some r) :
    cap r.1 = cap s ∧
    (work r.1 < work s ∨ (work r.1 = work s ∧ r.1.queue.length + 1 = s.queue.length)) ∧
    r.1.queue.length ≤ cap s ∧ stallBound r.1 < stallBound s := by
  have hi := reachable_inv h
  obtain ⟨hc, hm⟩ := step_measure hi.qlt r hs
  exact ⟨hc, hm, hc ▸ queue_le_cap (inv_step hi r hs), stallBound_step hi r hs⟩

example : step (init true [[.yield, .wait 0], [.signal 0]] 2) ≠ none := by decide

/-- ★ `Executor::run_until_stalled` terminates, with an explicit bound ("still open" of the earlier rounds:
    the model's loop had a step budget and nothing showed that the budget is never what ends it): from every
    reachable state, after `stallBound s` calls of `step` the queue is empty; any larger budget gives the same
    final state, the same count and the flag "stalled" — the budget is not observable. -/
theorem run_until_stalled_terminates (s : State) (h : Reachable s) (n c : Nat) (hn : stallBound s ≤ n) :
    (stepN n s).queue = [] ∧ (runUntilStalled n s c).2.2 = true ∧
    runUntilStalled n s c = runUntilStalled (stallBound s) s c := by
  have hi := reachable_inv h
  have hq := stepN_stalls n hi hn
  refine ⟨hq, ?_, runUntilStalled_budget n hi hn c⟩
  rw [runUntilStalled_flag, hq]; rfl

example : stallBound (stepN 2 (init true [[.yield, .wait 0], [.signal 0]] 2)) ≤ 9 := by decide

/-- ★ … for every task system, with the bound read off the case text: (number of actions + number of
    scripts) × (number of scripts + 1) + number of roots `step` calls always reach the stall.  (The driver
    checks `stallBound ≤ maxSteps` for every case it runs, so "end=cut" can never be printed.) -/
theorem stall_bound_of_system (sticky : Bool) (scripts : List Script) (roots : Nat) :
    stallBound (init sticky scripts roots) =
      (scripts.map fun sc => sc.length + 1).sum * (scripts.length + 1) + min roots scripts.length ∧
    ∀ n c, stallBound (init sticky scripts roots) ≤ n →
      (runUntilStalled n (init sticky scripts roots) c).2.2 = true :=
  ⟨stallBound_init sticky scripts roots,
   fun n c hn => (run_until_stalled_terminates _ ⟨sticky, scripts, roots, 0, rfl⟩ n c hn).2.1⟩

/-- … and inside ANY operation sequence (outside wake-ups, signals, spawns, dropped wakers, …): a
    `run_until_stalled` batch started within the bound ends with an empty queue. -/
theorem batch_reaches_stall (sticky : Bool) (scripts : List Script) (roots : Nat) (ops : List XOp) :
    let x := xRunAll { s := init sticky scripts roots } ops
    stallBound x.s ≤ maxSteps → (xRun x .rus).s.queue = [] := by
  intro x hb
  have h : XInv x := xinv_runAll _ ops (xinv_init sticky scripts roots)
  by_cases hd : x.dead = true
  · simp only [xRun, hd, if_true]; exact (h.dead hd).1
  · simp only [xRun, hd, if_false]
    show (runUntilStalled maxSteps x.s 0).1.queue = []
    rw [runUntilStalled_state]
    exact stepN_stalls maxSteps h.inv hb

example : stallBound (xRunAll { s := init true [[.wait 0, .yield], [.wait 0]] 2 }
    [.step, .step, .byRef 0 0, .clone 0 1, .wake 0 2]).s ≤ maxSteps := by decide

/-- The `bool` of `Executor::step` ("still open" of the earlier rounds): `Some(true)` exactly when the popped
    task is finished afterwards (its future returned `Ready` now, or its slot was empty already); the slots
    of all other existing tasks are untouched by the step. -/
theorem step_result (s : State) (h : Reachable s) (r : State × Bool) (hs : step s = some r) :
    ∃ t q, s.queue = t :: q ∧ (r.2 = true ↔ r.1.fut t = none) ∧
      ∀ u, u < s.ntasks → u ≠ t → r.1.fut u = s.fut u := by
  have hi := reachable_inv h
  unfold step at hs
  cases hq : s.queue with
  | nil => simp [hq] at hs
  | cons t q =>
    simp only [hq, Option.some.injEq] at hs
    subst hs
    have ht : t < s.ntasks := hi.qlt t (by rw [hq]; simp)
    obtain ⟨h1, h2⟩ := poll_result { s with queue := q } t ht
    exact ⟨t, q, rfl, h1, h2⟩

/-- ★ "delivers each spawned task's result to its receiver": WHAT is delivered (the earlier rounds proved
    "once"; that the number is the one the future returned was only compared in the run).  After every
    operation sequence of every task system, for every task `c`: a value has been returned (`ret c`) exactly
    if `c` is finished; it is `value c` — computed from the values `c` itself received from its children, so
    values travel through chains of relays unchanged; a relay in state `Computed v` holds exactly the returned
    value; and the list of values the relay has handed to a receiver (`recv c`: the parent's `join`, or
    `try_receive`) is `[that value]` if the relay is `Done` and empty otherwise. -/
theorem value_delivered (sticky : Bool) (scripts : List Script) (roots : Nat) (ops : List XOp) :
    let s := (xRunAll { s := init sticky scripts roots } ops).s
    ∀ c, c < s.ntasks →
      ((s.ret c).isSome = true ↔ s.fut c = none) ∧
      (∀ v, s.ret c = some v → v = value s c) ∧
      (∀ v, s.relay c = .computed v → s.ret c = some v) ∧
      s.recv c = (if s.relay c = .done then (s.ret c).toList else []) ∧
      (s.relay c = .done → s.recv c = [value s c]) := by
  intro s c hc
  have hx : XInv { s := init sticky scripts roots } := xinv_init sticky scripts roots
  have hv : ValInv s := val_runAll _ ops hx (val_init sticky scripts roots)
  have hi : XInv (xRunAll { s := init sticky scripts roots } ops) := xinv_runAll _ ops hx
  refine ⟨hv.retfin c hc, hv.retval c, hv.comp c, hv.recvd c, ?_⟩
  intro hd
  have hfin : s.fut c = none := (hi.inv.sync c hc).mpr (by rw [hd]; rfl)
  have hsome := (hv.retfin c hc).mpr hfin
  cases hr : s.ret c with
  | none => rw [hr] at hsome; cases hsome
  | some v =>
    have := hv.recvd c
    rw [hd, hr] at this
    rw [this, ← hv.retval c v hr]
    rfl

/-- a chain: task 2 returns 3, task 1 joins it and returns 2 + 7·3 = 23, task 0 joins that: 1 + 7·23 = 162 -/
example : let s := (xRunAll { s := init false [[.spawn, .join], [.spawn, .join], []] 1 } [.rus, .try_ 0]).s
    s.recv 2 = [3] ∧ s.recv 1 = [23] ∧ s.recv 0 = [162] := by decide

/-- The two checks of the Spec column that `spec_checks_meaning` left one-directional mean exactly the clauses
    they are named after, too. -/
theorem spec_checks_meaning_rest (s : State) :
    (stallB s = true ↔
      (s.queue = [] → ∀ t acts, t < s.ntasks → s.fut t = some acts → blockedB s t acts = true)) ∧
    (relayB s = true ↔
      ∀ c, c < s.ntasks → s.delivered c = (if s.relay c = .done then 1 else 0) ∧
        (s.fut c = none ↔ (s.relay c).sent = true)) :=
  ⟨stallB_iff s, relayB_iff s⟩

example : stallB { (init false [[.wait 0]] 1) with queue := [] } = false := by decide

open YashModel.Generated.ExecutorTables in
/-- ★ The relay protocol of the model IS the table re-extracted from forwarder.rs on every run
    (`tools/tables/executor.py`): for every relay, `relaySend` / `tryReceive` / `recvPoll` of Model.lean are
    the interpretation (`sendBy` / `tryBy` / `pollBy`, Tables.lean) of the arm the Rust `match` takes for that
    variant — so an edited arm of `Sender::send`, `Receiver::try_receive` or `Receiver::poll` breaks this
    theorem, not only the differential run. -/
theorem forwarder_tables_agree (r : Relay) (v w : Nat) (alive : Bool) :
    sendBy sendStores (sendArm r.tag) r v = some (relaySend r v) ∧
    tryBy (tryReceiveArm r.tag) r alive = some (tryReceive r alive) ∧
    pollBy (pollArm r.tag) r w = some (recvPoll r w) ∧
    hasPayload r.tag = (match r with | .polled _ => true | .computed _ => true | _ => false) := by
  cases r <;> cases alive <;> exact ⟨rfl, rfl, rfl, rfl⟩

open YashModel.Generated.ExecutorTables in
/-- ★ The queue discipline of the model IS the one re-extracted from task.rs / executor.rs on every run:
    `Task::wake` = `enq` (duplicate check, then push to the extracted end), `Executor::step` pops the
    extracted end and polls that task, `enqueue` / `enqueue_forwarding` (all spawn paths) push the new task
    to the extracted end. -/
theorem queue_tables_agree :
    (∀ q t, enq q t = enqBy wakeDedup wakePush q t) ∧
    (∀ s, step s = (popAt stepPop s.queue).map fun p => poll { s with queue := p.2 } p.1) ∧
    (∀ s own sc, (spawnNew s own sc).queue = pushAt enqueueForwardingPush s.queue s.ntasks) ∧
    enqueuePush = enqueueForwardingPush := by
  refine ⟨?_, ?_, fun _ _ _ => rfl, rfl⟩
  · intro q t
    unfold enq enqBy
    by_cases h : t ∈ q
    · simp [h, wakeDedup]
    · simp [h, wakeDedup, wakePush, pushAt]
  · intro s
    unfold step
    cases s.queue <;> rfl

/-! ### `Executor::step` called from inside a poll (was an assumption: "futures do not call `step`") -/

open Nested in
/-- ★ With futures that call `Executor::step` from inside their own poll (nested polling of other tasks, any
    depth, any self- and cross-wake-ups in between), for every system of scripts and every number of top-level
    steps: the queue never holds a task twice; the trace is well nested and the polls it leaves open are
    exactly the borrowed slots, without repetition — no future is ever entered while its poll is in progress;
    no future is entered after it returned `Ready`, its slot stays empty; between top-level steps no slot is
    borrowed unless the recursion guard has panicked; the depth budget of the definition is never exhausted;
    and the executable Spec check printed by the driver holds. -/
theorem nested_step_safe (scripts : List NScript) (n : Nat) :
    let s := nStepN n (nInit scripts)
    s.queue.Nodup ∧
    (replay s.log [] = some s.stack ∧ s.stack.Nodup) ∧
    (s.log.Pairwise fun e e' => ∀ t, e = .exit t true → e' ≠ .enter t) ∧
    (∀ t, NEv.exit t true ∈ s.log → s.fut t = none) ∧
    (s.panicked = false → s.stack = []) ∧ s.starved = false ∧ nCheck s = none := by
  intro s
  have h : NTop s := ntop_stepN n (ntop_init scripts)
  exact ⟨h.inv.qn, ⟨h.inv.rp, h.inv.sn⟩, h.inv.nef, h.inv.fin, h.idle, h.inv.ns, nCheck_of h⟩

open Nested in
/-- three levels of nesting, then the guard: task 2 wakes task 0 (whose poll is in progress) and steps -/
example : (nStepN 5 (nInit [[.nest, .nest], [.nest], [.wake 0, .nest]])).log =
    [.enter 0, .enter 1, .enter 2, .guard 0] := by decide

open Nested in
/-- ★ The recursion guard of `Task::poll` ("never polls … re-entrantly" when a task whose poll is in progress
    has been woken and a nested `step` pops it): the future is NOT entered — the only effect is the guard
    event and the panic, every slot is as before; and a task whose poll is not in progress is entered
    normally (first new event `enter t`) when its slot is occupied. -/
theorem recursion_guard (d : Nat) (s : NState) (t : Nat) :
    (t ∈ s.stack → nPoll (d + 1) s t = { nlog s (.guard t) with panicked := true }) ∧
    (t ∉ s.stack → s.fut t = none → nPoll (d + 1) s t = nlog s (.noop t)) ∧
    (∀ log', wellNestedB log' = true → ∀ l1 l2 l3, log' = l1 ++ [.enter t] ++ l2 ++ [.enter t] ++ l3 →
      ∃ b, NEv.exit t b ∈ l2) := by
  refine ⟨fun h => by simp [nPoll, h], fun h hf => by simp [nPoll, h, hf], ?_⟩
  intro log' hw l1 l2 l3 e
  exact wellNested_no_reentry l1 l2 l3 t (e ▸ hw)

open Nested in
example : (1 : Nat) ∈ ({ stack := [2, 1, 0] } : NState).stack := by decide

/-! ### wave 3 -/

open Nested in
/-- ★ "lets no woken task be starved by others that keep re-waking themselves", with `Executor::step` also called
    from INSIDE polls (the earlier rounds proved the FIFO bound only for futures that do not nest): between any
    two step boundaries of any nested-step system, the tasks popped meanwhile — by top-level and by nested steps
    alike, each `Task::poll` call (future entered, no-op on an emptied slot, recursion guard) being one pop —
    followed by the queue now, are the queue then followed by what was pushed.  So the task at position `k` of
    the queue is exactly the `k+1`-th task popped from then on, whoever pops and whatever the futures do in
    between; until then it sits at position `k - pops`; and the check the driver prints per step holds. -/
theorem nested_fifo (scripts : List NScript) (n m : Nat) :
    let s := nStepN n (nInit scripts)
    let s' := nStepN m s
    (∃ evs L, s'.log = s.log ++ evs ∧ s.queue ++ L = popsOf evs ++ s'.queue) ∧
    (∀ k t, s.queue[k]? = some t → ∃ evs, s'.log = s.log ++ evs ∧
      ((popsOf evs)[k]? = some t ∨
       ((popsOf evs).length ≤ k ∧ s'.queue[k - (popsOf evs).length]? = some t))) ∧
    nFifoB s s' = true := by
  intro s s'
  have h : Fifo s s' := fifo_stepN m (ntop_stepN n (ntop_init scripts))
  exact ⟨h, fun k t hk => nfifo_position h k t hk, nFifoB_of h⟩

open Nested in
/-- task 0 steps twice from inside its poll and yields: tasks 1, 2 are popped in queue order inside that poll,
    task 3 (position 3) is the 4th task popped -/
example : let s := nInit [[.nest, .nest, .yield], [.yield], [.yield], []]
    popsOf ((nStepN 2 s).log.drop s.log.length) = [0, 1, 2, 3] ∧ (nStepN 2 s).queue = [1, 2, 0] := by decide

open Rc in
/-- ★ The reference counting of `Rc<Task>` that waker.rs implements by hand (mechanism "reference-counted raw
    waker vtable"; until wave 3 "outside the model", only observed through Drop probes): `RcModel.lean`
    transcribes the four vtable entries, `into_waker`, `Task::wake(self: Rc<Self>)`, the `Rc::clone` of
    `Task::poll`, the local handle of `Executor::step` and `Rc::new` of `enqueue*`, and runs them beside the task
    system.  (1) The counted run IS the run of Model.lean: after every operation sequence of the `v` leg its task
    system and "executor dropped" flag are those of `xRunAll` — so all theorems above are about it.  (2) After
    every operation sequence, as long as the ghost flag of the instrumentation is clear (no `Waker` that does not
    exist was consumed — Rust's ownership rules; the driver checks the flag on every case): the strong count of
    every task is exactly (its entries in the wake queue) + (live `Waker`s of it) + (local handles), and no count
    was ever decremented at zero — no use after free, no double free, no leak of a unit. -/
theorem rc_counting (sticky : Bool) (scripts : List Script) (roots : Nat) (ops : List XOp) :
    let r := rRunAll (rInit sticky scripts roots) ops
    let x := xRunAll { s := init sticky scripts roots } ops
    (r.s = x.s ∧ r.dead = x.dead) ∧
    (r.gunder = false →
      (∀ t, r.strong t = r.s.queue.count t + r.wk t + r.loc t) ∧ r.under = false ∧
      (∀ t, r.s.ntasks ≤ t → r.wk t = 0 ∧ r.loc t = 0)) := by
  intro r x
  refine ⟨?_, ?_⟩
  · have h0 : Same (rInit sticky scripts roots) { s := init sticky scripts roots } :=
      ⟨(rInit_p sticky scripts roots).1, (rInit_p sticky scripts roots).2⟩
    exact same_rRunAll ops _ _ h0 (xinv_init sticky scripts roots)
  · intro hg
    have h1 : Pres (rInit sticky scripts roots) r := pres_rRunAll ops _
    have h0 : Pres ({ s := { pool := scripts.drop roots, sticky := sticky } } : RState) (rInit sticky scripts roots) :=
      pres_rSpawnRoots _ _
    obtain ⟨_, _, f⟩ := (h0.trans h1) hg
    have hb := f (balU_start sticky (scripts.drop roots))
    exact ⟨hb.bal, hb.nounder, fun t ht => ⟨(hb.fresh t ht).1, (hb.fresh t ht).2.1⟩⟩

open Rc in
/-- a run with by-reference wakes of a queued task, a cloned waker woken by value, a dropped waker, the executor
    dropped and a wake-up afterwards: flag clear, task 0 still has one unit (the waker left in the channel) -/
example : let r := rRunAll (rInit true [[.wait 0, .yield], [.wait 0]] 2) [.step, .step, .byRef 0 0, .byRef 0 0, .clone 0 1, .wake 0 2, .rus, .drop 0 0, .dropExec, .wake 0 0]
    r.gunder = false ∧ r.under = false ∧ r.strong 0 = 1 ∧ r.wk 0 = 1 ∧ r.s.queue = [] := by decide

open Rc in
/-- ★ The vtable entries one by one, from ANY state in which the caller really holds what it passes (a live
    `Waker` of `t`: `wk t > 0`) and the accounting identity holds: `clone` adds one unit and one waker; `drop`
    removes one of each; `wake` consumes the waker and either moves its unit into the queue (not queued, executor
    alive: queue grows by `t` at the back, count unchanged) or gives it back (already queued or executor gone:
    count - 1, queue unchanged); `wake_by_ref` leaves the waker alive and adds a unit exactly when the task gets
    queued.  In all four the identity still holds afterwards and nothing was decremented at zero. -/
theorem vtable_accounting (r : RState) (t : Nat) (hb : BalU r) (hg : r.gunder = false) (hw : 0 < r.wk t) :
    (BalU (vtClone r t) ∧ (vtClone r t).strong t = r.strong t + 1 ∧ (vtClone r t).wk t = r.wk t + 1) ∧
    (BalU (vtDrop r t) ∧ (vtDrop r t).strong t + 1 = r.strong t ∧ (vtDrop r t).wk t + 1 = r.wk t) ∧
    (BalU (vtWake r t) ∧ (vtWake r t).wk t + 1 = r.wk t ∧
      (vtWake r t).strong t + (if r.dead = false ∧ t ∉ r.s.queue then 0 else 1) = r.strong t ∧
      (vtWake r t).s.queue = (if r.dead = false then enq r.s.queue t else r.s.queue)) ∧
    (BalU (vtWakeByRef r t) ∧ (vtWakeByRef r t).wk t = r.wk t ∧
      (vtWakeByRef r t).strong t = r.strong t + (if r.dead = false ∧ t ∉ r.s.queue then 1 else 0) ∧
      (vtWakeByRef r t).s.queue = (if r.dead = false then enq r.s.queue t else r.s.queue)) :=
  vtable_steps r t hb hg hw

open Rc in
example : BalU (rStepN 1 (rInit false [[.wait 0]] 1)) ∧ 0 < (rStepN 1 (rInit false [[.wait 0]] 1)).wk 0 := by
  have h := rc_counting false [[.wait 0]] 1 [.step]
  obtain ⟨_, h2⟩ := h
  obtain ⟨a, b, c⟩ := h2 (by decide)
  refine ⟨⟨a, b, fun t ht => ⟨(c t ht).1, (c t ht).2, ?_⟩⟩, by decide⟩
  show t ∉ (rStepN 1 (rInit false [[.wait 0]] 1)).s.queue
  have : (rStepN 1 (rInit false [[.wait 0]] 1)).s.queue = [] := by decide
  rw [this]; simp

open YashModel.Generated.ExecutorTables Rc in
/-- ★ The vtable entries of `RcModel.lean` ARE the operations re-extracted from waker.rs on every run
    (`tools/tables/executor.py`: per slot of `RawWakerVTable::new(clone, wake, wake_by_ref, drop)` the sequence
    of `Rc::increment_strong_count` / `decrement_strong_count` / `Rc::from_raw(data).wake()` / `RawWaker::new`
    of the function sitting in that slot) — a missing or doubled increment, a decrement in `wake_by_ref`, two
    functions swapped in the table break this theorem, not only the Drop probes of the run. -/
theorem vtable_tables_agree (r : RState) (t : Nat) :
    vtBy false vtCloneOps r t = vtClone r t ∧ vtBy true vtWakeOps r t = vtWake r t ∧
    vtBy false vtWakeByRefOps r t = vtWakeByRef r t ∧ vtBy true vtDropOps r t = vtDrop r t := by
  refine ⟨rfl, rfl, rfl, ?_⟩
  show decStrong (wkDown r t) t = wkDown (decStrong r t) t
  unfold decStrong wkDown
  by_cases h1 : r.wk t = 0 <;> by_cases h2 : r.strong t = 0 <;> simp [h1, h2]

open YashModel.Generated.ExecutorTables in
/-- ★ `Task::poll` and `run_until_stalled` of the model rest on facts re-extracted from task.rs / executor.rs on
    every run (mechanism "future slot emptied on completion so later polls are no-ops"): an emptied slot
    returns the extracted value without polling, the slot is emptied exactly on `Ready` and that readiness is
    returned (`poll` = `pollWith` at the extracted values), the slot is borrowed with
    `try_borrow_mut().expect(..)` (the recursion guard `nPoll` models), and `run_until_stalled` counts exactly
    the `Some(true)` steps until `None`. -/
theorem poll_tables_agree :
    (∀ s t, poll s t = pollWith pollEmptyReturns pollEmptiesOnReady s t) ∧
    pollGuards = true ∧
    (∀ n s c, runUntilStalled n s c = rusWith rusCountsTrue n s c) := by
  refine ⟨?_, rfl, ?_⟩
  · intro s t
    unfold poll pollWith pollDone
    cases s.fut t with
    | none => rfl
    | some acts =>
      simp only []
      cases (runActs t acts (logEv s (.poll t))).2 <;> rfl
  · intro n
    induction n with
    | zero => intro s c; rfl
    | succ n ih =>
      intro s c
      simp only [runUntilStalled, rusWith]
      cases step s with
      | none => rfl
      | some r => simp only [rusCountsTrue, Bool.and_true]; exact ih _ _

open Nested in
/-- ★ "polls a task again whenever it has been woken … never loses a wake-up … when the run loop stalls every
    unfinished task is genuinely waiting", with `Executor::step` also called from inside polls (any depth, any
    cross-wake-ups): as long as the recursion guard has not panicked, at every top-level step boundary every
    unfinished task is in the wake queue (these test futures return `Pending` only after waking themselves, so
    nothing else can be waited for) — hence when the run loop stalls (`step` = `None`: empty queue) EVERY task
    has completed; and during a poll every unfinished task is queued or is one of the polls in progress. -/
theorem nested_no_lost (scripts : List NScript) (n : Nat) :
    let s := nStepN n (nInit scripts)
    s.panicked = false →
      (∀ x, x < s.ntasks → (s.fut x).isSome = true → x ∈ s.queue) ∧
      (s.queue = [] → ∀ x, x < s.ntasks → s.fut x = none) ∧
      s.ntasks = scripts.length ∧ nLiveB s = true := by
  intro s hp
  have h : NTopL s := ntopl_stepN n (ntopl_init scripts)
  have hst : s.stack = [] := h.top.idle hp
  have hl : ∀ x, x < s.ntasks → (s.fut x).isSome = true → x ∈ s.queue := by
    intro x hx hf
    rcases h.live hp x hx hf with h1 | h1
    · exact h1
    · rw [hst] at h1; cases h1
  refine ⟨hl, ?_, ?_, ?_⟩
  · intro hq x hx
    cases hf : s.fut x with
    | none => rfl
    | some a =>
      have := hl x hx (by rw [hf]; rfl)
      rw [hq] at this; cases this
  rotate_left
  · unfold nLiveB
    rw [hp]
    simp only [Bool.false_or, List.all_eq_true, List.mem_range, Bool.or_eq_true]
    intro x hx
    cases hf : s.fut x with
    | none => left; rfl
    | some a => right; exact List.contains_iff_mem.mpr (hl x hx (by rw [hf]; rfl))
  · have key : ∀ (m : Nat) (s0 : NState), NTop s0 → (nStepN m s0).ntasks = s0.ntasks := by
      intro m
      induction m with
      | zero => intro _ _; rfl
      | succ m ih =>
        intro s0 h0
        simp only [nStepN]
        cases hs : nStep s0 with
        | none => rfl
        | some s1 =>
          rw [ih s1 (ntop_step h0 hs)]
          unfold nStep at hs
          split at hs
          · cases hs
          · rename_i hpp
            have hp0 : s0.panicked = false := by
              cases hx : s0.panicked with
              | false => rfl
              | true => exact absurd hx hpp
            cases hq : s0.queue with
            | nil => simp [hq] at hs
            | cons t q =>
              simp only [hq, Option.some.injEq] at hs
              subst hs
              have hnd : (t :: q).Nodup := hq ▸ h0.inv.qn
              have h1 : NInv { s0 with queue := q } :=
                ⟨(List.nodup_cons.mp hnd).2, fun x hx => h0.inv.qlt x (by rw [hq]; exact List.mem_cons_of_mem _ hx),
                 h0.inv.sn, h0.inv.slt, h0.inv.klt, h0.inv.rp, h0.inv.occ, h0.inv.fin, h0.inv.nef, h0.inv.ns⟩
              exact (nPoll_ok (s0.ntasks + 1) { s0 with queue := q } t h1 (h0.inv.qlt t (by rw [hq]; simp))
                (by show s0.stack.length + (s0.ntasks + 1) = s0.ntasks + 1; rw [h0.idle hp0]; simp)).2.1
    exact key n _ (ntop_init scripts)

open Nested in
/-- three tasks, nested steps and cross-wake-ups, no guard panic: the run stalls after 4 top-level steps with all done -/
example : let s := nStepN 10 (nInit [[.nest, .yield, .nest], [.wake 0, .yield], [.nest]])
    s.panicked = false ∧ s.queue = [] ∧ s.fut 0 = none ∧ s.fut 1 = none ∧ s.fut 2 = none := by decide

open Rc in
/-- ★ The strong count that waker.rs / task.rs / executor.rs maintain operation by operation IS the derived count
    `refs` of Model.lean, unconditionally: for every task system whose `wait` channels are below `nch` and every
    operation sequence of the `v` leg (steps, batches, outside wakes by value / by reference / through clones,
    dropped wakers, signals, spawns, `try_receive`, the executor dropped), after every operation — the ghost flag of
    the instrumentation is clear (it never consumed a `Waker` or handle that does not exist), no count was ever
    decremented at zero (no use after free, no double free), no local handle is left, and for every task
    `Rc::strong_count` = queue entries + wakers registered with channels + wakers stored in relays.  Hence a
    task's future is freed (count 0) exactly when the model says it is lost (`lostB`) or it has completed and
    nobody refers to it — what the harness observes through its Drop probes (`!t`) is proved of the transcribed
    count, not only compared.  (Closes the condition `gunder = false` of `rc_counting`.) -/
theorem rc_is_refs (sticky : Bool) (scripts : List Script) (roots : Nat) (ops : List XOp) (nch : Nat)
    (hsc : ∀ sc, sc ∈ scripts → ∀ k, Action.wait k ∈ sc → k < nch) :
    let r := rRunAll (rInit sticky scripts roots) ops
    r.gunder = false ∧ r.under = false ∧
    (∀ t, r.strong t = refs r.s nch t ∧ r.loc t = 0) ∧
    (∀ t, (r.s.fut t).isSome = true → (r.strong t = 0 ↔ lostB r.s nch t = true)) ∧
    rcCheck r nch = none := by
  have h0 : Same (rInit sticky scripts roots) { s := init sticky scripts roots } :=
    ⟨(rInit_p sticky scripts roots).1, (rInit_p sticky scripts roots).2⟩
  have hb : AtB nch (rRunAll (rInit sticky scripts roots) ops) :=
    atB_rRunAll ops _ _ h0 (xinv_init sticky scripts roots) (atB_rInit sticky scripts roots hsc)
  obtain ⟨hbal, hun, _⟩ := (rc_counting sticky scripts roots ops).2 hb.cnt.g
  exact refs_of_atB _ hb hbal hun

/-- the hypothesis is met by the systems of the other examples (channels 0 … nch-1) -/
example : ∀ sc, sc ∈ [[Action.wait 0, .yield], [.wait 0]] → ∀ k, Action.wait k ∈ sc → k < 1 := by
  intro sc hs k hk
  simp at hs
  rcases hs with rfl | rfl <;> simp at hk <;> omega

open Nested in
/-- ★ The two models are the same executor where they overlap (until wave 3 the nested-step model was "a separate
    small model", tied to the code by its own leg of the run only): for every system of root tasks whose scripts
    use only the actions both models have — `Y` (wake the own waker, `Pending`) and `C` / end of script — and
    every number of `Executor::step` calls, the nested-step model and the main model have the same wake queue,
    the same number of tasks, the same future slots (script by script), and the same trace (`enter`/`exit`/`noop`
    = `poll`/`ret`/`noop`); so on this fragment every theorem about `stepN` above (the 13-clause invariant, the
    FIFO bound, termination, delivery) is a theorem about the nested-step model, and `nested_fifo` /
    `nested_no_lost` / `nested_step_safe` extend them to nesting and cross-wake-ups. -/
theorem nested_agrees_with_main (sticky : Bool) (scripts : List NScript) (hyc : ∀ sc, sc ∈ scripts → ycOnly sc)
    (n : Nat) :
    let ns := nStepN n (nInit scripts)
    let s := stepN n (init sticky (scripts.map toScript) scripts.length)
    ns.queue = s.queue ∧ ns.ntasks = s.ntasks ∧ (∀ t, s.fut t = (ns.fut t).map toScript) ∧
    s.log = ns.log.map toEv ∧ ns.panicked = false ∧ ns.stack = [] := by
  intro ns s
  have h : Sim ns s := sim_stepN n _ _ (sim_init sticky scripts hyc)
  exact ⟨h.q, h.n, h.fut, h.log, h.idle.2, h.idle.1⟩

open Nested in
example : ∀ sc, sc ∈ [[NAct.yield, .yield], [.yield, .complete, .yield], []] → ycOnly sc := by
  intro sc hs a ha
  simp at hs
  rcases hs with rfl | rfl | rfl <;> simp at ha <;> rcases ha with rfl | rfl | rfl <;> simp

open Nested in
example : (nStepN 3 (nInit [[.yield, .yield], [.yield, .complete, .yield], []])).queue = [0, 1] ∧
    (stepN 3 (init false [[.yield, .yield], [.yield, .complete, .yield], []] 3)).queue = [0, 1] := by decide

open Nested in
/-- ★ The run loop terminates also when futures call `Executor::step` from inside their polls ("termination of
    the nested run loop is by budget only" until wave 3): `nWork` — the actions left in all slots plus one per
    unfinished task — never grows during a top-level step, whatever is polled inside whatever; every step that
    enters a future lowers it, a step that pops an emptied slot shortens the queue by one, and the queue never
    holds more than `ntasks` entries: `nStallBound = nWork·(ntasks+1) + |queue|` strictly decreases with every
    top-level step that does not end in the guard panic.  So from every state of every nested-step system,
    `nStallBound` top-level steps reach the stall (empty queue) or the guard panic; the driver checks
    `nStallBound ≤` its budget for every case, so `end=cut` is never printed. -/
theorem nested_run_terminates (scripts : List NScript) (n : Nat) :
    let s := nStepN n (nInit scripts)
    (∀ s', nStep s = some s' → s'.panicked = false → nStallBound s' < nStallBound s) ∧
    (∀ m, nStallBound s ≤ m → (nStepN m s).queue = [] ∨ (nStepN m s).panicked = true) := by
  intro s
  have h : NTop s := ntop_stepN n (ntop_init scripts)
  exact ⟨fun s' hs hp => nStallBound_step h hs hp, fun m hm => nStepN_stalls m h hm⟩

open Nested in
example : nStallBound (nInit [[.nest, .yield, .nest], [.wake 0, .yield], [.nest]]) = 39 := by decide

/-! ### wave 3, second half -/

/-- the infinite run of a task system: the state after `i` calls of `Executor::step` -/
def run (sticky : Bool) (scripts : List Script) (roots : Nat) (i : Nat) : State :=
  stepN i (init sticky scripts roots)

/-- ★ Bounded bypass = FIFO fairness, in the form "for every history": in the infinite run of ANY task system, if
    task `t` is woken-and-not-yet-polled at step boundary `i` (it is in the wake queue: spawned, woken by itself
    during its poll, by another task, by a relay — whatever happened in steps `1 … i`), then there is a
    `j < |queue at i|` such that the steps `i+1 … i+j` pop other tasks (each of the `j` tasks that were ahead of it,
    in order, and none of them `t`) and step `i+j+1` pops `t` and runs `Task::poll` on it (trace `poll t … ` or
    `noop t` for an emptied slot): at most `|queue at i| - 1` other polls overtake it, however often the others
    re-wake themselves.  `j` is the position of `t` in the queue at `i`. -/
theorem bounded_bypass (sticky : Bool) (scripts : List Script) (roots : Nat) (i t : Nat)
    (hw : t ∈ (run sticky scripts roots i).queue) :
    ∃ j, j < (run sticky scripts roots i).queue.length ∧ (run sticky scripts roots i).queue[j]? = some t ∧
      (∀ j', j' < j → ∃ u q, u ≠ t ∧ (run sticky scripts roots (i + j')).queue = u :: q ∧
        (run sticky scripts roots i).queue[j']? = some u) ∧
      (∃ q, (run sticky scripts roots (i + j)).queue = t :: q ∧
        run sticky scripts roots (i + j + 1) = (poll { run sticky scripts roots (i + j) with queue := q } t).1 ∧
        ((run sticky scripts roots (i + j + 1)).log = (run sticky scripts roots (i + j)).log ++ [.noop t] ∨
         ∃ b, (run sticky scripts roots (i + j + 1)).log = (run sticky scripts roots (i + j)).log ++ [.poll t, .ret t b])) := by
  have hreach : Reachable (run sticky scripts roots i) := ⟨sticky, scripts, roots, i, rfl⟩
  have hnd := queue_nodup _ hreach
  obtain ⟨j, hj, hjt⟩ := List.getElem_of_mem hw
  have hjq : (run sticky scripts roots i).queue[j]? = some t := by rw [List.getElem?_eq_getElem hj, hjt]
  have hadd : ∀ k, run sticky scripts roots (i + k) = stepN k (run sticky scripts roots i) := fun k => stepN_add i k _
  refine ⟨j, hj, hjq, ?_, ?_⟩
  · intro j' hj'
    have hj'l : j' < (run sticky scripts roots i).queue.length := Nat.lt_trans hj' hj
    obtain ⟨q, h1, _⟩ := fifo_bound (run sticky scripts roots i) j' _ (List.getElem?_eq_getElem hj'l)
    refine ⟨_, q, ?_, by rw [hadd]; exact h1, List.getElem?_eq_getElem hj'l⟩
    intro e
    have hne := List.pairwise_iff_getElem.mp hnd j' j hj'l hj hj'
    exact hne (e.trans hjt.symm)
  · obtain ⟨q, h1, h2⟩ := fifo_bound (run sticky scripts roots i) j t hjq
    have hnext : run sticky scripts roots (i + j + 1) =
        (poll { run sticky scripts roots (i + j) with queue := q } t).1 := by
      show stepN (i + j + 1) _ = _
      rw [stepN_add (i + j) 1, stepN_one]
      show (match step (run sticky scripts roots (i + j)) with | none => _ | some r => r.1) = _
      rw [hadd, h2]
    refine ⟨q, by rw [hadd]; exact h1, hnext, ?_⟩
    rw [hnext]
    rcases poll_trace { run sticky scripts roots (i + j) with queue := q } t with ⟨_, hl, _⟩ | ⟨acts, _, hl, _⟩
    · exact Or.inl hl
    · exact Or.inr ⟨_, hl⟩

example : (2 : Nat) ∈ (run true [[.yield, .yield, .yield], [.yield, .yield, .yield], [.yield]] 3 5).queue := by decide

open Nested in
/-- ★ What the executor is left in when the recursion guard panics ("unwinding after the guard panic: the case ends
    there" until now).  The model's outcome `panic` freezes the state at the guard (`nStep` of a panicked state is
    `none`: any number of further steps changes nothing).  In EVERY state at a top-level boundary — the frozen one
    included — the wake queue holds no task twice, no task is in progress twice, every task in progress still has
    its future in its slot, and no task has been lost: every unfinished task is in the wake queue or is one of the
    polls that were in progress when the guard fired (those are exactly the tasks the unwinding takes out of the
    queue without finishing them: the harness observes them as `act=` after `catch_unwind`). -/
theorem guard_panic_frozen (scripts : List NScript) (n : Nat) :
    let s := nStepN n (nInit scripts)
    s.queue.Nodup ∧ s.stack.Nodup ∧ (∀ x, x ∈ s.stack → (s.fut x).isSome = true) ∧
    (∀ x, x < s.ntasks → (s.fut x).isSome = true → x ∈ s.queue ∨ x ∈ s.stack) ∧
    (s.panicked = true → ∀ m, nStepN m s = s) ∧
    (s.panicked = false → s.stack = []) ∧ nFrozenB s = true := by
  intro s
  have h : NTop s := ntop_stepN n (ntop_init scripts)
  have hl : LiveB s := liveF_stepN n (ntop_init scripts) (fun x hx _ => Or.inl (List.mem_range.mpr hx))
  refine ⟨h.inv.qn, h.inv.sn, h.inv.occ, hl, fun hp m => nStepN_panicked m s hp, h.idle, ?_⟩
  unfold nFrozenB
  rw [n_nodupB_of _ h.inv.qn, n_nodupB_of _ h.inv.sn]
  simp only [Bool.and_self, Bool.true_and, List.all_eq_true, List.mem_range, Bool.or_eq_true]
  intro x hx
  cases hf : s.fut x with
  | none => left; left; rfl
  | some a =>
    rcases hl x hx (by rw [hf]; rfl) with h1 | h1
    · left; right; exact List.contains_iff_mem.mpr h1
    · right; exact List.contains_iff_mem.mpr h1

open Nested in
/-- three polls in progress when the guard fires for task 0; task 1 and 2 are taken out of the queue unfinished -/
example : let s := nStepN 5 (nInit [[.nest, .nest], [.nest], [.wake 0, .nest]])
    s.panicked = true ∧ s.stack = [2, 1, 0] ∧ s.queue = [] := by decide

end YashModel.Executor
