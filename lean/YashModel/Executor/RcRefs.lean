/-
  C15 helper lemmas, part 14 (wave 3): the count the code maintains IS the derived count `refs`.  `Cnt`: the live
  `Waker`s of the counted run (`RcModel.lean`) are exactly those the task system shows — registered with a channel
  (`heldWf`), stored in a relay (`heldRf`), plus the waker `Task::poll` made for the task being polled — and the
  local handles are exactly the one `Executor::step` popped; the ghost flag never rises.  Carried through every
  vtable entry, every action of the test futures, `Task::poll`, `Executor::step`, every outside operation
  (`atB_rRun`), so with the accounting identity of `RcLemmas.lean`: strong count = `refs` at every boundary.
-/
import YashModel.Executor.RcProj
import YashModel.Executor.Outside
namespace YashModel.Executor.Rc

/-! ### counting the wakers the task system holds -/

/-- wakers of `t` registered with the channels `< nch` -/
def heldWf (w : Nat → List Nat) (nch t : Nat) : Nat := ((List.range nch).map fun k => (w k).count t).sum

/-- wakers of `t` stored in the relays of the tasks `< n` -/
def heldRf (relay : Nat → Relay) (n t : Nat) : Nat := ((List.range n).filter fun c => relay c == .polled t).length

theorem refs_eq (s : State) (nch t : Nat) :
    refs s nch t = s.queue.count t + heldWf s.waiters nch t + heldRf s.relay s.ntasks t := rfl

theorem sum_map_upd (n k : Nat) (hk : k < n) (f g : Nat → Nat) (hfg : ∀ j, j ≠ k → g j = f j) :
    ((List.range n).map g).sum + f k = ((List.range n).map f).sum + g k := by
  induction n with
  | zero => omega
  | succ n ih =>
    simp only [List.range_succ, List.map_append, List.sum_append, List.map_cons, List.map_nil, List.sum_cons,
      List.sum_nil, Nat.add_zero]
    by_cases e : k = n
    · subst e
      have : (List.range k).map g = (List.range k).map f := by
        apply List.map_congr_left
        intro j hj
        exact hfg j (by have := List.mem_range.mp hj; omega)
      rw [this]; omega
    · have := ih (by omega)
      have hn := hfg n (fun h => e h.symm)
      omega

theorem sum_map_same (n : Nat) (f g : Nat → Nat) (hfg : ∀ j, j < n → g j = f j) :
    ((List.range n).map g).sum = ((List.range n).map f).sum := by
  congr 1
  apply List.map_congr_left
  intro j hj
  exact hfg j (List.mem_range.mp hj)

theorem heldWf_upd (w : Nat → List Nat) (nch k : Nat) (hk : k < nch) (l : List Nat) (t : Nat) :
    heldWf (upd w k l) nch t + (w k).count t = heldWf w nch t + l.count t := by
  unfold heldWf
  have := sum_map_upd nch k hk (fun j => (w j).count t) (fun j => ((upd w k l) j).count t)
    (fun j hj => by simp [upd_apply, hj])
  simpa [upd_apply] using this

theorem filter_length_sum (l : List Nat) (p : Nat → Bool) :
    (l.filter p).length = (l.map fun c => if p c then 1 else 0).sum := by
  induction l with
  | nil => rfl
  | cons a l ih =>
    simp only [List.filter_cons, List.map_cons, List.sum_cons]
    cases h : p a <;> simp [ih] <;> omega

theorem heldRf_upd (relay : Nat → Relay) (n c : Nat) (hc : c < n) (v : Relay) (t : Nat) :
    heldRf (upd relay c v) n t + (if relay c = .polled t then 1 else 0) =
      heldRf relay n t + (if v = .polled t then 1 else 0) := by
  unfold heldRf
  rw [filter_length_sum, filter_length_sum]
  have := sum_map_upd n c hc (fun j => if relay j == .polled t then 1 else 0)
    (fun j => if (upd relay c v) j == .polled t then 1 else 0) (fun j hj => by simp [upd_apply, hj])
  simpa [upd_apply] using this

theorem heldRf_new (relay : Nat → Relay) (n t : Nat) :
    heldRf (upd relay n .pending) (n + 1) t = heldRf relay n t := by
  unfold heldRf
  rw [filter_length_sum, filter_length_sum]
  simp only [List.range_succ, List.map_append, List.sum_append, List.map_cons, List.map_nil, List.sum_cons,
    List.sum_nil]
  have : (List.range n).map (fun c => if (upd relay n .pending) c == .polled t then 1 else 0) =
      (List.range n).map (fun c => if relay c == .polled t then 1 else 0) := by
    apply List.map_congr_left
    intro j hj
    have : j ≠ n := by have := List.mem_range.mp hj; omega
    simp [upd_apply, this]
  rw [this]
  simp [upd_apply]

/-! ### what the vtable entries do to the ghost counters (independent of the strong count) -/

/-- the ghost part of a state: flag, wakers, locals -/
structure GEff (r r' : RState) (dwk : Nat → Int) : Prop where
  g : r'.gunder = r.gunder
  wk : ∀ u, (r'.wk u : Int) = r.wk u + dwk u
  loc : ∀ u, r'.loc u = r.loc u

theorem decStrong_ghost (r : RState) (t : Nat) :
    (decStrong r t).gunder = r.gunder ∧ (decStrong r t).wk = r.wk ∧ (decStrong r t).loc = r.loc := by
  unfold decStrong; split <;> exact ⟨rfl, rfl, rfl⟩

theorem vtClone_eff (r : RState) (t : Nat) (ht : t < r.s.ntasks) :
    GEff r (vtClone r t) (fun u => if u = t then 1 else 0) := by
  rw [vtClone_eq ht]
  refine ⟨rfl, ?_, fun _ => rfl⟩
  intro u
  by_cases e : u = t <;> simp [upd_apply, e]

theorem vtDrop_eff (r : RState) (t : Nat) (hw : r.wk t ≠ 0) :
    GEff r (vtDrop r t) (fun u => if u = t then -1 else 0) := by
  unfold vtDrop wkDown
  obtain ⟨d1, d2, d3⟩ := decStrong_ghost r t
  have hw' : (decStrong r t).wk t ≠ 0 := by rw [d2]; exact hw
  simp only [hw', if_false]
  refine ⟨d1, ?_, fun u => by show (decStrong r t).loc u = _; rw [d3]⟩
  intro u
  show ((upd (decStrong r t).wk t ((decStrong r t).wk t - 1) u : Nat) : Int) = _
  rw [d2]
  by_cases e : u = t
  · subst e; simp only [upd_apply, if_true]; omega
  · simp [upd_apply, e]

theorem locDown_eff {r : RState} {t : Nat} (hl : r.loc t ≠ 0) :
    locDown r t = { r with loc := upd r.loc t (r.loc t - 1) } := by
  unfold locDown; simp [hl]

/-- `Task::wake` consuming a local handle: only `loc t` goes down by one (and the task system moves) -/
theorem taskWake_ghost (r : RState) (t : Nat) (hl : r.loc t ≠ 0) :
    (taskWake r t).gunder = r.gunder ∧ (taskWake r t).wk = r.wk ∧
    (∀ u, (taskWake r t).loc u = if u = t then r.loc t - 1 else r.loc u) := by
  unfold taskWake
  have hdrop : (locDown (decStrong r t) t).gunder = r.gunder ∧ (locDown (decStrong r t) t).wk = r.wk ∧
      (∀ u, (locDown (decStrong r t) t).loc u = if u = t then r.loc t - 1 else r.loc u) := by
    obtain ⟨d1, d2, d3⟩ := decStrong_ghost r t
    have hl' : (decStrong r t).loc t ≠ 0 := by rw [d3]; exact hl
    rw [locDown_eff hl']
    refine ⟨d1, d2, fun u => ?_⟩
    show upd (decStrong r t).loc t ((decStrong r t).loc t - 1) u = _
    rw [d3]; simp [upd_apply]
  split
  · exact hdrop
  · split
    · exact hdrop
    · have hl' : ({ r with s := wake r.s t } : RState).loc t ≠ 0 := hl
      rw [locDown_eff hl']
      exact ⟨rfl, rfl, fun u => by simp [upd_apply]⟩

theorem vtWake_eff (r : RState) (t : Nat) (ht : t < r.s.ntasks) (hw : r.wk t ≠ 0) :
    GEff r (vtWake r t) (fun u => if u = t then -1 else 0) := by
  unfold vtWake
  rw [fromRaw_eq ht hw]
  obtain ⟨g1, g2, g3⟩ := taskWake_ghost
    { r with wk := upd r.wk t (r.wk t - 1), loc := upd r.loc t (r.loc t + 1) } t (by simp [upd_apply])
  refine ⟨g1, ?_, ?_⟩
  · intro u
    rw [g2]
    show ((upd r.wk t (r.wk t - 1) u : Nat) : Int) = _
    by_cases e : u = t
    · subst e; simp only [upd_apply, if_true]; omega
    · simp [upd_apply, e]
  · intro u
    rw [g3 u]
    by_cases e : u = t
    · subst e; simp [upd_apply]
    · simp [upd_apply, e]

theorem vtWakeByRef_eff (r : RState) (t : Nat) (ht : t < r.s.ntasks) :
    GEff r (vtWakeByRef r t) (fun _ => 0) := by
  unfold vtWakeByRef
  have e1 : locUp (incStrong r t) t =
      { r with strong := upd r.strong t (r.strong t + 1), loc := upd r.loc t (r.loc t + 1) } := by
    unfold locUp incStrong; simp [ht]
  rw [e1]
  obtain ⟨g1, g2, g3⟩ := taskWake_ghost
    { r with strong := upd r.strong t (r.strong t + 1), loc := upd r.loc t (r.loc t + 1) } t (by simp [upd_apply])
  refine ⟨g1, fun u => by rw [g2]; simp, ?_⟩
  intro u
  rw [g3 u]
  by_cases e : u = t
  · subst e; simp [upd_apply]
  · simp [upd_apply, e]

/-! ### the counting invariant -/

/-- the wakers and local handles the counted run holds are exactly those the task system shows: registered with
    a channel, stored in a relay, plus the waker `Task::poll` made for the task being polled (`wrun`) and the
    handle `Executor::step` popped (`lrun`) -/
structure Cnt (nch : Nat) (lrun wrun : Option Nat) (r : RState) : Prop where
  g : r.gunder = false
  wk : ∀ t, r.wk t = heldWf r.s.waiters nch t + heldRf r.s.relay r.s.ntasks t + (if wrun = some t then 1 else 0)
  loc : ∀ t, r.loc t = (if lrun = some t then 1 else 0)

/-- only the queue (and ghost/trace fields) may differ -/
def QEq (s s' : State) : Prop :=
  s'.waiters = s.waiters ∧ s'.relay = s.relay ∧ s'.ntasks = s.ntasks ∧ s'.pool = s.pool ∧ s'.fut = s.fut

theorem QEq.refl (s : State) : QEq s s := ⟨rfl, rfl, rfl, rfl, rfl⟩
theorem QEq.trans {a b c : State} (h1 : QEq a b) (h2 : QEq b c) : QEq a c :=
  ⟨h2.1.trans h1.1, h2.2.1.trans h1.2.1, h2.2.2.1.trans h1.2.2.1, h2.2.2.2.1.trans h1.2.2.2.1,
   h2.2.2.2.2.trans h1.2.2.2.2⟩

theorem qeq_wakeIf (s : State) (d : Bool) (t : Nat) : QEq s (if d then s else wake s t) := by
  cases d <;> exact ⟨rfl, rfl, rfl, rfl, rfl⟩

/-- a piece of the counted run: ghost effect `d` on the wakers, only the queue of the task system moved -/
structure St (r r' : RState) (d : Nat → Int) : Prop where
  eff : GEff r r' d
  q : QEq r.s r'.s

theorem St.trans {a b c : RState} {d1 d2 : Nat → Int} (h1 : St a b d1) (h2 : St b c d2) :
    St a c (fun u => d1 u + d2 u) :=
  ⟨⟨h2.eff.g.trans h1.eff.g, fun u => by have := h1.eff.wk u; have := h2.eff.wk u; omega,
    fun u => (h2.eff.loc u).trans (h1.eff.loc u)⟩, h1.q.trans h2.q⟩

theorem st_lg {r x : RState} {d : Nat → Int} (h : St r x d) (cs : List Nat) : St r (lg x cs) d :=
  ⟨⟨h.eff.g, h.eff.wk, h.eff.loc⟩, h.q⟩

theorem st_vtClone (r : RState) (t : Nat) (ht : t < r.s.ntasks) :
    St r (vtClone r t) (fun u => if u = t then 1 else 0) :=
  ⟨vtClone_eff r t ht, by rw [(vtClone_p r t).1]; exact QEq.refl _⟩

theorem st_vtDrop (r : RState) (t : Nat) (hw : r.wk t ≠ 0) :
    St r (vtDrop r t) (fun u => if u = t then -1 else 0) :=
  ⟨vtDrop_eff r t hw, by rw [(vtDrop_p r t).1]; exact QEq.refl _⟩

theorem st_vtWake (r : RState) (t : Nat) (ht : t < r.s.ntasks) (hw : r.wk t ≠ 0) :
    St r (vtWake r t) (fun u => if u = t then -1 else 0) :=
  ⟨vtWake_eff r t ht hw, by rw [(vtWake_gen r t).1]; exact qeq_wakeIf _ _ _⟩

theorem st_vtWakeByRef (r : RState) (t : Nat) (ht : t < r.s.ntasks) :
    St r (vtWakeByRef r t) (fun _ => 0) :=
  ⟨vtWakeByRef_eff r t ht, by rw [(vtWakeByRef_gen r t).1]; exact qeq_wakeIf _ _ _⟩

/-- the invariant follows the ghost effect when the held wakers move by the same amounts -/
theorem cnt_move {nch : Nat} {lrun wrun : Option Nat} {r r' : RState} {d : Nat → Int}
    (h : Cnt nch lrun wrun r) (e : GEff r r' d)
    (hh : ∀ u, ((heldWf r'.s.waiters nch u + heldRf r'.s.relay r'.s.ntasks u : Nat) : Int) =
      ((heldWf r.s.waiters nch u + heldRf r.s.relay r.s.ntasks u : Nat) : Int) + d u) :
    Cnt nch lrun wrun r' := by
  refine ⟨e.g.trans h.g, fun u => ?_, fun u => (e.loc u).trans (h.loc u)⟩
  have h1 := e.wk u
  have h2 := h.wk u
  have h3 := hh u
  omega

theorem cnt_st {nch : Nat} {lrun wrun : Option Nat} {r r' : RState} {d : Nat → Int}
    (h : Cnt nch lrun wrun r) (st : St r r' d) (hd : ∀ u, d u = 0) : Cnt nch lrun wrun r' := by
  refine cnt_move h st.eff (fun u => ?_)
  rw [st.q.1, st.q.2.1, st.q.2.2.1, hd u]; simp

theorem cnt_lg {nch : Nat} {lrun wrun : Option Nat} {x : RState} (h : Cnt nch lrun wrun x) (cs : List Nat) :
    Cnt nch lrun wrun (lg x cs) := ⟨h.g, h.wk, h.loc⟩

/-- `cx.waker().wake_by_ref(); cx.waker().clone().wake()` -/
theorem cnt_yield {nch : Nat} {lrun wrun : Option Nat} {r : RState} (h : Cnt nch lrun wrun r) (t : Nat)
    (ht : t < r.s.ntasks) :
    Cnt nch lrun wrun (vtWake (vtClone (vtWakeByRef r t) t) t) ∧ QEq r.s (vtWake (vtClone (vtWakeByRef r t) t) t).s := by
  have s1 := st_vtWakeByRef r t ht
  have ht1 : t < (vtWakeByRef r t).s.ntasks := by rw [s1.q.2.2.1]; exact ht
  have s2 := st_vtClone (vtWakeByRef r t) t ht1
  have ht2 : t < (vtClone (vtWakeByRef r t) t).s.ntasks := by rw [s2.q.2.2.1]; exact ht1
  have hw2 : (vtClone (vtWakeByRef r t) t).wk t ≠ 0 := by
    have a := s1.eff.wk t
    have b := s2.eff.wk t
    simp only [if_true] at b
    omega
  have s3 := st_vtWake _ t ht2 hw2
  refine ⟨cnt_st h ((s1.trans s2).trans s3) (fun u => ?_), ((s1.trans s2).trans s3).q⟩
  by_cases e : u = t <;> simp [e]

theorem wakeAllRef_st (ws : List Nat) (r : RState) (hw : ∀ w, w ∈ ws → w < r.s.ntasks) :
    ∃ d, St r (wakeAllRef r ws) d ∧ ∀ u, d u = 0 := by
  induction ws generalizing r with
  | nil => exact ⟨fun _ => 0, ⟨⟨rfl, fun u => by show ((r.wk u : Nat) : Int) = r.wk u + 0; simp, fun _ => rfl⟩, QEq.refl _⟩, fun _ => rfl⟩
  | cons w ws ih =>
    have hwl : w < r.s.ntasks := hw w (by simp)
    have s1 := st_vtClone r w hwl
    have h1 : w < (vtClone r w).s.ntasks := by rw [s1.q.2.2.1]; exact hwl
    have s2 := st_vtWakeByRef (vtClone r w) w h1
    have hw3 : (vtWakeByRef (vtClone r w) w).wk w ≠ 0 := by
      have a := s1.eff.wk w
      have b := s2.eff.wk w
      simp only [if_true] at a
      omega
    have s3 := st_vtDrop (vtWakeByRef (vtClone r w) w) w hw3
    have s123 := st_lg ((s1.trans s2).trans s3) [cClone w, cRef w, cDrop w]
    obtain ⟨d, sd, hd⟩ := ih (lg (vtDrop (vtWakeByRef (vtClone r w) w) w) [cClone w, cRef w, cDrop w]) (fun x hx => by
      rw [s123.q.2.2.1]; exact hw x (List.mem_cons_of_mem _ hx))
    refine ⟨_, s123.trans sd, fun u => ?_⟩
    rw [hd u]
    by_cases e : u = w <;> simp [e]

theorem wakeAllVal_st (ws : List Nat) (r : RState) (hw : ∀ w, w ∈ ws → w < r.s.ntasks)
    (hc : ∀ u, ws.count u ≤ r.wk u) :
    St r (wakeAllVal r ws) (fun u => -(ws.count u : Int)) := by
  induction ws generalizing r with
  | nil => exact ⟨⟨rfl, fun u => by show ((r.wk u : Nat) : Int) = r.wk u + -(([] : List Nat).count u : Int); simp, fun _ => rfl⟩, QEq.refl _⟩
  | cons w ws ih =>
    have hwl : w < r.s.ntasks := hw w (by simp)
    have hw1 : r.wk w ≠ 0 := by have := hc w; simp only [List.count_cons_self] at this; omega
    have s1 := st_lg (st_vtWake r w hwl hw1) [cWake w]
    have s2 := ih (lg (vtWake r w) [cWake w]) (fun x hx => by rw [s1.q.2.2.1]; exact hw x (List.mem_cons_of_mem _ hx)) (fun u => by
      have a := s1.eff.wk u
      have b := hc u
      by_cases e : u = w
      · subst e; simp only [List.count_cons_self, if_true] at a b; omega
      · have : (w :: ws).count u = ws.count u := by simp [List.count_cons, Ne.symm e]
        simp only [e, if_false] at a; omega)
    have := s1.trans s2
    refine ⟨⟨this.eff.g, fun u => ?_, this.eff.loc⟩, this.q⟩
    have a : (((wakeAllVal (lg (vtWake r w) [cWake w]) ws).wk u : Nat) : Int) = _ := this.eff.wk u
    show (((wakeAllVal (lg (vtWake r w) [cWake w]) ws).wk u : Nat) : Int) = _
    by_cases e : u = w
    · subst e; simp only [List.count_cons_self, if_true] at a ⊢; omega
    · have : (w :: ws).count u = ws.count u := by simp [List.count_cons, Ne.symm e]
      simp only [e, if_false] at a; rw [this]; omega

/-- what the channel numbers of the scripts and the registered wakers are bounded by -/
structure ChanB (nch : Nat) (s : State) : Prop where
  chan : ∀ k, nch ≤ k → s.waiters k = []
  poolch : ∀ sc, sc ∈ s.pool → ∀ k, Action.wait k ∈ sc → k < nch
  futch : ∀ t acts, s.fut t = some acts → ∀ k, Action.wait k ∈ acts → k < nch

theorem chanB_q {nch : Nat} {s s' : State} (h : ChanB nch s) (q : QEq s s') : ChanB nch s' :=
  ⟨fun k hk => by rw [q.1]; exact h.chan k hk, fun sc hs => h.poolch sc (by rw [← q.2.2.2.1]; exact hs),
   fun t acts hf => h.futch t acts (by rw [← q.2.2.2.2]; exact hf)⟩

theorem count_le_heldWf (w : Nat → List Nat) (nch k : Nat) (hk : k < nch) (u : Nat) :
    (w k).count u ≤ heldWf w nch u :=
  le_sum_of_mem _ _ (List.mem_map.mpr ⟨k, List.mem_range.mpr hk, rfl⟩)

theorem heldWf_congr (w w' : Nat → List Nat) (nch u : Nat) (h : ∀ j, j < nch → w' j = w j) :
    heldWf w' nch u = heldWf w nch u :=
  sum_map_same nch _ _ (fun j hj => by rw [h j hj])

/-- ghost fields untouched, any change of the task system -/
theorem geff_s (r : RState) (s' : State) : GEff r { r with s := s' } (fun _ => 0) :=
  ⟨rfl, fun u => by show ((r.wk u : Nat) : Int) = r.wk u + 0; simp, fun _ => rfl⟩

theorem cnt_sfield {nch : Nat} {lrun wrun : Option Nat} {r : RState} (h : Cnt nch lrun wrun r) (s' : State)
    (h1 : s'.waiters = r.s.waiters) (h2 : s'.relay = r.s.relay) (h3 : s'.ntasks = r.s.ntasks) :
    Cnt nch lrun wrun { r with s := s' } :=
  cnt_move h (geff_s r s') (fun u => by show ((heldWf s'.waiters nch u + heldRf s'.relay s'.ntasks u : Nat) : Int) = _; rw [h1, h2, h3]; simp)

theorem cnt_rSignal {ab : Bool} {run : Option Nat} {nch : Nat} {lrun wrun : Option Nat} {r : RState}
    (hi : InvX ab run r.s) (hc : ChanB nch r.s) (h : Cnt nch lrun wrun r) (k : Nat) :
    Cnt nch lrun wrun (rSignal r k) ∧ ChanB nch (rSignal r k).s := by
  have hws : ∀ w, w ∈ r.s.waiters k → w < r.s.ntasks := fun w hw => hi.wlt k w hw
  have h1 : Cnt nch lrun wrun { r with s := { r.s with tokens := upd r.s.tokens k (r.s.tokens k + 1) } } :=
    cnt_sfield h _ rfl rfl rfl
  have hc1 : ChanB nch ({ r with s := { r.s with tokens := upd r.s.tokens k (r.s.tokens k + 1) } } : RState).s :=
    ⟨hc.chan, hc.poolch, hc.futch⟩
  by_cases hs : r.s.sticky = true
  · rw [rSignal_sticky r k hs]
    obtain ⟨d, sd, hd⟩ := wakeAllRef_st (r.s.waiters k)
      { r with s := { r.s with tokens := upd r.s.tokens k (r.s.tokens k + 1) } } hws
    exact ⟨cnt_st h1 sd hd, chanB_q hc1 sd.q⟩
  · rw [rSignal_drain r k hs]
    have hcount : ∀ u, (r.s.waiters k).count u ≤ r.wk u := by
      intro u
      by_cases hk : k < nch
      · have := count_le_heldWf r.s.waiters nch k hk u
        have := h.wk u
        omega
      · rw [hc.chan k (by omega)]; simp
    have sd := wakeAllVal_st (r.s.waiters k)
      { r with s := { r.s with tokens := upd r.s.tokens k (r.s.tokens k + 1) } } hws hcount
    generalize wakeAllVal { r with s := { r.s with tokens := upd r.s.tokens k (r.s.tokens k + 1) } }
      (r.s.waiters k) = W at sd ⊢
    have q : QEq r.s W.s := sd.q
    refine ⟨?_, ?_⟩
    · refine cnt_move h1 (r' := { W with s := { W.s with waiters := upd W.s.waiters k [] } })
        ⟨sd.eff.g, sd.eff.wk, sd.eff.loc⟩ (fun u => ?_)
      show ((heldWf (upd W.s.waiters k []) nch u + heldRf W.s.relay W.s.ntasks u : Nat) : Int) =
        ((heldWf r.s.waiters nch u + heldRf r.s.relay r.s.ntasks u : Nat) : Int) + -((r.s.waiters k).count u : Int)
      rw [q.1, q.2.1, q.2.2.1]
      by_cases hk : k < nch
      · have := heldWf_upd r.s.waiters nch k hk [] u
        simp only [List.count_nil] at this
        omega
      · have e : r.s.waiters k = [] := hc.chan k (by omega)
        have := heldWf_congr r.s.waiters (upd r.s.waiters k []) nch u (fun j hj => by
          have : j ≠ k := by omega
          simp [upd_apply, this])
        rw [this, e]; simp
    · refine ⟨fun j hj => ?_, fun sc hsc => hc.poolch sc (by rw [← q.2.2.2.1]; exact hsc),
        fun t acts hf => hc.futch t acts (by rw [← q.2.2.2.2]; exact hf)⟩
      show upd W.s.waiters k [] j = []
      rw [q.1]
      by_cases e : j = k
      · simp [upd_apply, e]
      · simp only [upd_apply, e, if_false]; exact hc.chan j hj

/-- `waiters[k].push(cx.waker().clone())` -/
theorem cnt_register {nch : Nat} {lrun wrun : Option Nat} {r : RState} (hc : ChanB nch r.s)
    (h : Cnt nch lrun wrun r) (t k : Nat) (ht : t < r.s.ntasks) (hk : k < nch) :
    Cnt nch lrun wrun { vtClone r t with s := { (vtClone r t).s with
      waiters := upd (vtClone r t).s.waiters k ((vtClone r t).s.waiters k ++ [t]) } } ∧
    ChanB nch { (vtClone r t).s with waiters := upd (vtClone r t).s.waiters k ((vtClone r t).s.waiters k ++ [t]) } := by
  have s1 := st_vtClone r t ht
  have es : (vtClone r t).s = r.s := (vtClone_p r t).1
  refine ⟨?_, ?_⟩
  · refine cnt_move h (r' := { vtClone r t with s := { (vtClone r t).s with
      waiters := upd (vtClone r t).s.waiters k ((vtClone r t).s.waiters k ++ [t]) } })
      ⟨s1.eff.g, s1.eff.wk, s1.eff.loc⟩ (fun u => ?_)
    show ((heldWf (upd (vtClone r t).s.waiters k ((vtClone r t).s.waiters k ++ [t])) nch u +
      heldRf (vtClone r t).s.relay (vtClone r t).s.ntasks u : Nat) : Int) = _
    rw [es]
    have := heldWf_upd r.s.waiters nch k hk (r.s.waiters k ++ [t]) u
    rw [List.count_append] at this
    by_cases e : u = t
    · subst e; simp only [List.count_singleton_self, if_true] at this ⊢; omega
    · have hz : ([t] : List Nat).count u = 0 := by simp [Ne.symm e]
      simp only [hz, e, if_false] at this ⊢; omega
  · rw [es]
    refine ⟨fun j hj => ?_, hc.poolch, hc.futch⟩
    have : j ≠ k := by omega
    simp only [upd_apply, this, if_false]; exact hc.chan j hj

/-- action `spawn` -/
theorem cnt_rSpawnChild {ab : Bool} {run : Option Nat} {nch : Nat} {lrun wrun : Option Nat} {r : RState}
    (hi : InvX ab run r.s) (hc : ChanB nch r.s) (h : Cnt nch lrun wrun r) (t : Nat) :
    Cnt nch lrun wrun (rSpawnChild r t) ∧ ChanB nch (rSpawnChild r t).s := by
  unfold rSpawnChild
  cases hp : r.s.pool with
  | nil => exact ⟨h, hc⟩
  | cons sc rest =>
    simp only []
    refine ⟨⟨h.g, fun u => ?_, h.loc⟩, ?_, ?_, ?_⟩
    · show r.wk u = heldWf r.s.waiters nch u + heldRf (upd r.s.relay r.s.ntasks .pending) (r.s.ntasks + 1) u + _
      rw [heldRf_new]; exact h.wk u
    · exact hc.chan
    · intro sc' hs'
      exact hc.poolch sc' (by rw [hp]; exact List.mem_cons_of_mem _ hs')
    · intro x acts hf
      have hf' : upd r.s.fut r.s.ntasks (some sc) x = some acts := hf
      by_cases e : x = r.s.ntasks
      · simp only [upd_apply, e, if_true, Option.some.injEq] at hf'
        subst hf'
        exact hc.poolch sc (by rw [hp]; simp)
      · simp only [upd_apply, e, if_false] at hf'
        exact hc.futch x acts hf'

theorem heldRf_pos (relay : Nat → Relay) (n c w : Nat) (hc : c < n) (h : relay c = .polled w) :
    0 < heldRf relay n w := by
  have := heldRf_upd relay n c hc .pending w
  simp [h] at this
  omega

/-- `Sender::send` -/
theorem cnt_rSend {ab : Bool} {run : Option Nat} {nch : Nat} {lrun wrun : Option Nat} {r : RState}
    (hi : InvX ab run r.s) (hc : ChanB nch r.s) (h : Cnt nch lrun wrun r) (t v : Nat) (ht : t < r.s.ntasks) :
    Cnt nch lrun wrun (rSend r t v) ∧ ChanB nch (rSend r t v).s := by
  unfold rSend
  cases hr : r.s.relay t with
  | pending =>
    simp only []
    refine ⟨cnt_move h (geff_s r _) (fun u => ?_), ⟨hc.chan, hc.poolch, hc.futch⟩⟩
    show ((heldWf r.s.waiters nch u + heldRf (upd r.s.relay t (.computed v)) r.s.ntasks u : Nat) : Int) = _
    have := heldRf_upd r.s.relay r.s.ntasks t ht (.computed v) u
    simp [hr] at this
    omega
  | polled w =>
    simp only []
    have hwl : w < r.s.ntasks := hi.plt t w hr
    have hpos := heldRf_pos r.s.relay r.s.ntasks t w ht hr
    have hw0 : r.wk w ≠ 0 := by have := h.wk w; omega
    have s1 := st_vtWake { r with s := { r.s with relay := upd r.s.relay t (.computed v) } } w hwl hw0
    have hc1 : ChanB nch ({ r with s := { r.s with relay := upd r.s.relay t (.computed v) } } : RState).s :=
      ⟨hc.chan, hc.poolch, hc.futch⟩
    refine ⟨cnt_move h ⟨s1.eff.g, s1.eff.wk, s1.eff.loc⟩ (fun u => ?_), chanB_q hc1 s1.q⟩
    rw [s1.q.1, s1.q.2.1, s1.q.2.2.1]
    show ((heldWf r.s.waiters nch u + heldRf (upd r.s.relay t (.computed v)) r.s.ntasks u : Nat) : Int) = _
    have := heldRf_upd r.s.relay r.s.ntasks t ht (.computed v) u
    by_cases e : u = w
    · subst e; simp [hr] at this ⊢; omega
    · have hne : ¬ (Relay.polled w = Relay.polled u) := by intro hh; injection hh with hh; exact e hh.symm
      simp [hr, hne, e] at this ⊢; omega
  | computed _ => simp only []; exact ⟨cnt_sfield h _ rfl rfl rfl, ⟨hc.chan, hc.poolch, hc.futch⟩⟩
  | done => simp only []; exact ⟨cnt_sfield h _ rfl rfl rfl, ⟨hc.chan, hc.poolch, hc.futch⟩⟩

theorem polled_inj {a b : Nat} : (Relay.polled a = Relay.polled b) ↔ a = b :=
  ⟨fun h => by injection h, fun h => by rw [h]⟩

/-- one poll of the future of `t`: the counters follow the task system -/
theorem cnt_rRunActs {ab : Bool} {nch : Nat} {lrun wrun : Option Nat} (t : Nat) (acts : Script) (r : RState)
    (hi : InvX ab (some t) r.s) (hc : ChanB nch r.s) (ha : ∀ k, Action.wait k ∈ acts → k < nch)
    (hd : r.dead = false) (h : Cnt nch lrun wrun r) :
    Cnt nch lrun wrun (rRunActs t acts r).1 ∧ ChanB nch (rRunActs t acts r).1.s ∧
    (∀ rest, (rRunActs t acts r).2 = some rest → ∀ k, Action.wait k ∈ rest → k < nch) := by
  fun_induction rRunActs t acts r with
  | case1 r => exact ⟨h, hc, fun _ hr => by cases hr⟩
  | case2 _ r => exact ⟨h, hc, fun _ hr => by cases hr⟩
  | case3 rest r =>
    have htl : t < r.s.ntasks := (hi.run t rfl).1
    obtain ⟨c1, q1⟩ := cnt_yield h t htl
    refine ⟨cnt_lg c1 _, chanB_q hc q1, ?_⟩
    intro rest' hr k hk
    simp only [Option.some.injEq] at hr
    subst hr
    exact ha k (List.mem_cons_of_mem _ hk)
  | case4 k rest r hk ih =>
    exact ih (inv_consume hi k hk) ⟨hc.chan, hc.poolch, hc.futch⟩ (fun k' hk' => ha k' (List.mem_cons_of_mem _ hk'))
      hd (cnt_sfield h _ rfl rfl rfl)
  | case5 k rest r hk r1 =>
    have htl : t < r.s.ntasks := (hi.run t rfl).1
    obtain ⟨c1, b1⟩ := cnt_register hc h t k htl (ha k (by simp))
    refine ⟨cnt_lg c1 _, b1, ?_⟩
    intro rest' hr k' hk'
    simp only [Option.some.injEq] at hr
    subst hr
    exact ha k' hk'
  | case6 k rest r ih =>
    obtain ⟨c1, b1⟩ := cnt_rSignal hi hc h k
    have p := rSignal_p r k hd
    exact ih (by rw [p.1]; exact inv_signal hi k) b1 (fun k' hk' => ha k' (List.mem_cons_of_mem _ hk')) p.2 c1
  | case7 rest r ih =>
    obtain ⟨c1, b1⟩ := cnt_rSpawnChild hi hc h t
    have p := rSpawnChild_p r t
    exact ih (by rw [p.1]; exact inv_spawnChild hi) b1 (fun k' hk' => ha k' (List.mem_cons_of_mem _ hk'))
      (p.2.trans hd) c1
  | case8 rest r hk ih =>
    exact ih hi hc (fun k' hk' => ha k' (List.mem_cons_of_mem _ hk')) hd h
  | case9 rest r c cs hk v hr ih =>
    have hcl : c < r.s.ntasks := (hi.kid t c (by rw [hk]; simp)).1
    refine ih (inv_joinRecv hi c cs v hk hr) ⟨hc.chan, hc.poolch, hc.futch⟩
      (fun k' hk' => ha k' (List.mem_cons_of_mem _ hk')) hd (cnt_move h (geff_s r _) (fun u => ?_))
    show ((heldWf r.s.waiters nch u + heldRf (upd r.s.relay c .done) r.s.ntasks u : Nat) : Int) = _
    have := heldRf_upd r.s.relay r.s.ntasks c hcl .done u
    simp [hr] at this
    omega
  | case10 rest r c cs hk hr =>
    refine ⟨cnt_sfield h _ rfl rfl rfl, ⟨hc.chan, hc.poolch, hc.futch⟩, ?_⟩
    intro rest' hr' k' hk'
    simp only [Option.some.injEq] at hr'
    subst hr'
    exact ha k' hk'
  | case11 rest r c cs hk hr r1 =>
    have htl : t < r.s.ntasks := (hi.run t rfl).1
    have hcl : c < r.s.ntasks := (hi.kid t c (by rw [hk]; simp)).1
    have s1 := st_vtClone r t htl
    have es : (vtClone r t).s = r.s := (vtClone_p r t).1
    refine ⟨?_, ?_, ?_⟩
    · refine cnt_move h (r' := { r1 with s := { r1.s with relay := upd r1.s.relay c (.polled t) } })
        ⟨s1.eff.g, s1.eff.wk, s1.eff.loc⟩ (fun u => ?_)
      show ((heldWf (vtClone r t).s.waiters nch u +
        heldRf (upd (vtClone r t).s.relay c (.polled t)) (vtClone r t).s.ntasks u : Nat) : Int) = _
      rw [es]
      have := heldRf_upd r.s.relay r.s.ntasks c hcl (.polled t) u
      by_cases e : u = t
      · subst e; simp [hr] at this ⊢; omega
      · have hne : ¬ (Relay.polled t = Relay.polled u) := fun hh => e (polled_inj.mp hh).symm
        simp [hr, hne, e] at this ⊢; omega
    · show ChanB nch { r1.s with relay := upd r1.s.relay c (.polled t) }
      have : r1.s = r.s := es
      rw [this]; exact ⟨hc.chan, hc.poolch, hc.futch⟩
    · intro rest' hr' k' hk'
      simp only [Option.some.injEq] at hr'
      subst hr'
      exact ha k' hk'
  | case12 rest r c cs hk w hr r1 =>
    have htl : t < r.s.ntasks := (hi.run t rfl).1
    have hcl : c < r.s.ntasks := (hi.kid t c (by rw [hk]; simp)).1
    have s1 := st_vtClone r t htl
    have es : (vtClone r t).s = r.s := (vtClone_p r t).1
    have hpos := heldRf_pos r.s.relay r.s.ntasks c w hcl hr
    have hw0 : (vtClone r t).wk w ≠ 0 := by
      have a := s1.eff.wk w
      have b := h.wk w
      by_cases e : w = t
      · simp only [if_pos e] at a; omega
      · simp only [if_neg e] at a; omega
    have s2 := st_vtDrop (vtClone r t) w hw0
    have s12 := s1.trans s2
    have es2 : (vtDrop (vtClone r t) w).s = r.s := (vtDrop_p _ w).1.trans es
    refine ⟨?_, ?_, ?_⟩
    · refine cnt_move h (r' := { r1 with s := { r1.s with relay := upd r1.s.relay c (.polled t) } })
        ⟨s12.eff.g, s12.eff.wk, s12.eff.loc⟩ (fun u => ?_)
      show ((heldWf (vtDrop (vtClone r t) w).s.waiters nch u +
        heldRf (upd (vtDrop (vtClone r t) w).s.relay c (.polled t)) (vtDrop (vtClone r t) w).s.ntasks u : Nat) : Int) = _
      rw [es2]
      have := heldRf_upd r.s.relay r.s.ntasks c hcl (.polled t) u
      rw [hr] at this
      have hA : (if Relay.polled w = Relay.polled u then 1 else 0 : Nat) = (if u = w then 1 else 0) := by
        by_cases e : u = w
        · rw [if_pos e, if_pos (polled_inj.mpr e.symm)]
        · rw [if_neg e, if_neg (fun hh => e (polled_inj.mp hh).symm)]
      have hB : (if Relay.polled t = Relay.polled u then 1 else 0 : Nat) = (if u = t then 1 else 0) := by
        by_cases e : u = t
        · rw [if_pos e, if_pos (polled_inj.mpr e.symm)]
        · rw [if_neg e, if_neg (fun hh => e (polled_inj.mp hh).symm)]
      rw [hA, hB] at this
      by_cases e1 : u = t <;> by_cases e2 : u = w
      · simp only [if_pos e1, if_pos e2] at this ⊢; omega
      · simp only [if_pos e1, if_neg e2] at this ⊢; omega
      · simp only [if_neg e1, if_pos e2] at this ⊢; omega
      · simp only [if_neg e1, if_neg e2] at this ⊢; omega
    · show ChanB nch { r1.s with relay := upd r1.s.relay c (.polled t) }
      have : r1.s = r.s := es2
      rw [this]; exact ⟨hc.chan, hc.poolch, hc.futch⟩
    · intro rest' hr' k' hk'
      simp only [Option.some.injEq] at hr'
      subst hr'
      exact ha k' hk'

/-! ### polls, steps -/

theorem rEnter_ghost (r : RState) (t : Nat) (ht : t < r.s.ntasks) :
    (rEnter r t).gunder = r.gunder ∧ (∀ u, (rEnter r t).wk u = if u = t then r.wk t + 1 else r.wk u) ∧
    (∀ u, (rEnter r t).loc u = r.loc u) := by
  have e1 : rcClone r t = { r with strong := upd r.strong t (r.strong t + 1), loc := upd r.loc t (r.loc t + 1) } := by
    unfold rcClone locUp incStrong; simp [ht]
  have e2 : intoWaker (rcClone r t) t =
      { r with strong := upd r.strong t (r.strong t + 1), wk := upd r.wk t (r.wk t + 1),
               loc := upd (upd r.loc t (r.loc t + 1)) t (r.loc t + 1 - 1) } := by
    rw [e1]; unfold intoWaker wkUp locDown; simp [ht, upd_apply]
  have e3 : rEnter r t = { intoWaker (rcClone r t) t with s := logEv (intoWaker (rcClone r t) t).s (.poll t) } := rfl
  rw [e3, e2]
  refine ⟨rfl, fun u => ?_, fun u => ?_⟩
  · show upd r.wk t (r.wk t + 1) u = _
    by_cases e : u = t <;> simp [upd_apply, e]
  · show upd (upd r.loc t (r.loc t + 1)) t (r.loc t + 1 - 1) u = _
    by_cases e : u = t <;> simp [upd_apply, e]

theorem cnt_rEnter {nch : Nat} {lrun : Option Nat} {r : RState} (h : Cnt nch lrun none r) (t : Nat)
    (ht : t < r.s.ntasks) : Cnt nch lrun (some t) (rEnter r t) := by
  obtain ⟨g1, g2, g3⟩ := rEnter_ghost r t ht
  have es := (rEnter_p r t).1
  refine ⟨g1.trans h.g, fun u => ?_, fun u => (g3 u).trans (h.loc u)⟩
  rw [g2 u, es]
  show _ = heldWf r.s.waiters nch u + heldRf r.s.relay r.s.ntasks u + _
  have := h.wk u
  by_cases e : u = t
  · subst e; simp at this ⊢; omega
  · have hne : ¬ (some t = some u) := fun hh => e (Option.some.inj hh).symm
    simp [e, hne] at this ⊢; omega

/-- the waker `Task::poll` made is dropped when it returns -/
theorem cnt_pollEnd {nch : Nat} {lrun : Option Nat} {r : RState} (t : Nat) (h : Cnt nch lrun (some t) r) :
    Cnt nch lrun none (vtDrop r t) := by
  have hw : r.wk t ≠ 0 := by have := h.wk t; simp at this; omega
  have s1 := st_vtDrop r t hw
  refine ⟨s1.eff.g.trans h.g, fun u => ?_, fun u => (s1.eff.loc u).trans (h.loc u)⟩
  have a := s1.eff.wk u
  have b := h.wk u
  rw [s1.q.1, s1.q.2.1, s1.q.2.2.1]
  by_cases e : u = t
  · subst e; simp at a b ⊢; omega
  · have hne : ¬ (some t = some u) := fun hh => e (Option.some.inj hh).symm
    simp [e, hne] at a b ⊢; omega

/-- `Task::poll` of the popped task -/
theorem cnt_rPoll {ab : Bool} {nch : Nat} {r : RState} (t : Nat) (q : List Nat) (s0 : State)
    (hi : InvX ab none s0) (hq : s0.queue = t :: q) (hs : r.s = { s0 with queue := q })
    (hc : ChanB nch r.s) (hd : r.dead = false) (h : Cnt nch (some t) none r) :
    Cnt nch (some t) none (rPoll r t).1 ∧ ChanB nch (rPoll r t).1.s := by
  have htl : t < r.s.ntasks := by rw [hs]; exact hi.qlt t (by rw [hq]; simp)
  unfold rPoll
  cases hf : r.s.fut t with
  | none =>
    simp only []
    exact ⟨cnt_sfield h _ rfl rfl rfl, ⟨hc.chan, hc.poolch, hc.futch⟩⟩
  | some acts =>
    simp only []
    have hf0 : s0.fut t = some acts := by have := hf; rw [hs] at this; exact this
    have he := rEnter_p r t
    have hi1 : InvX ab (some t) (rEnter r t).s := by
      rw [he.1, hs]; exact inv_logEv (inv_pop hi t q hq acts hf0) _
    have hc1 : ChanB nch (rEnter r t).s := by rw [he.1]; exact ⟨hc.chan, hc.poolch, hc.futch⟩
    have hd1 : (rEnter r t).dead = false := he.2.trans hd
    obtain ⟨c2, b2, a2⟩ := cnt_rRunActs t acts (rEnter r t) hi1 hc1 (hc.futch t acts hf) hd1 (cnt_rEnter h t htl)
    have p2 := rRunActs_p t acts (rEnter r t) hd1
    have hi2 : InvX ab (some t) (rRunActs t acts (rEnter r t)).1.s := by
      rw [p2.1]; exact (inv_runActs t acts _ hi1).1
    generalize rRunActs t acts (rEnter r t) = x at c2 b2 a2 p2 hi2 ⊢
    have htx : t < x.1.s.ntasks := (hi2.run t rfl).1
    have c3 : Cnt nch (some t) (some t) (rPollDone x t).1 ∧ ChanB nch (rPollDone x t).1.s := by
      unfold rPollDone
      cases h2 : x.2 with
      | some rest =>
        simp only []
        refine ⟨cnt_sfield c2 _ rfl rfl rfl, ⟨b2.chan, b2.poolch, ?_⟩⟩
        intro y acts' hfy
        have hfy' : upd x.1.s.fut t (some rest) y = some acts' := hfy
        by_cases e : y = t
        · simp only [upd_apply, e, if_true, Option.some.injEq] at hfy'
          subst hfy'
          exact a2 rest h2
        · simp only [upd_apply, e, if_false] at hfy'
          exact b2.futch y acts' hfy'
      | none =>
        simp only []
        obtain ⟨c4, b4⟩ := cnt_rSend hi2 b2 c2 t (value x.1.s t) htx
        refine ⟨cnt_sfield (cnt_sfield c4 _ rfl rfl rfl) _ rfl rfl rfl, ⟨b4.chan, b4.poolch, ?_⟩⟩
        intro y acts' hfy
        have hfy' : upd (rSend x.1 t (value x.1.s t)).s.fut t none y = some acts' := hfy
        by_cases e : y = t
        · simp [upd_apply, e] at hfy'
        · simp only [upd_apply, e, if_false] at hfy'
          exact b4.futch y acts' hfy'
    refine ⟨cnt_pollEnd t c3.1, ?_⟩
    rw [(vtDrop_p _ t).1]; exact c3.2

/-- at an operation boundary -/
structure AtB (nch : Nat) (r : RState) : Prop where
  cnt : Cnt nch none none r
  ch : ChanB nch r.s

theorem atB_rStep {ab : Bool} {nch : Nat} {r : RState} (hi : InvX ab none r.s) (hd : r.dead = false)
    (h : AtB nch r) (x : RState × Bool) (hs : rStep r = some x) : AtB nch x.1 := by
  unfold rStep at hs
  cases hq : r.s.queue with
  | nil => simp [hq] at hs
  | cons t q =>
    simp only [hq, Option.some.injEq] at hs
    subst hs
    have htl : t < r.s.ntasks := hi.qlt t (by rw [hq]; simp)
    have e1 : locUp { r with s := { r.s with queue := q } } t =
        { r with s := { r.s with queue := q }, loc := upd r.loc t (r.loc t + 1) } := by
      unfold locUp
      have : t < ({ r with s := { r.s with queue := q } } : RState).s.ntasks := htl
      simp [this]
    have c1 : Cnt nch (some t) none (locUp { r with s := { r.s with queue := q } } t) := by
      rw [e1]
      refine ⟨h.cnt.g, h.cnt.wk, fun u => ?_⟩
      show upd r.loc t (r.loc t + 1) u = _
      have := h.cnt.loc u
      by_cases e : u = t
      · subst e; simp [upd_apply] at this ⊢; omega
      · have hne : ¬ (some t = some u) := fun hh => e (Option.some.inj hh).symm
        simp [upd_apply, e, hne] at this ⊢; exact this
    have hs1 : (locUp { r with s := { r.s with queue := q } } t).s = { r.s with queue := q } := (locUp_p _ t).1
    have hc1 : ChanB nch (locUp { r with s := { r.s with queue := q } } t).s := by
      rw [hs1]; exact ⟨h.ch.chan, h.ch.poolch, h.ch.futch⟩
    have hd1 : (locUp { r with s := { r.s with queue := q } } t).dead = false := (locUp_p _ t).2.trans hd
    obtain ⟨c2, b2⟩ := cnt_rPoll t q r.s hi hq hs1 hc1 hd1 c1
    generalize (rPoll (locUp { r with s := { r.s with queue := q } } t) t).1 = y at c2 b2 ⊢
    have hl : y.loc t ≠ 0 := by have := c2.loc t; simp at this; omega
    obtain ⟨d1, d2, d3⟩ := decStrong_ghost y t
    have hl' : (decStrong y t).loc t ≠ 0 := by rw [d3]; exact hl
    have e2 := locDown_eff hl'
    have es : (locDown (decStrong y t) t).s = y.s := (locDown_p _ t).1.trans (decStrong_p y t).1
    refine ⟨⟨?_, fun u => ?_, fun u => ?_⟩, by rw [es]; exact b2⟩
    · rw [e2]; exact d1.trans c2.g
    · rw [es]
      have : (locDown (decStrong y t) t).wk = y.wk := by rw [e2]; exact d2
      rw [this]
      have := c2.wk u
      simpa using this
    · rw [e2]
      show upd (decStrong y t).loc t ((decStrong y t).loc t - 1) u = _
      rw [d3]
      have := c2.loc u
      by_cases e : u = t
      · subst e; simp [upd_apply] at this ⊢; omega
      · have hne : ¬ (some t = some u) := fun hh => e (Option.some.inj hh).symm
        simp [upd_apply, e, hne] at this ⊢; exact this

theorem atB_rStepN {ab : Bool} {nch : Nat} (n : Nat) (r : RState) (hi : InvX ab none r.s) (hd : r.dead = false)
    (h : AtB nch r) : AtB nch (rStepN n r) := by
  induction n generalizing r with
  | zero => exact h
  | succ n ih =>
    simp only [rStepN]
    cases hs : rStep r with
    | none => exact h
    | some x =>
      have p := rStep_p r hd
      have hx : step r.s = some (x.1.s, x.2) := by rw [← p.1, hs]; rfl
      exact ih x.1 (inv_step hi _ hx) (p.2 x hs) (atB_rStep hi hd h x hs)

/-! ### the outside operations of the `v` leg -/

theorem count_eraseIdx_add (l : List Nat) (i t : Nat) (h : l[i]? = some t) (u : Nat) :
    (l.eraseIdx i).count u + (if u = t then 1 else 0) = l.count u := by
  induction l generalizing i with
  | nil => simp at h
  | cons a l ih =>
    cases i with
    | zero =>
      simp only [List.getElem?_cons_zero, Option.some.injEq] at h
      subst h
      simp only [List.eraseIdx_cons_zero, List.count_cons]
      by_cases e : u = a
      · subst e; simp
      · have : ¬ (a = u) := fun hh => e hh.symm
        simp [e, this]
    | succ i =>
      simp only [List.getElem?_cons_succ] at h
      have := ih i h
      simp only [List.eraseIdx_cons_succ, List.count_cons]
      omega

theorem mem_of_getElem? {l : List Nat} {i t : Nat} (h : l[i]? = some t) : t ∈ l :=
  List.mem_of_getElem? h

/-- a waker is taken out of channel `k` (index `i`): the task system side -/
theorem held_take {nch : Nat} {r : RState} (hc : ChanB nch r.s) (k i t : Nat) (h : (r.s.waiters k)[i]? = some t) :
    k < nch ∧ ∀ u, heldWf (upd r.s.waiters k ((r.s.waiters k).eraseIdx i)) nch u + (if u = t then 1 else 0) =
      heldWf r.s.waiters nch u := by
  have hk : k < nch := by
    rcases Nat.lt_or_ge k nch with hk | hk
    · exact hk
    · have := hc.chan k hk; rw [this] at h; simp at h
  refine ⟨hk, fun u => ?_⟩
  have a := heldWf_upd r.s.waiters nch k hk ((r.s.waiters k).eraseIdx i) u
  have b := count_eraseIdx_add (r.s.waiters k) i t h u
  omega

theorem chanB_take {nch : Nat} {s : State} (hc : ChanB nch s) (k : Nat) (hk : k < nch) (l : List Nat) :
    ChanB nch { s with waiters := upd s.waiters k l } := by
  refine ⟨fun j hj => ?_, hc.poolch, hc.futch⟩
  have : j ≠ k := by omega
  show upd s.waiters k l j = []
  simp only [upd_apply, this, if_false]; exact hc.chan j hj

theorem foldl_decStrong_ghost (l : List Nat) (r : RState) :
    (l.foldl decStrong r).gunder = r.gunder ∧ (l.foldl decStrong r).wk = r.wk ∧ (l.foldl decStrong r).loc = r.loc := by
  induction l generalizing r with
  | nil => exact ⟨rfl, rfl, rfl⟩
  | cons a l ih =>
    simp only [List.foldl_cons]
    obtain ⟨d1, d2, d3⟩ := decStrong_ghost r a
    obtain ⟨i1, i2, i3⟩ := ih (decStrong r a)
    exact ⟨i1.trans d1, i2.trans d2, i3.trans d3⟩

theorem atB_lg {nch : Nat} {x : RState} (h : AtB nch x) (cs : List Nat) : AtB nch (lg x cs) :=
  ⟨cnt_lg h.cnt cs, h.ch⟩

theorem atB_rRun {ab : Bool} {nch : Nat} (r : RState) (op : XOp) (hi : InvX ab none r.s) (h : AtB nch r) :
    AtB nch (rRun r op) := by
  cases op with
  | step =>
    simp only [rRun]
    split
    · exact h
    · rename_i hd
      exact atB_rStepN 1 r hi (by cases hx : r.dead <;> simp_all) h
  | rus =>
    simp only [rRun]
    split
    · exact h
    · rename_i hd
      exact atB_rStepN _ r hi (by cases hx : r.dead <;> simp_all) h
  | wake k i =>
    simp only [rRun]
    cases hw : (r.s.waiters k)[i]? with
    | none => exact h
    | some t =>
      simp only []
      obtain ⟨hk, hh⟩ := held_take h.ch k i t hw
      have htl : t < r.s.ntasks := hi.wlt k t (mem_of_getElem? hw)
      have hw0 : r.wk t ≠ 0 := by
        have a := h.cnt.wk t
        have b := hh t
        simp at b
        omega
      have s1 := st_vtWake { r with s := { r.s with waiters := upd r.s.waiters k ((r.s.waiters k).eraseIdx i) } } t htl hw0
      refine atB_lg ?_ _
      refine ⟨cnt_move h.cnt ⟨s1.eff.g, s1.eff.wk, s1.eff.loc⟩ (fun u => ?_), chanB_q (chanB_take h.ch k hk _) s1.q⟩
      rw [s1.q.1, s1.q.2.1, s1.q.2.2.1]
      show ((heldWf (upd r.s.waiters k ((r.s.waiters k).eraseIdx i)) nch u + heldRf r.s.relay r.s.ntasks u : Nat) : Int) = _
      have := hh u
      by_cases e : u = t
      · simp only [if_pos e] at this ⊢; omega
      · simp only [if_neg e] at this ⊢; omega
  | byRef k i =>
    simp only [rRun]
    cases hw : (r.s.waiters k)[i]? with
    | none => exact h
    | some t =>
      simp only []
      have htl : t < r.s.ntasks := hi.wlt k t (mem_of_getElem? hw)
      have s1 := st_vtWakeByRef r t htl
      exact atB_lg ⟨cnt_st h.cnt s1 (fun _ => rfl), chanB_q h.ch s1.q⟩ _
  | clone k i =>
    simp only [rRun]
    cases hw : (r.s.waiters k)[i]? with
    | none => exact h
    | some t =>
      simp only []
      have htl : t < r.s.ntasks := hi.wlt k t (mem_of_getElem? hw)
      obtain ⟨hk, _⟩ := held_take h.ch k i t hw
      obtain ⟨c1, b1⟩ := cnt_register h.ch h.cnt t k htl hk
      exact atB_lg ⟨c1, b1⟩ _
  | drop k i =>
    simp only [rRun]
    cases hw : (r.s.waiters k)[i]? with
    | none => exact h
    | some t =>
      simp only []
      obtain ⟨hk, hh⟩ := held_take h.ch k i t hw
      have hw0 : r.wk t ≠ 0 := by
        have a := h.cnt.wk t
        have b := hh t
        simp at b
        omega
      have s1 := st_vtDrop { r with s := { r.s with waiters := upd r.s.waiters k ((r.s.waiters k).eraseIdx i) } } t hw0
      refine atB_lg ?_ _
      refine ⟨cnt_move h.cnt ⟨s1.eff.g, s1.eff.wk, s1.eff.loc⟩ (fun u => ?_), chanB_q (chanB_take h.ch k hk _) s1.q⟩
      rw [s1.q.1, s1.q.2.1, s1.q.2.2.1]
      show ((heldWf (upd r.s.waiters k ((r.s.waiters k).eraseIdx i)) nch u + heldRf r.s.relay r.s.ntasks u : Nat) : Int) = _
      have := hh u
      by_cases e : u = t
      · simp only [if_pos e] at this ⊢; omega
      · simp only [if_neg e] at this ⊢; omega
  | signal k =>
    obtain ⟨c1, b1⟩ := cnt_rSignal hi h.ch h.cnt k
    exact ⟨c1, b1⟩
  | dropExec =>
    simp only [rRun]
    split
    · exact h
    · obtain ⟨g1, g2, g3⟩ := foldl_decStrong_ghost r.s.queue r
      have es := (foldl_decStrong_p r.s.queue r).1
      refine ⟨⟨?_, fun u => ?_, fun u => ?_⟩, ?_⟩
      · show (r.s.queue.foldl decStrong r).gunder = false
        rw [g1]; exact h.cnt.g
      · show (r.s.queue.foldl decStrong r).wk u =
          heldWf (r.s.queue.foldl decStrong r).s.waiters nch u +
            heldRf (r.s.queue.foldl decStrong r).s.relay (r.s.queue.foldl decStrong r).s.ntasks u + _
        rw [g2, es]; exact h.cnt.wk u
      · show (r.s.queue.foldl decStrong r).loc u = _
        rw [g3]; exact h.cnt.loc u
      · show ChanB nch { (r.s.queue.foldl decStrong r).s with queue := [] }
        rw [es]; exact ⟨h.ch.chan, h.ch.poolch, h.ch.futch⟩
  | try_ c =>
    simp only [rRun]
    split
    · rename_i hcond
      have hcl : c < r.s.ntasks := by
        simp only [Bool.and_eq_true, decide_eq_true_eq] at hcond; exact hcond.1
      unfold takeValue
      cases hr : r.s.relay c with
      | computed v =>
        simp only []
        refine ⟨cnt_move h.cnt (geff_s r _) (fun u => ?_), ⟨h.ch.chan, h.ch.poolch, h.ch.futch⟩⟩
        show ((heldWf r.s.waiters nch u + heldRf (upd r.s.relay c .done) r.s.ntasks u : Nat) : Int) = _
        have := heldRf_upd r.s.relay r.s.ntasks c hcl .done u
        simp [hr] at this
        omega
      | pending => simp only []; exact h
      | polled w => simp only []; exact h
      | done => simp only []; exact h
    · exact h
  | spawn =>
    simp only [rRun]
    cases hp : r.s.pool with
    | nil => exact h
    | cons sc rest =>
      simp only []
      split
      · exact h
      · refine ⟨⟨h.cnt.g, fun u => ?_, h.cnt.loc⟩, ?_, ?_, ?_⟩
        · show r.wk u = heldWf r.s.waiters nch u + heldRf (upd r.s.relay r.s.ntasks .pending) (r.s.ntasks + 1) u + _
          rw [heldRf_new]; exact h.cnt.wk u
        · exact h.ch.chan
        · intro sc' hs'
          exact h.ch.poolch sc' (by rw [hp]; exact List.mem_cons_of_mem _ hs')
        · intro x acts hf
          have hf' : upd r.s.fut r.s.ntasks (some sc) x = some acts := hf
          by_cases e : x = r.s.ntasks
          · simp only [upd_apply, e, if_true, Option.some.injEq] at hf'
            subst hf'
            exact h.ch.poolch sc (by rw [hp]; simp)
          · simp only [upd_apply, e, if_false] at hf'
            exact h.ch.futch x acts hf'

/-! ### whole runs -/

theorem atB_rNew {nch : Nat} (r : RState) (own : Nat) (sc : Script) (h : AtB nch r)
    (hsc : ∀ k, Action.wait k ∈ sc → k < nch) : AtB nch (rNew r own sc) := by
  refine ⟨⟨h.cnt.g, fun u => ?_, h.cnt.loc⟩, h.ch.chan, h.ch.poolch, ?_⟩
  · show r.wk u = heldWf r.s.waiters nch u + heldRf (upd r.s.relay r.s.ntasks .pending) (r.s.ntasks + 1) u + _
    rw [heldRf_new]; exact h.cnt.wk u
  · intro x acts hf
    have hf' : upd r.s.fut r.s.ntasks (some sc) x = some acts := hf
    by_cases e : x = r.s.ntasks
    · simp only [upd_apply, e, if_true, Option.some.injEq] at hf'
      subst hf'
      exact hsc
    · simp only [upd_apply, e, if_false] at hf'
      exact h.ch.futch x acts hf'

theorem atB_rSpawnRoots {nch : Nat} (scs : List Script) (r : RState) (h : AtB nch r)
    (hsc : ∀ sc, sc ∈ scs → ∀ k, Action.wait k ∈ sc → k < nch) : AtB nch (rSpawnRoots scs r) := by
  induction scs generalizing r with
  | nil => exact h
  | cons sc rest ih =>
    exact ih (rNew r r.s.ntasks sc) (atB_rNew r _ sc h (hsc sc (by simp)))
      (fun sc' hs' => hsc sc' (List.mem_cons_of_mem _ hs'))

theorem heldWf_empty (nch t : Nat) : heldWf (fun _ => []) nch t = 0 := by
  unfold heldWf
  induction nch with
  | zero => rfl
  | succ n ih =>
    simp only [List.range_succ, List.map_append, List.sum_append, List.map_cons, List.map_nil, List.sum_cons,
      List.sum_nil, List.count_nil, Nat.add_zero]
    exact ih

theorem atB_rInit {nch : Nat} (sticky : Bool) (scripts : List Script) (roots : Nat)
    (hsc : ∀ sc, sc ∈ scripts → ∀ k, Action.wait k ∈ sc → k < nch) : AtB nch (rInit sticky scripts roots) := by
  unfold rInit
  refine atB_rSpawnRoots _ _ ⟨⟨rfl, fun u => ?_, fun _ => rfl⟩, fun _ _ => rfl, ?_, ?_⟩
    (fun sc hs => hsc sc (List.mem_of_mem_take hs))
  · show (0 : Nat) = heldWf (fun _ => []) nch u + heldRf (fun _ => Relay.pending) 0 u + 0
    rw [heldWf_empty]; rfl
  · intro sc hs
    exact hsc sc (List.mem_of_mem_drop hs)
  · intro t acts hf
    cases hf

theorem atB_rRunAll {nch : Nat} (ops : List XOp) (r : RState) (x : XState) (hs : Same r x) (hx : XInv x)
    (h : AtB nch r) : AtB nch (rRunAll r ops) := by
  induction ops generalizing r x with
  | nil => exact h
  | cons op ops ih =>
    have hi : InvX x.abandoned none r.s := by rw [hs.1]; exact hx.inv
    exact ih (rRun r op) (xRun x op) (same_rRun r x op hs (fun hd => (hx.dead hd).1)) (xinv_xRun x op hx)
      (atB_rRun r op hi h)

/-- the identity of `RcLemmas.lean` and the counting invariant together -/
theorem refs_of_atB {nch : Nat} (r : RState) (hb : AtB nch r)
    (hbal : ∀ t, r.strong t = r.s.queue.count t + r.wk t + r.loc t) (hun : r.under = false) :
    r.gunder = false ∧ r.under = false ∧
    (∀ t, r.strong t = refs r.s nch t ∧ r.loc t = 0) ∧
    (∀ t, (r.s.fut t).isSome = true → (r.strong t = 0 ↔ lostB r.s nch t = true)) ∧
    rcCheck r nch = none := by
  have hg := hb.cnt.g
  have hloc : ∀ t, r.loc t = 0 := fun t => by have := hb.cnt.loc t; simpa using this
  have hrefs : ∀ t, r.strong t = refs r.s nch t := by
    intro t
    have a := hbal t
    have b := hb.cnt.wk t
    have c := hloc t
    rw [refs_eq]
    simp at b
    omega
  refine ⟨hg, hun, fun t => ⟨hrefs t, hloc t⟩, ?_, ?_⟩
  · intro t hf
    unfold lostB
    rw [hf, hrefs t]
    simp
  · unfold rcCheck
    have hbalB : balB r = true := by
      unfold balB
      simp only [List.all_eq_true, List.mem_range, beq_iff_eq]
      intro t _
      exact hbal t
    have hl : (List.range r.s.ntasks).all (fun t => r.loc t == 0) = true := by
      simp only [List.all_eq_true, List.mem_range, beq_iff_eq]
      intro t _; exact hloc t
    have hr : (List.range r.s.ntasks).all (fun t => r.strong t == refs r.s nch t) = true := by
      simp only [List.all_eq_true, List.mem_range, beq_iff_eq]
      intro t _; exact hrefs t
    simp [hun, hg, hbalB, hl, hr]

end YashModel.Executor.Rc
