/-
  Impl model of `Executor::step` called from INSIDE a poll (the `n` cases of `harness/src/bin/c15.rs`):
  the part of `yash-executor` the other legs leave out — nested polling of other tasks and the recursion
  guard of `Task::poll` (`self.future.try_borrow_mut().expect("`Future` should not be polled recursively")`).

  Imports only `Model.lean` (for `upd` and `enq` = `Task::wake` on the queue); executable.  Same data layout as `Model.lean` for what is shared (`queue` =
  `ExecutorState::wake_queue`, `fut t` = `Task::future`, `none` = slot emptied); new: `stack` = the tasks whose
  `RefCell<Option<future>>` is mutably borrowed right now, i.e. whose `Task::poll` is in progress, innermost
  first.  `Executor::step` (executor.rs) releases its borrow of the executor state before it calls
  `Task::poll`, so a future may call `step` again; that pops the next task and polls it *inside* the running
  poll.  If the popped task is itself on the stack (it was woken while running), `try_borrow_mut` fails and
  `Task::poll` panics instead of entering the future a second time.

  Test futures: `Y` wake the own waker, return `Pending`; `w<u>` wake task `u` (through the waker `u` stored
  when it was first polled; no-op if `u` has never been polled), go on; `N` call `Executor::step`, go on; `C`
  / end of script return `Ready`.
-/
import YashModel.Executor.Model
namespace YashModel.Executor.Nested

inductive NAct where
  | yield
  | wake (u : Nat)
  | nest
  | complete
  deriving DecidableEq, Repr, Inhabited

abbrev NScript := List NAct

inductive NEv where
  /-- `Task::poll` borrowed the slot of `t` and polls its future -/
  | enter (t : Nat)
  /-- that poll returned (`ready` = `Poll::Ready`), the borrow is released -/
  | exit (t : Nat) (ready : Bool)
  /-- `Task::poll` on an emptied slot -/
  | noop (t : Nat)
  /-- the recursion guard fired for the popped task `t`: panic -/
  | guard (t : Nat)
  /-- a nested `Executor::step` found the queue empty (`None`) -/
  | idle
  deriving DecidableEq, Repr

structure NState where
  queue : List Nat := []
  ntasks : Nat := 0
  fut : Nat → Option NScript := fun _ => none
  /-- tasks whose slot is borrowed (`Task::poll` in progress), innermost first -/
  stack : List Nat := []
  /-- the task has been polled at least once, so the harness holds a clone of its waker -/
  known : Nat → Bool := fun _ => false
  log : List NEv := []
  /-- the recursion guard panicked; the panic unwinds through every poll in progress -/
  panicked : Bool := false
  /-- ghost: the depth budget of the definition ran out (never happens: `depth_suffices`) -/
  starved : Bool := false

/-- `Task::wake` (`enq` of Model.lean: no-op if the task is already enqueued, else `push_back`) -/
def nwake (s : NState) (t : Nat) : NState := { s with queue := enq s.queue t }

def nlog (s : NState) (e : NEv) : NState := { s with log := s.log ++ [e] }

/-- The future of task `t` executing the rest of its script inside one `poll`; `inner` is `Task::poll` as a
    nested `Executor::step` reaches it.  Result: `none` = `Ready`, `some rest` = `Pending` (also used for "a
    panic is unwinding": then `panicked` is set and the caller stops). -/
def nRun (inner : NState → Nat → NState) (t : Nat) : NScript → NState → NState × Option NScript
  | [], s => (s, none)
  | .complete :: _, s => (s, none)
  | .yield :: rest, s => (nwake s t, some rest)
  | .wake u :: rest, s => nRun inner t rest (if s.known u then nwake s u else s)
  | .nest :: rest, s =>
    -- `Executor::step`: `let task = self.state.borrow_mut().wake_queue.pop_front()?; Some(task.poll())`
    match s.queue with
    | [] => nRun inner t rest (nlog s .idle)
    | u :: q =>
      let s1 := inner { s with queue := q } u
      if s1.panicked then (s1, some rest) else nRun inner t rest s1

/-- `Task::poll` at nesting depth budget `d` -/
def nPoll : Nat → NState → Nat → NState
  | 0, s, _ => { s with starved := true, panicked := true }
  | d + 1, s, t =>
    -- `try_borrow_mut().expect("`Future` should not be polled recursively")`
    if t ∈ s.stack then { nlog s (.guard t) with panicked := true }
    else
      match s.fut t with
      | none => nlog s (.noop t)
      | some acts =>
        let s0 := { nlog s (.enter t) with stack := t :: s.stack, known := upd s.known t true }
        let r := nRun (nPoll d) t acts s0
        if r.1.panicked then r.1
        else
          match r.2 with
          | some rest => nlog { r.1 with stack := r.1.stack.tail, fut := upd r.1.fut t (some rest) } (.exit t false)
          | none => nlog { r.1 with stack := r.1.stack.tail, fut := upd r.1.fut t none } (.exit t true)

/-- `Executor::step` from outside any poll (a panicked executor is not stepped again) -/
def nStep (s : NState) : Option NState :=
  if s.panicked then none else
  match s.queue with
  | [] => none
  | t :: q => some (nPoll (s.ntasks + 1) { s with queue := q } t)

def nStepN : Nat → NState → NState
  | 0, s => s
  | n + 1, s =>
    match nStep s with
    | none => s
    | some s' => nStepN n s'

/-- all scripts are roots, spawned in order -/
def nInit (scripts : List NScript) : NState :=
  { queue := List.range scripts.length
    ntasks := scripts.length
    fut := fun t => scripts[t]? }

/-! ### Spec: the clauses of the property on the trace, with nesting -/

/-- replay the trace with a stack: `enter t` needs `t` not open, `exit t` needs `t` innermost;
    result = the polls still open -/
def replay : List NEv → List Nat → Option (List Nat)
  | [], st => some st
  | .enter t :: rest, st => if st.contains t then none else replay rest (t :: st)
  | .exit t _ :: rest, st =>
    match st with
    | t' :: st' => if t == t' then replay rest st' else none
    | [] => none
  | _ :: rest, st => replay rest st

/-- "never polls … re-entrantly", with nesting: the trace is well nested and never enters a task that is open -/
def wellNestedB (log : List NEv) : Bool := (replay log []).isSome

/-- "never polls a task after it completed" -/
def noEnterAfterFinB : List NEv → Bool
  | [] => true
  | .exit t true :: rest => !rest.contains (.enter t) && noEnterAfterFinB rest
  | _ :: rest => noEnterAfterFinB rest

def nodupB : List Nat → Bool
  | [] => true
  | a :: t => !t.contains a && nodupB t

def nCheck (s : NState) : Option String :=
  if !nodupB s.queue then some "queue-dup"
  else if !wellNestedB s.log then some "reentrant-poll"
  else if !noEnterAfterFinB s.log then some "poll-after-complete"
  else if s.starved then some "depth-budget"
  else if !s.panicked && !s.stack.isEmpty then some "borrow-left"
  else none

/-! ### Spec: FIFO discipline of the wake queue with nesting (wave 3) -/

/-- the task a trace event pops from the wake queue: every `Task::poll` call — entering the future, the no-op
    on an emptied slot, the recursion guard — is preceded by exactly one `pop_front` of `Executor::step` -/
def popOf : NEv → Option Nat
  | .enter t => some t
  | .noop t => some t
  | .guard t => some t
  | _ => none

/-- the tasks popped by a piece of trace, in order (top-level and nested steps alike) -/
def popsOf (evs : List NEv) : List Nat := evs.filterMap popOf

/-- "lets no woken task be starved", decidable form printed by the driver for every top-level step: the queue
    before the step is a prefix of (tasks popped during the step, nested pops included) ++ (queue after it) —
    nothing was taken from anywhere but the front, nothing was put anywhere but the back -/
def nFifoB (s s' : NState) : Bool :=
  s.queue.isPrefixOf (popsOf (s'.log.drop s.log.length) ++ s'.queue)

/-- "never loses a wake-up", decidable form printed by the driver after every top-level step: unless the guard has
    panicked, every unfinished task is in the wake queue (so a stalled run loop means every task completed) -/
def nLiveB (s : NState) : Bool :=
  s.panicked || (List.range s.ntasks).all fun x => (s.fut x).isNone || s.queue.contains x

/-! ### termination measure (wave 3) -/

/-- what slot `t` still has to do: the actions left plus one for returning `Ready` -/
def slotWork (f : Nat → Option NScript) (t : Nat) : Nat :=
  match f t with
  | none => 0
  | some sc => sc.length + 1

/-- work left in all slots -/
def nWork (s : NState) : Nat := ((List.range s.ntasks).map (slotWork s.fut)).sum

/-- bound on the number of top-level steps until the run loop stalls (or the guard panics) -/
def nStallBound (s : NState) : Nat := nWork s * (s.ntasks + 1) + s.queue.length

/-- the frozen state after the guard panic (and every other boundary): no unfinished task is outside queue ∪ polls in
    progress, nothing is held twice -/
def nFrozenB (s : NState) : Bool :=
  nodupB s.queue && nodupB s.stack &&
  (List.range s.ntasks).all fun x => (s.fut x).isNone || s.queue.contains x || s.stack.contains x

end YashModel.Executor.Nested
