/-
  C19 — lemmas for `ForkTheorems.lean`.
-/
import YashModel.Kernel.Fork
import YashModel.Kernel.SigTheorems
namespace YashModel.Kernel
open Signal

/-! ## lemmas: what a child can do to its parent's signal state -/

theorem generate_mask_disp (p : Proc) (s : Sig) : (generate p s).mask = p.mask ∧ (generate p s).disp = p.disp := by
  unfold generate deliver
  repeat' split
  all_goals exact ⟨rfl, rfl⟩

theorem sstep_parent_mask_disp (me par : Proc) (op : SOp) :
    ((sstep me (some par) op).2.1.getD par).mask = par.mask ∧ ((sstep me (some par) op).2.1.getD par).disp = par.disp := by
  cases op <;> simp [sstep, generate_mask_disp]

theorem cstep_parent_mask_disp (me : XProc) (par : Proc) (op : COp) :
    ((cstep me (some par) op).2.1.getD par).mask = par.mask ∧ ((cstep me (some par) op).2.1.getD par).disp = par.disp := by
  cases op with
  | file op => exact ⟨rfl, rfl⟩
  | sig op => exact sstep_parent_mask_disp me.p par op
  | setlim n => exact ⟨rfl, rfl⟩
  | exit n => exact ⟨rfl, rfl⟩
  | badlim n => exact ⟨rfl, rfl⟩
  | waitself => exact ⟨rfl, rfl⟩

theorem childRun_parent_mask_disp (ops : List COp) : ∀ (c : XProc) (p : Proc),
    (childRun c p ops).2.1.mask = p.mask ∧ (childRun c p ops).2.1.disp = p.disp := by
  induction ops with
  | nil => intro c p; exact ⟨rfl, rfl⟩
  | cons op ops ih =>
    intro c p
    unfold childRun
    split
    · exact ⟨rfl, rfl⟩
    · have h1 := cstep_parent_mask_disp c p op
      have h2 := ih (cstep c (some p) op).1 ((cstep c (some p) op).2.1.getD p)
      exact ⟨h2.1.trans h1.1, h2.2.trans h1.2⟩

theorem ok8_cstep {me : XProc} (h : Ok8 me.p) (par : Option Proc) (op : COp) : Ok8 (cstep me par op).1.p := by
  cases op with
  | file op => exact h
  | sig op => exact ok8_sstep h par op
  | setlim n => exact h
  | exit n => exact ok8_exit me.p h n
  | badlim n => exact h
  | waitself => exact h

theorem ok8_childRun (ops : List COp) : ∀ {c : XProc} (p : Proc), Ok8 c.p → Ok8 (childRun c p ops).1.p := by
  induction ops with
  | nil => intro c p h; exact h
  | cons op ops ih =>
    intro c p h
    unfold childRun
    split
    · exact h
    · exact ih _ (ok8_cstep h (some p) op)

end YashModel.Kernel
