/-
  C19 — property theorems about the pivot kernel model (`Kernel/Model.lean`).

  The pivot is the third party of the three-way comparison VirtualSystem / RealSystem / pivot
  (harness/src/bin/c19.rs); these theorems say that the pivot itself obeys the POSIX laws the shell
  relies on, for all states, descriptors, contents and paths.  They are theorems about the pivot, not
  about the Linux kernel and not about `VirtualSystem`: the ties to both are the correspondence run.
-/
import YashModel.Kernel.Lemmas
namespace YashModel.Kernel

/-! ## ★ lowest_fd -/

/-- ★ A descriptor handed out by `allocFd` (used by `open`, `dup`, `opendir`) is the lowest free one
    at or above the requested minimum, and is below the soft limit. -/
theorem lowest_fd (k : K) (min n : Nat) (h : allocFd k min = some n) :
    min ≤ n ∧ n < k.limit ∧ k.fds n = none ∧ ∀ m, min ≤ m → m < n → k.fds m ≠ none := by
  obtain ⟨h1, h2, h3, h4⟩ := findFree_some k.fds _ _ _ h
  exact ⟨h1, by omega, h3, h4⟩

/-- … and it fails only when every descriptor in `[min, limit)` is taken. -/
theorem lowest_fd_full (k : K) (min : Nat) (h : allocFd k min = none) :
    ∀ m, min ≤ m → m < k.limit → k.fds m ≠ none := by
  intro m h1 h2
  exact findFree_none k.fds _ _ h m h1 (by omega)

/-- `open` returns the lowest free descriptor and binds it to a fresh open file description at offset 0. -/
theorem open_lowest_fd (k k' : K) (comps : List String) (acc : Access) (f : Flags) (mode fd : Nat)
    (h : open' k comps acc f mode = .ok fd k') :
    k.fds fd = none ∧ (∀ m, m < fd → k.fds m ≠ none) ∧ fd < k.limit ∧
    k'.fds fd = some { ofd := k.ofds.length, cloexec := f.cloexec } ∧
    (∀ n, n ≠ fd → k'.fds n = k.fds n) ∧
    ∃ o, k'.ofds[k.ofds.length]? = some o ∧ o.off = 0 ∧ o.app = f.append ∧
      o.rd = acc.readable ∧ o.wr = acc.writable := by
  unfold open' at h
  split at h
  · simp at h
  · rename_i n hn
    obtain ⟨_, h2, h3, h4⟩ := lowest_fd k 0 n hn
    split at h
    · simp at h
    · rename_i p _
      have key : ∀ tree, (Res.ok n (installFd k tree n p acc f) : Res Nat) = .ok fd k' →
          k.fds fd = none ∧ (∀ m, m < fd → k.fds m ≠ none) ∧ fd < k.limit ∧
          k'.fds fd = some { ofd := k.ofds.length, cloexec := f.cloexec } ∧
          (∀ n, n ≠ fd → k'.fds n = k.fds n) ∧
          ∃ o, k'.ofds[k.ofds.length]? = some o ∧ o.off = 0 ∧ o.app = f.append ∧
            o.rd = acc.readable ∧ o.wr = acc.writable := by
        intro tree he
        injection he with he1 he2
        subst he1 he2
        refine ⟨h3, fun m hm => h4 m (Nat.zero_le _) hm, h2, by simp [installFd, setFd], ?_, ?_⟩
        · intro m hm; simp [installFd, setFd, hm]
        · exact ⟨{ path := p, rd := acc.readable, wr := acc.writable, app := f.append, off := 0 },
            by simp [installFd], rfl, rfl, rfl, rfl⟩
      split at h
      all_goals first
        | (simp at h; done)
        | exact key _ h
        | (split at h <;> exact key _ h)

example : ∃ k', open' exK1 ["f"] .r {} 0 = .ok 1 k' := ⟨_, rfl⟩

/-! ## ★ dup2_laws -/

/-- ★ `dup2`: (1) a closed source is EBADF; (2) a target other than the source at or above the limit is EBADF;
    (3) `dup2(a, a)` on an open descriptor returns `a` and changes nothing (FD_CLOEXEC included) — whatever the limit;
    (4) otherwise the target shares the source's open file description, has FD_CLOEXEC clear, every
    other descriptor, every open file description and the file tree are untouched. -/
theorem dup2_laws (k : K) (a b : Nat) :
    (k.fds a = none → dup2 k a b = .err .EBADF) ∧
    (∀ e, k.fds a = some e → a ≠ b → k.limit ≤ b → dup2 k a b = .err .EBADF) ∧
    (∀ e, k.fds a = some e → dup2 k a a = .ok a k) ∧
    (∀ e, k.fds a = some e → b < k.limit → a ≠ b →
      ∃ k', dup2 k a b = .ok b k' ∧ k'.fds b = some { ofd := e.ofd, cloexec := false } ∧
        (∀ n, n ≠ b → k'.fds n = k.fds n) ∧ k'.ofds = k.ofds ∧ k'.tree = k.tree ∧
        k'.cwd = k.cwd ∧ k'.umask = k.umask ∧ k'.limit = k.limit) := by
  refine ⟨?_, ?_, ?_, ?_⟩
  · intro h; simp [dup2, h]
  · intro e h hne hb; simp [dup2, h, hb, hne]
  · intro e h
    simp [dup2, h]
  · intro e h hb hne
    have : ¬ b ≥ k.limit := by omega
    refine ⟨{ k with fds := setFd k.fds b (some { ofd := e.ofd, cloexec := false }) },
      by simp [dup2, h, this, hne], by simp [setFd], ?_, rfl, rfl, rfl, rfl, rfl⟩
    intro n hn; simp [setFd, hn]

/-- a consequence the shell depends on: after `dup2(a, b)` both descriptors see one offset -/
theorem dup2_shares_offset (k : K) (a b i : Nat) (o : Ofd) (hb : b < k.limit) (hne : a ≠ b)
    (hg : getOfd k a = some (i, o)) :
    ∃ k', dup2 k a b = .ok b k' ∧ getOfd k' b = some (i, o) ∧ getOfd k' a = some (i, o) := by
  obtain ⟨e, he, hi, ho⟩ := getOfd_some hg
  obtain ⟨k', h1, h2, h3, h4, _⟩ := (dup2_laws k a b).2.2.2 e he hb hne
  refine ⟨k', h1, ?_, ?_⟩
  · simp [getOfd, h2, h4, hi, ho]
  · simp [getOfd, h3 a hne, he, h4, hi, ho]

example : (fun n => if n = 3 then some (⟨0, true⟩ : FdEntry) else none) 3 = some ⟨0, true⟩ ∧ (3 : Nat) < 8 := by decide

/-! ## ★ append_writes_at_end -/

/-- ★ A write through an O_APPEND description lands at the end of the file whatever the current offset
    is, extends the file by exactly the bytes written, and leaves the offset at the new end. -/
theorem append_writes_at_end (k : K) (fd i m : Nat) (o : Ofd) (c bs : Bytes)
    (hg : getOfd k fd = some (i, o)) (hw : o.wr = true) (happ : o.app = true)
    (hl : lookup k.tree o.path = some (.reg m c)) (hne : bs ≠ []) :
    ∃ k', write k fd bs = .ok bs.length k' ∧
      lookup k'.tree o.path = some (.reg m (c ++ bs)) ∧
      getOfd k' fd = some (i, { o with off := c.length + bs.length }) := by
  have hemp : bs.isEmpty = false := by cases bs <;> simp_all
  refine ⟨{ (updOfd k i { o with off := c.length + bs.length }) with
            tree := insert k.tree o.path (.reg m (writeAt c c.length bs)) }, ?_, ?_, ?_⟩
  · simp [write, hg, hw, hl, hemp, writePos, happ]
  · simp [lookup_insert_self, writeAt_end]
  · exact getOfd_upd _ hg

example : ∃ k', write exK2 0 [9] = .ok 1 k' ∧ lookup k'.tree ["f"] = some (.reg 420 [1, 2, 3, 9]) :=
  ⟨_, rfl, rfl⟩

/-! ## ★ trunc_excl_table -/

/-- ★ The decision table of `open` over (missing | regular | directory) × access × flags:
    O_CREAT|O_EXCL on anything existing is EEXIST; a missing file is created iff O_CREAT, else ENOENT;
    an existing regular file is opened, truncated iff O_TRUNC (ENOTDIR under O_DIRECTORY); a directory
    opens only read-only without O_CREAT/O_TRUNC, else EISDIR; nothing is ever created or truncated
    when the call fails (the outcome is a single value). -/
theorem trunc_excl_table :
    ∀ (ex : Existing) (w c x t a e d : Bool),
      let f : Flags := { create := c, excl := x, trunc := t, append := a, cloexec := e, directory := d }
      (ex ≠ .missing → c = true → x = true → openOutcome ex w f = .eexist) ∧
      (ex = .missing → openOutcome ex w f = if c then .create else .enoent) ∧
      (ex = .reg → (c && x) = false →
        openOutcome ex w f = if d then .enotdir else if t then .openTrunc else .openKeep) ∧
      (ex = .dir → (c && x) = false →
        openOutcome ex w f = if w || c || t then .eisdir else .openKeep) ∧
      (openOutcome ex w f = .create → ex = .missing) ∧
      (openOutcome ex w f = .openTrunc → ex = .reg ∧ t = true) := by
  intro ex w c x t a e d
  cases ex <;> cases w <;> cases c <;> cases x <;> cases t <;> cases a <;> cases e <;> cases d <;> decide

/-- the table is what `open` executes: O_CREAT|O_EXCL on an existing file fails with EEXIST … -/
theorem open_excl_existing (k : K) (comps : List String) (acc : Access) (f : Flags) (mode : Nat) (p : Path)
    (hfd : allocFd k 0 ≠ none) (hr : resolve k.tree k.cwd comps = .ok p)
    (hex : existing k.tree p ≠ .missing) (hc : f.create = true) (hx : f.excl = true) :
    open' k comps acc f mode = .err .EEXIST := by
  unfold open'
  cases hfd' : allocFd k 0 with
  | none => exact absurd hfd' hfd
  | some fd =>
    simp only [hr]
    have : openOutcome (existing k.tree p) acc.writable f = .eexist := by
      cases h : existing k.tree p <;> simp_all [openOutcome]
    simp [this]

/-- … and O_TRUNC empties an existing regular file, keeping its mode. -/
theorem open_trunc (k : K) (comps : List String) (acc : Access) (f : Flags) (mode m : Nat) (p : Path) (c : Bytes)
    (hfd : allocFd k 0 ≠ none) (hr : resolve k.tree k.cwd comps = .ok p)
    (hl : lookup k.tree p = some (.reg m c)) (hcx : (f.create && f.excl) = false)
    (hd : f.directory = false) (ht : f.trunc = true) :
    ∃ fd k', open' k comps acc f mode = .ok fd k' ∧ lookup k'.tree p = some (.reg m []) := by
  unfold open'
  cases hfd' : allocFd k 0 with
  | none => exact absurd hfd' hfd
  | some fd =>
    have hex : existing k.tree p = .reg := by simp [existing, hl]
    have : openOutcome (existing k.tree p) acc.writable f = .openTrunc := by
      simp [hex, openOutcome, hcx, hd, ht]
    simp only [hr, this, hl]
    exact ⟨_, _, rfl, lookup_insert_self _ _ _⟩

/-! ## ★ read_after_write -/

/-- ★ What was written is what is read back: write `bs` at the description's offset (not O_APPEND),
    seek back to that offset, read `|bs|` bytes — the result is `bs` (also when the write started
    beyond the end of the file). -/
theorem read_after_write (k : K) (fd i m : Nat) (o : Ofd) (c bs : Bytes)
    (hg : getOfd k fd = some (i, o)) (hw : o.wr = true) (hr : o.rd = true) (happ : o.app = false)
    (hl : lookup k.tree o.path = some (.reg m c)) (hne : bs ≠ []) :
    ∃ k1 k2 k3, write k fd bs = .ok bs.length k1 ∧
      seek k1 fd .set o.off = .ok (some o.off) k2 ∧
      read k2 fd bs.length = .ok bs k3 := by
  have hemp : bs.isEmpty = false := by cases bs <;> simp_all
  let o1 : Ofd := { o with off := o.off + bs.length }
  let t1 : Tree := insert k.tree o.path (.reg m (writeAt c o.off bs))
  let k1 : K := { (updOfd k i o1) with tree := t1 }
  have hg1 : getOfd k1 fd = some (i, o1) := getOfd_upd _ hg
  have hl1 : lookup k1.tree o1.path = some (.reg m (writeAt c o.off bs)) := lookup_insert_self _ _ _
  let o2 : Ofd := { o1 with off := o.off }
  let k2 : K := updOfd k1 i o2
  have hg2 : getOfd k2 fd = some (i, o2) := getOfd_updOfd hg1
  have hl2 : lookup k2.tree o2.path = some (.reg m (writeAt c o.off bs)) := hl1
  refine ⟨k1, k2, updOfd k2 i { o2 with off := o2.off + bs.length }, ?_, ?_, ?_⟩
  · simp [write, hg, hw, hl, hemp, writePos, happ, k1, o1, t1]
  · have hnn : ¬ ((0 : Int) + (o.off : Int) < 0) := by omega
    simp only [seek, hg1, hl1, hnn]
    simp [k2, o2]
  · simp only [read, hg2, hl2]
    simp [o2, o1, hr, readAt_writeAt]

example : ∃ k1 k2 k3, write exK3 0 [7, 8] = .ok 2 k1 ∧
    seek k1 0 .set 5 = .ok (some 5) k2 ∧ read k2 0 2 = .ok [7, 8] k3 := ⟨_, _, _, rfl, rfl, rfl⟩

/-! ## ★ open_missing_parent_enoent -/

/-- ★ `open` never creates missing parent directories: if, after the existing directories `pre`, the
    next component `c` of the path is not there and is not the last component, `open` fails — with
    ENOENT when a descriptor was available (EMFILE otherwise) — whatever the flags (O_CREAT included),
    so no file and no directory comes into being. -/
theorem open_missing_parent_enoent (k : K) (pre : List String) (d : Path) (c c' : String) (rest : List String)
    (acc : Access) (f : Flags) (mode : Nat)
    (hpre : walkDirs k.tree k.cwd pre = .ok d)
    (h1 : c ≠ "") (h2 : c ≠ ".") (h3 : c ≠ "..") (hm : lookup k.tree (d ++ [c]) = none) :
    open' k (pre ++ c :: c' :: rest) acc f mode =
      .err (if allocFd k 0 = none then .EMFILE else .ENOENT) := by
  have hres : resolve k.tree k.cwd (pre ++ c :: c' :: rest) = .error .ENOENT := by
    rw [resolve_walk k.tree pre k.cwd d c (c' :: rest) hpre]
    exact resolve_missing_dir k.tree d c c' rest h1 h2 h3 hm
  unfold open'
  cases hfd : allocFd k 0 with
  | none => simp
  | some fd => simp [hres]

example : walkDirs [([], .dir 493), (["d1"], .dir 493)] [] ["d1"] = .ok ["d1"] ∧
    lookup [([], .dir 493), (["d1"], .dir 493)] (["d1"] ++ ["nd"]) = none := ⟨rfl, rfl⟩

end YashModel.Kernel
