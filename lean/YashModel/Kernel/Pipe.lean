/-
  C19 pivot: anonymous pipes on top of `Kernel/Model.lean` (`Pipe::pipe`, `Read`, `Write`, `Seek`,
  `Fcntl::get_and_set_nonblocking` of yash-env on a pipe).

  A pipe is kept as a bookkeeping entry `["..std", "pipe<n>"]` of the tree (never reachable by a path
  operation, never shown in the final tree): its content is every byte ever written, the read end is an
  open file description whose offset counts the bytes consumed, the write end appends.  Both ends are
  used in non-blocking mode by the harness (a blocking read on a real kernel would hang the run), so an
  empty pipe answers EAGAIN while a write end is open and end-of-file (0 bytes) when none is; a write
  without a read end answers EPIPE (SIGPIPE is ignored by the harness).  Capacity is not modelled: the
  generator stays far below `PIPE_BUF`.

  Import-free and executable.
-/
import YashModel.Kernel.Model
namespace YashModel.Kernel

/-- is some descriptor below the limit open on an end of the pipe `p` (`wr` selects the end)? -/
def pipeEndOpen (k : K) (p : Path) (wr : Bool) : Bool :=
  (List.range k.limit).any fun fd =>
    match getOfd k fd with
    | some (_, o) => o.pipe && o.path == p && (if wr then o.wr else o.rd)
    | none => false

/-- `pipe()`: two descriptors (lowest free, then next lowest), or EMFILE and nothing changes -/
def pipe' (k : K) : Res (Nat × Nat) :=
  match allocFd k 0 with
  | none => .err .EMFILE
  | some r =>
    let p : Path := ["..std", s!"pipe{k.ofds.length}"]
    let rdEnd : Ofd := { path := p, rd := true, wr := false, app := false, off := 0, pipe := true, nonblock := true }
    let wrEnd : Ofd := { path := p, rd := false, wr := true, app := true, off := 0, pipe := true, nonblock := true }
    let k1 : K := { k with tree := insert k.tree p (.reg 384 []), ofds := k.ofds ++ [rdEnd, wrEnd],
                           fds := setFd k.fds r (some { ofd := k.ofds.length, cloexec := false }) }
    match allocFd k1 0 with
    | none => .err .EMFILE
    | some w => .ok (r, w) { k1 with fds := setFd k1.fds w (some { ofd := k.ofds.length + 1, cloexec := false }) }

/-- `read` on any descriptor -/
def readAny (k : K) (fd n : Nat) : Res Bytes :=
  match getOfd k fd with
  | some (_, o) =>
    if o.pipe && o.rd then
      match lookup k.tree o.path with
      | some (.reg _ c) =>
        if n = 0 then .ok [] k
        else if (readAt c o.off n).isEmpty && pipeEndOpen k o.path true then .err .EAGAIN
        else read k fd n
      | _ => read k fd n
    else read k fd n
  | none => read k fd n

/-- `write` on any descriptor -/
def writeAny (k : K) (fd : Nat) (bs : Bytes) : Res Nat :=
  match getOfd k fd with
  | some (_, o) =>
    if o.pipe && o.wr && !pipeEndOpen k o.path false then .err .EPIPE
    else if o.pipe && o.wr && o.full then .err .EAGAIN
    else write k fd bs
  | none => write k fd bs

/-- what `fill` leaves in the pipe for later reads (`x` bytes; the real amount is not modelled) -/
def fillBytes : Bytes := List.replicate 1024 120

/-- the harness's `fill`: non-blocking writes until the kernel refuses even one byte.  The capacity is
    not modelled (it differs between the two implementations); what is kept is the fact "full" on the
    write end's open file description, and some bytes to read. -/
def fillPipe (k : K) (fd : Nat) : Res Unit :=
  match getOfd k fd with
  | none => .err .EBADF
  | some (i, o) =>
    if !o.wr then .err .EBADF
    else if !o.pipe then .err .EINVAL
    else if !pipeEndOpen k o.path false then .err .EPIPE
    else
      match lookup k.tree o.path with
      | some (.reg m c) =>
        .ok () { (updOfd k i { o with full := true }) with
                 tree := insert k.tree o.path (.reg m (c ++ fillBytes)) }
      | _ => .err .EINVAL

/-- `select` for writing with a zero timeout.  A pipe's write end is ready when a write would not block:
    there is room — or there is no reader left, in which case the write fails at once with EPIPE.  The
    second half is what releases a writer that is blocked on a full pipe when the last reader goes away. -/
def writeReady (k : K) (fd : Nat) : Except Errno Bool :=
  match getOfd k fd with
  | none => .error .EBADF
  | some (_, o) => .ok (if o.pipe && o.wr then !pipeEndOpen k o.path false || !o.full else true)

/-- `select` for reading with a zero timeout: data, or end-of-file (no writer left) -/
def readReady (k : K) (fd : Nat) : Except Errno Bool :=
  match getOfd k fd with
  | none => .error .EBADF
  | some (_, o) =>
    if o.pipe && o.rd then
      match lookup k.tree o.path with
      | some (.reg _ c) => .ok (!(readAt c o.off 1).isEmpty || !pipeEndOpen k o.path true)
      | _ => .ok true
    else .ok true

/-- `lseek` on any descriptor -/
def seekAny (k : K) (fd : Nat) (w : Whence) (d : Int) : Res (Option Nat) :=
  match getOfd k fd with
  | some (_, o) => if o.pipe then .err .ESPIPE else seek k fd w d
  | none => seek k fd w d

/-- `get_and_set_nonblocking(fd, b)`: previous value of O_NONBLOCK of the open file description -/
def setNonblock (k : K) (fd : Nat) (b : Bool) : Res Bool :=
  match getOfd k fd with
  | none => .err .EBADF
  | some (i, o) => .ok o.nonblock (updOfd k i { o with nonblock := b })

/-- `open_tmpfile()` (here-documents): an anonymous read-write file on the lowest free descriptor.  The
    descriptor does NOT have FD_CLOEXEC (`RealSystem` clears the flag the `tempfile` crate sets); the file
    is a bookkeeping entry of the tree that no path reaches, mode 0600. -/
def tmpfile (k : K) : Res Nat :=
  match allocFd k 0 with
  | none => .err .EMFILE
  | some fd =>
    let p : Path := ["..std", s!"tmp{k.ofds.length}"]
    .ok fd { k with tree := insert k.tree p (.reg 384 []),
                    ofds := k.ofds ++ [{ path := p, rd := true, wr := true, app := false, off := 0 }],
                    fds := setFd k.fds fd (some { ofd := k.ofds.length, cloexec := false }) }

end YashModel.Kernel
