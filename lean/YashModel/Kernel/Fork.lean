/-
  C19 pivot: `fork`, `exit`, `wait` and zombies at system-call level, on top of the file-level pivot
  (`Kernel/Step.lean`) and the signal-level pivot (`Kernel/SigStep.lean`) — the `X` cases of the driver.

  A process is a pair (file-level state `K`, signal-level state `Proc`).  POSIX `fork`: the child gets a
  copy of the descriptor table (FD_CLOEXEC flags included) whose entries refer to the SAME open file
  descriptions (offsets are shared), the same working directory, file creation mask and resource limits, the
  same signal mask and dispositions, an EMPTY set of pending signals.  What the child does to its descriptor
  table, working directory, mask, limit, signal mask and dispositions stays in the child; what it does to
  files and to shared open file descriptions (offsets) is seen by the parent.  A terminated child is a zombie
  until the parent waits for it: it can be signalled (nothing happens) and waited for exactly once; afterwards
  its pid names no process (`kill`: ESRCH, `wait`: ECHILD).

  Not a transcription of `virtual/process.rs`.  Scope: one level of fork, at most one child outstanding, the
  child runs to completion before the parent continues (the harness synchronises on it); pipes are not used
  in these cases (which ends of a pipe are open is judged per process in `Kernel/Pipe.lean`).

  Import-free and executable.
-/
import YashModel.Kernel.Step
import YashModel.Kernel.SigStep
namespace YashModel.Kernel
open Signal

/-- one process -/
structure XProc where
  k : K
  p : Proc

/-- an operation of a process other than those about children -/
inductive COp where
  | file (op : Op)
  | sig (op : SOp)
  /-- `setrlimit(RLIMIT_NOFILE, n)` (soft limit) -/
  | setlim (n : Nat)
  | exit (n : Nat)
  /-- `setrlimit(RLIMIT_NOFILE, soft = n + 1, hard = n)`: a soft limit above the hard one is EINVAL, nothing changes -/
  | badlim (n : Nat)
  /-- `wait(getpid())`: a process is not its own child — ECHILD, nothing changes -/
  | waitself

inductive CObs where
  | file (o : Obs)
  | sig (o : SObs)
  | ok
  | einval
  | echild
  deriving DecidableEq, Repr

/-- the child created by `fork` -/
def forkX (x : XProc) : XProc := { k := x.k, p := Signal.fork x.p }

/-- one operation of process `me`; `par` = the signal state of its parent while `me` is a forked child.
    `none` as answer: the operation does not return (exit, or terminated by the signal it sent itself). -/
def cstep (me : XProc) (par : Option Proc) : COp → XProc × Option Proc × Option CObs
  | .file op => ({ me with k := (step me.k op).1 }, par, some (.file (step me.k op).2))
  | .sig op => ({ me with p := (sstep me.p par op).1 }, (sstep me.p par op).2.1, (sstep me.p par op).2.2.map .sig)
  | .setlim n => ({ me with k := { me.k with limit := n } }, par, some .ok)
  | .exit n => ({ me with p := Signal.exit me.p n }, par, none)
  | .badlim _ => (me, par, some .einval)
  | .waitself => (me, par, some .echild)

/-- the operations of a child, from the states of child and parent; stops when the child is gone -/
def childRun : XProc → Proc → List COp → XProc × Proc × List CObs
  | c, p, [] => (c, p, [])
  | c, p, op :: ops =>
    if !c.p.alive then (c, p, [])
    else
      let r := cstep c (some p) op
      let rest := childRun r.1 (r.2.1.getD p) ops
      (rest.1, rest.2.1, match r.2.2 with | some o => o :: rest.2.2 | none => rest.2.2)

/-- what a terminated child leaves to its parent: the files and the shared open file descriptions as the
    child left them; descriptor table, working directory, mask and limit of the parent are its own -/
def afterChild (par : K) (child : K) : K := { par with tree := child.tree, ofds := child.ofds }

/-- the state of a case: the process, and its most recent child if it has terminated —
    `(status, false)`: a zombie (not yet waited for), `(status, true)`: reaped -/
structure XS where
  me : XProc
  child : Option (Status × Bool)

inductive XOp where
  | c (op : COp)
  /-- fork; the child runs `body` and exits (status 0 unless it says otherwise); the parent waits for it -/
  | fork (body : List COp)
  /-- fork; the child runs `body` and terminates; the parent does NOT wait: the child is a zombie -/
  | spawn (body : List COp)
  /-- `wait(pid of the most recent child)` -/
  | waitz
  /-- `kill(pid of the most recent child, s)`; `none` = signal 0 -/
  | killz (s : Option Sig)

/-- what a child reports: its answers, its final state (printed by the driver: descriptor table, working
    directory, mask, limit) -/
structure ChildReport where
  obs : List CObs
  final : XProc

inductive XObs where
  | c (o : Option CObs)
  | forked (r : ChildReport) (st : Status)
  | spawned (r : ChildReport)
  | status (st : Status)
  | ok
  | echild
  | esrch
  | unknown

/-- run a child of `x` to its end: the parent afterwards (SIGCHLD generated), the report, the status -/
def runChildX (x : XProc) (body : List COp) : XProc × ChildReport × Status :=
  let r := childRun (forkX x) x.p body
  ({ k := afterChild x.k r.1.k, p := generate r.2.1 .CHLD }, { obs := r.2.2, final := r.1 }, (Signal.exit r.1.p 0).status)

def xstep (s : XS) : XOp → XS × XObs
  | .c op =>
    let r := cstep s.me none op
    ({ s with me := r.1 }, .c r.2.2)
  | .fork body =>
    let r := runChildX s.me body
    ({ me := { r.1 with p := { r.1.p with reaped := r.1.p.reaped + 1 } }, child := some (r.2.2, true) }, .forked r.2.1 r.2.2)
  | .spawn body =>
    let r := runChildX s.me body
    ({ me := r.1, child := some (r.2.2, false) }, .spawned r.2.1)
  | .waitz =>
    match s.child with
    | none => (s, .unknown)
    | some (st, false) =>
      ({ me := { s.me with p := { s.me.p with reaped := s.me.p.reaped + 1 } }, child := some (st, true) }, .status st)
    | some (_, true) => (s, .echild)
  | .killz _ =>
    match s.child with
    | none => (s, .unknown)
    | some (_, false) => (s, .ok)
    | some (_, true) => (s, .esrch)

def xrun (s : XS) : List XOp → List XObs × XS
  | [] => ([], s)
  | op :: ops =>
    let r := xrun (xstep s op).1 ops
    ((xstep s op).2 :: r.1, r.2)

end YashModel.Kernel
