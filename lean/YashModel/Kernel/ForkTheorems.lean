/-
  C19 — `fork`, `exit`, `wait` and zombies at system-call level (`Kernel/Fork.lean`): theorems about `xstep`,
  the function the driver runs for every operation of an `X` case.
-/
import YashModel.Kernel.ForkLemmas
namespace YashModel.Kernel
open Signal

/-! ## inheritance -/

/-- ★ What a forked child starts with, as the driver computes it: its first operation — whatever file-level
    operation it is: `getcwd`, `umask`, `getrlimit`, `fcntl(F_GETFD)`, `read` at the inherited offset, `open`
    relative to the inherited working directory under the inherited mask and limit … — answers exactly what the
    same operation would have answered in the parent at the moment of the fork; and `sigpending` as first
    operation answers the empty set whatever was pending in the parent, the signal mask is the parent's. -/
theorem child_starts_as_parent (s : XS) (rest : List COp) :
    (∀ op, ∃ r st, (xstep s (.fork (.file op :: rest))).2 = .forked r st ∧
      r.obs.head? = some (.file (step s.me.k op).2)) ∧
    (∃ r st, (xstep s (.fork (.sig .pend :: rest))).2 = .forked r st ∧ r.obs.head? = some (.sig (.sigs []))) ∧
    (∃ r st, (xstep s (.fork (.sig .mask :: rest))).2 = .forked r st ∧
      r.obs.head? = some (.sig (.sigs (listOf s.me.p.mask)))) := by
  refine ⟨fun op => ⟨_, _, rfl, ?_⟩, ⟨_, _, rfl, ?_⟩, ⟨_, _, rfl, ?_⟩⟩
  · simp [runChildX, childRun, forkX, Signal.fork, Proc.alive, cstep]
  · simp [runChildX, childRun, forkX, Signal.fork, Proc.alive, cstep, sstep, listOf_empty]
  · simp [runChildX, childRun, forkX, Signal.fork, Proc.alive, cstep, sstep]

/-- ★ Whatever a child does — `chdir`, `umask`, `setrlimit`, `close`, `dup2`, `open`, `sigprocmask`, `sigaction`,
    signals to its parent — the parent afterwards has the working directory, file creation mask, limit and
    descriptor table (FD_CLOEXEC flags included) it had before, and the signal mask and dispositions it had
    before; what it does see is the files and the shared open file descriptions (offsets) as the child left
    them.  The same holds when the parent does not wait (`spawn`). -/
theorem child_cannot_change_parent (s : XS) (body : List COp) (wait : Bool) :
    let s' := (xstep s (if wait then .fork body else .spawn body)).1
    let c := (childRun (forkX s.me) s.me.p body).1
    s'.me.k.cwd = s.me.k.cwd ∧ s'.me.k.umask = s.me.k.umask ∧ s'.me.k.limit = s.me.k.limit ∧
    s'.me.k.fds = s.me.k.fds ∧ s'.me.p.mask = s.me.p.mask ∧ s'.me.p.disp = s.me.p.disp ∧
    s'.me.k.tree = c.k.tree ∧ s'.me.k.ofds = c.k.ofds := by
  have h := childRun_parent_mask_disp body (forkX s.me) s.me.p
  have g := generate_mask_disp (childRun (forkX s.me) s.me.p body).2.1 .CHLD
  cases wait
  · exact ⟨rfl, rfl, rfl, rfl, g.1.trans h.1, g.2.trans h.2, rfl, rfl⟩
  · exact ⟨rfl, rfl, rfl, rfl, g.1.trans h.1, g.2.trans h.2, rfl, rfl⟩

/-! ## zombies -/

/-- ★ A terminated child stays waitable exactly once (F28's statement).  After `spawn[body]` — the child has
    terminated, the parent has not waited — a signal to the child's pid, the null signal included, succeeds
    and changes nothing; `wait` answers the child's status (an exit status below 256); after that `wait`
    answers ECHILD and `kill` — any signal, the null signal included — ESRCH, neither changing anything; and
    `fork[body]` is `spawn[body]` followed by that one `wait`. -/
theorem zombie_waitable_exactly_once (s : XS) (body : List COp) (sig : Option Sig) :
    let s1 := (xstep s (.spawn body)).1
    let st := (runChildX s.me body).2.2
    let s2 := (xstep s1 .waitz).1
    xstep s1 (.killz sig) = (s1, .ok) ∧
    (xstep s1 .waitz).2 = .status st ∧
    (∀ n, st = .exited n → n < 256) ∧
    xstep s2 .waitz = (s2, .echild) ∧
    xstep s2 (.killz sig) = (s2, .esrch) ∧
    (xstep s (.fork body)).1 = s2 := by
  refine ⟨rfl, rfl, ?_, rfl, rfl, rfl⟩
  intro n hn
  have h0 : Ok8 (forkX s.me).p := by intro m hm; simp [forkX, Signal.fork] at hm
  have h1 := ok8_exit _ (ok8_childRun body s.me.p h0) 0
  exact h1 n hn

/-- before any child exists neither `wait` nor `kill` of "the child" is defined (the driver answers `?`);
    a reaped child stays reaped through every operation that creates no child -/
theorem reaped_stays_reaped (s : XS) (st : Status) (h : s.child = some (st, true)) (op : COp) (sig : Option Sig) :
    (xstep s (.c op)).1.child = some (st, true) ∧ (xstep s .waitz) = (s, .echild) ∧ (xstep s (.killz sig)) = (s, .esrch) := by
  refine ⟨by simp [xstep, h], by simp [xstep, h], by simp [xstep, h]⟩

/-! ## non-vacuity -/

/-- cwd `d`, mask 0o22, descriptor 0 open close-on-exec on `f` ("ab") at offset 0, USR1 blocked and pending -/
def exX : XS :=
  { me := { k := { tree := [([], .dir 493), (["d"], .dir 493), (["d", "e"], .dir 493), (["f"], .reg 420 [97, 98])],
                   ofds := [{ path := ["f"], rd := true, wr := false, app := false, off := 0 }],
                   fds := fun n => if n = 0 then some ⟨0, true⟩ else none, limit := 8, umask := 18, cwd := ["d"] },
            p := { Proc.init with mask := SigSet.ofList [.USR1], pending := SigSet.ofList [.USR1] } },
    child := none }

def exBody : List COp :=
  [.sig .pend, .file .cwd, .file (.getfd 0), .file (.read 0 1), .file (.chdir ["e"]), .file (.umask 0), .setlim 3,
   .file (.close 0), .sig (.unb [.USR1]), .exit 300]

example : (xrun exX [.fork exBody, .c (.file .cwd), .c (.file (.read 0 5)), .c (.file (.getfd 0)), .c (.sig .pend),
    .spawn [.exit 3], .killz none, .waitz, .waitz, .killz (some .TERM)]).1.map
      (fun o => match o with
        | .forked r st => (r.obs, some st)
        | .spawned r => (r.obs, none)
        | .c (some o) => ([o], none)
        | .status st => ([], some st)
        | .ok => ([.ok], none)
        | .echild => ([], some (.exited 1000))
        | .esrch => ([], some (.exited 1001))
        | _ => ([], none)) =
    [([.sig (.sigs []), .file (.path ["d"]), .file (.flag true), .file (.bytes [97]), .file .ok, .file (.num 18), .ok,
       .file .ok, .sig .ok], some (.exited 44)),
     ([.file (.path ["d"])], none), ([.file (.bytes [98])], none), ([.file (.flag true)], none),
     ([.sig (.sigs [.USR1])], none),
     ([], none), ([.ok], none), ([], some (.exited 3)), ([], some (.exited 1000)), ([], some (.exited 1001))] := by
  decide

end YashModel.Kernel
