/-
  C19 — property theorems about pipes in the pivot (`Kernel/Pipe.lean`).
-/
import YashModel.Kernel.Pipe
import YashModel.Kernel.Lemmas
namespace YashModel.Kernel

/-- ★ `pipe()` hands out the two lowest free descriptors, in increasing order, both below the limit, or
    fails with EMFILE without leaving a descriptor behind. -/
theorem pipe_two_lowest (k : K) :
    (∀ r w k', pipe' k = .ok (r, w) k' →
      k.fds r = none ∧ (∀ m, m < r → k.fds m ≠ none) ∧ r < w ∧ w < k.limit ∧ k.fds w = none ∧
      (∀ m, r < m → m < w → k.fds m ≠ none) ∧
      k'.fds r = some { ofd := k.ofds.length, cloexec := false } ∧
      k'.fds w = some { ofd := k.ofds.length + 1, cloexec := false } ∧
      (∀ n, n ≠ r → n ≠ w → k'.fds n = k.fds n)) ∧
    (∀ e, pipe' k = .err e → e = .EMFILE) := by
  constructor
  · intro r w k' h
    unfold pipe' at h
    split at h
    · simp at h
    · rename_i r0 hr0
      obtain ⟨_, _, hfree, hlow⟩ := findFree_some k.fds _ _ _ hr0
      simp only at h
      split at h
      · simp at h
      · rename_i w0 hw0
        obtain ⟨_, hwlt, hwfree, hwlow⟩ := findFree_some _ _ _ _ hw0
        simp only at hwlt
        injection h with h1 h2
        injection h1 with hr hw
        subst hr hw h2
        simp only [setFd] at hwfree hwlow
        have hne : w0 ≠ r0 := by
          intro e; subst e; simp at hwfree
        have hwfree' : k.fds w0 = none := by simpa [hne] using hwfree
        have hrw : r0 < w0 := by
          rcases Nat.lt_or_ge r0 w0 with h | h
          · exact h
          · exfalso
            have hlt : w0 < r0 := Nat.lt_of_le_of_ne h hne
            exact hlow w0 (Nat.zero_le _) hlt hwfree'
        refine ⟨hfree, fun m hm => hlow m (Nat.zero_le _) hm, hrw, by omega, hwfree', ?_, ?_, ?_, ?_⟩
        · intro m h1 h2
          have := hwlow m (Nat.zero_le _) h2
          have hmne : m ≠ r0 := by omega
          simpa [hmne] using this
        · have : r0 ≠ w0 := fun e => hne e.symm
          simp [setFd, this]
        · simp [setFd]
        · intro n hn1 hn2
          simp [setFd, hn1, hn2]
  · intro e h
    unfold pipe' at h
    split at h
    · injection h with h; exact h.symm
    · simp only at h
      split at h
      · injection h with h; exact h.symm
      · simp at h

example : ∃ k', pipe' exK1 = .ok (1, 3) k' := ⟨_, rfl⟩

end YashModel.Kernel
