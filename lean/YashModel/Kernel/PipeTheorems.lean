/-
  C19 — property theorems about pipes in the pivot (`Kernel/Pipe.lean`).
-/
import YashModel.Kernel.Pipe
import YashModel.Kernel.Lemmas
namespace YashModel.Kernel

/-- ★ `pipe()` hands out the two lowest free descriptors, in increasing order, both below the limit, or
    fails with EMFILE without leaving a descriptor behind. -/
theorem pipe_two_lowest (k : K) :
    (∀ r w k', pipe' k = .ok (r, w) k' →
      k.fds r = none ∧ (∀ m, m < r → k.fds m ≠ none) ∧ r < w ∧ w < k.limit ∧ k.fds w = none ∧
      (∀ m, r < m → m < w → k.fds m ≠ none) ∧
      k'.fds r = some { ofd := k.ofds.length, cloexec := false } ∧
      k'.fds w = some { ofd := k.ofds.length + 1, cloexec := false } ∧
      (∀ n, n ≠ r → n ≠ w → k'.fds n = k.fds n)) ∧
    (∀ e, pipe' k = .err e → e = .EMFILE) := by
  constructor
  · intro r w k' h
    unfold pipe' at h
    split at h
    · simp at h
    · rename_i r0 hr0
      obtain ⟨_, _, hfree, hlow⟩ := findFree_some k.fds _ _ _ hr0
      simp only at h
      split at h
      · simp at h
      · rename_i w0 hw0
        obtain ⟨_, hwlt, hwfree, hwlow⟩ := findFree_some _ _ _ _ hw0
        simp only at hwlt
        injection h with h1 h2
        injection h1 with hr hw
        subst hr hw h2
        simp only [setFd] at hwfree hwlow
        have hne : w0 ≠ r0 := by
          intro e; subst e; simp at hwfree
        have hwfree' : k.fds w0 = none := by simpa [hne] using hwfree
        have hrw : r0 < w0 := by
          rcases Nat.lt_or_ge r0 w0 with h | h
          · exact h
          · exfalso
            have hlt : w0 < r0 := Nat.lt_of_le_of_ne h hne
            exact hlow w0 (Nat.zero_le _) hlt hwfree'
        refine ⟨hfree, fun m hm => hlow m (Nat.zero_le _) hm, hrw, by omega, hwfree', ?_, ?_, ?_, ?_⟩
        · intro m h1 h2
          have := hwlow m (Nat.zero_le _) h2
          have hmne : m ≠ r0 := by omega
          simpa [hmne] using this
        · have : r0 ≠ w0 := fun e => hne e.symm
          simp [setFd, this]
        · simp [setFd]
        · intro n hn1 hn2
          simp [setFd, hn1, hn2]
  · intro e h
    unfold pipe' at h
    split at h
    · injection h with h; exact h.symm
    · simp only at h
      split at h
      · injection h with h; exact h.symm
      · simp at h

example : ∃ k', pipe' exK1 = .ok (1, 3) k' := ⟨_, rfl⟩

/-! ## readiness of a full pipe -/

theorem getOfd_close (k : K) (r fd : Nat) :
    getOfd (close k r) fd = if fd = r then none else getOfd k fd := by
  by_cases h : fd = r
  · subst h; simp [getOfd, close, setFd]
  · simp [getOfd, close, setFd, h]

/-- closing the only descriptor that is open on a read end of the pipe leaves the pipe without reader -/
theorem close_last_reader (k : K) (p : Path) (r : Nat)
    (honly : ∀ fd i o, fd ≠ r → getOfd k fd = some (i, o) → (o.pipe && o.path == p && o.rd) = false) :
    pipeEndOpen (close k r) p false = false := by
  unfold pipeEndOpen
  rw [List.any_eq_false]
  intro fd _
  rw [getOfd_close]
  by_cases h : fd = r
  · simp [h]
  · simp only [h, if_false]
    cases hg : getOfd k fd with
    | none => simp
    | some io =>
      obtain ⟨i, o⟩ := io
      have := honly fd i o h hg
      simpa using this

/-- ★ A writer blocked on a full pipe becomes ready when the last reader closes.
    While a reader exists, the full pipe is not ready for writing and a write answers EAGAIN (the writer
    waits in `select`); once the only read descriptor is closed, `select` reports the write end ready and
    the write answers EPIPE at once — the pipe being still full does not matter. -/
theorem blocked_writer_released_when_last_reader_closes (k : K) (w r i : Nat) (o : Ofd) (bs : Bytes)
    (hg : getOfd k w = some (i, o)) (hp : o.pipe = true) (hw : o.wr = true) (hfull : o.full = true)
    (hwr : w ≠ r) (hrd : pipeEndOpen k o.path false = true)
    (honly : ∀ fd i' o', fd ≠ r → getOfd k fd = some (i', o') → (o'.pipe && o'.path == o.path && o'.rd) = false) :
    writeReady k w = .ok false ∧ writeAny k w bs = .err .EAGAIN ∧
    writeReady (close k r) w = .ok true ∧ writeAny (close k r) w bs = .err .EPIPE := by
  have hclosed := close_last_reader k o.path r honly
  have hg' : getOfd (close k r) w = some (i, o) := by rw [getOfd_close]; simp [hwr, hg]
  refine ⟨?_, ?_, ?_, ?_⟩
  · simp [writeReady, hg, hp, hw, hfull, hrd]
  · simp [writeAny, hg, hp, hw, hfull, hrd]
  · simp [writeReady, hg', hp, hw, hclosed]
  · simp [writeAny, hg', hp, hw, hclosed]

/-- the state after `pipe; fill` on descriptors 3 (read end) and 4 (write end) of the example below -/
example : ∃ k1 k2, pipe' { exK1 with fds := fun n => if n < 3 then some ⟨0, false⟩ else none } = .ok (3, 4) k1 ∧
    fillPipe k1 4 = .ok () k2 ∧ writeReady k2 4 = .ok false ∧ writeReady (close k2 3) 4 = .ok true ∧
    writeAny (close k2 3) 4 [65] = .err .EPIPE := ⟨_, _, rfl, rfl, rfl, rfl, rfl⟩

end YashModel.Kernel
