/-
  C19 pivot: path resolution with symbolic links (Linux `path_walk` for relative links).  The `System` traits of
  yash-env have no `symlink`, `readlink`, `unlink`, `rename` or `mkdir`, so links can only exist beforehand: they
  are a fixed table beside the tree.  Every call of the traits that takes a path follows links in every
  component; only `fstatat(…, follow_symlinks = false)` (lstat) and `open` with O_CREAT|O_EXCL do not follow a
  link in the FINAL component.  At most `budget` links are followed in one resolution (Linux: 40; the simulator's
  `resolve_existing_file`: 8), ELOOP beyond.

  Conservative extension of `resolve` (`Kernel/Model.lean`): without links the two agree
  (`SymlinkTheorems.lwalk_without_links`).  Import-free and executable.
-/
import YashModel.Kernel.Model
namespace YashModel.Kernel

/-- the links: path of the link ↦ components of its (relative) target -/
abbrev Links := List (Path × List String)

def linkAt : Links → Path → Option (List String)
  | [], _ => none
  | (q, tgt) :: r, p => if q = p then some tgt else linkAt r p

/-- `lwalk t ls followFinal fuel budget cur comps`: the place `comps` names from `cur`.  A component that is a link
    is replaced by its target (spliced in front of the remaining components, resolved from the directory the link
    is in) — unless it is the final component and `followFinal` is off.  `fuel` only makes the recursion
    structural (every call the theorems talk about has enough). -/
def lwalk (t : Tree) (ls : Links) (followFinal : Bool) : Nat → Nat → Path → List String → Except Errno Path
  | 0, _, _, _ => .error .ELOOP
  | _, _, cur, [] => .ok cur
  | fuel + 1, budget, cur, c :: rest =>
    if c = "" ∨ c = "." then lwalk t ls followFinal fuel budget cur rest
    else if c = ".." then lwalk t ls followFinal fuel budget cur.dropLast rest
    else
      match linkAt ls (cur ++ [c]) with
      | some tgt =>
        if rest.isEmpty && !followFinal then .ok (cur ++ [c])
        else if budget = 0 then .error .ELOOP
        else lwalk t ls followFinal fuel (budget - 1) cur (tgt ++ rest)
      | none =>
        if rest.isEmpty then .ok (cur ++ [c])
        else match existing t (cur ++ [c]) with
          | .missing => .error .ENOENT
          | .reg => .error .ENOTDIR
          | .dir => lwalk t ls followFinal fuel budget (cur ++ [c]) rest

/-- what a path names -/
inductive LKind where
  | missing | reg | dir | lnk
  deriving DecidableEq, Repr

def kindAt (t : Tree) (ls : Links) (p : Path) : LKind :=
  match linkAt ls p with
  | some _ => .lnk
  | none => match existing t p with
    | .missing => .missing | .reg => .reg | .dir => .dir

/-- `fstatat(path, follow)`: `stat` follows a final link, `lstat` reports the link itself -/
def lstatKind (t : Tree) (ls : Links) (follow : Bool) (fuel budget : Nat) (cur : Path) (comps : List String) :
    Except Errno LKind :=
  match lwalk t ls follow fuel budget cur comps with
  | .error e => .error e
  | .ok p => match kindAt t ls p with
    | .missing => .error .ENOENT
    | k => .ok k

/-- the decision of `open` on a path with links: O_CREAT|O_EXCL does not follow a final link — a link there,
    dangling or not, is "the file exists" (EEXIST); every other `open` follows it, so O_CREAT through a dangling
    link creates the link's target -/
def lopenTarget (t : Tree) (ls : Links) (f : Flags) (fuel budget : Nat) (cur : Path) (comps : List String) :
    Except Errno Path :=
  match lwalk t ls (!(f.create && f.excl)) fuel budget cur comps with
  | .error e => .error e
  | .ok p => if (f.create && f.excl) && (linkAt ls p).isSome then .error .EEXIST else .ok p

end YashModel.Kernel
