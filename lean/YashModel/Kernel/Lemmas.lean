/-
  Helper lemmas about the C19 pivot (`Kernel/Model.lean`).
-/
import YashModel.Kernel.Model
namespace YashModel.Kernel

/-! ## tree -/

theorem lookup_insert_self (t : Tree) (p : Path) (n : Node) : lookup (insert t p n) p = some n := by
  simp [insert, lookup]

theorem lookup_insert_ne (t : Tree) (p q : Path) (n : Node) (h : p ≠ q) :
    lookup (insert t p n) q = lookup t q := by
  simp [insert, lookup, h]

/-! ## descriptor search -/

theorem findFree_some (fds : Nat → Option FdEntry) :
    ∀ (fuel fd n : Nat), findFree fds fd fuel = some n →
      fd ≤ n ∧ n < fd + fuel ∧ fds n = none ∧ ∀ m, fd ≤ m → m < n → fds m ≠ none := by
  intro fuel
  induction fuel with
  | zero => intro fd n h; simp [findFree] at h
  | succ fuel ih =>
    intro fd n h
    unfold findFree at h
    by_cases hf : (fds fd).isNone = true
    · simp [hf] at h
      subst h
      refine ⟨Nat.le_refl _, by omega, by simpa using hf, ?_⟩
      intro m h1 h2; omega
    · simp [hf] at h
      obtain ⟨h1, h2, h3, h4⟩ := ih (fd + 1) n h
      refine ⟨by omega, by omega, h3, ?_⟩
      intro m hm1 hm2
      by_cases hmfd : m = fd
      · subst hmfd
        intro hcontra
        simp [hcontra] at hf
      · exact h4 m (by omega) hm2

theorem findFree_none (fds : Nat → Option FdEntry) :
    ∀ (fuel fd : Nat), findFree fds fd fuel = none → ∀ m, fd ≤ m → m < fd + fuel → fds m ≠ none := by
  intro fuel
  induction fuel with
  | zero => intro fd _ m h1 h2; omega
  | succ fuel ih =>
    intro fd h m h1 h2
    unfold findFree at h
    by_cases hf : (fds fd).isNone = true
    · simp [hf] at h
    · simp [hf] at h
      by_cases hmfd : m = fd
      · subst hmfd
        intro hcontra
        simp [hcontra] at hf
      · exact ih (fd + 1) h m (by omega) (by omega)

/-! ## content -/

theorem writeAt_end (c bs : Bytes) : writeAt c c.length bs = c ++ bs := by
  simp [writeAt]

theorem readAt_writeAt (c : Bytes) (off : Nat) (bs : Bytes) :
    readAt (writeAt c off bs) off bs.length = bs := by
  unfold readAt writeAt
  have hlen : (List.take off c ++ List.replicate (off - c.length) (0 : UInt8)).length = off := by
    simp [List.length_take]; omega
  rw [List.append_assoc (List.take off c ++ List.replicate (off - c.length) 0)]
  rw [List.drop_append_of_le_length (by omega)]
  have hd : List.drop off (List.take off c ++ List.replicate (off - c.length) (0 : UInt8)) = [] := by
    apply List.drop_eq_nil_of_le; omega
  rw [hd, List.nil_append, List.take_left']
  rfl

/-! ## open file descriptions -/

theorem getOfd_some {k : K} {fd i : Nat} {o : Ofd} (h : getOfd k fd = some (i, o)) :
    ∃ e, k.fds fd = some e ∧ e.ofd = i ∧ k.ofds[i]? = some o := by
  unfold getOfd at h
  split at h
  · simp at h
  · rename_i e he
    split at h
    · simp at h
    · rename_i o' ho
      simp at h
      obtain ⟨h1, h2⟩ := h
      subst h1 h2
      exact ⟨e, he, rfl, ho⟩

theorem getOfd_upd {k : K} {fd i : Nat} {o o' : Ofd} (tree : Tree)
    (h : getOfd k fd = some (i, o)) :
    getOfd { (updOfd k i o') with tree := tree } fd = some (i, o') := by
  obtain ⟨e, he, hi, ho⟩ := getOfd_some h
  have hlt : i < k.ofds.length := by
    have := List.getElem?_eq_some_iff.mp ho
    exact this.1
  subst hi
  simp [getOfd, updOfd, he, hlt]

theorem getOfd_updOfd {k : K} {fd i : Nat} {o o' : Ofd} (h : getOfd k fd = some (i, o)) :
    getOfd (updOfd k i o') fd = some (i, o') := by
  have := getOfd_upd (o' := o') (updOfd k i o').tree h
  simpa using this

/-! ## path resolution -/

/-- all components are intermediate (each must name an existing directory) -/
def walkDirs (t : Tree) : Path → List String → Except Errno Path
  | cur, [] => .ok cur
  | cur, c :: cs =>
    match stepDir t cur c with
    | .error e => .error e
    | .ok cur' => walkDirs t cur' cs

theorem resolve_walk (t : Tree) :
    ∀ (pre : List String) (cur cur' : Path) (c : String) (rest : List String),
      walkDirs t cur pre = .ok cur' → resolve t cur (pre ++ c :: rest) = resolve t cur' (c :: rest) := by
  intro pre
  induction pre with
  | nil => intro cur cur' c rest h; simp [walkDirs] at h; subst h; rfl
  | cons p ps ih =>
    intro cur cur' c rest h
    unfold walkDirs at h
    split at h
    · simp at h
    · rename_i cur1 hstep
      have hne : ps ++ c :: rest = (ps ++ c :: rest).head (by simp) :: (ps ++ c :: rest).tail := by
        simp
      rw [List.cons_append, hne, resolve, hstep, ← hne]
      exact ih cur1 cur' c rest h

theorem resolve_missing_dir (t : Tree) (cur : Path) (c c' : String) (rest : List String)
    (h1 : c ≠ "") (h2 : c ≠ ".") (h3 : c ≠ "..") (hm : lookup t (cur ++ [c]) = none) :
    resolve t cur (c :: c' :: rest) = .error .ENOENT := by
  simp [resolve, stepDir, existing, h1, h2, h3, hm]

/-! ## trailing slashes -/

theorem dropTrailingEmpty_replicate (m : Nat) : dropTrailingEmpty (List.replicate m "") = [] := by
  induction m with
  | zero => rfl
  | succ m ih => simp [List.replicate_succ, dropTrailingEmpty, ih]

theorem dropTrailingEmpty_name (name : String) (m : Nat) (h : name ≠ "") :
    dropTrailingEmpty (name :: List.replicate m "") = [name] := by
  simp [dropTrailingEmpty, dropTrailingEmpty_replicate, h]

theorem dropTrailingEmpty_append (pre l : List String) (h : dropTrailingEmpty l ≠ []) :
    dropTrailingEmpty (pre ++ l) = pre ++ dropTrailingEmpty l := by
  induction pre with
  | nil => rfl
  | cons c cs ih =>
    have hne : cs ++ dropTrailingEmpty l ≠ [] := by simp [h]
    simp only [List.cons_append, dropTrailingEmpty, ih]

theorem slashAfterName_shape (pre : List String) (name : String) (n : Nat)
    (h1 : name ≠ "") (h2 : name ≠ ".") (h3 : name ≠ "..") :
    dropTrailingEmpty (pre ++ name :: List.replicate (n + 1) "") = pre ++ [name] ∧
    slashAfterName (pre ++ name :: List.replicate (n + 1) "") = true := by
  have hd : dropTrailingEmpty (pre ++ name :: List.replicate (n + 1) "") = pre ++ [name] := by
    rw [dropTrailingEmpty_append _ _ (by simp [dropTrailingEmpty_name name _ h1]), dropTrailingEmpty_name name _ h1]
  refine ⟨hd, ?_⟩
  unfold slashAfterName
  rw [hd]
  have hl : (pre ++ name :: List.replicate (n + 1) "").getLast? = some "" := by
    rw [List.replicate_succ', ← List.cons_append, ← List.append_assoc, List.getLast?_append]
    simp
  simp [hl, h2, h3]


/-! ## concrete states used by the non-vacuity examples in Theorems.lean -/

/-- descriptors 0 and 2 open, 1 free -/
def exK1 : K where
  tree := [([], .dir 493), (["f"], .reg 420 [])]
  ofds := [{ path := ["f"], rd := true, wr := false, app := false, off := 0 }]
  fds := fun n => if n = 0 ∨ n = 2 then some ⟨0, false⟩ else none
  limit := 8
  umask := 18
  cwd := []

/-- an append-mode description at offset 1 on a three-byte file -/
def exK2 : K where
  tree := [(["f"], .reg 420 [1, 2, 3])]
  ofds := [{ path := ["f"], rd := false, wr := true, app := true, off := 1 }]
  fds := fun _ => some ⟨0, false⟩
  limit := 8
  umask := 0
  cwd := []

/-- a read-write description at offset 5, beyond the end of a three-byte file -/
def exK3 : K where
  tree := [(["f"], .reg 420 [1, 2, 3])]
  ofds := [{ path := ["f"], rd := true, wr := true, app := false, off := 5 }]
  fds := fun _ => some ⟨0, false⟩
  limit := 8
  umask := 0
  cwd := []

/-- descriptor 0 only: an append-mode description whose offset (7) is beyond the end of its 3-byte file -/
def exK4 : K where
  tree := [([], .dir 493), (["f"], .reg 420 [1, 2, 3])]
  ofds := [{ path := ["f"], rd := false, wr := true, app := true, off := 7 }]
  fds := fun n => if n = 0 then some ⟨0, false⟩ else none
  limit := 8
  umask := 0
  cwd := []

end YashModel.Kernel
