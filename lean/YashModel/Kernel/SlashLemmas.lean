/-
  C19 — lemmas for `SlashTheorems.lean`: the shape of a path that ends in a slash after an ordinary name.
-/
import YashModel.Kernel.Lemmas
namespace YashModel.Kernel

/-- `dropTrailingEmpty` removes exactly a run of empty components at the end -/
theorem dropTrailingEmpty_split : ∀ l : List String,
    ∃ n, l = dropTrailingEmpty l ++ List.replicate n "" ∧ (dropTrailingEmpty l).getLast? ≠ some "" := by
  intro l
  induction l with
  | nil => exact ⟨0, rfl, by simp [dropTrailingEmpty]⟩
  | cons c cs ih =>
    obtain ⟨n, h1, h2⟩ := ih
    cases hd : dropTrailingEmpty cs with
    | nil =>
      rw [hd] at h1
      by_cases hc : c = ""
      · refine ⟨n + 1, ?_, ?_⟩
        · simp only [dropTrailingEmpty, hd, hc, if_true, List.nil_append]
          rw [List.replicate_succ, ← List.nil_append (List.replicate n ""), ← h1]
        · simp [dropTrailingEmpty, hd, hc]
      · refine ⟨n, ?_, ?_⟩
        · simp only [dropTrailingEmpty, hd, hc, if_false]
          rw [List.cons_append, List.nil_append, ← List.nil_append (List.replicate n ""), ← h1]
        · simp [dropTrailingEmpty, hd, hc]
    | cons d ds =>
      rw [hd] at h1 h2
      refine ⟨n, ?_, ?_⟩
      · simp only [dropTrailingEmpty, hd]
        rw [List.cons_append, ← h1]
      · simp only [dropTrailingEmpty, hd]
        rw [List.getLast?_cons_cons]; exact h2

/-- the shape of a path that ends in a slash after an ordinary name -/
theorem slashAfterName_decompose (comps : List String) (h : slashAfterName comps = true) :
    ∃ pre name n, comps = pre ++ name :: List.replicate (n + 1) "" ∧ name ≠ "" ∧ name ≠ "." ∧ name ≠ ".." := by
  unfold slashAfterName at h
  simp only [Bool.and_eq_true, decide_eq_true_eq] at h
  obtain ⟨hl, hm⟩ := h
  obtain ⟨n, h1, h2⟩ := dropTrailingEmpty_split comps
  cases hg : (dropTrailingEmpty comps).getLast? with
  | none => rw [hg] at hm; simp at hm
  | some name =>
    rw [hg] at hm h2
    simp only [Bool.and_eq_true, ne_eq] at hm
    obtain ⟨pre, hpre⟩ := List.getLast?_eq_some_iff.mp hg
    have hne : name ≠ "" := fun e => h2 (by rw [e])
    cases n with
    | zero =>
      exfalso
      rw [hpre] at h1
      simp only [List.replicate_zero, List.append_nil] at h1
      rw [h1, List.getLast?_append] at hl
      simp at hl
      exact hne hl
    | succ n =>
      refine ⟨pre, name, n, ?_, hne, ?_, ?_⟩
      · rw [h1, hpre, List.append_assoc]; rfl
      · simpa using hm.1
      · simpa using hm.2

theorem walkDirs_of_resolve_ok (t : Tree) : ∀ (pre : List String) (cur p : Path) (c : String) (rest : List String),
    resolve t cur (pre ++ c :: rest) = .ok p → ∃ d, walkDirs t cur pre = .ok d := by
  intro pre
  induction pre with
  | nil => intro cur p c rest _; exact ⟨cur, rfl⟩
  | cons x xs ih =>
    intro cur p c rest h
    have hne : xs ++ c :: rest = (xs ++ c :: rest).head (by simp) :: (xs ++ c :: rest).tail := by simp
    rw [List.cons_append, hne, resolve] at h
    unfold walkDirs
    split at h
    · simp at h
    · rename_i cur' hs
      rw [hs]
      rw [← hne] at h
      exact ih cur' p c rest h

end YashModel.Kernel
