/-
  C19 — a trailing slash and what a path can resolve to; `append_after_truncate` for every operand.
-/
import YashModel.Kernel.StepTheorems
import YashModel.Kernel.SlashLemmas
namespace YashModel.Kernel

/-- ★ A path that ends in a slash after an ordinary name resolves — if it resolves at all — to a directory:
    never to a regular file, never to a missing name. -/
theorem slash_resolves_to_directory (t : Tree) (cwd p : Path) (comps : List String)
    (hs : slashAfterName comps = true) (hr : resolve t cwd comps = .ok p) : existing t p = .dir := by
  obtain ⟨pre, name, n, hc, h1, h2, h3⟩ := slashAfterName_decompose comps hs
  subst hc
  obtain ⟨d, hw⟩ := walkDirs_of_resolve_ok t pre cwd p name _ hr
  rw [trailing_slash_demands_directory t cwd d pre name n hw h1 h2 h3] at hr
  cases he : existing t (d ++ [name]) <;> rw [he] at hr <;> simp at hr
  subst hr; exact he

/-- ★ `append_after_truncate` without its trailing-slash hypothesis: that the operand of the second `open`
    resolves to the regular file behind the append-mode descriptor already excludes a slash after its last
    name. -/
theorem append_after_truncate_any_path (k : K) (a i m : Nat) (o : Ofd) (c bs : Bytes)
    (comps : List String) (acc : Access) (f : Flags) (mode : Nat)
    (hg : getOfd k a = some (i, o)) (hw : o.wr = true) (happ : o.app = true) (hp : o.pipe = false)
    (hl : lookup k.tree o.path = some (.reg m c)) (hne : bs ≠ [])
    (hesc : guarded k comps = false) (hfd : allocFd k 0 ≠ none)
    (hr : resolve k.tree k.cwd comps = .ok o.path)
    (hcx : (f.create && f.excl) = false) (hd : f.directory = false) (ht : f.trunc = true) :
    ∃ fd k1 k2, step k (.open comps acc f mode) = (k1, .num fd) ∧
      step k1 (.write a bs) = (k2, .num bs.length) ∧
      lookup k2.tree o.path = some (.reg m bs) := by
  have hsl : slashAfterName comps = false := by
    cases hs : slashAfterName comps with
    | false => rfl
    | true =>
      have := slash_resolves_to_directory k.tree k.cwd o.path comps hs hr
      simp [existing, hl] at this
  exact append_after_truncate k a i m o c bs comps acc f mode hg hw happ hp hl hne hesc hfd hr hcx hd ht
    (by simp [hsl])

example : slashAfterName ["d", "e", "", ""] = true ∧
    resolve exKpath.tree [] ["a", "foo", ""] = .ok ["a", "foo"] ∧ existing exKpath.tree ["a", "foo"] = .dir ∧
    resolve exKpath.tree [] ["b", "foo", ""] = .error .ENOTDIR := ⟨by decide, rfl, by decide, rfl⟩

end YashModel.Kernel
