/-
  C19 — the tie between the hand-written pivot and the *tables* of the two implementations of the system
  traits, re-extracted from /repo on every run into `Generated/KernelTables.lean`
  (tools/tables/kernel.py): the simulator's table of default signal actions (`SignalEffect::of`), the
  O_* constant the real side passes for each `OpenFlag` / `OfdAccess`, and the mask the simulator's
  `Exit::exit` applies to an exit status.  The quantifiers range over genuinely finite tables (24 signals,
  6 flags, 3 access modes), so `decide` is the proof; an edit of a Rust table re-checks it.
-/
import YashModel.Kernel.Model
import YashModel.Kernel.Signal
import YashModel.Generated.KernelTables
namespace YashModel.Kernel

open YashModel.Generated.KernelTables

def lookupS : List (String × String) → String → Option String
  | [], _ => none
  | (k, v) :: r, x => if k = x then some v else lookupS r x

namespace Signal

/-- the variant of `yash_env::signal::Name` that names the pivot's signal -/
def Sig.rustName : Sig → String
  | .HUP => "Hup" | .INT => "Int" | .QUIT => "Quit" | .ILL => "Ill" | .TRAP => "Trap" | .ABRT => "Abrt"
  | .BUS => "Bus" | .FPE => "Fpe" | .KILL => "Kill" | .USR1 => "Usr1" | .SEGV => "Segv" | .USR2 => "Usr2"
  | .PIPE => "Pipe" | .ALRM => "Alrm" | .TERM => "Term" | .CHLD => "Chld" | .URG => "Urg" | .XCPU => "Xcpu"
  | .XFSZ => "Xfsz" | .VTALRM => "Vtalrm" | .PROF => "Prof" | .WINCH => "Winch" | .IO => "Io" | .SYS => "Sys"

/-- ★ For every signal of the pivot the simulator's `SignalEffect::of` has a row; the row says "none" exactly
    for the signals the pivot discards by default (CHLD, URG, WINCH), and otherwise "terminate" (with or
    without core dump) — never stop or continue, which the pivot does not model. -/
theorem default_actions_match_code (s : Sig) :
    ∃ e, lookupS signalEffect s.rustName = some e ∧
      (defaultIgnored s = true ↔ e = "none") ∧
      (defaultIgnored s = false ↔ (e = "terminate" ∨ e = "core")) := by
  cases s <;> exact ⟨_, rfl, by decide, by decide⟩

/-- the rows of the simulator's table that the pivot leaves out are exactly stop/continue signals, aliases and
    platform extras: every "suspend"/"resume" row is one of STOP TSTP TTIN TTOU CONT -/
theorem job_control_rows_outside_pivot :
    (signalEffect.filter (fun r => r.2 = "suspend" ∨ r.2 = "resume")).map (·.1) =
      ["Cont", "Stop", "Tstp", "Ttin", "Ttou"] := by decide

end Signal

/-- ★ The O_* constant `RealSystem` hands to the kernel for each flag the pivot models is its namesake (the
    pivot's `create` is O_CREAT, `excl` O_EXCL, `trunc` O_TRUNC, `append` O_APPEND, `cloexec` O_CLOEXEC,
    `directory` O_DIRECTORY), and the three access modes are O_RDONLY / O_WRONLY / O_RDWR. -/
theorem open_flags_match_code :
    lookupS openFlagReal "Create" = some "O_CREAT" ∧ lookupS openFlagReal "Exclusive" = some "O_EXCL" ∧
    lookupS openFlagReal "Truncate" = some "O_TRUNC" ∧ lookupS openFlagReal "Append" = some "O_APPEND" ∧
    lookupS openFlagReal "CloseOnExec" = some "O_CLOEXEC" ∧ lookupS openFlagReal "Directory" = some "O_DIRECTORY" ∧
    lookupS accessReal "ReadOnly" = some "O_RDONLY" ∧ lookupS accessReal "WriteOnly" = some "O_WRONLY" ∧
    lookupS accessReal "ReadWrite" = some "O_RDWR" := by decide

/-- no two flags of the traits are translated to the same constant (a swapped or duplicated row would make
    two different requests indistinguishable to the kernel) -/
theorem open_flags_injective : (openFlagReal.map (·.2)).Nodup := by decide

/-- The simulator's `Exit::exit` either stores the status as given (the state of /repo while divergence D18
    is open: `none`) or keeps its low 8 bits as the pivot's `Signal.exit` and a real kernel do (`some 255`) —
    any other mask fails here. -/
theorem exit_status_mask_known : exitStatusMask = none ∨ exitStatusMask = some 255 := by decide

end YashModel.Kernel
