/-
  C19 — the tie between the hand-written pivot and the *tables* of the two implementations of the system
  traits, re-extracted from /repo on every run into `Generated/KernelTables.lean`
  (tools/tables/kernel.py): the simulator's table of default signal actions (`SignalEffect::of`), the
  O_* constant the real side passes for each `OpenFlag` / `OfdAccess`, and the mask the simulator's
  `Exit::exit` applies to an exit status.  The quantifiers range over genuinely finite tables (24 signals,
  6 flags, 3 access modes), so `decide` is the proof; an edit of a Rust table re-checks it.
-/
import YashModel.Kernel.Model
import YashModel.Kernel.Signal
import YashModel.Generated.KernelTables
namespace YashModel.Kernel

open YashModel.Generated.KernelTables

def lookupS : List (String × String) → String → Option String
  | [], _ => none
  | (k, v) :: r, x => if k = x then some v else lookupS r x

namespace Signal

/-- the variant of `yash_env::signal::Name` that names the pivot's signal -/
def Sig.rustName : Sig → String
  | .HUP => "Hup" | .INT => "Int" | .QUIT => "Quit" | .ILL => "Ill" | .TRAP => "Trap" | .ABRT => "Abrt"
  | .BUS => "Bus" | .FPE => "Fpe" | .KILL => "Kill" | .USR1 => "Usr1" | .SEGV => "Segv" | .USR2 => "Usr2"
  | .PIPE => "Pipe" | .ALRM => "Alrm" | .TERM => "Term" | .CHLD => "Chld" | .URG => "Urg" | .XCPU => "Xcpu"
  | .XFSZ => "Xfsz" | .VTALRM => "Vtalrm" | .PROF => "Prof" | .WINCH => "Winch" | .IO => "Io" | .SYS => "Sys"

/-- ★ For every signal of the pivot the simulator's `SignalEffect::of` has a row; the row says "none" exactly
    for the signals the pivot discards by default (CHLD, URG, WINCH), and otherwise "terminate" (with or
    without core dump) — never stop or continue, which the pivot does not model. -/
theorem default_actions_match_code (s : Sig) :
    ∃ e, lookupS signalEffect s.rustName = some e ∧
      (defaultIgnored s = true ↔ e = "none") ∧
      (defaultIgnored s = false ↔ (e = "terminate" ∨ e = "core")) := by
  cases s <;> exact ⟨_, rfl, by decide, by decide⟩

/-- the rows of the simulator's table that the pivot leaves out are exactly stop/continue signals, aliases and
    platform extras: every "suspend"/"resume" row is one of STOP TSTP TTIN TTOU CONT -/
theorem job_control_rows_outside_pivot :
    (signalEffect.filter (fun r => r.2 = "suspend" ∨ r.2 = "resume")).map (·.1) =
      ["Cont", "Stop", "Tstp", "Ttin", "Ttou"] := by decide

end Signal

/-- ★ The O_* constant `RealSystem` hands to the kernel for each flag the pivot models is its namesake (the
    pivot's `create` is O_CREAT, `excl` O_EXCL, `trunc` O_TRUNC, `append` O_APPEND, `cloexec` O_CLOEXEC,
    `directory` O_DIRECTORY), and the three access modes are O_RDONLY / O_WRONLY / O_RDWR. -/
theorem open_flags_match_code :
    lookupS openFlagReal "Create" = some "O_CREAT" ∧ lookupS openFlagReal "Exclusive" = some "O_EXCL" ∧
    lookupS openFlagReal "Truncate" = some "O_TRUNC" ∧ lookupS openFlagReal "Append" = some "O_APPEND" ∧
    lookupS openFlagReal "CloseOnExec" = some "O_CLOEXEC" ∧ lookupS openFlagReal "Directory" = some "O_DIRECTORY" ∧
    lookupS accessReal "ReadOnly" = some "O_RDONLY" ∧ lookupS accessReal "WriteOnly" = some "O_WRONLY" ∧
    lookupS accessReal "ReadWrite" = some "O_RDWR" := by decide

/-- no two flags of the traits are translated to the same constant (a swapped or duplicated row would make
    two different requests indistinguishable to the kernel) -/
theorem open_flags_injective : (openFlagReal.map (·.2)).Nodup := by decide

/-- The simulator's `Exit::exit` either stores the status as given (the state of /repo while divergence D18
    is open: `none`) or keeps its low 8 bits as the pivot's `Signal.exit` and a real kernel do (`some 255`) —
    any other mask fails here. -/
theorem exit_status_mask_known : exitStatusMask = none ∨ exitStatusMask = some 255 := by decide

/-- ★ Now that D18 is fixed the mask is demanded, not only reported: the simulator's `Exit::exit` keeps exactly
    the bits the pivot's `Signal.exit` keeps — `status & 0xFF` = `n % 256` for every status. -/
theorem exit_status_mask_is_8bit :
    exitStatusMask = some 255 ∧
    ∀ (p : Signal.Proc) (n : Nat), p.alive = true → (Signal.exit p n).status = .exited (n &&& 255) := by
  refine ⟨by decide, ?_⟩
  intro p n h
  have : n &&& 255 = n % 256 := Nat.and_two_pow_sub_one_eq_mod n 8
  simp [Signal.exit, h, this]

/-! ## what a forked child takes from its parent -/

/-- How the pivots treat each field of the simulator's `struct Process` at a fork.  `inherit`: the child has
    the parent's value (`Signal.fork`: mask and dispositions; working directory, file creation mask, limits and
    descriptors are what the subshell fragments of the shell leg compare); `fresh`: the child starts with the
    value of a new process (`Signal.fork`: no pending signal, nothing recorded as caught, running);
    `unobserved`: nothing C19 compares depends on it. -/
def forkPolicy : List (String × String) :=
  [("blocked_signals", "inherit"), ("dispositions", "inherit"), ("fds", "inherit"), ("umask", "inherit"),
   ("cwd", "inherit"), ("resource_limits", "inherit"), ("pgid", "inherit"),
   ("pending_signals", "fresh"), ("caught_signals", "fresh"), ("caught_signals_count", "fresh"),
   ("state", "fresh"), ("state_has_changed", "fresh"), ("ppid", "fresh"),
   ("uid", "unobserved"), ("euid", "unobserved"), ("gid", "unobserved"), ("egid", "unobserved"),
   ("resumption_awaiters", "unobserved"), ("signal_wakers", "unobserved"), ("last_exec", "unobserved")]

/-- ★ `Process::fork_from`, as re-read from /repo on every run, copies exactly what the pivots say a child
    inherits: every field of `struct Process` is classified (a new field must be classified before the check
    passes), every `inherit` field is taken from the parent — signal mask, dispositions, descriptors, working
    directory, file creation mask, resource limits (divergences D8-D10 were three of these missing) — and no
    `fresh` field is: in particular not the pending signals and not the record of caught signals (the seeded
    round-2 change `..parent.clone()` made the child inherit both). -/
theorem fork_inheritance_matches_code :
    (∀ f, f ∈ processFields → (lookupS forkPolicy f).isSome = true) ∧
    (∀ f, f ∈ processFields → lookupS forkPolicy f = some "inherit" → f ∈ forkInherited) ∧
    (∀ f, f ∈ processFields → lookupS forkPolicy f = some "fresh" → f ∉ forkInherited) ∧
    (∀ f, f ∈ forkInherited → f ∈ processFields) ∧
    (∀ r, r ∈ forkPolicy → r.1 ∈ processFields) := by decide

/-- the rows of the policy that `Signal.fork` implements, stated of the pivot itself -/
theorem fork_policy_is_what_the_pivot_does (p : Signal.Proc) :
    lookupS forkPolicy "blocked_signals" = some "inherit" ∧ (Signal.fork p).mask = p.mask ∧
    lookupS forkPolicy "dispositions" = some "inherit" ∧ (Signal.fork p).disp = p.disp ∧
    lookupS forkPolicy "pending_signals" = some "fresh" ∧ (Signal.fork p).pending = Signal.Proc.init.pending ∧
    lookupS forkPolicy "caught_signals" = some "fresh" ∧ (Signal.fork p).caught = Signal.Proc.init.caught ∧
    lookupS forkPolicy "state" = some "fresh" ∧ (Signal.fork p).status = Signal.Proc.init.status :=
  ⟨by decide, rfl, by decide, rfl, by decide, rfl, by decide, rfl, by decide, rfl⟩

end YashModel.Kernel
