/-
  C19 — symbolic links in path resolution (`Kernel/Symlink.lean`).
-/
import YashModel.Kernel.Symlink
import YashModel.Kernel.Lemmas
namespace YashModel.Kernel

/-- ★ Conservative extension: without links the walk is `resolve` — every law of the link-free pivot is a law of
    the walk on a tree without links (given fuel beyond the number of components; the budget plays no role). -/
theorem lwalk_without_links (t : Tree) (ff : Bool) : ∀ (comps : List String) (cur : Path) (fuel budget : Nat),
    comps.length < fuel → lwalk t [] ff fuel budget cur comps = resolve t cur comps := by
  intro comps
  induction comps with
  | nil =>
    intro cur fuel budget h
    cases fuel with
    | zero => simp at h
    | succ f => simp [lwalk, resolve]
  | cons c rest ih =>
    intro cur fuel budget h
    cases fuel with
    | zero => simp at h
    | succ f =>
      have hf : rest.length < f := by simpa using h
      cases rest with
      | nil =>
        have hf1 : f = (f - 1) + 1 := by omega
        simp only [lwalk, resolve, finalStep, linkAt, List.isEmpty_nil, if_true]
        by_cases h1 : c = "" ∨ c = "."
        · simp only [h1, if_true]; rw [hf1]; simp [lwalk]
        · by_cases h2 : c = ".."
          · simp only [h2, if_true]; rw [hf1]; simp [lwalk]
          · simp [h1, h2]
      | cons c' cs =>
        rw [resolve]
        simp only [lwalk, linkAt, stepDir]
        by_cases h1 : c = "" ∨ c = "."
        · simp only [h1, if_true]; exact ih cur f budget hf
        · by_cases h2 : c = ".."
          · simp only [h2, if_true]; exact ih _ f budget hf
          · simp only [h1, h2, if_false, List.isEmpty_cons, Bool.false_eq_true]
            cases existing t (cur ++ [c])
            · rfl
            · rfl
            · exact ih _ f budget hf

/-- ★ A link that points to itself is ELOOP for every call that follows it, whatever the budget — never a hang,
    never success. -/
theorem link_loop_is_eloop (t : Tree) (ls : Links) (cur : Path) (c : String)
    (h1 : c ≠ "") (h2 : c ≠ ".") (h3 : c ≠ "..") (hl : linkAt ls (cur ++ [c]) = some [c]) :
    ∀ fuel budget, lwalk t ls true fuel budget cur [c] = .error .ELOOP := by
  intro fuel
  induction fuel with
  | zero => intro budget; rfl
  | succ f ih =>
    intro budget
    simp only [lwalk, h1, h2, h3, false_or, if_false, hl, List.isEmpty_nil, Bool.not_true, Bool.and_false,
      Bool.false_eq_true]
    by_cases hb : budget = 0
    · simp [hb]
    · simp only [hb, if_false, List.append_nil]; exact ih _

/-- ★ Which calls follow a link in the final component.  `lstat` (`fstatat` without follow) reports the link
    itself; `open` with O_CREAT|O_EXCL answers EEXIST on a link whatever it points to — a dangling link included;
    but with a trailing slash, or as a non-final component, the link is followed by everybody. -/
theorem final_link_rules (t : Tree) (ls : Links) (cur : Path) (c : String) (tgt : List String) (fuel budget : Nat)
    (h1 : c ≠ "") (h2 : c ≠ ".") (h3 : c ≠ "..") (hl : linkAt ls (cur ++ [c]) = some tgt) :
    lstatKind t ls false (fuel + 1) budget cur [c] = .ok .lnk ∧
    (∀ f : Flags, f.create = true → f.excl = true → lopenTarget t ls f (fuel + 1) budget cur [c] = .error .EEXIST) ∧
    (∀ ff rest, rest ≠ [] → budget ≠ 0 →
      lwalk t ls ff (fuel + 1) budget cur (c :: rest) = lwalk t ls ff fuel (budget - 1) cur (tgt ++ rest)) := by
  have hw : lwalk t ls false (fuel + 1) budget cur [c] = .ok (cur ++ [c]) := by
    simp [lwalk, h1, h2, h3, hl]
  refine ⟨?_, ?_, ?_⟩
  · simp [lstatKind, hw, kindAt, hl]
  · intro f hc hx
    simp [lopenTarget, hc, hx, hw, hl]
  · intro ff rest hr hb
    have : rest.isEmpty = false := by cases rest <;> simp_all
    simp [lwalk, h1, h2, h3, hl, this, hb]

/-- the tree and the links of the shell leg's link fragments: `lnkf -> f1`, `lnkd -> d1`, `lnkloop -> lnkloop`,
    `lnkbad -> nofile` -/
def exLinks : Links := [(["lnkf"], ["f1"]), (["lnkd"], ["d1"]), (["lnkloop"], ["lnkloop"]), (["lnkbad"], ["nofile"])]
def exLTree : Tree := [([], .dir 493), (["f1"], .reg 420 []), (["d1"], .dir 493), (["d1", "dd"], .dir 493)]

example :
    lstatKind exLTree exLinks true 50 40 [] ["lnkf"] = .ok .reg ∧ lstatKind exLTree exLinks false 50 40 [] ["lnkf"] = .ok .lnk ∧
    lwalk exLTree exLinks true 50 40 [] ["lnkd", "dd"] = .ok ["d1", "dd"] ∧
    lwalk exLTree exLinks false 50 40 [] ["lnkd", ""] = .ok ["d1"] ∧
    lwalk exLTree exLinks true 50 40 [] ["lnkf", ""] = .error .ENOTDIR ∧
    lwalk exLTree exLinks true 50 40 [] ["lnkloop"] = .error .ELOOP ∧
    lstatKind exLTree exLinks true 50 40 [] ["lnkbad"] = .error .ENOENT ∧
    lstatKind exLTree exLinks false 50 40 [] ["lnkbad"] = .ok .lnk ∧
    lopenTarget exLTree exLinks { create := true } 50 40 [] ["lnkbad"] = .ok ["nofile"] ∧
    lopenTarget exLTree exLinks { create := true, excl := true } 50 40 [] ["lnkbad"] = .error .EEXIST ∧
    lopenTarget exLTree exLinks {} 50 40 [] ["lnkf"] = .ok ["f1"] := by
  refine ⟨rfl, rfl, rfl, rfl, rfl, rfl, rfl, rfl, rfl, rfl, rfl⟩

example : linkAt exLinks ([] ++ ["lnkloop"]) = some ["lnkloop"] ∧ linkAt exLinks ([] ++ ["lnkbad"]) = some ["nofile"] :=
  ⟨rfl, rfl⟩

end YashModel.Kernel
