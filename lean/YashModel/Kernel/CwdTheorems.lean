/-
  C19 — the working directory and the directories of the tree, end to end over `step` / `run`
  (`Kernel/Step.lean`): in every state the driver can reach the working directory is the canonical path of an
  existing directory, whatever the operands of the `chdir`s that led there looked like (`d1/`, `./d1`,
  `d1//dd`, `d1/dd/..`), and `chdir` is a uniform walk over the components.
-/
import YashModel.Kernel.CwdLemmas
import YashModel.Kernel.StepTheorems
namespace YashModel.Kernel

/-! ## the invariant -/

/-- the bookkeeping entries are no directories, and the working directory is the canonical path (ordinary
    names only) of an existing directory -/
structure CwdInv (k : K) : Prop where
  noBk : NoBk k.tree
  isDir : existing k.tree k.cwd = .dir
  canon : Canon k.cwd

theorem inv_of_treeStep {k k' : K} (h : CwdInv k) (hs : TreeStep k k') :
    CwdInv k' ∧ SameDirs k.tree k'.tree := by
  have sd := treeStep_sameDirs hs
  refine ⟨⟨noBk_sameDirs h.noBk sd, ?_, ?_⟩, sd⟩
  · rw [hs.1]; exact (sd _).mpr h.isDir
  · rw [hs.1]; exact h.canon

theorem chdir_ok {k k' : K} {comps : List String} {u : Unit} (ho : chdir k comps = .ok u k') :
    ∃ p, resolve k.tree k.cwd comps = .ok p ∧ existing k.tree p = .dir ∧ k' = { k with cwd := p } := by
  unfold chdir at ho
  split at ho
  · simp at ho
  · rename_i p hr
    split at ho
    · simp at ho
    · simp at ho
    · rename_i hd
      injection ho with h1 h2
      exact ⟨p, hr, hd, h2.symm⟩

theorem inv_step (k : K) (op : Op) (h : CwdInv k) :
    CwdInv (step k op).1 ∧ SameDirs k.tree (step k op).1.tree := by
  have same : CwdInv k ∧ SameDirs k.tree k.tree := ⟨h, sameDirs_refl _⟩
  cases op <;> simp only [step]
  case «open» p a f m =>
    split
    · exact same
    · split
      · rename_i hk
        exact inv_of_treeStep h (ts_open (openT_ok hk))
      · exact same
  case read fd n => split; (rename_i hk; exact inv_of_treeStep h (ts_readAny hk)); exact same
  case write fd bs => split; (rename_i hk; exact inv_of_treeStep h (ts_writeAny hk)); exact same
  case seek fd w d =>
    split
    · rename_i hk; exact inv_of_treeStep h (ts_seekAny hk)
    · rename_i hk; exact inv_of_treeStep h (ts_seekAny hk)
    · exact same
  case dup fd min c => split; (rename_i hk; exact inv_of_treeStep h (ts_dup hk)); exact same
  case dup2 a b => split; (rename_i hk; exact inv_of_treeStep h (ts_dup2 hk)); exact same
  case close fd => exact inv_of_treeStep h ⟨rfl, Or.inl rfl⟩
  case getfd fd => split <;> exact same
  case setfd fd c => split; (rename_i hk; exact inv_of_treeStep h (ts_setfd hk)); exact same
  case chdir p =>
    split
    · exact same
    · split
      · rename_i hk
        obtain ⟨q, hr, hd, he⟩ := chdir_ok hk
        subst he
        exact ⟨⟨h.noBk, hd, canon_resolve _ _ _ _ h.canon hr⟩, sameDirs_refl _⟩
      · exact same
  case umask m => exact inv_of_treeStep h ⟨rfl, Or.inl rfl⟩
  case fstat fd => split <;> exact same
  case stat p => split; exact same; split <;> exact same
  case ls p => split; exact same; split <;> exact same
  case cwd => exact same
  case acc fd => split <;> exact same
  case pipe => split; (rename_i hk; exact inv_of_treeStep h (ts_pipe h.noBk hk)); exact same
  case nb fd => split; (rename_i hk; exact inv_of_treeStep h (ts_setNonblock hk)); exact same
  case rlim => exact same
  case fill fd => split; (rename_i hk; exact inv_of_treeStep h (ts_fillPipe hk)); exact same
  case sel fd w => split <;> exact same
  case tmp => split; (rename_i hk; exact inv_of_treeStep h (ts_tmpfile h.noBk hk)); exact same
  case isx p => split <;> exact same

theorem inv_run (ops : List Op) : ∀ (k : K), CwdInv k →
    CwdInv (run k ops).2 ∧ SameDirs k.tree (run k ops).2.tree := by
  induction ops with
  | nil => intro k h; exact ⟨h, sameDirs_refl _⟩
  | cons op ops ih =>
    intro k h
    obtain ⟨h1, s1⟩ := inv_step k op h
    obtain ⟨h2, s2⟩ := ih _ h1
    exact ⟨h2, sameDirs_trans s1 s2⟩

/-- ★ No operation sequence of the case language adds or removes a directory: in every reachable state the
    directories are exactly those of the initial state (the System traits offer no mkdir/rmdir/rename, and no
    `open` — with whatever flags, through whatever path — turns a directory into a file or creates one). -/
theorem dirs_never_change (k0 : K) (h0 : CwdInv k0) (ops : List Op) (p : Path) :
    existing (run k0 ops).2.tree p = .dir ↔ existing k0.tree p = .dir :=
  (inv_run ops k0 h0).2 p

/-- ★ The working directory is canonical in every reachable state: after any sequence of operations —
    `chdir`s with operands through `.`, `..`, doubled and trailing slashes included, failed ones included —
    it is a list of ordinary names (no empty component, no `.`, no `..`) that names a directory, and that
    directory already existed in the initial state. -/
theorem cwd_canonical_run (k0 : K) (h0 : CwdInv k0) (ops : List Op) :
    Canon (run k0 ops).2.cwd ∧ existing (run k0 ops).2.tree (run k0 ops).2.cwd = .dir ∧
    existing k0.tree (run k0 ops).2.cwd = .dir := by
  obtain ⟨h, s⟩ := inv_run ops k0 h0
  exact ⟨h.canon, h.isDir, (s _).mp h.isDir⟩

theorem path_obs_is_cwd (k : K) (op : Op) (p : Path) (h : (step k op).2 = .path p) : p = k.cwd := by
  cases op <;> simp only [step] at h <;> (repeat' split at h) <;> simp_all

/-- ★ … and so is every answer `getcwd` gives anywhere in a case: each `.path p` among the observations of a
    run is a canonical path of a directory of the initial tree. -/
theorem cwd_answers_canonical (ops : List Op) : ∀ (k0 : K), CwdInv k0 → ∀ o, o ∈ (run k0 ops).1 →
    ∀ p, o = .path p → Canon p ∧ existing k0.tree p = .dir := by
  induction ops with
  | nil => intro k0 _ o ho; simp [run] at ho
  | cons op ops ih =>
    intro k0 h0 o ho p hp
    simp only [run, List.mem_cons] at ho
    rcases ho with ho | ho
    · subst ho
      have := path_obs_is_cwd k0 op p hp
      subst this
      exact ⟨h0.canon, h0.isDir⟩
    · obtain ⟨h1, s1⟩ := inv_step k0 op h0
      obtain ⟨c, d⟩ := ih _ h1 o ho p hp
      exact ⟨c, (s1 _).mp d⟩

/-! ## `chdir` as a uniform walk -/

/-- the path must name a directory -/
def dirCheck (t : Tree) (p : Path) : Except Errno Path :=
  match existing t p with
  | .missing => .error .ENOENT
  | .reg => .error .ENOTDIR
  | .dir => .ok p

/-- Specification of the target of `chdir`: every component is treated alike — an empty component or `.`
    stays, `..` goes to the parent, a name must be a directory of the directory reached so far (ENOENT if
    missing, ENOTDIR if a regular file) — and the place reached at the end must be a directory. -/
def walkTo (t : Tree) : Path → List String → Except Errno Path
  | cur, [] => dirCheck t cur
  | cur, c :: cs =>
    if c = "" ∨ c = "." then walkTo t cur cs
    else if c = ".." then walkTo t cur.dropLast cs
    else match existing t (cur ++ [c]) with
      | .missing => .error .ENOENT
      | .reg => .error .ENOTDIR
      | .dir => walkTo t (cur ++ [c]) cs

theorem resolve_check_walkTo (t : Tree) : ∀ (comps : List String) (cur : Path),
    (match resolve t cur comps with
     | .error e => .error e
     | .ok p => dirCheck t p) = walkTo t cur comps := by
  intro comps
  induction comps with
  | nil => intro cur; simp [resolve, walkTo]
  | cons c cs ih =>
    intro cur
    cases cs with
    | nil =>
      simp only [resolve, walkTo, finalStep]
      by_cases h1 : c = "" ∨ c = "."
      · simp [h1]
      · by_cases h2 : c = ".."
        · simp [h2]
        · simp only [h1, h2, if_false]
          cases he : existing t (cur ++ [c]) <;> simp [dirCheck, he]
    | cons c' cs' =>
      rw [resolve, walkTo]
      by_cases h1 : c = "" ∨ c = "."
      · simp only [stepDir, h1, if_true]; exact ih cur
      · by_cases h2 : c = ".."
        · subst h2; simp only [stepDir, if_true]; exact ih _
        · simp only [stepDir, h1, h2, if_false]
          cases he : existing t (cur ++ [c])
          · rfl
          · rfl
          · exact ih _

/-- ★ `chdir` is that walk: it fails with the walk's errno and changes nothing, or moves the working directory
    to where the walk ends — never to the operand as written. -/
theorem chdir_is_walk (k : K) (comps : List String) :
    chdir k comps = match walkTo k.tree k.cwd comps with
      | .error e => .err e
      | .ok p => .ok () { k with cwd := p } := by
  rw [← resolve_check_walkTo]
  unfold chdir
  cases resolve k.tree k.cwd comps with
  | error e => rfl
  | ok p => simp only [dirCheck]; cases existing k.tree p <;> rfl

/-- the operand without its empty and `.` components: `d1//dd/./` ↦ `d1/dd` -/
def dropDots (comps : List String) : List String := comps.filter fun c => !(c == "" || c == ".")

theorem walkTo_dropDots (t : Tree) : ∀ (comps : List String) (cur : Path),
    walkTo t cur (dropDots comps) = walkTo t cur comps := by
  intro comps
  induction comps with
  | nil => intro cur; rfl
  | cons c cs ih =>
    intro cur
    by_cases h1 : c = "" ∨ c = "."
    · have : dropDots (c :: cs) = dropDots cs := by
        rcases h1 with h | h <;> subst h <;> simp [dropDots]
      rw [this, walkTo, if_pos h1]; exact ih cur
    · have h1' : ¬ c = "" ∧ ¬ c = "." := ⟨fun e => h1 (Or.inl e), fun e => h1 (Or.inr e)⟩
      have : dropDots (c :: cs) = c :: dropDots cs := by simp [dropDots, h1'.1, h1'.2]
      rw [this, walkTo, walkTo]
      simp only [h1, if_false]
      split
      · exact ih _
      · cases existing t (cur ++ [c]) <;> simp only [ih]

/-- ★ Trailing slashes, doubled slashes and `.` components of the operand make no difference at all to
    `chdir`: same errno, or the very same resulting state — `chdir d1/`, `chdir ./d1`, `chdir d1/.//` all do
    what `chdir d1` does.  (The seeded round-7 change stored the operand as written in these cases.) -/
theorem chdir_ignores_dot_and_slash (k : K) (comps : List String) :
    chdir k (dropDots comps) = chdir k comps := by
  rw [chdir_is_walk, chdir_is_walk, walkTo_dropDots]

theorem walkTo_append (t : Tree) (b : List String) : ∀ (a : List String) (cur p : Path),
    walkTo t cur a = .ok p → walkTo t cur (a ++ b) = walkTo t p b := by
  intro a
  induction a with
  | nil =>
    intro cur p h
    simp only [walkTo, dirCheck] at h
    split at h <;> simp at h
    subst h; rfl
  | cons c cs ih =>
    intro cur p h
    rw [List.cons_append, walkTo]
    rw [walkTo] at h
    split
    · rename_i h1; rw [if_pos h1] at h; exact ih _ _ h
    · rename_i h1
      rw [if_neg h1] at h
      split
      · rename_i h2; rw [if_pos h2] at h; exact ih _ _ h
      · rename_i h2
        rw [if_neg h2] at h
        cases he : existing t (cur ++ [c]) <;> rw [he] at h
        · simp at h
        · simp at h
        · exact ih _ _ h

/-- ★ Two directory changes in a row are one change to the concatenated operand: if `chdir a` succeeds, then
    `chdir b` afterwards answers and ends exactly as `chdir a/b` from the start would have. -/
theorem chdir_compose (k k1 : K) (a b : List String) (h : chdir k a = .ok () k1) :
    (match chdir k1 b with | .ok _ k2 => some k2.cwd | .err _ => none) =
    (match chdir k (a ++ b) with | .ok _ k2 => some k2.cwd | .err _ => none) ∧
    (∀ e, chdir k1 b = .err e ↔ chdir k (a ++ b) = .err e) := by
  rw [chdir_is_walk] at h
  cases hw : walkTo k.tree k.cwd a with
  | error e => rw [hw] at h; simp at h
  | ok p =>
    rw [hw] at h
    injection h with _ h; subst h
    rw [chdir_is_walk, chdir_is_walk, walkTo_append _ b a _ _ hw]
    cases walkTo k.tree p b with
    | error e => exact ⟨rfl, fun e' => by simp⟩
    | ok q => exact ⟨rfl, fun e' => by simp⟩

/-- ★ Down and up again: from a state whose working directory is a directory, `chdir name` followed by
    `chdir ..` is back where it started (the simulator once stored `cwd/name/..` — divergence D5). -/
theorem chdir_parent_returns (k k1 : K) (name : String) (hd : existing k.tree k.cwd = .dir)
    (h1 : name ≠ "") (h2 : name ≠ ".") (h3 : name ≠ "..")
    (h : chdir k [name] = .ok () k1) : chdir k1 [".."] = .ok () k := by
  have hc := chdir_compose k k1 [name] [".."] h
  rw [chdir_is_walk] at h
  have hw : walkTo k.tree k.cwd [name] = .ok (k.cwd ++ [name]) := by
    cases hx : walkTo k.tree k.cwd [name] with
    | error e => rw [hx] at h; simp at h
    | ok p =>
      simp only [walkTo, h1, h2, h3, false_or, if_false, dirCheck] at hx
      cases he : existing k.tree (k.cwd ++ [name]) <;> rw [he] at hx <;> simp at hx
      rw [← hx]
  rw [hw] at h
  injection h with _ h; subst h
  rw [chdir_is_walk]
  simp [walkTo, dirCheck, hd]

/-! ## non-vacuity -/

/-- the root, `d`, `d/e` are directories, `f` a regular file; the working directory is `d` -/
def exKd : K :=
  { tree := [([], .dir 493), (["d"], .dir 493), (["d", "e"], .dir 493), (["f"], .reg 420 []),
             (["..std", "0"], .reg 420 [])],
    ofds := [], fds := fun _ => none, limit := 8, umask := 18, cwd := ["d"] }

theorem exKd_inv : CwdInv exKd := by
  refine ⟨?_, by decide, ?_⟩
  · intro name
    simp only [exKd, existing, lookup]
    by_cases h : "0" = name <;> simp [h]
  · intro c hc
    simp only [exKd, List.mem_singleton] at hc
    subst hc; decide

example : (run exKd [.chdir ["e", ""], .cwd, .chdir [".", "..", "", "e", "."], .cwd, .chdir ["..", "..", "f"], .cwd]).1 =
    [.ok, .path ["d", "e"], .ok, .path ["d", "e"], .err .ENOTDIR, .path ["d", "e"]] := by decide

example : ∃ k1, chdir exKd ["e"] = .ok () k1 ∧ chdir k1 [".."] = .ok () exKd := ⟨_, rfl, rfl⟩

example : dropDots ["d1", "", "dd", ".", ""] = ["d1", "dd"] := by decide

end YashModel.Kernel
