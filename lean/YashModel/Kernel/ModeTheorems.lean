/-
  C19 — the file creation mask, bit by bit and end to end over `step` (`Kernel/Step.lean`): which permission
  bits a file created by `open(…, O_CREAT, mode)` gets, and that `stat` reports exactly those.
-/
import YashModel.Kernel.CwdTheorems
namespace YashModel.Kernel

/-- ★ The mode of a created file, bit by bit: bit `i` is set exactly when it is one of the nine permission
    bits, the caller asked for it and the file creation mask does not have it.  (Higher bits of the request
    — set-id, sticky, file type — and higher bits of the mask play no role.) -/
theorem create_mode_bits (mode umask i : Nat) :
    (createMode mode umask).testBit i = (decide (i < 9) && mode.testBit i && !umask.testBit i) := by
  unfold createMode
  have h : umask % 512 < 2 ^ 9 := Nat.mod_lt _ (by decide)
  have e : 511 - umask % 512 = 2 ^ 9 - (umask % 512 + 1) := by omega
  rw [Nat.testBit_and, e, Nat.testBit_two_pow_sub_succ h, show (512 : Nat) = 2 ^ 9 from rfl,
    Nat.testBit_mod_two_pow, Nat.testBit_mod_two_pow]
  cases decide (i < 9) <;> simp

/-- no bit of the mask survives in a created file's mode, and nothing is added to the request -/
theorem create_mode_masked (mode umask : Nat) :
    createMode mode umask &&& umask = 0 ∧ createMode mode umask &&& mode = createMode mode umask ∧
    createMode mode umask < 512 := by
  refine ⟨?_, ?_, ?_⟩
  · apply Nat.eq_of_testBit_eq; intro i
    rw [Nat.testBit_and, create_mode_bits]
    cases umask.testBit i <;> simp
  · apply Nat.eq_of_testBit_eq; intro i
    rw [Nat.testBit_and, create_mode_bits]
    cases mode.testBit i <;> simp
  · unfold createMode
    exact Nat.lt_of_le_of_lt Nat.and_le_left (Nat.mod_lt _ (by decide))

/-- a successful resolution only looks at directories: it is the same in a tree with the same directories -/
theorem resolve_sameDirs {t t' : Tree} (hs : SameDirs t t') : ∀ (comps : List String) (cur p : Path),
    resolve t cur comps = .ok p → resolve t' cur comps = .ok p := by
  intro comps
  induction comps with
  | nil => intro cur p h; exact h
  | cons c cs ih =>
    intro cur p h
    cases cs with
    | nil => exact h
    | cons c' cs' =>
      rw [resolve] at h ⊢
      split at h
      · simp at h
      · rename_i cur' hstep
        have : stepDir t' cur c = .ok cur' := by
          unfold stepDir at hstep ⊢
          split
          · rename_i h1; rw [if_pos h1] at hstep; exact hstep
          · rename_i h1
            rw [if_neg h1] at hstep
            split
            · rename_i h2; rw [if_pos h2] at hstep; exact hstep
            · rename_i h2
              rw [if_neg h2] at hstep
              cases he : existing t (cur ++ [c]) <;> rw [he] at hstep
              · simp at hstep
              · simp at hstep
              · rw [(hs _).mpr he]; exact hstep
        rw [this]
        exact ih cur' p h

/-- ★ The file creation mask end to end, as the driver computes it: `open` with O_CREAT of a path that
    resolves to a missing name (a free descriptor, no trailing slash) succeeds, and `stat` of the same path
    right afterwards reports an empty regular file whose mode is `mode & ~umask & 0777` — with the mask in force
    at that moment, whatever earlier `umask` calls set it to; `umask` itself answers the previous mask and
    keeps the nine low bits of its argument. -/
theorem umask_applies_to_created_file (k : K) (p : List String) (q : Path) (a : Access) (f : Flags) (m : Nat)
    (hg : guarded k p = false) (hfd : allocFd k 0 ≠ none) (hr : resolve k.tree k.cwd p = .ok q)
    (hm : existing k.tree q = .missing) (hc : f.create = true) (hs : slashAfterName p = false) :
    (∃ fd k', step k (.open p a f m) = (k', .num fd) ∧
      (step k' (.stat p)).2 = .node (.reg (createMode m k.umask) []) ∧ k'.umask = k.umask) ∧
    (∀ u, step k (.umask u) = ({ k with umask := u % 512 }, .num k.umask)) := by
  refine ⟨?_, fun u => rfl⟩
  cases ha : allocFd k 0 with
  | none => exact absurd ha hfd
  | some fd =>
    generalize hk' : installFd k (insert k.tree q (.reg (createMode m k.umask) [])) fd q a f = k'
    have ho : open' k p a f m = .ok fd k' := by
      simp [open', ha, hr, hm, openOutcome, hc, hk']
    have hcwd : k'.cwd = k.cwd := by subst hk'; rfl
    have htree : k'.tree = insert k.tree q (.reg (createMode m k.umask) []) := by subst hk'; rfl
    have hum : k'.umask = k.umask := by subst hk'; rfl
    refine ⟨fd, k', by simp [step, hg, openT, hs, ho], ?_, hum⟩
    have hg' : guarded k' p = false := by simpa [guarded, hcwd] using hg
    have hsd : SameDirs k.tree (insert k.tree q (.reg (createMode m k.umask) [])) :=
      sameDirs_insert_reg _ _ _ _ (by simp [hm])
    have hr' : resolve k'.tree k'.cwd p = .ok q := by
      rw [htree, hcwd]; exact resolve_sameDirs hsd p k.cwd q hr
    have hl : lookup k'.tree q = some (.reg (createMode m k.umask) []) := by rw [htree, lookup_insert_self]
    simp [step, hg', statPath, hr', hl]

example : (run exKd [.umask 0o27, .open ["new"] .w { create := true } 0o666, .stat ["new"], .umask 0o1777,
    .open ["e", "..", "x"] .w { create := true, excl := true } 0o7777, .stat ["x"]]).1 =
    [.num 18, .num 0, .node (.reg 0o640 []), .num 0o27, .num 1, .node (.reg 0 [])] := by decide

example : guarded exKd ["new"] = false ∧ allocFd exKd 0 ≠ none ∧ resolve exKd.tree exKd.cwd ["new"] = .ok ["d", "new"] ∧
    existing exKd.tree ["d", "new"] = .missing ∧ slashAfterName ["new"] = false :=
  ⟨by decide, by decide, rfl, by decide, by decide⟩

end YashModel.Kernel
