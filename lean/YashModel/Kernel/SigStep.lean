/-
  C19 pivot, process/signal half: the typed operation language of the `P` cases and the functions the
  driver runs (`sstep` for one operation of one process, `runChild` for the body of a `fork[…]`).
  `Kernel/Main.lean` only parses tokens into `SOp` and prints `SObs`.

  Import-free and executable.
-/
import YashModel.Kernel.Signal
namespace YashModel.Kernel.Signal

inductive SOp where
  | blk (l : List Sig) | unb (l : List Sig) | set (l : List Sig)
  | act (s : Sig) (d : Disp) | get (s : Sig)
  | raise (s : Sig) | kgrp (s : Sig) | kpar (s : Sig)
  | pend | mask | caught
  | exit (n : Nat)
  /-- `kill(pid, s)` (`s = none`: signal 0, the existence test) where `pid` is the most recent child, whose
      termination `wait` has already reported -/
  | klast (s : Option Sig)
  | bad

inductive SObs where
  | ok
  | disp (d : Disp)
  /-- a set of signals, listed in the order of `Sig.all` -/
  | sigs (l : List Sig)
  | unknown
  /-- ESRCH: no such process -/
  | esrch
  deriving DecidableEq, Repr

def listOf (a : SigSet) : List Sig := Sig.all.filter a

/-- one operation of process `me`; `par` is its parent while `me` is a forked child (`none` at top
    level).  New (`me`, `par`) and what the operation answers (`none`: it does not return — the process
    was terminated by the signal, or exited). -/
def sstep (me : Proc) (par : Option Proc) : SOp → Proc × Option Proc × Option SObs
  | .blk l => let p := block me l; (p, par, if p.alive then some .ok else none)
  | .unb l => let p := unblock me l; (p, par, if p.alive then some .ok else none)
  | .set l => let p := setMask me (SigSet.ofList l); (p, par, if p.alive then some .ok else none)
  | .act s d => ((act me s d).2, par, some (.disp (act me s d).1))
  | .get s => (me, par, some (.disp (me.disp s)))
  | .raise s => let p := generate me s; (p, par, if p.alive then some .ok else none)
  | .kgrp s => let p := generate me s; (p, par.map (generate · s), if p.alive then some .ok else none)
  | .kpar s => (me, par.map (generate · s), some .ok)
  | .pend => (me, par, some (.sigs (listOf me.pending)))
  | .mask => (me, par, some (.sigs (listOf me.mask)))
  | .caught => ((takeCaught me).2, par, some (.sigs (listOf (SigSet.ofList (takeCaught me).1))))
  | .exit n => (exit me n, par, none)
  | .klast _ => (me, par, some (if me.reaped = 0 then .unknown else .esrch))
  | .bad => (me, par, some .unknown)

/-- the operations of a child, from the states (`c`, `p`) of child and parent; stops when the child is gone -/
def childOps : Proc → Proc → List SOp → Proc × Proc × List SObs
  | c, p, [] => (c, p, [])
  | c, p, op :: ops =>
    if !c.alive then (c, p, [])
    else
      let r := sstep c (some p) op
      let rest := childOps r.1 (r.2.1.getD p) ops
      (rest.1, rest.2.1, match r.2.2 with | some o => o :: rest.2.2 | none => rest.2.2)

/-- `fork[ops]`: the child starts as `fork par`, runs its operations, exits with 0 if it is still there;
    the parent then gets SIGCHLD and `wait`s for it (one more reaped child).  Result: parent afterwards, the child's answers, the child's status. -/
def runChild (par : Proc) (ops : List SOp) : Proc × List SObs × Status :=
  let r := childOps (fork par) par ops
  ({ generate r.2.1 .CHLD with reaped := r.2.1.reaped + 1 }, r.2.2, (exit r.1 0).status)

end YashModel.Kernel.Signal
