/-
  C19 — lemmas for `LsTheorems.lean`.
-/
import YashModel.Kernel.Lemmas
namespace YashModel.Kernel

theorem lookup_ne_none_iff (t : Tree) (q : Path) : lookup t q ≠ none ↔ ∃ n, (q, n) ∈ t := by
  induction t with
  | nil => simp [lookup]
  | cons hd tl ih =>
    obtain ⟨q', n'⟩ := hd
    by_cases h : q' = q
    · subst h; simp [lookup]
    · simp only [lookup, h, if_false, List.mem_cons, Prod.mk.injEq]
      rw [ih]
      constructor
      · rintro ⟨n, hn⟩; exact ⟨n, Or.inr hn⟩
      · rintro ⟨n, hn | hn⟩
        · exact absurd hn.1.symm h
        · exact ⟨n, hn⟩

theorem mem_dedup (a : String) : ∀ l : List String, a ∈ dedup l ↔ a ∈ l := by
  intro l
  induction l with
  | nil => simp [dedup]
  | cons b l ih =>
    unfold dedup
    split
    · rename_i hb
      rw [ih, List.mem_cons]
      constructor
      · exact Or.inr
      · rintro (h | h)
        · subst h; exact ih.mp hb
        · exact h
    · rw [List.mem_cons, List.mem_cons, ih]

theorem nodup_dedup : ∀ l : List String, (dedup l).Nodup := by
  intro l
  induction l with
  | nil => simp [dedup]
  | cons b l ih =>
    unfold dedup
    split
    · exact ih
    · rename_i hb
      exact List.nodup_cons.mpr ⟨hb, ih⟩

theorem mem_children (t : Tree) (p : Path) (name : String) :
    name ∈ children t p ↔ ∃ n, (p ++ [name], n) ∈ t := by
  unfold children
  rw [mem_dedup, List.mem_filterMap]
  constructor
  · rintro ⟨⟨q, n⟩, hmem, hq⟩
    simp only at hq
    split at hq
    · rename_i hc
      obtain ⟨ys, hys⟩ := List.getLast?_eq_some_iff.mp hq
      subst hys
      have hl : ys.length = p.length := by simpa using hc.1
      have ht : ys = p := by
        have := hc.2
        rwa [← hl, List.take_left'] at this
        rfl
      subst ht
      exact ⟨n, hmem⟩
    · simp at hq
  · rintro ⟨n, hmem⟩
    refine ⟨(p ++ [name], n), hmem, ?_⟩
    simp

end YashModel.Kernel
