/-
  C19 — directory listing (`opendir` / `readdir` / `closedir`, the `ls` operation of the driver).
-/
import YashModel.Kernel.StepTheorems
import YashModel.Kernel.LsLemmas
namespace YashModel.Kernel

/-- ★ `opendir` + `readdir` to the end + `closedir` (F14's statement): a listing that succeeds names exactly
    the entries of the directory the path resolves to — every name bound directly below it, nothing else, each name once (no
    entry of a subdirectory, no `.`/`..` pseudo-entries to filter) —; it needs a free descriptor while it runs
    (EMFILE before any path error when the table is full) and leaves none behind: the state after the
    operation, descriptor table included, is the state before, whether it succeeded or failed. -/
theorem ls_lists_exactly_the_children (k : K) (comps : List String) :
    (∀ names, listDir k comps = .ok names →
      ∃ p, resolve k.tree k.cwd comps = .ok p ∧ existing k.tree p = .dir ∧
        (∀ name, name ∈ names ↔ lookup k.tree (p ++ [name]) ≠ none) ∧ names.Nodup) ∧
    (allocFd k 0 = none → listDir k comps = .error .EMFILE) ∧
    (step k (.ls comps)).1 = k := by
  refine ⟨?_, ?_, ?_⟩
  · intro names h
    unfold listDir at h
    split at h
    · simp at h
    · split at h
      · simp at h
      · rename_i p hr
        split at h
        · simp at h
        · simp at h
        · rename_i hd
          injection h with h; subst h
          exact ⟨p, hr, hd, fun name => by rw [mem_children, lookup_ne_none_iff], by unfold children; exact nodup_dedup _⟩
  · intro h; simp [listDir, h]
  · simp only [step]
    split
    · rfl
    · split <;> rfl

example : listDir exKpath ["a"] = .ok ["foo"] ∧ listDir exKpath [] = .ok ["a", "b", "c"] ∧
    listDir exKpath ["b", "foo"] = .error .ENOTDIR ∧ listDir { exKpath with limit := 0 } ["nodir"] = .error .EMFILE :=
  ⟨rfl, rfl, rfl, rfl⟩

end YashModel.Kernel
