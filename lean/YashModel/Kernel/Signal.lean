/-
  C19 pivot, process/signal half: an executable POSIX/Linux model of what the shell relies on when it
  blocks, catches, ignores and sends signals and forks (`Sigmask::sigmask`, `Sigaction::sigaction`,
  `GetSigaction`, `SendSignal::{kill, raise}`, `CaughtSignals`, `Fork::run_in_child_process`, `Wait::wait`,
  `Exit::exit` of yash-env, plus `sigpending`).

  Like `Kernel/Model.lean` this is the third party of the comparison VirtualSystem / real kernel / pivot,
  not a transcription of `yash-env/src/system/virtual/process.rs`.  Scope: the standard signals whose
  default action is to terminate (HUP INT QUIT ILL TRAP ABRT BUS FPE USR1 SEGV USR2 PIPE ALRM TERM XCPU XFSZ
  VTALRM PROF IO SYS, sent with kill/raise only — no faults), CHLD URG WINCH (default action: ignore) and
  KILL (sent only); no stop/continue
  signals, no real-time signals, no core dumps; one level of fork (a child does not fork).
  Where POSIX leaves a choice the pivot does what Linux does and says so.

  Import-free and executable.
-/
namespace YashModel.Kernel.Signal

/-- in increasing Linux signal number (1-15, 17, 23-29, 31): the order in which Linux delivers
    several pending signals that become unblocked at once -/
inductive Sig where
  | HUP | INT | QUIT | ILL | TRAP | ABRT | BUS | FPE | KILL | USR1 | SEGV | USR2 | PIPE | ALRM | TERM
  | CHLD | URG | XCPU | XFSZ | VTALRM | PROF | WINCH | IO | SYS
  deriving DecidableEq, Repr, Inhabited

def Sig.all : List Sig :=
  [.HUP, .INT, .QUIT, .ILL, .TRAP, .ABRT, .BUS, .FPE, .KILL, .USR1, .SEGV, .USR2, .PIPE, .ALRM, .TERM,
   .CHLD, .URG, .XCPU, .XFSZ, .VTALRM, .PROF, .WINCH, .IO, .SYS]

def Sig.name : Sig → String
  | .HUP => "HUP"
  | .INT => "INT"
  | .QUIT => "QUIT"
  | .ILL => "ILL"
  | .TRAP => "TRAP"
  | .ABRT => "ABRT"
  | .BUS => "BUS"
  | .FPE => "FPE"
  | .KILL => "KILL"
  | .USR1 => "USR1"
  | .SEGV => "SEGV"
  | .USR2 => "USR2"
  | .PIPE => "PIPE"
  | .ALRM => "ALRM"
  | .TERM => "TERM"
  | .CHLD => "CHLD"
  | .URG => "URG"
  | .XCPU => "XCPU"
  | .XFSZ => "XFSZ"
  | .VTALRM => "VTALRM"
  | .PROF => "PROF"
  | .WINCH => "WINCH"
  | .IO => "IO"
  | .SYS => "SYS"

/-- signals whose default action is to ignore the signal -/
def defaultIgnored : Sig → Bool
  | .CHLD => true | .URG => true | .WINCH => true | _ => false

inductive Disp where
  | dfl | ign | catch
  deriving DecidableEq, Repr, Inhabited

inductive Status where
  | running
  | exited (n : Nat)
  | signaled (s : Sig)
  deriving DecidableEq, Repr, Inhabited

abbrev SigSet := Sig → Bool

def SigSet.empty : SigSet := fun _ => false
def SigSet.insert (a : SigSet) (s : Sig) : SigSet := fun x => if x = s then true else a x
def SigSet.erase (a : SigSet) (s : Sig) : SigSet := fun x => if x = s then false else a x
def SigSet.ofList (l : List Sig) : SigSet := fun x => l.contains x

structure Proc where
  mask : SigSet
  pending : SigSet
  disp : Sig → Disp
  /-- signals recorded by the catching handler and not yet collected by `caught_signals` (a set: the
      handler of `RealSystem` records a signal once until it is collected) -/
  caught : List Sig
  status : Status
  /-- number of children whose termination `wait` has already reported: their process ids no longer name
      any process (`kill` answers ESRCH) -/
  reaped : Nat := 0

def Proc.init : Proc :=
  { mask := SigSet.empty, pending := SigSet.empty, disp := fun _ => .dfl, caught := [], status := .running }

def Proc.alive (p : Proc) : Bool := p.status = .running

/-- the signal would be discarded on delivery -/
def ignoredNow (p : Proc) (s : Sig) : Bool :=
  match p.disp s with
  | .ign => true
  | .dfl => defaultIgnored s
  | .catch => false

/-- delivery of an unblocked signal to a running process -/
def deliver (p : Proc) (s : Sig) : Proc :=
  match p.disp s with
  | .catch => { p with caught := if p.caught.contains s then p.caught else p.caught ++ [s] }
  | .ign => p
  | .dfl => if defaultIgnored s then p else { p with status := .signaled s }

/-- a signal is generated for the process (`kill`, `raise`, SIGCHLD from a terminating child).
    A blocked signal stays pending — on Linux also when its disposition is to ignore it.  SIGKILL can be
    neither blocked, caught nor ignored: it terminates the process at once. -/
def generate (p : Proc) (s : Sig) : Proc :=
  if !p.alive then p
  else if s = .KILL then { p with status := .signaled .KILL }
  else if p.mask s then { p with pending := p.pending.insert s }
  else deliver p s

/-- delivery of the pending signals that are no longer blocked, lowest signal number first; stops
    when the process is terminated -/
def flushList (p : Proc) : List Sig → Proc
  | [] => p
  | s :: r =>
    if p.alive && p.pending s && !p.mask s then
      flushList (deliver { p with pending := p.pending.erase s } s) r
    else flushList p r

def flush (p : Proc) : Proc := flushList p Sig.all

/-- `sigprocmask(SIG_SETMASK, m)` (SIG_BLOCK / SIG_UNBLOCK are computed by the caller) -/
def setMask (p : Proc) (m : SigSet) : Proc := flush { p with mask := m }

def block (p : Proc) (l : List Sig) : Proc := setMask p (fun x => p.mask x || l.contains x)
def unblock (p : Proc) (l : List Sig) : Proc := setMask p (fun x => p.mask x && !l.contains x)

/-- `sigaction(s, d)`: returns the previous disposition.  Setting a disposition under which the signal
    is ignored (SIG_IGN, or SIG_DFL for a signal whose default action is to ignore) discards a pending
    instance of the signal, blocked or not (POSIX 2.4.3). -/
def act (p : Proc) (s : Sig) (d : Disp) : Disp × Proc :=
  let p1 : Proc := { p with disp := fun x => if x = s then d else p.disp x }
  (p.disp s, if ignoredNow p1 s then { p1 with pending := p1.pending.erase s } else p1)

/-- `caught_signals()`: returns and clears the record -/
def takeCaught (p : Proc) : List Sig × Proc := (p.caught, { p with caught := [] })

/-- the child created by `fork`: same signal mask, same dispositions, EMPTY set of pending signals,
    nothing recorded as caught, running -/
def fork (p : Proc) : Proc :=
  { mask := p.mask, pending := SigSet.empty, disp := p.disp, caught := [], status := .running }

/-- `_exit(n)`: the kernel keeps the low 8 bits of the status — that is all `wait` can report -/
def exit (p : Proc) (n : Nat) : Proc := if p.alive then { p with status := .exited (n % 256) } else p

end YashModel.Kernel.Signal
