/-
  C19 — lemmas for `FifoTheorems.lean`.
-/
import YashModel.Kernel.Pipe
import YashModel.Kernel.Lemmas
namespace YashModel.Kernel

theorem pipeEndOpen_of (k : K) (p : Path) (wr : Bool) (fd i : Nat) (o : Ofd) (hlt : fd < k.limit)
    (hg : getOfd k fd = some (i, o)) (hp : o.pipe = true) (hpath : o.path = p)
    (hdir : (if wr then o.wr else o.rd) = true) : pipeEndOpen k p wr = true := by
  unfold pipeEndOpen
  rw [List.any_eq_true]
  refine ⟨fd, List.mem_range.mpr hlt, ?_⟩
  simp [hg, hp, hpath, hdir]

theorem getOfd_updOfd_ne {k : K} {fd i j : Nat} {o o' : Ofd} (t : Tree) (h : getOfd k fd = some (i, o)) (hij : i ≠ j) :
    getOfd { (updOfd k j o') with tree := t } fd = some (i, o) := by
  obtain ⟨e, he, hi, ho⟩ := getOfd_some h
  subst hi
  simp [getOfd, updOfd, he, List.getElem?_set_ne (Ne.symm hij), ho]

end YashModel.Kernel
