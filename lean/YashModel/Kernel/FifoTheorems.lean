/-
  C19 — pipes are first-in first-out, end to end over the driver's `step` (`Kernel/Step.lean`).
-/
import YashModel.Kernel.StepTheorems
import YashModel.Kernel.PipeLemmas
namespace YashModel.Kernel

/-- ★ Pipes are first-in first-out, end to end over the driver's `step`: a write of `bs` to the write end of a
    pipe that still holds the unread bytes `c.drop off` is accepted in full, and the next read of up to `n` bytes
    from the read end returns the first `n` bytes of `c.drop off ++ bs` — the older bytes first, then the new
    ones, in the order written — and advances the read position by what it returned. -/
theorem pipe_fifo (k : K) (r w ir iw m n : Nat) (ro wo : Ofd) (c bs : Bytes)
    (hr : getOfd k r = some (ir, ro)) (hw : getOfd k w = some (iw, wo)) (hrl : r < k.limit)
    (hrp : ro.pipe = true) (hrr : ro.rd = true) (hwp : wo.pipe = true) (hww : wo.wr = true) (hwa : wo.app = true)
    (hsame : ro.path = wo.path) (hne : ir ≠ iw) (hfull : wo.full = false)
    (hl : lookup k.tree wo.path = some (.reg m c)) (hoff : ro.off ≤ c.length) (hbs : bs ≠ []) (hn : 0 < n) :
    ∃ k1 k2, step k (.write w bs) = (k1, .num bs.length) ∧
      step k1 (.read r n) = (k2, .bytes ((c.drop ro.off ++ bs).take n)) ∧
      getOfd k2 r = some (ir, { ro with off := ro.off + ((c.drop ro.off ++ bs).take n).length }) := by
  have hopen : pipeEndOpen k wo.path false = true :=
    pipeEndOpen_of k wo.path false r ir ro hrl hr hrp hsame (by simpa using hrr)
  have hbe : bs.isEmpty = false := by cases bs <;> simp_all
  have hw1 : writeAny k w bs = .ok bs.length
      { (updOfd k iw { wo with off := c.length + bs.length }) with tree := insert k.tree wo.path (.reg m (c ++ bs)) } := by
    simp [writeAny, hw, hwp, hww, hopen, hfull, write, hl, hbe, writePos, hwa, writeAt_end]
  generalize hk1 : ({ (updOfd k iw { wo with off := c.length + bs.length }) with
      tree := insert k.tree wo.path (.reg m (c ++ bs)) } : K) = k1 at hw1
  have hr1 : getOfd k1 r = some (ir, ro) := by subst hk1; exact getOfd_updOfd_ne _ hr hne
  have hl1 : lookup k1.tree ro.path = some (.reg m (c ++ bs)) := by
    subst hk1; rw [hsame]; exact lookup_insert_self _ _ _
  have hrd : readAt (c ++ bs) ro.off n = (c.drop ro.off ++ bs).take n := by
    simp [readAt, List.drop_append_of_le_length hoff]
  have hnonempty : ((c.drop ro.off ++ bs).take n).isEmpty = false := by
    cases bs with
    | nil => exact absurd rfl hbs
    | cons b bs' =>
      cases n with
      | zero => omega
      | succ n' => cases c.drop ro.off <;> simp
  have hn0 : n ≠ 0 := by omega
  have hr2 : readAny k1 r n = .ok ((c.drop ro.off ++ bs).take n)
      (updOfd k1 ir { ro with off := ro.off + ((c.drop ro.off ++ bs).take n).length }) := by
    simp [readAny, hr1, hrp, hrr, hl1, hrd, hnonempty, read, hn0]
  exact ⟨k1, _, by simp [step, hw1], by simp [step, hr2], getOfd_updOfd hr1⟩

/-- descriptors 3/4 = a fresh pipe on top of `exK1`-like state -/
example : (run { exK1 with fds := fun n => if n < 3 then some ⟨0, false⟩ else none }
    [.pipe, .write 4 [1, 2, 3], .read 3 2, .write 4 [4, 5], .read 3 8, .read 3 1, .close 4, .read 3 1]).1 =
    [.pair 3 4, .num 3, .bytes [1, 2], .num 2, .bytes [3, 4, 5], .err .EAGAIN, .ok, .bytes []] := by decide

/-- ★ The remaining readiness rules of a pipe, over the driver's `step`.  Reading an EMPTY pipe (nothing unread
    at the read position, a request for at least one byte): EAGAIN exactly while some descriptor is open on the
    write end, end-of-file (zero bytes) exactly when none is — never end-of-file while a writer exists.  Writing:
    EPIPE exactly when no descriptor is open on the read end (a full pipe included); with a reader, a full pipe
    answers EAGAIN. -/
theorem pipe_blocking_rules (k : K) (fd i m n : Nat) (o : Ofd) (c bs : Bytes)
    (hg : getOfd k fd = some (i, o)) (hp : o.pipe = true)
    (hl : lookup k.tree o.path = some (.reg m c)) :
    (o.rd = true → 0 < n → readAt c o.off n = [] →
      ((step k (.read fd n)).2 = .err .EAGAIN ↔ pipeEndOpen k o.path true = true) ∧
      ((step k (.read fd n)).2 = .bytes [] ↔ pipeEndOpen k o.path true = false)) ∧
    (o.wr = true →
      ((step k (.write fd bs)).2 = .err .EPIPE ↔ pipeEndOpen k o.path false = false) ∧
      (pipeEndOpen k o.path false = true → o.full = true → (step k (.write fd bs)).2 = .err .EAGAIN)) := by
  refine ⟨?_, ?_⟩
  · intro hr hn he
    have hn0 : n ≠ 0 := by omega
    cases hw : pipeEndOpen k o.path true
    · simp [step, readAny, hg, hp, hr, hl, hn0, he, hw, read]
    · simp [step, readAny, hg, hp, hr, hl, hn0, he, hw]
  · intro hw
    cases hrd : pipeEndOpen k o.path false
    · simp [step, writeAny, hg, hp, hw, hrd]
    · refine ⟨?_, ?_⟩
      · simp only [Bool.true_eq_false, iff_false]
        cases hf : o.full
        · simp only [step, writeAny, hg, hp, hw, hrd, hf, write, hl]
          by_cases hb : bs.isEmpty <;> simp [hb]
        · simp [step, writeAny, hg, hp, hw, hrd, hf]
      · intro _ hf
        simp [step, writeAny, hg, hp, hw, hrd, hf]

example : (run { exK1 with fds := fun n => if n < 3 then some ⟨0, false⟩ else none }
    [.pipe, .read 3 1, .close 4, .read 3 1, .pipe, .close 4, .write 5 [1]]).1 =
    [.pair 3 4, .err .EAGAIN, .ok, .bytes [], .pair 4 5, .ok, .err .EPIPE] := by decide

end YashModel.Kernel
