/-
  C19 — end-to-end theorems about `step` / `run` (`Kernel/Step.lean`), i.e. about exactly what the driver
  computes for the model column of a system-call case.
-/
import YashModel.Kernel.Step
import YashModel.Kernel.Theorems
import YashModel.Kernel.PipeTheorems
namespace YashModel.Kernel

/-! ## `openT` (what `step` runs) and `open'` (what the laws of Theorems.lean are about) -/

/-- a successful `openT` is a successful `open'`: the trailing-slash rule only ever adds failures -/
theorem openT_ok {k k' : K} {comps : List String} {acc : Access} {f : Flags} {mode fd : Nat}
    (h : openT k comps acc f mode = .ok fd k') : open' k comps acc f mode = .ok fd k' := by
  unfold openT at h
  split at h
  · split at h
    · simp at h
    · split at h <;> simp at h
  · exact h

/-- … and away from O_CREAT-through-a-trailing-slash the two are the same function, so every law about
    `open'` is a law about what the driver computes -/
theorem openT_agrees_with_open (k : K) (comps : List String) (acc : Access) (f : Flags) (mode : Nat)
    (h : (f.create && slashAfterName comps) = false) : openT k comps acc f mode = open' k comps acc f mode := by
  simp [openT, h]

/-! ## a failing operation has no effect -/

/-- ★ Whatever the operation and the state: if the answer is an errno (ENOENT, EISDIR, EEXIST, EMFILE,
    EBADF, EPIPE, …, or the harness's ESCAPE) the state is exactly the state before.  In particular a
    failed `open` creates and truncates nothing, and a `pipe()` that fails with EMFILE after its first
    descriptor could have been allocated leaves no descriptor behind. -/
theorem failed_step_changes_nothing (k : K) (op : Op) (e : Errno) (h : (step k op).2 = .err e) :
    (step k op).1 = k := by
  cases op <;> simp only [step] at h ⊢ <;> (repeat' split) <;> simp_all

/-- the seeded pipe change as a statement: `pipe()` answering EMFILE leaves the descriptor table alone -/
theorem failed_pipe_leaves_no_descriptor (k : K) (e : Errno) (h : (step k .pipe).2 = .err e) :
    e = .EMFILE ∧ ∀ fd, (step k .pipe).1.fds fd = k.fds fd := by
  have h1 := failed_step_changes_nothing k .pipe e h
  refine ⟨?_, fun fd => by rw [h1]⟩
  simp only [step] at h
  split at h
  · simp at h
  · rename_i e' he
    have := (pipe_two_lowest k).2 e' he
    simp at h
    exact h ▸ this

example : (step { exK1 with limit := 2 } .pipe).2 = .err .EMFILE := rfl

/-! ## append mode, end to end (also after another descriptor truncated the file) -/

theorem getOfd_installFd {k : K} {a i fd : Nat} {o : Ofd} (t : Tree) (p : Path) (acc : Access) (f : Flags)
    (hg : getOfd k a = some (i, o)) (hfree : k.fds fd = none) :
    getOfd (installFd k t fd p acc f) a = some (i, o) := by
  obtain ⟨e, he, hi, ho⟩ := getOfd_some hg
  have hne : a ≠ fd := by intro h; subst h; simp [hfree] at he
  have hlt : i < k.ofds.length := (List.getElem?_eq_some_iff.mp ho).1
  subst hi
  simp [getOfd, installFd, setFd, hne, he, List.getElem?_append_left hlt, ho]

theorem open_keeps_other_descriptors {k k' : K} {comps : List String} {acc : Access} {f : Flags}
    {mode fd a i : Nat} {o : Ofd} (ho : open' k comps acc f mode = .ok fd k')
    (hg : getOfd k a = some (i, o)) : getOfd k' a = some (i, o) := by
  have hfree := (open_lowest_fd k k' comps acc f mode fd ho).1
  unfold open' at ho
  split at ho
  · simp at ho
  · split at ho
    · simp at ho
    · split at ho
      all_goals try (simp at ho; done)
      all_goals try (injection ho with h1 h2; subst h1 h2; exact getOfd_installFd _ _ _ _ hg hfree)
      split at ho <;> (injection ho with h1 h2; subst h1 h2; exact getOfd_installFd _ _ _ _ hg hfree)

/-- ★ What the driver computes for a write through an O_APPEND descriptor: all bytes are accepted and the
    file becomes `c ++ bs`, whatever offset the description had — it may be far beyond the end, e.g. because
    another descriptor truncated the file in between. -/
theorem step_append_write (k : K) (a i m : Nat) (o : Ofd) (c bs : Bytes)
    (hg : getOfd k a = some (i, o)) (hw : o.wr = true) (happ : o.app = true) (hp : o.pipe = false)
    (hl : lookup k.tree o.path = some (.reg m c)) (hne : bs ≠ []) :
    ∃ k', step k (.write a bs) = (k', .num bs.length) ∧
      lookup k'.tree o.path = some (.reg m (c ++ bs)) ∧
      getOfd k' a = some (i, { o with off := c.length + bs.length }) := by
  obtain ⟨k', h1, h2, h3⟩ := append_writes_at_end k a i m o c bs hg hw happ hl hne
  exact ⟨k', by simp [step, writeAny, hg, hp, h1], h2, h3⟩

/-- ★ The stale-offset scenario as one statement about two driver steps: a second `open` with O_TRUNC
    empties the file; the next write through the older O_APPEND descriptor — whose offset still is where
    it was — lands at offset 0: the file is exactly the bytes just written. -/
theorem append_after_truncate (k : K) (a i m : Nat) (o : Ofd) (c bs : Bytes)
    (comps : List String) (acc : Access) (f : Flags) (mode : Nat)
    (hg : getOfd k a = some (i, o)) (hw : o.wr = true) (happ : o.app = true) (hp : o.pipe = false)
    (hl : lookup k.tree o.path = some (.reg m c)) (hne : bs ≠ [])
    (hesc : guarded k comps = false) (hfd : allocFd k 0 ≠ none)
    (hr : resolve k.tree k.cwd comps = .ok o.path)
    (hcx : (f.create && f.excl) = false) (hd : f.directory = false) (ht : f.trunc = true)
    (hsl : (f.create && slashAfterName comps) = false) :
    ∃ fd k1 k2, step k (.open comps acc f mode) = (k1, .num fd) ∧
      step k1 (.write a bs) = (k2, .num bs.length) ∧
      lookup k2.tree o.path = some (.reg m bs) := by
  obtain ⟨fd, k1, ho, hl1⟩ := open_trunc k comps acc f mode m o.path c hfd hr hl hcx hd ht
  have hg1 := open_keeps_other_descriptors ho hg
  obtain ⟨k2, hs, hl2, _⟩ := step_append_write k1 a i m o [] bs hg1 hw happ hp hl1 hne
  refine ⟨fd, k1, k2, by simp [step, hesc, openT_agrees_with_open k comps acc f mode hsl, ho], hs, by simpa using hl2⟩

example : ∃ fd k1 k2, step exK4 (.open ["f"] .w { trunc := true } 0) = (k1, .num fd) ∧
    step k1 (.write 0 [9]) = (k2, .num 1) ∧ lookup k2.tree ["f"] = some (.reg 420 [9]) :=
  ⟨_, _, _, rfl, rfl, rfl⟩

/-! ## O_CREAT through a trailing slash -/

/-- ★ O_CREAT never creates through a trailing slash: for a path `pre/name/` (one or more slashes, `name`
    an ordinary name) `open` with O_CREAT fails whatever `name` is — missing, a regular file or a directory —
    and whatever the other flags are (O_EXCL included); when a descriptor is free and the directories `pre`
    exist the error is EISDIR; and the driver's state is unchanged: no file `name` comes into being. -/
theorem create_trailing_slash_never_creates (k : K) (pre : List String) (name : String) (n : Nat)
    (acc : Access) (f : Flags) (mode : Nat) (hc : f.create = true)
    (h1 : name ≠ "") (h2 : name ≠ ".") (h3 : name ≠ "..") :
    (∃ e, openT k (pre ++ name :: List.replicate (n + 1) "") acc f mode = .err e) ∧
    (∀ d, allocFd k 0 ≠ none → walkDirs k.tree k.cwd pre = .ok d →
      openT k (pre ++ name :: List.replicate (n + 1) "") acc f mode = .err .EISDIR) ∧
    (step k (.open (pre ++ name :: List.replicate (n + 1) "") acc f mode)).1 = k := by
  obtain ⟨hd, hs⟩ := slashAfterName_shape pre name n h1 h2 h3
  have hex : ∃ e, openT k (pre ++ name :: List.replicate (n + 1) "") acc f mode = .err e := by
    unfold openT
    simp only [hc, hs, Bool.and_self, if_true]
    split
    · exact ⟨_, rfl⟩
    · split <;> exact ⟨_, rfl⟩
  refine ⟨hex, ?_, ?_⟩
  · intro d hfd hw
    unfold openT
    simp only [hc, hs, Bool.and_self, if_true]
    cases ha : allocFd k 0 with
    | none => exact absurd ha hfd
    | some fd =>
      have hr : resolve k.tree k.cwd (pre ++ [name]) = .ok (finalStep d name) := by
        rw [resolve_walk k.tree pre k.cwd d name [] hw]; rfl
      simp [hd, hr]
  · obtain ⟨e, he⟩ := hex
    simp only [step]
    split
    · rfl
    · simp [he]

example : (step exK1 (.open ["new", ""] .w { create := true } 420)).2 = .err .EISDIR ∧
    (step exK1 (.open ["f", ""] .w { create := true, excl := true } 420)).2 = .err .EISDIR ∧
    (step exK1 (.open ["new", ""] .w {} 420)).2 = .err .ENOENT ∧
    (step exK1 (.open ["f", ""] .r {} 0)).2 = .err .ENOTDIR := ⟨rfl, rfl, rfl, rfl⟩



theorem resolve_empties (t : Tree) (cur : Path) : ∀ m : Nat, resolve t cur (List.replicate (m + 1) "") = .ok cur := by
  intro m
  induction m with
  | zero => simp [resolve, finalStep]
  | succ m ih =>
    rw [List.replicate_succ, List.replicate_succ, resolve]
    simp only [stepDir, true_or, if_true]
    rw [← List.replicate_succ]
    exact ih

/-- ★ A trailing slash demands a directory: for `pre/name/` (one or more slashes, `name` an ordinary name,
    the directories `pre` existing) path resolution answers ENOENT when `name` is missing, ENOTDIR when it is
    a regular file, and the directory itself when it is one — this is what `open` without O_CREAT, `stat`,
    `chdir` and `opendir` see for such a path. -/
theorem trailing_slash_demands_directory (t : Tree) (cwd d : Path) (pre : List String) (name : String) (n : Nat)
    (hw : walkDirs t cwd pre = .ok d) (h1 : name ≠ "") (h2 : name ≠ ".") (h3 : name ≠ "..") :
    resolve t cwd (pre ++ name :: List.replicate (n + 1) "") =
      match existing t (d ++ [name]) with
      | .missing => .error .ENOENT
      | .reg => .error .ENOTDIR
      | .dir => .ok (d ++ [name]) := by
  rw [resolve_walk t pre cwd d name _ hw, List.replicate_succ, resolve]
  simp only [stepDir, h1, h2, h3, false_or, if_false]
  cases existing t (d ++ [name]) with
  | missing => rfl
  | reg => rfl
  | dir =>
    simp only
    rw [← List.replicate_succ]
    exact resolve_empties t _ n

example : resolve [([], .dir 493), (["f"], .reg 420 []), (["d"], .dir 493)] [] ["f", ""] = .error .ENOTDIR ∧
    resolve [([], .dir 493), (["f"], .reg 420 []), (["d"], .dir 493)] [] ["d", "", ""] = .ok ["d"] ∧
    resolve [([], .dir 493), (["f"], .reg 420 []), (["d"], .dir 493)] [] ["new", ""] = .error .ENOENT := ⟨rfl, rfl, rfl⟩


/-! ## the close-on-exec flag of every new descriptor -/

theorem tmpfile_no_cloexec (k k' : K) (fd : Nat) (h : tmpfile k = .ok fd k') :
    k.fds fd = none ∧ (∀ m, m < fd → k.fds m ≠ none) ∧ fd < k.limit ∧
    k'.fds fd = some { ofd := k.ofds.length, cloexec := false } ∧ (∀ n, n ≠ fd → k'.fds n = k.fds n) := by
  unfold tmpfile at h
  split at h
  · simp at h
  · rename_i n hn
    obtain ⟨_, h2, h3, h4⟩ := lowest_fd k 0 n hn
    injection h with h1 hk; subst h1 hk
    refine ⟨h3, fun m hm => h4 m (Nat.zero_le _) hm, h2, by simp [setFd], ?_⟩
    intro m hm; simp [setFd, hm]

theorem dup_sets_flag (k k' : K) (fd min n : Nat) (c : Bool) (h : dup k fd min c = .ok n k') :
    ∃ e, k.fds fd = some e ∧ k'.fds n = some { ofd := e.ofd, cloexec := c } ∧ min ≤ n ∧ k.fds n = none := by
  unfold dup at h
  split at h
  · simp at h
  · rename_i e he
    split at h
    · simp at h
    · split at h
      · simp at h
      · rename_i n' hn'
        obtain ⟨h1, _, h3, _⟩ := lowest_fd k min n' hn'
        injection h with ha hb; subst ha hb
        exact ⟨e, he, by simp [setFd], h1, h3⟩

theorem getfd_of_entry (k : K) (fd : Nat) (e : FdEntry) (h : k.fds fd = some e) :
    (step k (.getfd fd)).2 = .flag e.cloexec := by
  simp [step, getfd, h]

/-- ★ What `fcntl(F_GETFD)` answers right after each call that creates a descriptor, as the driver computes
    it: `open` — the O_CLOEXEC it was given; `open_tmpfile` (here-documents) — NOT set; `pipe` — not set on
    either end; `dup` (F_DUPFD / F_DUPFD_CLOEXEC) — as requested; `dup2` onto another descriptor — cleared. -/
theorem descriptor_creation_flags (k k' : K) :
    (∀ p a f m fd, step k (.open p a f m) = (k', .num fd) → (step k' (.getfd fd)).2 = .flag f.cloexec) ∧
    (∀ fd, step k .tmp = (k', .num fd) → (step k' (.getfd fd)).2 = .flag false) ∧
    (∀ r w, step k .pipe = (k', .pair r w) →
      (step k' (.getfd r)).2 = .flag false ∧ (step k' (.getfd w)).2 = .flag false) ∧
    (∀ src min c n, step k (.dup src min c) = (k', .num n) → (step k' (.getfd n)).2 = .flag c) ∧
    (∀ a b n, a ≠ b → step k (.dup2 a b) = (k', .num n) → (step k' (.getfd n)).2 = .flag false) := by
  refine ⟨?_, ?_, ?_, ?_, ?_⟩
  · intro p a f m fd h
    simp only [step] at h
    split at h
    · simp at h
    · split at h
      · rename_i fd' k'' ho
        injection h with h1 h2; subst h1; injection h2 with h2; subst h2
        exact getfd_of_entry _ _ _ (open_lowest_fd k _ p a f m _ (openT_ok ho)).2.2.2.1
      · simp at h
  · intro fd h
    simp only [step] at h
    split at h
    · rename_i fd' k'' ho
      injection h with h1 h2; subst h1; injection h2 with h2; subst h2
      exact getfd_of_entry _ _ _ (tmpfile_no_cloexec k _ _ ho).2.2.2.1
    · simp at h
  · intro r w h
    simp only [step] at h
    split at h
    · rename_i r' w' k'' ho
      injection h with h1 h2; subst h1
      injection h2 with hr hw; subst hr hw
      have hp := (pipe_two_lowest k).1 _ _ _ ho
      exact ⟨getfd_of_entry _ _ _ hp.2.2.2.2.2.2.1, getfd_of_entry _ _ _ hp.2.2.2.2.2.2.2.1⟩
    · simp at h
  · intro src min c n h
    simp only [step] at h
    split at h
    · rename_i n' k'' ho
      injection h with h1 h2; subst h1; injection h2 with h2; subst h2
      obtain ⟨e, _, he, _⟩ := dup_sets_flag k _ src min _ c ho
      exact getfd_of_entry _ _ _ he
    · simp at h
  · intro a b n hab h
    simp only [step] at h
    split at h
    · rename_i n' k'' ho
      injection h with h1 h2; subst h1; injection h2 with h2; subst h2
      have hl := dup2_laws k a b
      cases hfa : k.fds a with
      | none => rw [hl.1 hfa] at ho; simp at ho
      | some e =>
        by_cases hb : b < k.limit
        · obtain ⟨k2, h1, h2, _⟩ := hl.2.2.2 e hfa hb hab
          rw [h1] at ho
          injection ho with hn hk; subst hn hk
          exact getfd_of_entry _ _ _ h2
        · rw [hl.2.1 e hfa hab (by omega)] at ho; simp at ho
    · simp at h

example : ∃ k', step exK1 .tmp = (k', .num 1) ∧ (step k' (.getfd 1)).2 = .flag false := ⟨_, rfl, rfl⟩

/-! ## no dangling descriptors, in every reachable state -/

/-- every open descriptor is below the limit and refers to an existing open file description -/
def WF (k : K) : Prop :=
  ∀ fd e, k.fds fd = some e → fd < k.limit ∧ e.ofd < k.ofds.length

theorem wf_updOfd {k : K} (h : WF k) (i : Nat) (o : Ofd) : WF (updOfd k i o) := by
  intro fd e he
  have := h fd e he
  simpa [updOfd] using this

theorem wf_tree {k : K} (h : WF k) (t : Tree) : WF { k with tree := t } := h

theorem wf_setFd_lt {k : K} (h : WF k) (fd : Nat) (e : FdEntry) (ofds : List Ofd) (t : Tree)
    (hfd : fd < k.limit) (he : e.ofd < ofds.length) (hlen : k.ofds.length ≤ ofds.length) :
    WF { k with tree := t, ofds := ofds, fds := setFd k.fds fd (some e) } := by
  intro n x hx
  simp only [setFd] at hx
  split at hx
  · rename_i hn
    injection hx with hx; subst hx hn
    exact ⟨hfd, he⟩
  · have := h n x hx
    exact ⟨this.1, Nat.lt_of_lt_of_le this.2 hlen⟩

theorem wf_installFd {k : K} (h : WF k) (t : Tree) (fd : Nat) (p : Path) (acc : Access) (f : Flags)
    (hfd : fd < k.limit) : WF (installFd k t fd p acc f) := by
  unfold installFd
  exact wf_setFd_lt h fd _ _ t hfd (by simp) (by simp)

theorem wf_open {k k' : K} (h : WF k) {comps : List String} {acc : Access} {f : Flags} {mode fd : Nat}
    (ho : open' k comps acc f mode = .ok fd k') : WF k' := by
  unfold open' at ho
  split at ho
  · simp at ho
  · rename_i n hn
    have hlt := (lowest_fd k 0 n hn).2.1
    split at ho
    · simp at ho
    · split at ho
      all_goals try (simp at ho; done)
      all_goals try (injection ho with h1 h2; subst h2; exact wf_installFd h _ _ _ _ _ hlt)
      split at ho <;> (injection ho with h1 h2; subst h2; exact wf_installFd h _ _ _ _ _ hlt)

theorem wf_read {k k' : K} (h : WF k) {fd n : Nat} {bs : Bytes} (ho : read k fd n = .ok bs k') : WF k' := by
  unfold read at ho
  split at ho
  · simp at ho
  · split at ho
    · simp at ho
    · split at ho
      · injection ho with h1 h2; subst h2; exact wf_updOfd h _ _
      · simp at ho

theorem wf_write {k k' : K} (h : WF k) {fd n : Nat} {bs : Bytes} (ho : write k fd bs = .ok n k') : WF k' := by
  unfold write at ho
  split at ho
  · simp at ho
  · split at ho
    · simp at ho
    · split at ho
      · split at ho
        · injection ho with h1 h2; subst h2; exact h
        · injection ho with h1 h2; subst h2; exact wf_tree (wf_updOfd h _ _) _
      · simp at ho

theorem wf_seek {k k' : K} (h : WF k) {fd : Nat} {w : Whence} {d : Int} {r : Option Nat}
    (ho : seek k fd w d = .ok r k') : WF k' := by
  unfold seek at ho
  repeat' split at ho
  all_goals first
    | (simp at ho; done)
    | (injection ho with h1 h2; subst h2; first | exact h | exact wf_updOfd h _ _)
    | (dsimp only at ho
       split at ho
       · simp at ho
       · injection ho with h1 h2; subst h2; exact wf_updOfd h _ _)

theorem wf_readAny {k k' : K} (h : WF k) {fd n : Nat} {bs : Bytes} (ho : readAny k fd n = .ok bs k') : WF k' := by
  unfold readAny at ho
  split at ho
  · split at ho
    · split at ho
      · split at ho
        · injection ho with h1 h2; subst h2; exact h
        · split at ho
          · simp at ho
          · exact wf_read h ho
      · exact wf_read h ho
    · exact wf_read h ho
  · exact wf_read h ho

theorem wf_writeAny {k k' : K} (h : WF k) {fd n : Nat} {bs : Bytes} (ho : writeAny k fd bs = .ok n k') : WF k' := by
  unfold writeAny at ho
  split at ho
  · split at ho
    · simp at ho
    · split at ho
      · simp at ho
      · exact wf_write h ho
  · exact wf_write h ho

theorem wf_seekAny {k k' : K} (h : WF k) {fd : Nat} {w : Whence} {d : Int} {r : Option Nat}
    (ho : seekAny k fd w d = .ok r k') : WF k' := by
  unfold seekAny at ho
  split at ho
  · split at ho
    · simp at ho
    · exact wf_seek h ho
  · exact wf_seek h ho

theorem wf_dup {k k' : K} (h : WF k) {fd min n : Nat} {c : Bool} (ho : dup k fd min c = .ok n k') : WF k' := by
  unfold dup at ho
  split at ho
  · simp at ho
  · rename_i e he
    split at ho
    · simp at ho
    · split at ho
      · simp at ho
      · rename_i n' hn'
        injection ho with h1 h2; subst h2
        have hlt := (lowest_fd k min n' hn').2.1
        have heo := (h fd e he).2
        exact wf_setFd_lt h n' _ k.ofds k.tree hlt heo (Nat.le_refl _)

theorem wf_dup2 {k k' : K} (h : WF k) {a b n : Nat} (ho : dup2 k a b = .ok n k') : WF k' := by
  unfold dup2 at ho
  split at ho
  · simp at ho
  · rename_i e he
    split at ho
    · injection ho with h1 h2; subst h2; exact h
    · split at ho
      · simp at ho
      · rename_i hb
        injection ho with h1 h2; subst h2
        have heo := (h a e he).2
        exact wf_setFd_lt h b _ k.ofds k.tree (by omega) heo (Nat.le_refl _)

theorem wf_setfd {k k' : K} (h : WF k) {fd : Nat} {c : Bool} {u : Unit} (ho : setfd k fd c = .ok u k') : WF k' := by
  unfold setfd at ho
  split at ho
  · simp at ho
  · rename_i e he
    injection ho with h1 h2; subst h2
    have := h fd e he
    exact wf_setFd_lt h fd _ k.ofds k.tree this.1 this.2 (Nat.le_refl _)

theorem wf_chdir {k k' : K} (h : WF k) {p : List String} {u : Unit} (ho : chdir k p = .ok u k') : WF k' := by
  unfold chdir at ho
  split at ho
  · simp at ho
  · split at ho
    · simp at ho
    · simp at ho
    · injection ho with h1 h2; subst h2; exact h

theorem wf_pipe {k k' : K} (h : WF k) {r w : Nat} (ho : pipe' k = .ok (r, w) k') : WF k' := by
  have hp := (pipe_two_lowest k).1 r w k' ho
  obtain ⟨_, _, hrw, hwl, _⟩ := hp
  unfold pipe' at ho
  split at ho
  · simp at ho
  · simp only at ho
    split at ho
    · simp at ho
    · rename_i r0 hr0 _ w0 hw0
      injection ho with h1 h2
      injection h1 with hr hw
      subst hr hw h2
      intro n x hx
      simp only [setFd] at hx
      by_cases hnw : n = w0
      · simp [hnw] at hx; subst hx; subst hnw; exact ⟨hwl, by simp⟩
      · by_cases hnr : n = r0
        · have hrw' : r0 ≠ w0 := by omega
          subst hnr
          simp [hrw'] at hx; subst hx; exact ⟨by show n < k.limit; omega, by simp⟩
        · simp only [hnw, hnr, if_false] at hx
          have := h n x hx
          exact ⟨this.1, by simp; omega⟩

theorem wf_setNonblock {k k' : K} (h : WF k) {fd : Nat} {b r : Bool} (ho : setNonblock k fd b = .ok r k') :
    WF k' := by
  unfold setNonblock at ho
  split at ho
  · simp at ho
  · injection ho with h1 h2; subst h2; exact wf_updOfd h _ _

theorem wf_fillPipe {k k' : K} (h : WF k) {fd : Nat} {u : Unit} (ho : fillPipe k fd = .ok u k') : WF k' := by
  unfold fillPipe at ho
  repeat' split at ho
  all_goals first
    | (simp at ho; done)
    | (injection ho with h1 h2; subst h2; exact wf_tree (wf_updOfd h _ _) _)

theorem wf_tmpfile {k k' : K} (h : WF k) {fd : Nat} (ho : tmpfile k = .ok fd k') : WF k' := by
  unfold tmpfile at ho
  split at ho
  · simp at ho
  · rename_i n hn
    have hlt := (lowest_fd k 0 n hn).2.1
    injection ho with h1 h2; subst h2
    exact wf_setFd_lt h n _ _ _ hlt (by simp) (by simp)

theorem wf_close {k : K} (h : WF k) (fd : Nat) : WF (close k fd) := by
  intro n x hx
  simp only [close, setFd] at hx
  split at hx
  · simp at hx
  · exact h n x hx

theorem wf_step (k : K) (op : Op) (h : WF k) : WF (step k op).1 := by
  cases op <;> simp only [step]
  case «open» p a f m =>
    split
    · exact h
    · split
      · rename_i hk; exact wf_open h (openT_ok hk)
      · exact h
  case read fd n => split; (rename_i hk; exact wf_readAny h hk); exact h
  case write fd bs => split; (rename_i hk; exact wf_writeAny h hk); exact h
  case seek fd w d =>
    split
    · rename_i hk; exact wf_seekAny h hk
    · rename_i hk; exact wf_seekAny h hk
    · exact h
  case dup fd min c => split; (rename_i hk; exact wf_dup h hk); exact h
  case dup2 a b => split; (rename_i hk; exact wf_dup2 h hk); exact h
  case close fd => exact wf_close h fd
  case getfd fd => split <;> exact h
  case setfd fd c => split; (rename_i hk; exact wf_setfd h hk); exact h
  case chdir p =>
    split
    · exact h
    · split
      · rename_i hk; exact wf_chdir h hk
      · exact h
  case umask m => exact h
  case fstat fd => split <;> exact h
  case stat p => split; exact h; split <;> exact h
  case ls p => split; exact h; split <;> exact h
  case cwd => exact h
  case acc fd => split <;> exact h
  case pipe => split; (rename_i hk; exact wf_pipe h hk); exact h
  case nb fd => split; (rename_i hk; exact wf_setNonblock h hk); exact h
  case rlim => exact h
  case fill fd => split; (rename_i hk; exact wf_fillPipe h hk); exact h
  case sel fd w => split <;> exact h
  case tmp => split; (rename_i hk; exact wf_tmpfile h hk); exact h
  case isx p => split <;> exact h

/-- ★ In every state the driver can reach from a well-formed initial state, by any sequence of operations,
    every open descriptor is below the limit and resolves to an open file description: the hypotheses
    `getOfd k fd = some …` of the laws in `Theorems.lean` hold for every open descriptor of every reachable
    state. -/
theorem wf_run (ops : List Op) : ∀ (k : K), WF k → WF (run k ops).2 := by
  induction ops with
  | nil => intro k h; exact h
  | cons op ops ih => intro k h; exact ih _ (wf_step k op h)

theorem no_dangling_descriptor (k0 : K) (h0 : WF k0) (ops : List Op) (fd : Nat) (e : FdEntry)
    (h : (run k0 ops).2.fds fd = some e) :
    ∃ o, getOfd (run k0 ops).2 fd = some (e.ofd, o) := by
  have hw := wf_run ops k0 h0 fd e h
  have hlt := hw.2
  refine ⟨(run k0 ops).2.ofds[e.ofd], ?_⟩
  simp [getOfd, h, hlt]

example : WF exK1 := by
  intro fd e h
  simp only [exK1] at h
  split at h
  · rename_i hc
    injection h with h; subst h
    rcases hc with h | h <;> subst h <;> decide
  · simp at h


/-! ## command search: only regular files with an execute bit -/

/-- ★ `is_executable_file` is true only for a path that resolves to a regular file with an execute bit: never
    for a directory (although directories carry `x` bits), never for a missing file or a path that does not
    resolve. -/
theorem isExec_regular_only (k : K) (comps : List String) (h : isExec k comps = true) :
    ∃ p m c, resolve k.tree k.cwd comps = .ok p ∧ lookup k.tree p = some (.reg m c) ∧ (m % 512) &&& 73 ≠ 0 := by
  unfold isExec statPath at h
  split at h
  · rename_i m c hs
    split at hs
    · simp at hs
    · rename_i p hr
      split at hs
      · simp at hs
      · rename_i n hl
        injection hs with hs; subst hs
        exact ⟨p, m, c, hr, hl, by simpa using h⟩
  · simp at h

theorem isExec_directory_false (k : K) (comps : List String) (p : Path) (m : Nat)
    (hr : resolve k.tree k.cwd comps = .ok p) (hl : lookup k.tree p = some (.dir m)) : isExec k comps = false := by
  simp [isExec, statPath, hr, hl]

/-- ★ Command search skips everything that is not an executable regular file — in particular a DIRECTORY named
    like the command in an earlier `$PATH` entry: if no candidate `e/name` for the entries `e` before `d` is an
    executable file and `d/name` is one, the search answers `d/name`; if no candidate is one, it finds nothing
    (status 127, not 126). -/
theorem search_skips_non_executables (k : K) (pre : List (List String)) (d : List String)
    (rest : List (List String)) (name : String)
    (hpre : ∀ e, e ∈ pre → isExec k (e ++ [name]) = false) :
    (isExec k (d ++ [name]) = true → searchPath k (pre ++ d :: rest) name = some (d ++ [name])) ∧
    searchPath k pre name = none := by
  induction pre with
  | nil => exact ⟨fun h => by simp [searchPath, h], rfl⟩
  | cons e es ih =>
    have he : isExec k (e ++ [name]) = false := hpre e (by simp)
    have ih' := ih (fun x hx => hpre x (by simp [hx]))
    exact ⟨fun h => by simp [searchPath, he, ih'.1 h], by simp [searchPath, he, ih'.2]⟩

/-- ★ The empty command name is never found: `dir/` names the directory `dir` itself (or nothing), never a
    regular file — for every `$PATH` entry that does not itself resolve to a regular file. -/
theorem search_empty_name (k : K) (dirs : List (List String))
    (hd : ∀ d, d ∈ dirs → ∀ p, walkDirs k.tree k.cwd d = .ok p → existing k.tree p ≠ .reg) :
    searchPath k dirs "" = none := by
  induction dirs with
  | nil => rfl
  | cons d ds ih =>
    have hf : isExec k (d ++ [""]) = false := by
      cases hex : isExec k (d ++ [""]) with
      | false => rfl
      | true =>
        obtain ⟨p, m, c, hr, hl, _⟩ := isExec_regular_only k _ hex
        cases hw : walkDirs k.tree k.cwd d with
        | error e =>
          exfalso
          have : resolve k.tree k.cwd (d ++ [""]) = .error e := by
            clear hr hex hd ih
            generalize k.cwd = cur at hw ⊢
            induction d generalizing cur with
            | nil => simp [walkDirs] at hw
            | cons c cs ihd =>
              unfold walkDirs at hw
              cases hs : stepDir k.tree cur c with
              | error e' =>
                rw [hs] at hw
                simp at hw; subst hw
                cases cs <;> simp [resolve, hs]
              | ok cur' =>
                rw [hs] at hw
                have := ihd cur' hw
                cases cs with
                | nil => simp [walkDirs] at hw
                | cons c2 cs2 => simpa [resolve, hs] using this
          rw [this] at hr; simp at hr
        | ok q =>
          have hq : resolve k.tree k.cwd (d ++ [""]) = .ok q := by
            rw [resolve_walk k.tree d k.cwd q "" [] hw]; simp [resolve, finalStep]
          rw [hq] at hr; injection hr with hr; subst hr
          exact absurd (by simp [existing, hl]) (hd d (by simp) q hw)
    simp [searchPath, hf, ih (fun x hx => hd x (by simp [hx]))]

/-- `a/foo` is a directory, `c/foo` a regular file without execute bits, `b/foo` an executable regular file -/
def exKpath : K :=
  { tree := [([], .dir 493), (["a"], .dir 493), (["a", "foo"], .dir 493), (["b"], .dir 493),
             (["b", "foo"], .reg 493 []), (["c"], .dir 493), (["c", "foo"], .reg 420 [])],
    ofds := [], fds := fun _ => none, limit := 8, umask := 18, cwd := [] }

example :
    searchPath exKpath [["a"], ["c"], ["b"]] "foo" = some ["b", "foo"] ∧ searchPath exKpath [["a"], ["c"]] "foo" = none ∧
    searchPath exKpath [["a"], ["b"]] "" = none ∧ isExec exKpath ["a", "foo"] = false ∧ isExec exKpath [""] = false := by
  decide

/-- the hypotheses of `search_skips_non_executables` / `search_empty_name` on that state -/
example : (∀ e, e ∈ [["a"], ["c"]] → isExec exKpath (e ++ ["foo"]) = false) ∧ isExec exKpath (["b"] ++ ["foo"]) = true ∧
    (∀ d, d ∈ [["a"], ["b"]] → ∀ p, walkDirs exKpath.tree exKpath.cwd d = .ok p → existing exKpath.tree p ≠ .reg) := by
  refine ⟨by decide, by decide, ?_⟩
  intro d hd p hp
  simp at hd
  rcases hd with h | h <;> subst h <;> (simp [walkDirs, stepDir, existing, lookup, exKpath] at hp; subst hp; decide)

example : (({} : Flags).create && slashAfterName ["f"]) = false ∧
    (({ create := true } : Flags).create && slashAfterName ["d1", "new"]) = false ∧
    (({ create := true } : Flags).create && slashAfterName ["new", ""]) = true := by decide

end YashModel.Kernel
