/-
  Driver for C19.  stdin: one case per line, stdout: `<pivot observation>\t-`.

    S <class> lim=<N>; <op>; <op>; …        system-call sequence, run on the pivot `Kernel.Model`
    P <class>; <op>; fork[<op>, …]; …        process/signal sequence, run on the pivot `Kernel.Signal`
    H <tag> <hex script> real=<observation>  shell-level case: the pivot has no shell interpreter; the
                                             reference observation is the one the real kernel produced,
                                             carried in the case and echoed here

  Observation of an `S` case: one token per operation, then ` | ` and the final state (tree, descriptor
  table, cwd, umask).
-/
import YashModel.Common.Proto
import YashModel.Kernel.Model
import YashModel.Kernel.Pipe
import YashModel.Kernel.Signal
open YashModel YashModel.Kernel YashModel.Proto

def octDigits : Nat → Nat → List Char
  | 0, _ => []
  | fuel + 1, n => if n < 8 then [Char.ofNat (48 + n)] else octDigits fuel (n / 8) ++ [Char.ofNat (48 + n % 8)]

def toOct (n : Nat) : String := String.ofList (octDigits 24 n)

def parseOct (s : String) : Option Nat :=
  s.toList.foldl (fun acc c => match acc with
    | none => none
    | some a => if '0' ≤ c ∧ c ≤ '7' then some (a * 8 + (c.toNat - 48)) else none) (some 0)

def parseBytes (t : String) : Option Bytes :=
  if t = "-" then some [] else hexToBytes t.toList

def showBytes (b : Bytes) : String := if b.isEmpty then "-" else bytesToHex b

def parsePath (s : String) : List String := s.splitOn "/"

def parseAccess : String → Option Access
  | "r" => some .r | "w" => some .w | "rw" => some .rw | _ => none

def parseFlags (s : String) : Flags :=
  let h (c : Char) : Bool := s.toList.contains c
  { create := h 'c', excl := h 'x', trunc := h 't', append := h 'a', cloexec := h 'e', directory := h 'd' }

def insertSorted (a : String) : List String → List String
  | [] => [a]
  | b :: r => if a < b then a :: b :: r else b :: insertSorted a r

def sortStrings (l : List String) : List String := l.foldr insertSorted []

def showPath (p : Path) : String := "/" ++ "/".intercalate p

def showNode : Node → String
  | .reg m c => s!"=reg:{toOct m}:{c.length}"
  | .dir m => s!"=dir:{toOct m}"

def initTree : Tree :=
  [ ([], .dir 493),
    (["f1"], .reg 420 "hello".toUTF8.toList),
    (["f2"], .reg 420 []),
    (["d1"], .dir 493),
    (["d1", "g"], .reg 420 "abc".toUTF8.toList),
    (["d1", "dd"], .dir 493),
    (["d2"], .dir 493),
    (["..std", "0"], .reg 420 []),
    (["..std", "1"], .reg 420 []),
    (["..std", "2"], .reg 420 []) ]

def stdOfd (n : String) : Ofd := { path := ["..std", n], rd := true, wr := true, app := true, off := 0 }

def initK (limit : Nat) : K :=
  { tree := initTree
    ofds := [stdOfd "0", stdOfd "1", stdOfd "2"]
    fds := fun n => if n < 3 then some { ofd := n, cloexec := false } else none
    limit := limit
    umask := 18
    cwd := [] }

def errS (e : Errno) : String := e.name

/-- applies the scratch-root guard before a path operation -/
def rootGuard (k : K) (comps : List String) (f : Unit → K × String) : K × String :=
  if comps.head? = some "" ∨ escapes k.cwd.length comps then (k, "ESCAPE") else f ()

def runOp (k : K) (t : String) : K × String :=
  match words t with
  | ["open", p, a, fl, m] =>
    match parseAccess a, parseOct m with
    | some acc, some mode =>
      rootGuard k (parsePath p) fun _ =>
        match open' k (parsePath p) acc (parseFlags fl) mode with
        | .ok fd k' => (k', s!"={fd}")
        | .err e => (k, errS e)
    | _, _ => (k, "?")
  | ["read", fd, n] =>
    match fd.toNat?, n.toNat? with
    | some fd, some n => match readAny k fd n with
      | .ok bs k' => (k', "=" ++ showBytes bs)
      | .err e => (k, errS e)
    | _, _ => (k, "?")
  | ["write", fd, h] =>
    match fd.toNat?, parseBytes h with
    | some fd, some bs => match writeAny k fd bs with
      | .ok n k' => (k', s!"={n}")
      | .err e => (k, errS e)
    | _, _ => (k, "?")
  | ["seek", fd, w, d] =>
    let wh : Option Whence := match w with | "s" => some .set | "c" => some .cur | "e" => some .end_ | _ => none
    match fd.toNat?, wh, d.toInt? with
    | some fd, some wh, some d => match seekAny k fd wh d with
      | .ok (some n) k' => (k', s!"={n}")
      | .ok none k' => (k', "dir")
      | .err e => (k, errS e)
    | _, _, _ => (k, "?")
  | ["dup", fd, min, c] =>
    match fd.toNat?, min.toNat? with
    | some fd, some min => match dup k fd min (c == "e") with
      | .ok n k' => (k', s!"={n}")
      | .err e => (k, errS e)
    | _, _ => (k, "?")
  | ["dup2", a, b] =>
    match a.toNat?, b.toNat? with
    | some a, some b => match dup2 k a b with
      | .ok n k' => (k', s!"={n}")
      | .err e => (k, errS e)
    | _, _ => (k, "?")
  | ["close", fd] =>
    match fd.toNat? with
    | some fd => (close k fd, "ok")
    | none => (k, "?")
  | ["getfd", fd] =>
    match fd.toNat? with
    | some fd => match getfd k fd with
      | .ok c => (k, if c then "=e" else "=-")
      | .error e => (k, errS e)
    | none => (k, "?")
  | ["setfd", fd, c] =>
    match fd.toNat? with
    | some fd => match setfd k fd (c == "e") with
      | .ok _ k' => (k', "ok")
      | .err e => (k, errS e)
    | none => (k, "?")
  | ["chdir", p] =>
    rootGuard k (parsePath p) fun _ =>
      match chdir k (parsePath p) with
      | .ok _ k' => (k', "ok")
      | .err e => (k, errS e)
  | ["umask", m] =>
    match parseOct m with
    | some m => let (old, k') := setUmask k m; (k', "=" ++ toOct old)
    | none => (k, "?")
  | ["fstat", fd] =>
    match fd.toNat? with
    | some fd => match fstat k fd with
      | .ok n => (k, if (getOfd k fd).any (·.2.pipe) then "=fifo" else showNode n)
      | .error e => (k, errS e)
    | none => (k, "?")
  | ["stat", p] =>
    rootGuard k (parsePath p) fun _ =>
      match statPath k (parsePath p) with
      | .ok n => (k, showNode n)
      | .error e => (k, errS e)
  | ["ls", p] =>
    rootGuard k (parsePath p) fun _ =>
      match listDir k (parsePath p) with
      | .ok ns => (k, "=" ++ (if ns.isEmpty then "-" else ",".intercalate (sortStrings ns)))
      | .error e => (k, errS e)
  | ["cwd"] => (k, "=" ++ showPath k.cwd)
  | ["pipe"] =>
    match pipe' k with
    | .ok (r, w) k' => (k', s!"={r},{w}")
    | .err e => (k, errS e)
  | ["nb", fd] =>
    match fd.toNat? with
    | some fd => match setNonblock k fd true with
      | .ok b k' => (k', if b then "=1" else "=0")
      | .err e => (k, errS e)
    | none => (k, "?")
  | ["rlim"] => (k, s!"={k.limit}")
  | ["acc", fd] =>
    match fd.toNat? with
    | some fd => match getOfd k fd with
      | some (_, o) => (k, if o.rd && o.wr then "=rw" else if o.wr then "=w" else "=r")
      | none => (k, "EBADF")
    | none => (k, "?")
  | _ => (k, "?")

/-- distinct bound paths (newest binding wins), without the root and the standard files -/
def treePaths (t : Tree) : List Path :=
  ((t.map (·.1)).eraseDups).filter fun p => p ≠ [] ∧ p.head? ≠ some "..std"

def showTree (t : Tree) : String :=
  let lines := (treePaths t).map fun p =>
    let key := "/".intercalate p
    match lookup t p with
    | some (.reg m c) => s!"{key}:reg:{toOct m}:{showBytes c}"
    | some (.dir m) => s!"{key}:dir:{toOct m}:-"
    | none => key
  " ".intercalate (sortStrings lines)

def showFds (k : K) : String :=
  let fds := (List.range k.limit).filterMap fun fd =>
    match k.fds fd, getOfd k fd with
    | some e, some (_, o) =>
      let acc := if o.rd && o.wr then "rw" else if o.wr then "w" else "r"
      let off := match lookup k.tree o.path with
        | some (.reg _ _) => if o.pipe then "ESPIPE" else toString o.off
        | _ => "d"
      some s!"{fd}:{acc}:{if e.cloexec then "e" else "-"}:{off}"
    | _, _ => none
  " ".intercalate fds

def showFinal (k : K) : String :=
  s!"T {showTree k.tree} | F {showFds k} | cwd={showPath k.cwd} umask={toOct k.umask}"

def runSeq (line : String) : String :=
  match splitTrim line ";" with
  | [] => "?"
  | hd :: ops =>
    let limit : Nat := match (words hd).filterMap (fun w => if w.startsWith "lim=" then (w.drop 4).toString.toNat? else none) with
      | n :: _ => n
      | [] => 64
    let ops := ops.filter (· ≠ "")
    let (k, outs) := ops.foldl (fun (acc : K × List String) op =>
      let (k', o) := runOp acc.1 op
      (k', o :: acc.2)) (initK limit, [])
    " ".intercalate outs.reverse ++ " | " ++ showFinal k

/-! ## process/signal cases: `P <class>; op; op; fork[op, op, …]; …` -/

namespace SigDrv
open YashModel.Kernel.Signal

def parseSig (t : String) : Option Sig := Sig.all.find? (·.name == t)

def parseSigs (t : String) : List Sig :=
  if t = "-" then [] else (t.splitOn "+").filterMap parseSig

def showSet (a : SigSet) : String :=
  let l := Sig.all.filter a
  if l.isEmpty then "-" else "+".intercalate (l.map Sig.name)

def showList (l : List Sig) : String := showSet (SigSet.ofList l)

def parseDisp : String → Option Disp
  | "d" => some .dfl | "i" => some .ign | "c" => some .catch | _ => none

def showDisp : Disp → String
  | .dfl => "d" | .ign => "i" | .catch => "c"

def showStatus : Status → String
  | .running => "run" | .exited n => s!"x{n}" | .signaled s => s!"s{s.name}"

/-- one operation of process `me`; `par` is its parent while `me` is a forked child (`none` at top level).
    Returns the new (`me`, `par`) and the token (none when the operation does not return). -/
def step (me : Proc) (par : Option Proc) (t : String) : Proc × Option Proc × Option String :=
  let tok (p : Proc) (x : String) : Option String := if p.alive then some x else none
  match words t with
  | ["blk", l] => let p := block me (parseSigs l); (p, par, tok p "ok")
  | ["unb", l] => let p := unblock me (parseSigs l); (p, par, tok p "ok")
  | ["set", l] => let p := setMask me (SigSet.ofList (parseSigs l)); (p, par, tok p "ok")
  | ["act", s, d] =>
    match parseSig s, parseDisp d with
    | some s, some d => let (old, p) := act me s d; (p, par, some ("=" ++ showDisp old))
    | _, _ => (me, par, some "?")
  | ["get", s] =>
    match parseSig s with
    | some s => (me, par, some ("=" ++ showDisp (me.disp s)))
    | none => (me, par, some "?")
  | ["raise", s] | ["kself", s] =>
    match parseSig s with
    | some s => let p := generate me s; (p, par, tok p "ok")
    | none => (me, par, some "?")
  | ["kgrp", s] =>
    match parseSig s with
    | some s => let p := generate me s; (p, par.map (generate · s), tok p "ok")
    | none => (me, par, some "?")
  | ["kpar", s] =>
    match parseSig s with
    | some s => (me, par.map (generate · s), some "ok")
    | none => (me, par, some "?")
  | ["pend"] => (me, par, some ("=" ++ showSet me.pending))
  | ["mask"] => (me, par, some ("=" ++ showSet me.mask))
  | ["caught"] => let (l, p) := takeCaught me; (p, par, some ("=" ++ showList l))
  | ["exit", n] => (exit me (n.toNat?.getD 0), par, none)
  | _ => (me, par, some "?")

def runChild (par : Proc) (ops : List String) : Proc × String :=
  let (c, p, toks) := ops.foldl (fun (acc : Proc × Proc × List String) op =>
    let (c, p, toks) := acc
    if !c.alive then acc else
      match step c (some p) op with
      | (c', p', some t) => (c', p'.getD p, t :: toks)
      | (c', p', none) => (c', p'.getD p, toks)) (fork par, par, [])
  let c := exit c 0
  (generate p .CHLD, "{" ++ ",".intercalate toks.reverse ++ "}" ++ showStatus c.status)

def runTop (ops : List String) : String :=
  let (p, toks) := ops.foldl (fun (acc : Proc × List String) op =>
    let (p, toks) := acc
    if !p.alive then acc
    else if op.startsWith "fork[" then
      let body := ((op.drop 5).toString.splitOn "]").headD ""
      let cops := (splitTrim body ",").filter (· ≠ "")
      let (p', t) := runChild p cops
      (p', t :: toks)
    else match step p none op with
      | (p', _, some t) => (p', t :: toks)
      | (p', _, none) => (p', toks)) (Proc.init, [])
  let fin :=
    if p.alive then
      s!"| pend={showSet p.pending} mask={showSet p.mask} caught={showList p.caught} disp={String.join (Sig.all.map fun s => showDisp (p.disp s))}"
    else s!"DIED:{showStatus p.status}"
  " ".intercalate (toks.reverse ++ [fin])

def runLine (line : String) : String :=
  match splitTrim line ";" with
  | [] => "?"
  | _ :: ops => runTop (ops.filter (· ≠ ""))

end SigDrv

def runLine (line : String) : String :=
  if line.startsWith "S " then runSeq line ++ "\t-"
  else if line.startsWith "P " then SigDrv.runLine line ++ "\t-"
  else if line.startsWith "H " then
    match line.splitOn " real=" with
    | [_, obs] => obs ++ "\t-"
    | _ => "?\t-"
  else "?\t-"

def main : IO Unit := YashModel.Proto.mainLoop runLine
