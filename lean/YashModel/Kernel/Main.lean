/-
  Driver for C19.  stdin: one case per line, stdout: `<pivot observation>\t-`.

    S <class> lim=<N>; <op>; <op>; …        system-call sequence, run on the pivot `Kernel.Model`
    P <class>; <op>; fork[<op>, …]; …        process/signal sequence, run on the pivot `Kernel.Signal`
    H <tag> <hex script> real=<observation>  shell-level case: the pivot has no shell interpreter; the
                                             reference observation is the one the real kernel produced,
                                             carried in the case and echoed here

  Observation of an `S` case: one token per operation, then ` | ` and the final state (tree, descriptor
  table, cwd, umask).
-/
import YashModel.Common.Proto
import YashModel.Kernel.Model
import YashModel.Kernel.Pipe
import YashModel.Kernel.Step
import YashModel.Kernel.Signal
import YashModel.Kernel.SigStep
import YashModel.Kernel.Fork
import YashModel.Kernel.Symlink
open YashModel YashModel.Kernel YashModel.Proto

def octDigits : Nat → Nat → List Char
  | 0, _ => []
  | fuel + 1, n => if n < 8 then [Char.ofNat (48 + n)] else octDigits fuel (n / 8) ++ [Char.ofNat (48 + n % 8)]

def toOct (n : Nat) : String := String.ofList (octDigits 24 n)

def parseOct (s : String) : Option Nat :=
  s.toList.foldl (fun acc c => match acc with
    | none => none
    | some a => if '0' ≤ c ∧ c ≤ '7' then some (a * 8 + (c.toNat - 48)) else none) (some 0)

def parseBytes (t : String) : Option Bytes :=
  if t = "-" then some [] else hexToBytes t.toList

def showBytes (b : Bytes) : String := if b.isEmpty then "-" else bytesToHex b

def parsePath (s : String) : List String := s.splitOn "/"

def parseAccess : String → Option Access
  | "r" => some .r | "w" => some .w | "rw" => some .rw | _ => none

def parseFlags (s : String) : Flags :=
  let h (c : Char) : Bool := s.toList.contains c
  { create := h 'c', excl := h 'x', trunc := h 't', append := h 'a', cloexec := h 'e', directory := h 'd' }

def insertSorted (a : String) : List String → List String
  | [] => [a]
  | b :: r => if a < b then a :: b :: r else b :: insertSorted a r

def sortStrings (l : List String) : List String := l.foldr insertSorted []

def showPath (p : Path) : String := "/" ++ "/".intercalate p

def showNode : Node → String
  | .reg m c => s!"=reg:{toOct m}:{c.length}"
  | .dir m => s!"=dir:{toOct m}"

def initTree : Tree :=
  [ ([], .dir 493),
    (["f1"], .reg 420 "hello".toUTF8.toList),
    (["f2"], .reg 420 []),
    (["d1"], .dir 493),
    (["d1", "g"], .reg 420 "abc".toUTF8.toList),
    (["d1", "dd"], .dir 493),
    (["d2"], .dir 493),
    (["..std", "0"], .reg 420 []),
    (["..std", "1"], .reg 420 []),
    (["..std", "2"], .reg 420 []) ]

def stdOfd (n : String) : Ofd := { path := ["..std", n], rd := true, wr := true, app := true, off := 0 }

def initK (limit : Nat) : K :=
  { tree := initTree
    ofds := [stdOfd "0", stdOfd "1", stdOfd "2"]
    fds := fun n => if n < 3 then some { ofd := n, cloexec := false } else none
    limit := limit
    umask := 18
    cwd := [] }

def errS (e : Errno) : String := e.name

/-- a case token → typed operation (`none` = not an operation of this language) -/
def parseOp (t : String) : Option Op :=
  match words t with
  | ["open", p, a, fl, m] => do pure (.open (parsePath p) (← parseAccess a) (parseFlags fl) (← parseOct m))
  | ["read", fd, n] => do pure (.read (← fd.toNat?) (← n.toNat?))
  | ["write", fd, h] => do pure (.write (← fd.toNat?) (← parseBytes h))
  | ["seek", fd, w, d] =>
    let wh : Option Whence := match w with | "s" => some .set | "c" => some .cur | "e" => some .end_ | _ => none
    do pure (.seek (← fd.toNat?) (← wh) (← d.toInt?))
  | ["dup", fd, min, c] => do pure (.dup (← fd.toNat?) (← min.toNat?) (c == "e"))
  | ["dup2", a, b] => do pure (.dup2 (← a.toNat?) (← b.toNat?))
  | ["close", fd] => do pure (.close (← fd.toNat?))
  | ["getfd", fd] => do pure (.getfd (← fd.toNat?))
  | ["setfd", fd, c] => do pure (.setfd (← fd.toNat?) (c == "e"))
  | ["chdir", p] => some (.chdir (parsePath p))
  | ["umask", m] => do pure (.umask (← parseOct m))
  | ["fstat", fd] => do pure (.fstat (← fd.toNat?))
  | ["stat", p] => some (.stat (parsePath p))
  | ["ls", p] => some (.ls (parsePath p))
  | ["cwd"] => some .cwd
  | ["acc", fd] => do pure (.acc (← fd.toNat?))
  | ["pipe"] => some .pipe
  | ["nb", fd] => do pure (.nb (← fd.toNat?))
  | ["rlim"] => some .rlim
  | ["tmp"] => some .tmp
  | ["isx", p] => some (.isx (if p = "-" then [""] else parsePath p))
  | ["fill", fd] => do pure (.fill (← fd.toNat?))
  | ["sel", fd, d] => do pure (.sel (← fd.toNat?) (d == "w"))
  | _ => none

/-- how an observation is printed; the operation decides between the few forms a number or flag takes -/
def showObs (op : Op) : Obs → String
  | .err e => e.name
  | .ok => "ok"
  | .num n => match op with
    | .umask _ => "=" ++ toOct n
    | _ => s!"={n}"
  | .pair a b => s!"={a},{b}"
  | .bytes b => "=" ++ showBytes b
  | .flag b => match op with
    | .nb _ | .sel _ _ | .isx _ => if b then "=1" else "=0"
    | _ => if b then "=e" else "=-"
  | .node n => showNode n
  | .fifo => "=fifo"
  | .dirOffset => "dir"
  | .names ns => "=" ++ (if ns.isEmpty then "-" else ",".intercalate (sortStrings ns))
  | .path p => "=" ++ showPath p
  | .access rd wr => if rd && wr then "=rw" else if wr then "=w" else "=r"
  | .full => "full"
  | .anon n => s!"=tmp:{n}"

/-- distinct bound paths (newest binding wins), without the root and the standard files -/
def treePaths (t : Tree) : List Path :=
  ((t.map (·.1)).eraseDups).filter fun p => p ≠ [] ∧ p.head? ≠ some "..std"

def showTree (t : Tree) : String :=
  let lines := (treePaths t).map fun p =>
    let key := "/".intercalate p
    match lookup t p with
    | some (.reg m c) => s!"{key}:reg:{toOct m}:{showBytes c}"
    | some (.dir m) => s!"{key}:dir:{toOct m}:-"
    | none => key
  " ".intercalate (sortStrings lines)

def showFds (k : K) : String :=
  let fds := (List.range k.limit).filterMap fun fd =>
    match k.fds fd, getOfd k fd with
    | some e, some (_, o) =>
      let acc := if o.rd && o.wr then "rw" else if o.wr then "w" else "r"
      let off := match lookup k.tree o.path with
        | some (.reg _ _) => if o.pipe then "ESPIPE" else toString o.off
        | _ => "d"
      some s!"{fd}:{acc}:{if e.cloexec then "e" else "-"}:{off}"
    | _, _ => none
  " ".intercalate fds

/-- the descriptor table up to a fixed bound (the limit in the case header: `setlim` may have lowered the
    process's own limit below descriptors that are still open) -/
def showFdsUpTo (k : K) (n : Nat) : String := showFds { k with limit := n }

def showFinal (k : K) : String :=
  s!"T {showTree k.tree} | F {showFds k} | cwd={showPath k.cwd} umask={toOct k.umask}"

def runSeq (line : String) : String :=
  match splitTrim line ";" with
  | [] => "?"
  | hd :: ops =>
    let limit : Nat := match (words hd).filterMap (fun w => if w.startsWith "lim=" then (w.drop 4).toString.toNat? else none) with
      | n :: _ => n
      | [] => 64
    let toks := ops.filter (· ≠ "")
    -- everything the model column shows goes through `Kernel.run` (Step.lean); a token that is not an
    -- operation prints `?` and is skipped
    let parsed := toks.map parseOp
    let (obs, k) := run (initK limit) (parsed.filterMap id)
    let rec render : List (Option Op) → List Obs → List String
      | [], _ => []
      | none :: r, os => "?" :: render r os
      | some op :: r, o :: os => showObs op o :: render r os
      | some _ :: r, [] => "?" :: render r []
    " ".intercalate (render parsed obs) ++ " | " ++ showFinal k

/-! ## process/signal cases: `P <class>; op; op; fork[op, op, …]; …` -/

namespace SigDrv
open YashModel.Kernel.Signal

def parseSig (t : String) : Option Sig := Sig.all.find? (·.name == t)

def parseSigs (t : String) : List Sig :=
  if t = "-" then [] else (t.splitOn "+").filterMap parseSig

def showSet (a : SigSet) : String :=
  let l := Sig.all.filter a
  if l.isEmpty then "-" else "+".intercalate (l.map Sig.name)

def showList (l : List Sig) : String := showSet (SigSet.ofList l)

def parseDisp : String → Option Disp
  | "d" => some .dfl | "i" => some .ign | "c" => some .catch | _ => none

def showDisp : Disp → String
  | .dfl => "d" | .ign => "i" | .catch => "c"

def showStatus : Status → String
  | .running => "run" | .exited n => s!"x{n}" | .signaled s => s!"s{s.name}"

def parseSOp (t : String) : SOp :=
  match words t with
  | ["blk", l] => .blk (parseSigs l)
  | ["unb", l] => .unb (parseSigs l)
  | ["set", l] => .set (parseSigs l)
  | ["act", s, d] => match parseSig s, parseDisp d with
    | some s, some d => .act s d
    | _, _ => .bad
  | ["get", s] => (parseSig s).elim .bad .get
  | ["raise", s] | ["kself", s] => (parseSig s).elim .bad .raise
  | ["kgrp", s] => (parseSig s).elim .bad .kgrp
  | ["kpar", s] => (parseSig s).elim .bad .kpar
  | ["pend"] => .pend
  | ["mask"] => .mask
  | ["caught"] => .caught
  | ["exit", n] => .exit (n.toNat?.getD 0)
  | ["klast", s] => if s = "0" then .klast none else (parseSig s).elim .bad (fun x => .klast (some x))
  | _ => .bad

def showSObs : SObs → String
  | .ok => "ok"
  | .disp d => "=" ++ showDisp d
  | .sigs l => "=" ++ (if l.isEmpty then "-" else "+".intercalate (l.map Sig.name))
  | .unknown => "?"
  | .esrch => "ESRCH"

/-- everything the model column of a `P` case shows goes through `Signal.sstep` / `Signal.runChild` -/
def runTop (ops : List String) : String :=
  let (p, toks) := ops.foldl (fun (acc : Proc × List String) op =>
    let (p, toks) := acc
    if !p.alive then acc
    else if op.startsWith "fork[" then
      let body := ((op.drop 5).toString.splitOn "]").headD ""
      let cops := ((splitTrim body ",").filter (· ≠ "")).map parseSOp
      let (p', obs, st) := runChild p cops
      (p', ("{" ++ ",".intercalate (obs.map showSObs) ++ "}" ++ showStatus st) :: toks)
    else match sstep p none (parseSOp op) with
      | (p', _, some t) => (p', showSObs t :: toks)
      | (p', _, none) => (p', toks)) (Proc.init, [])
  let fin :=
    if p.alive then
      s!"| pend={showSet p.pending} mask={showSet p.mask} caught={showList p.caught} disp={String.join (Sig.all.map fun s => showDisp (p.disp s))}"
    else s!"DIED:{showStatus p.status}"
  " ".intercalate (toks.reverse ++ [fin])

def runLine (line : String) : String :=
  match splitTrim line ";" with
  | [] => "?"
  | _ :: ops => runTop (ops.filter (· ≠ ""))

end SigDrv


/-! ## fork / wait cases: `X <class> lim=<N>; op; fork[op, op, …]; spawn[…]; wz; kz <SIG|0>; …` -/

namespace XDrv
open YashModel.Kernel.Signal

def parseCOp (t : String) : Option COp :=
  match words t with
  | ["exit", n] => n.toNat?.map .exit
  | ["setlim", n] => n.toNat?.map .setlim
  | ["badlim", n] => n.toNat?.map .badlim
  | ["wself"] => some .waitself
  | _ =>
    match parseOp t with
    | some op => some (.file op)
    | none =>
      match SigDrv.parseSOp t with
      | .bad => none
      | op => some (.sig op)

def bodyOf (t : String) (pre : String) : List COp :=
  let body := ((t.drop pre.length).toString.splitOn "]").headD ""
  ((splitTrim body ",").filter (· ≠ "")).filterMap parseCOp

def parseXOp (t : String) : Option XOp :=
  if t.startsWith "fork[" then some (.fork (bodyOf t "fork["))
  else if t.startsWith "spawn[" then some (.spawn (bodyOf t "spawn["))
  else match words t with
    | ["wz"] => some .waitz
    | ["kz", s] => if s = "0" then some (.killz none) else (SigDrv.parseSig s).map (fun x => .killz (some x))
    | _ => (parseCOp t).map .c

def showCObs : COp → CObs → String
  | .file op, .file o => showObs op o
  | _, .sig o => SigDrv.showSObs o
  | _, .ok => "ok"
  | _, .einval => "EINVAL"
  | _, .echild => "ECHILD"
  | _, _ => "?"

def showTail (x : XProc) : String :=
  s!"cwd={showPath x.k.cwd} umask={toOct x.k.umask} lim={x.k.limit}"

def showReport (bound : Nat) (body : List COp) (r : ChildReport) : String :=
  let rec go : List COp → List CObs → List String
    | op :: ops, o :: os => showCObs op o :: go ops os
    | _, _ => []
  "{" ++ " ".intercalate (go body r.obs) ++ s!" | F {showFdsUpTo r.final.k bound} | {showTail r.final}" ++ "}"

def showXObs (bound : Nat) (op : XOp) : XObs → String
  | .c (some o) => (match op with | .c cop => showCObs cop o | _ => "?")
  | .c none => "-"
  | .forked r st => (match op with | .fork body => showReport bound body r | _ => "?") ++ SigDrv.showStatus st
  | .spawned r => (match op with | .spawn body => showReport bound body r | _ => "?")
  | .status st => SigDrv.showStatus st
  | .ok => "ok"
  | .echild => "ECHILD"
  | .esrch => "ESRCH"
  | .unknown => "?"

def runLine (line : String) : String :=
  match splitTrim line ";" with
  | [] => "?"
  | hd :: ops =>
    let limit : Nat := match (words hd).filterMap (fun w => if w.startsWith "lim=" then (w.drop 4).toString.toNat? else none) with
      | n :: _ => n
      | [] => 64
    let parsed := (ops.filter (· ≠ "")).map parseXOp
    let (obs, s) := xrun { me := { k := initK limit, p := Proc.init }, child := none } (parsed.filterMap id)
    let rec render : List (Option XOp) → List XObs → List String
      | [], _ => []
      | none :: r, os => "?" :: render r os
      | some op :: r, o :: os => showXObs limit op o :: render r os
      | some _ :: r, [] => "?" :: render r []
    " ".intercalate (render parsed obs) ++
      s!" | T {showTree s.me.k.tree} | F {showFdsUpTo s.me.k limit} | {showTail s.me} | mask={SigDrv.showSet s.me.p.mask} pend={SigDrv.showSet s.me.p.pending}"

end XDrv

/-! ## link cases: `L <kind>; stat p; lstat p; openr p; openw p; opena p; openc p; openx p; ls p; cd p; cwd`

  evaluated on the initial tree plus the links that exist beforehand, by `Kernel/Symlink.lean` (`lwalk`, Linux
  budget 40).  Only `cd` has an effect the later operations see (creating opens come last in a case). -/

namespace LDrv

def links : Links := [(["lnkf"], ["f1"]), (["lnkd"], ["d1"]), (["lnkloop"], ["lnkloop"]), (["lnkbad"], ["nofile"])]

def fuel : Nat := 200
def budget : Nat := 40

def showKind : LKind → String
  | .missing => "ENOENT" | .reg => "=reg" | .dir => "=dir" | .lnk => "=lnk"

def openObs (cwd : Path) (comps : List String) (f : Flags) (writable : Bool) : String :=
  match lopenTarget initTree links f fuel budget cwd comps with
  | .error e => e.name
  | .ok p =>
    match openOutcome (existing initTree p) writable f with
    | .eexist => "EEXIST" | .eisdir => "EISDIR" | .enotdir => "ENOTDIR" | .enoent => "ENOENT"
    | _ => "ok"

def lstep (cwd : Path) (t : String) : Path × String :=
  match words t with
  | ["stat", p] => (cwd, match lstatKind initTree links true fuel budget cwd (parsePath p) with
      | .ok k => showKind k | .error e => e.name)
  | ["lstat", p] => (cwd, match lstatKind initTree links false fuel budget cwd (parsePath p) with
      | .ok k => showKind k | .error e => e.name)
  | ["openr", p] => (cwd, openObs cwd (parsePath p) {} false)
  | ["openw", p] => (cwd, openObs cwd (parsePath p) {} true)
  | ["opena", p] => (cwd, openObs cwd (parsePath p) { append := true } true)
  | ["openc", p] => (cwd, openObs cwd (parsePath p) { create := true } true)
  | ["openx", p] => (cwd, openObs cwd (parsePath p) { create := true, excl := true } true)
  | ["ls", p] =>
    (cwd, match lwalk initTree links true fuel budget cwd (parsePath p) with
      | .error e => e.name
      | .ok q => match existing initTree q with
        | .missing => "ENOENT" | .reg => "ENOTDIR"
        | .dir =>
          let own := children initTree q
          let ls := links.filterMap fun (l, _) => if l.dropLast = q then l.getLast? else none
          let ns := sortStrings (own ++ ls)
          "=" ++ (if ns.isEmpty then "-" else ",".intercalate ns))
  | ["cd", p] =>
    (match lwalk initTree links true fuel budget cwd (parsePath p) with
      | .error e => (cwd, e.name)
      | .ok q => match existing initTree q with
        | .missing => (cwd, "ENOENT") | .reg => (cwd, "ENOTDIR") | .dir => (q, "ok"))
  | ["cwd"] => (cwd, "=" ++ showPath cwd)
  | _ => (cwd, "?")

def runLine (line : String) : String :=
  match splitTrim line ";" with
  | [] => "?"
  | _ :: ops =>
    let r := (ops.filter (· ≠ "")).foldl (fun (acc : Path × List String) t =>
      let s := lstep acc.1 t
      (s.1, s.2 :: acc.2)) ([], [])
    " ".intercalate r.2.reverse

end LDrv

def runLine (line : String) : String :=
  if line.startsWith "S " then runSeq line ++ "\t-"
  else if line.startsWith "L " then LDrv.runLine line ++ "\t-"
  else if line.startsWith "X " then XDrv.runLine line ++ "\t-"
  else if line.startsWith "P " then SigDrv.runLine line ++ "\t-"
  else if line.startsWith "H " then
    match line.splitOn " real=" with
    | [_, obs] => obs ++ "\t-"
    | _ => "?\t-"
  else "?\t-"

def main : IO Unit := YashModel.Proto.mainLoop runLine
