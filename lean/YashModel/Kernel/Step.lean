/-
  C19 pivot: the typed operation language of the system-call cases and the one function `step` that the
  driver (`Kernel/Main.lean`) runs for every operation.  `Main.lean` only parses a case line into `Op`s
  and prints `Obs`; everything it computes goes through `step` / `run`, so theorems about `run` are
  theorems about what the model column of the check shows.

  Import-free and executable.
-/
import YashModel.Kernel.Model
import YashModel.Kernel.Pipe
namespace YashModel.Kernel

inductive Op where
  | open (path : List String) (acc : Access) (f : Flags) (mode : Nat)
  | read (fd n : Nat)
  | write (fd : Nat) (bs : Bytes)
  | seek (fd : Nat) (w : Whence) (d : Int)
  | dup (fd min : Nat) (cloexec : Bool)
  | dup2 (a b : Nat)
  | close (fd : Nat)
  | getfd (fd : Nat)
  | setfd (fd : Nat) (cloexec : Bool)
  | chdir (path : List String)
  | umask (m : Nat)
  | fstat (fd : Nat)
  | stat (path : List String)
  | ls (path : List String)
  | cwd
  | acc (fd : Nat)
  | pipe
  | nb (fd : Nat)
  | rlim
  | fill (fd : Nat)
  | sel (fd : Nat) (forWriting : Bool)
  | tmp
  /-- `is_executable_file(path)`; the path `[""]` is the empty path -/
  | isx (path : List String)

/-- what an operation answers -/
inductive Obs where
  | err (e : Errno)
  | ok
  | num (n : Nat)
  | pair (a b : Nat)
  | bytes (b : Bytes)
  | flag (b : Bool)
  | node (n : Node)
  | fifo
  | dirOffset
  | names (l : List String)
  | path (p : Path)
  | access (rd wr : Bool)
  | full
  | anon (size : Nat)
  deriving DecidableEq, Repr

/-- a path that lexically leaves the scratch root (or is absolute) is refused by the harness guard -/
def guarded (k : K) (comps : List String) : Bool :=
  comps.head? = some "" || escapes k.cwd.length comps

/-- one operation: new state and observation.  A failing operation returns the state it was given. -/
def step (k : K) : Op → K × Obs
  | .open p a f m =>
    if guarded k p then (k, .err .ESCAPE) else
    match openT k p a f m with
    | .ok fd k' => (k', .num fd)
    | .err e => (k, .err e)
  | .read fd n =>
    match readAny k fd n with
    | .ok bs k' => (k', .bytes bs)
    | .err e => (k, .err e)
  | .write fd bs =>
    match writeAny k fd bs with
    | .ok n k' => (k', .num n)
    | .err e => (k, .err e)
  | .seek fd w d =>
    match seekAny k fd w d with
    | .ok (some n) k' => (k', .num n)
    | .ok none k' => (k', .dirOffset)
    | .err e => (k, .err e)
  | .dup fd min c =>
    match dup k fd min c with
    | .ok n k' => (k', .num n)
    | .err e => (k, .err e)
  | .dup2 a b =>
    match dup2 k a b with
    | .ok n k' => (k', .num n)
    | .err e => (k, .err e)
  | .close fd => (close k fd, .ok)
  | .getfd fd =>
    match getfd k fd with
    | .ok c => (k, .flag c)
    | .error e => (k, .err e)
  | .setfd fd c =>
    match setfd k fd c with
    | .ok _ k' => (k', .ok)
    | .err e => (k, .err e)
  | .chdir p =>
    if guarded k p then (k, .err .ESCAPE) else
    match chdir k p with
    | .ok _ k' => (k', .ok)
    | .err e => (k, .err e)
  | .umask m => ((setUmask k m).2, .num (setUmask k m).1)
  | .fstat fd =>
    match fstat k fd with
    | .ok n =>
      (k, if (getOfd k fd).any (·.2.pipe) then .fifo
          else if (getOfd k fd).any (fun io => io.2.path.head? = some "..std" ∧ (io.2.path.getLast?.getD "").startsWith "tmp")
          then (match n with | .reg _ c => .anon c.length | _ => .node n)
          else .node n)
    | .error e => (k, .err e)
  | .stat p =>
    if guarded k p then (k, .err .ESCAPE) else
    match statPath k p with
    | .ok n => (k, .node n)
    | .error e => (k, .err e)
  | .ls p =>
    if guarded k p then (k, .err .ESCAPE) else
    match listDir k p with
    | .ok ns => (k, .names ns)
    | .error e => (k, .err e)
  | .cwd => (k, .path k.cwd)
  | .acc fd =>
    match getOfd k fd with
    | some (_, o) => (k, .access o.rd o.wr)
    | none => (k, .err .EBADF)
  | .pipe =>
    match pipe' k with
    | .ok (r, w) k' => (k', .pair r w)
    | .err e => (k, .err e)
  | .nb fd =>
    match setNonblock k fd true with
    | .ok b k' => (k', .flag b)
    | .err e => (k, .err e)
  | .rlim => (k, .num k.limit)
  | .fill fd =>
    match fillPipe k fd with
    | .ok _ k' => (k', .full)
    | .err e => (k, .err e)
  | .tmp =>
    match tmpfile k with
    | .ok fd k' => (k', .num fd)
    | .err e => (k, .err e)
  | .isx p =>
    if p != [""] && guarded k p then (k, .err .ESCAPE) else (k, .flag (isExec k p))
  | .sel fd w =>
    match (if w then writeReady k fd else readReady k fd) with
    | .ok b => (k, .flag b)
    | .error e => (k, .err e)

/-- a whole case: the observations in order and the final state -/
def run (k : K) : List Op → List Obs × K
  | [] => ([], k)
  | op :: ops =>
    let r := run (step k op).1 ops
    ((step k op).2 :: r.1, r.2)

end YashModel.Kernel
