/-
  C19 — property theorems about the process/signal half of the pivot (`Kernel/Signal.lean`): what a
  forked child inherits and what it must not, and the life of a blocked signal.  As in
  `Kernel/Theorems.lean` these are theorems about the pivot; the ties to `VirtualSystem` and to the real
  kernel are the correspondence run (`P` cases of harness/src/bin/c19.rs).
-/
import YashModel.Kernel.Signal
import YashModel.Kernel.SigStep
namespace YashModel.Kernel.Signal

/-! ## fork -/

/-- ★ The child of `fork` starts with an EMPTY set of pending signals, whatever was pending (blocked,
    already sent) in the parent, and with nothing recorded as caught; it is running. -/
theorem fork_child_pending_empty (p : Proc) :
    (∀ s, (fork p).pending s = false) ∧ (fork p).caught = [] ∧ (fork p).status = .running := by
  refine ⟨fun s => rfl, rfl, rfl⟩

/-- ★ The child inherits the signal mask and every signal disposition of the parent unchanged. -/
theorem fork_child_mask_dispositions_inherited (p : Proc) :
    (∀ s, (fork p).mask s = p.mask s) ∧ (∀ s, (fork p).disp s = p.disp s) := by
  exact ⟨fun _ => rfl, fun _ => rfl⟩

/-- A signal that was pending in the parent is not delivered to the child when the child unblocks it:
    unblocking anything in a fresh child changes nothing but the mask. -/
theorem fork_child_unblock_delivers_nothing (p : Proc) (l : List Sig) :
    (unblock (fork p) l).caught = [] ∧ (unblock (fork p) l).status = .running ∧
    (∀ s, (unblock (fork p) l).pending s = false) := by
  have key : ∀ (q : Proc) (r : List Sig), (∀ s, q.pending s = false) → flushList q r = q := by
    intro q r h
    induction r with
    | nil => rfl
    | cons s r ih => simp [flushList, h s, ih]
  have hp : ∀ s, ({ fork p with mask := fun x => (fork p).mask x && !l.contains x } : Proc).pending s = false :=
    fun _ => rfl
  unfold unblock setMask flush
  rw [key _ _ hp]
  exact ⟨rfl, rfl, fun _ => rfl⟩

/-- the parent keeps its own pending signals across `fork` (the model's `fork` does not touch the parent) -/
example : (fork { Proc.init with pending := SigSet.insert SigSet.empty .USR1 }).pending .USR1 = false ∧
    ({ Proc.init with pending := SigSet.insert SigSet.empty .USR1 } : Proc).pending .USR1 = true := by decide

/-! ## blocked signals -/

/-- ★ (1) A signal generated while it is blocked becomes pending and has no other effect: nothing is
    caught, the process keeps running, mask and dispositions are unchanged. -/
theorem blocked_signal_becomes_pending (p : Proc) (s : Sig) (ha : p.alive = true) (hm : p.mask s = true)
    (hk : s ≠ .KILL) :
    (generate p s).pending s = true ∧ (generate p s).caught = p.caught ∧
    (generate p s).status = p.status ∧ (generate p s).mask = p.mask ∧ (generate p s).disp = p.disp := by
  simp [generate, ha, hm, hk, SigSet.insert]

/-- the steps that neither unblock `s` nor change its disposition -/
inductive Quiet (s : Sig) : Proc → Proc → Prop where
  | gen (p : Proc) (t : Sig) : Quiet s p (generate p t)
  | block (p : Proc) (l : List Sig) : Quiet s p (block p l)
  | unblock (p : Proc) (l : List Sig) (h : l.contains s = false) : Quiet s p (unblock p l)
  | act (p : Proc) (t : Sig) (d : Disp) (h : t ≠ s) : Quiet s p (act p t d).2
  | take (p : Proc) : Quiet s p (takeCaught p).2

theorem deliver_keeps (p : Proc) (t s : Sig) :
    (deliver p t).pending s = p.pending s ∧ (deliver p t).mask s = p.mask s := by
  unfold deliver
  split <;> (try split) <;> exact ⟨rfl, rfl⟩

theorem flushList_keeps (s : Sig) :
    ∀ (r : List Sig) (p : Proc), p.mask s = true → p.pending s = true →
      (flushList p r).mask s = true ∧ (flushList p r).pending s = true := by
  intro r
  induction r with
  | nil => intro p hm hp; exact ⟨hm, hp⟩
  | cons t r ih =>
    intro p hm hp
    unfold flushList
    split
    · rename_i hc
      have hts : t ≠ s := by
        intro h; subst h; simp [hm] at hc
      have hk := deliver_keeps { p with pending := p.pending.erase t } t s
      apply ih
      · rw [hk.2]; exact hm
      · rw [hk.1]; simp [SigSet.erase, hp]; exact fun h => absurd h.symm hts
    · exact ih p hm hp

/-- ★ (2) A blocked, pending signal stays pending (and blocked) through every step that does not unblock
    it and does not change its disposition: other signals being generated, delivered, blocked, unblocked,
    caught, collected, given new dispositions. -/
theorem blocked_signal_stays_pending_until_unblocked (s : Sig) (p q : Proc)
    (hm : p.mask s = true) (hp : p.pending s = true) (hq : Quiet s p q) :
    q.mask s = true ∧ q.pending s = true := by
  cases hq with
  | gen t =>
    unfold generate
    split
    · exact ⟨hm, hp⟩
    · split
      · exact ⟨hm, hp⟩
      split
      · refine ⟨hm, ?_⟩
        simp [SigSet.insert, hp]
      · rename_i hmt
        have hk := deliver_keeps p t s
        exact ⟨hk.2 ▸ hm, hk.1 ▸ hp⟩
  | block l =>
    unfold block setMask flush
    exact flushList_keeps s _ _ (by simp [hm]) hp
  | unblock l h =>
    unfold unblock setMask flush
    have hnm : ¬ s ∈ l := by simpa using h
    exact flushList_keeps s _ _ (by simp [hm, hnm]) hp
  | act t d h =>
    have hst : s ≠ t := fun e => h e.symm
    unfold act
    simp only
    split
    · exact ⟨hm, by simp [SigSet.erase, hst, hp]⟩
    · exact ⟨hm, hp⟩
  | take => exact ⟨hm, hp⟩

/-- ★ (3) When the signal is unblocked it is delivered exactly then: with a catching disposition it is
    recorded as caught and is no longer pending. -/
theorem blocked_signal_delivered_on_unblock (p : Proc) (s : Sig) (ha : p.alive = true)
    (hp : p.pending s = true) (hd : p.disp s = .catch)
    (honly : ∀ t, t ≠ s → p.pending t = false) :
    (unblock p [s]).pending s = false ∧ (unblock p [s]).caught.contains s = true ∧
    (unblock p [s]).status = .running := by
  have hs : p.status = .running := by simpa [Proc.alive] using ha
  cases s <;>
    simp_all [unblock, setMask, flush, flushList, Sig.all, deliver, Proc.alive, SigSet.erase] <;>
    (split <;> simp_all)

example : (generate (block Proc.init [.USR1]) .USR1).pending .USR1 = true := by decide
example : (unblock (act (generate (block Proc.init [.USR1]) .USR1) .USR1 .catch).2 [.USR1]).caught = [.USR1] := by
  decide

/-! ## what the driver shows for a forked child (`runChild`, SigStep.lean) -/

theorem listOf_empty : listOf SigSet.empty = [] := by
  simp [listOf, SigSet.empty]

/-- ★ End to end: whatever the parent's state (pending signals included) and whatever follows, a child
    that first asks for its pending signals, its mask and a disposition is shown the EMPTY pending set, the
    parent's mask and the parent's disposition — these are the tokens the model column prints. -/
theorem child_first_observations (par : Proc) (s : Sig) (rest : List SOp) :
    ∃ more, (runChild par (.pend :: .mask :: .get s :: .caught :: rest)).2.1 =
      .sigs [] :: .sigs (listOf par.mask) :: .disp (par.disp s) :: .sigs [] :: more := by
  have hl : listOf (fork par).pending = [] := listOf_empty
  have hc : listOf (SigSet.ofList (takeCaught (fork par)).1) = [] := by
    simp [listOf, takeCaught, fork, SigSet.ofList]
  have ha : (fork par).alive = true := rfl
  have ha2 : (takeCaught (fork par)).2.alive = true := rfl
  refine ⟨(childOps (takeCaught (fork par)).2 par rest).2.2, ?_⟩
  simp only [runChild]
  rw [childOps]; simp only [ha, Bool.not_true, Bool.false_eq_true, if_false, sstep, Option.getD]
  rw [childOps]; simp only [ha, Bool.not_true, Bool.false_eq_true, if_false, sstep, Option.getD]
  rw [childOps]; simp only [ha, Bool.not_true, Bool.false_eq_true, if_false, sstep, Option.getD]
  rw [childOps]; simp only [ha, Bool.not_true, Bool.false_eq_true, if_false, sstep, Option.getD]
  rw [hl, hc]
  rfl

/-- the parent's own pending set is untouched by the child's inspection (the parent gets SIGCHLD
    according to its own mask and disposition afterwards, and has one more reaped child) -/
theorem parent_after_inspecting_child (par : Proc) :
    (runChild par [.pend, .mask]).1 = { generate par .CHLD with reaped := par.reaped + 1 } ∧
    (runChild par [.pend, .mask]).2.2 = .exited 0 := by
  simp [runChild, childOps, sstep, Proc.alive, fork, exit]

example : ∃ more, (runChild (generate (block Proc.init [.USR1]) .USR1) [.pend, .mask, .get .USR1, .caught]).2.1 =
    .sigs [] :: .sigs [.USR1] :: .disp .dfl :: .sigs [] :: more := ⟨[], by decide⟩


/-! ## exit statuses have 8 bits; a reaped child is gone -/

/-- the status of the process, if it is "exited", fits into 8 bits -/
def Ok8 (p : Proc) : Prop := ∀ n, p.status = .exited n → n < 256

theorem ok8_of_status_eq {p q : Proc} (h : Ok8 p) (hs : q.status = p.status) : Ok8 q := by
  intro n hn; exact h n (hs ▸ hn)

theorem ok8_deliver {p : Proc} (h : Ok8 p) (s : Sig) : Ok8 (deliver p s) := by
  unfold deliver
  split
  · exact ok8_of_status_eq h rfl
  · exact h
  · split
    · exact h
    · intro n hn; simp at hn

theorem ok8_generate {p : Proc} (h : Ok8 p) (s : Sig) : Ok8 (generate p s) := by
  unfold generate
  split
  · exact h
  · split
    · intro n hn; simp at hn
    · split
      · exact ok8_of_status_eq h rfl
      · exact ok8_deliver h s

theorem ok8_flushList (r : List Sig) : ∀ {p : Proc}, Ok8 p → Ok8 (flushList p r) := by
  induction r with
  | nil => intro p h; exact h
  | cons s r ih =>
    intro p h
    unfold flushList
    split
    · exact ih (ok8_deliver (p := { p with pending := p.pending.erase s }) (ok8_of_status_eq h rfl) s)
    · exact ih h

theorem ok8_setMask {p : Proc} (h : Ok8 p) (m : SigSet) : Ok8 (setMask p m) :=
  ok8_flushList _ (ok8_of_status_eq h rfl)

theorem ok8_exit (p : Proc) (h : Ok8 p) (n : Nat) : Ok8 (exit p n) := by
  unfold exit
  split
  · intro m hm
    simp at hm
    omega
  · exact h

theorem ok8_sstep {me : Proc} (h : Ok8 me) (par : Option Proc) (op : SOp) : Ok8 (sstep me par op).1 := by
  cases op <;> simp only [sstep]
  case blk l => exact ok8_setMask h _
  case unb l => exact ok8_setMask h _
  case set l => exact ok8_setMask h _
  case act s d =>
    unfold act
    dsimp only
    split <;> exact ok8_of_status_eq h rfl
  case get s => exact h
  case raise s => exact ok8_generate h s
  case kgrp s => exact ok8_generate h s
  case kpar s => exact h
  case pend => exact h
  case mask => exact h
  case caught => exact ok8_of_status_eq h rfl
  case exit n => exact ok8_exit me h n
  case klast s => exact h
  case bad => exact h

theorem ok8_childOps (ops : List SOp) : ∀ {c : Proc} (p : Proc), Ok8 c → Ok8 (childOps c p ops).1 := by
  induction ops with
  | nil => intro c p h; exact h
  | cons op ops ih =>
    intro c p h
    unfold childOps
    split
    · exact h
    · exact ih _ (ok8_sstep h (some p) op)

/-- ★ Whatever a forked child does — any operations, any `exit N` with N as large as one likes — the
    status the parent's `wait` reports for it, if it is an exit status, is below 256 … -/
theorem child_exit_status_8bit (par : Proc) (ops : List SOp) (n : Nat)
    (h : (runChild par ops).2.2 = .exited n) : n < 256 := by
  have h0 : Ok8 (fork par) := by intro m hm; simp [fork] at hm
  have h1 := ok8_childOps ops par h0
  exact ok8_exit _ h1 0 n h

/-- ★ … namely the low 8 bits of what the child passed to `exit`: a child whose first operation is
    `exit n` is reported as exited with `n % 256` (`exit 300` → 44, `exit 256` → 0: success), whatever the
    parent's state and whatever follows the `exit` in the child's list of operations. -/
theorem child_exit_truncates (par : Proc) (n : Nat) (rest : List SOp) :
    (runChild par (.exit n :: rest)).2.2 = .exited (n % 256) := by
  have ha : (fork par).alive = true := rfl
  have hs : (fork par).status = .running := rfl
  have he : exit (fork par) n = { fork par with status := .exited (n % 256) } := by simp [exit, ha]
  have hd : (exit (fork par) n).alive = false := by rw [he]; simp [Proc.alive]
  simp only [runChild]
  rw [childOps]
  simp only [ha, Bool.not_true, Bool.false_eq_true, if_false, sstep, Option.getD]
  cases rest with
  | nil => rw [childOps]; simp only [he]; simp [exit, Proc.alive]
  | cons op ops =>
    rw [childOps]
    simp only [hd, Bool.not_false, if_true]
    simp only [he]; simp [exit, Proc.alive]

example : (runChild Proc.init [.exit 300]).2.2 = .exited 44 ∧ (runChild Proc.init [.exit 256, .exit 1]).2.2 = .exited 0 ∧
    (runChild Proc.init [.pend, .exit 65535]).2.2 = .exited 255 := by decide

/-- ★ Once `wait` has reported a child's termination its process id names nothing: a signal sent to it —
    also the null signal of `kill -0` — is answered ESRCH, and nothing else happens (no signal reaches the
    parent or anyone else, no further SIGCHLD). -/
theorem signal_to_reaped_child_esrch (par : Proc) (ops : List SOp) (s : Option Sig) (other : Option Proc) :
    sstep (runChild par ops).1 other (.klast s) = ((runChild par ops).1, other, some .esrch) := by
  simp [sstep, runChild]

example : (sstep (runChild Proc.init [.exit 3]).1 none (.klast (some .TERM))).2.2 = some .esrch := by decide



/-- ★ What `wait` reports for a child that a signal terminates: a child whose first operation sends itself a
    signal that it neither blocks nor handles and whose default action is to terminate is reported as killed by
    exactly that signal; SIGKILL does so whatever the inherited mask and dispositions are.  Nothing that
    follows in the child's list of operations runs. -/
theorem child_killed_status (par : Proc) (s : Sig) (rest : List SOp) :
    (s = .KILL ∨ (par.mask s = false ∧ par.disp s = .dfl ∧ defaultIgnored s = false)) →
    (runChild par (.raise s :: rest)).2.2 = .signaled s ∧ (runChild par (.raise s :: rest)).2.1 = [] := by
  intro h
  have ha : (fork par).alive = true := rfl
  have hg : generate (fork par) s = { fork par with status := .signaled s } := by
    rcases h with hk | ⟨hm, hd, hi⟩
    · subst hk; simp [generate, ha]
    · by_cases hk : s = .KILL
      · subst hk; simp [generate, ha]
      · have hm' : (fork par).mask s = false := hm
        have hd' : (fork par).disp s = .dfl := hd
        simp [generate, ha, hk, hm', deliver, hd', hi]
  have hdead : (generate (fork par) s).alive = false := by rw [hg]; simp [Proc.alive]
  simp only [runChild]
  rw [childOps]
  simp only [ha, Bool.not_true, Bool.false_eq_true, if_false, sstep, Option.getD, hdead]
  cases rest with
  | nil => rw [childOps]; simp only [hg]; simp [exit, Proc.alive]
  | cons op ops =>
    rw [childOps]
    simp only [hdead, Bool.not_false, if_true]
    simp only [hg]; simp [exit, Proc.alive]

example : (runChild (block Proc.init [.KILL, .TERM]) [.raise .KILL, .exit 3]).2.2 = .signaled .KILL ∧
    (runChild Proc.init [.raise .TERM, .pend]).2.2 = .signaled .TERM ∧
    (runChild Proc.init [.raise .URG, .exit 7]).2.2 = .exited 7 := by decide


end YashModel.Kernel.Signal
