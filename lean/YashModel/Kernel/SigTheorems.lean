/-
  C19 — property theorems about the process/signal half of the pivot (`Kernel/Signal.lean`): what a
  forked child inherits and what it must not, and the life of a blocked signal.  As in
  `Kernel/Theorems.lean` these are theorems about the pivot; the ties to `VirtualSystem` and to the real
  kernel are the correspondence run (`P` cases of harness/src/bin/c19.rs).
-/
import YashModel.Kernel.Signal
import YashModel.Kernel.SigStep
namespace YashModel.Kernel.Signal

/-! ## fork -/

/-- ★ The child of `fork` starts with an EMPTY set of pending signals, whatever was pending (blocked,
    already sent) in the parent, and with nothing recorded as caught; it is running. -/
theorem fork_child_pending_empty (p : Proc) :
    (∀ s, (fork p).pending s = false) ∧ (fork p).caught = [] ∧ (fork p).status = .running := by
  refine ⟨fun s => rfl, rfl, rfl⟩

/-- ★ The child inherits the signal mask and every signal disposition of the parent unchanged. -/
theorem fork_child_mask_dispositions_inherited (p : Proc) :
    (∀ s, (fork p).mask s = p.mask s) ∧ (∀ s, (fork p).disp s = p.disp s) := by
  exact ⟨fun _ => rfl, fun _ => rfl⟩

/-- A signal that was pending in the parent is not delivered to the child when the child unblocks it:
    unblocking anything in a fresh child changes nothing but the mask. -/
theorem fork_child_unblock_delivers_nothing (p : Proc) (l : List Sig) :
    (unblock (fork p) l).caught = [] ∧ (unblock (fork p) l).status = .running ∧
    (∀ s, (unblock (fork p) l).pending s = false) := by
  have key : ∀ (q : Proc) (r : List Sig), (∀ s, q.pending s = false) → flushList q r = q := by
    intro q r h
    induction r with
    | nil => rfl
    | cons s r ih => simp [flushList, h s, ih]
  have hp : ∀ s, ({ fork p with mask := fun x => (fork p).mask x && !l.contains x } : Proc).pending s = false :=
    fun _ => rfl
  unfold unblock setMask flush
  rw [key _ _ hp]
  exact ⟨rfl, rfl, fun _ => rfl⟩

/-- the parent keeps its own pending signals across `fork` (the model's `fork` does not touch the parent) -/
example : (fork { Proc.init with pending := SigSet.insert SigSet.empty .USR1 }).pending .USR1 = false ∧
    ({ Proc.init with pending := SigSet.insert SigSet.empty .USR1 } : Proc).pending .USR1 = true := by decide

/-! ## blocked signals -/

/-- ★ (1) A signal generated while it is blocked becomes pending and has no other effect: nothing is
    caught, the process keeps running, mask and dispositions are unchanged. -/
theorem blocked_signal_becomes_pending (p : Proc) (s : Sig) (ha : p.alive = true) (hm : p.mask s = true)
    (hk : s ≠ .KILL) :
    (generate p s).pending s = true ∧ (generate p s).caught = p.caught ∧
    (generate p s).status = p.status ∧ (generate p s).mask = p.mask ∧ (generate p s).disp = p.disp := by
  simp [generate, ha, hm, hk, SigSet.insert]

/-- the steps that neither unblock `s` nor change its disposition -/
inductive Quiet (s : Sig) : Proc → Proc → Prop where
  | gen (p : Proc) (t : Sig) : Quiet s p (generate p t)
  | block (p : Proc) (l : List Sig) : Quiet s p (block p l)
  | unblock (p : Proc) (l : List Sig) (h : l.contains s = false) : Quiet s p (unblock p l)
  | act (p : Proc) (t : Sig) (d : Disp) (h : t ≠ s) : Quiet s p (act p t d).2
  | take (p : Proc) : Quiet s p (takeCaught p).2

theorem deliver_keeps (p : Proc) (t s : Sig) :
    (deliver p t).pending s = p.pending s ∧ (deliver p t).mask s = p.mask s := by
  unfold deliver
  split <;> (try split) <;> exact ⟨rfl, rfl⟩

theorem flushList_keeps (s : Sig) :
    ∀ (r : List Sig) (p : Proc), p.mask s = true → p.pending s = true →
      (flushList p r).mask s = true ∧ (flushList p r).pending s = true := by
  intro r
  induction r with
  | nil => intro p hm hp; exact ⟨hm, hp⟩
  | cons t r ih =>
    intro p hm hp
    unfold flushList
    split
    · rename_i hc
      have hts : t ≠ s := by
        intro h; subst h; simp [hm] at hc
      have hk := deliver_keeps { p with pending := p.pending.erase t } t s
      apply ih
      · rw [hk.2]; exact hm
      · rw [hk.1]; simp [SigSet.erase, hp]; exact fun h => absurd h.symm hts
    · exact ih p hm hp

/-- ★ (2) A blocked, pending signal stays pending (and blocked) through every step that does not unblock
    it and does not change its disposition: other signals being generated, delivered, blocked, unblocked,
    caught, collected, given new dispositions. -/
theorem blocked_signal_stays_pending_until_unblocked (s : Sig) (p q : Proc)
    (hm : p.mask s = true) (hp : p.pending s = true) (hq : Quiet s p q) :
    q.mask s = true ∧ q.pending s = true := by
  cases hq with
  | gen t =>
    unfold generate
    split
    · exact ⟨hm, hp⟩
    · split
      · exact ⟨hm, hp⟩
      split
      · refine ⟨hm, ?_⟩
        simp [SigSet.insert, hp]
      · rename_i hmt
        have hk := deliver_keeps p t s
        exact ⟨hk.2 ▸ hm, hk.1 ▸ hp⟩
  | block l =>
    unfold block setMask flush
    exact flushList_keeps s _ _ (by simp [hm]) hp
  | unblock l h =>
    unfold unblock setMask flush
    have hnm : ¬ s ∈ l := by simpa using h
    exact flushList_keeps s _ _ (by simp [hm, hnm]) hp
  | act t d h =>
    have hst : s ≠ t := fun e => h e.symm
    unfold act
    simp only
    split
    · exact ⟨hm, by simp [SigSet.erase, hst, hp]⟩
    · exact ⟨hm, hp⟩
  | take => exact ⟨hm, hp⟩

/-- ★ (3) When the signal is unblocked it is delivered exactly then: with a catching disposition it is
    recorded as caught and is no longer pending. -/
theorem blocked_signal_delivered_on_unblock (p : Proc) (s : Sig) (ha : p.alive = true)
    (hp : p.pending s = true) (hd : p.disp s = .catch)
    (honly : ∀ t, t ≠ s → p.pending t = false) :
    (unblock p [s]).pending s = false ∧ (unblock p [s]).caught.contains s = true ∧
    (unblock p [s]).status = .running := by
  have hs : p.status = .running := by simpa [Proc.alive] using ha
  cases s <;>
    simp_all [unblock, setMask, flush, flushList, Sig.all, deliver, Proc.alive, SigSet.erase] <;>
    (split <;> simp_all)

example : (generate (block Proc.init [.USR1]) .USR1).pending .USR1 = true := by decide
example : (unblock (act (generate (block Proc.init [.USR1]) .USR1) .USR1 .catch).2 [.USR1]).caught = [.USR1] := by
  decide

/-! ## what the driver shows for a forked child (`runChild`, SigStep.lean) -/

theorem listOf_empty : listOf SigSet.empty = [] := by
  simp [listOf, SigSet.empty]

/-- ★ End to end: whatever the parent's state (pending signals included) and whatever follows, a child
    that first asks for its pending signals, its mask and a disposition is shown the EMPTY pending set, the
    parent's mask and the parent's disposition — these are the tokens the model column prints. -/
theorem child_first_observations (par : Proc) (s : Sig) (rest : List SOp) :
    ∃ more, (runChild par (.pend :: .mask :: .get s :: .caught :: rest)).2.1 =
      .sigs [] :: .sigs (listOf par.mask) :: .disp (par.disp s) :: .sigs [] :: more := by
  have hl : listOf (fork par).pending = [] := listOf_empty
  have hc : listOf (SigSet.ofList (takeCaught (fork par)).1) = [] := by
    simp [listOf, takeCaught, fork, SigSet.ofList]
  have ha : (fork par).alive = true := rfl
  have ha2 : (takeCaught (fork par)).2.alive = true := rfl
  refine ⟨(childOps (takeCaught (fork par)).2 par rest).2.2, ?_⟩
  simp only [runChild]
  rw [childOps]; simp only [ha, Bool.not_true, Bool.false_eq_true, if_false, sstep, Option.getD]
  rw [childOps]; simp only [ha, Bool.not_true, Bool.false_eq_true, if_false, sstep, Option.getD]
  rw [childOps]; simp only [ha, Bool.not_true, Bool.false_eq_true, if_false, sstep, Option.getD]
  rw [childOps]; simp only [ha, Bool.not_true, Bool.false_eq_true, if_false, sstep, Option.getD]
  rw [hl, hc]
  rfl

/-- the parent's own pending set is untouched by the child's inspection (and the parent gets SIGCHLD
    according to its own mask and disposition afterwards) -/
theorem parent_after_inspecting_child (par : Proc) :
    (runChild par [.pend, .mask]).1 = generate par .CHLD ∧ (runChild par [.pend, .mask]).2.2 = .exited 0 := by
  simp [runChild, childOps, sstep, Proc.alive, fork, exit]

example : ∃ more, (runChild (generate (block Proc.init [.USR1]) .USR1) [.pend, .mask, .get .USR1, .caught]).2.1 =
    .sigs [] :: .sigs [.USR1] :: .disp .dfl :: .sigs [] :: more := ⟨[], by decide⟩

end YashModel.Kernel.Signal
