/-
  C19 pivot: an executable POSIX/Linux model of exactly the file operations the shell performs through
  the `System` traits of yash-env (`Open::open`, `Open::opendir`, `Read`, `Write`, `Seek`, `Dup::dup`,
  `Dup::dup2`, `Close`, `Fcntl::{fcntl_getfd, fcntl_setfd, ofd_access}`, `Fstat::{fstat, fstatat}`,
  `Chdir`, `GetCwd`, `Umask`, soft `RLIMIT_NOFILE`).

  This is NOT a transcription of `yash-env/src/system/virtual/*`: it is the third party against which
  both implementations of the traits (`VirtualSystem`, `RealSystem` on Linux) are compared.  Where
  POSIX leaves a choice the pivot takes what Linux does and says so in a comment (errno priority of
  EMFILE, O_TRUNC on a directory).  Scope: regular files and directories, no symbolic links, no
  unlink/rename/mkdir (the traits offer none, so a path names one inode for the whole run), caller is
  the owner with search permission everywhere (the harness runs as root; permission denial is outside
  the pivot).

  Import-free and executable.
-/
namespace YashModel.Kernel

abbrev Path := List String
abbrev Bytes := List UInt8

inductive Errno where
  | EBADF | ENOENT | ENOTDIR | EISDIR | EEXIST | EMFILE | EINVAL | EAGAIN | EPIPE | ESPIPE | ELOOP
  /-- not an errno: the harness guard refused a path that lexically leaves the scratch root -/
  | ESCAPE
  deriving DecidableEq, Repr, Inhabited

def Errno.name : Errno → String
  | .EBADF => "EBADF" | .ENOENT => "ENOENT" | .ENOTDIR => "ENOTDIR" | .EISDIR => "EISDIR"
  | .EEXIST => "EEXIST" | .EMFILE => "EMFILE" | .EINVAL => "EINVAL" | .ESCAPE => "ESCAPE"
  | .EAGAIN => "EAGAIN" | .EPIPE => "EPIPE" | .ESPIPE => "ESPIPE" | .ELOOP => "ELOOP"

/-! ## file tree -/

inductive Node where
  | reg (mode : Nat) (content : Bytes)
  | dir (mode : Nat)
  deriving DecidableEq, Repr, Inhabited

/-- association list, newest binding first (`insert` shadows); the root `[]` is always bound to a directory -/
abbrev Tree := List (Path × Node)

def lookup : Tree → Path → Option Node
  | [], _ => none
  | (q, n) :: r, p => if q = p then some n else lookup r p

def insert (t : Tree) (p : Path) (n : Node) : Tree := (p, n) :: t

inductive Existing where
  | missing | reg | dir
  deriving DecidableEq, Repr, Inhabited

def existing (t : Tree) (p : Path) : Existing :=
  match lookup t p with
  | none => .missing
  | some (.reg _ _) => .reg
  | some (.dir _) => .dir

/-! ## path resolution (no symbolic links) -/

/-- one non-final component: the directory reached so far must contain a *directory* of that name -/
def stepDir (t : Tree) (cur : Path) (c : String) : Except Errno Path :=
  if c = "" ∨ c = "." then .ok cur
  else if c = ".." then .ok cur.dropLast
  else match existing t (cur ++ [c]) with
    | .missing => .error .ENOENT
    | .reg => .error .ENOTDIR
    | .dir => .ok (cur ++ [c])

/-- the final component names the target, which may be missing -/
def finalStep (cur : Path) (c : String) : Path :=
  if c = "" ∨ c = "." then cur else if c = ".." then cur.dropLast else cur ++ [c]

/-- `resolve t cwd comps`: canonical path of the file named by the `/`-separated components `comps`
    relative to the existing directory `cwd`.  Every proper prefix must resolve to an existing
    directory (ENOENT / ENOTDIR otherwise); the target itself need not exist. -/
def resolve (t : Tree) : Path → List String → Except Errno Path
  | cur, [] => .ok cur
  | cur, [c] => .ok (finalStep cur c)
  | cur, c :: c' :: cs =>
    match stepDir t cur c with
    | .error e => .error e
    | .ok cur' => resolve t cur' (c' :: cs)

/-- harness guard (not kernel behaviour): does the path lexically climb above the scratch root? -/
def escapes : Nat → List String → Bool
  | _, [] => false
  | depth, c :: cs =>
    if c = "" ∨ c = "." then escapes depth cs
    else if c = ".." then (if depth = 0 then true else escapes (depth - 1) cs)
    else escapes (depth + 1) cs

/-! ## regular-file content -/

/-- bytes read at offset `off`, at most `n` -/
def readAt (c : Bytes) (off n : Nat) : Bytes := (c.drop off).take n

/-- content after writing `bs` at offset `off` (a gap beyond the end reads as zero bytes) -/
def writeAt (c : Bytes) (off : Nat) (bs : Bytes) : Bytes :=
  c.take off ++ List.replicate (off - c.length) 0 ++ bs ++ c.drop (off + bs.length)

/-! ## process state -/

/-- open file description -/
structure Ofd where
  path : Path
  rd : Bool
  wr : Bool
  app : Bool
  off : Nat
  /-- one end of a pipe (see `Kernel/Pipe.lean`): `path` then names the pipe's buffer, a bookkeeping entry
      of the tree that no path operation can reach -/
  pipe : Bool := false
  /-- O_NONBLOCK -/
  nonblock : Bool := false
  /-- write end of a pipe: the pipe has been filled to capacity (see `fillPipe`) -/
  full : Bool := false
  deriving DecidableEq, Repr, Inhabited

structure FdEntry where
  ofd : Nat
  cloexec : Bool
  deriving DecidableEq, Repr, Inhabited

structure K where
  tree : Tree
  ofds : List Ofd
  fds : Nat → Option FdEntry
  /-- soft RLIMIT_NOFILE -/
  limit : Nat
  umask : Nat
  cwd : Path

def setFd (fds : Nat → Option FdEntry) (fd : Nat) (v : Option FdEntry) : Nat → Option FdEntry :=
  fun n => if n = fd then v else fds n

/-- lowest free descriptor in `[fd, fd + fuel)` -/
def findFree (fds : Nat → Option FdEntry) : Nat → Nat → Option Nat
  | _, 0 => none
  | fd, fuel + 1 => if (fds fd).isNone then some fd else findFree fds (fd + 1) fuel

/-- lowest free descriptor `≥ min` and `< limit` -/
def allocFd (k : K) (min : Nat) : Option Nat := findFree k.fds min (k.limit - min)

def getOfd (k : K) (fd : Nat) : Option (Nat × Ofd) :=
  match k.fds fd with
  | none => none
  | some e => match k.ofds[e.ofd]? with
    | none => none
    | some o => some (e.ofd, o)

/-! ## open -/

inductive Access where
  | r | w | rw
  deriving DecidableEq, Repr, Inhabited

def Access.readable : Access → Bool | .r => true | .w => false | .rw => true
def Access.writable : Access → Bool | .r => false | .w => true | .rw => true

structure Flags where
  create : Bool := false
  excl : Bool := false
  trunc : Bool := false
  append : Bool := false
  cloexec : Bool := false
  directory : Bool := false
  deriving DecidableEq, Repr, Inhabited

inductive Outcome where
  | eexist | eisdir | enotdir | enoent | create | openKeep | openTrunc
  deriving DecidableEq, Repr, Inhabited

/-- What `open` does once the path is resolved, by kind of the existing file and flags
    (POSIX `open`; Linux for the two unspecified corners: O_TRUNC truncates whatever the access mode,
    and O_TRUNC / O_CREAT / write access on a directory give EISDIR). -/
def openOutcome (ex : Existing) (writable : Bool) (f : Flags) : Outcome :=
  match ex with
  | .missing => if f.create then .create else .enoent
  | .reg =>
    if f.create && f.excl then .eexist
    else if f.directory then .enotdir
    else if f.trunc then .openTrunc else .openKeep
  | .dir =>
    if f.create && f.excl then .eexist
    else if writable || f.create || f.trunc then .eisdir
    else .openKeep

inductive Res (α : Type) where
  | ok (v : α) (k : K)
  | err (e : Errno)

/-- state after a successful `open`: a fresh open file description at offset 0, bound to `fd` -/
def installFd (k : K) (tree : Tree) (fd : Nat) (p : Path) (acc : Access) (f : Flags) : K :=
  { k with
    tree := tree
    ofds := k.ofds ++ [{ path := p, rd := acc.readable, wr := acc.writable, app := f.append, off := 0 }]
    fds := setFd k.fds fd (some { ofd := k.ofds.length, cloexec := f.cloexec }) }

/-- mode of a created file: the nine permission bits requested, minus the file creation mask -/
def createMode (mode umask : Nat) : Nat := (mode % 512) &&& (511 - umask % 512)

/-- `open(path, access | flags, mode)`.  Linux reserves the descriptor first, so EMFILE has priority
    over every path error and nothing is created or truncated when the table is full. -/
def open' (k : K) (comps : List String) (acc : Access) (f : Flags) (mode : Nat) : Res Nat :=
  match allocFd k 0 with
  | none => .err .EMFILE
  | some fd =>
    match resolve k.tree k.cwd comps with
    | .error e => .err e
    | .ok p =>
      match openOutcome (existing k.tree p) acc.writable f with
      | .eexist => .err .EEXIST
      | .eisdir => .err .EISDIR
      | .enotdir => .err .ENOTDIR
      | .enoent => .err .ENOENT
      | .create => .ok fd (installFd k (insert k.tree p (.reg (createMode mode k.umask) [])) fd p acc f)
      | .openKeep => .ok fd (installFd k k.tree fd p acc f)
      | .openTrunc =>
        match lookup k.tree p with
        | some (.reg m _) => .ok fd (installFd k (insert k.tree p (.reg m [])) fd p acc f)
        | _ => .ok fd (installFd k k.tree fd p acc f)

/-! ## O_CREAT and a trailing slash -/

/-- the components without the empty ones that a run of trailing slashes leaves at the end -/
def dropTrailingEmpty : List String → List String
  | [] => []
  | c :: cs =>
    match dropTrailingEmpty cs with
    | [] => if c = "" then [] else [c]
    | r => c :: r

/-- the path ends in `/` and what precedes the slashes is an ordinary name (not `.`, not `..`):
    `new/`, `d1/new//` — but not `d1/./`, `../` -/
def slashAfterName (comps : List String) : Bool :=
  comps.getLast? = some "" &&
    (match (dropTrailingEmpty comps).getLast? with
     | some c => c ≠ "." && c ≠ ".."
     | none => false)

/-- `open` as the kernel runs it.  Linux (`fs/namei.c`, `open_last_lookups`): with O_CREAT a last component
    that is an ordinary name followed by a slash is refused with EISDIR once the directories before it have
    been walked — whether the name is missing, a regular file or a directory, and before O_EXCL is looked
    at.  Nothing is created.  (Without O_CREAT the slash only demands a directory: `resolve` treats the
    name as an intermediate component.)  Every other call is `open'`. -/
def openT (k : K) (comps : List String) (acc : Access) (f : Flags) (mode : Nat) : Res Nat :=
  if f.create && slashAfterName comps then
    match allocFd k 0 with
    | none => .err .EMFILE
    | some _ =>
      match resolve k.tree k.cwd (dropTrailingEmpty comps) with
      | .error e => .err e
      | .ok _ => .err .EISDIR
  else open' k comps acc f mode

/-! ## read / write / lseek -/

def updOfd (k : K) (i : Nat) (o : Ofd) : K := { k with ofds := k.ofds.set i o }

def read (k : K) (fd n : Nat) : Res Bytes :=
  match getOfd k fd with
  | none => .err .EBADF
  | some (i, o) =>
    if !o.rd then .err .EBADF
    else match lookup k.tree o.path with
      | some (.reg _ c) =>
        let bs := readAt c o.off n
        .ok bs (updOfd k i { o with off := o.off + bs.length })
      | _ => .err .EISDIR

/-- position at which a write lands: the end of the file in append mode, else the offset -/
def writePos (o : Ofd) (c : Bytes) : Nat := if o.app then c.length else o.off

def write (k : K) (fd : Nat) (bs : Bytes) : Res Nat :=
  match getOfd k fd with
  | none => .err .EBADF
  | some (i, o) =>
    if !o.wr then .err .EBADF
    else match lookup k.tree o.path with
      | some (.reg m c) =>
        if bs.isEmpty then .ok 0 k
        else
          let pos := writePos o c
          .ok bs.length { (updOfd k i { o with off := pos + bs.length }) with
                          tree := insert k.tree o.path (.reg m (writeAt c pos bs)) }
      | _ => .err .EISDIR

inductive Whence where
  | set | cur | end_
  deriving DecidableEq, Repr, Inhabited

/-- `none` in the result = the descriptor is a directory (offset not observed) -/
def seek (k : K) (fd : Nat) (w : Whence) (d : Int) : Res (Option Nat) :=
  match getOfd k fd with
  | none => .err .EBADF
  | some (i, o) =>
    match lookup k.tree o.path with
    | some (.reg _ c) =>
      let base : Int := match w with | .set => 0 | .cur => o.off | .end_ => c.length
      if base + d < 0 then .err .EINVAL
      else .ok (some (base + d).toNat) (updOfd k i { o with off := (base + d).toNat })
    | _ => .ok none k

/-! ## descriptors -/

def dup (k : K) (fd min : Nat) (cloexec : Bool) : Res Nat :=
  match k.fds fd with
  | none => .err .EBADF
  | some e =>
    if min ≥ k.limit then .err .EINVAL
    else match allocFd k min with
      | none => .err .EMFILE
      | some n => .ok n { k with fds := setFd k.fds n (some { ofd := e.ofd, cloexec := cloexec }) }

/-- `dup2(a, b)`: EBADF if `a` is not open; `dup2(a, a)` on an open descriptor changes nothing — Linux does not
    look at the limit then, so it also succeeds for a descriptor that was opened before the limit was lowered
    below it (found by the `X` cases: `setlim 6; dup2 6 6`); otherwise EBADF if `b` is not below the limit, else
    `b` shares `a`'s open file description and has FD_CLOEXEC clear -/
def dup2 (k : K) (a b : Nat) : Res Nat :=
  match k.fds a with
  | none => .err .EBADF
  | some e =>
    if a = b then .ok b k
    else if b ≥ k.limit then .err .EBADF
    else .ok b { k with fds := setFd k.fds b (some { ofd := e.ofd, cloexec := false }) }

/-- `Close::close` (the trait reports an unopened descriptor as success) -/
def close (k : K) (fd : Nat) : K := { k with fds := setFd k.fds fd none }

def getfd (k : K) (fd : Nat) : Except Errno Bool :=
  match k.fds fd with
  | none => .error .EBADF
  | some e => .ok e.cloexec

def setfd (k : K) (fd : Nat) (c : Bool) : Res Unit :=
  match k.fds fd with
  | none => .err .EBADF
  | some e => .ok () { k with fds := setFd k.fds fd (some { e with cloexec := c }) }

/-! ## directories, metadata -/

def chdir (k : K) (comps : List String) : Res Unit :=
  match resolve k.tree k.cwd comps with
  | .error e => .err e
  | .ok p =>
    match existing k.tree p with
    | .missing => .err .ENOENT
    | .reg => .err .ENOTDIR
    | .dir => .ok () { k with cwd := p }

def setUmask (k : K) (m : Nat) : Nat × K := (k.umask, { k with umask := m % 512 })

def statPath (k : K) (comps : List String) : Except Errno Node :=
  match resolve k.tree k.cwd comps with
  | .error e => .error e
  | .ok p => match lookup k.tree p with
    | none => .error .ENOENT
    | some n => .ok n

def fstat (k : K) (fd : Nat) : Except Errno Node :=
  match getOfd k fd with
  | none => .error .EBADF
  | some (_, o) => match lookup k.tree o.path with
    | none => .error .ENOENT
    | some n => .ok n

/-- `IsExecutableFile::is_executable_file` (what command search asks for every `dir/name` candidate): the
    path resolves to a REGULAR file with at least one execute bit (the caller is root: any of the three bits
    will do).  A directory — which also carries `x` bits —, a missing file, a path through a regular file and
    the empty path are not executable files. -/
def isExec (k : K) (comps : List String) : Bool :=
  match statPath k comps with
  | .ok (.reg m _) => (m % 512) &&& 73 != 0
  | _ => false

/-- command search over the directories of `$PATH`, in order: the first `dir/name` that is an executable
    file.  (`yash_env::path`-style search as the shell performs it through `is_executable_file`.) -/
def searchPath (k : K) : List (List String) → String → Option (List String)
  | [], _ => none
  | d :: ds, name => if isExec k (d ++ [name]) then some (d ++ [name]) else searchPath k ds name

/-- each name once (a name bound again by a newer entry of the association list is one entry of the directory) -/
def dedup : List String → List String
  | [] => []
  | a :: l => if a ∈ dedup l then dedup l else a :: dedup l

/-- names bound directly under `p` (each once) -/
def children (t : Tree) (p : Path) : List String :=
  dedup (t.filterMap fun (q, _) =>
    if q.length = p.length + 1 ∧ q.take p.length = p then q.getLast? else none)

/-- `opendir` + enumeration + `closedir`: needs a free descriptor while it runs, leaves none behind -/
def listDir (k : K) (comps : List String) : Except Errno (List String) :=
  match allocFd k 0 with
  | none => .error .EMFILE
  | some _ =>
    match resolve k.tree k.cwd comps with
    | .error e => .error e
    | .ok p => match existing k.tree p with
      | .missing => .error .ENOENT
      | .reg => .error .ENOTDIR
      | .dir => .ok (children k.tree p)

end YashModel.Kernel
