/-
  C19 — lemmas for `CwdTheorems.lean`: the set of directories of the pivot's tree is the same in every
  reachable state, the working directory is canonical, and `chdir` as a uniform walk.
-/
import YashModel.Kernel.Step
import YashModel.Kernel.Lemmas
namespace YashModel.Kernel

/-! ## canonical paths -/

/-- every component is an ordinary name: not empty, not `.`, not `..` -/
def Canon (p : Path) : Prop := ∀ c, c ∈ p → c ≠ "" ∧ c ≠ "." ∧ c ≠ ".."

theorem canon_nil : Canon [] := by intro c h; simp at h

theorem canon_dropLast {p : Path} (h : Canon p) : Canon p.dropLast :=
  fun c hc => h c ((List.dropLast_sublist p).subset hc)

theorem canon_snoc {p : Path} {c : String} (h : Canon p) (h1 : c ≠ "") (h2 : c ≠ ".") (h3 : c ≠ "..") :
    Canon (p ++ [c]) := by
  intro x hx
  simp only [List.mem_append, List.mem_singleton] at hx
  rcases hx with hx | hx
  · exact h x hx
  · subst hx; exact ⟨h1, h2, h3⟩

theorem canon_stepDir {t : Tree} {cur cur' : Path} {c : String} (h : Canon cur)
    (hs : stepDir t cur c = .ok cur') : Canon cur' := by
  unfold stepDir at hs
  split at hs
  · injection hs with hs; subst hs; exact h
  · rename_i h1
    split at hs
    · injection hs with hs; subst hs; exact canon_dropLast h
    · rename_i h2
      split at hs
      · simp at hs
      · simp at hs
      · injection hs with hs; subst hs
        exact canon_snoc h (fun e => h1 (Or.inl e)) (fun e => h1 (Or.inr e)) h2

theorem canon_finalStep {cur : Path} (c : String) (h : Canon cur) : Canon (finalStep cur c) := by
  unfold finalStep
  split
  · exact h
  · rename_i h1
    split
    · exact canon_dropLast h
    · rename_i h2
      exact canon_snoc h (fun e => h1 (Or.inl e)) (fun e => h1 (Or.inr e)) h2

theorem canon_resolve (t : Tree) : ∀ (comps : List String) (cur p : Path), Canon cur →
    resolve t cur comps = .ok p → Canon p := by
  intro comps
  induction comps with
  | nil => intro cur p h hr; simp [resolve] at hr; subst hr; exact h
  | cons c cs ih =>
    intro cur p h hr
    cases cs with
    | nil => simp [resolve] at hr; subst hr; exact canon_finalStep c h
    | cons c' cs' =>
      rw [resolve] at hr
      split at hr
      · simp at hr
      · rename_i cur' hs
        exact ih cur' p (canon_stepDir h hs) hr

/-! ## the directories of the tree never change -/

theorem existing_insert_reg (t : Tree) (q p : Path) (m : Nat) (c : Bytes) :
    existing (insert t q (.reg m c)) p = if q = p then .reg else existing t p := by
  by_cases h : q = p
  · subst h; simp [existing, lookup_insert_self]
  · simp [existing, lookup_insert_ne _ _ _ _ h, h]

/-- the two trees have the same directories -/
def SameDirs (t t' : Tree) : Prop := ∀ p, existing t' p = .dir ↔ existing t p = .dir

theorem sameDirs_refl (t : Tree) : SameDirs t t := fun _ => Iff.rfl

theorem sameDirs_trans {a b c : Tree} (h1 : SameDirs a b) (h2 : SameDirs b c) : SameDirs a c :=
  fun p => (h2 p).trans (h1 p)

theorem sameDirs_insert_reg (t : Tree) (q : Path) (m : Nat) (c : Bytes) (h : existing t q ≠ .dir) :
    SameDirs t (insert t q (.reg m c)) := by
  intro p
  rw [existing_insert_reg]
  by_cases hq : q = p
  · subst hq; simp [h]
  · simp [hq]

/-- the bookkeeping entries (`..std/<name>`: the standard files, pipe buffers, anonymous files) are no
    directories -/
def NoBk (t : Tree) : Prop := ∀ name, existing t ["..std", name] ≠ .dir

theorem noBk_sameDirs {t t' : Tree} (h : NoBk t) (hs : SameDirs t t') : NoBk t' :=
  fun name hd => h name ((hs _).mp hd)

/-- what an operation may do to tree and working directory: the working directory stays, the tree stays or
    gets one regular-file binding at a place that is not a directory -/
def TreeStep (k k' : K) : Prop :=
  k'.cwd = k.cwd ∧
  (k'.tree = k.tree ∨ ∃ q m c, k'.tree = insert k.tree q (.reg m c) ∧ existing k.tree q ≠ .dir)

theorem treeStep_refl (k : K) : TreeStep k k := ⟨rfl, Or.inl rfl⟩

theorem treeStep_sameDirs {k k' : K} (h : TreeStep k k') : SameDirs k.tree k'.tree := by
  rcases h.2 with h | ⟨q, m, c, h, hq⟩
  · rw [h]; exact sameDirs_refl _
  · rw [h]; exact sameDirs_insert_reg _ _ _ _ hq

theorem openOutcome_create {ex : Existing} {w : Bool} {f : Flags} (h : openOutcome ex w f = .create) :
    ex = .missing := by
  cases ex
  · rfl
  · simp only [openOutcome] at h; repeat' split at h
    all_goals simp at h
  · simp only [openOutcome] at h; repeat' split at h
    all_goals simp at h

theorem existing_of_lookup_reg {t : Tree} {p : Path} {m : Nat} {c : Bytes} (h : lookup t p = some (.reg m c)) :
    existing t p ≠ .dir := by simp [existing, h]

theorem ts_installFd (k : K) (fd : Nat) (p : Path) (acc : Access) (f : Flags) :
    TreeStep k (installFd k k.tree fd p acc f) := ⟨rfl, Or.inl rfl⟩

theorem ts_installFd_ins (k : K) (fd : Nat) (p q : Path) (m : Nat) (c : Bytes) (acc : Access) (f : Flags)
    (h : existing k.tree q ≠ .dir) : TreeStep k (installFd k (insert k.tree q (.reg m c)) fd p acc f) :=
  ⟨rfl, Or.inr ⟨q, m, c, rfl, h⟩⟩

theorem ts_open {k k' : K} {comps : List String} {acc : Access} {f : Flags} {mode fd : Nat}
    (ho : open' k comps acc f mode = .ok fd k') : TreeStep k k' := by
  unfold open' at ho
  split at ho
  · simp at ho
  · split at ho
    · simp at ho
    · rename_i p _
      split at ho
      all_goals try (simp at ho; done)
      · rename_i hc
        injection ho with h1 h2; subst h2
        exact ts_installFd_ins k _ _ _ _ _ _ _ (by rw [openOutcome_create hc]; simp)
      · injection ho with h1 h2; subst h2; exact ts_installFd k _ _ _ _
      · split at ho
        · rename_i m c hl
          injection ho with h1 h2; subst h2
          exact ts_installFd_ins k _ _ _ _ _ _ _ (existing_of_lookup_reg hl)
        · injection ho with h1 h2; subst h2; exact ts_installFd k _ _ _ _

theorem ts_updOfd (k : K) (i : Nat) (o : Ofd) : TreeStep k (updOfd k i o) := ⟨rfl, Or.inl rfl⟩

theorem ts_read {k k' : K} {fd n : Nat} {bs : Bytes} (ho : read k fd n = .ok bs k') : TreeStep k k' := by
  unfold read at ho
  repeat' split at ho
  all_goals first
    | (simp at ho; done)
    | (injection ho with h1 h2; subst h2; exact ts_updOfd k _ _)

theorem ts_write {k k' : K} {fd n : Nat} {bs : Bytes} (ho : write k fd bs = .ok n k') : TreeStep k k' := by
  unfold write at ho
  split at ho
  · simp at ho
  · split at ho
    · simp at ho
    · split at ho
      · rename_i m c hl
        split at ho
        · injection ho with h1 h2; subst h2; exact treeStep_refl k
        · injection ho with h1 h2; subst h2
          exact ⟨rfl, Or.inr ⟨_, _, _, rfl, existing_of_lookup_reg hl⟩⟩
      · simp at ho

theorem ts_seek {k k' : K} {fd : Nat} {w : Whence} {d : Int} {r : Option Nat}
    (ho : seek k fd w d = .ok r k') : TreeStep k k' := by
  unfold seek at ho
  repeat' split at ho
  all_goals first
    | (simp at ho; done)
    | (injection ho with h1 h2; subst h2; first | exact treeStep_refl k | exact ts_updOfd k _ _)
    | (dsimp only at ho
       split at ho
       · simp at ho
       · injection ho with h1 h2; subst h2; exact ts_updOfd k _ _)

theorem ts_readAny {k k' : K} {fd n : Nat} {bs : Bytes} (ho : readAny k fd n = .ok bs k') : TreeStep k k' := by
  unfold readAny at ho
  split at ho
  · split at ho
    · split at ho
      · split at ho
        · injection ho with h1 h2; subst h2; exact treeStep_refl k
        · split at ho
          · simp at ho
          · exact ts_read ho
      · exact ts_read ho
    · exact ts_read ho
  · exact ts_read ho

theorem ts_writeAny {k k' : K} {fd n : Nat} {bs : Bytes} (ho : writeAny k fd bs = .ok n k') : TreeStep k k' := by
  unfold writeAny at ho
  split at ho
  · split at ho
    · simp at ho
    · split at ho
      · simp at ho
      · exact ts_write ho
  · exact ts_write ho

theorem ts_seekAny {k k' : K} {fd : Nat} {w : Whence} {d : Int} {r : Option Nat}
    (ho : seekAny k fd w d = .ok r k') : TreeStep k k' := by
  unfold seekAny at ho
  split at ho
  · split at ho
    · simp at ho
    · exact ts_seek ho
  · exact ts_seek ho

theorem ts_dup {k k' : K} {fd min n : Nat} {c : Bool} (ho : dup k fd min c = .ok n k') : TreeStep k k' := by
  unfold dup at ho
  repeat' split at ho
  all_goals first
    | (simp at ho; done)
    | (injection ho with h1 h2; subst h2; exact ⟨rfl, Or.inl rfl⟩)

theorem ts_dup2 {k k' : K} {a b n : Nat} (ho : dup2 k a b = .ok n k') : TreeStep k k' := by
  unfold dup2 at ho
  repeat' split at ho
  all_goals first
    | (simp at ho; done)
    | (injection ho with h1 h2; subst h2; exact ⟨rfl, Or.inl rfl⟩)

theorem ts_setfd {k k' : K} {fd : Nat} {c : Bool} {u : Unit} (ho : setfd k fd c = .ok u k') : TreeStep k k' := by
  unfold setfd at ho
  split at ho
  · simp at ho
  · injection ho with h1 h2; subst h2; exact ⟨rfl, Or.inl rfl⟩

theorem ts_setNonblock {k k' : K} {fd : Nat} {b r : Bool} (ho : setNonblock k fd b = .ok r k') :
    TreeStep k k' := by
  unfold setNonblock at ho
  split at ho
  · simp at ho
  · injection ho with h1 h2; subst h2; exact ts_updOfd k _ _

theorem ts_fillPipe {k k' : K} {fd : Nat} {u : Unit} (ho : fillPipe k fd = .ok u k') : TreeStep k k' := by
  unfold fillPipe at ho
  split at ho
  · simp at ho
  · split at ho
    · simp at ho
    · split at ho
      · simp at ho
      · split at ho
        · simp at ho
        · split at ho
          · rename_i m c hl
            injection ho with h1 h2; subst h2
            exact ⟨rfl, Or.inr ⟨_, _, _, rfl, existing_of_lookup_reg hl⟩⟩
          · simp at ho

theorem ts_pipe {k k' : K} (hb : NoBk k.tree) {r w : Nat} (ho : pipe' k = .ok (r, w) k') : TreeStep k k' := by
  unfold pipe' at ho
  split at ho
  · simp at ho
  · simp only at ho
    split at ho
    · simp at ho
    · injection ho with h1 h2; subst h2
      exact ⟨rfl, Or.inr ⟨_, _, _, rfl, hb _⟩⟩

theorem ts_tmpfile {k k' : K} (hb : NoBk k.tree) {fd : Nat} (ho : tmpfile k = .ok fd k') : TreeStep k k' := by
  unfold tmpfile at ho
  split at ho
  · simp at ho
  · injection ho with h1 h2; subst h2
    exact ⟨rfl, Or.inr ⟨_, _, _, rfl, hb _⟩⟩

end YashModel.Kernel
