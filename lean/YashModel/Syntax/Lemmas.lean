/-
  C06 — helper lemmas: digits, escape units.
-/
import YashModel.Syntax.Model
import YashModel.Syntax.Lexer
namespace YashModel.Syntax

/-! ## digits -/

theorem octVal_digit (d : Nat) (h : d < 8) : octVal (Char.ofNat (48 + d)) = some d := by
  have : d = 0 ∨ d = 1 ∨ d = 2 ∨ d = 3 ∨ d = 4 ∨ d = 5 ∨ d = 6 ∨ d = 7 := by omega
  rcases this with h | h | h | h | h | h | h | h <;> subst h <;> decide

theorem hexVal_upper (d : Nat) (h : d < 16) : hexVal (upperHexDigit d) = some d := by
  have : d = 0 ∨ d = 1 ∨ d = 2 ∨ d = 3 ∨ d = 4 ∨ d = 5 ∨ d = 6 ∨ d = 7 ∨ d = 8 ∨ d = 9 ∨ d = 10 ∨
      d = 11 ∨ d = 12 ∨ d = 13 ∨ d = 14 ∨ d = 15 := by omega
  rcases this with h | h | h | h | h | h | h | h | h | h | h | h | h | h | h | h <;> subst h <;> decide

theorem hexVal_lower (d : Nat) (h : d < 16) : hexVal (lowerHexDigit d) = some d := by
  have : d = 0 ∨ d = 1 ∨ d = 2 ∨ d = 3 ∨ d = 4 ∨ d = 5 ∨ d = 6 ∨ d = 7 ∨ d = 8 ∨ d = 9 ∨ d = 10 ∨
      d = 11 ∨ d = 12 ∨ d = 13 ∨ d = 14 ∨ d = 15 := by omega
  rcases this with h | h | h | h | h | h | h | h | h | h | h | h | h | h | h | h <;> subst h <;> decide

theorem hexDigitsMore_zero (v : Nat) (cs : List Char) : hexDigitsMore 0 v cs = (v, cs) := by
  simp [hexDigitsMore]

theorem hexDigitsMore_upper (n v d : Nat) (h : d < 16) (cs : List Char) :
    hexDigitsMore (n + 1) v (upperHexDigit d :: cs) = hexDigitsMore n (v * 16 + d) cs := by
  simp [hexDigitsMore, hexVal_upper d h]

theorem hexDigitsMore_lower (n v d : Nat) (h : d < 16) (cs : List Char) :
    hexDigitsMore (n + 1) v (lowerHexDigit d :: cs) = hexDigitsMore n (v * 16 + d) cs := by
  simp [hexDigitsMore, hexVal_lower d h]

theorem octDigitsMore_digit (n v d : Nat) (h : d < 8) (cs : List Char) :
    octDigitsMore (n + 1) v (Char.ofNat (48 + d) :: cs) = octDigitsMore n (v * 8 + d) cs := by
  simp [octDigitsMore, octVal_digit d h]

/-- `\x` followed by the two digits printed for `n < 256` reads `n` and stops -/
theorem hexDigits_upperHex2 (n : Nat) (h : n < 256) (rest : List Char) :
    hexDigits 2 (upperHex2 n ++ rest) = some (n, rest) := by
  have h1 : n / 16 % 16 < 16 := Nat.mod_lt _ (by decide)
  have h0 : n % 16 < 16 := Nat.mod_lt _ (by decide)
  simp only [upperHex2, hexDigits, List.cons_append, List.nil_append, hexVal_upper _ h1]
  rw [show (2 - 1 : Nat) = 0 + 1 from rfl, hexDigitsMore_upper _ _ _ h0, hexDigitsMore_zero]
  congr 2
  omega

theorem hexDigits_lowerHex4 (n : Nat) (h : n < 65536) (rest : List Char) :
    hexDigits 4 (lowerHex4 n ++ rest) = some (n, rest) := by
  have h3 : n / 4096 % 16 < 16 := Nat.mod_lt _ (by decide)
  have h2 : n / 256 % 16 < 16 := Nat.mod_lt _ (by decide)
  have h1 : n / 16 % 16 < 16 := Nat.mod_lt _ (by decide)
  have h0 : n % 16 < 16 := Nat.mod_lt _ (by decide)
  simp only [lowerHex4, hexDigits, List.cons_append, List.nil_append, hexVal_lower _ h3]
  rw [show (4 - 1 : Nat) = 2 + 1 from rfl, hexDigitsMore_lower _ _ _ h2,
    hexDigitsMore_lower _ _ _ h1, hexDigitsMore_lower _ _ _ h0, hexDigitsMore_zero]
  congr 2
  omega

theorem hexDigits_upperHex8 (n : Nat) (h : n < 4294967296) (rest : List Char) :
    hexDigits 8 (upperHex8 n ++ rest) = some (n, rest) := by
  have h7 : n / 268435456 % 16 < 16 := Nat.mod_lt _ (by decide)
  have h6 : n / 16777216 % 16 < 16 := Nat.mod_lt _ (by decide)
  have h5 : n / 1048576 % 16 < 16 := Nat.mod_lt _ (by decide)
  have h4 : n / 65536 % 16 < 16 := Nat.mod_lt _ (by decide)
  have h3 : n / 4096 % 16 < 16 := Nat.mod_lt _ (by decide)
  have h2 : n / 256 % 16 < 16 := Nat.mod_lt _ (by decide)
  have h1 : n / 16 % 16 < 16 := Nat.mod_lt _ (by decide)
  have h0 : n % 16 < 16 := Nat.mod_lt _ (by decide)
  simp only [upperHex8, hexDigits, List.cons_append, List.nil_append, hexVal_upper _ h7]
  rw [show (8 - 1 : Nat) = 6 + 1 from rfl, hexDigitsMore_upper _ _ _ h6,
    hexDigitsMore_upper _ _ _ h5, hexDigitsMore_upper _ _ _ h4, hexDigitsMore_upper _ _ _ h3,
    hexDigitsMore_upper _ _ _ h2, hexDigitsMore_upper _ _ _ h1, hexDigitsMore_upper _ _ _ h0,
    hexDigitsMore_zero]
  congr 2
  omega

/-- the three digits printed for `n < 256`, read after the first one -/
theorem octDigits_octal3 (n : Nat) (h : n < 256) (rest : List Char) :
    octVal (Char.ofNat (48 + n / 64 % 8)) = some (n / 64 % 8) ∧
    octDigitsMore 2 (n / 64 % 8) (Char.ofNat (48 + n / 8 % 8) :: Char.ofNat (48 + n % 8) :: rest)
      = (n, rest) := by
  have h2 : n / 64 % 8 < 8 := Nat.mod_lt _ (by decide)
  have h1 : n / 8 % 8 < 8 := Nat.mod_lt _ (by decide)
  have h0 : n % 8 < 8 := Nat.mod_lt _ (by decide)
  refine ⟨octVal_digit _ h2, ?_⟩
  rw [show (2 : Nat) = 1 + 1 from rfl, octDigitsMore_digit _ _ _ h1, octDigitsMore_digit _ _ _ h0]
  simp only [octDigitsMore]
  congr 1
  omega

/-! ## escape units -/


/-- the escape units the parser can produce: a literal is never a backslash; a control escape is
    `\c?` (0x7F) or `\c@` … `\c_` (0x00 … 0x1F) -/
def EscapeUnit.Producible : EscapeUnit → Prop
  | .literal c => c ≠ '\\'
  | .control b => b.toNat < 32 ∨ b.toNat = 127
  | _ => True

theorem lexEscape_octal_digit (d : Nat) (h : d < 8) (rest : List Char) :
    lexEscape ('\\' :: Char.ofNat (48 + d) :: rest) =
      if (octDigitsMore 2 d rest).1 < 256 then
        some (.octal (UInt8.ofNat (octDigitsMore 2 d rest).1), (octDigitsMore 2 d rest).2)
      else none := by
  have : d = 0 ∨ d = 1 ∨ d = 2 ∨ d = 3 ∨ d = 4 ∨ d = 5 ∨ d = 6 ∨ d = 7 := by omega
  rcases this with h | h | h | h | h | h | h | h <;> subst h <;> simp [lexEscape, octVal] <;> rfl

set_option maxRecDepth 100000 in
theorem ctrl_facts : ∀ n : Fin 256, (n.val < 32 ∨ n.val = 127) → n.val ≠ 28 →
    let ch := Char.ofNat ((UInt8.ofNat n.val) ^^^ 0x40).toNat
    toAsciiUpper ch = ch ∧ ch ≠ '\\' ∧ 0x3F ≤ ch.toNat ∧ ch.toNat < 0x60 ∧
      UInt8.ofNat ch.toNat ^^^ 0x40 = UInt8.ofNat n.val := by
  decide

theorem charFromU32_toNat (c : Char) : charFromU32 c.toNat = some c := by
  unfold charFromU32
  have : c.toNat.isValidChar := c.valid
  simp [this, Char.ofNat_toNat]


theorem escape_unit_roundtrip_aux (u : EscapeUnit) (h : u.Producible) (rest : List Char) :
    lexEscape (printEscape u ++ rest) = some (u, rest) := by
  cases u with
  | literal c =>
    have hc : c ≠ '\\' := h
    simp [printEscape, lexEscape, hc]
  | control b =>
    have hb : b.toNat < 32 ∨ b.toNat = 127 := h
    by_cases h28 : b = 0x1C
    · subst h28
      simp [printEscape, lexEscape, toAsciiUpper]
    · have hlt : b.toNat < 256 := b.toNat_lt
      have hne : b.toNat ≠ 28 := by
        intro hh
        apply h28
        rw [← UInt8.ofNat_toNat (x := b), hh]
        rfl
      have hf := ctrl_facts ⟨b.toNat, hlt⟩ hb hne
      simp only [UInt8.ofNat_toNat] at hf
      obtain ⟨f1, f2, f3, f4, f5⟩ := hf
      have hp : printEscape (.control b) = ['\\', 'c', Char.ofNat (b ^^^ 0x40).toNat] := by
        simp only [printEscape, h28, if_false]
      rw [hp]
      generalize Char.ofNat (b ^^^ 0x40).toNat = ch at *
      simp [lexEscape, f1, f2, f3, f4, f5]
  | octal b =>
    have hlt : b.toNat < 256 := b.toNat_lt
    obtain ⟨_, h2⟩ := octDigits_octal3 b.toNat hlt rest
    have h8 : b.toNat / 64 % 8 < 8 := Nat.mod_lt _ (by decide)
    simp only [printEscape, octal3, List.cons_append, List.nil_append]
    rw [lexEscape_octal_digit _ h8, h2]
    simp only [if_pos hlt, UInt8.ofNat_toNat]
  | hex b =>
    have hlt : b.toNat < 256 := b.toNat_lt
    simp only [printEscape, List.cons_append]
    simp [lexEscape, hexDigits_upperHex2 _ hlt]
  | unicode c =>
    have hv : c.toNat < 1114112 := by
      have := c.valid
      have e : c.toNat = c.val.toNat := rfl
      unfold Nat.isValidChar at this
      omega
    by_cases hs : c.toNat ≤ 0xFFFF
    · have : c.toNat < 65536 := by omega
      simp only [printEscape, hs, if_true, List.cons_append]
      simp [lexEscape, hexDigits_lowerHex4 _ this, charFromU32_toNat]
    · have : c.toNat < 4294967296 := by omega
      simp only [printEscape, hs, if_false, List.cons_append]
      simp [lexEscape, hexDigits_upperHex8 _ this, charFromU32_toNat]
  | _ => simp [printEscape, lexEscape]


/-! ## the value of a Unicode escape -/


/-- `char::from_u32`: exactly the surrogates and the values above U+10FFFF are rejected -/
theorem charFromU32_none_iff (v : Nat) :
    charFromU32 v = none ↔ (0xD800 ≤ v ∧ v ≤ 0xDFFF) ∨ 0x110000 ≤ v := by
  unfold charFromU32
  by_cases h : v.isValidChar
  · simp only [h, if_true]
    unfold Nat.isValidChar at h
    constructor
    · intro e; cases e
    · intro e; omega
  · simp only [h, if_false]
    unfold Nat.isValidChar at h
    constructor
    · intro _; omega
    · intro _; trivial

theorem charFromU32_some (v : Nat) (h : v < 0xD800 ∨ (0xDFFF < v ∧ v < 0x110000)) :
    charFromU32 v = some (Char.ofNat v) := by
  unfold charFromU32
  have : v.isValidChar := h
  simp [this]

/-- the long Unicode escape on eight printed digits: every 32-bit value is either a scalar value, read as
    that character, or rejected (`UnicodeEscapeOutOfRange`) — never anything else -/
theorem lexEscape_long_unicode (v : Nat) (hv : v < 4294967296) (rest : List Char) :
    lexEscape ('\\' :: 'U' :: (upperHex8 v ++ rest)) =
      if v < 0xD800 ∨ (0xDFFF < v ∧ v < 0x110000) then some (.unicode (Char.ofNat v), rest) else none := by
  have hd := hexDigits_upperHex8 v hv rest
  by_cases h : v < 0xD800 ∨ (0xDFFF < v ∧ v < 0x110000)
  · simp [lexEscape, hd, charFromU32_some v h, h]
  · have hn : charFromU32 v = none := (charFromU32_none_iff v).mpr (by omega)
    simp [lexEscape, hd, hn, h]

/-- the short Unicode escape on four printed digits -/
theorem lexEscape_short_unicode (v : Nat) (hv : v < 65536) (rest : List Char) :
    lexEscape ('\\' :: 'u' :: (lowerHex4 v ++ rest)) =
      if v < 0xD800 ∨ 0xDFFF < v then some (.unicode (Char.ofNat v), rest) else none := by
  have hd := hexDigits_lowerHex4 v hv rest
  by_cases h : v < 0xD800 ∨ 0xDFFF < v
  · have h' : v < 0xD800 ∨ (0xDFFF < v ∧ v < 0x110000) := by omega
    simp [lexEscape, hd, charFromU32_some v h', h]
  · have hn : charFromU32 v = none := (charFromU32_none_iff v).mpr (by omega)
    simp [lexEscape, hd, hn, h]

end YashModel.Syntax
