/-
  C06 — the full word fragment: the trees the word lexer can produce from their own printed text
  (every modelled word unit), as predicates on the tree and on the text that follows it.
-/
import YashModel.Syntax.CommandLemmas
namespace YashModel.Syntax

/-! ## the full word fragment -/

/-- what follows a `$name`: not a line continuation and not a further name character -/
def HeadNotName (rest : List Char) : Prop :=
  skipLC rest = rest ∧ ∀ c r, rest = c :: r → isNameChar c = false

/-- identifiers of `RawParam` as `raw_param` produces them -/
def RawIdOk (id : List Char) (rest : List Char) : Prop :=
  ∃ c n, id = c :: n ∧
    ((n = [] ∧ (isSpecialParamChar c = true ∨ isAsciiDigit c = true)) ∨
     (isSpecialParamChar c = false ∧ isAsciiDigit c = false ∧ isNameChar c = true ∧
       n.all isNameChar = true ∧ HeadNotName rest))

/-- identifiers of `BracedParam` as `braced_param` produces them -/
def BracedIdOk (id : List Char) : Prop :=
  ∃ c n, id = c :: n ∧
    ((isNameChar c = true ∧ n.all isNameChar = true ∧ validId (c :: n) = true) ∨
     (n = [] ∧ isNameChar c = false ∧ isSpecialParamChar c = true))

/-- content of a backquote substitution as `backquote_unit` produces it -/
def BqOk (ctx : Ctx) : List BackquoteUnit → Prop
  | [] => True
  | .literal c :: us => c ≠ '`' ∧ c ≠ '\\' ∧ BqOk ctx us
  | .backslashed c :: us =>
    (c = '$' ∨ c = '`' ∨ c = '\\' ∨ (c = '"' ∧ ctx = .text)) ∧
    (c = '\\' → (printBackquoteUnits us).head? ≠ some '\n') ∧ BqOk ctx us

/-- the word does not start with an unquoted `~` (which `parse_tilde_front` would convert) -/
def NoTildeFront (w : List WordUnit) : Prop := w.head? ≠ some (.unquoted (.literal '~'))

/-- extra conditions on an unquoted text unit at word level: quotes start quoted units -/
def UnquotedOk (ctx : Ctx) : TextUnit → Prop
  | .literal c => c ≠ '"' ∧ (ctx = .word → c ≠ '\'')
  | _ => True

mutual
  /-- text units the parser can produce in context `ctx` with delimiter `d`, given the text that follows -/
  def TextUnit.Ok (ctx : Ctx) (d : Delim) : TextUnit → List Char → Prop
    | .literal c, _ => c ≠ '\\' ∧ c ≠ '$' ∧ c ≠ '`' ∧ d.test c = false
    | .backslashed c, _ => escapable ctx d c = true ∧ c ≠ '\n'
    | .rawParam id, rest => RawIdOk id rest
    | .bracedParam id m, rest => BracedIdOk id ∧ Modifier.Ok ctx id m rest
    | .commandSubst _, _ => False
    | .backquote us, _ => BqOk ctx us
    | .arith _, _ => False
  def Modifier.Ok (ctx : Ctx) (id : List Char) : Modifier → List Char → Prop
    | .none, _ => True
    | .length, _ => True
    | .switch colon a w, rest =>
      WordUnits.Ok ctx .brace w ('}' :: rest) ∧ (ctx = .word → NoTildeFront w) ∧
      (id = ['#'] → colon = false → (a = .default ∨ a = .error) → printWord w ≠ [])
    | .trim side longest w, rest =>
      WordUnits.Ok .word .brace w ('}' :: rest) ∧ NoTildeFront w ∧
      (longest = false → (printWord w).head? ≠ some side.char) ∧
      (id = ['#'] → side = .pfx → longest = false → printWord w ≠ [])
  def TextUnits.Ok (ctx : Ctx) (d : Delim) : List TextUnit → List Char → Prop
    | [], _ => True
    | u :: us, rest => TextUnit.Ok ctx d u (printText us ++ rest) ∧ TextUnits.Ok ctx d us rest
  def WordUnit.Ok (ctx : Ctx) (d : Delim) : WordUnit → List Char → Prop
    | .unquoted u, rest => TextUnit.Ok ctx d u rest ∧ UnquotedOk ctx u
    | .singleQuote s, _ => ctx = .word ∧ '\'' ∉ s
    | .doubleQuote t, rest => TextUnits.Ok .text .dquote t ('"' :: rest)
    | .dollarSingleQuote es, _ => ctx = .word ∧ ∀ u ∈ es, u.Producible ∧ u ≠ .literal '\''
    | .tilde _ _, _ => False
  def WordUnits.Ok (ctx : Ctx) (d : Delim) : List WordUnit → List Char → Prop
    | [], _ => True
    | u :: us, rest => WordUnit.Ok ctx d u (printWord us ++ rest) ∧ WordUnits.Ok ctx d us rest
end

end YashModel.Syntax
