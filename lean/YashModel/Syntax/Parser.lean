/-
  C06 — Impl model, part 3: tokens, redirections and simple commands.

  Transcription of `lex/op.rs` (`OPERATORS` trie, `operator`), `lex/misc.rs` (`skip_comment`),
  `lex/token.rs` (`token`, `token_id`), `parser/core.rs` (`require_token`: blanks and a comment are
  skipped before every token; `has_blank`), `parser/redir.rs` (`redirection`, `redirection_body`,
  `redirection_operand`), `syntax/conversions.rs` (`Assign::try_from`) and `parser/simple_command.rs`
  (`simple_command`) in the non-portable mode and without aliases (as `List::from_str`).
  A peeked token is modelled by lexing again from the same position.

  Array assignments `a=(…)` are modelled since wave 3 (`parseArrayWords` = `array_values`).
  Not modelled (the parser model answers `none`, like on a syntax error):
  the tilde expansions that `parse_tilde_everywhere` makes in assignment values and in `name=value` words of
  declaration utilities (the model refuses such words when they contain an unquoted `~`), and everything
  the model lexer does not cover.
-/
import YashModel.Syntax.Lexer
namespace YashModel.Syntax

/-! ## Operators -/

inductive Op
  | newline | and | andAnd | openParen | closeParen | semicolon | semicolonAnd | semicolonSemicolon
  | semicolonSemicolonAnd | semicolonBar | less | lessAnd | lessOpenParen | lessLess | lessLessDash
  | lessLessLess | lessGreater | greater | greaterAnd | greaterOpenParen | greaterGreater
  | greaterGreaterBar | greaterBar | bar | barBar
  deriving DecidableEq, Repr

/-- one level of `operator_tail`: follow an edge of the trie if the next character has one -/
def opTail (r : List Char) (edges : List (Char × Op)) (dflt : Op) : Op × List Char :=
  match skipLC r with
  | [] => (dflt, [])
  | c :: r' =>
    match edges.lookup c with
    | some o => (o, r')
    | none => (dflt, c :: r')

/-- `Lexer::operator` (longest match in the `OPERATORS` trie) -/
def lexOperator (cs : List Char) : Option (Op × List Char) :=
  match skipLC cs with
  | [] => none
  | c :: r =>
    if c = '\n' then some (.newline, r)
    else if c = '&' then some (opTail r [('&', .andAnd)] .and)
    else if c = '(' then some (.openParen, r)
    else if c = ')' then some (.closeParen, r)
    else if c = ';' then
      let p := opTail r [('&', .semicolonAnd), (';', .semicolonSemicolon), ('|', .semicolonBar)] .semicolon
      if p.1 = .semicolonSemicolon then some (opTail p.2 [('&', .semicolonSemicolonAnd)] .semicolonSemicolon)
      else some p
    else if c = '<' then
      let p := opTail r [('&', .lessAnd), ('(', .lessOpenParen), ('<', .lessLess), ('>', .lessGreater)] .less
      if p.1 = .lessLess then some (opTail p.2 [('-', .lessLessDash), ('<', .lessLessLess)] .lessLess)
      else some p
    else if c = '>' then
      let p := opTail r [('&', .greaterAnd), ('(', .greaterOpenParen), ('>', .greaterGreater),
        ('|', .greaterBar)] .greater
      if p.1 = .greaterGreater then some (opTail p.2 [('|', .greaterGreaterBar)] .greaterGreater)
      else some p
    else if c = '|' then some (opTail r [('|', .barBar)] .bar)
    else none

/-- `RedirOp::try_from(Operator)` -/
def redirOpOf : Op → Option RedirOp
  | .less => some .fileIn | .lessGreater => some .fileInOut | .greater => some .fileOut
  | .greaterGreater => some .fileAppend | .greaterBar => some .fileClobber | .lessAnd => some .fdIn
  | .greaterAnd => some .fdOut | .greaterGreaterBar => some .pipe | .lessLessLess => some .string
  | _ => none

/-! ## Tokens -/

inductive TokId
  | word (keyword : Bool)      -- `Token(Option<Keyword>)`
  | op (o : Op)
  | ioNumber
  | ioLocation
  | endOfInput
  deriving DecidableEq, Repr

structure Token where
  word : Word
  id : TokId

/-- `skip_comment` -/
def skipComment (cs : List Char) : List Char :=
  match skipLC cs with
  | [] => []
  | c :: r => if c = '#' then r.dropWhile (· ≠ '\n') else c :: r

/-- `matches!(self.peek_char(), Some('<' | '>'))` -/
def nextIsAngle (cs : List Char) : Bool :=
  match skipLC cs with
  | [] => false
  | c :: _ => c = '<' || c = '>'

def isLitChar (c : Char) : WordUnit → Bool
  | .unquoted (.literal x) => x = c
  | _ => false

/-- the `braced` test of `token_id` on the last unit -/
def closesIoLocation (n : Nat) : WordUnit → Bool
  | .unquoted (.literal c) => c = '}' && decide (3 ≤ n)
  | .unquoted (.backslashed c) => c = '}'
  | .unquoted (.bracedParam _ _) => true
  | _ => false

/-- `token_id` -/
def tokenId (w : Word) (rest : List Char) : TokId :=
  if w.isEmpty then .endOfInput else
  let lit := wordLiteral w
  if (lit.map isKeyword).getD false then .word true
  else if (lit.map fun s => s.all isAsciiDigit).getD false && nextIsAngle rest then .ioNumber
  else if (w.head?.map (isLitChar '{')).getD false &&
      (w.getLast?.map (closesIoLocation w.length)).getD false && nextIsAngle rest then .ioLocation
  else .word false

/-- the parser's next token: `skip_blanks_and_comment`, then `Lexer::token` -/
def lexToken (cs : List Char) : Option (Token × List Char) :=
  let cs := skipComment (skipBlanks cs.length cs)
  match lexOperator cs with
  | some (o, r) => some (⟨[], .op o⟩, r)
  | none =>
    match lexWord .token cs with
    | none => none
    | some (w, r) => some (⟨parseTildeFront w, tokenId (parseTildeFront w) r⟩, r)

/-! ## Redirections -/

/-- value of a run of decimal digits -/
def digitsValue (s : List Char) : Nat := s.foldl (fun acc c => acc * 10 + (c.toNat - 48)) 0

/-- `token.word.to_string().parse::<RawFd>()` of an IO_NUMBER token -/
def fdOf (w : Word) : Option Nat :=
  match wordLiteral w with
  | some s => if digitsValue s ≤ 2147483647 then some (digitsValue s) else none
  | none => none

/-- `redirection_operand` -/
def parseOperand (cs : List Char) : Option (Word × List Char) :=
  match lexToken cs with
  | none => none
  | some (t, r) =>
    match t.id with
    | .word _ => some (t.word, r)
    | .ioNumber => some (t.word, r)
    | .ioLocation => some (t.word, r)
    | _ => none                                    -- MissingRedirOperand / MissingHereDocDelimiter

/-- `redirection_body`; the outer `none` is a syntax error, `some (none, _)` "no redirection here" -/
def parseRedirBody (fd : Option Nat) (cs : List Char) : Option (Option Redir × List Char) :=
  match lexToken cs with
  | none => none
  | some (t, r) =>
    match t.id with
    | .op o =>
      match redirOpOf o with
      | some rop => (parseOperand r).map fun p => (some (.normal fd rop p.1), p.2)
      | none =>
        if o = .lessLess then (parseOperand r).map fun p => (some (.hereDoc fd false p.1), p.2)
        else if o = .lessLessDash then (parseOperand r).map fun p => (some (.hereDoc fd true p.1), p.2)
        else if o = .lessOpenParen || o = .greaterOpenParen then none
        else some (none, cs)
    | _ => some (none, cs)

/-- `Parser::redirection` -/
def parseRedir (cs : List Char) : Option (Option Redir × List Char) :=
  match lexToken cs with
  | none => none
  | some (t, r) =>
    match t.id with
    | .ioNumber =>
      match fdOf t.word with
      | some n => parseRedirBody (some n) r
      | none => none                               -- FdOutOfRange
    | .ioLocation => none                          -- InvalidIoLocation
    | _ => parseRedirBody none cs

/-! ## Simple commands -/

/-- the split of `Assign::try_from`: literal characters up to the first unquoted `=` -/
def splitAssign : Word → Option (List Char × Word)
  | .unquoted (.literal c) :: us =>
    if c = '=' then some ([], us)
    else match splitAssign us with
      | some (n, v) => some (c :: n, v)
      | none => none
  | _ => none

/-- `Assign::try_from(word)`: name and value (before `parse_tilde_everywhere`) -/
def assignOf (w : Word) : Option (List Char × Word) :=
  match splitAssign w with
  | some (n, v) => if n.isEmpty then none else some (n, v)
  | none => none

def hasUnquotedTilde (w : Word) : Bool := w.any (isLitChar '~')

/-- `!self.has_blank() && peek == OpenParen` -/
def arrayFollows (cs : List Char) : Bool :=
  match skipLC cs with
  | [] => false
  | c :: _ => c = '('

/-- the loop of `Parser::array_values` after the opening parenthesis: words up to `)`, newlines skipped;
    any other token is `UnclosedArrayValue` -/
def parseArrayWords : Nat → List Char → Option (List Word × List Char)
  | 0, _ => none
  | fuel + 1, cs =>
    match lexToken cs with
    | none => none
    | some (t, r) =>
      match t.id with
      | .op o =>
        if o = .newline then parseArrayWords fuel r
        else if o = .closeParen then some ([], r)
        else none
      | .word _ => (parseArrayWords fuel r).map fun p => (t.word :: p.1, p.2)
      | _ => none

structure Builder where
  assigns : List Assign
  words : List Word
  redirs : List Redir

def Builder.isEmpty (b : Builder) : Bool := b.assigns.isEmpty && b.words.isEmpty && b.redirs.isEmpty

/-- the loop of `Parser::simple_command` -/
def parseSimpleLoop : Nat → Builder → List Char → Option (Builder × List Char)
  | 0, _, _ => none
  | fuel + 1, b, cs =>
    match parseRedir cs with
    | none => none
    | some (some r, cs') => parseSimpleLoop fuel { b with redirs := b.redirs ++ [r] } cs'
    | some (none, _) =>
      match lexToken cs with
      | none => none
      | some (t, cs') =>
        match t.id with
        | .word kw =>
          if kw && b.isEmpty then some (b, cs)
          else if b.words.isEmpty then
            match assignOf t.word with
            | some (name, v) =>
              if hasUnquotedTilde v then none            -- `parse_tilde_everywhere`: not modelled
              else if v.isEmpty && arrayFollows cs' then
                -- `array_values`: the `(` directly after `name=` starts an array
                match lexToken cs' with
                | some (t, r) =>
                  if t.id = .op .openParen then
                    match parseArrayWords (r.length + 2) r with
                    | some (ws, cs'') =>
                      parseSimpleLoop fuel { b with assigns := b.assigns ++ [⟨name, .array ws⟩] } cs''
                    | none => none
                  else none
                | none => none
              else parseSimpleLoop fuel { b with assigns := b.assigns ++ [⟨name, .scalar v⟩] } cs'
            | none => parseSimpleLoop fuel { b with words := b.words ++ [t.word] } cs'
          else if hasUnquotedTilde t.word && (assignOf t.word).isSome then none
            -- a `name=value` word of a declaration utility would get tilde expansions: not modelled
          else parseSimpleLoop fuel { b with words := b.words ++ [t.word] } cs'
        | _ => some (b, cs)

/-- `Parser::simple_command`: `some none` = no simple command starts here -/
def parseSimple (fuel : Nat) (cs : List Char) : Option (Option SimpleCommand × List Char) :=
  match parseSimpleLoop fuel ⟨[], [], []⟩ cs with
  | none => none
  | some (b, r) => some (if b.isEmpty then none else some ⟨b.assigns, b.words, b.redirs⟩, r)

end YashModel.Syntax
