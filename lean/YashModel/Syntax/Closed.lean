/-
  C06 — the closed fragment of command trees and the composition of the layers (`structure_roundtrip`).
-/
import YashModel.Syntax.CompoundLemmas
namespace YashModel.Syntax

/-! ## Composition: the closed fragment of command trees -/

mutual
  /-- commands of the fragment, given the text that follows -/
  def CommandOk : Command → List Char → Prop
    | .simple c, tail => SimpleOk c tail ∧ TailOk tail
    | .compound c rs, tail => CompoundOk c (printRedirsSp rs ++ tail) ∧ RedirsOk rs tail ∧ TailOk tail
    | .function kw name body rs, tail =>
      kw = false ∧
      FnNameOk name ('(' :: ')' :: ' ' :: (printCompound body ++ (printRedirsSp rs ++ tail))) ∧
      CompoundOk body (printRedirsSp rs ++ tail) ∧ RedirsOk rs tail ∧ TailOk tail
  def CompoundOk : CompoundCommand → List Char → Prop
    | .grouping l, t => l ≠ [] ∧ ItemsOk true l (' ' :: ("}".toList ++ t))
    | .subshell l, t => l ≠ [] ∧ ItemsOk false l (')' :: t)
    | .whileLoop c b, t =>
      c ≠ [] ∧ b ≠ [] ∧
      ItemsOk true c (' ' :: ("do".toList ++ ' ' :: (printList true b ++ ' ' :: ("done".toList ++ t)))) ∧
      ItemsOk true b (' ' :: ("done".toList ++ t))
    | .untilLoop c b, t =>
      c ≠ [] ∧ b ≠ [] ∧
      ItemsOk true c (' ' :: ("do".toList ++ ' ' :: (printList true b ++ ' ' :: ("done".toList ++ t)))) ∧
      ItemsOk true b (' ' :: ("done".toList ++ t))
    | .ifCmd c b es hasElse e, t =>
      c ≠ [] ∧ b ≠ [] ∧ (if hasElse then e ≠ [] else e = []) ∧
      ItemsOk true c (' ' :: ("then".toList ++ ' ' :: (printList true b ++ ' ' ::
        elifText es (if hasElse then "else".toList ++ ' ' :: (printList true e ++ ' ' :: ("fi".toList ++ t))
          else "fi".toList ++ t)))) ∧
      ItemsOk true b (' ' :: elifText es (if hasElse then "else".toList ++ ' ' ::
        (printList true e ++ ' ' :: ("fi".toList ++ t)) else "fi".toList ++ t)) ∧
      ElifsOk es (if hasElse then "else".toList ++ ' ' :: (printList true e ++ ' ' :: ("fi".toList ++ t))
        else "fi".toList ++ t) ∧
      ItemsOk true e (' ' :: ("fi".toList ++ t))
    | .forLoop name values b, t =>
      b ≠ [] ∧
      TokWordOk name ((match values with
        | some vs => ' ' :: ("in".toList ++ (printWordsSp vs ++ [';']))
        | none => []) ++ (' ' :: ("do".toList ++ ' ' :: (printList true b ++ ' ' :: ("done".toList ++ t))))) ∧
      (match values with
        | some vs => ForWordsOk vs (';' :: ' ' :: ("do".toList ++ ' ' ::
            (printList true b ++ ' ' :: ("done".toList ++ t))))
        | none => True) ∧
      ItemsOk true b (' ' :: ("done".toList ++ t))
    | .caseCmd subject items, t =>
      TokWordOk subject (' ' :: ("in".toList ++ ' ' :: caseText items ("esac".toList ++ t))) ∧
      CaseItemsOk items ("esac".toList ++ t)
  def CaseItemsOk : List CaseItem → List Char → Prop
    | [], _ => True
    | .mk ps b k :: rest, after =>
      PatsOk ps (')' :: ' ' :: (printList false b ++ (k.str ++ ' ' :: caseText rest after))) ∧
      ItemsOk false b (k.str ++ ' ' :: caseText rest after) ∧ CaseItemsOk rest after
  def ElifsOk : List ElifThen → List Char → Prop
    | [], _ => True
    | .mk c b :: rest, after =>
      c ≠ [] ∧ b ≠ [] ∧
      ItemsOk true c (' ' :: ("then".toList ++ ' ' :: (printList true b ++ ' ' :: elifText rest after))) ∧
      ItemsOk true b (' ' :: elifText rest after) ∧ ElifsOk rest after
  def CommandsOk : List Command → List Char → Prop
    | [], _ => True
    | c :: cs, tail => CommandOk c (pipeRest cs tail) ∧ CommandsOk cs tail
  def PipelineOk : Pipeline → List Char → Prop
    | .mk cs _, tail => cs ≠ [] ∧ CommandsOk cs tail
  def AndOrRestOk : List AndOrRest → List Char → Prop
    | [], _ => True
    | .mk _ p :: rs, tail => PipelineOk p (aoRest rs tail) ∧ AndOrRestOk rs tail
  def AndOrOk : AndOrList → List Char → Prop
    | .mk p rs, tail => PipelineOk p (aoRest rs tail) ∧ AndOrRestOk rs tail
  def ItemsOk (alt : Bool) : List Item → List Char → Prop
    | [], _ => True
    | [.mk a async], tail => AndOrOk a ((if async then ['&'] else if alt then [';'] else []) ++ tail)
    | .mk a async :: j :: rest, tail =>
      AndOrOk a ((if async then '&' else ';') :: ' ' :: listText alt (j :: rest) tail) ∧
      ItemsOk alt (j :: rest) tail
end

mutual
  def cdepth : Command → Nat
    | .simple _ => 0
    | .compound c _ => cpdepth c + 1
    | .function _ _ c _ => cpdepth c + 1
  def cpdepth : CompoundCommand → Nat
    | .grouping l => ldepth l
    | .subshell l => ldepth l
    | .forLoop _ _ b => ldepth b
    | .whileLoop c b => max (ldepth c) (ldepth b)
    | .untilLoop c b => max (ldepth c) (ldepth b)
    | .ifCmd c b es hasElse e =>
      max (max (ldepth c) (ldepth b)) (max (edepth es) (if hasElse then ldepth e else 0))
    | .caseCmd _ items => cidepth items
  def edepth : List ElifThen → Nat
    | [] => 0
    | .mk c b :: rest => max (max (ldepth c) (ldepth b)) (edepth rest)
  def cidepth : List CaseItem → Nat
    | [] => 0
    | .mk _ b _ :: rest => max (ldepth b) (cidepth rest)
  def csdepth : List Command → Nat
    | [] => 0
    | c :: cs => max (cdepth c) (csdepth cs)
  def pdepth : Pipeline → Nat
    | .mk cs _ => csdepth cs
  def rdepth : List AndOrRest → Nat
    | [] => 0
    | .mk _ p :: rs => max (pdepth p) (rdepth rs)
  def adepth : AndOrList → Nat
    | .mk p rs => max (pdepth p) (rdepth rs)
  def ldepth : List Item → Nat
    | [] => 0
    | .mk a _ :: rest => max (adepth a) (ldepth rest)
end


def openers : List String :=
  ["{", "for", "while", "until", "if", "case", "function", "[[", "namespace", "select"]

theorem noStart_kw (k : String) (hno : ∀ k' ∈ openers, k'.toList ≠ k.toList) :
    NoStart ⟨digitsWord k.toList, .word true⟩ := by
  left
  refine ⟨rfl, ?_⟩
  intro k' hk'
  have := hno k' hk'
  simp only [Token.isKw, wordLiteral_digitsWord, Bool.and_eq_false_imp]
  intro _
  simp only [decide_eq_false_iff_not, Option.some.injEq]
  exact fun e => this e.symm

/-- the properties of the command parser used by the composition -/
structure PcOk (pc : CmdParser) (n : Nat) : Prop where
  cmd : ∀ c tail, CommandOk c tail → cdepth c ≤ n → CmdRT pc c tail
  none : ∀ cs t r, lexToken cs = some (t, r) → NoStart t → pc cs = some (none, cs)

theorem noCmdAt_of (pc : CmdParser) (n : Nat) (hpc : PcOk pc n) (tail : List Char) (t : Token)
    (r : List Char) (hl : lexToken tail = some (t, r)) (hns : NoStart t) (hb : t.isKw "!" = false) :
    NoCmdAt pc tail := by
  have := hpc.none tail t r hl hns
  simp [NoCmdAt, parseAndOr, parsePipeline, this, hl, hb]

def closers : List String := ["do", "done", "elif", "else", "esac", "fi", "then", "}"]

theorem listEnd_kw (pc : CmdParser) (n : Nat) (hpc : PcOk pc n) (k : String) (hk : Kw k)
    (hc : k ∈ closers) (next : List Char) (hn : NextOk next) (alt : Bool) :
    ListEnd pc alt (' ' :: (k.toList ++ next)) ∧ CloserAt (' ' :: (k.toList ++ next)) := by
  have hl := lexToken_kw_exact k hk next hn true
  simp only [if_true, List.singleton_append] at hl
  have hno : ∀ k' ∈ openers, k'.toList ≠ k.toList := by
    simp only [closers, List.mem_cons, List.not_mem_nil, or_false] at hc
    rcases hc with rfl | rfl | rfl | rfl | rfl | rfl | rfl | rfl <;> decide
  have hbang : (Token.mk (digitsWord k.toList) (.word true)).isKw "!" = false := by
    simp only [closers, List.mem_cons, List.not_mem_nil, or_false] at hc
    rcases hc with rfl | rfl | rfl | rfl | rfl | rfl | rfl | rfl <;> decide
  have hcd : (Token.mk (digitsWord k.toList) (.word true)).isClauseDelimiter = true := by
    simp only [closers, List.mem_cons, List.not_mem_nil, or_false] at hc
    rcases hc with rfl | rfl | rfl | rfl | rfl | rfl | rfl | rfl <;> decide
  have hlt : ListTail (' ' :: (k.toList ++ next)) := Or.inl ⟨_, rfl⟩
  refine ⟨⟨noCmdAt_of pc n hpc _ _ _ hl (noStart_kw k hno) hbang, lexToken_amp _ hlt,
    fun _ => lexToken_semi _ hlt, ?_, ⟨_, _, hl⟩⟩, ⟨_, _, hl, by simp [Token.isOp], hcd⟩⟩
  intro t r h
  rw [hl] at h
  cases h
  simp [Token.isOp]

theorem listEnd_rparen (pc : CmdParser) (n : Nat) (hpc : PcOk pc n) (x : List Char) :
    ListEnd pc false (')' :: x) ∧ CloserAt (')' :: x) := by
  have hl := lexToken_rparen x
  have hns : NoStart ⟨[], .op .closeParen⟩ := Or.inr ⟨.closeParen, rfl, by decide⟩
  have hlt : ListTail (')' :: x) := Or.inr ⟨_, rfl⟩
  refine ⟨⟨noCmdAt_of pc n hpc _ _ _ hl hns (by simp [Token.isKw]), lexToken_amp _ hlt,
    (fun h => Bool.noConfusion h), ?_, ⟨_, _, hl⟩⟩,
    ⟨_, _, hl, by simp [Token.isOp], by simp [Token.isClauseDelimiter]⟩⟩
  intro t r h
  rw [hl] at h
  cases h
  simp [Token.isOp]


theorem endsWithout_mono (tail : List Char) (a b : List Op) (h : EndsWithout tail a)
    (hs : ∀ x ∈ b, x ∈ a) : EndsWithout tail b :=
  ⟨h.1, fun o r hl hm => h.2 o r hl (hs o hm)⟩

theorem cmds_rt (pc : CmdParser) (n : Nat) (hpc : PcOk pc n) (tail : List Char) :
    ∀ cs, CommandsOk cs tail → csdepth cs ≤ n → CmdsRT pc cs tail := by
  intro cs
  induction cs with
  | nil => intro _ _; trivial
  | cons c cs ih =>
    intro h hd
    simp only [CommandsOk] at h
    simp only [csdepth] at hd
    exact ⟨hpc.cmd c _ h.1 (by omega), ih h.2 (by omega)⟩

theorem headOk_bang (x : List Char) : HeadOk ('!' :: ' ' :: x) :=
  ⟨'!', ' ' :: x, rfl, by decide, by decide, by decide, skipLC_cons_ne _ _ (by decide)⟩

theorem pipe_rt (pc : CmdParser) (n : Nat) (hpc : PcOk pc n) (p : Pipeline) (tail : List Char)
    (h : PipelineOk p tail) (hd : pdepth p ≤ n) (he : EndsWithout tail [.bar]) : PipeRT pc p tail := by
  obtain ⟨cs, neg⟩ := p
  simp only [PipelineOk] at h
  simp only [pdepth] at hd
  cases cs with
  | nil => exact absurd rfl h.1
  | cons c cs =>
    have hcs := cmds_rt pc n hpc tail (c :: cs) h.2 hd
    have hbang : neg = true → ∀ x, pc ('!' :: ' ' :: x) = some (none, '!' :: ' ' :: x) ∧
        pc (' ' :: '!' :: ' ' :: x) = some (none, ' ' :: '!' :: ' ' :: x) := by
      intro _ x
      have hns := noStart_kw "!" (by decide)
      have h1 := lexToken_kw_exact "!" kw_bang (' ' :: x) (nextOk_blank x) false
      have h2 := lexToken_kw_exact "!" kw_bang (' ' :: x) (nextOk_blank x) true
      exact ⟨hpc.none _ _ _ (by simpa using h1) hns, hpc.none _ _ _ (by simpa using h2) hns⟩
    refine ⟨?_, fun sp => pipeline_rt pc neg c cs tail he hcs hbang sp⟩
    cases neg with
    | true => simpa [printPipeline, str] using headOk_bang (printCommands (c :: cs) ++ tail)
    | false =>
      have := hcs.1.1
      simpa [printPipeline, printCommands_cons] using this

theorem pipes_rt (pc : CmdParser) (n : Nat) (hpc : PcOk pc n) (tail : List Char)
    (he : EndsWithout tail contOps) :
    ∀ rs, AndOrRestOk rs tail → rdepth rs ≤ n → PipesRT pc rs tail := by
  intro rs
  induction rs with
  | nil => intro _ _; trivial
  | cons r rs ih =>
    intro h hd
    obtain ⟨isAnd, p⟩ := r
    simp only [AndOrRestOk] at h
    simp only [rdepth] at hd
    refine ⟨pipe_rt pc n hpc p _ h.1 (by omega) ?_, ih h.2 (by omega)⟩
    cases rs with
    | nil => exact endsWithout_mono _ _ _ he (by decide)
    | cons r' rs' => exact ends_aoRest r' rs' tail

theorem andor_rt (pc : CmdParser) (n : Nat) (hpc : PcOk pc n) (a : AndOrList) (tail : List Char)
    (h : AndOrOk a tail) (hd : adepth a ≤ n) (he : EndsWithout tail contOps) : AndOrRT pc a tail := by
  obtain ⟨p, rs⟩ := a
  simp only [AndOrOk] at h
  simp only [adepth] at hd
  have hp : PipeRT pc p (aoRest rs tail) := by
    apply pipe_rt pc n hpc p _ h.1 (by omega)
    cases rs with
    | nil => exact endsWithout_mono _ _ _ he (by decide)
    | cons r' rs' => exact ends_aoRest r' rs' tail
  have hrs := pipes_rt pc n hpc tail he rs h.2 (by omega)
  refine ⟨?_, fun sp => andOr_rt pc p rs tail (endsWithout_mono _ _ _ he (by decide)) hp hrs sp⟩
  have := hp.1
  simpa [printAndOr, printAndOrRest_eq] using this

theorem items_rt (pc : CmdParser) (n : Nat) (hpc : PcOk pc n) (alt : Bool) (tail : List Char)
    (hamp : EndsWithout ('&' :: tail) contOps) (hsemi : alt = true → EndsWithout (';' :: tail) contOps)
    (he : alt = false → EndsWithout tail contOps) :
    ∀ l, ItemsOk alt l tail → ldepth l ≤ n → ItemsRT pc alt l tail := by
  intro l
  induction l with
  | nil => intro _ _; trivial
  | cons i l ih =>
    intro h hd
    obtain ⟨a, async⟩ := i
    cases l with
    | nil =>
      simp only [ItemsOk] at h
      simp only [ldepth] at hd
      simp only [ItemsRT]
      apply andor_rt pc n hpc a _ h (by omega)
      cases async with
      | true => simpa using hamp
      | false =>
        cases alt with
        | true => simpa using hsemi rfl
        | false => simpa using he rfl
    | cons j rest =>
      simp only [ItemsOk] at h
      simp only [ldepth] at hd
      simp only [ItemsRT]
      refine ⟨andor_rt pc n hpc a _ h.1 (by omega) ?_, ih h.2 (by omega)⟩
      cases async with
      | true => simpa using ends_amp _ (Or.inl ⟨_, rfl⟩) contOps (fun _ h => h)
      | false => simpa using ends_semi _ (Or.inl ⟨_, rfl⟩) contOps (fun _ h => h)

theorem list_rt' (pc : CmdParser) (n : Nat) (hpc : PcOk pc n) (alt : Bool) (l : List Item) (tail : List Char)
    (hamp : EndsWithout ('&' :: tail) contOps) (hsemi : alt = true → EndsWithout (';' :: tail) contOps)
    (he : alt = false → EndsWithout tail contOps)
    (hend : ListEnd pc alt tail ∧ CloserAt tail) (h : ItemsOk alt l tail) (hd : ldepth l ≤ n) :
    ListRT pc alt l tail := by
  intro sp hsp fuel hf
  exact compoundList_rt pc alt l tail hend.1 hend.2 (items_rt pc n hpc alt tail hamp hsemi he l h hd) sp hsp
    fuel hf

theorem list_rt (pc : CmdParser) (n : Nat) (hpc : PcOk pc n) (alt : Bool) (l : List Item) (tail : List Char)
    (hlt : ListTail tail) (he : alt = false → EndsWithout tail contOps)
    (hend : ListEnd pc alt tail ∧ CloserAt tail) (h : ItemsOk alt l tail) (hd : ldepth l ≤ n) :
    ListRT pc alt l tail :=
  list_rt' pc n hpc alt l tail (ends_amp tail hlt contOps (fun _ h => h))
    (fun _ => ends_semi tail hlt contOps (fun _ h => h)) he hend h hd


/-- a list that ends in front of ` <closer> next` -/
theorem list_rt_kw (pc : CmdParser) (n : Nat) (hpc : PcOk pc n) (l : List Item) (k : String) (hk : Kw k)
    (hc : k ∈ closers) (next : List Char) (hn : NextOk next)
    (h : ItemsOk true l (' ' :: (k.toList ++ next))) (hd : ldepth l ≤ n) :
    ListRT pc true l (' ' :: (k.toList ++ next)) :=
  list_rt pc n hpc true l _ (Or.inl ⟨_, rfl⟩) (fun e => Bool.noConfusion e)
    (listEnd_kw pc n hpc k hk hc next hn true) h hd

/-- the text after an `if` body / `elif` body starts with a closer -/
def AfterOk (after : List Char) : Prop :=
  ∃ (k : String) (next : List Char), Kw k ∧ k ∈ closers ∧ NextOk next ∧ after = k.toList ++ next

theorem elifText_afterOk (es : List ElifThen) (after : List Char) (h : AfterOk after) :
    AfterOk (elifText es after) := by
  cases es with
  | nil => simpa [elifText] using h
  | cons e es =>
    obtain ⟨c, b⟩ := e
    exact ⟨"elif", _, kw_elif, by decide, nextOk_blank _, by simp [elifText]; rfl⟩

theorem list_rt_after (pc : CmdParser) (n : Nat) (hpc : PcOk pc n) (l : List Item) (after : List Char)
    (ha : AfterOk after) (h : ItemsOk true l (' ' :: after)) (hd : ldepth l ≤ n) :
    ListRT pc true l (' ' :: after) := by
  obtain ⟨k, next, hk, hc, hn, rfl⟩ := ha
  exact list_rt_kw pc n hpc l k hk hc next hn h hd

theorem elifs_rt (pc : CmdParser) (n : Nat) (hpc : PcOk pc n) (after : List Char) (ha : AfterOk after) :
    ∀ es, ElifsOk es after → edepth es ≤ n → ElifsRT pc es after := by
  intro es
  induction es with
  | nil => intro _ _; trivial
  | cons e es ih =>
    intro h hd
    obtain ⟨c, b⟩ := e
    simp only [ElifsOk] at h
    simp only [edepth] at hd
    obtain ⟨hc, hb, h1, h2, h3⟩ := h
    exact ⟨hc, hb, list_rt_kw pc n hpc c "then" kw_then (by decide) _ (nextOk_blank _) h1 (by omega),
      list_rt_after pc n hpc b _ (elifText_afterOk es after ha) h2 (by omega), ih h3 (by omega)⟩


/-- `&` in front of a case terminator is read alone -/
theorem lexToken_amp_cont (k : CaseCont) (x : List Char) :
    lexToken ('&' :: (k.str ++ ' ' :: x)) = some (⟨[], .op .and⟩, k.str ++ ' ' :: x) := by
  apply lexToken_op1 '&' _ .and ⟨by decide, by decide, by decide⟩
  cases k <;> simp [CaseCont.str, lexOperator, opTail, skipLC_cons_ne, List.lookup]

theorem tailOk_cont (k : CaseCont) (x : List Char) (sp : Bool) :
    TailOk ((if sp then [' '] else []) ++ (k.str ++ ' ' :: x)) := by
  cases k
  · exact Or.inr ⟨sp, ';', ';' :: ' ' :: x, by simp [CaseCont.str], Or.inl rfl⟩
  · exact Or.inr ⟨sp, ';', '&' :: ' ' :: x, by simp [CaseCont.str], Or.inl rfl⟩
  · exact Or.inr ⟨sp, ';', '|' :: ' ' :: x, by simp [CaseCont.str], Or.inl rfl⟩

theorem contOp_facts (k : CaseCont) :
    (contOp k).plain = true ∧ contOp k ∉ contOps ∧ contOp k ≠ .semicolon ∧ contOp k ≠ .and ∧
      contOp k ≠ .newline ∧ (Token.mk [] (.op (contOp k))).isClauseDelimiter = true := by
  cases k <;> decide

theorem listEnd_cont (pc : CmdParser) (n : Nat) (hpc : PcOk pc n) (k : CaseCont) (x : List Char) (sp : Bool) :
    ListEnd pc false ((if sp then [' '] else []) ++ (k.str ++ ' ' :: x)) ∧
      CloserAt ((if sp then [' '] else []) ++ (k.str ++ ' ' :: x)) ∧
      EndsWithout ((if sp then [' '] else []) ++ (k.str ++ ' ' :: x)) contOps := by
  have hl := lexToken_cont k x sp
  obtain ⟨f1, f2, f3, f4, f5, f6⟩ := contOp_facts k
  have hns : NoStart ⟨[], .op (contOp k)⟩ := Or.inr ⟨_, rfl, f1⟩
  have hamp : lexToken ('&' :: ((if sp then [' '] else []) ++ (k.str ++ ' ' :: x))) =
      some (⟨[], .op .and⟩, (if sp then [' '] else []) ++ (k.str ++ ' ' :: x)) := by
    cases sp with
    | false => simpa using lexToken_amp_cont k x
    | true => simpa using lexToken_amp (' ' :: (k.str ++ ' ' :: x)) (Or.inl ⟨_, rfl⟩)
  refine ⟨⟨noCmdAt_of pc n hpc _ _ _ hl hns (by simp [Token.isKw]), hamp, (fun h => Bool.noConfusion h), ?_,
    ⟨_, _, hl⟩⟩, ⟨_, _, hl, by simp [Token.isOp, f5], f6⟩,
    endsWithout_of _ (tailOk_cont k x sp) _ _ hl _ f2⟩
  intro t r h
  rw [hl] at h
  cases h
  simp [Token.isOp, f3, f4]

theorem ends_amp_cont (k : CaseCont) (x : List Char) : EndsWithout ('&' :: (k.str ++ ' ' :: x)) contOps :=
  endsWithout_of _ (tailOk_cons '&' _ (Or.inr (Or.inl rfl))) _ _ (lexToken_amp_cont k x) _ (by decide)

theorem caseItems_rt (pc : CmdParser) (n : Nat) (hpc : PcOk pc n) (after : List Char) :
    ∀ items, CaseItemsOk items after → cidepth items ≤ n → CaseItemsRT pc items after := by
  intro items
  induction items with
  | nil => intro _ _; trivial
  | cons i items ih =>
    intro h hd
    obtain ⟨ps, b, k⟩ := i
    simp only [CaseItemsOk] at h
    simp only [cidepth] at hd
    obtain ⟨hps, hb, hrest⟩ := h
    refine ⟨hps, ?_, ih hrest (by omega)⟩
    cases b with
    | nil =>
      obtain ⟨he, hc, _⟩ := listEnd_cont pc n hpc k (caseText items after) true
      simp only [if_true, List.singleton_append] at he hc
      refine ⟨' ' :: (k.str ++ ' ' :: caseText items after), ?_, by
        simpa using lexToken_cont k (caseText items after) true⟩
      intro fuel hf
      have := compoundList_rt pc false [] _ he hc trivial false (fun _ => rfl) fuel hf
      simpa [printList] using this
    | cons j rest =>
      obtain ⟨he, hc, hew⟩ := listEnd_cont pc n hpc k (caseText items after) false
      simp only [Bool.false_eq_true, if_false, List.nil_append] at he hc hew
      have hl := list_rt' pc n hpc false (j :: rest) _ (ends_amp_cont k _) (fun e => Bool.noConfusion e)
        (fun _ => hew) ⟨he, hc⟩ hb (by omega)
      refine ⟨k.str ++ ' ' :: caseText items after, ?_, by
        simpa using lexToken_cont k (caseText items after) false⟩
      intro fuel hf
      have := hl true (fun e => by cases e) fuel hf
      simpa using this

/-- layer 4 composed: every compound command of the closed fragment reads back -/
theorem compound_rt (pc : CmdParser) (n : Nat) (hpc : PcOk pc n) (c : CompoundCommand) (t : List Char)
    (hn : NextOk t) (h : CompoundOk c t) (hd : cpdepth c ≤ n) (sp : Bool) :
    parseCompound pc ((if sp then [' '] else []) ++ (printCompound c ++ t)) = some (some c, t) := by
  cases c with
  | grouping l =>
    simp only [CompoundOk] at h
    simp only [cpdepth] at hd
    exact grouping_rt pc l h.1 t hn (list_rt_kw pc n hpc l "}" kw_rbrace (by decide) t hn h.2 hd) sp
  | subshell l =>
    simp only [CompoundOk] at h
    simp only [cpdepth] at hd
    have hl := list_rt pc n hpc false l (')' :: t) (Or.inr ⟨_, rfl⟩)
      (fun _ => ends_rparen t contOps (fun _ h => h)) (listEnd_rparen pc n hpc t) h.2 hd
    apply subshell_rt pc l h.1 t ?_ ?_ hl sp
    · intro sp'
      exact ⟨_, lexToken_lparen _ sp', by simp [Token.isOp], fun k => by simp [Token.isKw]⟩
    · simp [expectOp, lexToken_rparen, Token.isOp]
  | whileLoop c b =>
    simp only [CompoundOk] at h
    simp only [cpdepth] at hd
    obtain ⟨hc, hb, h1, h2⟩ := h
    exact while_rt pc true c b hc hb t hn
      (list_rt_kw pc n hpc c "do" kw_do (by decide) _ (nextOk_blank _) h1 (by omega))
      (list_rt_kw pc n hpc b "done" kw_done (by decide) t hn h2 (by omega)) sp
  | untilLoop c b =>
    simp only [CompoundOk] at h
    simp only [cpdepth] at hd
    obtain ⟨hc, hb, h1, h2⟩ := h
    exact while_rt pc false c b hc hb t hn
      (list_rt_kw pc n hpc c "do" kw_do (by decide) _ (nextOk_blank _) h1 (by omega))
      (list_rt_kw pc n hpc b "done" kw_done (by decide) t hn h2 (by omega)) sp
  | ifCmd c b es hasElse e =>
    simp only [CompoundOk] at h
    simp only [cpdepth] at hd
    obtain ⟨hc, hb, he, h1, h2, h3, h4⟩ := h
    have hee : e = if hasElse then e else [] := by
      cases hasElse <;> simp_all
    have ha : AfterOk (if hasElse then "else".toList ++ ' ' :: (printList true e ++ ' ' :: ("fi".toList ++ t))
        else "fi".toList ++ t) := by
      cases hasElse with
      | true =>
        exact ⟨"else", ' ' :: (printList true e ++ ' ' :: ("fi".toList ++ t)), kw_else, by decide,
          nextOk_blank _, by simp⟩
      | false => exact ⟨"fi", t, kw_fi, by decide, hn, by simp⟩
    rw [hee]
    apply if_rt pc c b es hasElse e hc hb (by intro hh; simpa [hh] using he) t hn _ rfl
      (list_rt_kw pc n hpc c "then" kw_then (by decide) _ (nextOk_blank _) h1 (by omega))
      (list_rt_after pc n hpc b _ (elifText_afterOk es _ ha) h2 (by omega))
      (elifs_rt pc n hpc _ ha es h3 (by omega))
    intro hh
    subst hh
    simp only [if_true] at hd
    exact list_rt_kw pc n hpc e "fi" kw_fi (by decide) t hn h4 (by omega)
  | forLoop name values b =>
    simp only [CompoundOk] at h
    simp only [cpdepth] at hd
    obtain ⟨hb, hname, hvals, hbody⟩ := h
    apply for_rt pc name values b hb t hn hname ?_
      (list_rt_kw pc n hpc b "done" kw_done (by decide) t hn hbody hd) sp
    intro vs e
    subst e
    exact hvals
  | caseCmd subject items =>
    simp only [CompoundOk] at h
    simp only [cpdepth] at hd
    exact case_rt pc subject items t hn h.1 (caseItems_rt pc n hpc _ items h.2 hd) sp


/-- the first token of a printed compound command of the fragment, and its first character -/
theorem compound_start (c : CompoundCommand) (t : List Char) (h : CompoundOk c t) (sp : Bool) :
    HeadOk (printCompound c ++ t) ∧
    ∃ tok r, lexToken ((if sp then [' '] else []) ++ (printCompound c ++ t)) = some (tok, r) ∧
      (tok.id = .word true ∨ tok.id = .op .openParen) := by
  cases c with
  | grouping l =>
    have e : printCompound (.grouping l) ++ t = "{".toList ++ ' ' :: (printList true l ++ ' ' :: ("}".toList ++ t)) := by
      simp [printCompound, str]
    rw [e]
    exact ⟨headOk_kw "{" kw_lbrace _, _, _, lexToken_kw_exact "{" kw_lbrace _ (nextOk_blank _) sp, Or.inl rfl⟩
  | subshell l =>
    have e : printCompound (.subshell l) ++ t = '(' :: (printList false l ++ ')' :: t) := by
      simp [printCompound]
    rw [e]
    exact ⟨headOk_char _ _ ⟨by decide, by decide, by decide, by decide⟩, _, _, lexToken_lparen _ sp, Or.inr rfl⟩
  | whileLoop c b =>
    have e : printCompound (.whileLoop c b) ++ t = "while".toList ++ ' ' :: (printList true c ++ ' ' ::
        ("do".toList ++ ' ' :: (printList true b ++ ' ' :: ("done".toList ++ t)))) := by
      simp [printCompound, str]
    rw [e]
    exact ⟨headOk_kw "while" kw_while _, _, _, lexToken_kw_exact "while" kw_while _ (nextOk_blank _) sp,
      Or.inl rfl⟩
  | untilLoop c b =>
    have e : printCompound (.untilLoop c b) ++ t = "until".toList ++ ' ' :: (printList true c ++ ' ' ::
        ("do".toList ++ ' ' :: (printList true b ++ ' ' :: ("done".toList ++ t)))) := by
      simp [printCompound, str]
    rw [e]
    exact ⟨headOk_kw "until" kw_until _, _, _, lexToken_kw_exact "until" kw_until _ (nextOk_blank _) sp,
      Or.inl rfl⟩
  | ifCmd c b es hasElse e =>
    have e : ∃ x, printCompound (.ifCmd c b es hasElse e) ++ t = "if".toList ++ ' ' :: x := by
      exact ⟨_, by simp [printCompound, str]; rfl⟩
    obtain ⟨x, e⟩ := e
    rw [e]
    exact ⟨headOk_kw "if" kw_if _, _, _, lexToken_kw_exact "if" kw_if _ (nextOk_blank _) sp, Or.inl rfl⟩
  | forLoop name values b =>
    have e : ∃ x, printCompound (.forLoop name values b) ++ t = "for".toList ++ ' ' :: x := by
      exact ⟨_, by simp [printCompound, str]; rfl⟩
    obtain ⟨x, e⟩ := e
    rw [e]
    exact ⟨headOk_kw "for" kw_for _, _, _, lexToken_kw_exact "for" kw_for _ (nextOk_blank _) sp, Or.inl rfl⟩
  | caseCmd subject items =>
    have e : ∃ x, printCompound (.caseCmd subject items) ++ t = "case".toList ++ ' ' :: x := by
      exact ⟨_, by simp [printCompound, str]; rfl⟩
    obtain ⟨x, e⟩ := e
    rw [e]
    exact ⟨headOk_kw "case" kw_case _, _, _, lexToken_kw_exact "case" kw_case _ (nextOk_blank _) sp, Or.inl rfl⟩


/-- the knot: `Parser::command` with nesting budget `n + 1` reads back every command of the closed
    fragment whose nesting depth is at most `n`, and finds no command where none starts -/
theorem parseCommand_pcOk : ∀ n, PcOk (parseCommand (n + 1)) n := by
  intro n
  induction n with
  | zero =>
    refine ⟨?_, fun cs t r hl h => parseCommand_none 0 cs t r hl h⟩
    intro c tail h hd
    cases c with
    | simple c =>
      simp only [CommandOk] at h
      exact ⟨by simpa [printCommand] using headOk_simple c tail h.1,
        fun sp => by simpa [printCommand] using parseCommand_simple 0 c tail h.2 h.1 sp⟩
    | compound c rs => simp [cdepth] at hd
    | function _ _ _ _ => simp [cdepth] at hd
  | succ m ih =>
    refine ⟨?_, fun cs t r hl h => parseCommand_none (m + 1) cs t r hl h⟩
    intro c tail h hd
    cases c with
    | simple c =>
      simp only [CommandOk] at h
      exact ⟨by simpa [printCommand] using headOk_simple c tail h.1,
        fun sp => by simpa [printCommand] using parseCommand_simple (m + 1) c tail h.2 h.1 sp⟩
    | compound c rs =>
      simp only [CommandOk] at h
      simp only [cdepth] at hd
      obtain ⟨hc, hrs, ht⟩ := h
      have hn := nextOk_redirsSp rs tail ht
      have hin : printCommand (.compound c rs) ++ tail = printCompound c ++ (printRedirsSp rs ++ tail) := by
        simp [printCommand]
      refine ⟨?_, fun sp => ?_⟩
      · rw [hin]; exact (compound_start c _ hc false).1
      · exact parseCommand_compound (m + 1) c rs tail ht hrs sp (compound_start c _ hc sp).2
          (compound_rt (parseCommand (m + 1)) m ih c _ hn hc (by omega) sp)
    | function kw name body rs =>
      simp only [CommandOk] at h
      simp only [cdepth] at hd
      obtain ⟨hkw, hname, hc, hrs, ht⟩ := h
      subst hkw
      have hn := nextOk_redirsSp rs tail ht
      have hhead := (compound_start body _ hc false).1
      refine ⟨?_, fun sp => parseCommand_function (m + 1) name body rs tail ht hrs hname hhead
        (by simpa using compound_rt (parseCommand (m + 1)) m ih body _ hn hc (by omega) true) sp⟩
      have := headOk_tokWord name _ hname.tok
        ((if endsWithDollar name then [' '] else []) ++ (str "() " ++ (printCompound body ++ printRedirsSp rs)) ++ tail)
      simpa [printCommand] using this

/-- programs of the closed fragment: the items of a list that is followed by `)` -/
def ProgramOk (l : List Item) (rest : List Char) : Prop := ItemsOk false l (')' :: rest)

/-- `structure_roundtrip` for the closed fragment -/
theorem program_rt (l : List Item) (rest : List Char) (h : ProgramOk l rest) (n fuel : Nat)
    (hn : ldepth l ≤ n) (hf : 1 ≤ fuel) :
    parseCompoundList (parseCommand (n + 1)) fuel (printList false l ++ ')' :: rest) =
      some (l, ')' :: rest) := by
  have hpc := parseCommand_pcOk n
  have hl := list_rt (parseCommand (n + 1)) n hpc false l (')' :: rest) (Or.inr ⟨_, rfl⟩)
    (fun _ => ends_rparen rest contOps (fun _ h => h)) (listEnd_rparen _ n hpc rest) h hn
  have := hl false (fun _ => rfl) fuel hf
  simpa using this


mutual
  theorem cdepth_le : ∀ c : Command, cdepth c ≤ (printCommand c).length
    | .simple _ => by simp [cdepth]
    | .compound c rs => by
      have := cpdepth_le c
      simp only [cdepth, printCommand, List.length_append]; omega
    | .function kw n c rs => by
      have := cpdepth_le c
      simp only [cdepth, printCommand, List.length_append]; omega
  theorem cpdepth_le : ∀ c : CompoundCommand, cpdepth c + 1 ≤ (printCompound c).length
    | .grouping l => by
      have := ldepth_le true l
      simp only [cpdepth, printCompound, List.length_append, str]; simp; omega
    | .subshell l => by
      have := ldepth_le false l
      simp only [cpdepth, printCompound, List.length_append, List.length_cons]; omega
    | .forLoop n vs b => by
      have := ldepth_le true b
      simp only [cpdepth, printCompound, List.length_append, str]; simp; omega
    | .whileLoop c b => by
      have h1 := ldepth_le true c
      have h2 := ldepth_le true b
      simp only [cpdepth, printCompound, List.length_append, str]; simp; omega
    | .untilLoop c b => by
      have h1 := ldepth_le true c
      have h2 := ldepth_le true b
      simp only [cpdepth, printCompound, List.length_append, str]; simp; omega
    | .ifCmd c b es hasElse e => by
      have h1 := ldepth_le true c
      have h2 := ldepth_le true b
      have h3 := edepth_le es
      have h4 := ldepth_le true e
      cases hasElse <;> simp only [cpdepth, printCompound, List.length_append, str] <;> simp <;> omega
    | .caseCmd s items => by
      have := cidepth_le items
      simp only [cpdepth, printCompound, List.length_append, str]; simp; omega
  theorem edepth_le : ∀ es : List ElifThen, edepth es ≤ (printElifs es).length
    | [] => by simp [edepth]
    | .mk c b :: rest => by
      have h1 := ldepth_le true c
      have h2 := ldepth_le true b
      have h3 := edepth_le rest
      simp only [edepth, printElifs, List.length_append, str]; simp; omega
  theorem cidepth_le : ∀ is : List CaseItem, cidepth is ≤ (printCaseItems is).length
    | [] => by simp [cidepth]
    | .mk ps b k :: rest => by
      have h2 := ldepth_le false b
      have h3 := cidepth_le rest
      simp only [cidepth, printCaseItems, List.length_append, str, List.length_cons]; omega
  theorem csdepth_le : ∀ cs : List Command, csdepth cs ≤ (printCommands cs).length
    | [] => by simp [csdepth]
    | [c] => by
      have := cdepth_le c
      simp only [csdepth, printCommands]; omega
    | c :: d :: rest => by
      have h1 := cdepth_le c
      have h2 := csdepth_le (d :: rest)
      simp only [csdepth, printCommands, List.length_append] at h2 ⊢; omega
  theorem pdepth_le : ∀ p : Pipeline, pdepth p ≤ (printPipeline p).length
    | .mk cs neg => by
      have := csdepth_le cs
      simp only [pdepth, printPipeline, List.length_append]; omega
  theorem rdepth_le : ∀ rs : List AndOrRest, rdepth rs ≤ (printAndOrRest rs).length
    | [] => by simp [rdepth]
    | .mk a p :: rest => by
      have h1 := pdepth_le p
      have h2 := rdepth_le rest
      simp only [rdepth, printAndOrRest, List.length_append, List.length_cons]; omega
  theorem adepth_le : ∀ a : AndOrList, adepth a ≤ (printAndOr a).length
    | .mk p rs => by
      have h1 := pdepth_le p
      have h2 := rdepth_le rs
      simp only [adepth, printAndOr, List.length_append]; omega
  theorem ldepth_le (alt : Bool) : ∀ l : List Item, ldepth l ≤ (printList alt l).length
    | [] => by simp [ldepth]
    | [.mk a async] => by
      have := adepth_le a
      simp only [ldepth, printList, printItem, List.length_append]; omega
    | .mk a async :: j :: rest => by
      have h1 := adepth_le a
      have h2 := ldepth_le alt (j :: rest)
      simp only [ldepth, printList, printItem, List.length_append, List.length_cons] at h2 ⊢; omega
end


/-- the closed-fragment round trip through `parseProgram` (nesting budget and loop fuel taken from the
    input length, as the driver does) -/
theorem parseProgram_rt (l : List Item) (rest : List Char) (h : ProgramOk l rest) :
    parseProgram (printList false l ++ ')' :: rest) = some (l, ')' :: rest) := by
  unfold parseProgram
  have hd := ldepth_le false l
  have := program_rt l rest h ((printList false l ++ ')' :: rest).length + 1)
    ((printList false l ++ ')' :: rest).length + 2) (by simp only [List.length_append]; omega) (by omega)
  exact this

/-- literal plain argument words: a decidable sufficient condition for the leaves -/
def plainChar (c : Char) : Bool :=
  c != '\\' && c != '$' && c != '`' && !(Delim.token.test c) && c != '"' && c != '\'' && c != '~' &&
    c != '#' && c != '='

def plainArg (s : List Char) : Bool := !s.isEmpty && s.all plainChar

theorem plainChar_facts (c : Char) (h : plainChar c = true) :
    c ≠ '\\' ∧ c ≠ '$' ∧ c ≠ '`' ∧ Delim.token.test c = false ∧ c ≠ '"' ∧ c ≠ '\'' ∧ c ≠ '~' ∧ c ≠ '#' ∧
      c ≠ '=' := by
  simp only [plainChar, Bool.and_eq_true, bne_iff_ne, ne_eq, Bool.not_eq_true'] at h
  obtain ⟨⟨⟨⟨⟨⟨⟨⟨a1, a2⟩, a3⟩, a4⟩, a5⟩, a6⟩, a7⟩, a8⟩, a9⟩ := h
  exact ⟨a1, a2, a3, a4, a5, a6, a7, a8, a9⟩

theorem plainArg_tok (s : List Char) (h : plainArg s = true) (next : List Char) :
    TokWordOk (digitsWord s) next := by
  simp only [plainArg, Bool.and_eq_true, Bool.not_eq_true', List.all_eq_true] at h
  cases s with
  | nil => simp at h
  | cons c cs =>
    obtain ⟨a1, a2, a3, a4, a5, a6, a7, a8, _⟩ := plainChar_facts c (h.2 c (by simp))
    apply litWord_tok c next ⟨a1, a2, a3, a4, a5, a6, a7, a8⟩ cs
    intro x hx
    obtain ⟨b1, b2, b3, b4, b5, b6, _, _, _⟩ := plainChar_facts x (h.2 x (by simp [hx]))
    exact ⟨b1, b2, b3, b4, b5, b6⟩

theorem splitAssign_digitsWord (s : List Char) (h : '=' ∉ s) : splitAssign (digitsWord s) = none := by
  induction s with
  | nil => simp [digitsWord, splitAssign]
  | cons c s ih =>
    have hc : c ≠ '=' := by intro e; apply h; simp [e]
    have hs : '=' ∉ s := by intro e; apply h; simp [e]
    have := ih hs
    simp only [digitsWord, List.map_cons] at this ⊢
    simp [splitAssign, hc, this]

theorem plainArg_noAssign (s : List Char) (h : plainArg s = true) : assignOf (digitsWord s) = none := by
  have : '=' ∉ s := by
    intro hm
    simp only [plainArg, Bool.and_eq_true, List.all_eq_true] at h
    exact (plainChar_facts _ (h.2 _ hm)).2.2.2.2.2.2.2.2 rfl
  simp [assignOf, splitAssign_digitsWord s this]

/-- a simple command made of literal plain words whose first word is not reserved is in the fragment -/
theorem simpleOk_plain (w : List Char) (ws : List (List Char)) (hw : plainArg w = true)
    (hws : ws.all plainArg = true) (hk : isKeyword w = false) (tail : List Char) :
    SimpleOk ⟨[], (w :: ws).map digitsWord, []⟩ tail := by
  have hmk : (⟨[], (w :: ws).map digitsWord, []⟩ : SimpleCommand) = mkSimple [] ((w :: ws).map digitsWord) [] := by
    simp [mkSimple]
  rw [hmk]
  refine simpleOk_of_mk [] ((w :: ws).map digitsWord) [] tail (Or.inr (Or.inl (by simp))) ?_
  have hfk : firstWordIsKeyword (mkSimple [] ((w :: ws).map digitsWord) []) = false := by
    simp [firstWordIsKeyword, mkSimple, wordLiteral_digitsWord, hk]
  have hp : simplePieces [] ((w :: ws).map digitsWord) [] = wordPieces ((w :: ws).map digitsWord) := by
    simp [simplePieces, hfk, assignPieces, redirPieces]
  rw [hp]
  have hkw : isKeywordWord (digitsWord w) = false := by
    simp [isKeywordWord, wordLiteral_digitsWord, hk]
  -- the first piece, then the others by induction with a non-empty builder
  have rest : ∀ (vs : List (List Char)) (b : Builder), vs.all plainArg = true → b.words ≠ [] →
      PiecesOk b (wordPieces (vs.map digitsWord)) tail := by
    intro vs
    induction vs with
    | nil => intro _ _ _; simp [wordPieces, PiecesOk]
    | cons v vs ih =>
      intro b hv hb
      simp only [List.all_cons, Bool.and_eq_true] at hv
      simp only [wordPieces, List.map_cons, PiecesOk, PieceOk]
      refine ⟨⟨plainArg_tok v hv.1 _, fun e => absurd e hb, fun _ => by
        simp [plainArg_noAssign v hv.1]⟩, ?_⟩
      have := ih (b.push (.word (digitsWord v))) hv.2 (by simp [Builder.push])
      simpa [wordPieces] using this
  simp only [wordPieces, List.map_cons, PiecesOk, PieceOk]
  refine ⟨⟨plainArg_tok w hw _, fun _ => ⟨plainArg_noAssign w hw, fun e => by simp [hkw] at e⟩,
    fun e => by simp at e⟩, ?_⟩
  have := rest ws (Builder.push ⟨[], [], []⟩ (.word (digitsWord w))) hws (by simp [Builder.push])
  simpa [wordPieces] using this

instance (e : Char) : Decidable (TermOk e) := by unfold TermOk; exact inferInstance


/-- a simple command of literal plain words, as a leaf of examples -/
@[irreducible] def leaf (w : String) (ws : List String) : Command :=
  .simple ⟨[], (w.toList :: ws.map String.toList).map digitsWord, []⟩

theorem leaf_ok (w : String) (ws : List String) (hw : plainArg w.toList = true)
    (hws : (ws.map String.toList).all plainArg = true) (hk : isKeyword w.toList = false) (tail : List Char)
    (ht : TailOk tail) : CommandOk (leaf w ws) tail := by
  unfold leaf
  exact ⟨simpleOk_plain w.toList _ hw hws hk tail, ht⟩


end YashModel.Syntax
