/-
  C06 — property theorems (the theorem half of the partial claim; totality of the Rust parser and the
  full grammar are carried by the correspondence run of `harness/src/bin/c06.rs`).
-/
import YashModel.Syntax.Lemmas
import YashModel.Syntax.WordLemmas
import YashModel.Syntax.CommandLemmas
import YashModel.Syntax.FragmentLemmas
import YashModel.Syntax.ParserLemmas
import YashModel.Syntax.StructLemmas
import YashModel.Syntax.Closed
import YashModel.Syntax.Tables
import YashModel.Syntax.LineLemmas
import YashModel.Syntax.ArrayLemmas
import YashModel.Syntax.DeclLemmas
import YashModel.Syntax.EofLemmas
namespace YashModel.Syntax

/-- ★ Every escape unit the parser can produce is printed as text that the escape lexer reads back as the
    same unit, whatever follows it (every `\c` control form including `\c\\`, three-digit octal, two-digit
    hex, `\u`/`\U`, every literal character). -/
theorem escape_unit_roundtrip (u : EscapeUnit) (h : u.Producible) (rest : List Char) :
    lexEscape (printEscape u ++ rest) = some (u, rest) :=
  escape_unit_roundtrip_aux u h rest

example : (EscapeUnit.control 0x1C).Producible := Or.inl (by decide)
example : lexEscape (printEscape (.control 0x1C) ++ ['\\', 'c', '\\', '\\']) =
    some (.control 0x1C, ['\\', 'c', '\\', '\\']) := by decide
example : lexEscape (printEscape (.unicode '😀') ++ ['A']) = some (.unicode '😀', ['A']) := by decide


/-- ★ totality of the escape value mapping (`char::from_u32` in the `\\u` / `\\U` arms of `escape_unit`): every
    value is either a Unicode scalar value or rejected, and the rejected ones are exactly the surrogates
    U+D800…U+DFFF and the values above U+10FFFF. -/
theorem escape_value_total (v : Nat) :
    charFromU32 v = none ↔ (0xD800 ≤ v ∧ v ≤ 0xDFFF) ∨ 0x110000 ≤ v :=
  charFromU32_none_iff v

/-- ★ `\\UXXXXXXXX` for every 32-bit value: read as that scalar value, or a syntax error
    (`UnicodeEscapeOutOfRange`) for surrogates and values above U+10FFFF — nothing else can happen. -/
theorem long_unicode_escape_total (v : Nat) (hv : v < 4294967296) (rest : List Char) :
    lexEscape ('\\' :: 'U' :: (upperHex8 v ++ rest)) =
      if v < 0xD800 ∨ (0xDFFF < v ∧ v < 0x110000) then some (.unicode (Char.ofNat v), rest) else none :=
  lexEscape_long_unicode v hv rest

/-- ★ `\\uXXXX` for every 16-bit value: a scalar value or a syntax error for the surrogates. -/
theorem short_unicode_escape_total (v : Nat) (hv : v < 65536) (rest : List Char) :
    lexEscape ('\\' :: 'u' :: (lowerHex4 v ++ rest)) =
      if v < 0xD800 ∨ 0xDFFF < v then some (.unicode (Char.ofNat v), rest) else none :=
  lexEscape_short_unicode v hv rest

example : lexEscape "\\U0000D800".toList = none := by decide
example : lexEscape "\\Udfff".toList = none := by decide
example : lexEscape "\\U0000D7FF'".toList = some (.unicode (Char.ofNat 0xD7FF), ['\'']) := by decide
example : lexEscape "\\U00110000".toList = none := by decide

/-- ★ Every word of the modelled fragment is self-delimiting.  `WordUnits.Ok .word d w (e :: rest)` says that
    `w` is a tree the word lexer can produce with `(e :: rest)` following it: unquoted literal characters
    (not a delimiter, not one of `\\ $ \`` and not a quote), backslash escapes (any character but newline),
    `$x`/`$1`/`$?` (a name must not be followed by a further name character), `${…}` with every modifier
    (none, length, the eight switches, the four trims) whose words are again in the fragment, backquote
    substitutions, single quotes, double quotes with their text units (the same parameter forms,
    backquotes, the four escapable characters), dollar-single quotes with every producible escape.
    For every such word, every delimiter predicate `d` the lexer uses, every delimiter character `e` and
    every text `rest`: lexing the printed word followed by `e :: rest` returns exactly the word and stops
    in front of `e`.  Outside the fragment: command substitutions and arithmetic expansions (not in the
    model lexer), tilde units (made by `parse_tilde_front` after lexing), and the literal units `$` and
    `\\` that the lexer yields for a dollar or backslash that starts nothing. -/
theorem word_self_delimiting (d : Delim) (w : Word) (e : Char) (rest : List Char)
    (h : WordUnits.Ok .word d w (e :: rest)) (he : d.Ends e) :
    lexWord d (printWord w ++ e :: rest) = some (w, e :: rest) := by
  unfold lexWord
  apply (lex_all _).2.2.2.2 .word d w e rest h he
  simp only [List.length_append, List.length_cons]
  omega

/-- `${x:-"a$y"}$z` followed by a blank -/
example (rest : List Char) : WordUnits.Ok .word .token
    [.unquoted (.bracedParam ['x'] (.switch true .default
        [.doubleQuote [.literal 'a', .rawParam ['y']]])),
     .unquoted (.rawParam ['z'])] (' ' :: rest) := by
  simp only [WordUnits.Ok, WordUnit.Ok, TextUnit.Ok, Modifier.Ok, TextUnits.Ok, UnquotedOk, and_true]
  and_intros
  all_goals first
    | decide
    | trivial
    | exact ⟨'x', [], rfl, Or.inl ⟨by decide, by decide, by decide⟩⟩
    | exact ⟨'y', [], rfl, Or.inr ⟨by decide, by decide, by decide, by decide,
        headNotName_of _ _ (by decide) (by decide)⟩⟩
    | exact ⟨'z', [], rfl, Or.inr ⟨by decide, by decide, by decide, by decide,
        headNotName_of _ _ (by decide) (by decide)⟩⟩
    | (intro _; simp [NoTildeFront])
    | (intro h; simp at h)


/-- the same for the content of double quotes (`Lexer::text` with `"` as the delimiter) -/
theorem text_self_delimiting (t : List TextUnit) (rest : List Char)
    (h : TextUnits.Ok .text .dquote t ('"' :: rest)) :
    lexTextUnits ((printText t).length + 4) .dquote (printText t ++ '"' :: rest) =
      some (t, '"' :: rest) :=
  (lex_all _).2.2.1 .dquote t '"' rest h dquote_textEnds (Nat.le_refl _)

/-- the flat fragment of round 1 (kept as a directly checkable special case) -/
theorem word_self_delimiting_partial (w : Word) (h : ∀ u ∈ w, u.Flat .token) (c : Char)
    (hc : Delim.token.Ends c) (rest : List Char) :
    lexWord .token (printWord w ++ c :: rest) = some (w, c :: rest) := by
  unfold lexWord
  apply lexWordUnits_flat .token (by decide) w h c hc rest
  simp only [List.length_append, List.length_cons]
  omega

/-- the same inside `${…}`, where only `}` delimits (words of switch and trim modifiers) -/
theorem word_self_delimiting_in_braces_partial (w : Word) (h : ∀ u ∈ w, u.Flat .brace)
    (rest : List Char) :
    lexWord .brace (printWord w ++ '}' :: rest) = some (w, '}' :: rest) := by
  unfold lexWord
  apply lexWordUnits_flat .brace (by decide) w h '}' ⟨by decide, by decide⟩ rest
  simp only [List.length_append, List.length_cons]
  omega

example : ∀ u ∈ ([.unquoted (.literal 'a'), .unquoted (.backslashed ' '), .singleQuote ['$', 'x'],
    .dollarSingleQuote [.control 0x1C, .literal 'z', .octal 7]] : Word), u.Flat .token := by
  intro u hu
  simp at hu
  rcases hu with rfl | rfl | rfl | rfl
  · exact ⟨by decide, by decide⟩
  · show ' ' ≠ '\n'; decide
  · show '\'' ∉ ['$', 'x']; decide
  · intro v hv
    simp at hv
    rcases hv with rfl | rfl | rfl
    · exact ⟨Or.inl (by decide), by simp⟩
    · exact ⟨by show 'z' ≠ '\\'; decide, by simp⟩
    · exact ⟨trivial, by simp⟩
example : Delim.token.Ends ';' := ⟨by decide, by decide⟩
example : Delim.token.Ends ' ' := ⟨by decide, by decide⟩


/-
  ★ (design) simple_command_roundtrip : parsing the printed form of a simple command (assignments, words,
  redirections, with the keyword-first reordering and the IO-number rule) gives the command back.
  Proved below for the argument words only.  Missing: assignments (`Assign::try_from`), redirections
  (operator and IO-number recognition), the keyword-first rule — these are in the printer model and are
  compared with the implementation on every run, and the Rust-side oracle re-parses every printed
  command, but the model has no token-level parser for them.
-/

/-- ★ (partial) A simple command made of argument words of the flat fragment prints as its words
    separated by single blanks, and reading word tokens from that text (skip blanks, `word`,
    `parse_tilde_front`) up to the terminating operator character `c` gives exactly the words back. -/
theorem simple_command_roundtrip_partial (ws : List Word) (h : ∀ w ∈ ws, w.FlatArg) (c : Char)
    (hc : Delim.token.Ends c) (hb : isBlank c = false) (rest : List Char) :
    lexWords (ws.length + 1) (printSimple ⟨[], ws, []⟩ ++ c :: rest) = some (ws, c :: rest) := by
  have hp : printSimple ⟨[], ws, []⟩ = printWords ws := by
    simp [printSimple, printWords]
  rw [hp]
  have := lexWords_print c hc hb rest ws h false (ws.length + 1) (Nat.le_refl _)
  simpa using this

example : Word.FlatArg [.unquoted (.literal 'e'), .unquoted (.backslashed '~'), .singleQuote ['a', ' ']] := by
  refine ⟨?_, by simp, by simp⟩
  intro u hu
  simp at hu
  rcases hu with rfl | rfl | rfl
  · exact ⟨by decide, by decide⟩
  · show '~' ≠ '\n'; decide
  · show '\'' ∉ ['a', ' ']; decide
example : Delim.token.Ends ';' ∧ isBlank ';' = false := ⟨⟨by decide, by decide⟩, by decide⟩


/-- ★ A token word of the fragment, printed and followed by a blank or a terminator, is read by the
    parser's token step (`skip_blanks_and_comment`, `operator`, `word`, `parse_tilde_front`, `token_id`)
    as exactly that word, classified as a reserved word or a plain word (never an IO number). -/
theorem token_roundtrip (w : Word) (next : List Char) (hw : TokWordOk w next) (hn : NextOk next)
    (sp : Bool) :
    lexToken ((if sp then [' '] else []) ++ (printWord w ++ next)) =
      some (⟨w, .word (isKeywordWord w)⟩, next) :=
  lexToken_word w next hw hn sp

/-- ★ A redirection `[n]op word` (any of the nine operators, with or without a file descriptor number,
    which is recognised as an IO_NUMBER because the operator follows it immediately) prints as text that
    `Parser::redirection` reads back as the same redirection. -/
theorem redirection_roundtrip (fd : Option Nat) (hfd : FdOk fd) (op : RedirOp) (w : Word)
    (next : List Char) (hw : TokWordOk w next) (hn : NextOk next) (sp : Bool) :
    parseRedir ((if sp then [' '] else []) ++ (printRedir (.normal fd op w) ++ next)) =
      some (some (.normal fd op w), next) :=
  parseRedir_normal fd hfd op w next hw hn sp

/-- ★ `simple_command_roundtrip`: a simple command with scalar assignments, words and redirections
    (`mkSimple as ws rs`) prints — assignments, words, redirections; or redirections first when there is no
    assignment and the first word is a reserved word — as text that the model of
    `Parser::simple_command` reads back as the same command, stopping in front of the terminator `e`
    (`;`, `&`, `|`, `)` or newline).  `PiecesOk` lists what the parser needs piece by piece: every token word
    is in the word fragment, non-empty, not starting with `~` or `#`; an assignment name is non-empty and
    has no `=`; assignment values have no unquoted `~`; the first word is not itself of the form
    `name=…`; a reserved word comes first only after an assignment or a redirection; file descriptors
    fit in an `i32`.  Not covered: array assignments, here-documents, tilde expansions in values. -/
theorem simple_command_roundtrip (as : List (List Char × Word)) (ws : List Word)
    (rs : List (Option Nat × RedirOp × Word)) (e : Char) (rest : List Char) (he : TermOk e)
    (hne : (mkSimple as ws rs).assigns ≠ [] ∨ ws ≠ [] ∨ (mkSimple as ws rs).redirs ≠ [])
    (hok : PiecesOk ⟨[], [], []⟩ (simplePieces as ws rs) (e :: rest)) :
    parseSimple ((simplePieces as ws rs).length + 1) (printSimple (mkSimple as ws rs) ++ e :: rest) =
      some (some (mkSimple as ws rs), e :: rest) :=
  simple_command_roundtrip_aux as ws rs e rest he hne hok

/-- `>f if` followed by `;`: the reserved word is printed after the redirection and reads back -/
example (rest : List Char) :
    PiecesOk ⟨[], [], []⟩ (simplePieces [] [digitsWord ['i', 'f']] [(none, .fileOut, digitsWord ['f'])])
      (';' :: rest) := by
  have hp : simplePieces [] [digitsWord ['i', 'f']] [(none, .fileOut, digitsWord ['f'])] =
      [.redir none .fileOut (digitsWord ['f']), .word (digitsWord ['i', 'f'])] := by
    have hk : firstWordIsKeyword (mkSimple [] [digitsWord ['i', 'f']] [(none, .fileOut, digitsWord ['f'])]) = true := by decide
    simp [simplePieces, mkSimple, assignPieces, wordPieces, redirPieces]
    exact hk
  rw [hp]
  refine ⟨⟨trivial, litWord_tok 'f' _ (by decide) [] (by simp)⟩, ⟨litWord_tok 'i' _ (by decide) ['f'] ?_, ?_, ?_⟩, trivial⟩
  · intro x hx; simp at hx; subst hx; decide
  · intro _
    exact ⟨by decide, fun _ => by decide⟩
  · intro h; exact absurd rfl h


example : TermOk ';' := Or.inl rfl
example : FdOk (some 2) := by show 2 ≤ 2147483647; decide


/-! ## The command structure (`structure_roundtrip`, layer by layer)

  The parsers of pipelines, and-or lists and lists are written over an abstract command parser `pc`
  (`Structure.lean`); each layer is proved from the round trip of the layer below (`CmdRT`, `PipeRT`,
  `AndOrRT`: "the sub-tree, printed in its place, is read back as itself"), i.e. assuming the leaves
  round-trip. -/

/-- ★ layer 0: a simple command of the fragment reads back in front of every command tail (an optional
    blank and one of `;` `&` `|` `)` newline — hence also in front of ` | `, ` && `, ` || `, `;;`). -/
theorem simple_command_roundtrip_tail (c : SimpleCommand) (tail : List Char) (ht : TailOk tail)
    (h : SimpleOk c tail) (sp : Bool) (fuel : Nat) (hf : (printSimple c).length + 2 ≤ fuel) :
    parseSimple fuel ((if sp then [' '] else []) ++ (printSimple c ++ tail)) = some (some c, tail) :=
  parseSimple_tail c tail ht h sp fuel hf

/-- ★ layer 1: a pipeline `[!] c₁ | … | cₙ` whose commands read back in their places reads back, provided
    the token after it is not `|` and (for `!`) the command parser finds no command at the `!`. -/
theorem pipeline_roundtrip (pc : CmdParser) (neg : Bool) (c : Command) (cs : List Command)
    (tail : List Char) (ht : EndsWithout tail [.bar]) (h : CmdsRT pc (c :: cs) tail)
    (hbang : neg = true → ∀ x, pc ('!' :: ' ' :: x) = some (none, '!' :: ' ' :: x) ∧
        pc (' ' :: '!' :: ' ' :: x) = some (none, ' ' :: '!' :: ' ' :: x)) (sp : Bool) :
    parsePipeline pc ((if sp then [' '] else []) ++ (printPipeline (.mk (c :: cs) neg) ++ tail)) =
      some (some (.mk (c :: cs) neg), tail) :=
  pipeline_rt pc neg c cs tail ht h hbang sp

/-- ★ layer 2: an and-or list `p₀ && p₁ || …` whose pipelines read back in their places reads back,
    provided the token after it is neither `&&` nor `||`. -/
theorem and_or_roundtrip (pc : CmdParser) (p : Pipeline) (rs : List AndOrRest) (tail : List Char)
    (ht : EndsWithout tail [.andAnd, .barBar]) (hp : PipeRT pc p (aoRest rs tail))
    (hrs : PipesRT pc rs tail) (sp : Bool) :
    parseAndOr pc ((if sp then [' '] else []) ++ (printAndOr (.mk p rs) ++ tail)) =
      some (some (.mk p rs), tail) :=
  andOr_rt pc p rs tail ht hp hrs sp

/-- ★ layer 3: a list of `;` / `&` items, printed with (`alt`) or without the final terminator, whose
    and-or lists read back in their places reads back through `maybe_compound_list`, when a clause
    delimiter follows at which no command starts. -/
theorem list_roundtrip (pc : CmdParser) (alt : Bool) (l : List Item) (tail : List Char)
    (he : ListEnd pc alt tail) (hc : CloserAt tail) (h : ItemsRT pc alt l tail) (sp : Bool)
    (hsp : l = [] → sp = false) (fuel : Nat) (hf : 1 ≤ fuel) :
    parseCompoundList pc fuel ((if sp then [' '] else []) ++ (printList alt l ++ tail)) = some (l, tail) :=
  compoundList_rt pc alt l tail he hc h sp hsp fuel hf

/-- ★ layer 4: `{ list; }` reads back when its list does. -/
theorem grouping_roundtrip (pc : CmdParser) (l : List Item) (hl : l ≠ []) (tail : List Char)
    (hn : NextOk tail) (h : ListRT pc true l (' ' :: ("}".toList ++ tail))) (sp : Bool) :
    parseCompound pc ((if sp then [' '] else []) ++ (printCompound (.grouping l) ++ tail)) =
      some (some (.grouping l), tail) :=
  grouping_rt pc l hl tail hn h sp

/-- ★ layer 4: `(list)` reads back when its list does (the `(` and `)` must be read as those operators:
    `hopen`, `hclose`). -/
theorem subshell_roundtrip (pc : CmdParser) (l : List Item) (hl : l ≠ []) (tail : List Char)
    (hopen : ∀ sp : Bool, ∃ t, lexToken ((if sp then [' '] else []) ++ '(' :: (printList false l ++ ')' :: tail)) =
        some (t, printList false l ++ ')' :: tail) ∧ t.isOp .openParen = true ∧ ∀ k, t.isKw k = false)
    (hclose : expectOp .closeParen (')' :: tail) = some tail)
    (h : ListRT pc false l (')' :: tail)) (sp : Bool) :
    parseCompound pc ((if sp then [' '] else []) ++ (printCompound (.subshell l) ++ tail)) =
      some (some (.subshell l), tail) :=
  subshell_rt pc l hl tail hopen hclose h sp

/-- ★ layer 4: `while`/`until` loops read back when their condition and body do. -/
theorem while_until_roundtrip (pc : CmdParser) (isWhile : Bool) (c b : List Item) (hc : c ≠ []) (hb : b ≠ [])
    (tail : List Char) (hn : NextOk tail)
    (h1 : ListRT pc true c (' ' :: ("do".toList ++ ' ' :: (printList true b ++ ' ' :: ("done".toList ++ tail)))))
    (h2 : ListRT pc true b (' ' :: ("done".toList ++ tail))) (sp : Bool) :
    parseCompound pc ((if sp then [' '] else []) ++
        (printCompound (if isWhile then .whileLoop c b else .untilLoop c b) ++ tail)) =
      some (some (if isWhile then .whileLoop c b else .untilLoop c b), tail) :=
  while_rt pc isWhile c b hc hb tail hn h1 h2 sp

/-- ★ layer 4: `if … then … [elif … then …]* [else …] fi` reads back when all its lists do. -/
theorem if_roundtrip (pc : CmdParser) (c b : List Item) (es : List ElifThen) (hasElse : Bool) (e : List Item)
    (hc : c ≠ []) (hb : b ≠ []) (he : hasElse = true → e ≠ []) (tail : List Char) (hn : NextOk tail)
    (after : List Char)
    (hafter : after = if hasElse then "else".toList ++ ' ' :: (printList true e ++ ' ' :: ("fi".toList ++ tail))
      else "fi".toList ++ tail)
    (h1 : ListRT pc true c (' ' :: ("then".toList ++ ' ' :: (printList true b ++ ' ' :: elifText es after))))
    (h2 : ListRT pc true b (' ' :: elifText es after))
    (h3 : ElifsRT pc es after)
    (h4 : hasElse = true → ListRT pc true e (' ' :: ("fi".toList ++ tail))) (sp : Bool) :
    parseCompound pc ((if sp then [' '] else []) ++
        (printCompound (.ifCmd c b es hasElse (if hasElse then e else [])) ++ tail)) =
      some (some (.ifCmd c b es hasElse (if hasElse then e else [])), tail) :=
  if_rt pc c b es hasElse e hc hb he tail hn after hafter h1 h2 h3 h4 sp

/-- ★ command level: a simple command of the fragment is read by `Parser::command` as that simple command
    (it is not mistaken for a function definition `name ( )`). -/
theorem command_simple_roundtrip (n : Nat) (c : SimpleCommand) (tail : List Char) (ht : TailOk tail)
    (h : SimpleOk c tail) (sp : Bool) :
    parseCommand (n + 1) ((if sp then [' '] else []) ++ (printSimple c ++ tail)) =
      some (some (.simple c), tail) :=
  parseCommand_simple n c tail ht h sp

/-- ★ command level: a compound command that reads back, followed by its printed redirections
    (`{ …; } >f 2>&1`), is read by `Parser::command` as the compound command with those redirections. -/
theorem compound_with_redirections_roundtrip (n : Nat) (c : CompoundCommand) (rs : List Redir)
    (tail : List Char) (ht : TailOk tail) (hrs : RedirsOk rs tail) (sp : Bool)
    (hstart : ∃ t r, lexToken ((if sp then [' '] else []) ++ (printCompound c ++ (printRedirsSp rs ++ tail))) =
      some (t, r) ∧ (t.id = .word true ∨ t.id = .op .openParen))
    (hc : parseCompound (parseCommand n)
        ((if sp then [' '] else []) ++ (printCompound c ++ (printRedirsSp rs ++ tail))) =
      some (some c, printRedirsSp rs ++ tail)) :
    parseCommand (n + 1) ((if sp then [' '] else []) ++ (printCommand (.compound c rs) ++ tail)) =
      some (some (.compound c rs), tail) :=
  parseCommand_compound n c rs tail ht hrs sp hstart hc

/-- ★ `structure_roundtrip` for the closed fragment of the modelled grammar.
    `ProgramOk l rest` is the closed fragment predicate on whole command trees (`Closed.lean`): every leaf is a
    simple command of the proved fragment (`SimpleOk`: its words satisfy the word-level side conditions) in
    front of a command tail, every node is a pipeline (with or without `!`), an and-or list, a `;`/`&` list, a
    brace group, a subshell, a `while`/`until` loop, an `if` command with any number of `elif`s and an
    optional `else`, a `for` loop with or without `in words;`, a `case` command (patterns joined by `|`, empty
    or non-empty bodies, the three terminators) or a function definition `name() compound`; compound
    commands and function bodies may carry redirections; nesting is unbounded.  Outside (not in the models):
    here-documents, array assignments, command substitutions / arithmetic / tildes / stray `$` and `\\` in words
    (so a function name never ends in `$` here), the `function` keyword form.  For every such
    program, printing it and parsing the text with the whole model parser (`parseProgram` =
    `maybe_compound_list` over `Parser::command`, nesting budget taken from the input length) gives the
    program back, unconditionally; the closing `)` stands for whatever ends the list (as inside `$(…)`). -/
theorem structure_roundtrip (l : List Item) (rest : List Char) (h : ProgramOk l rest) :
    parseProgram (printList false l ++ ')' :: rest) = some (l, ')' :: rest) :=
  parseProgram_rt l rest h

/-- the knot behind it: `Parser::command` with nesting budget `n + 1` reads back every command of the closed
    fragment of depth at most `n` (in front of every tail, with or without a blank) -/
theorem command_roundtrip (n : Nat) (c : Command) (tail : List Char) (h : CommandOk c tail)
    (hd : cdepth c ≤ n) (sp : Bool) :
    parseCommand (n + 1) ((if sp then [' '] else []) ++ (printCommand c ++ tail)) = some (some c, tail) :=
  ((parseCommand_pcOk n).cmd c tail h hd).2 sp

/-- ★ layer 4: `for name [in words;] do list; done`. -/
theorem for_roundtrip (pc : CmdParser) (name : Word) (values : Option (List Word)) (b : List Item) (hb : b ≠ [])
    (t : List Char) (hn : NextOk t)
    (hname : TokWordOk name ((match values with
      | some vs => ' ' :: ("in".toList ++ (printWordsSp vs ++ [';']))
      | none => []) ++ (' ' :: ("do".toList ++ ' ' :: (printList true b ++ ' ' :: ("done".toList ++ t))))))
    (hvals : ∀ vs, values = some vs →
      ForWordsOk vs (';' :: ' ' :: ("do".toList ++ ' ' :: (printList true b ++ ' ' :: ("done".toList ++ t)))))
    (h2 : ListRT pc true b (' ' :: ("done".toList ++ t))) (sp : Bool) :
    parseCompound pc ((if sp then [' '] else []) ++ (printCompound (.forLoop name values b) ++ t)) =
      some (some (.forLoop name values b), t) :=
  for_rt pc name values b hb t hn hname hvals h2 sp

/-- ★ layer 4: `case word in (p | q) list;; … esac` (every item printed with its leading `(`; bodies may be
    empty; terminators `;;`, `;&`, `;|`). -/
theorem case_roundtrip (pc : CmdParser) (subject : Word) (items : List CaseItem) (t : List Char) (hn : NextOk t)
    (hs : TokWordOk subject (' ' :: ("in".toList ++ ' ' :: caseText items ("esac".toList ++ t))))
    (h : CaseItemsRT pc items ("esac".toList ++ t)) (sp : Bool) :
    parseCompound pc ((if sp then [' '] else []) ++ (printCompound (.caseCmd subject items) ++ t)) =
      some (some (.caseCmd subject items), t) :=
  case_rt pc subject items t hn hs h sp

/-- ★ command level: `name() compound [redirections]` is read by `Parser::command` as that function definition
    (`FnNameOk`: the name is one plain word, not an assignment, not reserved, not ending in `$` — for such a
    name the printer writes no blank before `()`). -/
theorem function_roundtrip (n : Nat) (name : Word) (body : CompoundCommand) (rs : List Redir)
    (tail : List Char) (ht : TailOk tail) (hrs : RedirsOk rs tail)
    (hname : FnNameOk name ('(' :: ')' :: ' ' :: (printCompound body ++ (printRedirsSp rs ++ tail))))
    (hhead : HeadOk (printCompound body ++ (printRedirsSp rs ++ tail)))
    (hc : parseCompound (parseCommand n) (' ' :: (printCompound body ++ (printRedirsSp rs ++ tail))) =
      some (some body, printRedirsSp rs ++ tail)) (sp : Bool) :
    parseCommand (n + 1) ((if sp then [' '] else []) ++ (printCommand (.function false name body rs) ++ tail)) =
      some (some (.function false name body rs), tail) :=
  parseCommand_function n name body rs tail ht hrs hname hhead hc sp

/-- non-vacuity on a nested program (depth 3: group ⊃ while ⊃ subshell, with `|`, `&&`, `!`, `&`, `if`/`elif`/`else`) -/
def nested : List Item :=
  [it1 (.compound (.grouping
    [it1 (.compound (.whileLoop [it1 (leaf "a" [])]
        [.mk (.mk (.mk [.compound (.subshell [it1 (leaf "b" ["x"])]) [], leaf "c" []] false)
          [.mk true (.mk [leaf "d" []] true)]) true]) []),
     it1 (.compound (.ifCmd [it1 (leaf "e" [])] [it1 (leaf "f" [])] [.mk [it1 (leaf "g" [])] [it1 (leaf "h" [])]]
        true [it1 (leaf "i" [])]) [])]) [])]

example : printList false nested =
    "{ while a; do (b x) | c && ! d& done; if e; then f; elif g; then h; else i; fi; }".toList := by
  decide +kernel

theorem nested_ok (rest : List Char) : ProgramOk nested rest := by
  simp only [ProgramOk, nested, it1, ItemsOk, AndOrOk, AndOrRestOk, PipelineOk, CommandsOk, CommandOk,
    CompoundOk, ElifsOk, RedirsOk, pipeRest, aoRest, printRedirsSp, List.nil_append, List.singleton_append, List.cons_append, ne_eq, reduceCtorEq, not_false_eq_true, List.cons_ne_self, and_true,
    true_and, Bool.false_eq_true, if_false, if_true]
  and_intros
  all_goals first
    | trivial
    | exact leaf_ok _ _ (by decide) (by decide) (by decide) _ (tailOk_cons _ _ (by decide))
    | exact leaf_ok _ _ (by decide) (by decide) (by decide) _ (Or.inr ⟨true, _, _, rfl, by decide⟩)
    | exact tailOk_cons _ _ (by decide)
    | exact (Or.inr ⟨true, _, _, rfl, by decide⟩)
    | skip


example (rest : List Char) :
    parseProgram (printList false nested ++ ')' :: rest) = some (nested, ')' :: rest) :=
  structure_roundtrip nested rest (nested_ok rest)

/-- non-vacuity with a function definition, `for … in`, `case` (alternatives, empty body, the three
    terminators, an async item) and a redirection after the function body -/

def nested2 : List Item :=
  [it1 (.function false (lw "f")
    (.grouping [it1 (.compound (.forLoop (lw "x") (some [lw "a", lw "b"])
      [it1 (.compound (.caseCmd (lw "y")
        [.mk [lw "p", lw "q"] [it1 (leaf "c" [])] .break_,
         .mk [lw "r"] [] .fallThrough,
         .mk [lw "s"] [it1 (leaf "d" []) true] .continue_]) [])]) [])])
    [.normal none .fileOut (lw "o")])]

example : printList false nested2 =
    "f() { for x in a b; do case y in (p | q) c;; (r) ;& (s) d&;| esac; done; } >o".toList := by
  decide +kernel

theorem nested2_ok (rest : List Char) : ProgramOk nested2 rest := by
  simp only [ProgramOk, nested2, it1, lw, ItemsOk, AndOrOk, AndOrRestOk, PipelineOk, CommandsOk, CommandOk,
    CompoundOk, CaseItemsOk, PatsOk, ForWordsOk, ElifsOk, RedirsOk, pipeRest, aoRest, printRedirsSp,
    List.nil_append, List.singleton_append, List.cons_append, ne_eq, reduceCtorEq, not_false_eq_true,
    List.cons_ne_self, and_true, true_and, Bool.false_eq_true, if_false, if_true]
  and_intros
  all_goals first
    | trivial
    | exact leaf_ok _ _ (by decide) (by decide) (by decide) _ (tailOk_cons _ _ (by decide))
    | exact tailOk_cons _ _ (by decide)
    | exact plainArg_tok _ (by decide) _
    | exact ⟨plainArg_tok _ (by decide) _, plainArg_noAssign _ (by decide), by decide, by decide⟩


example (rest : List Char) :
    parseProgram (printList false nested2 ++ ')' :: rest) = some (nested2, ')' :: rest) :=
  structure_roundtrip nested2 rest (nested2_ok rest)

/-! ### Instances (kernel evaluation of the whole model parser on printed programs) -/

/-- kernel-evaluated instances of the whole model parser on printed programs: pipeline with `!`, and-or,
    async item, brace group with a redirection, subshell, `if`/`elif`/`else`, `while`, `until`, `for` with
    and without `in`, `case` with the three terminators, a function definition, and the function whose
    name ends in `$` (printed with the separating blank of fix 5836ace) -/
example : reads
    [.mk (.mk (.mk [sc ["a"], sc ["b"]] true) [.mk true (.mk [sc ["c"]] false)]) true,
     it1 (.compound (.grouping [it1 (sc ["d"])]) [.normal none .fileOut (lw "f")])] = true := by
  decide +kernel

example : reads
    [it1 (.compound (.subshell [it1 (sc ["a"]) true, it1 (sc ["b"])]) []),
     it1 (.compound (.ifCmd [it1 (sc ["a"])] [it1 (sc ["b"])] [.mk [it1 (sc ["c"])] [it1 (sc ["d"])]] true
       [it1 (sc ["e"])]) [.normal (some 2) .fdOut (lw "1")])] = true := by
  decide +kernel

example : reads
    [it1 (.compound (.whileLoop [it1 (sc ["a"])] [it1 (sc ["b"])]) []),
     it1 (.compound (.untilLoop [it1 (sc ["a"])] [it1 (sc ["b"]) true]) []),
     it1 (.compound (.forLoop (lw "x") (some [lw "1", lw "2"]) [it1 (sc ["b"])]) []),
     it1 (.compound (.forLoop (lw "x") none [it1 (sc ["b"])]) [])] = true := by
  decide +kernel

example : reads
    [it1 (.compound (.caseCmd (lw "x") [.mk [lw "a", lw "b"] [it1 (sc ["c"])] .break_,
        .mk [lw "d"] [] .fallThrough, .mk [lw "e"] [it1 (sc ["f"]) true] .continue_]) []),
     it1 (.function false (lw "f") (.grouping [it1 (sc ["g"])]) [.normal none .fileIn (lw "h")]),
     it1 (.function false (lw "a$") (.grouping [it1 (sc ["g"])]) [])] = true := by
  decide +kernel

/-- the separator rule: a function name ending in an unquoted `$` is printed with a blank before `()` -/
example : printCommand (.function false (lw "a$") (.grouping [it1 (sc ["g"])]) []) = "a$ () { g; }".toList := by
  decide +kernel


/-! ## Known non-round-trips, as kernel-checked counter-examples (the boundary of the theorems) -/

/-- Boundary of `word_self_delimiting` (finding K4): the word `[Literal '\\']` (a backslash at the end of
    the input) is printed as a bare `\`, and in front of a blank that reads back as an escaped blank. -/
theorem trailing_backslash_word_does_not_read_back :
    lexWord .token (printWord [.unquoted (.literal '\\')] ++ [' ', ';']) =
      some ([.unquoted (.backslashed ' ')], [';']) := by
  rfl

/-- Boundary of `simple_command_roundtrip` (finding K4): `words = [\], redirs = [>f]` is printed as `\ >f`
    (words before redirections) and reads back as the command with the word `\ ` — a different tree. -/
theorem trailing_backslash_command_does_not_read_back :
    parseSimple 10 (printSimple ⟨[], [[.unquoted (.literal '\\')]],
        [.normal none .fileOut [.unquoted (.literal 'f')]]⟩ ++ [';']) =
      some (some ⟨[], [[.unquoted (.backslashed ' ')]],
        [.normal none .fileOut [.unquoted (.literal 'f')]]⟩, [';']) := by
  rfl


/-! ## Wave 3: the tables of the code (re-extracted from /repo on every run) are what the model uses

`tools/tables/syntax.py` writes `Generated/SyntaxTables.lean` from `lex/op.rs`, `lex/keyword.rs`, `lex/core.rs`,
`syntax/conversions.rs` and `parser/list.rs`.  An edit of one of these tables in the Rust sources changes the
generated file and breaks the theorem below that mentions it. -/

open YashModel.Generated in
/-- ★ The hand-written operator lexer is the walk of `Lexer::operator_tail` over the `OPERATORS` trie as the
    sources define it — for every input, with line continuations at every peek. -/
theorem lexOperator_eq_trie (cs : List Char) : lexOperator cs = trieOperator cs := Tbl.lexOperator_eq_trie cs

open YashModel.Generated in
/-- `Trie::edge` is a binary search: the edges of every node are sorted by key (so it is the `find?` of
    `trieTail`). -/
theorem trie_sorted :
    SyntaxTables.operatorTrie.all (fun edges => (edges.map (·.1.toNat)).Pairwise (· < ·)) = true := Tbl.trie_sorted

open YashModel.Generated in
/-- the model's `Op` is `enum Operator`, variant by variant in declaration order, and `Op.all` lists them all -/
theorem op_enum_is_operator : Op.all.map Op.name = SyntaxTables.operatorVariants ∧ ∀ o : Op, o ∈ Op.all :=
  ⟨Tbl.op_names, Tbl.op_all_complete⟩

/-- ★ Every operator text of `Operator::as_str` is read by the operator lexer as that operator (the printer
    writes operators through `as_str`; the trie and `as_str` agree on all 25). -/
theorem operator_texts_read_back : ∀ o ∈ Op.all, lexOperator o.str = some (o, []) := Tbl.operator_texts_read_back

open YashModel.Generated in
/-- `RedirOp::try_from(Operator)`, and the text printed for a redirection operator
    (`Operator::from(op).as_str()`), are the generated tables -/
theorem redirOp_tables (o : Op) (r : RedirOp) :
    (redirOpOf o).map RedirOp.name = SyntaxTables.redirOpOfOperator.lookup o.name ∧
    r.str = strVia SyntaxTables.operatorOfRedirOp r.name :=
  ⟨Tbl.redirOpOf_eq_table o, Tbl.redirOp_str_eq_table r⟩

/-- a printed redirection operator is read back as the operator that converts to it -/
theorem redirOp_reads_back (r : RedirOp) :
    ∃ o, lexOperator r.str = some (o, []) ∧ redirOpOf o = some r := by
  cases r
  · exact ⟨.less, by decide, rfl⟩
  · exact ⟨.lessGreater, by decide, rfl⟩
  · exact ⟨.greater, by decide, rfl⟩
  · exact ⟨.greaterGreater, by decide, rfl⟩
  · exact ⟨.greaterBar, by decide, rfl⟩
  · exact ⟨.lessAnd, by decide, rfl⟩
  · exact ⟨.greaterAnd, by decide, rfl⟩
  · exact ⟨.greaterGreaterBar, by decide, rfl⟩
  · exact ⟨.lessLessLess, by decide, rfl⟩

open YashModel.Generated in
/-- `CaseContinuation::try_from(Operator)` and the printed terminator are the generated tables -/
theorem caseCont_tables (o : Op) (k : CaseCont) :
    (caseContOf o).map CaseCont.name = SyntaxTables.caseContinuationOfOperator.lookup o.name ∧
    k.str = strVia SyntaxTables.operatorOfCaseContinuation k.name :=
  ⟨Tbl.caseContOf_eq_table o, Tbl.caseCont_str_eq_table k⟩

/-- a printed case terminator is read back as an operator that converts to it (`;;&` also gives `Continue`) -/
theorem caseCont_reads_back (k : CaseCont) :
    ∃ o, lexOperator k.str = some (o, []) ∧ caseContOf o = some k := by
  cases k
  · exact ⟨.semicolonSemicolon, by decide, rfl⟩
  · exact ⟨.semicolonAnd, by decide, rfl⟩
  · exact ⟨.semicolonBar, by decide, rfl⟩

open YashModel.Generated in
/-- `&&` / `||`: the texts `printAndOrRest` writes and the operators `parseAndOrTail` accepts -/
theorem andOr_tables :
    strVia SyntaxTables.operatorOfAndOr "AndThen" = "&&".toList ∧
    strVia SyntaxTables.operatorOfAndOr "OrElse" = "||".toList ∧
    SyntaxTables.andOrOfOperator = [(Op.andAnd.name, "AndThen"), (Op.barBar.name, "OrElse")] := Tbl.andOr_tables

open YashModel.Generated in
/-- the model's reserved words are exactly the strings `Keyword::from_str` accepts -/
theorem keywords_eq_table : keywords = SyntaxTables.keywordFromStr.map (·.1.toList) := Tbl.keywords_eq_table

open YashModel.Generated in
/-- `Keyword::as_str` and `Keyword::from_str` are inverse to each other on all variants -/
theorem keyword_as_str_from_str :
    SyntaxTables.keywordAsStr.map (·.1) = SyntaxTables.keywordVariants ∧
    (∀ p ∈ SyntaxTables.keywordAsStr, SyntaxTables.keywordFromStr.lookup p.2 = some p.1) ∧
    SyntaxTables.keywordFromStr.length = SyntaxTables.keywordAsStr.length := Tbl.keyword_as_str_from_str

open YashModel.Generated in
/-- ★ the model's `Token.isClauseDelimiter` is `TokenId::is_clause_delimiter` with
    `Keyword::is_clause_delimiter` / `Operator::is_clause_delimiter` as the sources define them, for every
    token -/
theorem isClauseDelimiter_eq_table (t : Token) :
    t.isClauseDelimiter = isClauseDelimiterGen t ∧
    SyntaxTables.tokenIdClauseDelimiter.lookup "Token(Some(_))" = some "keyword" ∧
    SyntaxTables.tokenIdClauseDelimiter.lookup "Operator(_)" = some "operator" :=
  ⟨Tbl.isClauseDelimiter_eq_table t, Tbl.tokenId_clause_dispatch⟩

open YashModel.Generated in
/-- what `Parser::command_line` accepts after a line that no newline ends: the end of input only -/
theorem commandLine_trailing_table : SyntaxTables.commandLineAcceptedTrailing = ["EndOfInput"] :=
  Tbl.commandLine_trailing_table

/-! ## Wave 3: command lines and scripts up to the end of input

`parseCommandLine` transcribes `Parser::command_line`, the entry point of the shell's read-eval loop;
`parseScript` reads command lines until the end of input.  The earlier statements end a program with `)`;
these end it the way a script does — with a newline, and the script with the end of input. -/

/-- ★ A printed list of the closed fragment followed by a newline is read back by `Parser::command_line`
    as that list, and the line is consumed up to and including the newline (`l = []` is the blank line). -/
theorem command_line_roundtrip (l : List Item) (rest : List Char) (h : LineOk l rest) :
    parseLine (printList false l ++ '\n' :: rest) = some (some l, rest) := by
  unfold parseLine
  have hd := ldepth_le false l
  exact commandLine_rt _ l rest h (by simp only [List.length_append, List.length_cons]; omega)

/-- at the end of input `Parser::command_line` answers `Ok(None)` -/
theorem command_line_end_of_input : parseLine [] = some (none, []) := commandLine_eof _

/-- ★ A script — every list printed on its own line — is read back line by line as those lists, up to the real
    end of input, with the nesting budget and the loop fuel taken from the input length as the driver does. -/
theorem script_roundtrip (ls : List (List Item)) (h : ScriptOk ls) : parseScript (scriptText ls) = some ls :=
  script_rt ls h

theorem nested_line_ok (rest : List Char) : LineOk nested rest := by
  simp only [LineOk, nested, it1, ItemsOk, AndOrOk, AndOrRestOk, PipelineOk, CommandsOk, CommandOk,
    CompoundOk, ElifsOk, RedirsOk, pipeRest, aoRest, printRedirsSp, List.nil_append, List.singleton_append, List.cons_append, ne_eq, reduceCtorEq, not_false_eq_true, List.cons_ne_self, and_true,
    true_and, Bool.false_eq_true, if_false, if_true]
  and_intros
  all_goals first
    | trivial
    | exact leaf_ok _ _ (by decide) (by decide) (by decide) _ (tailOk_cons _ _ (by decide))
    | exact leaf_ok _ _ (by decide) (by decide) (by decide) _ (Or.inr ⟨true, _, _, rfl, by decide⟩)
    | exact tailOk_cons _ _ (by decide)
    | exact (Or.inr ⟨true, _, _, rfl, by decide⟩)
    | skip

theorem nested2_line_ok (rest : List Char) : LineOk nested2 rest := by
  simp only [LineOk, nested2, it1, lw, ItemsOk, AndOrOk, AndOrRestOk, PipelineOk, CommandsOk, CommandOk,
    CompoundOk, CaseItemsOk, PatsOk, ForWordsOk, ElifsOk, RedirsOk, pipeRest, aoRest, printRedirsSp,
    List.nil_append, List.singleton_append, List.cons_append, ne_eq, reduceCtorEq, not_false_eq_true,
    List.cons_ne_self, and_true, true_and, Bool.false_eq_true, if_false, if_true]
  and_intros
  all_goals first
    | trivial
    | exact leaf_ok _ _ (by decide) (by decide) (by decide) _ (tailOk_cons _ _ (by decide))
    | exact tailOk_cons _ _ (by decide)
    | exact plainArg_tok _ (by decide) _
    | exact ⟨plainArg_tok _ (by decide) _, plainArg_noAssign _ (by decide), by decide, by decide⟩

/-- non-vacuity: the two nested programs and a blank line as a three-line script, read to the end of input -/
example : parseScript (scriptText [nested, [], nested2]) = some [nested, [], nested2] :=
  script_roundtrip _ ⟨nested_line_ok _, trivial, nested2_line_ok _, trivial⟩

example : scriptText [nested, [], nested2] =
    ("{ while a; do (b x) | c && ! d& done; if e; then f; elif g; then h; else i; fi; }\n\n" ++
     "f() { for x in a b; do case y in (p | q) c;; (r) ;& (s) d&;| esac; done; } >o\n").toList := by
  decide +kernel

/-! ## Wave 3: array assignments

`parseArrayWords` transcribes `Parser::array_values`; `Piece.arrayAssign` is the fourth kind of piece of a
simple command, and `SimpleOk` (the leaves of the closed fragment) is now stated over pieces, so commands
with array assignments are leaves of `structure_roundtrip`, `command_line_roundtrip` and `script_roundtrip`. -/

/-- ★ A simple command with at least one assignment — scalar or array, `name=(w₁ … wₙ)` — words and
    redirections prints as text that the model of `Parser::simple_command` (with `array_values`) reads back
    as the same command in front of every command tail. -/
theorem simple_command_with_arrays_roundtrip (as : List Assign) (ws : List Word)
    (rs : List (Option Nat × RedirOp × Word)) (tail : List Char) (ht : TailOk tail) (hne : as ≠ [])
    (hok : PiecesOk ⟨[], [], []⟩ (assignPiecesV as ++ wordPieces ws ++ redirPieces rs) tail)
    (fuel : Nat) (hf : (printSimple (mkSimpleV as ws rs)).length + 2 ≤ fuel) :
    parseSimple fuel (printSimple (mkSimpleV as ws rs) ++ tail) = some (some (mkSimpleV as ws rs), tail) := by
  have := parseSimple_tail _ tail ht (simpleOk_assigns as ws rs tail hne hok) false fuel hf
  simpa using this

/-- `a=(x y) b=1 c >f` -/
def arrCmd : SimpleCommand :=
  mkSimpleV [⟨['a'], .array [digitsWord ['x'], digitsWord ['y']]⟩, ⟨['b'], .scalar (digitsWord ['1'])⟩]
    [digitsWord ['c']] [(none, .fileOut, digitsWord ['f'])]

example : printSimple arrCmd = "a=(x y) b=1 c >f".toList := by decide +kernel

theorem arrCmd_ok (tail : List Char) :
    PiecesOk ⟨[], [], []⟩ (assignPiecesV arrCmd.assigns ++ wordPieces arrCmd.words ++
      redirPieces [(none, .fileOut, digitsWord ['f'])]) tail := by
  simp only [arrCmd, mkSimpleV, assignPiecesV, wordPieces, redirPieces, List.map_cons, List.map_nil,
    List.cons_append, List.nil_append, PiecesOk, PieceOk, Builder.push, ArrWordsOk, and_true, true_and]
  have lit : ∀ (c : Char) (cs : List Char) (next : List Char),
      (c ≠ '\\' ∧ c ≠ '$' ∧ c ≠ '`' ∧ Delim.token.test c = false ∧ c ≠ '"' ∧ c ≠ '\'' ∧ c ≠ '~' ∧ c ≠ '#') →
      (∀ x ∈ cs, x ≠ '\\' ∧ x ≠ '$' ∧ x ≠ '`' ∧ Delim.token.test x = false ∧ x ≠ '"' ∧ x ≠ '\'') →
      TokWordOk (digitsWord (c :: cs)) next := fun c cs next h hcs => litWord_tok c next h cs hcs
  have ha : assignWord ['a'] [] = digitsWord ['a', '='] := rfl
  have hb : assignWord ['b'] (digitsWord ['1']) = digitsWord ['b', '=', '1'] := rfl
  rw [ha, hb]
  refine ⟨⟨lit _ _ _ (by decide) (by decide), by decide, by decide, lit _ _ _ (by decide) (by decide),
    lit _ _ _ (by decide) (by decide)⟩, ⟨lit _ _ _ (by decide) (by decide), by decide, by decide, by decide,
    by simp [digitsWord]⟩, ⟨lit _ _ _ (by decide) (by decide), fun _ => ⟨by decide, fun h => by simp [Builder.isEmpty]⟩,
    fun h => absurd rfl h⟩, trivial, lit _ _ _ (by decide) (by decide)⟩


/-- non-vacuity: `a=(x y) b=1 c >f` in front of `;` -/
example (rest : List Char) :
    parseSimple 40 (printSimple arrCmd ++ ';' :: rest) = some (some arrCmd, ';' :: rest) :=
  simple_command_with_arrays_roundtrip _ _ _ _ (tailOk_cons _ _ (Or.inl rfl)) (by simp [arrCmd, mkSimpleV]) (arrCmd_ok _) 40
    (by decide +kernel)

/-- the command with the array assignment as a leaf of the closed fragment: a script line -/
theorem arr_line_ok (rest : List Char) : LineOk [it1 (.simple arrCmd)] rest := by
  simp only [LineOk, it1, ItemsOk, AndOrOk, AndOrRestOk, PipelineOk, CommandsOk, CommandOk, pipeRest, aoRest,
    List.nil_append, ne_eq, reduceCtorEq, not_false_eq_true, List.cons_ne_self, and_true, true_and,
    Bool.false_eq_true, if_false]
  exact ⟨simpleOk_assigns _ _ _ _ (by simp [arrCmd, mkSimpleV]) (arrCmd_ok _), tailOk_cons _ _ (by decide)⟩

example : parseScript (scriptText [[it1 (.simple arrCmd)], nested]) = some [[it1 (.simple arrCmd)], nested] :=
  script_roundtrip _ ⟨arr_line_ok _, nested_line_ok _, trivial⟩

/-! ## Wave 3: rejections at the boundaries of the statements above -/

/-- `Parser::command_line` does not accept a line that ends in front of a `)` (`UnopenedSubshell`): the same
    printed list that `structure_roundtrip` reads inside parentheses is a syntax error as a command line. -/
theorem command_line_rejects_close_paren (l : List Item) (rest : List Char) (h : ProgramOk l rest) :
    parseLine (printList false l ++ ')' :: rest) = none := by
  unfold parseLine
  have hd := ldepth_le false l
  exact commandLine_rparen _ l rest h (by simp only [List.length_append, List.length_cons]; omega)

example (rest : List Char) : parseLine (printList false nested ++ ')' :: rest) = none :=
  command_line_rejects_close_paren nested rest (nested_ok rest)

/-- the boundary of `FdOk` in `redirection_roundtrip`: an IO_NUMBER above `i32::MAX` in front of `<` or `>` is
    the syntax error `FdOutOfRange`, whatever follows -/
theorem redirection_fd_out_of_range (n : Nat) (hn : 2147483647 < n) (c : Char) (body : List Char)
    (hc : c = '<' ∨ c = '>') (sp : Bool) :
    parseRedir ((if sp then [' '] else []) ++ (printNat n ++ c :: body)) = none :=
  parseRedir_fd_out_of_range n hn c body hc sp

example : parseRedir "2147483648>f;".toList = none := by decide +kernel
example : (parseRedir "2147483647>f;".toList).isSome = true := by decide +kernel

/-! ## Wave 3: the consumers named by the property (what the user is shown) -/

/-- ★ What `typeset -fp` shows (`print_one`: the function definition and a newline; the `F` cases compare
    exactly this text with the built-in's output): for a definition of the closed fragment the shown line is
    read back by `Parser::command_line` as that one function definition. -/
theorem typeset_listing_roundtrip (name : Word) (body : CompoundCommand) (rs : List Redir) (rest : List Char)
    (h : CommandOk (.function false name body rs) ('\n' :: rest)) :
    parseLine (printCommand (.function false name body rs) ++ '\n' :: rest) =
      some (some [it1 (.function false name body rs)], rest) := by
  have hl : LineOk [it1 (.function false name body rs)] rest := by
    simp only [LineOk, it1, ItemsOk, AndOrOk, AndOrRestOk, PipelineOk, CommandsOk, pipeRest, aoRest,
      List.nil_append, ne_eq, not_false_eq_true, List.cons_ne_self, and_true, true_and,
      Bool.false_eq_true, if_false]
    exact h
  have := command_line_roundtrip _ rest hl
  simpa [printList, printItem, printAndOr, printPipeline, printCommands, printAndOrRest, it1] using this

/-- ★ What `jobs` shows (the job name is `and_or.to_string()`; the `J` cases compare this text): for an and-or
    list of the closed fragment the name, as a line, is read back as that and-or list. -/
theorem job_name_roundtrip (a : AndOrList) (rest : List Char) (h : AndOrOk a ('\n' :: rest)) :
    parseLine (printAndOr a ++ '\n' :: rest) = some (some [.mk a false], rest) := by
  have hl : LineOk [.mk a false] rest := by
    simp only [LineOk, ItemsOk, Bool.false_eq_true, if_false, List.nil_append]
    exact h
  have := command_line_roundtrip _ rest hl
  simpa [printList, printItem] using this


/-- non-vacuity: the function definition of `nested2` as `typeset -fp` shows it -/
example (rest : List Char) :
    parseLine ("f() { for x in a b; do case y in (p | q) c;; (r) ;& (s) d&;| esac; done; } >o".toList ++ '\n' :: rest) =
      some (some nested2, rest) := by
  have h := nested2_line_ok rest
  have e : printList false nested2 =
      "f() { for x in a b; do case y in (p | q) c;; (r) ;& (s) d&;| esac; done; } >o".toList := by decide +kernel
  rw [← e]
  exact command_line_roundtrip nested2 rest h

/-- non-vacuity: the and-or list of `nested` as a job name -/
example (rest : List Char) :
    ∃ a, nested = [.mk a false] ∧ parseLine (printAndOr a ++ '\n' :: rest) = some (some [.mk a false], rest) := by
  refine ⟨_, rfl, job_name_roundtrip _ rest ?_⟩
  have h := nested_line_ok rest
  simpa only [LineOk, nested, it1, ItemsOk, Bool.false_eq_true, if_false, List.nil_append] using h

/-! ## Wave 3 (second pass): declaration utilities and the placement of redirections

`Display for SimpleCommand` moves every redirection behind the words (or in front of them, keyword-first).
Whether a `name=value` operand is parsed in the single-expansion mode (tilde expansions after `=` and `:`)
depends on the `is_declaration_utility` state of `Parser::simple_command`; `declLoop` transcribes that state
machine over the tokens of the loop, the driver checks on every tree that the modes the real parser assigned
are `wordModes posixGlossary none words`, and the glossary is the extracted `PosixGlossary`. -/

/-- ★ Redirections and assignments never change the declaration-utility decision: the expansion modes of the
    words are those the words alone determine, for every glossary, every state and every placement. -/
theorem decl_modes_ignore_redirections (g : Glossary) (st : Option Bool) (items : List SItem) :
    declLoop g st items = wordModes g st (items.filterMap SItem.word?) :=
  declLoop_eq_wordModes g items st

/-- ★ Hence the printed form — assignments, words, redirections, or redirections first — re-parses with the
    same mode for every word as the source did, wherever the source had its redirections. -/
theorem printed_order_keeps_decl_modes (g : Glossary) (items : List SItem) (k m : Nat) :
    declLoop g none (List.replicate k .assign ++ (items.filterMap SItem.word?).map .word ++ List.replicate m .redir) =
      declLoop g none items ∧
    declLoop g none (List.replicate m .redir ++ (items.filterMap SItem.word?).map .word) = declLoop g none items := by
  obtain ⟨h1, h2⟩ := filterMap_printed k m (items.filterMap SItem.word?)
  rw [declLoop_eq_wordModes, declLoop_eq_wordModes, declLoop_eq_wordModes, h1, h2]
  exact ⟨rfl, rfl⟩

/-- the glossary of `List::from_str` as the sources define it: `export`, `readonly` are declaration
    utilities, `command` defers to the next word, every other name is none -/
theorem posixGlossary_is_table :
    posixGlossary "export".toList = some true ∧ posixGlossary "readonly".toList = some true ∧
    posixGlossary "command".toList = none ∧
    ∀ s : List Char, s ≠ "export".toList → s ≠ "readonly".toList → s ≠ "command".toList →
      posixGlossary s = some false := posixGlossary_spec

/-- `command >log export PATH=~/bin` and `command export PATH=~/bin >log`: the operand is `Single` in both -/
example : declLoop posixGlossary none [.word (lw "command"), .redir, .word (lw "export"), .word (lw "PATH=x")] =
    [false, false, true] ∧
    declLoop posixGlossary none [.word (lw "command"), .word (lw "export"), .word (lw "PATH=x"), .redir] =
    [false, false, true] ∧
    declLoop posixGlossary none [.word (lw "echo"), .redir, .word (lw "PATH=x")] = [false, false] := by
  decide +kernel

/-! ## Wave 3 (second pass): totality — the fuel of the line loop

The model parser is total by construction (structural recursion on fuel).  What has to be shown is that the
fuel it is given — linear in the input length — never runs out.  Full statement (open):
`∀ cs k, 1 ≤ k → parseScriptWith k cs = parseScript cs`.  Proved: the line loop, given that every accepted command
line consumes a character (`LineProgress`; missing: that property for `parseCommand`, i.e. "the rest is a proper
suffix" through all parser layers).  The driver checks the full statement for `k = 2` on every `L` case. -/

/-- with more than `|cs|` fuel the line loop never stops for lack of fuel: any two such budgets agree -/
theorem parseLines_fuel_stable_partial (pc : CmdParser) (hp : LineProgress pc) (cs : List Char) (f1 f2 : Nat)
    (h1 : cs.length + 1 ≤ f1) (h2 : cs.length + 1 ≤ f2) : parseLines pc f1 cs = parseLines pc f2 cs :=
  parseLines_fuel_stable pc hp cs.length cs f1 f2 (Nat.le_refl _) h1 h2

/-- non-vacuity of the full statement on a script: twice the budgets, same answer -/
example : (parseScriptWith 2 "f() { a | b; }\n(c)\n".toList).map (·.map (printList false)) =
    (parseScript "f() { a | b; }\n(c)\n".toList).map (·.map (printList false)) := by decide +kernel

/-! ## Wave 3 (second pass): end of input directly after the last token — the word, token and simple-command layers

`List::from_str(printed)` ends at the end of input without a newline.  The word-level statements needed a
following character; these are their end-of-input twins (only the outermost list of word units can meet the end
of input: inner lists end at `}` or `"`).  The structural layers follow in the final-pass section below. -/

/-- ★ a printed word of the fragment followed by the end of input is read back as that word, for every
    delimiter predicate -/
theorem word_self_delimiting_at_end_of_input (d : Delim) (w : Word) (h : WordUnits.Ok .word d w []) :
    lexWord d (printWord w) = some (w, []) := word_eof d w h

/-- a printed token word at the end of input is read by the token step as that word, with its reserved-word
    classification, after an optional blank -/
theorem token_roundtrip_at_end_of_input (w : Word) (hw : TokWordOk w []) (sp : Bool) :
    lexToken ((if sp then [' '] else []) ++ printWord w) = some (⟨w, .word (isKeywordWord w)⟩, []) :=
  lexToken_word_eof w hw sp

/-- ★ a simple command of the fragment (scalar and array assignments, words, redirections, both print orders)
    printed and followed directly by the end of input is read back by `Parser::simple_command` -/
theorem simple_command_roundtrip_at_end_of_input (c : SimpleCommand) (h : SimpleOk c []) (fuel : Nat)
    (hf : (printSimple c).length + 2 ≤ fuel) : parseSimple fuel (printSimple c) = some (some c, []) := by
  obtain ⟨ps, hps, hprint, hfold, hok⟩ := h
  have hlen := pieces_length_le [] _ _ hok
  rw [hprint] at hf ⊢
  have hl := loop_pieces_eof ps ⟨[], [], []⟩ fuel false (by omega) (fun _ => rfl) hok
  simp only [Bool.false_eq_true, if_false, List.nil_append] at hl
  unfold parseSimple
  rw [hl, hfold]
  have hne : (Builder.mk c.assigns c.words c.redirs).isEmpty = false := by
    cases ps with
    | nil => exact absurd rfl hps
    | cons p qs =>
      have hmono : ∀ (l : List Piece) (b : Builder), b.isEmpty = false →
          (l.foldl Builder.push b).isEmpty = false := by
        intro l
        induction l with
        | nil => intro b hb; exact hb
        | cons q l ih =>
          intro b hb
          apply ih
          cases q <;> simp [Builder.push, Builder.isEmpty] at hb ⊢ <;> intro a b' <;> simp_all
      have h1 : (Builder.push ⟨[], [], []⟩ p).isEmpty = false := by
        cases p <;> simp [Builder.push, Builder.isEmpty]
      have := hmono qs _ h1
      rw [List.foldl_cons] at hfold
      rw [hfold] at this
      exact this
  simp [hne]

/-- non-vacuity: `a=(x y) b=1 c >f` and then the end of input -/
example : parseSimple 40 (printSimple arrCmd) = some (some arrCmd, []) :=
  simple_command_roundtrip_at_end_of_input arrCmd
    (simpleOk_assigns _ _ _ _ (by simp [arrCmd, mkSimpleV]) (arrCmd_ok _)) 40 (by decide +kernel)

/-! ## Wave 3 (final pass): the structural layers at the end of input

`TailOk` and `NextOk` now admit the empty tail (`lexToken [] = endOfInput`), the five consumers of `lexToken_tail`
(`loop_tail`, `pipeTail_rt`, `andOrTail_rt`, `parseRedir_tail`, `parseCommand_simple`) have the end-of-input branch,
and the list layer has `listEnd_eof`.  So the closed fragment covers what the oracle does:
`List::from_str(printed)` — the printed program followed directly by the end of input. -/

/-- ★ `structure_roundtrip` with the real end of input: for every program of the closed fragment (now with
    the empty tail threaded through every node) `parseProgram (printList l) = some (l, [])` — the printed text,
    WITHOUT a final newline or `)`, is read back as the same tree. -/
theorem structure_roundtrip_at_end_of_input (l : List Item) (h : ProgramEofOk l) :
    parseProgram (printList false l) = some (l, []) := parseProgram_eof_rt l h

/-- ★ a script whose last line is not ended by a newline is read back line by line up to the end of input -/
theorem script_roundtrip_unterminated (ls : List (List Item)) (l : List Item) (hne : l ≠ [])
    (h : ScriptLastOk ls l) : parseScript (scriptTextLast ls l) = some (ls ++ [l]) := script_last_rt ls l hne h

theorem nested_eof_ok : ProgramEofOk nested := by
  simp only [ProgramEofOk, nested, it1, ItemsOk, AndOrOk, AndOrRestOk, PipelineOk, CommandsOk, CommandOk,
    CompoundOk, ElifsOk, RedirsOk, pipeRest, aoRest, printRedirsSp, List.nil_append, List.singleton_append, List.cons_append, ne_eq, reduceCtorEq, not_false_eq_true, List.cons_ne_self, and_true,
    true_and, Bool.false_eq_true, if_false, if_true, List.append_nil]
  and_intros
  all_goals first
    | trivial
    | exact Or.inl rfl
    | exact leaf_ok _ _ (by decide) (by decide) (by decide) _ (tailOk_cons _ _ (by decide))
    | exact leaf_ok _ _ (by decide) (by decide) (by decide) _ (Or.inr ⟨true, _, _, rfl, by decide⟩)
    | exact tailOk_cons _ _ (by decide)
    | exact (Or.inr ⟨true, _, _, rfl, by decide⟩)
    | skip

theorem nested2_eof_ok : ProgramEofOk nested2 := by
  simp only [ProgramEofOk, nested2, it1, lw, ItemsOk, AndOrOk, AndOrRestOk, PipelineOk, CommandsOk, CommandOk,
    CompoundOk, CaseItemsOk, PatsOk, ForWordsOk, ElifsOk, RedirsOk, pipeRest, aoRest, printRedirsSp,
    List.nil_append, List.singleton_append, List.cons_append, ne_eq, reduceCtorEq, not_false_eq_true,
    List.cons_ne_self, and_true, true_and, Bool.false_eq_true, if_false, if_true, List.append_nil]
  and_intros
  all_goals first
    | trivial
    | exact Or.inl rfl
    | exact leaf_ok _ _ (by decide) (by decide) (by decide) _ (tailOk_cons _ _ (by decide))
    | exact tailOk_cons _ _ (by decide)
    | exact plainArg_tok _ (by decide) _
    | exact ⟨plainArg_tok _ (by decide) _, plainArg_noAssign _ (by decide), by decide, by decide⟩

/-- non-vacuity: both nested programs, printed without anything after them -/
example : parseProgram (printList false nested) = some (nested, []) :=
  structure_roundtrip_at_end_of_input nested nested_eof_ok
example : parseProgram (printList false nested2) = some (nested2, []) :=
  structure_roundtrip_at_end_of_input nested2 nested2_eof_ok
example : parseScript (scriptTextLast [nested, []] nested2) = some [nested, [], nested2] :=
  script_roundtrip_unterminated _ _ (by simp [nested2]) ⟨nested_line_ok _, trivial, nested2_eof_ok⟩

/-! ## Round 8: the separator between a function name and `()` is decided by the LAST UNIT of the name

`FunctionDefinition::fmt` writes a blank before `()` when the last unit of the name is an unquoted `$` or a tilde
expansion whose name ends in `$` — whatever the units before it are (a quoted part, an escape, a parameter…).  A
printer that asks `to_string_if_literal()` instead agrees on purely literal names only.  The statements below are
for every prefix; the harness family 9 puts a `$` after every kind of unit and compares the model printer with
`to_string()` and the printed text with its re-parse. -/

theorem endsWithDollar_last_unit (p : Word) :
    endsWithDollar (p ++ [.unquoted (.literal '$')]) = true ∧
    (∀ (n : List Char) (s : Bool), endsWithDollar (p ++ [.tilde (n ++ ['$']) s]) = true) ∧
    (∀ c : Char, c ≠ '$' → endsWithDollar (p ++ [.unquoted (.literal c)]) = false) := by
  refine ⟨by simp [endsWithDollar], fun n s => by simp [endsWithDollar], fun c hc => by simp [endsWithDollar, hc]⟩

theorem function_name_dollar_separator (p : Word) (body : CompoundCommand) (rs : List Redir) :
    printCommand (.function false (p ++ [.unquoted (.literal '$')]) body rs) =
      printWord p ++ '$' :: ' ' :: '(' :: ')' :: ' ' :: (printCompound body ++ printRedirsSp rs) := by
  simp [printCommand, (endsWithDollar_last_unit p).1, printWord_append, printWord, printWordUnit, printTextUnit, str]

def fnDollar (p : Word) : List Item :=
  [it1 (.function false (p ++ [.unquoted (.literal '$')]) (.grouping [it1 (sc ["g"])]) [])]

example : reads (fnDollar [.singleQuote ['f'], .unquoted (.literal 'x')]) = true := by decide +kernel
example : reads (fnDollar [.doubleQuote [.literal 'a']]) = true := by decide +kernel
example : reads (fnDollar [.unquoted (.backslashed 'a')]) = true := by decide +kernel
example : reads (fnDollar [.dollarSingleQuote [.literal 'x']]) = true := by decide +kernel
example : reads (fnDollar [.unquoted (.rawParam ['x'])]) = true := by decide +kernel
example : reads (fnDollar [.unquoted (.bracedParam ['x'] .none)]) = true := by decide +kernel
example : printList false (fnDollar [.singleQuote ['f'], .unquoted (.literal 'x')]) = "'f'x$ () { g; }".toList := by
  decide +kernel


end YashModel.Syntax
