/-
  C06 — property theorems (the theorem half of the partial claim; totality of the Rust parser and the
  full grammar are carried by the correspondence run of `harness/src/bin/c06.rs`).
-/
import YashModel.Syntax.Lemmas
import YashModel.Syntax.WordLemmas
import YashModel.Syntax.CommandLemmas
namespace YashModel.Syntax

/-- ★ Every escape unit the parser can produce is printed as text that the escape lexer reads back as the
    same unit, whatever follows it (every `\c` control form including `\c\\`, three-digit octal, two-digit
    hex, `\u`/`\U`, every literal character). -/
theorem escape_unit_roundtrip (u : EscapeUnit) (h : u.Producible) (rest : List Char) :
    lexEscape (printEscape u ++ rest) = some (u, rest) :=
  escape_unit_roundtrip_aux u h rest

example : (EscapeUnit.control 0x1C).Producible := Or.inl (by decide)
example : lexEscape (printEscape (.control 0x1C) ++ ['\\', 'c', '\\', '\\']) =
    some (.control 0x1C, ['\\', 'c', '\\', '\\']) := by decide
example : lexEscape (printEscape (.unicode '😀') ++ ['A']) = some (.unicode '😀', ['A']) := by decide


/-
  ★ (design) word_self_delimiting : ∀ w ∈ Fragment, ∀ d rest, lexWord (printWord w ++ d :: rest) = (w, d :: rest)
  with Fragment = all word units.  Proved below for the fragment `WordUnit.Flat`: unquoted literal
  characters that are neither delimiters nor one of `\ ' " $ \``, backslash-escaped characters (any
  but newline, which the lexer removes as a line continuation), single-quoted strings, and
  dollar-single-quoted strings made of every producible escape unit.  Missing: parameter expansions
  (`$x`, `${x…}` with modifiers), double quotes, backquotes (the model lexer covers them and is run
  against the implementation's printed text on every correspondence run, but the mutual induction
  through `${…}` was not finished), command substitutions and arithmetic (not in the model lexer).
-/

/-- ★ (partial) A word of the flat fragment is self-delimiting: whatever delimiter character `c` and text
    `rest` follow its printed form, the word lexer (token delimiters, as used by `Lexer::token`) returns
    exactly the word and stops in front of `c`. Printing single spaces between words is therefore enough. -/
theorem word_self_delimiting_partial (w : Word) (h : ∀ u ∈ w, u.Flat .token) (c : Char)
    (hc : Delim.token.Ends c) (rest : List Char) :
    lexWord .token (printWord w ++ c :: rest) = some (w, c :: rest) := by
  unfold lexWord
  apply lexWordUnits_flat .token (by decide) w h c hc rest
  simp only [List.length_append, List.length_cons]
  omega

/-- the same inside `${…}`, where only `}` delimits (words of switch and trim modifiers) -/
theorem word_self_delimiting_in_braces_partial (w : Word) (h : ∀ u ∈ w, u.Flat .brace)
    (rest : List Char) :
    lexWord .brace (printWord w ++ '}' :: rest) = some (w, '}' :: rest) := by
  unfold lexWord
  apply lexWordUnits_flat .brace (by decide) w h '}' ⟨by decide, by decide⟩ rest
  simp only [List.length_append, List.length_cons]
  omega

example : ∀ u ∈ ([.unquoted (.literal 'a'), .unquoted (.backslashed ' '), .singleQuote ['$', 'x'],
    .dollarSingleQuote [.control 0x1C, .literal 'z', .octal 7]] : Word), u.Flat .token := by
  intro u hu
  simp at hu
  rcases hu with rfl | rfl | rfl | rfl
  · exact ⟨by decide, by decide⟩
  · show ' ' ≠ '\n'; decide
  · show '\'' ∉ ['$', 'x']; decide
  · intro v hv
    simp at hv
    rcases hv with rfl | rfl | rfl
    · exact ⟨Or.inl (by decide), by simp⟩
    · exact ⟨by show 'z' ≠ '\\'; decide, by simp⟩
    · exact ⟨trivial, by simp⟩
example : Delim.token.Ends ';' := ⟨by decide, by decide⟩
example : Delim.token.Ends ' ' := ⟨by decide, by decide⟩


/-
  ★ (design) simple_command_roundtrip : parsing the printed form of a simple command (assignments, words,
  redirections, with the keyword-first reordering and the IO-number rule) gives the command back.
  Proved below for the argument words only.  Missing: assignments (`Assign::try_from`), redirections
  (operator and IO-number recognition), the keyword-first rule — these are in the printer model and are
  compared with the implementation on every run, and the Rust-side oracle re-parses every printed
  command, but the model has no token-level parser for them.
-/

/-- ★ (partial) A simple command made of argument words of the flat fragment prints as its words
    separated by single blanks, and reading word tokens from that text (skip blanks, `word`,
    `parse_tilde_front`) up to the terminating operator character `c` gives exactly the words back. -/
theorem simple_command_roundtrip_partial (ws : List Word) (h : ∀ w ∈ ws, w.FlatArg) (c : Char)
    (hc : Delim.token.Ends c) (hb : isBlank c = false) (rest : List Char) :
    lexWords (ws.length + 1) (printSimple ⟨[], ws, []⟩ ++ c :: rest) = some (ws, c :: rest) := by
  have hp : printSimple ⟨[], ws, []⟩ = printWords ws := by
    simp [printSimple, printWords]
  rw [hp]
  have := lexWords_print c hc hb rest ws h false (ws.length + 1) (Nat.le_refl _)
  simpa using this

example : Word.FlatArg [.unquoted (.literal 'e'), .unquoted (.backslashed '~'), .singleQuote ['a', ' ']] := by
  refine ⟨?_, by simp, by simp⟩
  intro u hu
  simp at hu
  rcases hu with rfl | rfl | rfl
  · exact ⟨by decide, by decide⟩
  · show '~' ≠ '\n'; decide
  · show '\'' ∉ ['a', ' ']; decide
example : Delim.token.Ends ';' ∧ isBlank ';' = false := ⟨⟨by decide, by decide⟩, by decide⟩

end YashModel.Syntax
