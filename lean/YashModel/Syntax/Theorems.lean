/-
  C06 — property theorems (the theorem half of the partial claim; totality of the Rust parser and the
  full grammar are carried by the correspondence run of `harness/src/bin/c06.rs`).
-/
import YashModel.Syntax.Lemmas
namespace YashModel.Syntax

/-- ★ Every escape unit the parser can produce is printed as text that the escape lexer reads back as the
    same unit, whatever follows it (every `\c` control form including `\c\\`, three-digit octal, two-digit
    hex, `\u`/`\U`, every literal character). -/
theorem escape_unit_roundtrip (u : EscapeUnit) (h : u.Producible) (rest : List Char) :
    lexEscape (printEscape u ++ rest) = some (u, rest) := by
  cases u with
  | literal c =>
    have hc : c ≠ '\\' := h
    simp [printEscape, lexEscape, hc]
  | control b =>
    have hb : b.toNat < 32 ∨ b.toNat = 127 := h
    by_cases h28 : b = 0x1C
    · subst h28
      simp [printEscape, lexEscape, toAsciiUpper]
    · have hlt : b.toNat < 256 := b.toNat_lt
      have hne : b.toNat ≠ 28 := by
        intro hh
        apply h28
        rw [← UInt8.ofNat_toNat (x := b), hh]
        rfl
      have hf := ctrl_facts ⟨b.toNat, hlt⟩ hb hne
      simp only [UInt8.ofNat_toNat] at hf
      obtain ⟨f1, f2, f3, f4, f5⟩ := hf
      have hp : printEscape (.control b) = ['\\', 'c', Char.ofNat (b ^^^ 0x40).toNat] := by
        simp only [printEscape, h28, if_false]
      rw [hp]
      generalize Char.ofNat (b ^^^ 0x40).toNat = ch at *
      simp [lexEscape, f1, f2, f3, f4, f5]
  | octal b =>
    have hlt : b.toNat < 256 := b.toNat_lt
    obtain ⟨_, h2⟩ := octDigits_octal3 b.toNat hlt rest
    have h8 : b.toNat / 64 % 8 < 8 := Nat.mod_lt _ (by decide)
    simp only [printEscape, octal3, List.cons_append, List.nil_append]
    rw [lexEscape_octal_digit _ h8, h2]
    simp only [if_pos hlt, UInt8.ofNat_toNat]
  | hex b =>
    have hlt : b.toNat < 256 := b.toNat_lt
    simp only [printEscape, List.cons_append]
    simp [lexEscape, hexDigits_upperHex2 _ hlt]
  | unicode c =>
    have hv : c.toNat < 1114112 := by
      have := c.valid
      have e : c.toNat = c.val.toNat := rfl
      unfold Nat.isValidChar at this
      omega
    by_cases hs : c.toNat ≤ 0xFFFF
    · have : c.toNat < 65536 := by omega
      simp only [printEscape, hs, if_true, List.cons_append]
      simp [lexEscape, hexDigits_lowerHex4 _ this, charFromU32_toNat]
    · have : c.toNat < 4294967296 := by omega
      simp only [printEscape, hs, if_false, List.cons_append]
      simp [lexEscape, hexDigits_upperHex8 _ this, charFromU32_toNat]
  | _ => simp [printEscape, lexEscape]


example : (EscapeUnit.control 0x1C).Producible := Or.inl (by decide)
example : lexEscape (printEscape (.control 0x1C) ++ ['\\', 'c', '\\', '\\']) =
    some (.control 0x1C, ['\\', 'c', '\\', '\\']) := by decide
example : lexEscape (printEscape (.unicode '😀') ++ ['A']) = some (.unicode '😀', ['A']) := by decide

end YashModel.Syntax
