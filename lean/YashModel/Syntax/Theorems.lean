/-
  C06 — property theorems (the theorem half of the partial claim; totality of the Rust parser and the
  full grammar are carried by the correspondence run of `harness/src/bin/c06.rs`).
-/
import YashModel.Syntax.Lemmas
import YashModel.Syntax.WordLemmas
import YashModel.Syntax.CommandLemmas
import YashModel.Syntax.FragmentLemmas
namespace YashModel.Syntax

/-- ★ Every escape unit the parser can produce is printed as text that the escape lexer reads back as the
    same unit, whatever follows it (every `\c` control form including `\c\\`, three-digit octal, two-digit
    hex, `\u`/`\U`, every literal character). -/
theorem escape_unit_roundtrip (u : EscapeUnit) (h : u.Producible) (rest : List Char) :
    lexEscape (printEscape u ++ rest) = some (u, rest) :=
  escape_unit_roundtrip_aux u h rest

example : (EscapeUnit.control 0x1C).Producible := Or.inl (by decide)
example : lexEscape (printEscape (.control 0x1C) ++ ['\\', 'c', '\\', '\\']) =
    some (.control 0x1C, ['\\', 'c', '\\', '\\']) := by decide
example : lexEscape (printEscape (.unicode '😀') ++ ['A']) = some (.unicode '😀', ['A']) := by decide


/-- ★ Every word of the modelled fragment is self-delimiting.  `WordUnits.Ok .word d w (e :: rest)` says that
    `w` is a tree the word lexer can produce with `(e :: rest)` following it: unquoted literal characters
    (not a delimiter, not one of `\\ $ \`` and not a quote), backslash escapes (any character but newline),
    `$x`/`$1`/`$?` (a name must not be followed by a further name character), `${…}` with every modifier
    (none, length, the eight switches, the four trims) whose words are again in the fragment, backquote
    substitutions, single quotes, double quotes with their text units (the same parameter forms,
    backquotes, the four escapable characters), dollar-single quotes with every producible escape.
    For every such word, every delimiter predicate `d` the lexer uses, every delimiter character `e` and
    every text `rest`: lexing the printed word followed by `e :: rest` returns exactly the word and stops
    in front of `e`.  Outside the fragment: command substitutions and arithmetic expansions (not in the
    model lexer), tilde units (made by `parse_tilde_front` after lexing), and the literal units `$` and
    `\\` that the lexer yields for a dollar or backslash that starts nothing. -/
theorem word_self_delimiting (d : Delim) (w : Word) (e : Char) (rest : List Char)
    (h : WordUnits.Ok .word d w (e :: rest)) (he : d.Ends e) :
    lexWord d (printWord w ++ e :: rest) = some (w, e :: rest) := by
  unfold lexWord
  apply (lex_all _).2.2.2.2 .word d w e rest h he
  simp only [List.length_append, List.length_cons]
  omega

/-- `${x:-"a$y"}$z` followed by a blank -/
example (rest : List Char) : WordUnits.Ok .word .token
    [.unquoted (.bracedParam ['x'] (.switch true .default
        [.doubleQuote [.literal 'a', .rawParam ['y']]])),
     .unquoted (.rawParam ['z'])] (' ' :: rest) := by
  simp only [WordUnits.Ok, WordUnit.Ok, TextUnit.Ok, Modifier.Ok, TextUnits.Ok, UnquotedOk, and_true]
  and_intros
  all_goals first
    | decide
    | trivial
    | exact ⟨'x', [], rfl, Or.inl ⟨by decide, by decide, by decide⟩⟩
    | exact ⟨'y', [], rfl, Or.inr ⟨by decide, by decide, by decide, by decide,
        headNotName_of _ _ (by decide) (by decide)⟩⟩
    | exact ⟨'z', [], rfl, Or.inr ⟨by decide, by decide, by decide, by decide,
        headNotName_of _ _ (by decide) (by decide)⟩⟩
    | (intro _; simp [NoTildeFront])
    | (intro h; simp at h)


/-- the same for the content of double quotes (`Lexer::text` with `"` as the delimiter) -/
theorem text_self_delimiting (t : List TextUnit) (rest : List Char)
    (h : TextUnits.Ok .text .dquote t ('"' :: rest)) :
    lexTextUnits ((printText t).length + 4) .dquote (printText t ++ '"' :: rest) =
      some (t, '"' :: rest) :=
  (lex_all _).2.2.1 .dquote t '"' rest h dquote_textEnds (Nat.le_refl _)

/-- the flat fragment of round 1 (kept as a directly checkable special case) -/
theorem word_self_delimiting_partial (w : Word) (h : ∀ u ∈ w, u.Flat .token) (c : Char)
    (hc : Delim.token.Ends c) (rest : List Char) :
    lexWord .token (printWord w ++ c :: rest) = some (w, c :: rest) := by
  unfold lexWord
  apply lexWordUnits_flat .token (by decide) w h c hc rest
  simp only [List.length_append, List.length_cons]
  omega

/-- the same inside `${…}`, where only `}` delimits (words of switch and trim modifiers) -/
theorem word_self_delimiting_in_braces_partial (w : Word) (h : ∀ u ∈ w, u.Flat .brace)
    (rest : List Char) :
    lexWord .brace (printWord w ++ '}' :: rest) = some (w, '}' :: rest) := by
  unfold lexWord
  apply lexWordUnits_flat .brace (by decide) w h '}' ⟨by decide, by decide⟩ rest
  simp only [List.length_append, List.length_cons]
  omega

example : ∀ u ∈ ([.unquoted (.literal 'a'), .unquoted (.backslashed ' '), .singleQuote ['$', 'x'],
    .dollarSingleQuote [.control 0x1C, .literal 'z', .octal 7]] : Word), u.Flat .token := by
  intro u hu
  simp at hu
  rcases hu with rfl | rfl | rfl | rfl
  · exact ⟨by decide, by decide⟩
  · show ' ' ≠ '\n'; decide
  · show '\'' ∉ ['$', 'x']; decide
  · intro v hv
    simp at hv
    rcases hv with rfl | rfl | rfl
    · exact ⟨Or.inl (by decide), by simp⟩
    · exact ⟨by show 'z' ≠ '\\'; decide, by simp⟩
    · exact ⟨trivial, by simp⟩
example : Delim.token.Ends ';' := ⟨by decide, by decide⟩
example : Delim.token.Ends ' ' := ⟨by decide, by decide⟩


/-
  ★ (design) simple_command_roundtrip : parsing the printed form of a simple command (assignments, words,
  redirections, with the keyword-first reordering and the IO-number rule) gives the command back.
  Proved below for the argument words only.  Missing: assignments (`Assign::try_from`), redirections
  (operator and IO-number recognition), the keyword-first rule — these are in the printer model and are
  compared with the implementation on every run, and the Rust-side oracle re-parses every printed
  command, but the model has no token-level parser for them.
-/

/-- ★ (partial) A simple command made of argument words of the flat fragment prints as its words
    separated by single blanks, and reading word tokens from that text (skip blanks, `word`,
    `parse_tilde_front`) up to the terminating operator character `c` gives exactly the words back. -/
theorem simple_command_roundtrip_partial (ws : List Word) (h : ∀ w ∈ ws, w.FlatArg) (c : Char)
    (hc : Delim.token.Ends c) (hb : isBlank c = false) (rest : List Char) :
    lexWords (ws.length + 1) (printSimple ⟨[], ws, []⟩ ++ c :: rest) = some (ws, c :: rest) := by
  have hp : printSimple ⟨[], ws, []⟩ = printWords ws := by
    simp [printSimple, printWords]
  rw [hp]
  have := lexWords_print c hc hb rest ws h false (ws.length + 1) (Nat.le_refl _)
  simpa using this

example : Word.FlatArg [.unquoted (.literal 'e'), .unquoted (.backslashed '~'), .singleQuote ['a', ' ']] := by
  refine ⟨?_, by simp, by simp⟩
  intro u hu
  simp at hu
  rcases hu with rfl | rfl | rfl
  · exact ⟨by decide, by decide⟩
  · show '~' ≠ '\n'; decide
  · show '\'' ∉ ['a', ' ']; decide
example : Delim.token.Ends ';' ∧ isBlank ';' = false := ⟨⟨by decide, by decide⟩, by decide⟩

end YashModel.Syntax
