/-
  C06 — lemmas about the pieces of the word lexer on printed text (names, backquotes, parameters).
-/
import YashModel.Syntax.Fragment
namespace YashModel.Syntax

theorem nameChar_ne_bs (c : Char) (h : isNameChar c = true) : c ≠ '\\' := by
  intro e; subst e; revert h; decide

theorem takeName_print (n rest : List Char) (hn : n.all isNameChar = true) (hr : HeadNotName rest) :
    ∀ fuel, n.length + 1 ≤ fuel → takeName fuel (n ++ rest) = (n, rest) := by
  induction n with
  | nil =>
    intro fuel hf
    obtain ⟨k, rfl⟩ : ∃ k, fuel = k + 1 := ⟨fuel - 1, by omega⟩
    obtain ⟨h1, h2⟩ := hr
    cases rest with
    | nil => simp [takeName, skipLC]
    | cons c r =>
      have := h2 c r rfl
      simp only [List.nil_append, takeName, h1, this]
      simp
  | cons c n ih =>
    intro fuel hf
    obtain ⟨k, rfl⟩ : ∃ k, fuel = k + 1 := ⟨fuel - 1, by omega⟩
    simp only [List.all_cons, Bool.and_eq_true] at hn
    have hc := nameChar_ne_bs c hn.1
    have := ih hn.2 k (by simp at hf; omega)
    simp [takeName, skipLC_cons_ne c _ hc, hn.1, this]

theorem printBq_cons_lit (c : Char) (us : List BackquoteUnit) :
    printBackquoteUnits (.literal c :: us) = c :: printBackquoteUnits us := by
  simp [printBackquoteUnits, printBackquoteUnit]

theorem printBq_cons_bs (c : Char) (us : List BackquoteUnit) :
    printBackquoteUnits (.backslashed c :: us) = '\\' :: c :: printBackquoteUnits us := by
  simp [printBackquoteUnits, printBackquoteUnit]

theorem lexBackquoteUnits_print (ctx : Ctx) (us : List BackquoteUnit) (h : BqOk ctx us)
    (rest : List Char) :
    ∀ fuel, (printBackquoteUnits us).length + 1 ≤ fuel →
      lexBackquoteUnits ctx fuel (printBackquoteUnits us ++ '`' :: rest) = some (us, rest) := by
  induction us with
  | nil =>
    intro fuel hf
    obtain ⟨k, rfl⟩ : ∃ k, fuel = k + 1 := ⟨fuel - 1, by omega⟩
    simp [printBackquoteUnits, lexBackquoteUnits, skipLC_cons_ne]
  | cons u us ih =>
    intro fuel hf
    obtain ⟨k, rfl⟩ : ∃ k, fuel = k + 1 := ⟨fuel - 1, by omega⟩
    cases u with
    | literal c =>
      obtain ⟨h1, h2, h3⟩ := h
      rw [printBq_cons_lit] at hf ⊢
      have := ih h3 k (by simp at hf; omega)
      simp [lexBackquoteUnits, skipLC_cons_ne c _ h2, h1, h2, this]
    | backslashed c =>
      obtain ⟨h1, h2, h3⟩ := h
      rw [printBq_cons_bs] at hf ⊢
      have ih' := ih h3 k (by simp at hf; omega)
      have hsk : skipLC (c :: (printBackquoteUnits us ++ '`' :: rest)) =
          c :: (printBackquoteUnits us ++ '`' :: rest) := by
        by_cases hc : c = '\\'
        · subst hc
          have h2' := h2 rfl
          cases hp : printBackquoteUnits us with
          | nil => simp [skipLC_bs_ne]
          | cons y ys =>
            rw [hp] at h2'
            have : y ≠ '\n' := by intro e; apply h2'; simp [e]
            simp [skipLC_bs_ne y _ this]
        · exact skipLC_cons_ne c _ hc
      have hcn : c ≠ '\n' := by
        rcases h1 with e | e | e | ⟨e, _⟩ <;> subst e <;> decide
      have hesc : (c = '$' || c = '`' || c = '\\' || (c = '"' && ctx = .text)) = true := by
        rcases h1 with e | e | e | ⟨e, e2⟩ <;> subst e <;> simp [*]
      simp only [List.cons_append, lexBackquoteUnits]
      rw [skipLC_bs_ne c _ hcn]
      simp only [if_true, hsk, hesc, ih']
      simp


theorem special_ne_bs (c : Char) (h : isSpecialParamChar c = true) : c ≠ '\\' := by
  intro e; subst e; revert h; decide

theorem lexParamId_print (id : List Char) (hid : BracedIdOk id) (s : Char) (r : List Char)
    (hs1 : isNameChar s = false) (hs2 : s ≠ '\\') :
    ∀ fuel, id.length + 1 ≤ fuel → lexParamId fuel (id ++ s :: r) = some (id, s :: r) := by
  intro fuel hf
  obtain ⟨c, n, rfl, h⟩ := hid
  have hnn : HeadNotName (s :: r) := ⟨skipLC_cons_ne s r hs2, by
    intro c' r' e; cases e; exact hs1⟩
  rcases h with ⟨h1, h2, h3⟩ | ⟨rfl, h1, h2⟩
  · have hc := nameChar_ne_bs c h1
    have ht := takeName_print n (s :: r) h2 hnn fuel (by simp at hf; omega)
    simp [lexParamId, skipLC_cons_ne c _ hc, h1, ht, h3]
  · have hc := special_ne_bs c h2
    simp [lexParamId, skipLC_cons_ne c _ hc, h1, h2]

theorem skipColon_colon (r : List Char) : skipColon (':' :: r) = (true, r) := by
  simp [skipColon, skipLC_cons_ne]

theorem skipColon_other (s : Char) (r : List Char) (h1 : s ≠ ':') (h2 : s ≠ '\\') :
    skipColon (s :: r) = (false, s :: r) := by
  simp [skipColon, skipLC_cons_ne s r h2, h1]

theorem closeBraced_brace (hasLen : Bool) (id : List Char) (m : Modifier) (r : List Char) :
    closeBraced hasLen id m ('}' :: r) =
      if hasLen then (if m.isNone then .ok (.bracedParam id .length) r else .err)
      else .ok (.bracedParam id m) r := by
  simp [closeBraced, skipLC_cons_ne]

theorem trimLength_same (s : Char) (r : List Char) (h : s ≠ '\\') :
    trimLength s (s :: r) = (true, r) := by
  simp [trimLength, skipLC_cons_ne s r h]

theorem trimLength_other (s y : Char) (r : List Char) (h : y ≠ s)
    (hk : skipLC (y :: r) = y :: r) : trimLength s (y :: r) = (false, y :: r) := by
  simp [trimLength, hk, h]

/-! `has_length_prefix` on printed parameters -/

theorem hasLen_not_hash (c : Char) (t : List Char) (h1 : c ≠ '#') (h2 : c ≠ '\\') :
    hasLengthPrefix (c :: t) = false := by
  simp [hasLengthPrefix, skipLC_cons_ne c t h2, h1]

theorem hasLen_hash_stop (s : Char) (t : List Char)
    (h : s = '}' ∨ s = '+' ∨ s = '=' ∨ s = ':' ∨ s = '%') :
    hasLengthPrefix ('#' :: s :: t) = false := by
  rcases h with e | e | e | e | e <;> subst e <;> simp [hasLengthPrefix, skipLC_cons_ne]

theorem hasLen_hash_amb (s y : Char) (t : List Char) (h : s = '-' ∨ s = '?' ∨ s = '#')
    (hy : y ≠ '}') (hk : skipLC (y :: t) = y :: t) :
    hasLengthPrefix ('#' :: s :: y :: t) = false := by
  rcases h with e | e | e <;> subst e <;> simp [hasLengthPrefix, skipLC_cons_ne, hk, hy]

theorem hasLen_hash_amb_close (s : Char) (t : List Char) (h : s = '-' ∨ s = '?' ∨ s = '#') :
    hasLengthPrefix ('#' :: s :: '}' :: t) = true := by
  rcases h with e | e | e <;> subst e <;> simp [hasLengthPrefix, skipLC_cons_ne]

theorem hasLen_hash_plain (c : Char) (t : List Char) (h1 : c ≠ '\\')
    (h2 : ¬(c = '}' ∨ c = '+' ∨ c = '=' ∨ c = ':' ∨ c = '%' ∨ c = '-' ∨ c = '?' ∨ c = '#')) :
    hasLengthPrefix ('#' :: c :: t) = true := by
  simp only [not_or] at h2
  obtain ⟨a1, a2, a3, a4, a5, a6, a7, a8⟩ := h2
  simp [hasLengthPrefix, skipLC_cons_ne c t h1, skipLC_cons_ne '#' _ (by decide), a1, a2, a3, a4, a5,
    a6, a7, a8]


/-- first printed character of a unit: one of the five special characters or not a delimiter -/
def FirstOk (d : Delim) (y : Char) : Prop :=
  y = '\\' ∨ y = '$' ∨ y = '`' ∨ y = '\'' ∨ y = '"' ∨ d.test y = false

theorem printTextUnit_head (ctx : Ctx) (d : Delim) (u : TextUnit) (rest : List Char)
    (h : TextUnit.Ok ctx d u rest) :
    ∃ y t, printTextUnit u = y :: t ∧ FirstOk d y ∧ ∀ X, skipLC (y :: t ++ X) = y :: t ++ X := by
  cases u with
  | literal c =>
    simp only [TextUnit.Ok] at h
    exact ⟨c, [], by simp [printTextUnit], by simp [FirstOk, h.2.2.2],
      fun X => skipLC_cons_ne c _ h.1⟩
  | backslashed c =>
    simp only [TextUnit.Ok] at h
    exact ⟨'\\', [c], by simp [printTextUnit], by simp [FirstOk], fun X => skipLC_bs_ne c _ h.2⟩
  | rawParam id =>
    exact ⟨'$', id, by simp [printTextUnit], by simp [FirstOk], fun X => skipLC_cons_ne _ _ (by decide)⟩
  | bracedParam id m =>
    exact ⟨'$', '{' :: printBraced id m, by simp [printTextUnit], by simp [FirstOk],
      fun X => skipLC_cons_ne _ _ (by decide)⟩
  | commandSubst s => simp [TextUnit.Ok] at h
  | backquote us =>
    exact ⟨'`', printBackquoteUnits us ++ ['`'], by simp [printTextUnit], by simp [FirstOk],
      fun X => skipLC_cons_ne _ _ (by decide)⟩
  | arith t => simp [TextUnit.Ok] at h

theorem printWordUnit_head (ctx : Ctx) (d : Delim) (u : WordUnit) (rest : List Char)
    (h : WordUnit.Ok ctx d u rest) :
    ∃ y t, printWordUnit u = y :: t ∧ FirstOk d y ∧ ∀ X, skipLC (y :: t ++ X) = y :: t ++ X := by
  cases u with
  | unquoted t =>
    simp only [WordUnit.Ok] at h
    simpa [printWordUnit] using printTextUnit_head ctx d t rest h.1
  | singleQuote s =>
    exact ⟨'\'', s ++ ['\''], by simp [printWordUnit], by simp [FirstOk],
      fun X => skipLC_cons_ne _ _ (by decide)⟩
  | doubleQuote t =>
    exact ⟨'"', printText t ++ ['"'], by simp [printWordUnit], by simp [FirstOk],
      fun X => skipLC_cons_ne _ _ (by decide)⟩
  | dollarSingleQuote es =>
    exact ⟨'$', '\'' :: (printEscaped es ++ ['\'']), by simp [printWordUnit], by simp [FirstOk],
      fun X => skipLC_cons_ne _ _ (by decide)⟩
  | tilde n s => simp [WordUnit.Ok] at h

/-- the printed form of a non-empty word of the fragment -/
theorem printWord_head_ok (ctx : Ctx) (d : Delim) (w : List WordUnit) (rest : List Char)
    (h : WordUnits.Ok ctx d w rest) (hne : printWord w ≠ []) :
    ∃ y t, printWord w = y :: t ∧ FirstOk d y ∧ ∀ X, skipLC (y :: t ++ X) = y :: t ++ X := by
  cases w with
  | nil => simp [printWord] at hne
  | cons u us =>
    simp only [WordUnits.Ok] at h
    obtain ⟨y, t, e, hy, hk⟩ := printWordUnit_head ctx d u _ h.1
    refine ⟨y, t ++ printWord us, by simp [printWord, e], hy, fun X => ?_⟩
    have := hk (printWord us ++ X)
    simpa using this

/-- conditions on the character that ends a text (`"` for the content of double quotes) -/
def Delim.TextEnds (d : Delim) (e : Char) : Prop :=
  d.test e = true ∧ e ≠ '\\' ∧ e ≠ '$' ∧ e ≠ '`'

theorem lexTextUnit_at_end (ctx : Ctx) (d : Delim) (e : Char) (he : d.TextEnds e) (rest : List Char) :
    ∀ fuel, 1 ≤ fuel → lexTextUnit fuel ctx d (e :: rest) = .none (e :: rest) := by
  intro fuel hf
  obtain ⟨n, rfl⟩ : ∃ n, fuel = n + 1 := ⟨fuel - 1, by omega⟩
  obtain ⟨h0, h1, h2, h3⟩ := he
  simp [lexTextUnit, skipLC_cons_ne e _ h1, h1, h2, h3, h0]

theorem lexWordUnit_at_end (ctx : Ctx) (d : Delim) (e : Char) (he : d.Ends e) (rest : List Char) :
    ∀ fuel, 2 ≤ fuel → lexWordUnit fuel ctx d (e :: rest) = .none (e :: rest) := by
  intro fuel hf
  obtain ⟨n, rfl⟩ : ∃ n, fuel = n + 2 := ⟨fuel - 2, by omega⟩
  obtain ⟨ht, hs⟩ := he
  simp [isWordSpecial] at hs
  obtain ⟨⟨⟨⟨h1, h2⟩, h3⟩, h4⟩, h5⟩ := hs
  simp [lexWordUnit, lexTextUnit, skipLC_cons_ne e _ h1, h1, h2, h3, h4, h5, ht]

/-! ## statements of the induction on fuel -/

def StTU (n : Nat) : Prop :=
  ∀ ctx d u rest, TextUnit.Ok ctx d u rest → (printTextUnit u).length + 2 ≤ n →
    lexTextUnit n ctx d (printTextUnit u ++ rest) = .ok u rest

def StBR (n : Nat) : Prop :=
  ∀ ctx id m rest, BracedIdOk id → Modifier.Ok ctx id m rest → (printBraced id m).length + 2 ≤ n →
    lexBraced n ctx (printBraced id m ++ rest) = .ok (.bracedParam id m) rest

def StTUs (n : Nat) : Prop :=
  ∀ d t e rest, TextUnits.Ok .text d t (e :: rest) → d.TextEnds e → (printText t).length + 4 ≤ n →
    lexTextUnits n d (printText t ++ e :: rest) = some (t, e :: rest)

def StWU (n : Nat) : Prop :=
  ∀ ctx d u rest, WordUnit.Ok ctx d u rest → (printWordUnit u).length + 3 ≤ n →
    lexWordUnit n ctx d (printWordUnit u ++ rest) = .ok u rest

def StWUs (n : Nat) : Prop :=
  ∀ ctx d w e rest, WordUnits.Ok ctx d w (e :: rest) → d.Ends e → (printWord w).length + 4 ≤ n →
    lexWordUnits n ctx d (printWord w ++ e :: rest) = some (w, e :: rest)

theorem digit_ne_bs (c : Char) (h : isAsciiDigit c = true) : c ≠ '\\' := by
  intro e; subst e; revert h; decide

theorem step_TU (n : Nat) (ihBR : StBR n) : StTU (n + 1) := by
  intro ctx d u rest h hf
  cases u with
  | literal c =>
    simp only [TextUnit.Ok] at h
    obtain ⟨h1, h2, h3, h4⟩ := h
    simp [printTextUnit, lexTextUnit, skipLC_cons_ne c _ h1, h1, h2, h3, h4]
  | backslashed c =>
    simp only [TextUnit.Ok] at h
    simp [printTextUnit, lexTextUnit, skipLC_bs_ne c _ h.2, h.1]
  | rawParam id =>
    simp only [TextUnit.Ok] at h
    obtain ⟨c, m, rfl, h⟩ := h
    rcases h with ⟨rfl, h⟩ | ⟨h1, h2, h3, h4, h5⟩
    · have hc : c ≠ '\\' := by
        rcases h with h | h
        · exact special_ne_bs c h
        · exact digit_ne_bs c h
      rcases h with h | h
      · simp [printTextUnit, lexTextUnit, skipLC_cons_ne, skipLC_cons_ne c _ hc, h]
      · by_cases hs : isSpecialParamChar c = true
        · simp [printTextUnit, lexTextUnit, skipLC_cons_ne, skipLC_cons_ne c _ hc, hs]
        · simp [printTextUnit, lexTextUnit, skipLC_cons_ne, skipLC_cons_ne c _ hc, hs, h]
    · have hc := nameChar_ne_bs c h3
      have ht := takeName_print m rest h4 h5 n (by simp [printTextUnit] at hf; omega)
      simp [printTextUnit, lexTextUnit, skipLC_cons_ne, skipLC_cons_ne c _ hc, h1, h2, h3, ht]
  | bracedParam id m =>
    simp only [TextUnit.Ok] at h
    have hb := ihBR ctx id m rest h.1 h.2 (by simp [printTextUnit] at hf; omega)
    have e1 : isSpecialParamChar '{' = false := by decide
    have e2 : isAsciiDigit '{' = false := by decide
    have e3 : isNameChar '{' = false := by decide
    simp [printTextUnit, lexTextUnit, skipLC_cons_ne, e1, e2, e3, hb]
  | commandSubst s => simp [TextUnit.Ok] at h
  | backquote us =>
    simp only [TextUnit.Ok] at h
    have hb := lexBackquoteUnits_print ctx us h rest n (by simp [printTextUnit] at hf; omega)
    simp [printTextUnit, lexTextUnit, skipLC_cons_ne, hb]
  | arith t => simp [TextUnit.Ok] at h


theorem braced_id_head (id : List Char) (hid : BracedIdOk id) :
    ∃ c n, id = c :: n ∧ c ≠ '\\' ∧ (isNameChar c = true ∨ isSpecialParamChar c = true) ∧
      (isNameChar c = false → n = []) := by
  obtain ⟨c, n, rfl, h⟩ := hid
  rcases h with ⟨h1, _, _⟩ | ⟨rfl, h1, h2⟩
  · exact ⟨c, n, rfl, nameChar_ne_bs c h1, Or.inl h1, fun e => by simp [h1] at e⟩
  · exact ⟨c, [], rfl, special_ne_bs c h2, Or.inr h2, fun _ => rfl⟩

theorem hasLen_id (id : List Char) (hid : BracedIdOk id) (s : Char) (t : List Char)
    (H : id = ['#'] → hasLengthPrefix ('#' :: s :: t) = false) :
    hasLengthPrefix (id ++ s :: t) = false := by
  obtain ⟨c, n, rfl, hc, _, hn⟩ := braced_id_head id hid
  by_cases h : c = '#'
  · subst h
    have : n = [] := hn (by decide)
    subst this
    exact H rfl
  · exact hasLen_not_hash c _ h hc

theorem hasLen_length (id : List Char) (hid : BracedIdOk id) (t : List Char) :
    hasLengthPrefix ('#' :: (id ++ '}' :: t)) = true := by
  obtain ⟨c, n, rfl, hc, hk, hn⟩ := braced_id_head id hid
  by_cases h : c = '-' ∨ c = '?' ∨ c = '#'
  · have : n = [] := hn (by rcases h with e | e | e <;> subst e <;> decide)
    subst this
    exact hasLen_hash_amb_close c t h
  · apply hasLen_hash_plain c _ hc
    intro h'
    rcases h' with e | e | e | e | e | e | e | e
    all_goals first
      | (subst e; rcases hk with hk | hk <;> revert hk <;> decide)
      | (exact h (by simp [e]))

theorem switchAction_char (a : SwitchAction) : switchAction a.char = a := by
  cases a <;> decide

theorem trimSide_char (s : TrimSide) : (if s.char = '#' then TrimSide.pfx else TrimSide.sfx) = s := by
  cases s <;> decide

theorem firstOk_brace (y : Char) (h : FirstOk .brace y) : y ≠ '}' := by
  intro e; subst e
  rcases h with h | h | h | h | h | h <;> revert h <;> decide


theorem brace_ends : Delim.brace.Ends '}' := ⟨by decide, by decide⟩

/-- the printed word followed by `}`: its first character and cleanliness -/
theorem word_then_brace (ctx : Ctx) (w : List WordUnit) (rest : List Char)
    (h : WordUnits.Ok ctx .brace w ('}' :: rest)) :
    ∃ y t, printWord w ++ '}' :: rest = y :: t ∧ skipLC (y :: t) = y :: t ∧
      (printWord w ≠ [] → y ≠ '}') ∧ (printWord w).head?.getD '}' = y := by
  by_cases hne : printWord w = []
  · exact ⟨'}', rest, by simp [hne], skipLC_cons_ne _ _ (by decide), fun e => absurd hne e, by simp [hne]⟩
  · obtain ⟨y, t, e, hy, hk⟩ := printWord_head_ok ctx .brace w _ h hne
    refine ⟨y, t ++ '}' :: rest, by simp [e], ?_, fun _ => firstOk_brace y hy, by simp [e]⟩
    simpa using hk ('}' :: rest)

theorem step_BR (n : Nat) (ihWUs : StWUs n) : StBR (n + 1) := by
  intro ctx id m rest hid hm hf
  have hidlen : 1 ≤ id.length := by
    obtain ⟨c, k, rfl, _⟩ := hid
    simp
  cases m with
  | none =>
    have hin : printBraced id .none ++ rest = id ++ '}' :: rest := by simp [printBraced]
    have hl : hasLengthPrefix (id ++ '}' :: rest) = false :=
      hasLen_id id hid _ _ (fun _ => hasLen_hash_stop _ _ (Or.inl rfl))
    have hp := lexParamId_print id hid '}' rest (by decide) (by decide) n (by
      simp [printBraced] at hf; omega)
    rw [hin]
    simp [lexBraced, hl, hp, skipColon_other, skipLC_cons_ne, closeBraced_brace]
  | length =>
    have hin : printBraced id .length ++ rest = '#' :: (id ++ '}' :: rest) := by simp [printBraced]
    have hl := hasLen_length id hid rest
    have hp := lexParamId_print id hid '}' rest (by decide) (by decide) n (by
      simp [printBraced] at hf; omega)
    rw [hin]
    simp [lexBraced, hl, skipLC_cons_ne, hp, skipColon_other, closeBraced_brace, Modifier.isNone]
  | switch colon a w =>
    simp only [Modifier.Ok] at hm
    obtain ⟨hw, htilde, hhash⟩ := hm
    obtain ⟨y, t, eW, hclean, hyne, _⟩ := word_then_brace ctx w rest hw
    have hlenw : (printWord w).length + 4 ≤ n := by
      simp [printBraced] at hf; omega
    have hwl := ihWUs ctx .brace w '}' rest hw brace_ends hlenw
    have hact : a.char ≠ '\\' ∧ a.char ≠ ':' ∧ isNameChar a.char = false ∧
        (a.char = '+' || a.char = '-' || a.char = '=' || a.char = '?') = true := by
      cases a <;> decide
    have htl : (if ctx = .word then parseTildeFront w else w) = w := by
      by_cases hc : ctx = .word
      · simp [hc, parseTildeFront_id w (htilde hc)]
      · simp [hc]
    cases colon with
    | true =>
      have hin : printBraced id (.switch true a w) ++ rest =
          id ++ ':' :: a.char :: (printWord w ++ '}' :: rest) := by simp [printBraced]
      have hl : hasLengthPrefix (id ++ ':' :: a.char :: (printWord w ++ '}' :: rest)) = false :=
        hasLen_id id hid _ _ (fun _ => hasLen_hash_stop _ _ (by simp))
      have hidn : id.length + 1 ≤ n := by simp [printBraced] at hf; omega
      have hp := lexParamId_print id hid ':' (a.char :: (printWord w ++ '}' :: rest)) (by decide)
        (by decide) n hidn
      rw [hin]
      simp [lexBraced, hl, hp, skipColon_colon, skipLC_cons_ne a.char _ hact.1, hact.2.2.2, hwl,
        closeBraced_brace, switchAction_char, htl]
    | false =>
      have hin : printBraced id (.switch false a w) ++ rest =
          id ++ a.char :: (printWord w ++ '}' :: rest) := by simp [printBraced]
      have hl : hasLengthPrefix (id ++ a.char :: (printWord w ++ '}' :: rest)) = false := by
        apply hasLen_id id hid
        intro hidh
        cases a with
        | alter => exact hasLen_hash_stop _ _ (by decide)
        | assign => exact hasLen_hash_stop _ _ (by decide)
        | default =>
          rw [eW]
          exact hasLen_hash_amb _ y t (by decide)
            (hyne (hhash hidh rfl (Or.inl rfl))) hclean
        | error =>
          rw [eW]
          exact hasLen_hash_amb _ y t (by decide)
            (hyne (hhash hidh rfl (Or.inr rfl))) hclean
      have hidn : id.length + 1 ≤ n := by simp [printBraced] at hf; omega
      have hp := lexParamId_print id hid a.char (printWord w ++ '}' :: rest) hact.2.2.1 hact.1 n hidn
      rw [hin]
      simp [lexBraced, hl, hp, skipColon_other a.char _ hact.2.1 hact.1,
        skipLC_cons_ne a.char _ hact.1, hact.2.2.2, hwl, closeBraced_brace, switchAction_char, htl]
  | trim side longest w =>
    simp only [Modifier.Ok] at hm
    obtain ⟨hw, htilde, hshort, hhash⟩ := hm
    obtain ⟨y, t, eW, hclean, hyne, hyhead⟩ := word_then_brace .word w rest hw
    have hlenw : (printWord w).length + 4 ≤ n := by
      simp [printBraced] at hf; omega
    have hwl := ihWUs .word .brace w '}' rest hw brace_ends hlenw
    have hsd : side.char ≠ '\\' ∧ side.char ≠ ':' ∧ isNameChar side.char = false ∧
        (side.char = '+' || side.char = '-' || side.char = '=' || side.char = '?') = false ∧
        (side.char = '#' || side.char = '%') = true := by
      cases side <;> decide
    have htl := parseTildeFront_id w htilde
    cases longest with
    | true =>
      have hin : printBraced id (.trim side true w) ++ rest =
          id ++ side.char :: side.char :: (printWord w ++ '}' :: rest) := by simp [printBraced]
      have hl : hasLengthPrefix (id ++ side.char :: side.char :: (printWord w ++ '}' :: rest)) = false := by
        apply hasLen_id id hid
        intro _
        cases side with
        | sfx => exact hasLen_hash_stop _ _ (by decide)
        | pfx =>
          exact hasLen_hash_amb _ '#' _ (by decide) (by decide) (skipLC_cons_ne _ _ (by decide))
      have hidn : id.length + 1 ≤ n := by simp [printBraced] at hf; omega
      have hp := lexParamId_print id hid side.char (side.char :: (printWord w ++ '}' :: rest))
        hsd.2.2.1 hsd.1 n hidn
      rw [hin]
      simp [lexBraced, hl, hp, skipColon_other side.char _ hsd.2.1 hsd.1,
        skipLC_cons_ne side.char _ hsd.1, hsd.2.2.2.1, hsd.2.2.2.2, trimLength_same side.char _ hsd.1,
        hwl, closeBraced_brace, trimSide_char, htl]
    | false =>
      have hin : printBraced id (.trim side false w) ++ rest =
          id ++ side.char :: (printWord w ++ '}' :: rest) := by simp [printBraced]
      have hys : y ≠ side.char := by
        intro e
        by_cases hne : printWord w = []
        · rw [hne] at hyhead
          simp at hyhead
          rw [← hyhead] at e
          cases side <;> revert e <;> decide
        · apply hshort rfl
          cases hp : printWord w with
          | nil => exact absurd hp hne
          | cons z zs =>
            rw [hp] at hyhead
            simp at hyhead
            simp [hyhead, e]
      have hl : hasLengthPrefix (id ++ side.char :: (printWord w ++ '}' :: rest)) = false := by
        apply hasLen_id id hid
        intro hidh
        cases side with
        | sfx => exact hasLen_hash_stop _ _ (by decide)
        | pfx =>
          rw [eW]
          exact hasLen_hash_amb _ y t (by decide) (hyne (hhash hidh rfl rfl)) hclean
      have hidn : id.length + 1 ≤ n := by simp [printBraced] at hf; omega
      have hp := lexParamId_print id hid side.char (printWord w ++ '}' :: rest)
        hsd.2.2.1 hsd.1 n hidn
      have htr : trimLength side.char (printWord w ++ '}' :: rest) = (false, printWord w ++ '}' :: rest) := by
        rw [eW]
        exact trimLength_other _ y t hys hclean
      rw [hin]
      simp [lexBraced, hl, hp, skipColon_other side.char _ hsd.2.1 hsd.1,
        skipLC_cons_ne side.char _ hsd.1, hsd.2.2.2.1, hsd.2.2.2.2, htr,
        hwl, closeBraced_brace, trimSide_char, htl]


theorem printText_cons (u : TextUnit) (us : List TextUnit) :
    printText (u :: us) = printTextUnit u ++ printText us := by
  simp [printText]

theorem step_TUs (n : Nat) (ihTU : StTU n) (ihTUs : StTUs n) : StTUs (n + 1) := by
  intro d t e rest h he hf
  cases t with
  | nil =>
    have := lexTextUnit_at_end .text d e he rest n (by simp [printText] at hf; omega)
    simp [printText, lexTextUnits, this]
  | cons u us =>
    simp only [TextUnits.Ok] at h
    rw [printText_cons] at hf ⊢
    simp only [List.length_append] at hf
    obtain ⟨y, tl, ey, _, _⟩ := printTextUnit_head .text d u _ h.1
    have hpos : 1 ≤ (printTextUnit u).length := by simp [ey]
    have h1 := ihTU .text d u (printText us ++ e :: rest) h.1 (by omega)
    have h2 := ihTUs d us e rest h.2 he (by omega)
    simp only [List.append_assoc]
    simp only [lexTextUnits, h1, h2]

theorem step_WUs (n : Nat) (ihWU : StWU n) (ihWUs : StWUs n) : StWUs (n + 1) := by
  intro ctx d w e rest h he hf
  cases w with
  | nil =>
    have := lexWordUnit_at_end ctx d e he rest n (by simp [printWord] at hf; omega)
    simp [printWord, lexWordUnits, this]
  | cons u us =>
    simp only [WordUnits.Ok] at h
    rw [printWord_cons] at hf ⊢
    simp only [List.length_append] at hf
    obtain ⟨y, tl, ey, _, _⟩ := printWordUnit_head ctx d u _ h.1
    have hpos : 1 ≤ (printWordUnit u).length := by simp [ey]
    have h1 := ihWU ctx d u (printWord us ++ e :: rest) h.1 (by omega)
    have h2 := ihWUs ctx d us e rest h.2 he (by omega)
    simp only [List.append_assoc]
    simp only [lexWordUnits, h1, h2]

theorem dquote_textEnds : Delim.dquote.TextEnds '"' := ⟨by decide, by decide, by decide, by decide⟩

theorem step_WU (n : Nat) (ihTU : StTU n) (ihTUs : StTUs n) : StWU (n + 1) := by
  intro ctx d u rest h hf
  cases u with
  | unquoted t =>
    simp only [WordUnit.Ok] at h
    obtain ⟨ht, hu⟩ := h
    obtain ⟨y, tl, ey, _, hk⟩ := printTextUnit_head ctx d t rest ht
    have hy1 : ¬(y = '\'' ∧ ctx = .word) ∧ y ≠ '"' ∧ isLitDollar t = false := by
      cases t with
      | literal c =>
        simp only [TextUnit.Ok] at ht
        simp only [UnquotedOk] at hu
        simp [printTextUnit] at ey
        obtain ⟨rfl, _⟩ := ey
        refine ⟨fun hh => hu.2 hh.2 hh.1, hu.1, by simp [isLitDollar, ht.2.1]⟩
      | backslashed c =>
        simp [printTextUnit] at ey
        obtain ⟨rfl, _⟩ := ey
        exact ⟨by simp, by decide, rfl⟩
      | rawParam id =>
        simp [printTextUnit] at ey
        obtain ⟨rfl, _⟩ := ey
        exact ⟨by simp, by decide, rfl⟩
      | bracedParam id m =>
        simp [printTextUnit] at ey
        obtain ⟨rfl, _⟩ := ey
        exact ⟨by simp, by decide, rfl⟩
      | commandSubst s => simp [TextUnit.Ok] at ht
      | backquote us =>
        simp [printTextUnit] at ey
        obtain ⟨rfl, _⟩ := ey
        exact ⟨by simp, by decide, rfl⟩
      | arith a => simp [TextUnit.Ok] at ht
    have hl := ihTU ctx d t rest ht (by simp [printWordUnit] at hf; omega)
    rw [ey] at hl
    have hk' := hk rest
    simp only [printWordUnit]
    rw [ey]
    simp only [List.cons_append] at hl hk' ⊢
    simp [lexWordUnit, hk', hy1.1, hy1.2.1, hl, hy1.2.2]
  | singleQuote s =>
    simp only [WordUnit.Ok] at h
    simp [printWordUnit, lexWordUnit, skipLC_cons_ne, h.1, takeSingleQuoted_print s rest h.2]
  | doubleQuote t =>
    simp only [WordUnit.Ok] at h
    have hl := ihTUs .dquote t '"' rest h dquote_textEnds (by simp [printWordUnit] at hf; omega)
    simp [printWordUnit, lexWordUnit, skipLC_cons_ne, hl]
  | dollarSingleQuote es =>
    simp only [WordUnit.Ok] at h
    obtain ⟨hc, hes⟩ := h
    have hl := printEscaped_length es hes
    have hq := lexEscapedQuoted_print es rest hes n (by simp [printWordUnit] at hf; omega)
    have hn1 : 1 ≤ n := by simp [printWordUnit] at hf; omega
    obtain ⟨k, rfl⟩ : ∃ k, n = k + 1 := ⟨n - 1, by omega⟩
    have hdt : d.test '$' = false := by cases d <;> decide
    have e1 : isSpecialParamChar '\'' = false := by decide
    have e2 : isAsciiDigit '\'' = false := by decide
    have e3 : isNameChar '\'' = false := by decide
    simp [printWordUnit, lexWordUnit, lexTextUnit, skipLC_cons_ne, hc, hdt, e1, e2, e3, isLitDollar, hq]
  | tilde nm s => simp [WordUnit.Ok] at h

/-- all five lexer functions read printed trees of the fragment back, for every amount of fuel that
    covers the printed text -/
theorem lex_all (n : Nat) : StTU n ∧ StBR n ∧ StTUs n ∧ StWU n ∧ StWUs n := by
  induction n with
  | zero =>
    refine ⟨?_, ?_, ?_, ?_, ?_⟩ <;> intro <;> intros <;> omega
  | succ n ih =>
    obtain ⟨i1, i2, i3, i4, i5⟩ := ih
    exact ⟨step_TU n i2, step_BR n i5, step_TUs n i1 i3, step_WU n i1 i3, step_WUs n i4 i5⟩

theorem headNotName_of (c : Char) (r : List Char) (h1 : c ≠ '\\') (h2 : isNameChar c = false) :
    HeadNotName (c :: r) :=
  ⟨skipLC_cons_ne c r h1, by intro c' r' e; cases e; exact h2⟩



theorem word_self_delimiting_full (d : Delim) (w : Word) (e : Char) (rest : List Char)
    (h : WordUnits.Ok .word d w (e :: rest)) (he : d.Ends e) :
    lexWord d (printWord w ++ e :: rest) = some (w, e :: rest) := by
  unfold lexWord
  apply (lex_all _).2.2.2.2 .word d w e rest h he
  simp only [List.length_append, List.length_cons]
  omega

end YashModel.Syntax
