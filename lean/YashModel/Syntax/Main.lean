/-
  Driver for C06.  Case lines:
    `T <tree as S-expression> <hex source>`  → `ok <hex of the text the model printer yields>`
    `L <hex source>`                          → `lines <n> <hex of the printed command lines>` | `syntax-error`
                                                 (the model of `Parser::command_line` run until the end of input)
    `R <hex source>`                          → `total` (the model's only claim about an arbitrary input:
                                                 the parser ends with a tree or a syntax error)
  Second column (Spec): for `T` cases the printed text is read back by the model lexer/parser where
  the tree lies in the modelled fragment (`ok` / `FAIL:…`), `-` otherwise.
-/
import YashModel.Common.Proto
import YashModel.Syntax.Model
import YashModel.Syntax.Sexp
import YashModel.Syntax.Lexer
import YashModel.Syntax.Spec
import YashModel.Syntax.Structure
import YashModel.Syntax.Decl
open YashModel YashModel.Syntax YashModel.Proto

/-- an escape unit in the notation of the tree S-expressions -/
def showEscape : EscapeUnit → String
  | .literal c => s!"(L {encChars [c]})"
  | .doubleQuote => "dq" | .singleQuote => "sq" | .backslash => "bs" | .question => "qm"
  | .alert => "a" | .backspace => "b" | .escape => "e" | .formFeed => "f" | .newline => "n"
  | .carriageReturn => "r" | .tab => "t" | .verticalTab => "v"
  | .control b => s!"(c {b.toNat})"
  | .octal b => s!"(o {b.toNat})"
  | .hex b => s!"(x {b.toNat})"
  | .unicode c => s!"(u {c.toNat})"

/-- `X <hex text>`: `EscapeUnit::from_str` = `Lexer::escape_unit` on the text -/
def runEscape (h : String) : String :=
  match decChars h with
  | none => "bad-case\t-"
  | some [] => "esc-none\t-"
  | some cs =>
    match lexEscape cs with
    | some (u, _) => s!"esc {showEscape u}\t-"
    | none => "esc-error\t-"

/-- `L <hex source>`: `Parser::command_line` until the end of input (`parseScript`) -/
def runLines (h : String) : String :=
  match decChars h with
  | none => "bad-case\t-"
  | some cs =>
    let show1 (r : Option (List (List Item))) : String :=
      match r with
      | none => "syntax-error"
      | some ls => s!"lines {ls.length} {encChars (List.intercalate ['\n'] (ls.map (printList false)))}"
    let a := show1 (parseScript cs)
    -- no budget ran out: twice the nesting depth and twice the line fuel give the same answer
    let b := show1 (parseScriptWith 2 cs)
    s!"{a}\t{if a == b then "ok" else "FAIL:a-fuel-budget-of-the-model-parser-ran-out"}"

def runLine (line : String) : String :=
  if line.startsWith "R " || line.startsWith "G " then "total\t-" else
  if line.startsWith "L " then runLines (line.drop 2).trimAscii.toString else
  if line.startsWith "X " then runEscape (line.drop 2).trimAscii.toString else
  -- `E <Variant> <source>` / `EP …`: a recorded syntax-error class; the model has no error model and echoes it
  if line.startsWith "E " || line.startsWith "EP " then
    match line.splitOn " " with
    | _ :: v :: _ => s!"syntax-error:{v}\t-"
    | _ => "bad-case\t-"
  else
  -- `F <function definition> <script>`: what `typeset -fp` prints (`print_one`: the definition and a newline,
  -- for a name that needs no quoting); `J <and-or list> <script>`: the job name (`and_or.to_string()`)
  if line.startsWith "F " || line.startsWith "J " then
    match tokenize line with
    | kind :: toks =>
      match parseSx toks with
      | some (sx, _) =>
        if kind = "F" then
          match toCommand sx with
          | some c => s!"fn {encChars (printCommand c ++ ['\n'])}\t-"
          | none => "bad-case\t-"
        else
          match toAndOr sx with
          | some a => s!"job {encChars (printAndOr a)}\t-"
          | none => "bad-case\t-"
      | none => "bad-case\t-"
    | [] => "bad-case\t-"
  else
  match tokenize line with
  | "T" :: toks =>
    match parseSx toks with
    | some (sx, _) =>
      match toList sx with
      | none => "bad-case\t-"
      | some l =>
        -- the expansion modes the real parser gave to the words of every simple command (whatever the placement
        -- of redirections in the source) must be the ones the words alone determine (`wordModes`)
        let declOk := (sxSimpleModes sx).all fun p => wordModes posixGlossary none p.1 == p.2
        let spec := specColumn l
        let spec := if !declOk && !spec.startsWith "FAIL" then
          "FAIL:declaration-utility-decision-is-not-the-one-the-words-determine" else spec
        s!"ok {encChars (printList false l)}\t{spec}"
    | none => "bad-case\t-"
  | _ => "bad-case\t-"

def main : IO Unit := mainLoop runLine
