/-
  Driver for C06.  Case lines:
    `T <tree as S-expression> <hex source>`  → `ok <hex of the text the model printer yields>`
    `R <hex source>`                          → `total` (the model's only claim about an arbitrary input:
                                                 the parser ends with a tree or a syntax error)
  Second column (Spec): for `T` cases the printed text is read back by the model lexer/parser where
  the tree lies in the modelled fragment (`ok` / `FAIL:…`), `-` otherwise.
-/
import YashModel.Common.Proto
import YashModel.Syntax.Model
import YashModel.Syntax.Sexp
import YashModel.Syntax.Spec
open YashModel YashModel.Syntax YashModel.Proto

def runLine (line : String) : String :=
  if line.startsWith "R " then "total\t-" else
  match tokenize line with
  | "T" :: toks =>
    match parseSx toks with
    | some (sx, _) =>
      match toList sx with
      | none => "bad-case\t-"
      | some l => s!"ok {encChars (printList false l)}\t{specColumn l}"
    | none => "bad-case\t-"
  | _ => "bad-case\t-"

def main : IO Unit := mainLoop runLine
