/-
  C06 — driver side: S-expression reader for syntax trees (format documented in notes/C06.md and
  produced by `harness/src/bin/c06.rs`).  Characters travel as decimal code points, strings as hex of
  UTF-8 (`-` = empty).
-/
import YashModel.Common.Proto
import YashModel.Syntax.Model
namespace YashModel.Syntax
open YashModel.Proto

inductive Sx where
  | atom (s : String)
  | list (xs : List Sx)
  deriving Inhabited

def tokenize (s : String) : List String :=
  let rec go (cs : List Char) (cur : List Char) (acc : List String) : List String :=
    let flush := if cur.isEmpty then acc else String.ofList cur.reverse :: acc
    match cs with
    | [] => flush.reverse
    | c :: rest =>
      if c = '(' ∨ c = ')' then go rest [] (String.singleton c :: flush)
      else if c = ' ' then go rest [] flush
      else go rest (c :: cur) acc
  go s.toList [] []

partial def parseSx : List String → Option (Sx × List String)
  | [] => none
  | "(" :: rest =>
    let rec items (ts : List String) (acc : List Sx) : Option (Sx × List String) :=
      match ts with
      | [] => none
      | ")" :: rest => some (.list acc.reverse, rest)
      | ts => match parseSx ts with
        | some (x, rest) => items rest (x :: acc)
        | none => none
    items rest []
  | ")" :: _ => none
  | a :: rest => some (.atom a, rest)

def Sx.nat? : Sx → Option Nat
  | .atom a => a.toNat?
  | _ => none

def Sx.bool? : Sx → Option Bool
  | .atom "0" => some false
  | .atom "1" => some true
  | _ => none

def Sx.chars? : Sx → Option (List Char)
  | .atom a => decChars a
  | _ => none

def Sx.char? (s : Sx) : Option Char := do
  let n ← s.nat?
  if n.isValidChar then some (Char.ofNat n) else none

def Sx.u8? (s : Sx) : Option UInt8 := do
  let n ← s.nat?
  if n < 256 then some (UInt8.ofNat n) else none

def toEscapes : List Sx → Option (List EscapeUnit)
  | [] => some []
  | x :: rest => do
    let r ← toEscapes rest
    match x with
    | .list [.atom "L", s] => do pure ((← s.chars?).map EscapeUnit.literal ++ r)
    | .atom "dq" => some (.doubleQuote :: r)
    | .atom "sq" => some (.singleQuote :: r)
    | .atom "bs" => some (.backslash :: r)
    | .atom "qm" => some (.question :: r)
    | .atom "a" => some (.alert :: r)
    | .atom "b" => some (.backspace :: r)
    | .atom "e" => some (.escape :: r)
    | .atom "f" => some (.formFeed :: r)
    | .atom "n" => some (.newline :: r)
    | .atom "r" => some (.carriageReturn :: r)
    | .atom "t" => some (.tab :: r)
    | .atom "v" => some (.verticalTab :: r)
    | .list [.atom "c", n] => do pure (.control (← n.u8?) :: r)
    | .list [.atom "o", n] => do pure (.octal (← n.u8?) :: r)
    | .list [.atom "x", n] => do pure (.hex (← n.u8?) :: r)
    | .list [.atom "u", n] => do pure (.unicode (← n.char?) :: r)
    | _ => none

def toBackquoteUnits : List Sx → Option (List BackquoteUnit)
  | [] => some []
  | x :: rest => do
    let r ← toBackquoteUnits rest
    match x with
    | .list [.atom "L", s] => do pure ((← s.chars?).map BackquoteUnit.literal ++ r)
    | .list [.atom "b", c] => do pure (.backslashed (← c.char?) :: r)
    | _ => none

mutual
  /-- text units; `(L hex)` expands to a run of literals -/
  partial def toTextUnits : List Sx → Option (List TextUnit)
    | [] => some []
    | x :: rest => do
      let r ← toTextUnits rest
      match x with
      | .list [.atom "L", s] => do pure ((← s.chars?).map TextUnit.literal ++ r)
      | .list [.atom "b", c] => do pure (.backslashed (← c.char?) :: r)
      | .list [.atom "rp", id] => do pure (.rawParam (← id.chars?) :: r)
      | .list [.atom "bp", id, m] => do pure (.bracedParam (← id.chars?) (← toModifier m) :: r)
      | .list [.atom "cs", s] => do pure (.commandSubst (← s.chars?) :: r)
      | .list (.atom "bq" :: us) => do pure (.backquote (← toBackquoteUnits us) :: r)
      | .list (.atom "ar" :: us) => do pure (.arith (← toTextUnits us) :: r)
      | _ => none
  partial def toModifier : Sx → Option Modifier
    | .atom "n" => some .none
    | .atom "len" => some .length
    | .list [.atom "sw", c, .atom a, w] => do
      let a ← match a with
        | "+" => some SwitchAction.alter | "-" => some .default | "=" => some .assign
        | "?" => some .error | _ => none
      pure (.switch (← c.bool?) a (← toWord w))
    | .list [.atom "tr", .atom s, l, w] => do
      let s ← match s with | "#" => some TrimSide.pfx | "%" => some .sfx | _ => none
      pure (.trim s (← l.bool?) (← toWord w))
    | _ => none
  partial def toWordUnits : List Sx → Option (List WordUnit)
    | [] => some []
    | x :: rest => do
      let r ← toWordUnits rest
      match x with
      | .list [.atom "sq", s] => do pure (.singleQuote (← s.chars?) :: r)
      | .list (.atom "dq" :: us) => do pure (.doubleQuote (← toTextUnits us) :: r)
      | .list (.atom "dsq" :: us) => do pure (.dollarSingleQuote (← toEscapes us) :: r)
      | .list [.atom "t", n, b] => do pure (.tilde (← n.chars?) (← b.bool?) :: r)
      | x => do pure ((← toTextUnits [x]).map WordUnit.unquoted ++ r)
  partial def toWord : Sx → Option Word
    | .list (.atom "w" :: us) => toWordUnits us
    | _ => none
end

def toFd : Sx → Option (Option Nat)
  | .atom "-" => some none
  | x => do pure (some (← x.nat?))

def toRedirOp : String → Option RedirOp
  | "<" => some .fileIn | "<>" => some .fileInOut | ">" => some .fileOut | ">>" => some .fileAppend
  | ">|" => some .fileClobber | "<&" => some .fdIn | ">&" => some .fdOut | ">>|" => some .pipe
  | "<<<" => some .string | _ => none

def toRedir : Sx → Option Redir
  | .list [.atom "r", fd, .atom op, w] => do pure (.normal (← toFd fd) (← toRedirOp op) (← toWord w))
  | .list [.atom "h", fd, rt, w] => do pure (.hereDoc (← toFd fd) (← rt.bool?) (← toWord w))
  | _ => none

def toAssign : Sx → Option Assign
  | .list [.atom "as", n, w] => do pure ⟨← n.chars?, .scalar (← toWord w)⟩
  | .list (.atom "aa" :: n :: ws) => do pure ⟨← n.chars?, .array (← ws.mapM toWord)⟩
  | _ => none

def toCmdWord : Sx → Option Word
  | .list [.atom "single", w] => toWord w
  | w => toWord w

/-- every simple-command node of a tree with the expansion modes of its words (`true` = `(single w)`,
    i.e. `ExpansionMode::Single`); the words of a tree contain no nested command trees -/
partial def sxSimpleModes : Sx → List (List Word × List Bool)
  | .list [.atom "sc", .list _, .list ws, .list _] =>
    match ws.mapM toCmdWord with
    | some words => [(words, ws.map fun | .list [.atom "single", _] => true | _ => false)]
    | none => []
  | .list xs => (xs.map sxSimpleModes).flatten
  | _ => []

def toSimple : Sx → Option SimpleCommand
  | .list [.atom "sc", .list as, .list ws, .list rs] => do
    pure ⟨← as.mapM toAssign, ← ws.mapM toCmdWord, ← rs.mapM toRedir⟩
  | _ => none

mutual
  partial def toCompound : Sx → Option CompoundCommand
    | .list [.atom "grp", l] => do pure (.grouping (← toList l))
    | .list [.atom "sub", l] => do pure (.subshell (← toList l))
    | .list [.atom "for", n, .atom "-", b] => do pure (.forLoop (← toWord n) none (← toList b))
    | .list [.atom "for", n, .list (.atom "in" :: vs), b] => do
      pure (.forLoop (← toWord n) (some (← vs.mapM toWord)) (← toList b))
    | .list [.atom "while", c, b] => do pure (.whileLoop (← toList c) (← toList b))
    | .list [.atom "until", c, b] => do pure (.untilLoop (← toList c) (← toList b))
    | .list [.atom "if", c, b, .list elifs, .atom "-"] => do
      pure (.ifCmd (← toList c) (← toList b) (← elifs.mapM toElif) false [])
    | .list [.atom "if", c, b, .list elifs, e] => do
      pure (.ifCmd (← toList c) (← toList b) (← elifs.mapM toElif) true (← toList e))
    | .list (.atom "case" :: s :: items) => do pure (.caseCmd (← toWord s) (← items.mapM toCaseItem))
    | _ => none
  partial def toElif : Sx → Option ElifThen
    | .list [.atom "elif", c, b] => do pure (.mk (← toList c) (← toList b))
    | _ => none
  partial def toCaseItem : Sx → Option CaseItem
    | .list [.atom "ci", .list ps, b, .atom k] => do
      let k ← match k with
        | "b" => some CaseCont.break_ | "f" => some .fallThrough | "c" => some .continue_ | _ => none
      pure (.mk (← ps.mapM toWord) (← toList b) k)
    | _ => none
  partial def toCommand : Sx → Option Command
    | .list (.atom "cc" :: c :: rs) => do pure (.compound (← toCompound c) (← rs.mapM toRedir))
    | .list (.atom "fn" :: kw :: n :: c :: rs) => do
      pure (.function (← kw.bool?) (← toWord n) (← toCompound c) (← rs.mapM toRedir))
    | s => do pure (.simple (← toSimple s))
  partial def toPipeline : Sx → Option Pipeline
    | .list (.atom "pl" :: neg :: cmds) => do pure (.mk (← cmds.mapM toCommand) (← neg.bool?))
    | _ => none
  partial def toAndOr : Sx → Option AndOrList
    | .list (.atom "ao" :: first :: rest) => do
      let rest ← rest.mapM fun
        | .list [.atom "and", p] => do pure (AndOrRest.mk true (← toPipeline p))
        | .list [.atom "or", p] => do pure (AndOrRest.mk false (← toPipeline p))
        | _ => none
      pure (.mk (← toPipeline first) rest)
    | _ => none
  partial def toItem : Sx → Option Item
    | .list [.atom "it", a, ao] => do pure (.mk (← toAndOr ao) (← a.bool?))
    | _ => none
  partial def toList : Sx → Option (List Item)
    | .list (.atom "ls" :: items) => items.mapM toItem
    | _ => none
end

end YashModel.Syntax
