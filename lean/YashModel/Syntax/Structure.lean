/-
  C06 — Impl model, part 4: the command structure.

  Transcription of `parser/pipeline.rs`, `and_or.rs`, `list.rs` (`list`, `maybe_compound_list`,
  `newline_and_here_doc_contents`), `compound_command.rs` (`do_clause`, `compound_command`,
  `full_compound_command`), `grouping.rs`, `while_loop.rs`, `if.rs`, `for_loop.rs`, `case.rs`, `function.rs`
  and `command.rs`, in the non-portable mode and without aliases (as `List::from_str`).

  The parsers of pipelines, and-or lists, lists and compound commands are written over an abstract command
  parser `pc`; `parseCommand` ties the knot by recursion on the nesting depth (fuel).  The inner loops
  take their own fuel (`input.length + 2` always suffices: every iteration consumes a token).
  A peeked token is modelled by lexing again from the same position.  Here-documents are not modelled
  (their bodies are not part of the printed form).
-/
import YashModel.Syntax.Parser
namespace YashModel.Syntax

abbrev CmdParser := List Char → Option (Option Command × List Char)

def Token.isWord (t : Token) : Bool :=
  match t.id with
  | .word _ => true
  | _ => false

/-- the token is the reserved word `s` -/
def Token.isKw (t : Token) (s : String) : Bool :=
  t.id = .word true && wordLiteral t.word = some s.toList

def Token.isOp (t : Token) (o : Op) : Bool := t.id = .op o

/-- `TokenId::is_clause_delimiter` -/
def Token.isClauseDelimiter (t : Token) : Bool :=
  match t.id with
  | .word true =>
    ["do", "done", "elif", "else", "esac", "fi", "then", "}"].any fun k => wordLiteral t.word = some k.toList
  | .word false => false
  | .op o =>
    o = .closeParen || o = .semicolonAnd || o = .semicolonSemicolon || o = .semicolonSemicolonAnd ||
      o = .semicolonBar
  | .ioNumber => false
  | .ioLocation => false
  | .endOfInput => true

/-- `while self.newline_and_here_doc_contents().await? {}` -/
def skipNewlines : Nat → List Char → List Char
  | 0, cs => cs
  | fuel + 1, cs =>
    match lexToken cs with
    | some (t, r) => if t.isOp .newline then skipNewlines fuel r else cs
    | none => cs

/-- `Parser::redirections` -/
def parseRedirs : Nat → List Char → Option (List Redir × List Char)
  | 0, _ => none
  | fuel + 1, cs =>
    match parseRedir cs with
    | none => none
    | some (none, _) => some ([], cs)
    | some (some r, cs') =>
      match parseRedirs fuel cs' with
      | none => none
      | some (rs, cs'') => some (r :: rs, cs'')

/-! ## Pipelines, and-or lists, lists -/

/-- the `while peek == Bar` loop of `Parser::pipeline` -/
def parsePipeTail (pc : CmdParser) : Nat → List Char → Option (List Command × List Char)
  | 0, _ => none
  | fuel + 1, cs =>
    match lexToken cs with
    | none => none
    | some (t, r) =>
      if t.isOp .bar then
        match pc (skipNewlines r.length r) with
        | some (some c, r') =>
          match parsePipeTail pc fuel r' with
          | some (cs', r'') => some (c :: cs', r'')
          | none => none
        | _ => none                                    -- BangAfterBar / MissingCommandAfterBar
      else some ([], cs)

/-- `Parser::pipeline` -/
def parsePipeline (pc : CmdParser) (cs : List Char) : Option (Option Pipeline × List Char) :=
  match pc cs with
  | none => none
  | some (some c, r) =>
    match parsePipeTail pc (r.length + 2) r with
    | some (cmds, r') => some (some (.mk (c :: cmds) false), r')
    | none => none
  | some (none, _) =>
    match lexToken cs with
    | none => none
    | some (t, r) =>
      if t.isKw "!" then
        match pc r with
        | some (some c, r') =>
          match parsePipeTail pc (r'.length + 2) r' with
          | some (cmds, r'') => some (some (.mk (c :: cmds) true), r'')
          | none => none
        | _ => none                                    -- DoubleNegation / MissingCommandAfterBang
      else some (none, cs)

/-- the loop of `Parser::and_or_list` -/
def parseAndOrTail (pc : CmdParser) : Nat → List Char → Option (List AndOrRest × List Char)
  | 0, _ => none
  | fuel + 1, cs =>
    match lexToken cs with
    | none => none
    | some (t, r) =>
      if t.isOp .andAnd || t.isOp .barBar then
        match parsePipeline pc (skipNewlines r.length r) with
        | some (some p, r') =>
          match parseAndOrTail pc fuel r' with
          | some (ps, r'') => some (.mk (t.isOp .andAnd) p :: ps, r'')
          | none => none
        | _ => none                                    -- MissingPipeline
      else some ([], cs)

/-- `Parser::and_or_list` -/
def parseAndOr (pc : CmdParser) (cs : List Char) : Option (Option AndOrList × List Char) :=
  match parsePipeline pc cs with
  | none => none
  | some (none, r) => some (none, r)
  | some (some p, r) =>
    match parseAndOrTail pc (r.length + 2) r with
    | some (ps, r') => some (some (.mk p ps), r')
    | none => none

/-- `Parser::list` -/
def parseList (pc : CmdParser) : Nat → List Char → Option (List Item × List Char)
  | 0, _ => none
  | fuel + 1, cs =>
    match parseAndOr pc cs with
    | none => none
    | some (none, r) => some ([], r)
    | some (some a, r) =>
      match lexToken r with
      | none => none
      | some (t, r') =>
        if t.isOp .semicolon then
          (parseList pc fuel r').map fun p => (.mk a false :: p.1, p.2)
        else if t.isOp .and then
          (parseList pc fuel r').map fun p => (.mk a true :: p.1, p.2)
        else some ([.mk a false], r)

/-- `Parser::maybe_compound_list` -/
def parseCompoundList (pc : CmdParser) : Nat → List Char → Option (List Item × List Char)
  | 0, _ => none
  | fuel + 1, cs =>
    match parseList pc (cs.length + 2) cs with
    | none => none
    | some (items, r) =>
      match lexToken r with
      | none => none
      | some (t, r') =>
        if t.isOp .newline then
          (parseCompoundList pc fuel r').map fun p => (items ++ p.1, p.2)
        else if t.isClauseDelimiter then some (items, r)
        else none                                      -- InvalidCommandToken

/-! ## Compound commands -/

/-- take the next token if it is the reserved word `k` -/
def expectKw (k : String) (cs : List Char) : Option (List Char) :=
  match lexToken cs with
  | some (t, r) => if t.isKw k then some r else none
  | none => none

def expectOp (o : Op) (cs : List Char) : Option (List Char) :=
  match lexToken cs with
  | some (t, r) => if t.isOp o then some r else none
  | none => none

/-- a list that must not be empty, followed by the reserved word `k` -/
def listThenKw (pc : CmdParser) (k : String) (cs : List Char) : Option (List Item × List Char) :=
  match parseCompoundList pc (cs.length + 2) cs with
  | none => none
  | some (l, r) =>
    match expectKw k r with
    | some r' => if l.isEmpty then none else some (l, r')
    | none => none

/-- `Parser::do_clause`: `some none` when the next token is not `do` -/
def parseDoClause (pc : CmdParser) (cs : List Char) : Option (Option (List Item) × List Char) :=
  match expectKw "do" cs with
  | none => some (none, cs)
  | some r => (listThenKw pc "done" r).map fun p => (some p.1, p.2)

/-- `while let Some(elif) = self.elif_then_clause()` -/
def parseElifs (pc : CmdParser) : Nat → List Char → Option (List ElifThen × List Char)
  | 0, _ => none
  | fuel + 1, cs =>
    match expectKw "elif" cs with
    | none => some ([], cs)
    | some r =>
      match listThenKw pc "then" r with
      | none => none
      | some (c, r1) =>
        match parseCompoundList pc (r1.length + 2) r1 with
        | none => none
        | some (b, r2) =>
          if b.isEmpty then none else
          match parseElifs pc fuel r2 with
          | none => none
          | some (es, r3) => some (.mk c b :: es, r3)

/-- the words of `for name in …` up to `;`, newline or the end of input -/
def parseForValues : Nat → List Char → Option (List Word × List Char)
  | 0, _ => none
  | fuel + 1, cs =>
    match lexToken cs with
    | none => none
    | some (t, r) =>
      match t.id with
      | .word _ | .ioNumber | .ioLocation => (parseForValues fuel r).map fun p => (t.word :: p.1, p.2)
      | .op o => if o = .semicolon || o = .newline then some ([], r) else none   -- InvalidForValue
      | .endOfInput => some ([], r)

/-- the `in` part of `for_loop_values`: `some none` = no `in` (a `;` on the first line or `do` follows) -/
def parseForIn : Nat → Bool → List Char → Option (Option (List Word) × List Char)
  | 0, _, _ => none
  | fuel + 1, firstLine, cs =>
    match lexToken cs with
    | none => none
    | some (t, r) =>
      if t.isOp .semicolon && firstLine then some (none, r)
      else if t.isKw "do" then some (none, cs)
      else if t.isOp .newline then parseForIn fuel false r
      else if t.isKw "in" then (parseForValues (r.length + 2) r).map fun p => (some p.1, p.2)
      else none                                        -- MissingForBody

def caseContOf : Op → Option CaseCont
  | .semicolonSemicolon => some .break_
  | .semicolonAnd => some .fallThrough
  | .semicolonBar => some .continue_
  | .semicolonSemicolonAnd => some .continue_
  | _ => none

/-- the patterns after the first one, up to `)` -/
def parsePatterns : Nat → List Char → Option (List Word × List Char)
  | 0, _ => none
  | fuel + 1, cs =>
    match lexToken cs with
    | none => none
    | some (t, r) =>
      if t.isOp .closeParen then some ([], r)
      else if t.isOp .bar then
        match lexToken r with
        | some (p, r') =>
          if p.isWord then (parsePatterns fuel r').map fun q => (p.word :: q.1, q.2) else none
        | none => none
      else none                                        -- UnclosedPatternList

/-- the `while let Some((item, continued)) = self.case_item()` loop -/
def parseCaseItems (pc : CmdParser) : Nat → List Char → Option (List CaseItem × List Char)
  | 0, _ => none
  | fuel + 1, cs =>
    let cs := skipNewlines cs.length cs
    match lexToken cs with
    | none => none
    | some (t, r) =>
      if t.isKw "esac" then some ([], cs) else
      -- first pattern, optionally after `(`
      let first : Option (Word × List Char) :=
        if t.isWord then some (t.word, r)
        else if t.isOp .openParen then
          match lexToken r with
          | some (p, r') => if p.isWord then some (p.word, r') else none
          | none => none
        else none
      match first with
      | none => none
      | some (p, r1) =>
        match parsePatterns (r1.length + 2) r1 with
        | none => none
        | some (ps, r2) =>
          match parseCompoundList pc (r2.length + 2) r2 with
          | none => none
          | some (body, r3) =>
            match lexToken r3 with
            | none => none
            | some (t3, r4) =>
              let cont := match t3.id with
                | .op o => caseContOf o
                | _ => none
              match cont with
              | some k =>
                (parseCaseItems pc fuel r4).map fun q => (.mk (p :: ps) body k :: q.1, q.2)
              | none => some ([.mk (p :: ps) body .break_], r3)

/-- the loop of `case_command` looking for `in` -/
def parseCaseIn : Nat → List Char → Option (List Char)
  | 0, _ => none
  | fuel + 1, cs =>
    match lexToken (skipNewlines cs.length cs) with
    | none => none
    | some (t, r) =>
      if t.isKw "in" then some r
      else if t.isOp .newline then parseCaseIn fuel r
      else none                                        -- MissingIn

/-- `Parser::compound_command`: `some none` = no compound command starts here -/
def parseCompound (pc : CmdParser) (cs : List Char) : Option (Option CompoundCommand × List Char) :=
  match lexToken cs with
  | none => none
  | some (t, r) =>
    if t.isKw "{" then
      (listThenKw pc "}" r).map fun p => (some (.grouping p.1), p.2)
    else if t.isOp .openParen then
      match parseCompoundList pc (r.length + 2) r with
      | none => none
      | some (l, r1) =>
        match expectOp .closeParen r1 with
        | some r2 => if l.isEmpty then none else some (some (.subshell l), r2)
        | none => none
    else if t.isKw "for" then
      match lexToken r with
      | none => none
      | some (n, r1) =>
        if !(n.isWord || n.id = .ioNumber || n.id = .ioLocation) then none else
        match parseForIn (r1.length + 2) true r1 with
        | none => none
        | some (values, r2) =>
          match parseDoClause pc (skipNewlines r2.length r2) with
          | some (some body, r3) => some (some (.forLoop n.word values body), r3)
          | _ => none
    else if t.isKw "while" || t.isKw "until" then
      match parseCompoundList pc (r.length + 2) r with
      | none => none
      | some (c, r1) =>
        if c.isEmpty then none else
        match parseDoClause pc r1 with
        | some (some body, r2) =>
          some (some (if t.isKw "while" then .whileLoop c body else .untilLoop c body), r2)
        | _ => none
    else if t.isKw "if" then
      match listThenKw pc "then" r with
      | none => none
      | some (c, r1) =>
        match parseCompoundList pc (r1.length + 2) r1 with
        | none => none
        | some (b, r2) =>
          if b.isEmpty then none else
          match parseElifs pc (r2.length + 2) r2 with
          | none => none
          | some (es, r3) =>
            match expectKw "else" r3 with
            | some r4 =>
              match parseCompoundList pc (r4.length + 2) r4 with
              | none => none
              | some (e, r5) =>
                if e.isEmpty then none else
                (expectKw "fi" r5).map fun r6 => (some (.ifCmd c b es true e), r6)
            | none => (expectKw "fi" r3).map fun r6 => (some (.ifCmd c b es false []), r6)
    else if t.isKw "case" then
      match lexToken r with
      | none => none
      | some (s, r1) =>
        if !s.isWord then none else
        match parseCaseIn (r1.length + 2) r1 with
        | none => none
        | some r2 =>
          match parseCaseItems pc (r2.length + 2) r2 with
          | none => none
          | some (items, r3) => (expectKw "esac" r3).map fun r4 => (some (.caseCmd s.word items), r4)
    else some (none, cs)

/-- `Parser::full_compound_command` -/
def parseFullCompound (pc : CmdParser) (cs : List Char) :
    Option (Option (CompoundCommand × List Redir) × List Char) :=
  match parseCompound pc cs with
  | none => none
  | some (none, r) => some (none, r)
  | some (some c, r) => (parseRedirs (r.length + 2) r).map fun p => (some (c, p.1), p.2)

/-- `Parser::command` with `short_function_definition`; the fuel bounds the nesting depth -/
def parseCommand : Nat → CmdParser
  | 0 => fun _ => none
  | fuel + 1 => fun cs =>
    match parseSimple (cs.length + 2) cs with
    | none => none
    | some (some c, r) =>
      -- `short_function_definition`
      if c.assigns.isEmpty && c.redirs.isEmpty && c.words.length = 1 &&
          (match lexToken r with | some (t, _) => t.isOp .openParen | none => false) then
        match expectOp .openParen r with
        | none => none
        | some r1 =>
          match expectOp .closeParen r1 with
          | none => none                               -- UnmatchedParenthesis
          | some r2 =>
            match parseFullCompound (parseCommand fuel) (skipNewlines r2.length r2) with
            | some (some (body, redirs), r3) =>
              some (some (.function false (c.words.headD []) body redirs), r3)
            | _ => none                                -- MissingFunctionBody / InvalidFunctionBody
      else some (some (.simple c), r)
    | some (none, _) =>
      match parseFullCompound (parseCommand fuel) cs with
      | none => none
      | some (some (c, redirs), r) => some (some (.compound c redirs), r)
      | some (none, _) =>
        match lexToken cs with
        | none => none
        | some (t, _) =>
          if t.isKw "function" || t.isKw "[[" || t.isKw "namespace" || t.isKw "select" then none
          else some (none, cs)

/-- a whole program: `maybe_compound_list` with nesting depth bounded by the input length -/
def parseProgram (cs : List Char) : Option (List Item × List Char) :=
  parseCompoundList (parseCommand (cs.length + 2)) (cs.length + 2) cs

/-! ## Command lines (the entry point of the shell's read-eval loop) -/

/-- `Parser::command_line` (`list.rs`): a list up to the newline that ends the line, or up to the end of
    input (`error_type_for_trailing_token_in_command_line` answers `None` for `EndOfInput` only — see
    `commandLine_trailing_table`).  `some (none, _)` = `Ok(None)` (end of input with nothing read); the outer
    `none` is a syntax error.  Here-document bodies are not modelled. -/
def parseCommandLine (pc : CmdParser) (cs : List Char) : Option (Option (List Item) × List Char) :=
  match parseList pc (cs.length + 2) cs with
  | none => none
  | some (items, r) =>
    match lexToken r with
    | none => none
    | some (t, r') =>
      if t.isOp .newline then some (some items, r')            -- `newline_and_here_doc_contents`
      else if t.id = .endOfInput then
        if items.isEmpty then some (none, r) else some (some items, r)
      else none                                                -- the trailing-token error

/-- the loop that reads command lines until the end of input (`read_eval_loop` without the evaluation) -/
def parseLines (pc : CmdParser) : Nat → List Char → Option (List (List Item))
  | 0, _ => none
  | fuel + 1, cs =>
    match parseCommandLine pc cs with
    | none => none
    | some (none, _) => some []
    | some (some l, r) => (parseLines pc fuel r).map fun ls => l :: ls

/-- one command line, nesting depth bounded by the input length -/
def parseLine (cs : List Char) : Option (Option (List Item) × List Char) :=
  parseCommandLine (parseCommand (cs.length + 2)) cs

/-- a whole script read line by line, as the shell does -/
def parseScript (cs : List Char) : Option (List (List Item)) :=
  parseLines (parseCommand (cs.length + 2)) (cs.length + 2) cs

/-- `parseScript` with `k` times the nesting budget and the line budget (`parseScript = parseScriptWith 1`);
    the driver checks on every `L` case that doubling both changes nothing (no budget ran out) -/
def parseScriptWith (k : Nat) (cs : List Char) : Option (List (List Item)) :=
  parseLines (parseCommand (k * (cs.length + 2))) (k * (cs.length + 2)) cs

end YashModel.Syntax
