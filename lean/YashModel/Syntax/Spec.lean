import YashModel.Syntax.Model
namespace YashModel.Syntax
def specColumn (_l : List Item) : String := "-"
end YashModel.Syntax
