/-
  C06 — Spec side of the driver: the statement "the printed text reads back as the same tree", evaluated
  with the model lexer on every token-level word of a tree (command words, redirection operands,
  here-document delimiters, `for` names and values, `case` subjects and patterns, function names).

  A word is checked when it lies in the fragment the model lexer covers: no command substitution or
  arithmetic expansion anywhere inside, and tilde expansions only in first position (the others come from
  `parse_tilde_everywhere`, which belongs to the assignment / declaration-utility rules of the parser).
-/
import YashModel.Syntax.Model
import YashModel.Syntax.Lexer
import YashModel.Syntax.Parser
import YashModel.Syntax.Structure
namespace YashModel.Syntax

mutual
  def modelledTextUnit : TextUnit → Bool
    | .literal _ | .backslashed _ | .rawParam _ | .backquote _ => true
    | .commandSubst _ | .arith _ => false
    | .bracedParam _ m => modelledModifier m
  def modelledModifier : Modifier → Bool
    | .none | .length => true
    | .switch _ _ w => modelledWord w
    | .trim _ _ w => modelledWord w
  def modelledText : List TextUnit → Bool
    | [] => true
    | u :: us => modelledTextUnit u && modelledText us
  def modelledWordUnit : WordUnit → Bool
    | .unquoted u => modelledTextUnit u
    | .singleQuote _ | .dollarSingleQuote _ | .tilde _ _ => true
    | .doubleQuote t => modelledText t
  def modelledWord : List WordUnit → Bool
    | [] => true
    | u :: us => modelledWordUnit u && modelledWord us
end

def hasLaterTilde : List WordUnit → Bool
  | [] => false
  | _ :: us => us.any fun | .tilde _ _ => true | _ => false

mutual
  def eqTextUnit : TextUnit → TextUnit → Bool
    | .literal a, .literal b => a = b
    | .backslashed a, .backslashed b => a = b
    | .rawParam a, .rawParam b => a = b
    | .bracedParam a m, .bracedParam b n => a = b && eqModifier m n
    | .commandSubst a, .commandSubst b => a = b
    | .backquote a, .backquote b => a = b
    | .arith a, .arith b => eqText a b
    | _, _ => false
  def eqModifier : Modifier → Modifier → Bool
    | .none, .none => true
    | .length, .length => true
    | .switch c a w, .switch c' a' w' => c = c' && a = a' && eqWord w w'
    | .trim s l w, .trim s' l' w' => s = s' && l = l' && eqWord w w'
    | _, _ => false
  def eqText : List TextUnit → List TextUnit → Bool
    | [], [] => true
    | a :: as, b :: bs => eqTextUnit a b && eqText as bs
    | _, _ => false
  def eqWordUnit : WordUnit → WordUnit → Bool
    | .unquoted a, .unquoted b => eqTextUnit a b
    | .singleQuote a, .singleQuote b => a = b
    | .doubleQuote a, .doubleQuote b => eqText a b
    | .dollarSingleQuote a, .dollarSingleQuote b => a = b
    | .tilde a s, .tilde b t => a = b && s = t
    | _, _ => false
  def eqWord : List WordUnit → List WordUnit → Bool
    | [], [] => true
    | a :: as, b :: bs => eqWordUnit a b && eqWord as bs
    | _, _ => false
end

/-- verdict on one token-level word: `none` = not in the modelled fragment -/
def checkWord (w : Word) : Option Bool :=
  if !modelledWord w || hasLaterTilde w || w.isEmpty then none else
  match lexWord .token (printWord w ++ [' ']) with
  | some (w', [' ']) => some (eqWord (parseTildeFront w') w)
  | _ => some false

def redirWord : Redir → Word
  | .normal _ _ w => w
  | .hereDoc _ _ w => w

def simpleWords (c : SimpleCommand) : List Word :=
  c.words ++ c.redirs.map redirWord ++
    (c.assigns.flatMap fun a => match a.value with | .scalar _ => [] | .array ws => ws)

mutual
  def compoundWords : CompoundCommand → List Word
    | .grouping l => listWords l
    | .subshell l => listWords l
    | .forLoop n vs b => n :: ((vs.getD []) ++ listWords b)
    | .whileLoop c b => listWords c ++ listWords b
    | .untilLoop c b => listWords c ++ listWords b
    | .ifCmd c b es _ e => listWords c ++ listWords b ++ elifWords es ++ listWords e
    | .caseCmd s items => s :: caseWords items
  def elifWords : List ElifThen → List Word
    | [] => []
    | .mk c b :: rest => listWords c ++ listWords b ++ elifWords rest
  def caseWords : List CaseItem → List Word
    | [] => []
    | .mk ps b _ :: rest => ps ++ listWords b ++ caseWords rest
  def commandWords : Command → List Word
    | .simple c => simpleWords c
    | .compound c rs => compoundWords c ++ rs.map redirWord
    | .function _ n c rs => n :: (compoundWords c ++ rs.map redirWord)
  def commandsWords : List Command → List Word
    | [] => []
    | c :: cs => commandWords c ++ commandsWords cs
  def pipelineWords : Pipeline → List Word
    | .mk cs _ => commandsWords cs
  def andOrRestWords : List AndOrRest → List Word
    | [] => []
    | .mk _ p :: rest => pipelineWords p ++ andOrRestWords rest
  def itemWords : Item → List Word
    | .mk (.mk first rest) _ => pipelineWords first ++ andOrRestWords rest
  def listWords : List Item → List Word
    | [] => []
    | i :: is => itemWords i ++ listWords is
end

/-! ## simple commands read back by the model parser -/

def anyTilde (w : Word) : Bool := w.any fun | .tilde _ _ => true | _ => false

def eqWords : List Word → List Word → Bool
  | [], [] => true
  | a :: as, b :: bs => eqWord a b && eqWords as bs
  | _, _ => false

def eqRedir : Redir → Redir → Bool
  | .normal f o w, .normal f' o' w' => f = f' && o = o' && eqWord w w'
  | .hereDoc f t w, .hereDoc f' t' w' => f = f' && t = t' && eqWord w w'
  | _, _ => false

def eqRedirs : List Redir → List Redir → Bool
  | [], [] => true
  | a :: as, b :: bs => eqRedir a b && eqRedirs as bs
  | _, _ => false

def eqAssigns : List Assign → List Assign → Bool
  | [], [] => true
  | a :: as, b :: bs =>
    a.name = b.name && (match a.value, b.value with
      | .scalar v, .scalar v' => eqWord v v'
      | .array ws, .array ws' => eqWords ws ws'
      | _, _ => false) && eqAssigns as bs
  | _, _ => false

/-- is the simple command inside what `parseSimple` models? -/
def simpleModelled (c : SimpleCommand) : Bool :=
  c.assigns.all (fun a => match a.value with
    | .scalar v => modelledWord v && !anyTilde v && !hasUnquotedTilde v
    | .array ws => ws.all fun w => modelledWord w && !hasLaterTilde w && !w.isEmpty) &&
  c.words.all (fun w => modelledWord w && !hasLaterTilde w && !w.isEmpty &&
    !(hasUnquotedTilde w && (assignOf w).isSome)) &&
  c.redirs.all (fun r => modelledWord (redirWord r) && !hasLaterTilde (redirWord r) && !(redirWord r).isEmpty)

/-- verdict on one simple command: `none` = not in the modelled fragment -/
def checkSimple (c : SimpleCommand) : Option Bool :=
  if !simpleModelled c then none else
  let text := printSimple c ++ [';']
  match parseSimple (text.length + 2) text with
  | some (some c', [';']) =>
    some (eqAssigns c'.assigns c.assigns && eqWords c'.words c.words && eqRedirs c'.redirs c.redirs)
  | _ => some false

mutual
  def compoundSimples : CompoundCommand → List SimpleCommand
    | .grouping l => listSimples l
    | .subshell l => listSimples l
    | .forLoop _ _ b => listSimples b
    | .whileLoop c b => listSimples c ++ listSimples b
    | .untilLoop c b => listSimples c ++ listSimples b
    | .ifCmd c b es _ e => listSimples c ++ listSimples b ++ elifSimples es ++ listSimples e
    | .caseCmd _ items => caseSimples items
  def elifSimples : List ElifThen → List SimpleCommand
    | [] => []
    | .mk c b :: rest => listSimples c ++ listSimples b ++ elifSimples rest
  def caseSimples : List CaseItem → List SimpleCommand
    | [] => []
    | .mk _ b _ :: rest => listSimples b ++ caseSimples rest
  def commandSimples : Command → List SimpleCommand
    | .simple c => [c]
    | .compound c _ => compoundSimples c
    | .function _ _ c _ => compoundSimples c
  def commandsSimples : List Command → List SimpleCommand
    | [] => []
    | c :: cs => commandSimples c ++ commandsSimples cs
  def pipelineSimples : Pipeline → List SimpleCommand
    | .mk cs _ => commandsSimples cs
  def andOrRestSimples : List AndOrRest → List SimpleCommand
    | [] => []
    | .mk _ p :: rest => pipelineSimples p ++ andOrRestSimples rest
  def itemSimples : Item → List SimpleCommand
    | .mk (.mk first rest) _ => pipelineSimples first ++ andOrRestSimples rest
  def listSimples : List Item → List SimpleCommand
    | [] => []
    | i :: is => itemSimples i ++ listSimples is
end

/-! ## whole programs read back by the model parser of the command structure -/

def tokWordModelled (w : Word) : Bool := modelledWord w && !hasLaterTilde w && !w.isEmpty

def redirModelled : Redir → Bool
  | .normal _ _ w => tokWordModelled w
  | .hereDoc _ _ _ => false

def simpleStructModelled (c : SimpleCommand) : Bool :=
  simpleModelled c && c.redirs.all redirModelled

mutual
  def compoundModelled : CompoundCommand → Bool
    | .grouping l => listModelled l
    | .subshell l => listModelled l
    | .forLoop n vs b => tokWordModelled n && (vs.getD []).all tokWordModelled && listModelled b
    | .whileLoop c b => listModelled c && listModelled b
    | .untilLoop c b => listModelled c && listModelled b
    | .ifCmd c b es _ e => listModelled c && listModelled b && elifsModelled es && listModelled e
    | .caseCmd s items => tokWordModelled s && caseItemsModelled items
  def elifsModelled : List ElifThen → Bool
    | [] => true
    | .mk c b :: rest => listModelled c && listModelled b && elifsModelled rest
  def caseItemsModelled : List CaseItem → Bool
    | [] => true
    | .mk ps b _ :: rest => ps.all tokWordModelled && listModelled b && caseItemsModelled rest
  def commandModelled : Command → Bool
    | .simple c => simpleStructModelled c
    | .compound c rs => compoundModelled c && rs.all redirModelled
    | .function kw n c rs => !kw && tokWordModelled n && compoundModelled c && rs.all redirModelled
  def commandsModelled : List Command → Bool
    | [] => true
    | c :: cs => commandModelled c && commandsModelled cs
  def pipelineModelled : Pipeline → Bool
    | .mk cs _ => commandsModelled cs
  def andOrRestModelled : List AndOrRest → Bool
    | [] => true
    | .mk _ p :: rest => pipelineModelled p && andOrRestModelled rest
  def itemModelled : Item → Bool
    | .mk (.mk first rest) _ => pipelineModelled first && andOrRestModelled rest
  def listModelled : List Item → Bool
    | [] => true
    | i :: is => itemModelled i && listModelled is
end

def eqSimple (a b : SimpleCommand) : Bool :=
  eqAssigns a.assigns b.assigns && eqWords a.words b.words && eqRedirs a.redirs b.redirs

mutual
  def eqCompound : CompoundCommand → CompoundCommand → Bool
    | .grouping a, .grouping b => eqItems a b
    | .subshell a, .subshell b => eqItems a b
    | .forLoop n vs b, .forLoop n' vs' b' =>
      eqWord n n' && (match vs, vs' with
        | none, none => true
        | some x, some y => eqWords x y
        | _, _ => false) && eqItems b b'
    | .whileLoop c b, .whileLoop c' b' => eqItems c c' && eqItems b b'
    | .untilLoop c b, .untilLoop c' b' => eqItems c c' && eqItems b b'
    | .ifCmd c b es h e, .ifCmd c' b' es' h' e' =>
      eqItems c c' && eqItems b b' && eqElifs es es' && h = h' && eqItems e e'
    | .caseCmd s is, .caseCmd s' is' => eqWord s s' && eqCaseItems is is'
    | _, _ => false
  def eqElifs : List ElifThen → List ElifThen → Bool
    | [], [] => true
    | .mk c b :: r, .mk c' b' :: r' => eqItems c c' && eqItems b b' && eqElifs r r'
    | _, _ => false
  def eqCaseItems : List CaseItem → List CaseItem → Bool
    | [], [] => true
    | .mk p b k :: r, .mk p' b' k' :: r' => eqWords p p' && eqItems b b' && k = k' && eqCaseItems r r'
    | _, _ => false
  def eqCommand : Command → Command → Bool
    | .simple a, .simple b => eqSimple a b
    | .compound c r, .compound c' r' => eqCompound c c' && eqRedirs r r'
    | .function k n c r, .function k' n' c' r' => k = k' && eqWord n n' && eqCompound c c' && eqRedirs r r'
    | _, _ => false
  def eqCommands : List Command → List Command → Bool
    | [], [] => true
    | a :: r, b :: r' => eqCommand a b && eqCommands r r'
    | _, _ => false
  def eqPipeline : Pipeline → Pipeline → Bool
    | .mk a n, .mk b m => n = m && eqCommands a b
  def eqAndOrRest : List AndOrRest → List AndOrRest → Bool
    | [], [] => true
    | .mk x p :: r, .mk y q :: r' => x = y && eqPipeline p q && eqAndOrRest r r'
    | _, _ => false
  def eqItem : Item → Item → Bool
    | .mk (.mk f r) a, .mk (.mk f' r') a' => a = a' && eqPipeline f f' && eqAndOrRest r r'
  def eqItems : List Item → List Item → Bool
    | [], [] => true
    | a :: r, b :: r' => eqItem a b && eqItems r r'
    | _, _ => false
end

/-- verdict on a whole program: `none` = not in the modelled fragment -/
def checkProgram (l : List Item) : Option Bool :=
  if l.isEmpty || !listModelled l then none else
  -- half of the programs (by the parity of the printed length) are read back in front of `)` (as inside `$(…)` or a
  -- subshell: `structure_roundtrip`), the other half with nothing after them (as `List::from_str(printed)` does:
  -- `structure_roundtrip_at_end_of_input`)
  let printed := printList false l
  if printed.length % 2 = 0 then
    match parseProgram (printed ++ [')']) with
    | some (l', [')']) => some (eqItems l' l)
    | _ => some false
  else
    match parseProgram printed with
    | some (l', []) => some (eqItems l' l)
    | _ => some false


/-! ## shape of the closed fragment of `structure_roundtrip_partial` (for counting) -/

mutual
  def closedCompound : CompoundCommand → Bool
    | .grouping l => closedList l
    | .subshell l => closedList l
    | .whileLoop c b => closedList c && closedList b
    | .untilLoop c b => closedList c && closedList b
    | .ifCmd c b es _ e => closedList c && closedList b && closedElifs es && closedList e
    | .forLoop n vs b => tokWordModelled n && (vs.getD []).all tokWordModelled && closedList b
    | .caseCmd s items => tokWordModelled s && closedCaseItems items
  def closedCaseItems : List CaseItem → Bool
    | [] => true
    | .mk ps b _ :: rest => !ps.isEmpty && ps.all tokWordModelled && closedList b && closedCaseItems rest
  def closedElifs : List ElifThen → Bool
    | [] => true
    | .mk c b :: rest => closedList c && closedList b && closedElifs rest
  def closedCommand : Command → Bool
    | .simple c => simpleStructModelled c
    | .compound c rs => closedCompound c && rs.all redirModelled
    | .function kw n c rs => !kw && tokWordModelled n && closedCompound c && rs.all redirModelled
  def closedCommands : List Command → Bool
    | [] => true
    | c :: cs => closedCommand c && closedCommands cs
  def closedRest : List AndOrRest → Bool
    | [] => true
    | .mk _ (.mk cs _) :: rest => closedCommands cs && closedRest rest
  def closedList : List Item → Bool
    | [] => true
    | .mk (.mk (.mk cs _) rest) _ :: is => closedCommands cs && closedRest rest && closedList is
end

/-- second output column of the driver -/
def specColumn (l : List Item) : String :=
  let rs := (listWords l).filterMap checkWord
  let ss := (listSimples l).filterMap checkSimple
  let ps := (checkProgram l).toList
  if rs.isEmpty && ss.isEmpty && ps.isEmpty then "-"
  else if !rs.all id then "FAIL:a-printed-word-does-not-read-back"
  else if !ss.all id then "FAIL:a-printed-simple-command-does-not-read-back"
  else if !ps.all id then "FAIL:the-printed-program-does-not-read-back"
  else if ps.isEmpty then "ok" else if closedList l then "ok+structure+closed" else "ok+structure"

end YashModel.Syntax
