/-
  C06 — Spec side of the driver: the statement "the printed text reads back as the same tree", evaluated
  with the model lexer on every token-level word of a tree (command words, redirection operands,
  here-document delimiters, `for` names and values, `case` subjects and patterns, function names).

  A word is checked when it lies in the fragment the model lexer covers: no command substitution or
  arithmetic expansion anywhere inside, and tilde expansions only in first position (the others come from
  `parse_tilde_everywhere`, which belongs to the assignment / declaration-utility rules of the parser).
-/
import YashModel.Syntax.Model
import YashModel.Syntax.Lexer
import YashModel.Syntax.Parser
namespace YashModel.Syntax

mutual
  def modelledTextUnit : TextUnit → Bool
    | .literal _ | .backslashed _ | .rawParam _ | .backquote _ => true
    | .commandSubst _ | .arith _ => false
    | .bracedParam _ m => modelledModifier m
  def modelledModifier : Modifier → Bool
    | .none | .length => true
    | .switch _ _ w => modelledWord w
    | .trim _ _ w => modelledWord w
  def modelledText : List TextUnit → Bool
    | [] => true
    | u :: us => modelledTextUnit u && modelledText us
  def modelledWordUnit : WordUnit → Bool
    | .unquoted u => modelledTextUnit u
    | .singleQuote _ | .dollarSingleQuote _ | .tilde _ _ => true
    | .doubleQuote t => modelledText t
  def modelledWord : List WordUnit → Bool
    | [] => true
    | u :: us => modelledWordUnit u && modelledWord us
end

def hasLaterTilde : List WordUnit → Bool
  | [] => false
  | _ :: us => us.any fun | .tilde _ _ => true | _ => false

mutual
  def eqTextUnit : TextUnit → TextUnit → Bool
    | .literal a, .literal b => a = b
    | .backslashed a, .backslashed b => a = b
    | .rawParam a, .rawParam b => a = b
    | .bracedParam a m, .bracedParam b n => a = b && eqModifier m n
    | .commandSubst a, .commandSubst b => a = b
    | .backquote a, .backquote b => a = b
    | .arith a, .arith b => eqText a b
    | _, _ => false
  def eqModifier : Modifier → Modifier → Bool
    | .none, .none => true
    | .length, .length => true
    | .switch c a w, .switch c' a' w' => c = c' && a = a' && eqWord w w'
    | .trim s l w, .trim s' l' w' => s = s' && l = l' && eqWord w w'
    | _, _ => false
  def eqText : List TextUnit → List TextUnit → Bool
    | [], [] => true
    | a :: as, b :: bs => eqTextUnit a b && eqText as bs
    | _, _ => false
  def eqWordUnit : WordUnit → WordUnit → Bool
    | .unquoted a, .unquoted b => eqTextUnit a b
    | .singleQuote a, .singleQuote b => a = b
    | .doubleQuote a, .doubleQuote b => eqText a b
    | .dollarSingleQuote a, .dollarSingleQuote b => a = b
    | .tilde a s, .tilde b t => a = b && s = t
    | _, _ => false
  def eqWord : List WordUnit → List WordUnit → Bool
    | [], [] => true
    | a :: as, b :: bs => eqWordUnit a b && eqWord as bs
    | _, _ => false
end

/-- verdict on one token-level word: `none` = not in the modelled fragment -/
def checkWord (w : Word) : Option Bool :=
  if !modelledWord w || hasLaterTilde w || w.isEmpty then none else
  match lexWord .token (printWord w ++ [' ']) with
  | some (w', [' ']) => some (eqWord (parseTildeFront w') w)
  | _ => some false

def redirWord : Redir → Word
  | .normal _ _ w => w
  | .hereDoc _ _ w => w

def simpleWords (c : SimpleCommand) : List Word :=
  c.words ++ c.redirs.map redirWord ++
    (c.assigns.flatMap fun a => match a.value with | .scalar _ => [] | .array ws => ws)

mutual
  def compoundWords : CompoundCommand → List Word
    | .grouping l => listWords l
    | .subshell l => listWords l
    | .forLoop n vs b => n :: ((vs.getD []) ++ listWords b)
    | .whileLoop c b => listWords c ++ listWords b
    | .untilLoop c b => listWords c ++ listWords b
    | .ifCmd c b es _ e => listWords c ++ listWords b ++ elifWords es ++ listWords e
    | .caseCmd s items => s :: caseWords items
  def elifWords : List ElifThen → List Word
    | [] => []
    | .mk c b :: rest => listWords c ++ listWords b ++ elifWords rest
  def caseWords : List CaseItem → List Word
    | [] => []
    | .mk ps b _ :: rest => ps ++ listWords b ++ caseWords rest
  def commandWords : Command → List Word
    | .simple c => simpleWords c
    | .compound c rs => compoundWords c ++ rs.map redirWord
    | .function _ n c rs => n :: (compoundWords c ++ rs.map redirWord)
  def commandsWords : List Command → List Word
    | [] => []
    | c :: cs => commandWords c ++ commandsWords cs
  def pipelineWords : Pipeline → List Word
    | .mk cs _ => commandsWords cs
  def andOrRestWords : List AndOrRest → List Word
    | [] => []
    | .mk _ p :: rest => pipelineWords p ++ andOrRestWords rest
  def itemWords : Item → List Word
    | .mk (.mk first rest) _ => pipelineWords first ++ andOrRestWords rest
  def listWords : List Item → List Word
    | [] => []
    | i :: is => itemWords i ++ listWords is
end

/-! ## simple commands read back by the model parser -/

def anyTilde (w : Word) : Bool := w.any fun | .tilde _ _ => true | _ => false

def eqWords : List Word → List Word → Bool
  | [], [] => true
  | a :: as, b :: bs => eqWord a b && eqWords as bs
  | _, _ => false

def eqRedir : Redir → Redir → Bool
  | .normal f o w, .normal f' o' w' => f = f' && o = o' && eqWord w w'
  | .hereDoc f t w, .hereDoc f' t' w' => f = f' && t = t' && eqWord w w'
  | _, _ => false

def eqRedirs : List Redir → List Redir → Bool
  | [], [] => true
  | a :: as, b :: bs => eqRedir a b && eqRedirs as bs
  | _, _ => false

def eqAssigns : List Assign → List Assign → Bool
  | [], [] => true
  | a :: as, b :: bs =>
    a.name = b.name && (match a.value, b.value with
      | .scalar v, .scalar v' => eqWord v v'
      | _, _ => false) && eqAssigns as bs
  | _, _ => false

/-- is the simple command inside what `parseSimple` models? -/
def simpleModelled (c : SimpleCommand) : Bool :=
  c.assigns.all (fun a => match a.value with
    | .scalar v => modelledWord v && !anyTilde v && !hasUnquotedTilde v
    | .array _ => false) &&
  c.words.all (fun w => modelledWord w && !hasLaterTilde w && !w.isEmpty &&
    !(hasUnquotedTilde w && (assignOf w).isSome)) &&
  c.redirs.all (fun r => modelledWord (redirWord r) && !hasLaterTilde (redirWord r) && !(redirWord r).isEmpty)

/-- verdict on one simple command: `none` = not in the modelled fragment -/
def checkSimple (c : SimpleCommand) : Option Bool :=
  if !simpleModelled c then none else
  let text := printSimple c ++ [';']
  match parseSimple (text.length + 2) text with
  | some (some c', [';']) =>
    some (eqAssigns c'.assigns c.assigns && eqWords c'.words c.words && eqRedirs c'.redirs c.redirs)
  | _ => some false

mutual
  def compoundSimples : CompoundCommand → List SimpleCommand
    | .grouping l => listSimples l
    | .subshell l => listSimples l
    | .forLoop _ _ b => listSimples b
    | .whileLoop c b => listSimples c ++ listSimples b
    | .untilLoop c b => listSimples c ++ listSimples b
    | .ifCmd c b es _ e => listSimples c ++ listSimples b ++ elifSimples es ++ listSimples e
    | .caseCmd _ items => caseSimples items
  def elifSimples : List ElifThen → List SimpleCommand
    | [] => []
    | .mk c b :: rest => listSimples c ++ listSimples b ++ elifSimples rest
  def caseSimples : List CaseItem → List SimpleCommand
    | [] => []
    | .mk _ b _ :: rest => listSimples b ++ caseSimples rest
  def commandSimples : Command → List SimpleCommand
    | .simple c => [c]
    | .compound c _ => compoundSimples c
    | .function _ _ c _ => compoundSimples c
  def commandsSimples : List Command → List SimpleCommand
    | [] => []
    | c :: cs => commandSimples c ++ commandsSimples cs
  def pipelineSimples : Pipeline → List SimpleCommand
    | .mk cs _ => commandsSimples cs
  def andOrRestSimples : List AndOrRest → List SimpleCommand
    | [] => []
    | .mk _ p :: rest => pipelineSimples p ++ andOrRestSimples rest
  def itemSimples : Item → List SimpleCommand
    | .mk (.mk first rest) _ => pipelineSimples first ++ andOrRestSimples rest
  def listSimples : List Item → List SimpleCommand
    | [] => []
    | i :: is => itemSimples i ++ listSimples is
end

/-- second output column of the driver -/
def specColumn (l : List Item) : String :=
  let rs := (listWords l).filterMap checkWord
  let ss := (listSimples l).filterMap checkSimple
  if rs.isEmpty && ss.isEmpty then "-"
  else if !rs.all id then "FAIL:a-printed-word-does-not-read-back"
  else if !ss.all id then "FAIL:a-printed-simple-command-does-not-read-back"
  else "ok"

end YashModel.Syntax
