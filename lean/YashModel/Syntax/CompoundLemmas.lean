/-
  C06 — lemmas for compound commands that need no closed-fragment predicate: reserved-word tokens, first
  characters of printed commands, `for` loops.
-/
import YashModel.Syntax.StructLemmas
namespace YashModel.Syntax

theorem kw_bang : Kw "!" := ⟨by unfold KwChars; decide, by decide, by decide⟩

theorem lexToken_kw_exact (k : String) (hk : Kw k) (next : List Char) (hn : NextOk next) (sp : Bool) :
    lexToken ((if sp then [' '] else []) ++ (k.toList ++ next)) =
      some (⟨digitsWord k.toList, .word true⟩, next) := by
  have hw := kw_tokWord k.toList hk.chars hk.ne next
  have ht := lexToken_word _ next hw hn sp
  rw [printWord_digitsWord] at ht
  have hkk : isKeywordWord (digitsWord k.toList) = true := by
    simp [isKeywordWord, wordLiteral_digitsWord, hk.kw]
  rw [ht, hkk]

theorem headOk_tokWord (w : Word) (next : List Char) (hw : TokWordOk w next) (x : List Char) :
    HeadOk (printWord w ++ x) := by
  have hne := printWord_ne_nil _ _ w _ hw.ok hw.nonempty
  obtain ⟨y, t, e, hy, hk⟩ := printWord_head_ok .word .token w _ hw.ok hne
  obtain ⟨hop, hbl⟩ := firstOk_token y hy
  have hnl := (notOp_facts y hop).1
  have hc : y ≠ '#' := by intro e'; apply hw.noComment; simp [e, e']
  exact ⟨y, t ++ x, by simp [e], hnl, hc, hbl, by simpa using hk x⟩

theorem headOk_char (c : Char) (x : List Char)
    (h : c ≠ '\n' ∧ c ≠ '#' ∧ isBlank c = false ∧ c ≠ '\\') : HeadOk (c :: x) :=
  ⟨c, x, rfl, h.1, h.2.1, h.2.2.1, skipLC_cons_ne c x h.2.2.2⟩

theorem headOk_piece (b : Builder) (p : Piece) (next : List Char) (h : PieceOk b p next) (x : List Char) :
    HeadOk (p.print ++ x) := by
  cases p with
  | assign n v =>
    obtain ⟨_, h1, _⟩ := h
    have := headOk_tokWord _ _ h1 x
    rwa [printWord_assignWord] at this
  | word w => exact headOk_tokWord w next h.1 x
  | redir fd op w =>
    cases fd with
    | none =>
      obtain ⟨c, tl, e, hc⟩ := redirOp_str_head op
      simp only [Piece.print, printRedir, printFd, List.nil_append, e, List.cons_append]
      rcases hc with rfl | rfl <;> exact headOk_char _ _ ⟨by decide, by decide, by decide, by decide⟩
    | some k =>
      obtain ⟨d1, _, d3⟩ := printNat_spec k
      cases hp : printNat k with
      | nil => exact absurd hp d3
      | cons y ys =>
        rw [hp] at d1
        simp only [List.all_cons, Bool.and_eq_true] at d1
        obtain ⟨a1, _, _, a4, _, _, _, a8⟩ := digit_plain y d1.1
        have hbl : isBlank y = false := by
          simp [Delim.test, isTokenDelimiter] at a4
          exact a4.2
        have hnl : y ≠ '\n' := by
          have : NotOpChar y := by
            simp [Delim.test, isTokenDelimiter] at a4
            exact a4.1
          exact (notOp_facts y this).1
        simp only [Piece.print, printRedir, printFd, hp, List.cons_append]
        exact headOk_char _ _ ⟨hnl, a8, hbl, a1⟩

theorem headOk_simple (c : SimpleCommand) (tail : List Char) (h : SimpleOk c tail) :
    HeadOk (printSimple c ++ tail) := by
  obtain ⟨as, ws, rs, rfl, hne, hok⟩ := h
  rw [printSimple_pieces]
  cases hp : simplePieces as ws rs with
  | nil =>
    have := foldl_simplePieces as ws rs
    rw [hp] at this
    simp at this
    obtain ⟨a1, a2, a3⟩ := this
    rcases hne with h | h | h
    · exact absurd a1 h
    · exact absurd (by simpa [mkSimple] using a2) h
    · exact absurd a3 h
  | cons p ps =>
    rw [hp] at hok
    rw [printPieces_cons]
    exact headOk_piece _ p _ hok.1 _

theorem headOk_kw (k : String) (hk : Kw k) (x : List Char) : HeadOk (k.toList ++ x) := by
  cases hl : k.toList with
  | nil => exact absurd hl hk.ne
  | cons c cs =>
    have := hk.chars c (by simp [hl])
    obtain ⟨a1, _, _, a4, _, _, _, a8⟩ := this
    have hbl : isBlank c = false := by
      simp [Delim.test, isTokenDelimiter] at a4
      exact a4.2
    have hnl : c ≠ '\n' := by
      have : NotOpChar c := by
        simp [Delim.test, isTokenDelimiter] at a4
        exact a4.1
      exact (notOp_facts c this).1
    exact headOk_char _ _ ⟨hnl, a8, hbl, a1⟩


/-! ## Layer 4: `for` -/

/-- the words of `for … in w₁ w₂ …;`, each followed by the rest -/
def ForWordsOk : List Word → List Char → Prop
  | [], _ => True
  | v :: vs, tail => TokWordOk v (printWordsSp vs ++ tail) ∧ ForWordsOk vs tail

theorem nextOk_wordsSp (vs : List Word) (x : List Char) : NextOk (printWordsSp vs ++ ';' :: ' ' :: x) := by
  cases vs with
  | nil =>
    exact ⟨⟨';', ' ' :: x, by simp [printWordsSp], ⟨by decide, by decide⟩⟩, by
      simp [printWordsSp, nextIsAngle, skipLC_cons_ne]⟩
  | cons v vs =>
    exact ⟨⟨' ', printWord v ++ (printWordsSp vs ++ ';' :: ' ' :: x), by simp [printWordsSp],
      ⟨by decide, by decide⟩⟩, by simp [printWordsSp, nextIsAngle, skipLC_cons_ne]⟩

theorem parseForValues_rt (x : List Char) :
    ∀ (vs : List Word) (fuel : Nat), vs.length + 1 ≤ fuel → ForWordsOk vs (';' :: ' ' :: x) →
      parseForValues fuel (printWordsSp vs ++ ';' :: ' ' :: x) = some (vs, ' ' :: x) := by
  intro vs
  induction vs with
  | nil =>
    intro fuel hf _
    obtain ⟨k, rfl⟩ : ∃ k, fuel = k + 1 := ⟨fuel - 1, by simp at hf; omega⟩
    have := lexToken_semi (' ' :: x) (Or.inl ⟨_, rfl⟩)
    simp [printWordsSp, parseForValues, this]
  | cons v vs ih =>
    intro fuel hf h
    obtain ⟨k, rfl⟩ : ∃ k, fuel = k + 1 := ⟨fuel - 1, by simp at hf; omega⟩
    obtain ⟨hv, hvs⟩ := h
    have ht := lexToken_word v _ hv (nextOk_wordsSp vs x) true
    have ih' := ih k (by simp at hf; omega) hvs
    simp only [if_true, List.singleton_append] at ht
    simp only [printWordsSp, List.cons_append, List.append_assoc, parseForValues, ht, ih', Option.map_some]

theorem wordsSp_length (vs : List Word) (tail : List Char) : vs.length ≤ (printWordsSp vs ++ tail).length := by
  induction vs with
  | nil => simp
  | cons v vs ih =>
    simp only [printWordsSp, List.cons_append, List.length_cons, List.length_append] at ih ⊢; omega

/-- `for name [in words;] do list; done` -/
theorem for_rt (pc : CmdParser) (name : Word) (values : Option (List Word)) (b : List Item) (hb : b ≠ [])
    (t : List Char) (hn : NextOk t)
    (hname : TokWordOk name ((match values with
      | some vs => ' ' :: ("in".toList ++ (printWordsSp vs ++ [';']))
      | none => []) ++ (' ' :: ("do".toList ++ ' ' :: (printList true b ++ ' ' :: ("done".toList ++ t))))))
    (hvals : ∀ vs, values = some vs →
      ForWordsOk vs (';' :: ' ' :: ("do".toList ++ ' ' :: (printList true b ++ ' ' :: ("done".toList ++ t)))))
    (h2 : ListRT pc true b (' ' :: ("done".toList ++ t))) (sp : Bool) :
    parseCompound pc ((if sp then [' '] else []) ++ (printCompound (.forLoop name values b) ++ t)) =
      some (some (.forLoop name values b), t) := by
  obtain ⟨D, hD⟩ : ∃ D, D = "do".toList ++ ' ' :: (printList true b ++ ' ' :: ("done".toList ++ t)) := ⟨_, rfl⟩
  rw [← hD] at hname hvals
  have hd : parseDoClause pc (' ' :: D) = some (some b, t) := by
    rw [hD]; exact doClause_rt pc b hb t hn h2
  have hsn : ∀ f, skipNewlines f (' ' :: D) = ' ' :: D := fun f => by
    have := skipNewlines_head D (by rw [hD]; exact headOk_kw "do" kw_do _) true f
    simpa using this
  have hdo : lexToken (' ' :: D) = some (⟨digitsWord "do".toList, .word true⟩,
      ' ' :: (printList true b ++ ' ' :: ("done".toList ++ t))) := by
    have := lexToken_kw_exact "do" kw_do (' ' :: (printList true b ++ ' ' :: ("done".toList ++ t)))
      (nextOk_blank _) true
    rw [hD]
    simpa using this
  cases values with
  | none =>
    have hin : printCompound (.forLoop name none b) ++ t = "for".toList ++ ' ' :: (printWord name ++ ' ' :: D) := by
      simp [printCompound, str, hD]
    simp only [List.nil_append] at hname
    obtain ⟨tk, ht, hkw, _, hop⟩ := lexToken_kw' "for" kw_for (' ' :: (printWord name ++ ' ' :: D))
      (nextOk_blank _) sp
    have k1 : tk.isKw "{" = false := by rw [hkw]; decide
    have k2 : tk.isKw "for" = true := by rw [hkw]; decide
    have hnm := lexToken_word name (' ' :: D) hname (nextOk_blank _) true
    simp only [if_true, List.singleton_append] at hnm
    have hfi : ∀ f, parseForIn (f + 1) true (' ' :: D) = some (none, ' ' :: D) := by
      intro f
      simp only [parseForIn, hdo]
      simp [Token.isOp, Token.isKw, wordLiteral_digitsWord]
    rw [hin]
    simp only [parseCompound, ht, k1, k2, hop, Bool.false_eq_true, if_false, if_true, hnm, Token.isWord,
      Bool.true_or, Bool.not_true, hfi, hsn, hd]
  | some vs =>
    have hin : printCompound (.forLoop name (some vs) b) ++ t =
        "for".toList ++ ' ' :: (printWord name ++ (' ' :: ("in".toList ++ (printWordsSp vs ++ ';' :: ' ' :: D)))) := by
      simp [printCompound, str, hD]
    have hname' : TokWordOk name (' ' :: ("in".toList ++ (printWordsSp vs ++ ';' :: ' ' :: D))) := by
      simpa using hname
    obtain ⟨tk, ht, hkw, _, hop⟩ := lexToken_kw' "for" kw_for
      (' ' :: (printWord name ++ (' ' :: ("in".toList ++ (printWordsSp vs ++ ';' :: ' ' :: D))))) (nextOk_blank _) sp
    have k1 : tk.isKw "{" = false := by rw [hkw]; decide
    have k2 : tk.isKw "for" = true := by rw [hkw]; decide
    have hnm := lexToken_word name _ hname' (nextOk_blank _) true
    simp only [if_true, List.singleton_append] at hnm
    have hinT := lexToken_kw_exact "in" kw_in (printWordsSp vs ++ ';' :: ' ' :: D) (nextOk_wordsSp vs D) true
    simp only [if_true, List.singleton_append] at hinT
    have hv := fun f' hf' => parseForValues_rt D vs f' hf' (hvals vs rfl)
    have e1 : (Token.mk (digitsWord "in".toList) (.word true)).isOp .semicolon = false := rfl
    have e2 : (Token.mk (digitsWord "in".toList) (.word true)).isKw "do" = false := by decide
    have e3 : (Token.mk (digitsWord "in".toList) (.word true)).isOp .newline = false := rfl
    have e4 : (Token.mk (digitsWord "in".toList) (.word true)).isKw "in" = true := by decide
    have hfi : ∀ f, parseForIn (f + 1) true (' ' :: ("in".toList ++ (printWordsSp vs ++ ';' :: ' ' :: D))) =
        some (some vs, ' ' :: D) := by
      intro f
      simp only [parseForIn, hinT, e1, e2, e3, e4, Bool.false_and, Bool.false_eq_true, if_false, if_true]
      rw [hv _ (by have := wordsSp_length vs (';' :: ' ' :: D); omega)]
      rfl
    rw [hin]
    simp only [parseCompound, ht, k1, k2, hop, Bool.false_eq_true, if_false, if_true, hnm, Token.isWord,
      Bool.true_or, Bool.not_true, hfi, hsn, hd]


/-! ## Function definitions -/


/-- the simple-command loop stops at `(` -/
theorem stopTail_paren (x : List Char) : StopTail ('(' :: x) := by
  have hl : lexToken ('(' :: x) = some (⟨[], .op .openParen⟩, x) := by
    simpa using lexToken_lparen x false
  refine ⟨⟨⟨'(', x, rfl, ⟨by decide, by decide⟩⟩, by simp [nextIsAngle, skipLC_cons_ne]⟩, ?_⟩
  intro b fuel
  have hr : parseRedir ('(' :: x) = some (none, '(' :: x) := by
    unfold parseRedir
    rw [hl]
    simp only []
    unfold parseRedirBody
    rw [hl]
    simp [redirOpOf]
  simp [parseSimpleLoop, hr, hl]

/-- a function name: one plain word that is neither an assignment nor a reserved word -/
structure FnNameOk (name : Word) (next : List Char) : Prop where
  tok : TokWordOk name next
  noAssign : assignOf name = none
  noKw : isKeywordWord name = false
  noDollar : endsWithDollar name = false

theorem simpleOk_name (name : Word) (next : List Char) (h : FnNameOk name next) :
    SimpleOk ⟨[], [name], []⟩ next := by
  refine ⟨[], [name], [], by simp [mkSimple], Or.inr (Or.inl (by simp)), ?_⟩
  have hfk : firstWordIsKeyword (mkSimple [] [name] []) = false := by
    have := h.noKw
    simp only [isKeywordWord] at this
    simp only [firstWordIsKeyword, mkSimple]
    cases hw : wordLiteral name with
    | none => rfl
    | some s => simpa [hw] using this
  have hp : simplePieces [] [name] [] = [.word name] := by
    simp [simplePieces, hfk, assignPieces, redirPieces, wordPieces]
  rw [hp]
  simp only [PiecesOk, PieceOk, and_true]
  exact ⟨h.tok, fun _ => ⟨h.noAssign, fun e => by simp [h.noKw] at e⟩, fun e => by simp at e⟩

/-- `name() compound [redirections]` at command level -/
theorem parseCommand_function (n : Nat) (name : Word) (body : CompoundCommand) (rs : List Redir)
    (tail : List Char) (ht : TailOk tail) (hrs : RedirsOk rs tail)
    (hname : FnNameOk name ('(' :: ')' :: ' ' :: (printCompound body ++ (printRedirsSp rs ++ tail))))
    (hhead : HeadOk (printCompound body ++ (printRedirsSp rs ++ tail)))
    (hc : parseCompound (parseCommand n) (' ' :: (printCompound body ++ (printRedirsSp rs ++ tail))) =
      some (some body, printRedirsSp rs ++ tail)) (sp : Bool) :
    parseCommand (n + 1) ((if sp then [' '] else []) ++ (printCommand (.function false name body rs) ++ tail)) =
      some (some (.function false name body rs), tail) := by
  obtain ⟨X, hX⟩ : ∃ X, X = printCompound body ++ (printRedirsSp rs ++ tail) := ⟨_, rfl⟩
  rw [← hX] at hname hhead hc
  have hin : printCommand (.function false name body rs) ++ tail =
      printSimple ⟨[], [name], []⟩ ++ '(' :: ')' :: ' ' :: X := by
    have e1 : printSimple ⟨[], [name], []⟩ = printWord name := by
      simp [printSimple, joinWith]
    rw [e1, hX]
    simp [printCommand, hname.noDollar, str]
  have hs := parseSimple_stop ⟨[], [name], []⟩ _ (stopTail_paren (')' :: ' ' :: X)) (simpleOk_name name _ hname) sp
  have hlp : lexToken ('(' :: ')' :: ' ' :: X) = some (⟨[], .op .openParen⟩, ')' :: ' ' :: X) := by
    simpa using lexToken_lparen (')' :: ' ' :: X) false
  have hrp := lexToken_rparen (' ' :: X)
  have hsn : ∀ f, skipNewlines f (' ' :: X) = ' ' :: X := fun f => by
    simpa using skipNewlines_head X hhead true f
  have hr := parseRedirs_rt tail ht rs ((printRedirsSp rs ++ tail).length + 2)
    (by have := redirsSp_length rs tail; omega) hrs
  rw [hin]
  simp only [parseCommand]
  rw [hs _ (by simp only [List.length_append]; omega)]
  simp only [List.isEmpty_nil, List.length_singleton, hlp, Token.isOp, expectOp]
  simp only [decide_true, Bool.and_self, if_true, hrp, hsn, parseFullCompound, hc, hr, Option.map_some,
    List.headD_cons]

end YashModel.Syntax
