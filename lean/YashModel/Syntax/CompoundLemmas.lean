/-
  C06 — lemmas for compound commands that need no closed-fragment predicate: reserved-word tokens, first
  characters of printed commands, `for` loops.
-/
import YashModel.Syntax.StructLemmas
namespace YashModel.Syntax

theorem kw_bang : Kw "!" := ⟨by unfold KwChars; decide, by decide, by decide⟩

theorem lexToken_kw_exact (k : String) (hk : Kw k) (next : List Char) (hn : NextOk next) (sp : Bool) :
    lexToken ((if sp then [' '] else []) ++ (k.toList ++ next)) =
      some (⟨digitsWord k.toList, .word true⟩, next) := by
  have hw := kw_tokWord k.toList hk.chars hk.ne next
  have ht := lexToken_word _ next hw hn sp
  rw [printWord_digitsWord] at ht
  have hkk : isKeywordWord (digitsWord k.toList) = true := by
    simp [isKeywordWord, wordLiteral_digitsWord, hk.kw]
  rw [ht, hkk]

theorem headOk_tokWord (w : Word) (next : List Char) (hw : TokWordOk w next) (x : List Char) :
    HeadOk (printWord w ++ x) := by
  have hne := printWord_ne_nil _ _ w _ hw.ok hw.nonempty
  obtain ⟨y, t, e, hy, hk⟩ := printWord_head_ok .word .token w _ hw.ok hne
  obtain ⟨hop, hbl⟩ := firstOk_token y hy
  have hnl := (notOp_facts y hop).1
  have hc : y ≠ '#' := by intro e'; apply hw.noComment; simp [e, e']
  exact ⟨y, t ++ x, by simp [e], hnl, hc, hbl, by simpa using hk x⟩

theorem headOk_char (c : Char) (x : List Char)
    (h : c ≠ '\n' ∧ c ≠ '#' ∧ isBlank c = false ∧ c ≠ '\\') : HeadOk (c :: x) :=
  ⟨c, x, rfl, h.1, h.2.1, h.2.2.1, skipLC_cons_ne c x h.2.2.2⟩

theorem headOk_piece (b : Builder) (p : Piece) (next : List Char) (h : PieceOk b p next) (x : List Char) :
    HeadOk (p.print ++ x) := by
  cases p with
  | assign n v =>
    obtain ⟨_, h1, _⟩ := h
    have := headOk_tokWord _ _ h1 x
    rwa [printWord_assignWord] at this
  | word w => exact headOk_tokWord w next h.1 x
  | arrayAssign n ws =>
    obtain ⟨_, h1, _⟩ := h
    have := headOk_tokWord _ _ h1 ('(' :: (printArrayWords ws ++ ')' :: x))
    rw [printWord_assignWord] at this
    simpa [Piece.print, printArrayAssign, printWord] using this
  | redir fd op w =>
    cases fd with
    | none =>
      obtain ⟨c, tl, e, hc⟩ := redirOp_str_head op
      simp only [Piece.print, printRedir, printFd, List.nil_append, e, List.cons_append]
      rcases hc with rfl | rfl <;> exact headOk_char _ _ ⟨by decide, by decide, by decide, by decide⟩
    | some k =>
      obtain ⟨d1, _, d3⟩ := printNat_spec k
      cases hp : printNat k with
      | nil => exact absurd hp d3
      | cons y ys =>
        rw [hp] at d1
        simp only [List.all_cons, Bool.and_eq_true] at d1
        obtain ⟨a1, _, _, a4, _, _, _, a8⟩ := digit_plain y d1.1
        have hbl : isBlank y = false := by
          simp [Delim.test, isTokenDelimiter] at a4
          exact a4.2
        have hnl : y ≠ '\n' := by
          have : NotOpChar y := by
            simp [Delim.test, isTokenDelimiter] at a4
            exact a4.1
          exact (notOp_facts y this).1
        simp only [Piece.print, printRedir, printFd, hp, List.cons_append]
        exact headOk_char _ _ ⟨hnl, a8, hbl, a1⟩

theorem headOk_simple (c : SimpleCommand) (tail : List Char) (h : SimpleOk c tail) :
    HeadOk (printSimple c ++ tail) := by
  obtain ⟨ps, hps, hprint, _, hok⟩ := h
  rw [hprint]
  cases ps with
  | nil => exact absurd rfl hps
  | cons p ps =>
    rw [printPieces_cons]
    exact headOk_piece _ p _ hok.1 _

theorem headOk_kw (k : String) (hk : Kw k) (x : List Char) : HeadOk (k.toList ++ x) := by
  cases hl : k.toList with
  | nil => exact absurd hl hk.ne
  | cons c cs =>
    have := hk.chars c (by simp [hl])
    obtain ⟨a1, _, _, a4, _, _, _, a8⟩ := this
    have hbl : isBlank c = false := by
      simp [Delim.test, isTokenDelimiter] at a4
      exact a4.2
    have hnl : c ≠ '\n' := by
      have : NotOpChar c := by
        simp [Delim.test, isTokenDelimiter] at a4
        exact a4.1
      exact (notOp_facts c this).1
    exact headOk_char _ _ ⟨hnl, a8, hbl, a1⟩


/-! ## Layer 4: `for` -/

/-- the words of `for … in w₁ w₂ …;`, each followed by the rest -/
def ForWordsOk : List Word → List Char → Prop
  | [], _ => True
  | v :: vs, tail => TokWordOk v (printWordsSp vs ++ tail) ∧ ForWordsOk vs tail

theorem nextOk_wordsSp (vs : List Word) (x : List Char) : NextOk (printWordsSp vs ++ ';' :: ' ' :: x) := by
  cases vs with
  | nil =>
    exact ⟨Or.inr ⟨';', ' ' :: x, by simp [printWordsSp], ⟨by decide, by decide⟩⟩, by
      simp [printWordsSp, nextIsAngle, skipLC_cons_ne]⟩
  | cons v vs =>
    exact ⟨Or.inr ⟨' ', printWord v ++ (printWordsSp vs ++ ';' :: ' ' :: x), by simp [printWordsSp],
      ⟨by decide, by decide⟩⟩, by simp [printWordsSp, nextIsAngle, skipLC_cons_ne]⟩

theorem parseForValues_rt (x : List Char) :
    ∀ (vs : List Word) (fuel : Nat), vs.length + 1 ≤ fuel → ForWordsOk vs (';' :: ' ' :: x) →
      parseForValues fuel (printWordsSp vs ++ ';' :: ' ' :: x) = some (vs, ' ' :: x) := by
  intro vs
  induction vs with
  | nil =>
    intro fuel hf _
    obtain ⟨k, rfl⟩ : ∃ k, fuel = k + 1 := ⟨fuel - 1, by simp at hf; omega⟩
    have := lexToken_semi (' ' :: x) (Or.inl ⟨_, rfl⟩)
    simp [printWordsSp, parseForValues, this]
  | cons v vs ih =>
    intro fuel hf h
    obtain ⟨k, rfl⟩ : ∃ k, fuel = k + 1 := ⟨fuel - 1, by simp at hf; omega⟩
    obtain ⟨hv, hvs⟩ := h
    have ht := lexToken_word v _ hv (nextOk_wordsSp vs x) true
    have ih' := ih k (by simp at hf; omega) hvs
    simp only [if_true, List.singleton_append] at ht
    simp only [printWordsSp, List.cons_append, List.append_assoc, parseForValues, ht, ih', Option.map_some]

theorem wordsSp_length (vs : List Word) (tail : List Char) : vs.length ≤ (printWordsSp vs ++ tail).length := by
  induction vs with
  | nil => simp
  | cons v vs ih =>
    simp only [printWordsSp, List.cons_append, List.length_cons, List.length_append] at ih ⊢; omega

/-- `for name [in words;] do list; done` -/
theorem for_rt (pc : CmdParser) (name : Word) (values : Option (List Word)) (b : List Item) (hb : b ≠ [])
    (t : List Char) (hn : NextOk t)
    (hname : TokWordOk name ((match values with
      | some vs => ' ' :: ("in".toList ++ (printWordsSp vs ++ [';']))
      | none => []) ++ (' ' :: ("do".toList ++ ' ' :: (printList true b ++ ' ' :: ("done".toList ++ t))))))
    (hvals : ∀ vs, values = some vs →
      ForWordsOk vs (';' :: ' ' :: ("do".toList ++ ' ' :: (printList true b ++ ' ' :: ("done".toList ++ t)))))
    (h2 : ListRT pc true b (' ' :: ("done".toList ++ t))) (sp : Bool) :
    parseCompound pc ((if sp then [' '] else []) ++ (printCompound (.forLoop name values b) ++ t)) =
      some (some (.forLoop name values b), t) := by
  obtain ⟨D, hD⟩ : ∃ D, D = "do".toList ++ ' ' :: (printList true b ++ ' ' :: ("done".toList ++ t)) := ⟨_, rfl⟩
  rw [← hD] at hname hvals
  have hd : parseDoClause pc (' ' :: D) = some (some b, t) := by
    rw [hD]; exact doClause_rt pc b hb t hn h2
  have hsn : ∀ f, skipNewlines f (' ' :: D) = ' ' :: D := fun f => by
    have := skipNewlines_head D (by rw [hD]; exact headOk_kw "do" kw_do _) true f
    simpa using this
  have hdo : lexToken (' ' :: D) = some (⟨digitsWord "do".toList, .word true⟩,
      ' ' :: (printList true b ++ ' ' :: ("done".toList ++ t))) := by
    have := lexToken_kw_exact "do" kw_do (' ' :: (printList true b ++ ' ' :: ("done".toList ++ t)))
      (nextOk_blank _) true
    rw [hD]
    simpa using this
  cases values with
  | none =>
    have hin : printCompound (.forLoop name none b) ++ t = "for".toList ++ ' ' :: (printWord name ++ ' ' :: D) := by
      simp [printCompound, str, hD]
    simp only [List.nil_append] at hname
    obtain ⟨tk, ht, hkw, _, hop⟩ := lexToken_kw' "for" kw_for (' ' :: (printWord name ++ ' ' :: D))
      (nextOk_blank _) sp
    have k1 : tk.isKw "{" = false := by rw [hkw]; decide
    have k2 : tk.isKw "for" = true := by rw [hkw]; decide
    have hnm := lexToken_word name (' ' :: D) hname (nextOk_blank _) true
    simp only [if_true, List.singleton_append] at hnm
    have hfi : ∀ f, parseForIn (f + 1) true (' ' :: D) = some (none, ' ' :: D) := by
      intro f
      simp only [parseForIn, hdo]
      simp [Token.isOp, Token.isKw, wordLiteral_digitsWord]
    rw [hin]
    simp only [parseCompound, ht, k1, k2, hop, Bool.false_eq_true, if_false, if_true, hnm, Token.isWord,
      Bool.true_or, Bool.not_true, hfi, hsn, hd]
  | some vs =>
    have hin : printCompound (.forLoop name (some vs) b) ++ t =
        "for".toList ++ ' ' :: (printWord name ++ (' ' :: ("in".toList ++ (printWordsSp vs ++ ';' :: ' ' :: D)))) := by
      simp [printCompound, str, hD]
    have hname' : TokWordOk name (' ' :: ("in".toList ++ (printWordsSp vs ++ ';' :: ' ' :: D))) := by
      simpa using hname
    obtain ⟨tk, ht, hkw, _, hop⟩ := lexToken_kw' "for" kw_for
      (' ' :: (printWord name ++ (' ' :: ("in".toList ++ (printWordsSp vs ++ ';' :: ' ' :: D))))) (nextOk_blank _) sp
    have k1 : tk.isKw "{" = false := by rw [hkw]; decide
    have k2 : tk.isKw "for" = true := by rw [hkw]; decide
    have hnm := lexToken_word name _ hname' (nextOk_blank _) true
    simp only [if_true, List.singleton_append] at hnm
    have hinT := lexToken_kw_exact "in" kw_in (printWordsSp vs ++ ';' :: ' ' :: D) (nextOk_wordsSp vs D) true
    simp only [if_true, List.singleton_append] at hinT
    have hv := fun f' hf' => parseForValues_rt D vs f' hf' (hvals vs rfl)
    have e1 : (Token.mk (digitsWord "in".toList) (.word true)).isOp .semicolon = false := rfl
    have e2 : (Token.mk (digitsWord "in".toList) (.word true)).isKw "do" = false := by decide
    have e3 : (Token.mk (digitsWord "in".toList) (.word true)).isOp .newline = false := rfl
    have e4 : (Token.mk (digitsWord "in".toList) (.word true)).isKw "in" = true := by decide
    have hfi : ∀ f, parseForIn (f + 1) true (' ' :: ("in".toList ++ (printWordsSp vs ++ ';' :: ' ' :: D))) =
        some (some vs, ' ' :: D) := by
      intro f
      simp only [parseForIn, hinT, e1, e2, e3, e4, Bool.false_and, Bool.false_eq_true, if_false, if_true]
      rw [hv _ (by have := wordsSp_length vs (';' :: ' ' :: D); omega)]
      rfl
    rw [hin]
    simp only [parseCompound, ht, k1, k2, hop, Bool.false_eq_true, if_false, if_true, hnm, Token.isWord,
      Bool.true_or, Bool.not_true, hfi, hsn, hd]


/-! ## Function definitions -/


/-- the simple-command loop stops at `(` -/
theorem stopTail_paren (x : List Char) : StopTail ('(' :: x) := by
  have hl : lexToken ('(' :: x) = some (⟨[], .op .openParen⟩, x) := by
    simpa using lexToken_lparen x false
  refine ⟨⟨Or.inr ⟨'(', x, rfl, ⟨by decide, by decide⟩⟩, by simp [nextIsAngle, skipLC_cons_ne]⟩, ?_⟩
  intro b fuel
  have hr : parseRedir ('(' :: x) = some (none, '(' :: x) := by
    unfold parseRedir
    rw [hl]
    simp only []
    unfold parseRedirBody
    rw [hl]
    simp [redirOpOf]
  simp [parseSimpleLoop, hr, hl]

/-- a function name: one plain word that is neither an assignment nor a reserved word -/
structure FnNameOk (name : Word) (next : List Char) : Prop where
  tok : TokWordOk name next
  noAssign : assignOf name = none
  noKw : isKeywordWord name = false
  noDollar : endsWithDollar name = false

theorem simpleOk_name (name : Word) (next : List Char) (h : FnNameOk name next) :
    SimpleOk ⟨[], [name], []⟩ next := by
  have hmk : (⟨[], [name], []⟩ : SimpleCommand) = mkSimple [] [name] [] := by simp [mkSimple]
  rw [hmk]
  refine simpleOk_of_mk [] [name] [] next (Or.inr (Or.inl (by simp))) ?_
  have hfk : firstWordIsKeyword (mkSimple [] [name] []) = false := by
    have := h.noKw
    simp only [isKeywordWord] at this
    simp only [firstWordIsKeyword, mkSimple]
    cases hw : wordLiteral name with
    | none => rfl
    | some s => simpa [hw] using this
  have hp : simplePieces [] [name] [] = [.word name] := by
    simp [simplePieces, hfk, assignPieces, redirPieces, wordPieces]
  rw [hp]
  simp only [PiecesOk, PieceOk, and_true]
  exact ⟨h.tok, fun _ => ⟨h.noAssign, fun e => by simp [h.noKw] at e⟩, fun e => by simp at e⟩

/-- `name() compound [redirections]` at command level -/
theorem parseCommand_function (n : Nat) (name : Word) (body : CompoundCommand) (rs : List Redir)
    (tail : List Char) (ht : TailOk tail) (hrs : RedirsOk rs tail)
    (hname : FnNameOk name ('(' :: ')' :: ' ' :: (printCompound body ++ (printRedirsSp rs ++ tail))))
    (hhead : HeadOk (printCompound body ++ (printRedirsSp rs ++ tail)))
    (hc : parseCompound (parseCommand n) (' ' :: (printCompound body ++ (printRedirsSp rs ++ tail))) =
      some (some body, printRedirsSp rs ++ tail)) (sp : Bool) :
    parseCommand (n + 1) ((if sp then [' '] else []) ++ (printCommand (.function false name body rs) ++ tail)) =
      some (some (.function false name body rs), tail) := by
  obtain ⟨X, hX⟩ : ∃ X, X = printCompound body ++ (printRedirsSp rs ++ tail) := ⟨_, rfl⟩
  rw [← hX] at hname hhead hc
  have hin : printCommand (.function false name body rs) ++ tail =
      printSimple ⟨[], [name], []⟩ ++ '(' :: ')' :: ' ' :: X := by
    have e1 : printSimple ⟨[], [name], []⟩ = printWord name := by
      simp [printSimple, joinWith]
    rw [e1, hX]
    simp [printCommand, hname.noDollar, str]
  have hs := parseSimple_stop ⟨[], [name], []⟩ _ (stopTail_paren (')' :: ' ' :: X)) (simpleOk_name name _ hname) sp
  have hlp : lexToken ('(' :: ')' :: ' ' :: X) = some (⟨[], .op .openParen⟩, ')' :: ' ' :: X) := by
    simpa using lexToken_lparen (')' :: ' ' :: X) false
  have hrp := lexToken_rparen (' ' :: X)
  have hsn : ∀ f, skipNewlines f (' ' :: X) = ' ' :: X := fun f => by
    simpa using skipNewlines_head X hhead true f
  have hr := parseRedirs_rt tail ht rs ((printRedirsSp rs ++ tail).length + 2)
    (by have := redirsSp_length rs tail; omega) hrs
  rw [hin]
  simp only [parseCommand]
  rw [hs _ (by simp only [List.length_append]; omega)]
  simp only [List.isEmpty_nil, List.length_singleton, hlp, Token.isOp, expectOp]
  simp only [decide_true, Bool.and_self, if_true, hrp, hsn, parseFullCompound, hc, hr, Option.map_some,
    List.headD_cons]


/-! ## Layer 4: `case` -/

/-- `Operator::from(CaseContinuation)` -/
def contOp : CaseCont → Op
  | .break_ => .semicolonSemicolon
  | .fallThrough => .semicolonAnd
  | .continue_ => .semicolonBar

theorem caseContOf_contOp (k : CaseCont) : caseContOf (contOp k) = some k := by cases k <;> rfl

/-- the terminator of a case item, printed before a blank, is read as that operator -/
theorem lexToken_cont (k : CaseCont) (x : List Char) (sp : Bool) :
    lexToken ((if sp then [' '] else []) ++ (k.str ++ ' ' :: x)) = some (⟨[], .op (contOp k)⟩, ' ' :: x) := by
  have hk := fun r => skipLC_cons_ne ';' r (by decide)
  have key : ∀ c2 : Char, ∀ o : Op, lexOperator (';' :: c2 :: ' ' :: x) = some (o, ' ' :: x) →
      lexToken ((if sp then [' '] else []) ++ (';' :: c2 :: ' ' :: x)) = some (⟨[], .op o⟩, ' ' :: x) := by
    intro c2 o ho
    have hsb : skipBlanks ((if sp then [' '] else []) ++ ';' :: c2 :: ' ' :: x).length
        ((if sp then [' '] else []) ++ ';' :: c2 :: ' ' :: x) = ';' :: c2 :: ' ' :: x := by
      cases sp with
      | false => simpa using skipBlanks_stop ';' _ (hk _) (by decide) _
      | true =>
        have := skipBlanks_pre true ';' (c2 :: ' ' :: x) (hk _) (by decide)
          (([' '] ++ ';' :: c2 :: ' ' :: x).length) (by simp)
        simpa using this
    unfold lexToken
    simp only []
    rw [hsb, skipComment_id ';' _ (hk _) (by decide), ho]
  cases k with
  | break_ => exact key ';' .semicolonSemicolon (by simp [lexOperator, opTail, skipLC_cons_ne, List.lookup])
  | fallThrough => exact key '&' .semicolonAnd (by simp [lexOperator, opTail, skipLC_cons_ne, List.lookup])
  | continue_ => exact key '|' .semicolonBar (by simp [lexOperator, opTail, skipLC_cons_ne, List.lookup])

/-- the patterns of a case item joined by ` | `, followed by `tail` -/
def patsText : List Word → List Char → List Char
  | [], tail => tail
  | [p], tail => printWord p ++ tail
  | p :: q :: r, tail => printWord p ++ ' ' :: '|' :: ' ' :: patsText (q :: r) tail

theorem joinWith_pats (ps : List Word) (tail : List Char) :
    joinWith (str " | ") (ps.map printWord) ++ tail = patsText ps tail := by
  induction ps with
  | nil => simp [joinWith, patsText]
  | cons p ps ih =>
    cases ps with
    | nil => simp [joinWith, patsText]
    | cons q r =>
      simp only [List.map_cons, joinWith, patsText, List.append_assoc] at ih ⊢
      rw [ih]
      simp [str]

/-- each pattern is a token word in front of what follows it -/
def PatsOk : List Word → List Char → Prop
  | [], _ => False
  | [p], tail => TokWordOk p tail
  | p :: q :: r, tail => TokWordOk p (' ' :: '|' :: ' ' :: patsText (q :: r) tail) ∧ PatsOk (q :: r) tail

/-- the text after the first pattern -/
def patsRest : List Word → List Char → List Char
  | [], tail => tail
  | q :: r, tail => ' ' :: '|' :: ' ' :: patsText (q :: r) tail

theorem patsText_cons (p : Word) (ps : List Word) (tail : List Char) :
    patsText (p :: ps) tail = printWord p ++ patsRest ps tail := by
  cases ps <;> simp [patsText, patsRest]

theorem nextOk_rparen_blank (x : List Char) : NextOk (')' :: ' ' :: x) :=
  ⟨Or.inr ⟨')', ' ' :: x, rfl, ⟨by decide, by decide⟩⟩, by simp [nextIsAngle, skipLC_cons_ne]⟩

theorem nextOk_patsRest (ps : List Word) (x : List Char) : NextOk (patsRest ps (')' :: ' ' :: x)) := by
  cases ps with
  | nil => exact nextOk_rparen_blank x
  | cons q r => exact nextOk_blank _

theorem patsOk_first (p : Word) (ps : List Word) (tail : List Char) (h : PatsOk (p :: ps) tail) :
    TokWordOk p (patsRest ps tail) ∧ (ps ≠ [] → PatsOk ps tail) := by
  cases ps with
  | nil => exact ⟨h, fun e => absurd rfl e⟩
  | cons q r => exact ⟨h.1, fun _ => h.2⟩

theorem parsePatterns_rt (x : List Char) :
    ∀ (ps : List Word) (fuel : Nat), ps.length + 1 ≤ fuel → (ps ≠ [] → PatsOk ps (')' :: ' ' :: x)) →
      parsePatterns fuel (patsRest ps (')' :: ' ' :: x)) = some (ps, ' ' :: x) := by
  intro ps
  induction ps with
  | nil =>
    intro fuel hf _
    obtain ⟨k, rfl⟩ : ∃ k, fuel = k + 1 := ⟨fuel - 1, by simp at hf; omega⟩
    simp [patsRest, parsePatterns, lexToken_rparen, Token.isOp]
  | cons q r ih =>
    intro fuel hf h
    obtain ⟨k, rfl⟩ : ∃ k, fuel = k + 1 := ⟨fuel - 1, by simp at hf; omega⟩
    obtain ⟨hq, hr⟩ := patsOk_first q r _ (h (by simp))
    have ht := lexToken_word q _ hq (nextOk_patsRest r x) true
    simp only [if_true, List.singleton_append] at ht
    have ih' := ih k (by simp at hf; omega) hr
    have e : patsRest (q :: r) (')' :: ' ' :: x) =
        ' ' :: '|' :: ' ' :: (printWord q ++ patsRest r (')' :: ' ' :: x)) := by
      rw [patsRest, patsText_cons]
    rw [e]
    simp only [parsePatterns, lexToken_bar, Token.isOp]
    simp [ht, Token.isWord, ih']


/-- the text of the case items, followed by `after` (= `esac` and what follows) -/
def caseText : List CaseItem → List Char → List Char
  | [], after => after
  | .mk ps b k :: rest, after =>
    '(' :: patsText ps (')' :: ' ' :: (printList false b ++ (k.str ++ ' ' :: caseText rest after)))

theorem printCaseItems_eq (items : List CaseItem) (after : List Char) :
    printCaseItems items ++ after = caseText items after := by
  induction items with
  | nil => simp [printCaseItems, caseText]
  | cons i items ih =>
    obtain ⟨ps, b, k⟩ := i
    simp only [printCaseItems, caseText, List.cons_append, List.append_assoc]
    rw [joinWith_pats]
    simp [str, ih]

/-- every item reads back in its place: its patterns are token words, and its body (possibly empty) is read
    by `maybe_compound_list` up to the terminator -/
def CaseItemsRT (pc : CmdParser) : List CaseItem → List Char → Prop
  | [], _ => True
  | .mk ps b k :: rest, after =>
    PatsOk ps (')' :: ' ' :: (printList false b ++ (k.str ++ ' ' :: caseText rest after))) ∧
    (∃ R, (∀ fuel, 1 ≤ fuel → parseCompoundList pc fuel
        (' ' :: (printList false b ++ (k.str ++ ' ' :: caseText rest after))) = some (b, R)) ∧
      lexToken R = some (⟨[], .op (contOp k)⟩, ' ' :: caseText rest after)) ∧
    CaseItemsRT pc rest after

theorem headOk_caseText (items : List CaseItem) (t : List Char) :
    HeadOk (caseText items ("esac".toList ++ t)) := by
  cases items with
  | nil => exact headOk_kw "esac" kw_esac t
  | cons i items =>
    obtain ⟨ps, b, k⟩ := i
    exact headOk_char _ _ ⟨by decide, by decide, by decide, by decide⟩

theorem caseText_length (items : List CaseItem) (after : List Char) :
    items.length ≤ (caseText items after).length := by
  induction items with
  | nil => simp
  | cons i items ih =>
    obtain ⟨ps, b, k⟩ := i
    have : ∀ (ps : List Word) (tl : List Char), tl.length ≤ (patsText ps tl).length := by
      intro ps
      induction ps with
      | nil => intro tl; simp [patsText]
      | cons p ps ihp =>
        intro tl
        rw [patsText_cons]
        cases ps with
        | nil => simp [patsRest]
        | cons q r =>
          have := ihp tl
          simp only [patsRest, List.length_append, List.length_cons]
          omega
    have h1 := this ps (')' :: ' ' :: (printList false b ++ (k.str ++ ' ' :: caseText items after)))
    simp only [caseText, List.length_cons, List.length_append] at h1 ⊢
    omega

theorem parseCaseItems_rt (pc : CmdParser) (t : List Char) (hn : NextOk t) :
    ∀ (items : List CaseItem) (fuel : Nat), items.length + 1 ≤ fuel →
      CaseItemsRT pc items ("esac".toList ++ t) →
      parseCaseItems pc fuel (' ' :: caseText items ("esac".toList ++ t)) =
        some (items, ' ' :: ("esac".toList ++ t)) := by
  intro items
  induction items with
  | nil =>
    intro fuel hf _
    obtain ⟨k, rfl⟩ : ∃ k, fuel = k + 1 := ⟨fuel - 1, by simp at hf; omega⟩
    have hsn : ∀ f, skipNewlines f (' ' :: ("esac".toList ++ t)) = ' ' :: ("esac".toList ++ t) := fun f => by
      simpa using skipNewlines_head _ (headOk_kw "esac" kw_esac t) true f
    have hl := lexToken_kw_exact "esac" kw_esac t hn true
    simp only [if_true, List.singleton_append] at hl
    have e : (Token.mk (digitsWord "esac".toList) (.word true)).isKw "esac" = true := by decide
    simp only [caseText, parseCaseItems, hsn, hl, e, if_true]
  | cons i items ih =>
    intro fuel hf h
    obtain ⟨k, rfl⟩ : ∃ k, fuel = k + 1 := ⟨fuel - 1, by simp at hf; omega⟩
    obtain ⟨ps, b, kk⟩ := i
    obtain ⟨hps, ⟨R, hbody, hcont⟩, hrest⟩ := h
    have ih' := ih k (by simp at hf; omega) hrest
    obtain ⟨A, hA⟩ : ∃ A, A = "esac".toList ++ t := ⟨_, rfl⟩
    rw [← hA] at hps hbody hcont hrest ih' ⊢
    cases ps with
    | nil => exact absurd hps (by simp [PatsOk])
    | cons p ps =>
      obtain ⟨BT, hBT⟩ : ∃ BT, BT = printList false b ++ (kk.str ++ ' ' :: caseText items A) := ⟨_, rfl⟩
      rw [← hBT] at hps hbody
      obtain ⟨hp, hpr⟩ := patsOk_first p ps _ hps
      have e0 : caseText (.mk (p :: ps) b kk :: items) A =
          '(' :: (printWord p ++ patsRest ps (')' :: ' ' :: BT)) := by
        simp only [caseText, patsText_cons, hBT]
      have hsn : ∀ f, skipNewlines f (' ' :: '(' :: (printWord p ++ patsRest ps (')' :: ' ' :: BT))) =
          ' ' :: '(' :: (printWord p ++ patsRest ps (')' :: ' ' :: BT)) := fun f => by
        simpa using skipNewlines_head _
          (headOk_char '(' (printWord p ++ patsRest ps (')' :: ' ' :: BT))
            ⟨by decide, by decide, by decide, by decide⟩) true f
      have hlp : lexToken (' ' :: '(' :: (printWord p ++ patsRest ps (')' :: ' ' :: BT))) =
          some (⟨[], .op .openParen⟩, printWord p ++ patsRest ps (')' :: ' ' :: BT)) := by
        simpa using lexToken_lparen (printWord p ++ patsRest ps (')' :: ' ' :: BT)) true
      have hpt := lexToken_word p _ hp (nextOk_patsRest ps BT) false
      simp only [Bool.false_eq_true, if_false, List.nil_append] at hpt
      have hpp := parsePatterns_rt BT ps ((patsRest ps (')' :: ' ' :: BT)).length + 2) (by
        have : ps.length ≤ (patsRest ps (')' :: ' ' :: BT)).length := by
          cases ps with
          | nil => simp
          | cons q r =>
            have : ∀ (qs : List Word) (tl : List Char), qs.length ≤ (patsText qs tl).length + 1 := by
              intro qs
              induction qs with
              | nil => intro tl; simp
              | cons a as iha =>
                intro tl
                rw [patsText_cons]
                cases as with
                | nil => simp [patsRest]
                | cons c d =>
                  have := iha tl
                  simp only [patsRest, List.length_append, List.length_cons] at this ⊢
                  omega
            have := this (q :: r) (')' :: ' ' :: BT)
            simp only [patsRest, List.length_cons] at this ⊢
            omega
        omega) hpr
      rw [e0]
      simp only [parseCaseItems, hsn, hlp]
      simp only [Token.isKw, Token.isWord, Token.isOp, Bool.false_and, Bool.false_eq_true, if_false,
        decide_true, if_true, hpt]
      simp only [hpp]
      rw [hbody _ (one_le_add_two _)]
      simp only [hcont, caseContOf_contOp, ih', Option.map_some]
      simp

/-- `case word in (p | q) list;; … esac` -/
theorem case_rt (pc : CmdParser) (subject : Word) (items : List CaseItem) (t : List Char) (hn : NextOk t)
    (hs : TokWordOk subject (' ' :: ("in".toList ++ ' ' :: caseText items ("esac".toList ++ t))))
    (h : CaseItemsRT pc items ("esac".toList ++ t)) (sp : Bool) :
    parseCompound pc ((if sp then [' '] else []) ++ (printCompound (.caseCmd subject items) ++ t)) =
      some (some (.caseCmd subject items), t) := by
  obtain ⟨C, hC⟩ : ∃ C, C = caseText items ("esac".toList ++ t) := ⟨_, rfl⟩
  rw [← hC] at hs
  have hin : printCompound (.caseCmd subject items) ++ t =
      "case".toList ++ ' ' :: (printWord subject ++ (' ' :: ("in".toList ++ ' ' :: C))) := by
    simp [printCompound, str, hC, ← printCaseItems_eq]
  obtain ⟨tk, ht, hkw, _, hop⟩ := lexToken_kw' "case" kw_case
    (' ' :: (printWord subject ++ (' ' :: ("in".toList ++ ' ' :: C)))) (nextOk_blank _) sp
  have k1 : tk.isKw "{" = false := by rw [hkw]; decide
  have k2 : tk.isKw "for" = false := by rw [hkw]; decide
  have k3 : tk.isKw "while" = false := by rw [hkw]; decide
  have k4 : tk.isKw "until" = false := by rw [hkw]; decide
  have k5 : tk.isKw "if" = false := by rw [hkw]; decide
  have k6 : tk.isKw "case" = true := by rw [hkw]; decide
  have hsub := lexToken_word subject _ hs (nextOk_blank _) true
  simp only [if_true, List.singleton_append] at hsub
  have hsn : ∀ f, skipNewlines f (' ' :: ("in".toList ++ ' ' :: C)) = ' ' :: ("in".toList ++ ' ' :: C) :=
    fun f => by simpa using skipNewlines_head _ (headOk_kw "in" kw_in (' ' :: C)) true f
  have hinT := lexToken_kw_exact "in" kw_in (' ' :: C) (nextOk_blank _) true
  simp only [if_true, List.singleton_append] at hinT
  have e1 : (Token.mk (digitsWord "in".toList) (.word true)).isKw "in" = true := by decide
  have hci : ∀ f, parseCaseIn (f + 1) (' ' :: ("in".toList ++ ' ' :: C)) = some (' ' :: C) := by
    intro f
    simp only [parseCaseIn, hsn, hinT, e1, if_true]
  have hitems := parseCaseItems_rt pc t hn items ((' ' :: C).length + 2) (by
    have := caseText_length items ("esac".toList ++ t)
    rw [hC]; simp only [List.length_cons]; omega) h
  rw [← hC] at hitems
  have hes := expectKw_kw "esac" kw_esac.chars kw_esac.ne kw_esac.kw t hn true
  simp only [if_true, List.singleton_append] at hes
  rw [hin]
  simp only [parseCompound, ht, k1, k2, k3, k4, k5, k6, hop, Bool.false_eq_true, if_false, Bool.or_self,
    if_true, hsub, Token.isWord, Bool.not_true, hci, hitems, hes, Option.map_some]

end YashModel.Syntax
