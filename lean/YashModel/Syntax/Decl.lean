/-
  C06 — Impl model, part 5: declaration utilities in `Parser::simple_command` (`simple_command.rs`).

  `is_declaration_utility: Option<bool>` starts as `None`; a redirection or an assignment never touches it;
  the first word that is not an assignment sets it to `word_names_declaration_utility(word)` (`None` for
  `command`: the next word decides); once it is `Some(d)`, every further word gets
  `determine_expansion_mode` when `d` (mode `Single` for a `name=value` word, whose value then receives
  tilde expansions after `=` and `:`) and mode `Multiple` otherwise.  The glossary of `List::from_str` is
  `PosixGlossary` (re-extracted into `Generated/SyntaxTables.lean`).
-/
import YashModel.Generated.SyntaxTables
import YashModel.Syntax.Parser
namespace YashModel.Syntax
open YashModel.Generated

abbrev Glossary := List Char → Option Bool

/-- `PosixGlossary::is_declaration_utility`, read from the generated table -/
def posixGlossary : Glossary := fun s =>
  let ans := ((SyntaxTables.posixGlossary.find? fun p => p.1.toList == s).map (·.2)).getD
    SyntaxTables.posixGlossaryDefault
  if ans == "true" then some true else if ans == "false" then some false else none

/-- `Parser::word_names_declaration_utility` -/
def wordNamesDeclUtil (g : Glossary) (w : Word) : Option Bool :=
  match wordLiteral w with
  | some s => g s
  | none => some false

/-- `determine_expansion_mode(word).1 == Single`: an unquoted `=` after a non-empty literal name -/
def isAssignForm (w : Word) : Bool := (assignOf w).isSome

/-- what the loop of `simple_command` sees, as far as the declaration-utility decision is concerned -/
inductive SItem
  | word (w : Word)
  | redir                       -- `if let Some(redir) = self.redirection() { …; continue }`
  | assign                      -- a token taken as an assignment while `words` is empty

/-- the loop of `simple_command` with its `is_declaration_utility` state: the expansion mode
    (`true` = `Single`) of every word, in order -/
def declLoop (g : Glossary) : Option Bool → List SItem → List Bool
  | _, [] => []
  | st, .redir :: is => declLoop g st is
  | st, .assign :: is => declLoop g st is
  | some d, .word w :: is => (d && isAssignForm w) :: declLoop g (some d) is
  | none, .word w :: is => false :: declLoop g (wordNamesDeclUtil g w) is

/-- the same on the words alone -/
def wordModes (g : Glossary) : Option Bool → List Word → List Bool
  | _, [] => []
  | some d, w :: ws => (d && isAssignForm w) :: wordModes g (some d) ws
  | none, w :: ws => false :: wordModes g (wordNamesDeclUtil g w) ws

def SItem.word? : SItem → Option Word
  | .word w => some w
  | _ => none

end YashModel.Syntax
