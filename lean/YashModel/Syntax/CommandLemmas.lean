/-
  C06 — helper lemmas for the word tokens of a simple command.
-/
import YashModel.Syntax.WordLemmas
namespace YashModel.Syntax

theorem word_self_delimiting_aux (w : Word) (h : ∀ u ∈ w, u.Flat .token) (c : Char)
    (hc : Delim.token.Ends c) (rest : List Char) :
    lexWord .token (printWord w ++ c :: rest) = some (w, c :: rest) := by
  unfold lexWord
  apply lexWordUnits_flat .token (by decide) w h c hc rest
  simp only [List.length_append, List.length_cons]
  omega

/-- `printWord w` joined by single blanks, as `impl Display for SimpleCommand` does for the words -/
def printWords (ws : List Word) : List Char := joinWith [' '] (ws.map printWord)

/-- a word of the flat fragment that is a non-empty plain token (no tilde expansion in front) -/
def Word.FlatArg (w : Word) : Prop :=
  (∀ u ∈ w, u.Flat .token) ∧ w ≠ [] ∧ w.head? ≠ some (.unquoted (.literal '~'))

theorem parseTildeFront_id (w : Word) (h : w.head? ≠ some (.unquoted (.literal '~'))) :
    parseTildeFront w = w := by
  unfold parseTildeFront
  split
  · simp at h
  · rfl

theorem skipBlanks_nonblank (c : Char) (rest : List Char) (h1 : c ≠ '\\') (h2 : isBlank c = false) :
    ∀ fuel, skipBlanks fuel (c :: rest) = c :: rest := by
  intro fuel
  cases fuel with
  | zero => rfl
  | succ n => simp [skipBlanks, skipLC_cons_ne c _ h1, h2]

theorem skipBlanks_space (c : Char) (rest : List Char) (h1 : c ≠ '\\') (h2 : isBlank c = false) :
    ∀ fuel, 1 ≤ fuel → skipBlanks fuel (' ' :: c :: rest) = c :: rest := by
  intro fuel hf
  obtain ⟨n, rfl⟩ : ∃ n, fuel = n + 1 := ⟨fuel - 1, by omega⟩
  have hb : isBlank ' ' = true := by decide
  simp [skipBlanks, skipLC_cons_ne ' ' _ (by decide), hb, skipBlanks_nonblank c rest h1 h2]


theorem isBlank_of_not_delim (c : Char) (h : Delim.token.test c = false) : isBlank c = false := by
  simp [Delim.test, isTokenDelimiter] at h
  exact h.2

/-- the printed form of an argument word starts with a character that is not a blank and does not
    begin a line continuation -/
theorem printWord_head (w : Word) (h : w.FlatArg) :
    ∃ c t, printWord w = c :: t ∧ isBlank c = false ∧ ∀ X, skipLC (c :: t ++ X) = c :: t ++ X := by
  obtain ⟨hf, hne, _⟩ := h
  cases w with
  | nil => exact absurd rfl hne
  | cons u us =>
    have hu := hf u (by simp)
    cases u with
    | unquoted t =>
      cases t with
      | literal c =>
        obtain ⟨hs, hd⟩ := hu
        simp [isWordSpecial] at hs
        refine ⟨c, printWord us, by simp [printWord, printWordUnit, printTextUnit],
          isBlank_of_not_delim c hd, fun X => ?_⟩
        exact skipLC_cons_ne c _ hs.1.1.1.1
      | backslashed c =>
        have hc : c ≠ '\n' := hu
        refine ⟨'\\', c :: printWord us, by simp [printWord, printWordUnit, printTextUnit],
          by decide, fun X => ?_⟩
        exact skipLC_bs_ne c _ hc
      | _ => exact absurd hu (by simp [WordUnit.Flat])
    | singleQuote s =>
      exact ⟨'\'', _, by simp [printWord, printWordUnit]; rfl, by decide,
        fun X => skipLC_cons_ne _ _ (by decide)⟩
    | dollarSingleQuote es =>
      exact ⟨'$', _, by simp [printWord, printWordUnit]; rfl, by decide,
        fun X => skipLC_cons_ne _ _ (by decide)⟩
    | _ => exact absurd hu (by simp [WordUnit.Flat])

theorem skipBlanks_stop (c : Char) (t : List Char) (h1 : skipLC (c :: t) = c :: t)
    (h2 : isBlank c = false) : ∀ fuel, skipBlanks fuel (c :: t) = c :: t := by
  intro fuel
  cases fuel with
  | zero => rfl
  | succ n => simp [skipBlanks, h1, h2]

theorem skipBlanks_pre (sp : Bool) (c : Char) (t : List Char) (h1 : skipLC (c :: t) = c :: t)
    (h2 : isBlank c = false) :
    ∀ fuel, 2 ≤ fuel → skipBlanks fuel ((if sp then [' '] else []) ++ c :: t) = c :: t := by
  intro fuel hf
  cases sp with
  | false => simpa using skipBlanks_stop c t h1 h2 fuel
  | true =>
    obtain ⟨n, rfl⟩ : ∃ n, fuel = n + 1 := ⟨fuel - 1, by omega⟩
    have hb : isBlank ' ' = true := by decide
    simp [skipBlanks, skipLC_cons_ne ' ' _ (by decide), hb, skipBlanks_stop c t h1 h2]

theorem printWords_cons (w : Word) (ws : List Word) :
    printWords (w :: ws) = printWord w ++ ((if ws.isEmpty then [] else [' ']) ++ printWords ws) := by
  cases ws with
  | nil => simp [printWords, joinWith]
  | cons v vs => simp [printWords, joinWith]

theorem lexWords_print (c : Char) (hc : Delim.token.Ends c) (hb : isBlank c = false)
    (rest : List Char) (ws : List Word) (h : ∀ w ∈ ws, w.FlatArg) :
    ∀ (sp : Bool) fuel, ws.length + 1 ≤ fuel →
      lexWords fuel ((if sp then [' '] else []) ++ (printWords ws ++ c :: rest)) = some (ws, c :: rest) := by
  have hcs : c ≠ '\\' := by
    have := hc.2
    simp [isWordSpecial] at this
    exact this.1.1.1.1
  have hsk : skipLC (c :: rest) = c :: rest := skipLC_cons_ne c rest hcs
  induction ws with
  | nil =>
    intro sp fuel hf
    obtain ⟨n, rfl⟩ : ∃ n, fuel = n + 1 := ⟨fuel - 1, by omega⟩
    have hw := word_self_delimiting_aux [] (by simp) c hc rest
    simp only [printWord, List.nil_append] at hw
    simp only [lexWords]
    cases sp with
    | false =>
      simp only [Bool.false_eq_true, if_false, List.nil_append, printWords, List.map_nil, joinWith]
      rw [skipBlanks_stop c rest hsk hb, hw]
    | true =>
      simp only [if_true, printWords, List.map_nil, joinWith, List.nil_append]
      have := skipBlanks_pre true c rest hsk hb ([' '] ++ c :: rest).length (by simp)
      simp only [if_true] at this
      rw [this, hw]
  | cons w ws ih =>
    intro sp fuel hf
    obtain ⟨n, rfl⟩ : ∃ n, fuel = n + 1 := ⟨fuel - 1, by omega⟩
    have hwf := h w (by simp)
    obtain ⟨c0, t0, e0, hb0, hs0⟩ := printWord_head w hwf
    have ih' := ih (fun v hv => h v (by simp [hv])) (!ws.isEmpty) n (by simp at hf; omega)
    -- the character that follows the printed word
    have hnext : ∃ c1 r1, ((if ws.isEmpty then [] else [' ']) ++ printWords ws) ++ c :: rest = c1 :: r1 ∧
        Delim.token.Ends c1 := by
      cases hws : ws.isEmpty with
      | true =>
        have : ws = [] := by simpa using hws
        subst this
        exact ⟨c, rest, by simp [printWords, joinWith], hc⟩
      | false => exact ⟨' ', printWords ws ++ c :: rest, by simp, ⟨by decide, by decide⟩⟩
    obtain ⟨c1, r1, e1, hc1⟩ := hnext
    have hw := word_self_delimiting_aux w hwf.1 c1 hc1 r1
    obtain ⟨u, us, ew⟩ : ∃ u us, w = u :: us := by
      cases w with
      | nil => exact absurd rfl hwf.2.1
      | cons u us => exact ⟨u, us, rfl⟩
    have htl := parseTildeFront_id w hwf.2.2
    rw [printWords_cons]
    have hin : (if sp then [' '] else []) ++
        (printWord w ++ ((if ws.isEmpty then [] else [' ']) ++ printWords ws) ++ c :: rest) =
        (if sp then [' '] else []) ++ c0 :: (t0 ++ c1 :: r1) := by
      rw [List.append_assoc, e1, e0]; simp
    have hlen : 2 ≤ ((if sp then [' '] else []) ++ c0 :: (t0 ++ c1 :: r1)).length := by
      cases sp <;> simp <;> omega
    rw [hin]
    simp only [lexWords]
    rw [skipBlanks_pre sp c0 (t0 ++ c1 :: r1) (by simpa using hs0 (c1 :: r1)) hb0 _ hlen]
    have hw' : lexWord .token (c0 :: (t0 ++ c1 :: r1)) = some (w, c1 :: r1) := by
      rw [← hw, e0]; simp
    rw [hw', ew]
    simp only
    rw [← ew, htl, ← e1]
    have : (if ws.isEmpty then [] else [' ']) ++ printWords ws ++ c :: rest =
        (if (!ws.isEmpty) = true then [' '] else []) ++ (printWords ws ++ c :: rest) := by
      cases ws.isEmpty <;> simp
    rw [this, ih']


end YashModel.Syntax
