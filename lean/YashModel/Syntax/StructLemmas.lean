/-
  C06 — lemmas for the command structure: what may follow a command (layer 0), pipelines (layer 1),
  and-or lists (layer 2), lists (layer 3).
-/
import YashModel.Syntax.ParserLemmas
import YashModel.Syntax.Structure
import YashModel.Syntax.EofLemmas
namespace YashModel.Syntax

/-! ## Layer 0: what may follow a command -/

/-- the text after a command: the end of input, or an optional blank and a terminator character
    (`;`, `&`, `|`, `)`, newline) -/
def TailOk (tail : List Char) : Prop :=
  tail = [] ∨
  ∃ (sp : Bool) (e : Char) (rest : List Char), tail = (if sp then [' '] else []) ++ e :: rest ∧ TermOk e

theorem lexToken_tail (tail : List Char) (h : TailOk tail) :
    tail = [] ∨ ∃ o r, lexToken tail = some (⟨[], .op o⟩, r) ∧ o.plain = true := by
  rcases h with rfl | ⟨sp, e, rest, rfl, he⟩
  · exact Or.inl rfl
  right
  obtain ⟨h1, h2, h3⟩ := term_facts e he
  obtain ⟨x, hx, hp⟩ := lexOperator_term e he rest
  have hk := skipLC_cons_ne e rest h1
  refine ⟨x.1, x.2, ?_, hp⟩
  have hsb : skipBlanks ((if sp then [' '] else []) ++ e :: rest).length
      ((if sp then [' '] else []) ++ e :: rest) = e :: rest := by
    cases sp with
    | false => simpa using skipBlanks_stop e rest hk h2 _
    | true =>
      have := skipBlanks_pre true e rest hk h2 (([' '] ++ e :: rest).length) (by simp)
      simpa using this
  unfold lexToken
  simp only []
  rw [hsb, skipComment_id e rest hk h3, hx]

theorem nextOk_tail (tail : List Char) (h : TailOk tail) : NextOk tail := by
  rcases h with rfl | ⟨sp, e, rest, rfl, he⟩
  · exact ⟨Or.inl rfl, rfl⟩
  have hE : Delim.token.Ends e := by
    rcases he with h | h | h | h | h <;> subst h <;> exact ⟨by decide, by decide⟩
  have hA : nextIsAngle (e :: rest) = false := by
    rcases he with h | h | h | h | h <;> subst h <;> simp [nextIsAngle, skipLC_cons_ne]
  cases sp with
  | false => exact ⟨Or.inr ⟨e, rest, by simp, hE⟩, by simpa using hA⟩
  | true =>
    exact ⟨Or.inr ⟨' ', e :: rest, by simp, ⟨by decide, by decide⟩⟩, by simp [nextIsAngle, skipLC_cons_ne]⟩

theorem loop_tail (tail : List Char) (h : TailOk tail) (b : Builder) (fuel : Nat) :
    parseSimpleLoop (fuel + 1) b tail = some (b, tail) := by
  rcases lexToken_tail tail h with rfl | ⟨o, r, ht, hp⟩
  · exact loop_eof b fuel
  have hr : parseRedir tail = some (none, tail) := by
    unfold parseRedir
    rw [ht]
    exact parseRedirBody_plain none _ o r ht hp
  simp [parseSimpleLoop, hr, ht]

/-- where the simple-command loop stops: a delimiter follows and the loop returns its builder there -/
structure StopTail (tail : List Char) : Prop where
  next : NextOk tail
  stop : ∀ (b : Builder) (fuel : Nat), parseSimpleLoop (fuel + 1) b tail = some (b, tail)

theorem stopTail_of_tailOk (tail : List Char) (h : TailOk tail) : StopTail tail :=
  ⟨nextOk_tail tail h, fun b f => loop_tail tail h b f⟩

theorem nextOk_after_tail (ps : List Piece) (tail : List Char) (h : NextOk tail) :
    NextOk (afterPiece ps tail) := by
  cases ps with
  | nil => simpa [afterPiece, printPieces, joinWith] using h
  | cons q qs =>
    exact ⟨Or.inr ⟨' ', printPieces (q :: qs) ++ tail, by simp [afterPiece], ⟨by decide, by decide⟩⟩, by
      simp [afterPiece, nextIsAngle, skipLC_cons_ne]⟩

theorem loop_pieces_tail (tail : List Char) (ht : StopTail tail) :
    ∀ (ps : List Piece) (b : Builder) (fuel : Nat) (sp : Bool), ps.length + 1 ≤ fuel →
      (ps = [] → sp = false) → PiecesOk b ps tail →
      parseSimpleLoop fuel b ((if sp then [' '] else []) ++ (printPieces ps ++ tail)) =
        some (ps.foldl Builder.push b, tail) := by
  intro ps
  induction ps with
  | nil =>
    intro b fuel sp hf hsp _
    obtain ⟨k, rfl⟩ : ∃ k, fuel = k + 1 := ⟨fuel - 1, by simp at hf; omega⟩
    simpa [hsp rfl, printPieces, joinWith] using ht.stop b k
  | cons p ps ih =>
    intro b fuel sp hf _ hok
    obtain ⟨k, rfl⟩ : ∃ k, fuel = k + 1 := ⟨fuel - 1, by simp at hf; omega⟩
    obtain ⟨hp, hrest⟩ := hok
    have hn := nextOk_after_tail ps tail ht.next
    have ih' := ih (b.push p) k (!ps.isEmpty) (by simp at hf; omega) (by intro h; simp [h]) hrest
    rw [← afterPiece_eq] at ih'
    rw [printPieces_cons, List.foldl_cons, ← ih']
    cases p with
    | assign n v =>
      obtain ⟨h0, h1, h2, h3, h4, h5⟩ := hp
      exact loop_assign n v _ h1 hn sp b k h0 h2 h3 h4 h5
    | word w =>
      obtain ⟨h1, h2, h3⟩ := hp
      exact loop_word w _ h1 hn sp b k h2 h3
    | redir fd op w =>
      obtain ⟨h1, h2⟩ := hp
      exact loop_redir fd h1 op w _ h2 hn sp b k
    | arrayAssign n ws =>
      obtain ⟨h0, h1, h2, h3, h4⟩ := hp
      exact loop_arrayAssign n ws _ h1 sp b k h0 h2 h3 h4

/-- simple commands of the proved fragment, given the text that follows -/
def SimpleOk (c : SimpleCommand) (tail : List Char) : Prop :=
  ∃ ps : List Piece, ps ≠ [] ∧ printSimple c = printPieces ps ∧
    ps.foldl Builder.push ⟨[], [], []⟩ = ⟨c.assigns, c.words, c.redirs⟩ ∧ PiecesOk ⟨[], [], []⟩ ps tail

/-- the commands `mkSimple as ws rs` (scalar assignments, words, normal redirections; wave 1/2 form) -/
theorem simpleOk_of_mk (as : List (List Char × Word)) (ws : List Word) (rs : List (Option Nat × RedirOp × Word))
    (tail : List Char)
    (hne : (mkSimple as ws rs).assigns ≠ [] ∨ ws ≠ [] ∨ (mkSimple as ws rs).redirs ≠ [])
    (hok : PiecesOk ⟨[], [], []⟩ (simplePieces as ws rs) tail) : SimpleOk (mkSimple as ws rs) tail := by
  have hps : simplePieces as ws rs ≠ [] := by
    intro e
    have := foldl_simplePieces as ws rs
    rw [e] at this
    simp at this
    obtain ⟨a1, a2, a3⟩ := this
    rcases hne with h | h | h
    · exact h a1
    · exact h (by simpa [mkSimple] using a2)
    · exact h a3
  exact ⟨simplePieces as ws rs, hps, printSimple_pieces as ws rs, foldl_simplePieces as ws rs, hok⟩

theorem piece_print_ne (b : Builder) (p : Piece) (next : List Char) (h : PieceOk b p next) :
    1 ≤ p.print.length := by
  cases p with
  | assign n v =>
    obtain ⟨_, _, _, h3, _⟩ := h
    cases n with
    | nil => exact absurd rfl h3
    | cons c n => simp [Piece.print]
  | word w =>
    have := printWord_ne_nil _ _ w _ h.1.ok h.1.nonempty
    cases hp : printWord w with
    | nil => exact absurd hp this
    | cons _ _ => simp [Piece.print, hp]
  | redir fd op w =>
    obtain ⟨c, tl, e, _⟩ := redirOp_str_head op
    simp [Piece.print, printRedir, e]
    omega
  | arrayAssign n ws =>
    simp [Piece.print, printArrayAssign]
    omega

theorem pieces_length_le (tail : List Char) : ∀ (ps : List Piece) (b : Builder), PiecesOk b ps tail →
    ps.length ≤ (printPieces ps).length := by
  intro ps
  induction ps with
  | nil => intro _ _; simp
  | cons p ps ih =>
    intro b h
    have h1 := piece_print_ne b p _ h.1
    have h2 := ih _ h.2
    cases ps with
    | nil => simpa [printPieces, joinWith] using h1
    | cons q qs =>
      simp only [printPieces, List.map_cons, joinWith, List.length_append, List.length_cons] at h2 ⊢
      simp only [List.length_nil] at h2 ⊢
      omega

theorem parseSimple_stop (c : SimpleCommand) (tail : List Char) (ht : StopTail tail)
    (h : SimpleOk c tail) (sp : Bool) :
    ∀ fuel, (printSimple c).length + 2 ≤ fuel →
      parseSimple fuel ((if sp then [' '] else []) ++ (printSimple c ++ tail)) = some (some c, tail) := by
  intro fuel hf
  obtain ⟨ps, hps, hprint, hfold, hok⟩ := h
  have hlen := pieces_length_le tail _ _ hok
  rw [hprint] at hf ⊢
  have hl := loop_pieces_tail tail ht ps ⟨[], [], []⟩ fuel sp (by omega) (fun e => absurd e hps) hok
  unfold parseSimple
  rw [hl, hfold]
  have hne : (Builder.mk c.assigns c.words c.redirs).isEmpty = false := by
    -- a non-empty list of pieces builds a non-empty command
    cases ps with
    | nil => exact absurd rfl hps
    | cons p qs =>
      have hmono : ∀ (l : List Piece) (b : Builder), b.isEmpty = false →
          (l.foldl Builder.push b).isEmpty = false := by
        intro l
        induction l with
        | nil => intro b hb; exact hb
        | cons q l ih =>
          intro b hb
          apply ih
          cases q <;> simp [Builder.push, Builder.isEmpty] at hb ⊢ <;> intro a b' <;> simp_all
      have h1 : (Builder.push ⟨[], [], []⟩ p).isEmpty = false := by
        cases p <;> simp [Builder.push, Builder.isEmpty]
      have := hmono qs _ h1
      rw [List.foldl_cons] at hfold
      rw [hfold] at this
      exact this
  simp [hne]


theorem parseSimple_tail (c : SimpleCommand) (tail : List Char) (ht : TailOk tail)
    (h : SimpleOk c tail) (sp : Bool) :
    ∀ fuel, (printSimple c).length + 2 ≤ fuel →
      parseSimple fuel ((if sp then [' '] else []) ++ (printSimple c ++ tail)) = some (some c, tail) :=
  parseSimple_stop c tail (stopTail_of_tailOk tail ht) h sp

/-! ## Layer 1: pipelines -/

/-- the first character of a printed command: not a newline, not a comment, not a blank, no line
    continuation -/
def HeadOk (x : List Char) : Prop :=
  ∃ y t, x = y :: t ∧ y ≠ '\n' ∧ y ≠ '#' ∧ isBlank y = false ∧ skipLC (y :: t) = y :: t

theorem opTail_prop (P : Op → Prop) (r : List Char) (edges : List (Char × Op)) (d : Op) (hd : P d)
    (he : ∀ p ∈ edges, P p.2) : P (opTail r edges d).1 := by
  unfold opTail
  cases skipLC r with
  | nil => simpa using hd
  | cons c r' =>
    cases hl : edges.lookup c with
    | none => simp only [hl]; exact hd
    | some o =>
      have : (c, o) ∈ edges := by
        induction edges with
        | nil => simp at hl
        | cons p ps ih =>
          obtain ⟨a, b⟩ := p
          simp only [List.lookup] at hl
          by_cases hca : c = a
          · subst hca
            simp at hl
            subst hl
            simp
          · have hne : (c == a) = false := by simp [hca]
            simp only [hne] at hl
            exact List.mem_cons_of_mem _ (ih (fun q hq => he q (List.mem_cons_of_mem _ hq)) hl)
      simp only [hl]
      exact he _ this

theorem lexOperator_not_newline (y : Char) (t : List Char) (hk : skipLC (y :: t) = y :: t)
    (hy : y ≠ '\n') : ∀ x, lexOperator (y :: t) = some x → x.1 ≠ .newline := by
  intro x hx
  simp only [lexOperator, hk, hy, if_false] at hx
  have P := fun r e d (hd : d ≠ Op.newline) (he : ∀ p ∈ e, p.2 ≠ Op.newline) =>
    opTail_prop (· ≠ Op.newline) r e d hd he
  split at hx
  · cases hx; exact P _ _ _ (by decide) (by decide)
  split at hx
  · cases hx; simp
  split at hx
  · cases hx; simp
  split at hx
  · split at hx <;> cases hx
    · exact P _ _ _ (by decide) (by decide)
    · exact P _ _ _ (by decide) (by decide)
  split at hx
  · split at hx <;> cases hx
    · exact P _ _ _ (by decide) (by decide)
    · exact P _ _ _ (by decide) (by decide)
  split at hx
  · split at hx <;> cases hx
    · exact P _ _ _ (by decide) (by decide)
    · exact P _ _ _ (by decide) (by decide)
  split at hx
  · cases hx; exact P _ _ _ (by decide) (by decide)
  · cases hx

theorem tokenId_not_op (w : Word) (r : List Char) (o : Op) : tokenId w r ≠ .op o := by
  unfold tokenId
  intro h
  split at h
  · cases h
  · simp only [] at h
    split at h
    · cases h
    · split at h
      · cases h
      · split at h <;> cases h

theorem skipNewlines_head (x : List Char) (h : HeadOk x) (sp : Bool) :
    ∀ fuel, skipNewlines fuel ((if sp then [' '] else []) ++ x) = (if sp then [' '] else []) ++ x := by
  intro fuel
  obtain ⟨y, t, rfl, h1, h2, h3, hk⟩ := h
  cases fuel with
  | zero => rfl
  | succ n =>
    have hsb : skipBlanks ((if sp then [' '] else []) ++ y :: t).length
        ((if sp then [' '] else []) ++ y :: t) = y :: t := by
      cases sp with
      | false => simpa using skipBlanks_stop y t hk h3 _
      | true =>
        have := skipBlanks_pre true y t hk h3 (([' '] ++ y :: t).length) (by simp)
        simpa using this
    have hnl := lexOperator_not_newline y t hk h1
    simp only [skipNewlines]
    unfold lexToken
    simp only []
    rw [hsb, skipComment_id y t hk h2]
    cases ho : lexOperator (y :: t) with
    | some x =>
      have := hnl x ho
      simp [Token.isOp, this]
    | none =>
      simp only []
      cases lexWord .token (y :: t) with
      | none => rfl
      | some p =>
        have := tokenId_not_op (parseTildeFront p.1) p.2 .newline
        simp [Token.isOp, this]


/-- `pc` reads the printed command back when `tail` follows, with or without a blank in front -/
def CmdRT (pc : CmdParser) (c : Command) (tail : List Char) : Prop :=
  HeadOk (printCommand c ++ tail) ∧
  ∀ sp : Bool, pc ((if sp then [' '] else []) ++ (printCommand c ++ tail)) = some (some c, tail)

/-- the text after the first command of `c :: cs` printed as a pipeline -/
def pipeRest : List Command → List Char → List Char
  | [], tail => tail
  | d :: ds, tail => ' ' :: '|' :: ' ' :: (printCommand d ++ pipeRest ds tail)

theorem printCommands_cons (c : Command) (cs : List Command) (tail : List Char) :
    printCommands (c :: cs) ++ tail = printCommand c ++ pipeRest cs tail := by
  induction cs generalizing c with
  | nil => simp [printCommands, pipeRest]
  | cons d ds ih =>
    have := ih d
    simp only [printCommands, pipeRest, str, List.append_assoc] at this ⊢
    rw [this]
    rfl

/-- every command of the pipeline reads back in its place -/
def CmdsRT (pc : CmdParser) : List Command → List Char → Prop
  | [], _ => True
  | c :: cs, tail => CmdRT pc c (pipeRest cs tail) ∧ CmdsRT pc cs tail

/-- the token that follows is an operator other than those in `bad` -/
def EndsWithout (tail : List Char) (bad : List Op) : Prop :=
  TailOk tail ∧ ∀ o r, lexToken tail = some (⟨[], .op o⟩, r) → o ∉ bad

theorem lexToken_sep (c1 : Char) (x : List Char) (o : Op)
    (ho : lexOperator (c1 :: ' ' :: x) = some (o, ' ' :: x)) (h1 : c1 ≠ '\\') (h2 : isBlank c1 = false)
    (h3 : c1 ≠ '#') :
    lexToken (' ' :: c1 :: ' ' :: x) = some (⟨[], .op o⟩, ' ' :: x) := by
  have hk := skipLC_cons_ne c1 (' ' :: x) h1
  have hsb := skipBlanks_pre true c1 (' ' :: x) hk h2 (([' '] ++ c1 :: ' ' :: x).length) (by simp)
  simp only [if_true] at hsb
  unfold lexToken
  simp only []
  have : (' ' :: c1 :: ' ' :: x) = [' '] ++ c1 :: ' ' :: x := rfl
  rw [this, hsb, skipComment_id c1 _ hk h3, ho]

theorem lexToken_bar (x : List Char) :
    lexToken (' ' :: '|' :: ' ' :: x) = some (⟨[], .op .bar⟩, ' ' :: x) :=
  lexToken_sep '|' x .bar
    (by simp [lexOperator, opTail, skipLC_cons_ne, List.lookup]) (by decide) (by decide) (by decide)

theorem pipeRest_length (cs : List Command) (tail : List Char) :
    cs.length ≤ (pipeRest cs tail).length := by
  induction cs with
  | nil => simp
  | cons d ds ih => simp only [pipeRest, List.length_cons, List.length_append]; omega

theorem pipeTail_rt (pc : CmdParser) (tail : List Char) (ht : EndsWithout tail [.bar]) :
    ∀ (cs : List Command) (fuel : Nat), cs.length + 1 ≤ fuel → CmdsRT pc cs tail →
      parsePipeTail pc fuel (pipeRest cs tail) = some (cs, tail) := by
  intro cs
  induction cs with
  | nil =>
    intro fuel hf _
    obtain ⟨k, rfl⟩ : ∃ k, fuel = k + 1 := ⟨fuel - 1, by simp at hf; omega⟩
    rcases lexToken_tail tail ht.1 with rfl | ⟨o, r, hl, _⟩
    · simp [pipeRest, parsePipeTail, lexToken_eof, Token.isOp]
    have hb : o ≠ .bar := by
      have := ht.2 o r hl
      simpa using this
    simp [pipeRest, parsePipeTail, hl, Token.isOp, hb]
  | cons d ds ih =>
    intro fuel hf h
    obtain ⟨k, rfl⟩ : ∃ k, fuel = k + 1 := ⟨fuel - 1, by simp at hf; omega⟩
    obtain ⟨⟨hh, hd⟩, hds⟩ := h
    have ih' := ih k (by simp at hf; omega) hds
    have hsn := skipNewlines_head _ hh true (' ' :: (printCommand d ++ pipeRest ds tail)).length
    have hpc := hd true
    simp only [if_true, List.singleton_append] at hsn hpc
    simp only [pipeRest, parsePipeTail, lexToken_bar, Token.isOp]
    simp only [if_true, decide_true, hsn, hpc, ih']

/-- Layer 1: a pipeline (with or without `!`) whose commands read back reads back. -/
theorem pipeline_rt (pc : CmdParser) (neg : Bool) (c : Command) (cs : List Command) (tail : List Char)
    (ht : EndsWithout tail [.bar]) (h : CmdsRT pc (c :: cs) tail)
    (hbang : neg = true → ∀ x, pc ('!' :: ' ' :: x) = some (none, '!' :: ' ' :: x) ∧
        pc (' ' :: '!' :: ' ' :: x) = some (none, ' ' :: '!' :: ' ' :: x)) (sp : Bool) :
    parsePipeline pc ((if sp then [' '] else []) ++ (printPipeline (.mk (c :: cs) neg) ++ tail)) =
      some (some (.mk (c :: cs) neg), tail) := by
  obtain ⟨⟨hh, hc⟩, hcs⟩ := h
  have hlen := pipeRest_length cs tail
  have htl := pipeTail_rt pc tail ht cs ((pipeRest cs tail).length + 2) (by omega) hcs
  cases neg with
  | false =>
    have := hc sp
    simp only [printPipeline, Bool.false_eq_true, if_false, List.nil_append, printCommands_cons]
    simp only [parsePipeline, this, htl]
  | true =>
    obtain ⟨hb1, hb2⟩ := hbang rfl (printCommand c ++ pipeRest cs tail)
    have hw : TokWordOk (digitsWord ['!']) (' ' :: (printCommand c ++ pipeRest cs tail)) :=
      litWord_tok '!' _ (by decide) [] (by simp)
    have hn : NextOk (' ' :: (printCommand c ++ pipeRest cs tail)) :=
      ⟨Or.inr ⟨' ', _, rfl, ⟨by decide, by decide⟩⟩, by simp [nextIsAngle, skipLC_cons_ne]⟩
    have hlt := lexToken_word _ _ hw hn sp
    rw [printWord_digitsWord] at hlt
    have hkw : isKeywordWord (digitsWord ['!']) = true := by decide
    have hc1 := hc true
    simp only [if_true, List.singleton_append] at hc1
    have hin : (if sp then [' '] else []) ++ (printPipeline (.mk (c :: cs) true) ++ tail) =
        (if sp then [' '] else []) ++ (['!'] ++ ' ' :: (printCommand c ++ pipeRest cs tail)) := by
      simp [printPipeline, str, printCommands_cons]
    have hpn : pc ((if sp then [' '] else []) ++ (['!'] ++ ' ' :: (printCommand c ++ pipeRest cs tail))) =
        some (none, (if sp then [' '] else []) ++ (['!'] ++ ' ' :: (printCommand c ++ pipeRest cs tail))) := by
      cases sp <;> simpa using (by first | exact hb1 | exact hb2)
    rw [hin]
    simp only [parsePipeline, hpn, hlt, hkw]
    simp [Token.isKw, wordLiteral_digitsWord, hc1, htl]


/-! ## Layer 2: and-or lists -/

def PipeRT (pc : CmdParser) (p : Pipeline) (tail : List Char) : Prop :=
  HeadOk (printPipeline p ++ tail) ∧
  ∀ sp : Bool, parsePipeline pc ((if sp then [' '] else []) ++ (printPipeline p ++ tail)) = some (some p, tail)

/-- the text after the first pipeline of an and-or list -/
def aoRest : List AndOrRest → List Char → List Char
  | [], tail => tail
  | .mk isAnd p :: rs, tail =>
    ' ' :: (if isAnd then '&' else '|') :: (if isAnd then '&' else '|') :: ' ' ::
      (printPipeline p ++ aoRest rs tail)

theorem printAndOrRest_eq (rs : List AndOrRest) (tail : List Char) :
    printAndOrRest rs ++ tail = aoRest rs tail := by
  induction rs with
  | nil => simp [printAndOrRest, aoRest]
  | cons r rs ih =>
    obtain ⟨isAnd, p⟩ := r
    cases isAnd <;> simp [printAndOrRest, aoRest, str, ← ih]

def PipesRT (pc : CmdParser) : List AndOrRest → List Char → Prop
  | [], _ => True
  | .mk _ p :: rs, tail => PipeRT pc p (aoRest rs tail) ∧ PipesRT pc rs tail

theorem lexToken_sep2 (c1 c2 : Char) (x : List Char) (o : Op)
    (ho : lexOperator (c1 :: c2 :: ' ' :: x) = some (o, ' ' :: x)) (h1 : c1 ≠ '\\') (h2 : isBlank c1 = false)
    (h3 : c1 ≠ '#') :
    lexToken (' ' :: c1 :: c2 :: ' ' :: x) = some (⟨[], .op o⟩, ' ' :: x) := by
  have hk := skipLC_cons_ne c1 (c2 :: ' ' :: x) h1
  have hsb := skipBlanks_pre true c1 (c2 :: ' ' :: x) hk h2 (([' '] ++ c1 :: c2 :: ' ' :: x).length) (by simp)
  simp only [if_true] at hsb
  unfold lexToken
  simp only []
  have : (' ' :: c1 :: c2 :: ' ' :: x) = [' '] ++ c1 :: c2 :: ' ' :: x := rfl
  rw [this, hsb, skipComment_id c1 _ hk h3, ho]

theorem lexToken_andand (x : List Char) :
    lexToken (' ' :: '&' :: '&' :: ' ' :: x) = some (⟨[], .op .andAnd⟩, ' ' :: x) :=
  lexToken_sep2 '&' '&' x .andAnd (by simp [lexOperator, opTail, skipLC_cons_ne, List.lookup])
    (by decide) (by decide) (by decide)

theorem lexToken_barbar (x : List Char) :
    lexToken (' ' :: '|' :: '|' :: ' ' :: x) = some (⟨[], .op .barBar⟩, ' ' :: x) :=
  lexToken_sep2 '|' '|' x .barBar (by simp [lexOperator, opTail, skipLC_cons_ne, List.lookup])
    (by decide) (by decide) (by decide)

theorem aoRest_length (rs : List AndOrRest) (tail : List Char) : rs.length ≤ (aoRest rs tail).length := by
  induction rs with
  | nil => simp
  | cons r rs ih =>
    obtain ⟨a, p⟩ := r
    simp only [aoRest, List.length_cons, List.length_append]; omega

theorem andOrTail_rt (pc : CmdParser) (tail : List Char) (ht : EndsWithout tail [.andAnd, .barBar]) :
    ∀ (rs : List AndOrRest) (fuel : Nat), rs.length + 1 ≤ fuel → PipesRT pc rs tail →
      parseAndOrTail pc fuel (aoRest rs tail) = some (rs, tail) := by
  intro rs
  induction rs with
  | nil =>
    intro fuel hf _
    obtain ⟨k, rfl⟩ : ∃ k, fuel = k + 1 := ⟨fuel - 1, by simp at hf; omega⟩
    rcases lexToken_tail tail ht.1 with rfl | ⟨o, r, hl, _⟩
    · simp [aoRest, parseAndOrTail, lexToken_eof, Token.isOp]
    have hb := ht.2 o r hl
    simp only [List.mem_cons, List.not_mem_nil, or_false, not_or] at hb
    simp [aoRest, parseAndOrTail, hl, Token.isOp, hb.1, hb.2]
  | cons r rs ih =>
    intro fuel hf h
    obtain ⟨k, rfl⟩ : ∃ k, fuel = k + 1 := ⟨fuel - 1, by simp at hf; omega⟩
    obtain ⟨isAnd, p⟩ := r
    obtain ⟨⟨hh, hp⟩, hrs⟩ := h
    have ih' := ih k (by simp at hf; omega) hrs
    have hsn : ∀ f, skipNewlines f (' ' :: (printPipeline p ++ aoRest rs tail)) =
        ' ' :: (printPipeline p ++ aoRest rs tail) := fun f => by
      simpa using skipNewlines_head _ hh true f
    have hpp := hp true
    simp only [if_true, List.singleton_append] at hpp
    cases isAnd with
    | true =>
      simp only [aoRest, if_true, parseAndOrTail, lexToken_andand, Token.isOp]
      simp [hsn, hpp, ih']
    | false =>
      simp only [aoRest, Bool.false_eq_true, if_false, parseAndOrTail, lexToken_barbar, Token.isOp]
      simp [hsn, hpp, ih']

/-- Layer 2: an and-or list whose pipelines read back reads back. -/
theorem andOr_rt (pc : CmdParser) (p : Pipeline) (rs : List AndOrRest) (tail : List Char)
    (ht : EndsWithout tail [.andAnd, .barBar]) (hp : PipeRT pc p (aoRest rs tail))
    (hrs : PipesRT pc rs tail) (sp : Bool) :
    parseAndOr pc ((if sp then [' '] else []) ++ (printAndOr (.mk p rs) ++ tail)) =
      some (some (.mk p rs), tail) := by
  have hlen := aoRest_length rs tail
  have htl := andOrTail_rt pc tail ht rs ((aoRest rs tail).length + 2) (by omega) hrs
  have := hp.2 sp
  simp only [printAndOr, List.append_assoc, printAndOrRest_eq]
  simp only [parseAndOr, this, htl]


/-! ## Layer 3: lists -/

def AndOrRT (pc : CmdParser) (a : AndOrList) (tail : List Char) : Prop :=
  HeadOk (printAndOr a ++ tail) ∧
  ∀ sp : Bool, parseAndOr pc ((if sp then [' '] else []) ++ (printAndOr a ++ tail)) = some (some a, tail)

/-- no command starts at `tail`: the and-or parser returns `None` there -/
def NoCmdAt (pc : CmdParser) (tail : List Char) : Prop := parseAndOr pc tail = some (none, tail)

/-- the terminator of an item that is printed with one (`;` or `&`) is read as that operator -/
def SepReads (tail : List Char) : Prop :=
  lexToken (';' :: tail) = some (⟨[], .op .semicolon⟩, tail) ∧
  lexToken ('&' :: tail) = some (⟨[], .op .and⟩, tail)

theorem sepReads_blank (x : List Char) : SepReads (' ' :: x) := by
  constructor
  · have hk := skipLC_cons_ne ';' (' ' :: x) (by decide)
    unfold lexToken
    simp only []
    rw [skipBlanks_stop ';' _ hk (by decide), skipComment_id ';' _ hk (by decide)]
    simp [lexOperator, opTail, skipLC_cons_ne, List.lookup]
  · have hk := skipLC_cons_ne '&' (' ' :: x) (by decide)
    unfold lexToken
    simp only []
    rw [skipBlanks_stop '&' _ hk (by decide), skipComment_id '&' _ hk (by decide)]
    simp [lexOperator, opTail, skipLC_cons_ne, List.lookup]

/-- the text of the items after their and-or lists: terminators and separating blanks -/
def listText (alt : Bool) : List Item → List Char → List Char
  | [], tail => tail
  | [.mk a async], tail => printAndOr a ++ ((if async then ['&'] else if alt then [';'] else []) ++ tail)
  | .mk a async :: j :: rest, tail =>
    printAndOr a ++ ((if async then '&' else ';') :: ' ' :: listText alt (j :: rest) tail)

theorem printList_eq (alt : Bool) (l : List Item) (tail : List Char) :
    printList alt l ++ tail = listText alt l tail := by
  induction l with
  | nil => simp [printList, listText]
  | cons i l ih =>
    obtain ⟨a, async⟩ := i
    cases l with
    | nil => cases async <;> cases alt <;> simp [printList, printItem, listText]
    | cons j rest =>
      cases async <;> simp [printList, printItem, listText, ← ih]

/-- every and-or list of the items reads back in its place -/
def ItemsRT (pc : CmdParser) (alt : Bool) : List Item → List Char → Prop
  | [], _ => True
  | [.mk a async], tail => AndOrRT pc a ((if async then ['&'] else if alt then [';'] else []) ++ tail)
  | .mk a async :: j :: rest, tail =>
    AndOrRT pc a ((if async then '&' else ';') :: ' ' :: listText alt (j :: rest) tail) ∧
    ItemsRT pc alt (j :: rest) tail

/-- what follows a list: no further command, terminators read alone, and (when the last item is printed
    without a terminator) the next token is neither `;` nor `&` -/
structure ListEnd (pc : CmdParser) (alt : Bool) (tail : List Char) : Prop where
  noCmd : NoCmdAt pc tail
  sepAmp : lexToken ('&' :: tail) = some (⟨[], .op .and⟩, tail)
  sepSemi : alt = true → lexToken (';' :: tail) = some (⟨[], .op .semicolon⟩, tail)
  notSep : ∀ t r, lexToken tail = some (t, r) → t.isOp .semicolon = false ∧ t.isOp .and = false
  tok : ∃ t r, lexToken tail = some (t, r)

theorem parseList_step (pc : CmdParser) (f : Nat) (cs : List Char) :
    parseList pc (f + 1) cs =
      match parseAndOr pc cs with
      | none => none
      | some (none, r) => some ([], r)
      | some (some a, r) =>
        match lexToken r with
        | none => none
        | some (t, r') =>
          if t.isOp .semicolon then
            (parseList pc f r').map fun p => (.mk a false :: p.1, p.2)
          else if t.isOp .and then
            (parseList pc f r').map fun p => (.mk a true :: p.1, p.2)
          else some ([.mk a false], r) := rfl

theorem parseList_rt (pc : CmdParser) (alt : Bool) (tail : List Char) (he : ListEnd pc alt tail) :
    ∀ (l : List Item) (fuel : Nat) (sp : Bool), l.length + 2 ≤ fuel → ItemsRT pc alt l tail →
      (l = [] → sp = false) →
      parseList pc fuel ((if sp then [' '] else []) ++ listText alt l tail) = some (l, tail) := by
  have hnone : ∀ k, parseList pc (k + 1) tail = some ([], tail) := by
    intro k
    have := he.noCmd
    unfold NoCmdAt at this
    rw [parseList_step, this]
  intro l
  induction l with
  | nil =>
    intro fuel sp hf _ hsp
    obtain ⟨k, rfl⟩ : ∃ k, fuel = k + 1 := ⟨fuel - 1, by simp at hf; omega⟩
    simpa [hsp rfl, listText] using hnone k
  | cons i l ih =>
    intro fuel sp hf h _
    obtain ⟨k, rfl⟩ : ∃ k, fuel = k + 2 := ⟨fuel - 2, by simp at hf; omega⟩
    obtain ⟨a, async⟩ := i
    rw [parseList_step]
    cases l with
    | nil =>
      have ha : AndOrRT pc a ((if async then ['&'] else if alt then [';'] else []) ++ tail) := h
      have hp := ha.2 sp
      cases async with
      | true =>
        simp only [if_true, List.singleton_append] at hp
        simp only [listText, if_true, List.singleton_append, hp, he.sepAmp]
        simp [Token.isOp, hnone k]
      | false =>
        cases alt with
        | true =>
          simp only [Bool.false_eq_true, if_false, if_true, List.singleton_append] at hp
          simp only [listText, Bool.false_eq_true, if_false, if_true, List.singleton_append, hp, he.sepSemi rfl]
          simp [Token.isOp, hnone k]
        | false =>
          simp only [Bool.false_eq_true, if_false, List.nil_append] at hp
          obtain ⟨t, r, ht⟩ := he.tok
          obtain ⟨n1, n2⟩ := he.notSep t r ht
          simp only [listText, Bool.false_eq_true, if_false, List.nil_append, hp, ht]
          simp [n1, n2]
    | cons j rest =>
      obtain ⟨ha, hrest⟩ := h
      have hp := ha.2 sp
      have ih' := ih (k + 1) true (by simp at hf ⊢; omega) hrest (by intro e; cases e)
      simp only [if_true, List.singleton_append] at ih'
      have hs := sepReads_blank (listText alt (j :: rest) tail)
      cases async with
      | true =>
        simp only [if_true] at hp
        simp only [listText, if_true, hp, hs.2]
        simp [Token.isOp, ih']
      | false =>
        simp only [Bool.false_eq_true, if_false] at hp
        simp only [listText, Bool.false_eq_true, if_false, hp, hs.1]
        simp [Token.isOp, ih']

/-- what follows a compound list: a clause delimiter that is not a newline -/
def CloserAt (tail : List Char) : Prop :=
  ∃ t r, lexToken tail = some (t, r) ∧ t.isOp .newline = false ∧ t.isClauseDelimiter = true

/-- Layer 3: a list (`;`/`&` items, with or without the final terminator) whose and-or lists read back
    reads back through `maybe_compound_list`. -/
theorem compoundList_rt (pc : CmdParser) (alt : Bool) (l : List Item) (tail : List Char)
    (he : ListEnd pc alt tail) (hc : CloserAt tail) (h : ItemsRT pc alt l tail) (sp : Bool)
    (hsp : l = [] → sp = false) :
    ∀ fuel, 1 ≤ fuel →
      parseCompoundList pc fuel ((if sp then [' '] else []) ++ (printList alt l ++ tail)) = some (l, tail) := by
  intro fuel hf
  obtain ⟨k, rfl⟩ : ∃ k, fuel = k + 1 := ⟨fuel - 1, by omega⟩
  have hlen : ∀ l : List Item, ItemsRT pc alt l tail → l.length ≤ (listText alt l tail).length := by
    intro l
    induction l with
    | nil => intro _; simp
    | cons i l ih =>
      intro h
      obtain ⟨a, async⟩ := i
      cases l with
      | nil =>
        have ha : AndOrRT pc a ((if async then ['&'] else if alt then [';'] else []) ++ tail) := h
        obtain ⟨y, t, e, _⟩ := ha.1
        simp only [listText, e]
        simp
      | cons j rest =>
        have := ih h.2
        simp only [listText, List.length_cons, List.length_append] at this ⊢
        omega
  have hlen := hlen l h
  rw [printList_eq]
  have hl := parseList_rt pc alt tail he l
    (((if sp then [' '] else []) ++ listText alt l tail).length + 2) sp (by simp; omega) h hsp
  obtain ⟨t, r, ht, hn, hd⟩ := hc
  simp only [parseCompoundList, hl, ht, hn, hd]
  simp


/-! ## Layer 4 preliminaries: reserved words, redirections after a compound command -/

/-- characters of reserved words are plain word characters -/
def KwChars (k : List Char) : Prop :=
  ∀ x ∈ k, x ≠ '\\' ∧ x ≠ '$' ∧ x ≠ '`' ∧ Delim.token.test x = false ∧ x ≠ '"' ∧ x ≠ '\'' ∧ x ≠ '~' ∧
    x ≠ '#'

theorem kw_tokWord (k : List Char) (hk : KwChars k) (hne : k ≠ []) (next : List Char) :
    TokWordOk (digitsWord k) next := by
  cases k with
  | nil => exact absurd rfl hne
  | cons c cs =>
    apply litWord_tok c next (hk c (by simp)) cs
    intro x hx
    obtain ⟨a1, a2, a3, a4, a5, a6, _, _⟩ := hk x (by simp [hx])
    exact ⟨a1, a2, a3, a4, a5, a6⟩

theorem lexToken_kw (k : String) (hk : KwChars k.toList) (hne : k.toList ≠ [])
    (hkw : isKeyword k.toList = true) (next : List Char) (hn : NextOk next) (sp : Bool) :
    ∃ t, lexToken ((if sp then [' '] else []) ++ (k.toList ++ next)) = some (t, next) ∧ t.isKw k = true ∧
      t.isWord = true ∧ (∀ o, t.isOp o = false) := by
  have hw := kw_tokWord k.toList hk hne next
  have ht := lexToken_word _ next hw hn sp
  rw [printWord_digitsWord] at ht
  have hkk : isKeywordWord (digitsWord k.toList) = true := by
    simp [isKeywordWord, wordLiteral_digitsWord, hkw]
  refine ⟨_, ht, ?_, ?_, ?_⟩
  · simp [Token.isKw, hkk, wordLiteral_digitsWord]
  · simp [Token.isWord]
  · intro o; simp [Token.isOp]

theorem expectKw_kw (k : String) (hk : KwChars k.toList) (hne : k.toList ≠ [])
    (hkw : isKeyword k.toList = true) (next : List Char) (hn : NextOk next) (sp : Bool) :
    expectKw k ((if sp then [' '] else []) ++ (k.toList ++ next)) = some next := by
  obtain ⟨t, ht, h1, _, _⟩ := lexToken_kw k hk hne hkw next hn sp
  simp [expectKw, ht, h1]

theorem parseRedir_tail (tail : List Char) (h : TailOk tail) : parseRedir tail = some (none, tail) := by
  rcases lexToken_tail tail h with rfl | ⟨o, r, ht, hp⟩
  · simp [parseRedir, parseRedirBody, lexToken_eof]
  unfold parseRedir
  rw [ht]
  exact parseRedirBody_plain none _ o r ht hp

/-- the redirections printed after a compound command -/
def RedirsOk : List Redir → List Char → Prop
  | [], _ => True
  | .normal fd _ w :: rs, tail => FdOk fd ∧ TokWordOk w (printRedirsSp rs ++ tail) ∧ RedirsOk rs tail
  | .hereDoc _ _ _ :: _, _ => False

theorem nextOk_redirsSp (rs : List Redir) (tail : List Char) (ht : TailOk tail) :
    NextOk (printRedirsSp rs ++ tail) := by
  cases rs with
  | nil => simpa [printRedirsSp] using nextOk_tail tail ht
  | cons r rs =>
    exact ⟨Or.inr ⟨' ', printRedir r ++ (printRedirsSp rs ++ tail), by simp [printRedirsSp], ⟨by decide, by decide⟩⟩, by
      simp [printRedirsSp, nextIsAngle, skipLC_cons_ne]⟩

theorem parseRedirs_rt (tail : List Char) (ht : TailOk tail) :
    ∀ (rs : List Redir) (fuel : Nat), rs.length + 1 ≤ fuel → RedirsOk rs tail →
      parseRedirs fuel (printRedirsSp rs ++ tail) = some (rs, tail) := by
  intro rs
  induction rs with
  | nil =>
    intro fuel hf _
    obtain ⟨k, rfl⟩ : ∃ k, fuel = k + 1 := ⟨fuel - 1, by simp at hf; omega⟩
    simp [printRedirsSp, parseRedirs, parseRedir_tail tail ht]
  | cons r rs ih =>
    intro fuel hf h
    obtain ⟨k, rfl⟩ : ∃ k, fuel = k + 1 := ⟨fuel - 1, by simp at hf; omega⟩
    cases r with
    | hereDoc fd rt w => exact absurd h (by simp [RedirsOk])
    | normal fd op w =>
      obtain ⟨h1, h2, h3⟩ := h
      have hn := nextOk_redirsSp rs tail ht
      have hr := parseRedir_normal fd h1 op w _ h2 hn true
      have ih' := ih k (by simp at hf; omega) h3
      simp only [if_true, List.singleton_append] at hr
      simp only [printRedirsSp, List.cons_append, List.append_assoc, parseRedirs, hr, ih']

theorem redirsSp_length (rs : List Redir) (tail : List Char) :
    rs.length ≤ (printRedirsSp rs ++ tail).length := by
  induction rs with
  | nil => simp
  | cons r rs ih => simp only [printRedirsSp, List.cons_append, List.length_cons, List.length_append] at ih ⊢; omega


/-! ## Layer 4: compound commands -/

/-- the list, printed in its place, is read back by `maybe_compound_list` -/
def ListRT (pc : CmdParser) (alt : Bool) (l : List Item) (tail : List Char) : Prop :=
  ∀ (sp : Bool), (l = [] → sp = false) → ∀ fuel, 1 ≤ fuel →
    parseCompoundList pc fuel ((if sp then [' '] else []) ++ (printList alt l ++ tail)) = some (l, tail)

/-- the facts about reserved words used by the compound-command lemmas -/
structure Kw (k : String) : Prop where
  chars : KwChars k.toList
  ne : k.toList ≠ []
  kw : isKeyword k.toList = true

theorem kw_lbrace : Kw "{" := ⟨by unfold KwChars; decide, by decide, by decide⟩
theorem kw_rbrace : Kw "}" := ⟨by unfold KwChars; decide, by decide, by decide⟩
theorem kw_do : Kw "do" := ⟨by unfold KwChars; decide, by decide, by decide⟩
theorem kw_done : Kw "done" := ⟨by unfold KwChars; decide, by decide, by decide⟩
theorem kw_while : Kw "while" := ⟨by unfold KwChars; decide, by decide, by decide⟩
theorem kw_until : Kw "until" := ⟨by unfold KwChars; decide, by decide, by decide⟩
theorem kw_if : Kw "if" := ⟨by unfold KwChars; decide, by decide, by decide⟩
theorem kw_then : Kw "then" := ⟨by unfold KwChars; decide, by decide, by decide⟩
theorem kw_elif : Kw "elif" := ⟨by unfold KwChars; decide, by decide, by decide⟩
theorem kw_else : Kw "else" := ⟨by unfold KwChars; decide, by decide, by decide⟩
theorem kw_fi : Kw "fi" := ⟨by unfold KwChars; decide, by decide, by decide⟩
theorem kw_for : Kw "for" := ⟨by unfold KwChars; decide, by decide, by decide⟩
theorem kw_in : Kw "in" := ⟨by unfold KwChars; decide, by decide, by decide⟩
theorem kw_case : Kw "case" := ⟨by unfold KwChars; decide, by decide, by decide⟩
theorem kw_esac : Kw "esac" := ⟨by unfold KwChars; decide, by decide, by decide⟩

/-- the token of a printed reserved word, and which reserved-word tests it passes -/
theorem lexToken_kw' (k : String) (hk : Kw k) (next : List Char) (hn : NextOk next) (sp : Bool) :
    ∃ t, lexToken ((if sp then [' '] else []) ++ (k.toList ++ next)) = some (t, next) ∧
      (∀ k' : String, t.isKw k' = decide (k'.toList = k.toList)) ∧ t.isWord = true ∧
      (∀ o, t.isOp o = false) := by
  have hw := kw_tokWord k.toList hk.chars hk.ne next
  have ht := lexToken_word _ next hw hn sp
  rw [printWord_digitsWord] at ht
  have hkk : isKeywordWord (digitsWord k.toList) = true := by
    simp [isKeywordWord, wordLiteral_digitsWord, hk.kw]
  refine ⟨_, ht, ?_, ?_, ?_⟩
  · intro k'
    simp only [Token.isKw, hkk, wordLiteral_digitsWord]
    simp [eq_comm]
  · simp [Token.isWord]
  · intro o; simp [Token.isOp]

theorem listThenKw_rt (pc : CmdParser) (k : String) (hk : Kw k) (l : List Item) (hl : l ≠ [])
    (next : List Char) (hn : NextOk next) (h : ListRT pc true l (' ' :: (k.toList ++ next))) :
    listThenKw pc k (' ' :: (printList true l ++ ' ' :: (k.toList ++ next))) = some (l, next) := by
  have h1 := h true (fun e => absurd e hl) ((' ' :: (printList true l ++ ' ' :: (k.toList ++ next))).length + 2)
    (by omega)
  simp only [if_true, List.singleton_append] at h1
  have h2 := expectKw_kw k hk.chars hk.ne hk.kw next hn true
  simp only [if_true, List.singleton_append] at h2
  have he : l.isEmpty = false := by
    cases l with
    | nil => exact absurd rfl hl
    | cons _ _ => rfl
  simp only [listThenKw, h1, h2, he]
  simp

theorem one_le_add_two (n : Nat) : 1 ≤ n + 2 := by omega

/-- `{ list; }` -/
theorem grouping_rt (pc : CmdParser) (l : List Item) (hl : l ≠ []) (tail : List Char) (hn : NextOk tail)
    (h : ListRT pc true l (' ' :: ("}".toList ++ tail))) (sp : Bool) :
    parseCompound pc ((if sp then [' '] else []) ++ (printCompound (.grouping l) ++ tail)) =
      some (some (.grouping l), tail) := by
  have hin : printCompound (.grouping l) ++ tail =
      "{".toList ++ ' ' :: (printList true l ++ ' ' :: ("}".toList ++ tail)) := by
    simp [printCompound, str]
  have hnx : NextOk (' ' :: (printList true l ++ ' ' :: ("}".toList ++ tail))) :=
    ⟨Or.inr ⟨' ', _, rfl, ⟨by decide, by decide⟩⟩, by simp [nextIsAngle, skipLC_cons_ne]⟩
  obtain ⟨t, ht, hkw, _, _⟩ := lexToken_kw' "{" kw_lbrace _ hnx sp
  have e1 : t.isKw "{" = true := by rw [hkw]; decide
  have hl' := listThenKw_rt pc "}" kw_rbrace l hl tail hn h
  rw [hin]
  simp only [parseCompound, ht, e1, if_true, hl', Option.map_some]

/-- `(list)` -/
theorem subshell_rt (pc : CmdParser) (l : List Item) (hl : l ≠ []) (tail : List Char)
    (hopen : ∀ sp : Bool, ∃ t, lexToken ((if sp then [' '] else []) ++ '(' :: (printList false l ++ ')' :: tail)) =
        some (t, printList false l ++ ')' :: tail) ∧ t.isOp .openParen = true ∧ ∀ k, t.isKw k = false)
    (hclose : expectOp .closeParen (')' :: tail) = some tail)
    (h : ListRT pc false l (')' :: tail)) (sp : Bool) :
    parseCompound pc ((if sp then [' '] else []) ++ (printCompound (.subshell l) ++ tail)) =
      some (some (.subshell l), tail) := by
  have hin : printCompound (.subshell l) ++ tail = '(' :: (printList false l ++ ')' :: tail) := by
    simp [printCompound]
  obtain ⟨t, ht, hop, hkw⟩ := hopen sp
  have h1 := fun f hf => h false (fun _ => rfl) f hf
  simp only [Bool.false_eq_true, if_false, List.nil_append] at h1
  have he : l.isEmpty = false := by
    cases l with
    | nil => exact absurd rfl hl
    | cons _ _ => rfl
  rw [hin]
  simp only [parseCompound, ht, hkw, hop, if_true, Bool.false_eq_true, if_false]
  rw [h1 _ (one_le_add_two _)]
  simp only [hclose, he, Bool.false_eq_true, if_false]

theorem doClause_rt (pc : CmdParser) (l : List Item) (hl : l ≠ []) (tail : List Char) (hn : NextOk tail)
    (h : ListRT pc true l (' ' :: ("done".toList ++ tail))) :
    parseDoClause pc (' ' :: ("do".toList ++ ' ' :: (printList true l ++ ' ' :: ("done".toList ++ tail)))) =
      some (some l, tail) := by
  have hnx : NextOk (' ' :: (printList true l ++ ' ' :: ("done".toList ++ tail))) :=
    ⟨Or.inr ⟨' ', _, rfl, ⟨by decide, by decide⟩⟩, by simp [nextIsAngle, skipLC_cons_ne]⟩
  have h1 := expectKw_kw "do" kw_do.chars kw_do.ne kw_do.kw _ hnx true
  simp only [if_true, List.singleton_append] at h1
  have h2 := listThenKw_rt pc "done" kw_done l hl tail hn h
  simp only [parseDoClause, h1, h2, Option.map_some]

/-- `while list; do list; done` and `until …` -/
theorem while_rt (pc : CmdParser) (isWhile : Bool) (c b : List Item) (hc : c ≠ []) (hb : b ≠ [])
    (tail : List Char) (hn : NextOk tail)
    (h1 : ListRT pc true c (' ' :: ("do".toList ++ ' ' :: (printList true b ++ ' ' :: ("done".toList ++ tail)))))
    (h2 : ListRT pc true b (' ' :: ("done".toList ++ tail))) (sp : Bool) :
    parseCompound pc ((if sp then [' '] else []) ++
        (printCompound (if isWhile then .whileLoop c b else .untilLoop c b) ++ tail)) =
      some (some (if isWhile then .whileLoop c b else .untilLoop c b), tail) := by
  have hnx : NextOk (' ' :: (printList true c ++ ' ' :: ("do".toList ++ ' ' ::
      (printList true b ++ ' ' :: ("done".toList ++ tail))))) :=
    ⟨Or.inr ⟨' ', _, rfl, ⟨by decide, by decide⟩⟩, by simp [nextIsAngle, skipLC_cons_ne]⟩
  have hc1 := fun f hf => h1 true (fun e => absurd e hc) f hf
  simp only [if_true, List.singleton_append] at hc1
  have hd := doClause_rt pc b hb tail hn h2
  have he : c.isEmpty = false := by
    cases c with
    | nil => exact absurd rfl hc
    | cons _ _ => rfl
  cases isWhile with
  | true =>
    have hin : printCompound (.whileLoop c b) ++ tail = "while".toList ++ ' ' :: (printList true c ++ ' ' ::
        ("do".toList ++ ' ' :: (printList true b ++ ' ' :: ("done".toList ++ tail)))) := by
      simp [printCompound, str]
    obtain ⟨t, ht, hkw, _, hop⟩ := lexToken_kw' "while" kw_while _ hnx sp
    have e1 : t.isKw "{" = false := by rw [hkw]; decide
    have e2 : t.isKw "for" = false := by rw [hkw]; decide
    have e3 : t.isKw "while" = true := by rw [hkw]; decide
    simp only [if_true]
    rw [hin]
    simp only [parseCompound, ht, e1, e2, e3, hop, Bool.false_eq_true, if_false, Bool.true_or, if_true]
    rw [hc1 _ (one_le_add_two _)]
    simp only [he, Bool.false_eq_true, if_false, hd]
  | false =>
    have hin : printCompound (.untilLoop c b) ++ tail = "until".toList ++ ' ' :: (printList true c ++ ' ' ::
        ("do".toList ++ ' ' :: (printList true b ++ ' ' :: ("done".toList ++ tail)))) := by
      simp [printCompound, str]
    obtain ⟨t, ht, hkw, _, hop⟩ := lexToken_kw' "until" kw_until _ hnx sp
    have e1 : t.isKw "{" = false := by rw [hkw]; decide
    have e2 : t.isKw "for" = false := by rw [hkw]; decide
    have e3 : t.isKw "while" = false := by rw [hkw]; decide
    have e4 : t.isKw "until" = true := by rw [hkw]; decide
    simp only [Bool.false_eq_true, if_false]
    rw [hin]
    simp only [parseCompound, ht, e1, e2, e3, e4, hop, Bool.false_eq_true, if_false, Bool.or_true, if_true]
    rw [hc1 _ (one_le_add_two _)]
    simp only [he, Bool.false_eq_true, if_false, hd]


theorem nextOk_blank (x : List Char) : NextOk (' ' :: x) :=
  ⟨Or.inr ⟨' ', x, rfl, ⟨by decide, by decide⟩⟩, by simp [nextIsAngle, skipLC_cons_ne]⟩

theorem expectKw_other (k k' : String) (hk : Kw k) (hne : k'.toList ≠ k.toList) (next : List Char)
    (hn : NextOk next) (sp : Bool) :
    expectKw k' ((if sp then [' '] else []) ++ (k.toList ++ next)) = none := by
  obtain ⟨t, ht, hkw, _, _⟩ := lexToken_kw' k hk next hn sp
  have : t.isKw k' = false := by rw [hkw]; simp [hne]
  simp [expectKw, ht, this]

/-- the text of the `elif` clauses, followed by `after` -/
def elifText : List ElifThen → List Char → List Char
  | [], after => after
  | .mk c b :: rest, after =>
    "elif".toList ++ ' ' :: (printList true c ++ ' ' :: ("then".toList ++ ' ' ::
      (printList true b ++ ' ' :: elifText rest after)))

theorem printElifs_eq (es : List ElifThen) (after : List Char) :
    printElifs es ++ after = elifText es after := by
  induction es with
  | nil => simp [printElifs, elifText]
  | cons e es ih =>
    obtain ⟨c, b⟩ := e
    simp [printElifs, elifText, str, ← ih]

def ElifsRT (pc : CmdParser) : List ElifThen → List Char → Prop
  | [], _ => True
  | .mk c b :: rest, after =>
    c ≠ [] ∧ b ≠ [] ∧
    ListRT pc true c (' ' :: ("then".toList ++ ' ' :: (printList true b ++ ' ' :: elifText rest after))) ∧
    ListRT pc true b (' ' :: elifText rest after) ∧ ElifsRT pc rest after

theorem parseElifs_rt (pc : CmdParser) (after : List Char)
    (hafter : expectKw "elif" (' ' :: after) = none) :
    ∀ (es : List ElifThen) (fuel : Nat), es.length + 1 ≤ fuel → ElifsRT pc es after →
      parseElifs pc fuel (' ' :: elifText es after) = some (es, ' ' :: after) := by
  intro es
  induction es with
  | nil =>
    intro fuel hf _
    obtain ⟨k, rfl⟩ : ∃ k, fuel = k + 1 := ⟨fuel - 1, by simp at hf; omega⟩
    simp only [elifText, parseElifs, hafter]
  | cons e es ih =>
    intro fuel hf h
    obtain ⟨k, rfl⟩ : ∃ k, fuel = k + 1 := ⟨fuel - 1, by simp at hf; omega⟩
    obtain ⟨c, b⟩ := e
    obtain ⟨hc, hb, h1, h2, h3⟩ := h
    have ih' := ih k (by simp at hf; omega) h3
    have e1 := expectKw_kw "elif" kw_elif.chars kw_elif.ne kw_elif.kw
      (' ' :: (printList true c ++ ' ' :: ("then".toList ++ ' ' ::
        (printList true b ++ ' ' :: elifText es after)))) (nextOk_blank _) true
    simp only [if_true, List.singleton_append] at e1
    have e2 := listThenKw_rt pc "then" kw_then c hc
      (' ' :: (printList true b ++ ' ' :: elifText es after)) (nextOk_blank _) h1
    have e3 := fun f hf => h2 true (fun e => absurd e hb) f hf
    simp only [if_true, List.singleton_append] at e3
    have he : b.isEmpty = false := by
      cases b with
      | nil => exact absurd rfl hb
      | cons _ _ => rfl
    simp only [elifText, parseElifs, e1, e2]
    rw [e3 _ (one_le_add_two _)]
    simp only [he, Bool.false_eq_true, if_false, ih']

theorem elifText_length (es : List ElifThen) (after : List Char) :
    es.length ≤ (elifText es after).length := by
  induction es with
  | nil => simp
  | cons x xs ih =>
    obtain ⟨c', b'⟩ := x
    simp only [elifText, List.length_cons, List.length_append]
    omega

/-- `if … then … [elif … then …]* [else …] fi` -/
theorem if_rt (pc : CmdParser) (c b : List Item) (es : List ElifThen) (hasElse : Bool) (e : List Item)
    (hc : c ≠ []) (hb : b ≠ []) (he : hasElse = true → e ≠ []) (tail : List Char) (hn : NextOk tail)
    (after : List Char)
    (hafter : after = if hasElse then "else".toList ++ ' ' :: (printList true e ++ ' ' :: ("fi".toList ++ tail))
      else "fi".toList ++ tail)
    (h1 : ListRT pc true c (' ' :: ("then".toList ++ ' ' :: (printList true b ++ ' ' :: elifText es after))))
    (h2 : ListRT pc true b (' ' :: elifText es after))
    (h3 : ElifsRT pc es after)
    (h4 : hasElse = true → ListRT pc true e (' ' :: ("fi".toList ++ tail))) (sp : Bool) :
    parseCompound pc ((if sp then [' '] else []) ++
        (printCompound (.ifCmd c b es hasElse (if hasElse then e else [])) ++ tail)) =
      some (some (.ifCmd c b es hasElse (if hasElse then e else [])), tail) := by
  have hin : printCompound (.ifCmd c b es hasElse (if hasElse then e else [])) ++ tail =
      "if".toList ++ ' ' :: (printList true c ++ ' ' :: ("then".toList ++ ' ' ::
        (printList true b ++ ' ' :: elifText es after))) := by
    subst hafter
    cases hasElse <;> simp [printCompound, str, ← printElifs_eq]
  obtain ⟨t, ht, hkw, _, hop⟩ := lexToken_kw' "if" kw_if
    (' ' :: (printList true c ++ ' ' :: ("then".toList ++ ' ' ::
      (printList true b ++ ' ' :: elifText es after)))) (nextOk_blank _) sp
  have k1 : t.isKw "{" = false := by rw [hkw]; decide
  have k2 : t.isKw "for" = false := by rw [hkw]; decide
  have k3 : t.isKw "while" = false := by rw [hkw]; decide
  have k4 : t.isKw "until" = false := by rw [hkw]; decide
  have k5 : t.isKw "if" = true := by rw [hkw]; decide
  have e2 := listThenKw_rt pc "then" kw_then c hc
    (' ' :: (printList true b ++ ' ' :: elifText es after)) (nextOk_blank _) h1
  have e3 := fun f hf => h2 true (fun e => absurd e hb) f hf
  simp only [if_true, List.singleton_append] at e3
  have hbe : b.isEmpty = false := by
    cases b with
    | nil => exact absurd rfl hb
    | cons _ _ => rfl
  have hnoelif : expectKw "elif" (' ' :: after) = none := by
    subst hafter
    cases hasElse with
    | true =>
      have := expectKw_other "else" "elif" kw_else (by decide)
        (' ' :: (printList true e ++ ' ' :: ("fi".toList ++ tail))) (nextOk_blank _) true
      simpa using this
    | false =>
      have := expectKw_other "fi" "elif" kw_fi (by decide) tail hn true
      simpa using this
  have e4 := parseElifs_rt pc after hnoelif es ((' ' :: elifText es after).length + 2) (by
    have := elifText_length es after
    simp only [List.length_cons]; omega) h3
  rw [hin]
  simp only [parseCompound, ht, k1, k2, k3, k4, k5, hop, Bool.false_eq_true, if_false, Bool.or_self, if_true, e2]
  rw [e3 _ (one_le_add_two _)]
  simp only [hbe, Bool.false_eq_true, if_false, e4]
  subst hafter
  cases hasElse with
  | true =>
    have f1 := expectKw_kw "else" kw_else.chars kw_else.ne kw_else.kw
      (' ' :: (printList true e ++ ' ' :: ("fi".toList ++ tail))) (nextOk_blank _) true
    simp only [if_true, List.singleton_append] at f1
    have hene := he rfl
    have f2 := fun f hf => h4 rfl true (fun x => absurd x hene) f hf
    simp only [if_true, List.singleton_append] at f2
    have f3 := expectKw_kw "fi" kw_fi.chars kw_fi.ne kw_fi.kw tail hn true
    simp only [if_true, List.singleton_append] at f3
    have hee : e.isEmpty = false := by
      cases e with
      | nil => exact absurd rfl hene
      | cons _ _ => rfl
    simp only [if_true, f1]
    rw [f2 _ (one_le_add_two _)]
    simp only [hee, Bool.false_eq_true, if_false, f3, Option.map_some]
  | false =>
    have f0 := expectKw_other "fi" "else" kw_fi (by decide) tail hn true
    simp only [if_true, List.singleton_append] at f0
    have f3 := expectKw_kw "fi" kw_fi.chars kw_fi.ne kw_fi.kw tail hn true
    simp only [if_true, List.singleton_append] at f3
    simp only [Bool.false_eq_true, if_false, f0, f3, Option.map_some]


/-- the command parser on a simple command of the fragment (it is not taken for `name ( )`) -/
theorem parseCommand_simple (n : Nat) (c : SimpleCommand) (tail : List Char) (ht : TailOk tail)
    (h : SimpleOk c tail) (sp : Bool) :
    parseCommand (n + 1) ((if sp then [' '] else []) ++ (printSimple c ++ tail)) =
      some (some (.simple c), tail) := by
  have hp := parseSimple_tail c tail ht h sp
    (((if sp then [' '] else []) ++ (printSimple c ++ tail)).length + 2) (by
      simp only [List.length_append]; omega)
  rcases lexToken_tail tail ht with rfl | ⟨o, r, hl, hpl⟩
  · simp only [parseCommand, hp, lexToken_eof, Token.isOp]
    simp
  have ho : o ≠ .openParen := by
    intro e; subst e; revert hpl; decide
  simp only [parseCommand, hp, hl, Token.isOp]
  simp [ho]


/-- no simple command starts at a reserved word (with nothing before it) -/
theorem parseSimple_none_kw (cs : List Char) (t : Token) (r : List Char)
    (hl : lexToken cs = some (t, r)) (hk : t.id = .word true) :
    ∀ f, 1 ≤ f → parseSimple f cs = some (none, cs) := by
  intro f hf
  obtain ⟨k, rfl⟩ : ∃ k, f = k + 1 := ⟨f - 1, by omega⟩
  have hr : parseRedir cs = some (none, cs) := by
    unfold parseRedir
    rw [hl]
    simp only [hk]
    unfold parseRedirBody
    rw [hl]
    simp only [hk]
  simp [parseSimple, parseSimpleLoop, hr, hl, hk, Builder.isEmpty]

/-- no simple command starts at `(` -/
theorem parseSimple_none_paren (cs : List Char) (t : Token) (r : List Char)
    (hl : lexToken cs = some (t, r)) (hk : t.id = .op .openParen) :
    ∀ f, 1 ≤ f → parseSimple f cs = some (none, cs) := by
  intro f hf
  obtain ⟨k, rfl⟩ : ∃ k, f = k + 1 := ⟨f - 1, by omega⟩
  have hr : parseRedir cs = some (none, cs) := by
    unfold parseRedir
    rw [hl]
    simp only [hk]
    unfold parseRedirBody
    rw [hl]
    simp [hk, redirOpOf]
  simp [parseSimple, parseSimpleLoop, hr, hl, hk, Builder.isEmpty]

/-- a compound command followed by its redirections, at command level -/
theorem parseCommand_compound (n : Nat) (c : CompoundCommand) (rs : List Redir) (tail : List Char)
    (ht : TailOk tail) (hrs : RedirsOk rs tail) (sp : Bool)
    (hstart : ∃ t r, lexToken ((if sp then [' '] else []) ++ (printCompound c ++ (printRedirsSp rs ++ tail))) =
      some (t, r) ∧ (t.id = .word true ∨ t.id = .op .openParen))
    (hc : parseCompound (parseCommand n)
        ((if sp then [' '] else []) ++ (printCompound c ++ (printRedirsSp rs ++ tail))) =
      some (some c, printRedirsSp rs ++ tail)) :
    parseCommand (n + 1) ((if sp then [' '] else []) ++ (printCommand (.compound c rs) ++ tail)) =
      some (some (.compound c rs), tail) := by
  obtain ⟨t, r, hl, hk⟩ := hstart
  have hin : printCommand (.compound c rs) ++ tail = printCompound c ++ (printRedirsSp rs ++ tail) := by
    simp [printCommand]
  have hs : parseSimple (((if sp then [' '] else []) ++
      (printCompound c ++ (printRedirsSp rs ++ tail))).length + 2)
      ((if sp then [' '] else []) ++ (printCompound c ++ (printRedirsSp rs ++ tail))) =
      some (none, (if sp then [' '] else []) ++ (printCompound c ++ (printRedirsSp rs ++ tail))) := by
    rcases hk with hk | hk
    · exact parseSimple_none_kw _ t r hl hk _ (by omega)
    · exact parseSimple_none_paren _ t r hl hk _ (by omega)
  have hr := parseRedirs_rt tail ht rs ((printRedirsSp rs ++ tail).length + 2)
    (by have := redirsSp_length rs tail; omega) hrs
  rw [hin]
  simp only [parseCommand, hs, parseFullCompound, hc, hr, Option.map_some]


/-- test helpers for the kernel-evaluated instances below -/
def lw (s : String) : Word := digitsWord s.toList
def sc (ws : List String) : Command := .simple ⟨[], ws.map lw, []⟩
def it1 (c : Command) (async : Bool := false) : Item := .mk (.mk (.mk [c] false) []) async
def reads (prog : List Item) : Bool :=
  match parseProgram (printList false prog ++ [')']) with
  | some (l, r) => printList false l ++ r == printList false prog ++ [')'] && l.length == prog.length
  | none => false



/-! ## Composition: tails -/

/-- what follows a list inside a compound command: a blank (then a reserved word) or `)` -/
def ListTail (tail : List Char) : Prop := (∃ x, tail = ' ' :: x) ∨ (∃ x, tail = ')' :: x)

theorem lexToken_op1 (e : Char) (tail : List Char) (o : Op) (he : e ≠ '\\' ∧ isBlank e = false ∧ e ≠ '#')
    (ho : lexOperator (e :: tail) = some (o, tail)) :
    lexToken (e :: tail) = some (⟨[], .op o⟩, tail) := by
  have hk := skipLC_cons_ne e tail he.1
  unfold lexToken
  simp only []
  rw [skipBlanks_stop e tail hk he.2.1, skipComment_id e tail hk he.2.2, ho]

theorem lexToken_semi (tail : List Char) (h : ListTail tail) :
    lexToken (';' :: tail) = some (⟨[], .op .semicolon⟩, tail) := by
  apply lexToken_op1 ';' tail .semicolon ⟨by decide, by decide, by decide⟩
  rcases h with ⟨x, rfl⟩ | ⟨x, rfl⟩ <;> simp [lexOperator, opTail, skipLC_cons_ne, List.lookup]

theorem lexToken_amp (tail : List Char) (h : ListTail tail) :
    lexToken ('&' :: tail) = some (⟨[], .op .and⟩, tail) := by
  apply lexToken_op1 '&' tail .and ⟨by decide, by decide, by decide⟩
  rcases h with ⟨x, rfl⟩ | ⟨x, rfl⟩ <;> simp [lexOperator, opTail, skipLC_cons_ne, List.lookup]

theorem lexToken_rparen (x : List Char) :
    lexToken (')' :: x) = some (⟨[], .op .closeParen⟩, x) :=
  lexToken_op1 ')' x .closeParen ⟨by decide, by decide, by decide⟩
    (by simp [lexOperator, skipLC_cons_ne])

theorem lexToken_lparen (x : List Char) (sp : Bool) :
    lexToken ((if sp then [' '] else []) ++ '(' :: x) = some (⟨[], .op .openParen⟩, x) := by
  have hk := skipLC_cons_ne '(' x (by decide)
  have hsb : skipBlanks ((if sp then [' '] else []) ++ '(' :: x).length
      ((if sp then [' '] else []) ++ '(' :: x) = '(' :: x := by
    cases sp with
    | false => simpa using skipBlanks_stop '(' x hk (by decide) _
    | true =>
      have := skipBlanks_pre true '(' x hk (by decide) (([' '] ++ '(' :: x).length) (by simp)
      simpa using this
  unfold lexToken
  simp only []
  rw [hsb, skipComment_id '(' x hk (by decide)]
  simp [lexOperator, hk]

/-- the operators that must not follow a pipeline / an and-or list -/
def contOps : List Op := [.bar, .andAnd, .barBar]

theorem endsWithout_of (tail : List Char) (ht : TailOk tail) (o : Op) (r : List Char)
    (hl : lexToken tail = some (⟨[], .op o⟩, r)) (bad : List Op) (ho : o ∉ bad) :
    EndsWithout tail bad := by
  refine ⟨ht, ?_⟩
  intro o' r' h'
  rw [hl] at h'
  cases h'
  exact ho

theorem tailOk_cons (e : Char) (rest : List Char) (he : TermOk e) : TailOk (e :: rest) :=
  Or.inr ⟨false, e, rest, by simp, he⟩

theorem ends_semi (tail : List Char) (h : ListTail tail) (bad : List Op) (hb : ∀ x ∈ bad, x ∈ contOps) :
    EndsWithout (';' :: tail) bad :=
  endsWithout_of _ (tailOk_cons ';' tail (Or.inl rfl)) _ _ (lexToken_semi tail h) bad (fun hm => absurd (hb _ hm) (by decide))

theorem ends_amp (tail : List Char) (h : ListTail tail) (bad : List Op) (hb : ∀ x ∈ bad, x ∈ contOps) :
    EndsWithout ('&' :: tail) bad :=
  endsWithout_of _ (tailOk_cons '&' tail (Or.inr (Or.inl rfl))) _ _ (lexToken_amp tail h) bad (fun hm => absurd (hb _ hm) (by decide))

theorem ends_rparen (x : List Char) (bad : List Op) (hb : ∀ y ∈ bad, y ∈ contOps) :
    EndsWithout (')' :: x) bad :=
  endsWithout_of _ (tailOk_cons ')' x (Or.inr (Or.inr (Or.inr (Or.inl rfl))))) _ _ (lexToken_rparen x)
    bad (fun hm => absurd (hb _ hm) (by decide))

/-- ` && …` and ` || …` after a pipeline are not `|` -/
theorem ends_aoRest (r : AndOrRest) (rs : List AndOrRest) (tail : List Char) :
    EndsWithout (aoRest (r :: rs) tail) [.bar] := by
  obtain ⟨isAnd, p⟩ := r
  cases isAnd with
  | true =>
    exact endsWithout_of _ (Or.inr ⟨true, '&', '&' :: ' ' :: (printPipeline p ++ aoRest rs tail), by simp [aoRest],
      Or.inr (Or.inl rfl)⟩) _ _
      (by simpa [aoRest] using lexToken_andand (printPipeline p ++ aoRest rs tail)) _ (by decide)
  | false =>
    exact endsWithout_of _ (Or.inr ⟨true, '|', '|' :: ' ' :: (printPipeline p ++ aoRest rs tail), by simp [aoRest],
      Or.inr (Or.inr (Or.inl rfl))⟩) _ _
      (by simpa [aoRest] using lexToken_barbar (printPipeline p ++ aoRest rs tail)) _ (by decide)

/-- ` | …` after a command -/
theorem tailOk_pipeRest (d : Command) (ds : List Command) (tail : List Char) :
    TailOk (pipeRest (d :: ds) tail) :=
  Or.inr ⟨true, '|', ' ' :: (printCommand d ++ pipeRest ds tail), by simp [pipeRest], Or.inr (Or.inr (Or.inl rfl))⟩

theorem tailOk_aoRest (r : AndOrRest) (rs : List AndOrRest) (tail : List Char) :
    TailOk (aoRest (r :: rs) tail) := (ends_aoRest r rs tail).1


/-- tokens at which no command starts: a reserved word that opens nothing, or an operator that is neither a
    redirection nor `(` -/
def NoStart (t : Token) : Prop :=
  (t.id = .word true ∧ ∀ k ∈ ["{", "for", "while", "until", "if", "case", "function", "[[", "namespace",
      "select"], t.isKw k = false) ∨
  (∃ o, t.id = .op o ∧ o.plain = true)

theorem parseRedir_none_op (cs : List Char) (t : Token) (r : List Char) (o : Op)
    (hl : lexToken cs = some (t, r)) (hk : t.id = .op o) (hp : o.plain = true) :
    parseRedir cs = some (none, cs) := by
  simp only [Op.plain, Bool.and_eq_true, Option.isNone_iff_eq_none, bne_iff_ne, ne_eq] at hp
  obtain ⟨⟨⟨⟨⟨p1, p2⟩, p3⟩, p4⟩, p5⟩, _⟩ := hp
  unfold parseRedir
  rw [hl]
  simp only [hk]
  unfold parseRedirBody
  rw [hl]
  simp [hk, p1, p2, p3, p4, p5]

theorem parseSimple_none_op (cs : List Char) (t : Token) (r : List Char) (o : Op)
    (hl : lexToken cs = some (t, r)) (hk : t.id = .op o) (hp : o.plain = true) :
    ∀ f, 1 ≤ f → parseSimple f cs = some (none, cs) := by
  intro f hf
  obtain ⟨k, rfl⟩ : ∃ k, f = k + 1 := ⟨f - 1, by omega⟩
  have hr := parseRedir_none_op cs t r o hl hk hp
  simp [parseSimple, parseSimpleLoop, hr, hl, hk, Builder.isEmpty]

theorem isKw_of_op (t : Token) (o : Op) (hk : t.id = .op o) (k : String) : t.isKw k = false := by
  simp [Token.isKw, hk]

/-- the command parser finds no command at such a token -/
theorem parseCommand_none (n : Nat) (cs : List Char) (t : Token) (r : List Char)
    (hl : lexToken cs = some (t, r)) (h : NoStart t) :
    parseCommand (n + 1) cs = some (none, cs) := by
  have hs : parseSimple (cs.length + 2) cs = some (none, cs) := by
    rcases h with ⟨hk, _⟩ | ⟨o, hk, hp⟩
    · exact parseSimple_none_kw cs t r hl hk _ (by omega)
    · exact parseSimple_none_op cs t r o hl hk hp _ (by omega)
  have kws : ∀ k ∈ ["{", "for", "while", "until", "if", "case", "function", "[[", "namespace", "select"],
      t.isKw k = false := by
    rcases h with ⟨_, h⟩ | ⟨o, hk, _⟩
    · exact h
    · intro k _; exact isKw_of_op t o hk k
  have hop : t.isOp .openParen = false := by
    rcases h with ⟨hk, _⟩ | ⟨o, hk, hp⟩
    · simp [Token.isOp, hk]
    · have : o ≠ .openParen := by intro e; subst e; revert hp; decide
      simp [Token.isOp, hk, this]
  have hc : parseCompound (parseCommand n) cs = some (none, cs) := by
    simp only [parseCompound, hl, kws "{" (by simp), kws "for" (by simp), kws "while" (by simp),
      kws "until" (by simp), kws "if" (by simp), kws "case" (by simp), hop, Bool.false_eq_true, if_false,
      Bool.or_self]
  simp only [parseCommand, hs, parseFullCompound, hc, hl, kws "function" (by simp), kws "[[" (by simp),
    kws "namespace" (by simp), kws "select" (by simp), Bool.or_self, Bool.false_eq_true, if_false]

end YashModel.Syntax
